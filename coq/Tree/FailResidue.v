(* Tree/FailResidue.v — C11: the residue of the three Known11 classes, by theorem.
   move (K11_move_noname / K11_move_refwrite): after a move that fails late
       - the moved element carries the parent link of the DESTINATION,
       - its former parent no longer lists it, the destination does not list it, nobody does (under C03's Core):
         the element is detached from the tree but not marked removed,
       - no node has gained a child, every other parent link, w_next and the files are what they were
       (the path index / referrer map of the model may be partially updated: not characterised here).
   set_reference_target (K11_setref): the world differs from the old one in exactly two places: the attribute list of the
       reference element (DEST written) and the referrer map of its model (the element moved / added under the new
       path); its text, every other node, the path index, files, roots are the same. *)
From Coq Require Import Lia.
From AV Require Import Base.Bytes Base.Outcome Hash.HashModel Tree.Heap Tree.Ops Tree.Script Tree.Inv
  Tree.FailProofsBase Tree.FailProofsOps Tree.Fail Tree.FailProofsLate Tree.FailProofsMove Tree.FailProofsInv Tree.FailRepair.
Open Scope string_scope.
Open Scope list_scope.
Open Scope N_scope.

(* no node gains a child *)
Definition nnc (w w' : world) : Prop :=
  w_next w' = w_next w /\ w_files w' = w_files w /\
  forall p n' c, w_nodes w' p = Some n' -> In (CElem c) (n_content n') ->
                 exists n, w_nodes w p = Some n /\ In (CElem c) (n_content n).
Lemma nnc_refl w : nnc w w. Proof. repeat split; auto. intros p n' c H1 H2. eauto. Qed.
Lemma nnc_trans a b c : nnc a b -> nnc b c -> nnc a c.
Proof.
  intros (A1 & A2 & A3) (B1 & B2 & B3). repeat split; try congruence.
  intros p n' x H1 H2. destruct (B3 _ _ _ H1 H2) as (n & H3 & H4). eapply A3; eauto.
Qed.
Lemma nnc_models w fs ms : fs = w_files w -> nnc w (mkWorld (w_nodes w) (w_next w) fs ms).
Proof. intros ->. repeat split; auto. intros p n' c H1 H2. eauto. Qed.
Lemma nnc_upd w i n n' fs ms :
  w_nodes w i = Some n -> fs = w_files w ->
  (forall c, In (CElem c) (n_content n') -> In (CElem c) (n_content n)) ->
  nnc w (mkWorld (upd (w_nodes w) i n') (w_next w) fs ms).
Proof.
  intros Hn -> Hs. repeat split; auto. intros p np c H1 H2. cbn [w_nodes] in H1. unfold upd in H1.
  destruct (p =? i) eqn:E; [apply N.eqb_eq in E; subst p; injection H1 as <-; eauto|eauto].
Qed.

Definition allN {A} (m : W A) : Prop := forall w r w', m w = Val (r, w') -> nnc w w'.
Definition errN {A} (m : W A) : Prop := forall w e w', m w = Val (ER e, w') -> nnc w w'.

Lemma allN_ro {A} (m : W A) : ro m -> allN m.
Proof. intros H w r w' E. apply H in E. subst. apply nnc_refl. Qed.
Lemma allN_bind {A B} (m : W A) (k : A -> W B) : allN m -> (forall a, allN (k a)) -> allN (wbind m k).
Proof.
  intros Hm Hk w r w' H. apply wbind_inv in H as [(a & w1 & H1 & H2) | (e' & H1 & ->)].
  - eapply nnc_trans; [eapply Hm|eapply Hk]; eauto.
  - eapply Hm; eauto.
Qed.
Lemma allN_try {A} (m : W A) : allN m -> allN (wtry m).
Proof. intros Hm w r w' H. apply wtry_inv in H as (r0 & H & _). eapply Hm; eauto. Qed.
Lemma errN_bind {A B} (m : W A) (k : A -> W B) : allN m -> (forall a, errN (k a)) -> errN (wbind m k).
Proof.
  intros Hm Hk w e w' H. apply wbind_inv in H as [(a & w1 & H1 & H2) | (e' & H1 & _)].
  - eapply nnc_trans; [eapply Hm|eapply Hk]; eauto.
  - eapply Hm; eauto.
Qed.
Lemma errN_of_nofail {A} (m : W A) : nofail m -> errN m.
Proof. intros H w e w' E. exfalso. eapply H; eauto. Qed.
Lemma allN_set_model m x : allN (set_model m x).
Proof. intros w r w' H. apply set_model_inv in H as (_ & ->). apply nnc_models. reflexivity. Qed.
Lemma allN_modify_model m f : allN (modify_model m f).
Proof. intros w r w' H. apply modify_model_inv in H as (x & _ & _ & ->). apply nnc_models. reflexivity. Qed.
Lemma allN_modify_node i f :
  (forall x c, In (CElem c) (n_content (f x)) -> In (CElem c) (n_content x)) -> allN (modify_node i f).
Proof. intros Hf w r w' H. apply modify_node_inv in H as (n & Hn & _ & ->). eapply nnc_upd; eauto. Qed.

Section Residue.
Variable T : tables.
Variable tab_el tab_en : nametab.
Variable check_fn : N -> list N -> res bool.
Variable LATEST : N.
Variable root_attrs : list (N * cdata).

Lemma allN_raw_set_character_data i v version : allN (raw_set_character_data T check_fn i v version).
Proof.
  intros w r w' H. unfold raw_set_character_data in H.
  wstep H; [|apply nnc_refl]. winvs. wstep H; [|apply nnc_refl]. winvs.
  match type of H with (if ?b then _ else _) _ = _ => destruct b end; [|winvs; apply nnc_refl].
  wstep H; [|apply nnc_refl]. winvs.
  match type of H with (match ?x with _ => _ end) _ = _ => destruct x end; [|winvs; apply nnc_refl].
  wstep H; [|apply nnc_refl]. winvs.
  match type of H with (if ?b then _ else _) _ = _ => destruct b end; [|winvs; apply nnc_refl].
  apply set_node_inv in H as (_ & ->). eapply nnc_upd; eauto.
  intros ch Hc. cbn [set_content n_content] in Hc. destruct (n_content n) as [|x rest]; [destruct Hc as [Q|[]]; discriminate Q|].
  destruct Hc as [Q|Hc]; [discriminate Q|right; exact Hc].
Qed.

Lemma allN_make_unique_item_name i m pp : allN (make_unique_item_name T i m pp).
Proof.
  unfold make_unique_item_name.
  repeat first [ apply allN_ro; solve [ro_tac]
               | apply allN_modify_node; intros ? ? Hq; cbn [set_content n_content] in Hq; destruct Hq as [Hq|[]]; discriminate Hq
               | apply allN_bind; [|intros ?]
               | match goal with |- allN (match ?x with _ => _ end) => destruct x
                                 | |- allN (if ?b then _ else _) => destruct b
                                 | |- allN (let '(_, _) := ?x in _) => destruct x end ].
Qed.
Lemma allN_fix_identifiables m a b : allN (fix_identifiables m a b).
Proof. unfold fix_identifiables. apply allN_modify_model. Qed.
Lemma allN_add_identifiable m p e : allN (add_identifiable m p e).
Proof. unfold add_identifiable. apply allN_modify_model. Qed.
Lemma allN_remove_identifiable m p : allN (remove_identifiable m p).
Proof. unfold remove_identifiable. apply allN_modify_model. Qed.
Lemma allN_add_reference_origin m r e : allN (add_reference_origin m r e).
Proof. unfold add_reference_origin. apply allN_modify_model. Qed.
Lemma allN_remove_reference_origin m r e : allN (remove_reference_origin m r e).
Proof. unfold remove_reference_origin. apply allN_modify_model. Qed.

End Residue.

Ltac allN_step :=
  first
  [ apply allN_raw_set_character_data | apply allN_make_unique_item_name | apply allN_fix_identifiables
  | apply allN_add_identifiable | apply allN_remove_identifiable | apply allN_add_reference_origin
  | apply allN_remove_reference_origin
  | apply allN_ro; solve [ro_tac]
  | apply allN_set_model | apply allN_modify_model
  | apply allN_modify_node; intros ? ? ?; cbn [set_content set_parent n_content] in *;
    solve [ assumption | match goal with Hq : In _ [CData _] |- _ => destruct Hq as [Hq|[]]; discriminate Hq end ]
  | apply allN_try
  | apply allN_bind; [ | intros ? ]
  | match goal with
    | |- allN (match ?x with _ => _ end) => destruct x
    | |- allN (if ?b then _ else _) => destruct b
    | |- allN (let '(_, _) := ?x in _) => destruct x
    end ].
Ltac allN_tac := repeat allN_step.
Ltac allN_loop :=
  match goal with
  | |- allN (_ ?l) => induction l as [|? ?rest ?IHr]; allN_tac; auto
  end.
Ltac allN_loop_pair :=
  match goal with
  | |- allN (_ ?l) => induction l as [|[? ?] ? IHl]; allN_tac; auto
  end.

Section MoveResidue.
Variable T : tables.
Variable tab_el tab_en : nametab.
Variable check_fn : N -> list N -> res bool.
Variable LATEST : N.
Variable root_attrs : list (N * cdata).

Ltac wl1 H := wer H; [|left; reflexivity].

(* the world right after the unlinking from the source parent *)
Definition unlinked (w : world) (src_parent : id) (pn : node) (k : nat) : world :=
  mkWorld (upd (w_nodes w) src_parent (set_content pn (remove_at (n_content pn) k))) (w_next w) (w_files w) (w_models w).

Lemma allN_reparent mv self : allN (modify_node mv (fun x => set_parent x (PElem self))).
Proof. apply allN_modify_node. intros x c Hc. exact Hc. Qed.

Lemma move_local_residue self mv pos m version w e w' :
  move_element_local T check_fn self mv pos m version w = Val (ER e, w') ->
  w' = w \/
  exists mn src_parent pn k,
    w_nodes w mv = Some mn /\ n_parent mn = PElem src_parent /\ w_nodes w src_parent = Some pn /\
    index_of (citem_is mv) (n_content pn) = Some k /\ nnc (unlinked w src_parent pn k) w'.
Proof.
  intros H. unfold move_element_local in H.
  wl1 H. winvs. wl1 H. winvs. wl1 H.
  match type of H with (if ?b then _ else _) _ = _ => destruct b end; [winvs; left; reflexivity|].
  wl1 H. winvs. wl1 H.
  match type of H with (match ?x with _ => _ end) _ = _ => destruct x as [src_parent|] end; [|winvs; left; reflexivity].
  match goal with E : parent_of ?x w = Val (OK (Some src_parent), _) |- _ => rename E into Epar; rename x into mn end.
  match goal with Hx : w_nodes w mv = Some mn |- _ => rename Hx into Hmn end.
  assert (Hpar : n_parent mn = PElem src_parent).
  { unfold parent_of in Epar. destruct (n_parent mn) as [|mm|pp]; [discriminate Epar| |].
    - apply wret_inv in Epar as (Q & _). discriminate Q.
    - apply wret_inv in Epar as (Q & _). injection Q as ->. reflexivity. }
  wl1 H. wl1 H. wl1 H.
  match type of H with (if ?b then _ else _) _ = _ => destruct b end; [winvs; left; reflexivity|].
  wl1 H. wl1 H.
  wer H. 2:{ left. eapply nf_detach_from; eauto. }
  match goal with E : detach_from _ _ _ = Val _ |- _ => rename E into Edet end.
  unfold detach_from in Edet. wok Edet. winvs.
  match goal with Hx : w_nodes w src_parent = Some ?x |- _ => rename x into pn; rename Hx into Hpn end.
  destruct (index_of (citem_is mv) (n_content pn)) as [k|] eqn:Eidx; [|discriminate Edet].
  apply set_node_inv in Edet as (_ & ->).
  right. exists mn, src_parent, pn, k. repeat (split; [assumption|]).
  match type of H with ?tail ?w1 = _ => assert (Hl : errN tail) end.
  { clear. apply errN_bind; [apply allN_reparent|intros ?].
    repeat (apply errN_bind; [solve [allN_tac; try (allN_loop; try allN_loop)] | intros ?]).
    apply errN_of_nofail. nofail_tac. }
  exact (Hl _ _ _ H).
Qed.

Lemma move_full_residue self mv pos m m_src version w e w' :
  move_element_full T tab_en check_fn self mv pos m m_src version w = Val (ER e, w') ->
  w' = w \/
  exists mn src_parent pn k,
    w_nodes w mv = Some mn /\ n_parent mn = PElem src_parent /\ w_nodes w src_parent = Some pn /\
    index_of (citem_is mv) (n_content pn) = Some k /\ nnc (unlinked w src_parent pn k) w'.
Proof.
  intros H. unfold move_element_full in H.
  wl1 H. winvs. wl1 H. winvs. wl1 H. wl1 H. wl1 H.
  match type of H with (match ?x with _ => _ end) _ = _ => destruct x as [src_parent|] end; [|winvs; left; reflexivity].
  match goal with E : parent_of ?x w = Val (OK (Some src_parent), _) |- _ => rename E into Epar; rename x into mn end.
  match goal with Hx : w_nodes w mv = Some mn |- _ => rename Hx into Hmn end.
  assert (Hpar : n_parent mn = PElem src_parent).
  { unfold parent_of in Epar. destruct (n_parent mn) as [|mm|pp]; [discriminate Epar| |].
    - apply wret_inv in Epar as (Q & _). discriminate Q.
    - apply wret_inv in Epar as (Q & _). injection Q as ->. reflexivity. }
  wl1 H. winvs. wl1 H. wl1 H. wl1 H.
  wer H. 2:{ left. eapply nf_detach_from; eauto. }
  match goal with E : detach_from _ _ _ = Val _ |- _ => rename E into Edet end.
  unfold detach_from in Edet. wok Edet. winvs.
  match goal with Hx : w_nodes w src_parent = Some ?x |- _ => rename x into pn; rename Hx into Hpn end.
  destruct (index_of (citem_is mv) (n_content pn)) as [k|] eqn:Eidx; [|discriminate Edet].
  apply set_node_inv in Edet as (_ & ->).
  right. exists mn, src_parent, pn, k. repeat (split; [assumption|]).
  match type of H with ?tail ?w1 = _ => assert (Hl : errN tail) end.
  { clear. apply errN_bind; [solve [allN_loop_pair]|intros ?]. apply errN_bind; [solve [allN_loop_pair]|intros ?].
    apply errN_bind; [apply allN_reparent|intros ?].
    repeat (apply errN_bind; [solve [allN_tac; try allN_loop_pair] | intros ?]).
    apply errN_of_nofail. nofail_tac. }
  exact (Hl _ _ _ H).
Qed.

(* every parent link after a late failure: the moved element points to the destination, all others are unchanged *)
Definition reparented (w w' : world) (self mv : id) : Prop :=
  forall i, parent_link w' i = if i =? mv then Some (PElem self) else parent_link w i.

Lemma parent_link_unlinked w src_parent pn k i :
  w_nodes w src_parent = Some pn -> parent_link (unlinked w src_parent pn k) i = parent_link w i.
Proof.
  intros Hpn. unfold parent_link, unlinked. cbn [w_nodes]. unfold upd. destruct (i =? src_parent) eqn:E; [|reflexivity].
  apply N.eqb_eq in E. subst i. rewrite Hpn. reflexivity.
Qed.

Lemma move_local_parents self mv pos m version w e w' :
  move_element_local T check_fn self mv pos m version w = Val (ER e, w') ->
  w' = w \/ (late_err e /\ reparented w w' self mv).
Proof.
  intros H. unfold move_element_local in H.
  wl1 H. winvs. wl1 H. winvs. wl1 H.
  match type of H with (if ?b then _ else _) _ = _ => destruct b end; [winvs; left; reflexivity|].
  wl1 H. winvs. wl1 H.
  match type of H with (match ?x with _ => _ end) _ = _ => destruct x as [src_parent|] end; [|winvs; left; reflexivity].
  wl1 H. wl1 H. wl1 H.
  match type of H with (if ?b then _ else _) _ = _ => destruct b end; [winvs; left; reflexivity|].
  wl1 H. wl1 H.
  wer H. 2:{ left. eapply nf_detach_from; eauto. }
  match goal with E : detach_from _ _ _ = Val _ |- _ => rename E into Edet end.
  unfold detach_from in Edet. wok Edet. winvs.
  match goal with Hx : w_nodes w src_parent = Some ?x |- _ => rename x into pn; rename Hx into Hpn end.
  destruct (index_of (citem_is mv) (n_content pn)) as [k|] eqn:Eidx; [|discriminate Edet].
  apply set_node_inv in Edet as (_ & ->). fold (unlinked w src_parent pn k) in H.
  wer H; [|exfalso; noer].
  match goal with E : modify_node _ _ _ = Val _ |- _ => apply modify_node_inv in E as (n1 & Hn1 & _ & ->) end.
  right.
  match type of H with ?tail ?w2 = _ => assert (Hl : late tail) end.
  { clear. late_tac. all: try late_loop. all: try late_loop. }
  destruct (Hl _ _ _ H) as (S & He). split; [apply He; reflexivity|].
  intros i. rewrite (proj2 S i). unfold parent_link at 1. cbn [w_nodes]. unfold upd at 1.
  destruct (i =? mv) eqn:Ei; [reflexivity|]. fold (parent_link (unlinked w src_parent pn k) i).
  apply parent_link_unlinked. exact Hpn.
Qed.

Lemma move_full_parents self mv pos m m_src version w e w' :
  move_element_full T tab_en check_fn self mv pos m m_src version w = Val (ER e, w') ->
  w' = w \/ (late_err e /\ reparented w w' self mv).
Proof.
  intros H. unfold move_element_full in H.
  wl1 H. winvs. wl1 H. winvs. wl1 H. wl1 H. wl1 H.
  match type of H with (match ?x with _ => _ end) _ = _ => destruct x as [src_parent|] end; [|winvs; left; reflexivity].
  wl1 H. winvs. wl1 H. wl1 H. wl1 H.
  wer H. 2:{ left. eapply nf_detach_from; eauto. }
  match goal with E : detach_from _ _ _ = Val _ |- _ => rename E into Edet end.
  unfold detach_from in Edet. wok Edet. winvs.
  match goal with Hx : w_nodes w src_parent = Some ?x |- _ => rename x into pn; rename Hx into Hpn end.
  destruct (index_of (citem_is mv) (n_content pn)) as [k|] eqn:Eidx; [|discriminate Edet].
  apply set_node_inv in Edet as (_ & ->). fold (unlinked w src_parent pn k) in H.
  (* the two clean-up loops of the source model keep every node *)
  wer H.
  2:{ exfalso. match goal with E : _ = Val (ER _, _) |- _ => revert E end. clear.
      match goal with |- ?loop ?l ?w = _ -> _ => intros E; refine ((_ : nofail (loop l)) w _ _ E) end.
      clear. match goal with |- nofail (_ ?l) => induction l as [|[? ?] ? IHl]; nofail_tac; auto end. }
  match goal with E : ?loop ?l (unlinked w src_parent pn k) = Val (OK _, ?wa) |- _ =>
    assert (Sa : sp (unlinked w src_parent pn k) wa);
    [refine ((_ : keeps (loop l)) _ _ _ E); clear;
     match goal with |- keeps (_ ?l) => induction l as [|[? ?] ? IHl];
       [apply keeps_ro; ro_tac|apply keeps_bind; [apply keeps_remove_identifiable|intros ?; exact IHl]] end|] end.
  wer H.
  2:{ exfalso. match goal with E : _ = Val (ER _, _) |- _ => revert E end. clear.
      match goal with |- ?loop ?l ?w = _ -> _ => intros E; refine ((_ : nofail (loop l)) w _ _ E) end.
      clear. match goal with |- nofail (_ ?l) => induction l as [|[? ?] ? IHl]; nofail_tac; auto end. }
  match goal with E : ?loop ?l ?wa = Val (OK _, ?wb), Sx : sp _ ?wa |- _ =>
    assert (Sb : sp wa wb);
    [refine ((_ : keeps (loop l)) _ _ _ E); clear;
     match goal with |- keeps (_ ?l) => induction l as [|[? ?] ? IHl];
       [apply keeps_ro; ro_tac|apply keeps_bind; [apply keeps_remove_reference_origin|intros ?; exact IHl]] end|] end.
  wer H; [|exfalso; noer].
  match goal with E : modify_node _ _ _ = Val _ |- _ => apply modify_node_inv in E as (n1 & Hn1 & _ & ->) end.
  right.
  match type of H with ?tail ?w2 = _ => assert (Hl : late tail) end.
  { clear. late_tac.
    all: try match goal with |- late (_ ?l) => induction l as [|[? ?] ? IHl]; late_tac; auto end. }
  destruct (Hl _ _ _ H) as (S & He). split; [apply He; reflexivity|].
  intros i. rewrite (proj2 S i). unfold parent_link at 1. cbn [w_nodes]. unfold upd at 1.
  destruct (i =? mv) eqn:Ei; [reflexivity|].
  match goal with |- option_map n_parent (w_nodes ?wb i) = _ => change (parent_link wb i = parent_link w i) end.
  rewrite (proj2 Sb i), (proj2 Sa i). apply parent_link_unlinked. exact Hpn.
Qed.

(* ---------- the public calls ---------- *)
Lemma e_move_here_reduce h mv w e w' :
  e_move_element_here T tab_en check_fn LATEST h mv w = Val (ER e, w') ->
  w' = w \/ (exists pos m version, move_element_local T check_fn h mv pos m version w = Val (ER e, w')) \/
  (exists pos m m_src version, move_element_full T tab_en check_fn h mv pos m m_src version w = Val (ER e, w')).
Proof.
  intros H. unfold e_move_element_here in H.
  destruct (h =? mv); [winvs; left; reflexivity|].
  wl1 H. wl1 H. wl1 H. wl1 H.
  match type of H with (if ?b then _ else _) _ = _ => destruct b end; [winvs; left; reflexivity|].
  wl1 H. winvs. wl1 H. winvs. wl1 H.
  match type of H with (match ?x with _ => _ end) _ = _ => destruct x as (rs, re) end.
  match type of H with (if ?b then _ else _) _ = _ => destruct b end.
  - wl1 H. match type of H with (match ?x with _ => _ end) _ = _ => destruct x as [p|] end; [|winvs; left; reflexivity].
    destruct (p =? h); [winvs|]. right. left. eauto.
  - right. right. eauto.
Qed.

Lemma e_move_here_at_reduce h mv pos w e w' :
  e_move_element_here_at T tab_en check_fn LATEST h mv pos w = Val (ER e, w') ->
  w' = w \/ (exists pos m version, move_element_local T check_fn h mv pos m version w = Val (ER e, w')) \/
  (exists pos m m_src version, move_element_full T tab_en check_fn h mv pos m m_src version w = Val (ER e, w')).
Proof.
  intros H. unfold e_move_element_here_at in H.
  destruct (h =? mv); [winvs; left; reflexivity|].
  wl1 H. wl1 H. wl1 H. wl1 H.
  match type of H with (if ?b then _ else _) _ = _ => destruct b end; [winvs; left; reflexivity|].
  wl1 H. winvs. wl1 H. winvs. wl1 H.
  match type of H with (match ?x with _ => _ end) _ = _ => destruct x as (rs, re) end.
  match type of H with (if ?b then _ else _) _ = _ => destruct b end; [|winvs; left; reflexivity].
  match type of H with (if ?b then _ else _) _ = _ => destruct b end.
  - wl1 H. match type of H with (match ?x with _ => _ end) _ = _ => destruct x as [p|] end; [|winvs; left; reflexivity].
    destruct (p =? h).
    + left. revert H. apply nf_move_element_position.
    + right. left. eauto.
  - right. right. eauto.
Qed.

Lemma in_remove_at {A} (x : A) l k : In x (remove_at l k) -> In x l.
Proof.
  revert k. induction l as [|y l IH]; intros [|k] H; cbn in *; auto. destruct H as [->|H]; [left; reflexivity|right; eauto].
Qed.

Lemma removed_not_in mv l k :
  index_of (citem_is mv) l = Some k -> NoDup (elems l) -> ~ In (CElem mv) (remove_at l k).
Proof.
  revert k. induction l as [|y l IH]; intros k Hk Hnd; cbn [index_of] in Hk; [discriminate Hk|].
  destruct (citem_is mv y) eqn:Ey.
  - injection Hk as <-. cbn [remove_at]. destruct y as [c|d]; cbn in Ey; [|discriminate Ey]. apply N.eqb_eq in Ey. subst c.
    cbn in Hnd. inversion Hnd as [|? ? Hni _]; subst. intros Hin. apply Hni.
    unfold elems. apply in_flat_map. exists (CElem mv). split; [exact Hin|left; reflexivity].
  - destruct (index_of (citem_is mv) l) as [k'|] eqn:Ek; [|discriminate Hk]. injection Hk as <-. cbn [remove_at].
    intros [Q|Hin].
    + subst y. cbn in Ey. rewrite N.eqb_refl in Ey. discriminate Ey.
    + eapply IH; eauto. destruct y as [c|d]; cbn in Hnd; [inversion Hnd; assumption|exact Hnd].
Qed.

(* THE RESIDUE of a move that failed late *)
Definition move_residue (w w' : world) (h mv : id) (e : err) : Prop :=
  (e = ElementNotIdentifiable \/ e = IncorrectContentType) /\
  exists src_parent,
    parent_link w mv = Some (PElem src_parent) /\
    (* parent links: the moved element points to the destination, nothing else moved *)
    (forall i, parent_link w' i = if i =? mv then Some (PElem h) else parent_link w i) /\
    w_next w' = w_next w /\ w_files w' = w_files w /\
    (* content lists: nobody gained a child, and NOBODY lists the moved element any more *)
    (forall p n' c, w_nodes w' p = Some n' -> In (CElem c) (n_content n') ->
                    exists n, w_nodes w p = Some n /\ In (CElem c) (n_content n)) /\
    (forall p n', w_nodes w' p = Some n' -> ~ In (CElem mv) (n_content n')).

Lemma residue_assemble w w' h mv e mn src_parent pn k :
  Core w -> late_err e -> reparented w w' h mv ->
  w_nodes w mv = Some mn -> n_parent mn = PElem src_parent -> w_nodes w src_parent = Some pn ->
  index_of (citem_is mv) (n_content pn) = Some k -> nnc (unlinked w src_parent pn k) w' ->
  move_residue w w' h mv e.
Proof.
  intros HC He Hrp Hmn Hpar Hpn Hk (N1 & N2 & N3). split; [exact He|]. exists src_parent.
  split; [unfold parent_link; rewrite Hmn; cbn; congruence|]. split; [exact Hrp|].
  split; [exact N1|]. split; [exact N2|].
  assert (Hold : forall p n' c, w_nodes w' p = Some n' -> In (CElem c) (n_content n') ->
            exists n, w_nodes (unlinked w src_parent pn k) p = Some n /\ In (CElem c) (n_content n)) by exact N3.
  split.
  - intros p n' c H1 H2. destruct (Hold p n' c H1 H2) as (n & Hn & Hin). unfold unlinked in Hn. cbn [w_nodes] in Hn.
    unfold upd in Hn. destruct (p =? src_parent) eqn:Ep.
    + apply N.eqb_eq in Ep. subst p. injection Hn as <-. cbn [set_content n_content] in Hin.
      exists pn. split; [exact Hpn|]. eapply in_remove_at; eauto.
    + eauto.
  - intros p n' H1 H2. destruct (Hold p n' mv H1 H2) as (n & Hn & Hin). unfold unlinked in Hn. cbn [w_nodes] in Hn.
    unfold upd in Hn. destruct (p =? src_parent) eqn:Ep.
    + injection Hn as <-. cbn [set_content n_content] in Hin.
      eapply removed_not_in; eauto. exact (c_nodup w HC src_parent pn Hpn).
    + apply N.eqb_neq in Ep. apply Ep.
      destruct (c_up w HC p mv) as (mn' & Hmn' & Hp').
      * exists n. split; [exact Hn|]. apply in_elems11. exact Hin.
      * congruence.
Qed.

Theorem move_here_residue h mv w e w' :
  Core w -> e_move_element_here T tab_en check_fn LATEST h mv w = Val (ER e, w') ->
  w' = w \/ move_residue w w' h mv e.
Proof.
  intros HC H. destruct (e_move_here_reduce _ _ _ _ _ H) as [->|[(pos & m & v & Hl)|(pos & m & ms & v & Hf)]]; [left; reflexivity| |].
  - destruct (move_local_parents _ _ _ _ _ _ _ _ Hl) as [->|(He & Hrp)]; [left; reflexivity|].
    destruct (move_local_residue _ _ _ _ _ _ _ _ Hl) as [->|(mn & sp0 & pn & k & A1 & A2 & A3 & A4 & A5)]; [left; reflexivity|].
    right. eapply residue_assemble; eauto.
  - destruct (move_full_parents _ _ _ _ _ _ _ _ _ Hf) as [->|(He & Hrp)]; [left; reflexivity|].
    destruct (move_full_residue _ _ _ _ _ _ _ _ _ Hf) as [->|(mn & sp0 & pn & k & A1 & A2 & A3 & A4 & A5)]; [left; reflexivity|].
    right. eapply residue_assemble; eauto.
Qed.

Theorem move_here_at_residue h mv pos w e w' :
  Core w -> e_move_element_here_at T tab_en check_fn LATEST h mv pos w = Val (ER e, w') ->
  w' = w \/ move_residue w w' h mv e.
Proof.
  intros HC H. destruct (e_move_here_at_reduce _ _ _ _ _ _ H) as [->|[(pos' & m & v & Hl)|(pos' & m & ms & v & Hf)]]; [left; reflexivity| |].
  - destruct (move_local_parents _ _ _ _ _ _ _ _ Hl) as [->|(He & Hrp)]; [left; reflexivity|].
    destruct (move_local_residue _ _ _ _ _ _ _ _ Hl) as [->|(mn & sp0 & pn & k & A1 & A2 & A3 & A4 & A5)]; [left; reflexivity|].
    right. eapply residue_assemble; eauto.
  - destruct (move_full_parents _ _ _ _ _ _ _ _ _ Hf) as [->|(He & Hrp)]; [left; reflexivity|].
    destruct (move_full_residue _ _ _ _ _ _ _ _ _ Hf) as [->|(mn & sp0 & pn & k & A1 & A2 & A3 & A4 & A5)]; [left; reflexivity|].
    right. eapply residue_assemble; eauto.
Qed.

End MoveResidue.

(* ====================================================================== set_reference_target *)
Section SetRefResidue.
Variable T : tables.
Variable tab_el tab_en : nametab.
Variable check_fn : N -> list N -> res bool.
Variable LATEST : N.

(* the referrer map after Element::set_reference_target has moved / added the element (the function of the code) *)
Definition setref_origins (cd : option cdata) (new_ref : list N) (h : id) (O : list (list N * list id))
  : list (list N * list id) :=
  match cd with
  | Some (DString old_ref) =>
    if bytes_eqb old_ref new_ref then O else
    let o1 := match assoc_get old_ref O with
              | Some l =>
                match index_of (N.eqb h) l with
                | Some k => let l' := swap_remove_at l k in
                            if is_empty l' then assoc_remove old_ref O else assoc_insert old_ref l' O
                | None => O
                end
              | None => O
              end in
    match assoc_get new_ref o1 with
    | Some l => assoc_insert new_ref (l ++ [h]) o1
    | None => o1 ++ [(new_ref, [h])]
    end
  | _ => match assoc_get new_ref O with
         | Some l => assoc_insert new_ref (l ++ [h]) O
         | None => O ++ [(new_ref, [h])]
         end
  end.

(* the attribute list after DEST was written *)
Definition dest_written (attr : N) (v : cdata) (attrs : list (N * cdata)) : list (N * cdata) :=
  if existsb (fun a => fst a =? attr) attrs
  then map (fun a => if fst a =? attr then (attr, v) else a) attrs
  else attrs ++ [(attr, v)].

Lemma origins_step cd m new_ref h wa r wb :
  (match cd with
   | Some (DString old_ref) => fix_reference_origins m old_ref new_ref h
   | _ => add_reference_origin m new_ref h
   end) wa = Val (r, wb) ->
  w_nodes wb = w_nodes wa /\ w_next wb = w_next wa /\ w_files wb = w_files wa /\
  (forall j, j <> N.to_nat m -> nth_opt (w_models wb) j = nth_opt (w_models wa) j) /\
  (forall x, nth_opt (w_models wa) (N.to_nat m) = Some x ->
     exists x', nth_opt (w_models wb) (N.to_nat m) = Some x' /\ m_root x' = m_root x /\ m_files x' = m_files x /\
                m_idents x' = m_idents x /\ m_origins x' = setref_origins cd new_ref h (m_origins x)).
Proof.
  intros H.
  assert (Hadd : add_reference_origin m new_ref h wa = Val (r, wb) ->
    w_nodes wb = w_nodes wa /\ w_next wb = w_next wa /\ w_files wb = w_files wa /\
    (forall j, j <> N.to_nat m -> nth_opt (w_models wb) j = nth_opt (w_models wa) j) /\
    (forall x, nth_opt (w_models wa) (N.to_nat m) = Some x ->
       exists x', nth_opt (w_models wb) (N.to_nat m) = Some x' /\ m_root x' = m_root x /\ m_files x' = m_files x /\
                  m_idents x' = m_idents x /\
                  m_origins x' = match assoc_get new_ref (m_origins x) with
                                 | Some l => assoc_insert new_ref (l ++ [h]) (m_origins x)
                                 | None => m_origins x ++ [(new_ref, [h])] end)).
  { intros Ha. unfold add_reference_origin in Ha. apply modify_model_inv in Ha as (x0 & Hx0 & _ & ->).
    cbn [w_nodes w_next w_files w_models]. repeat split; auto.
    - intros j Hj. apply list_set_nth_neq. exact Hj.
    - intros x Hx. assert (x0 = x) by congruence. subst x0. eexists. split; [eapply list_set_nth_eq; exact Hx|]. cbn. auto. }
  destruct cd as [[| old_ref | |]|]; try (apply Hadd; exact H).
  unfold fix_reference_origins in H. cbn [setref_origins]. destruct (bytes_eqb old_ref new_ref).
  - apply wret_inv in H as (_ & ->). repeat split; auto. intros x Hx. exists x. auto.
  - apply modify_model_inv in H as (x0 & Hx0 & _ & ->). cbn [w_nodes w_next w_files w_models]. repeat split; auto.
    + intros j Hj. apply list_set_nth_neq. exact Hj.
    + intros x Hx. assert (x0 = x) by congruence. subst x0. eexists. split; [eapply list_set_nth_eq; exact Hx|]. cbn. auto.
Qed.

Theorem setref_residue h target w e w' :
  e_set_reference_target T tab_el tab_en check_fn LATEST h target w = Val (ER e, w') ->
  w' = w \/
  (e = IncorrectContentType /\
   exists nh item m new_ref cd,
     w_nodes w h = Some nh /\ model_of h w = Val (OK m, w) /\ path_id T target w = Val (OK new_ref, w) /\
     character_data T nh = Val cd /\
     (* nodes: only the attribute list of the reference element changed (DEST written); its text did not *)
     w_nodes w' h = Some (set_attrs nh (dest_written (attr_dest T) (DEnum item) (n_attrs nh))) /\
     (forall i, i <> h -> w_nodes w' i = w_nodes w i) /\
     w_next w' = w_next w /\ w_files w' = w_files w /\
     (* models: only the referrer map of the element's model changed *)
     (forall j, j <> N.to_nat m -> nth_opt (w_models w') j = nth_opt (w_models w) j) /\
     (forall x, nth_opt (w_models w) (N.to_nat m) = Some x ->
        exists x', nth_opt (w_models w') (N.to_nat m) = Some x' /\ m_root x' = m_root x /\ m_files x' = m_files x /\
                   m_idents x' = m_idents x /\ m_origins x' = setref_origins cd new_ref h (m_origins x))).
Proof.
  intros H. unfold e_set_reference_target in H.
  wer H; [|left; reflexivity]. winvs. wer H; [|left; reflexivity]. winvs.
  match type of H with (if ?b then _ else _) _ = _ => destruct b end; [winvs; left; reflexivity|].
  wer H; [|left; reflexivity]. match goal with E : path_id T target w = _ |- _ => rename E into Epath end.
  wer H; [|left; reflexivity]. winvs. wer H; [|left; reflexivity]. winvs.
  wer H; [|left; reflexivity].
  match type of H with (match ?x with _ => _ end) _ = _ => destruct x as [item|] end; [|winvs; left; reflexivity].
  wer H; [|left; reflexivity]. match goal with E : model_of h w = _ |- _ => rename E into Emod end.
  wer H; [|left; reflexivity].
  wer H; [|noer].
  match goal with E : wtry _ _ = Val _ |- _ => apply wtry_inv in E as ([u|e0] & Et & Q); injection Q as -> end.
  2:{ left. apply nf_raw_set_attribute in Et. subst. winvs. reflexivity. }
  right.
  unfold raw_set_attribute in Et. wok Et. winvs. wok Et. winvs.
  match type of Et with (match ?x with _ => _ end) _ = _ => destruct x as [[[[q1 q2] q3] q4]|] end; [|discriminate Et].
  match type of Et with (if ?b then _ else _) _ = _ => destruct b end; [discriminate Et|].
  wok Et. winvs.
  match type of Et with (if ?b then _ else _) _ = _ => destruct b end; [|discriminate Et].
  apply set_node_inv in Et as (_ & ->).
  same_nodes. match goal with Hx : w_nodes w h = Some ?x |- _ => pose (nh := x); pose proof (Hx : w_nodes w h = Some nh) as Hnh end.
  wer H; [|noer]. winvs. upd_simpl.
  wer H; [|noer].
  match goal with E : wl (character_data T _) _ = Val (OK ?c, _) |- _ => rename c into cd; apply wl_inv in E as (cd0 & Hcd & Q & _); injection Q as <- end.
  wer H; [|noer].
  match goal with E : _ ?wa = Val (OK _, ?wb) |- _ => destruct (origins_step _ _ _ _ _ _ _ E) as (O1 & O2 & O3 & O4 & O5) end.
  apply raw_set_character_data_err in H as (-> & ->). split; [reflexivity|].
  match goal with E : model_of h w = Val (OK ?mm, _) |- _ => rename mm into m end.
  match goal with E : path_id T target w = Val (OK ?p, _) |- _ => rename p into new_ref end.
  exists nh, item, m, new_ref, cd. split; [exact Hnh|]. split; [exact Emod|]. split; [exact Epath|].
  split; [exact Hcd|].
  cbn [w_nodes w_next w_files w_models] in *.
  split; [rewrite O1; apply upd_eq|]. split; [intros i Hi; rewrite O1; apply upd_neq; exact Hi|].
  split; [exact O2|]. split; [exact O3|]. split; [exact O4|exact O5].
Qed.

End SetRefResidue.
