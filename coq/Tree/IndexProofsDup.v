(* Tree/IndexProofsDup.v — C04/C05: AutosarModel::duplicate keeps Inv04 /\ Inv05 (and the node invariant RX).
   duplicate is: new_model, the attributes and the comment of the original root, one create_file per file, one
   create_copied_sub_element per root child, the file membership of the copied elements.  The bundle
     K w = TreeInv w /\ Inv04 w /\ Inv05 w /\ RX w
   is carried through these steps: the three operations by the theorems for all 26 constructors (C03's TreeInv_step, C45_inv_all,
   RX_step), the adjustments in between by frames (same skeleton, same (name, type, content), same maps).  The side condition
   dup_clean (Tree/RefsAll.v) is the conjunction of the finding classes of the copy steps, decided along the run.
   A failed duplicate drops the new model and its files; the nodes it allocated stay: Inv04 /\ Inv05 /\ RX still hold
   (TreeFacts does not: the root of the dropped model still carries its PModel link - C03's class). *)
From Coq Require Import Lia PeanoNat.
From AV Require Import Base.Bytes Base.Outcome Hash.HashModel Tree.Heap Tree.Ops Tree.Script Tree.Inv Tree.InvProofsCore Tree.InvProofs.
From AV Require Import Tree.IndexProofsW Tree.Index Tree.IndexProofsBase Tree.IndexProofsFrame Tree.IndexProofs Tree.Refs Tree.RefsProofs
  Tree.IndexProofsBridge Tree.RefsAll Tree.Copy Tree.IndexProofsNodeInv Tree.IndexProofsAll.
Open Scope string_scope.
Open Scope list_scope.
Open Scope N_scope.

Section Dup.
Variable T : tables.
Variable tab_el tab_en : nametab.
Variable check_fn : N -> list N -> res bool.
Variable LATEST : N.
Variable root_attrs : list (N * cdata).
Hypothesis TK : TablesOK T check_fn.
Hypothesis RootTy : forall ty, et_new T (autosar_element T) = Val ty -> plainty T ty.

Notation Inv04 := (Inv04 T check_fn).
Notation run := (run_op T tab_el tab_en check_fn LATEST root_attrs).
Notation Known03 := (Inv.Known T tab_el tab_en check_fn LATEST root_attrs).
Notation Known04a := (Known04a T LATEST).
Notation Known05a := (Known05a T tab_el tab_en check_fn LATEST root_attrs).
Notation RX := (RX T).

Definition K (w : world) : Prop := TreeInv w /\ Inv04 w /\ Inv05 T w /\ RX w.
Definition kp {A} (m : W A) : Prop := forall w r w', K w -> m w = Val (r, w') -> K w'.

Lemma K_op o w r w' : K w -> Known03 w o = false -> Known04a w o = false -> Known05a w o = false ->
  run o w = Val (r, w') -> K w'.
Proof.
  intros (HT & H4 & H5 & HX) K3 K4 K5 H. split; [eapply TreeInv_step; eauto|].
  destruct (C45_inv_all T tab_el tab_en check_fn LATEST root_attrs TK w o r w' (treeinv_treefacts w HT) H4 H5 HX K4 K5 H) as (A & B).
  split; [exact A|]. split; [exact B|]. eapply (RX_step T tab_el tab_en check_fn LATEST root_attrs TK RootTy); eauto.
Qed.

Lemma kp_ro {A} (m : W A) : ro m -> kp m.
Proof. intros R w r w' HK H. apply R in H. subst. exact HK. Qed.
Lemma kp_bind {A B} (m : W A) (k : A -> W B) : kp m -> (forall a, kp (k a)) -> kp (wbind m k).
Proof.
  intros Hm Hk w r w' HK H. apply wbind_inv in H as [(a & w1 & H1 & H2) | (e & H1 & _)].
  - eapply Hk; [eapply Hm; eauto|eauto].
  - eapply Hm; eauto.
Qed.

(* a node keeps parent, name, type and content *)
Lemma kp_modify i f : (forall n, n_parent (f n) = n_parent n /\ tview (f n) = tview n) -> kp (modify_node i f).
Proof.
  intros Hf w r w' (HT & H4 & H5 & HX) H.
  assert (HS : SV w w') by (eapply (psv_modify_node i f); [intros n; apply Hf|exact H]).
  pose proof H as H0. apply modify_node_inv in H0 as (n & Hn & _ & ->).
  split; [|split; [eapply (Inv04_sv T check_fn); eauto|split; [eapply Inv05_sv; eauto|]]].
  - eapply TreeInv_same_tree; [|exact HT]. split; [reflexivity|]. split; [reflexivity|]. intros j. unfold skel. cbn [w_nodes].
    destruct (N.eq_dec j i) as [->|Hne]; [|rewrite upd_neq by exact Hne; reflexivity].
    rewrite upd_eq, Hn. destruct (Hf n) as (Ep & Ev). unfold tview in Ev. unfold kids. f_equal. f_equal; congruence.
  - intros j y Hy. cbn [w_nodes] in Hy. destruct (N.eq_dec j i) as [->|Hne]; [|rewrite upd_neq in Hy by exact Hne; exact (HX _ _ Hy)].
    rewrite upd_eq in Hy. injection Hy as <-. destruct (HX _ _ Hn) as (A & B). destruct (Hf n) as (Ep & Ev). unfold tview in Ev.
    assert (Ety : n_type (f n) = n_type n) by congruence. assert (Ec : n_content (f n) = n_content n) by congruence.
    split; [rewrite Ety, Ec; exact A|rewrite Ep, Ety; exact B].
Qed.
Lemma kp_set_file f x : kp (set_file f x).
Proof.
  intros w r w' (HT & H4 & H5 & HX) H. unfold set_file in H. injection H as _ <-.
  split; [eapply TreeInv_same_tree; [|exact HT]; repeat split|]. split; [|split].
  - eapply (Inv04_sv T check_fn); [|exact H4]. split; [intros i; reflexivity|reflexivity].
  - eapply Inv05_sv; [|exact H5]. split; [intros i; reflexivity|reflexivity].
  - exact HX.
Qed.

Lemma kp_new_model : kp (new_model T root_attrs).
Proof.
  intros w r w' HK H. destruct r as [c|e].
  - eapply (K_op OpNewModel w (OK (VModel c)) w' HK); try reflexivity. cbn [run_op]. unfold wbind. rewrite H. reflexivity.
  - eapply (K_op OpNewModel w (ER e) w' HK); try reflexivity. cbn [run_op]. unfold wbind. rewrite H. reflexivity.
Qed.
Lemma kp_create_file c name version : kp (m_create_file T c name version).
Proof.
  intros w r w' HK H. destruct r as [f|e].
  - eapply (K_op (OpCreateFile c name version) w (OK (VFile f)) w' HK); try reflexivity. cbn [run_op]. unfold wbind. rewrite H. reflexivity.
  - eapply (K_op (OpCreateFile c name version) w (ER e) w' HK); try reflexivity. cbn [run_op]. unfold wbind. rewrite H. reflexivity.
Qed.

Lemma kp_dup_files c : forall files fm, kp (dup_files T c files fm).
Proof.
  induction files as [|f rest IH]; intros fm; cbn [dup_files]; [apply kp_ro; ro_tac|].
  apply kp_bind; [apply kp_ro; ro_tac|intros fl]. apply kp_bind; [apply kp_create_file|intros nf].
  apply kp_bind; [apply kp_ro; ro_tac|intros nfl]. apply kp_bind; [apply kp_set_file|intros _]. apply IH.
Qed.
Lemma kp_dup_membership fm : forall oids cids, kp (dup_membership fm oids cids).
Proof.
  induction oids as [|o orest IH]; intros cids; cbn [dup_membership]; [apply kp_ro; ro_tac|].
  destruct cids as [|c crest]; [apply kp_ro; ro_tac|].
  apply kp_bind; [apply kp_ro; ro_tac|intros on]. apply kp_bind; [apply kp_ro; ro_tac|intros w0].
  apply kp_bind; [apply kp_modify; intros n; split; reflexivity|intros _]. apply IH.
Qed.

Lemma kp_dup_prefix m : kp (dup_prefix T root_attrs m).
Proof.
  unfold dup_prefix. apply kp_bind; [apply kp_ro; ro_tac|intros x]. apply kp_bind; [apply kp_new_model|intros c].
  apply kp_bind; [apply kp_ro; ro_tac|intros rn]. apply kp_bind; [apply kp_ro; ro_tac|intros cx].
  apply kp_bind; [apply kp_modify; intros n; split; reflexivity|intros _].
  apply kp_bind; [apply kp_dup_files|intros fm]. apply kp_ro. ro_tac.
Qed.

(* the copies of the root children *)
Lemma K_dup_children croot : forall items w r w',
  K w -> dup_children_clean T tab_el tab_en check_fn LATEST root_attrs croot items w = true ->
  dup_children T LATEST croot items w = Val (r, w') -> K w'.
Proof.
  induction items as [|[e|d] rest IH]; intros w r w' HK Hc H; cbn [dup_children dup_children_clean] in *.
  - apply wret_inv in H as (_ & ->). exact HK.
  - apply andb_true_iff in Hc as (Hc & Hrest). apply andb_true_iff in Hc as (Hc & K5). apply andb_true_iff in Hc as (K3 & K4).
    apply negb_true_iff in K3, K4, K5.
    apply wbind_inv in H as [(c & w1 & E & H) | (e0 & E & _)].
    + rewrite E in Hrest. eapply IH; [|exact Hrest|exact H].
      eapply (K_op (OpCopy croot e) w (OK (VElem c)) w1 HK K3 K4 K5). cbn [run_op]. unfold welem, wbind. rewrite E. reflexivity.
    + eapply (K_op (OpCopy croot e) w (ER e0) w' HK K3 K4 K5). cbn [run_op]. unfold welem, wbind. rewrite E. reflexivity.
  - eapply IH; eauto.
Qed.

Theorem K_duplicate_body m w r w' :
  K w -> dup_clean T tab_el tab_en check_fn LATEST root_attrs w m = true ->
  m_duplicate_body T LATEST root_attrs m w = Val (r, w') -> K w'.
Proof.
  intros HK Hc H. unfold m_duplicate_body in H. unfold dup_clean in Hc.
  destruct (dup_prefix T root_attrs m w) as [[[[[[c0 rn0] cx0] fm0]|e0] wp]| |] eqn:Ep.
  - (* the prefix ran: follow the body *)
    pose proof (kp_dup_prefix m w _ _ HK Ep) as HKp.
    unfold dup_prefix in Ep.
    apply wbind_inv in H as [(x & w1 & E1 & H) | (e & E1 & _)]; [|unfold wbind in Ep; rewrite E1 in Ep; discriminate Ep].
    unfold wbind at 1 in Ep. rewrite E1 in Ep.
    apply wbind_inv in H as [(c & w2 & E2 & H) | (e & E2 & _)]; [|unfold wbind at 1 in Ep; rewrite E2 in Ep; discriminate Ep].
    unfold wbind at 1 in Ep. rewrite E2 in Ep.
    apply wbind_inv in H as [(rn & w3 & E3 & H) | (e & E3 & _)]; [|unfold wbind at 1 in Ep; rewrite E3 in Ep; discriminate Ep].
    unfold wbind at 1 in Ep. rewrite E3 in Ep.
    apply wbind_inv in H as [(cx & w4 & E4 & H) | (e & E4 & _)]; [|unfold wbind at 1 in Ep; rewrite E4 in Ep; discriminate Ep].
    unfold wbind at 1 in Ep. rewrite E4 in Ep.
    apply wbind_inv in H as [(u5 & w5 & E5 & H) | (e & E5 & _)]; [|unfold wbind at 1 in Ep; rewrite E5 in Ep; discriminate Ep].
    unfold wbind at 1 in Ep. rewrite E5 in Ep.
    apply wbind_inv in H as [(fm & w6 & E6 & H) | (e & E6 & _)]; [|unfold wbind at 1 in Ep; rewrite E6 in Ep; discriminate Ep].
    unfold wbind at 1 in Ep. rewrite E6 in Ep. apply wret_inv in Ep as ([= <- <- <- <-] & <-).
    apply wbind_inv in H as [(u7 & w7 & E7 & H) | (e & E7 & _)].
    + pose proof (K_dup_children _ _ _ _ _ HKp Hc E7) as HK7.
      revert H. match goal with |- ?k ?ww = _ -> _ => assert (Hk : kp k); [|intros H; exact (Hk _ _ _ HK7 H)] end.
      apply kp_bind; [apply kp_ro; ro_tac|intros w0]. apply kp_bind; [apply kp_ro; ro_tac|intros oids].
      apply kp_bind; [apply kp_ro; ro_tac|intros cids]. apply kp_bind; [apply kp_dup_membership|intros _]. apply kp_ro. ro_tac.
    + exact (K_dup_children _ _ _ _ _ HKp Hc E7).
  - (* the prefix failed: so did the body, in the same world *)
    pose proof (kp_dup_prefix m w _ _ HK Ep) as HKp.
    assert (Hsame : w' = wp); [|subst; exact HKp].
    unfold dup_prefix in Ep.
    apply wbind_inv in H as [(x & w1 & E1 & H) | (e & E1 & _)]; [|unfold wbind in Ep; rewrite E1 in Ep; congruence].
    unfold wbind at 1 in Ep. rewrite E1 in Ep.
    apply wbind_inv in H as [(c & w2 & E2 & H) | (e & E2 & _)]; [|unfold wbind at 1 in Ep; rewrite E2 in Ep; congruence].
    unfold wbind at 1 in Ep. rewrite E2 in Ep.
    apply wbind_inv in H as [(rn & w3 & E3 & H) | (e & E3 & _)]; [|unfold wbind at 1 in Ep; rewrite E3 in Ep; congruence].
    unfold wbind at 1 in Ep. rewrite E3 in Ep.
    apply wbind_inv in H as [(cx & w4 & E4 & H) | (e & E4 & _)]; [|unfold wbind at 1 in Ep; rewrite E4 in Ep; congruence].
    unfold wbind at 1 in Ep. rewrite E4 in Ep.
    apply wbind_inv in H as [(u5 & w5 & E5 & H) | (e & E5 & _)]; [|unfold wbind at 1 in Ep; rewrite E5 in Ep; congruence].
    unfold wbind at 1 in Ep. rewrite E5 in Ep.
    apply wbind_inv in H as [(fm & w6 & E6 & H) | (e & E6 & _)]; [|unfold wbind at 1 in Ep; rewrite E6 in Ep; congruence].
    unfold wbind at 1 in Ep. rewrite E6 in Ep. discriminate Ep.
  - exfalso. unfold dup_prefix in Ep. revert H Ep. unfold wbind. repeat match goal with |- context [match ?m ?ww with _ => _ end] => destruct (m ww) as [[[?|?] ?]| |]; try discriminate end.
  - exfalso. unfold dup_prefix in Ep. revert H Ep. unfold wbind. repeat match goal with |- context [match ?m ?ww with _ => _ end] => destruct (m ww) as [[[?|?] ?]| |]; try discriminate end.
Qed.

(* ---------- dropping the models and files added by a failed duplicate *)
Lemma nth_opt_firstn {A} (l : list A) : forall k i x, nth_opt (firstn k l) i = Some x -> nth_opt l i = Some x.
Proof.
  induction l as [|a l IH]; intros [|k] [|i] x H; cbn in *; try discriminate; auto. eapply IH; eauto.
Qed.

Section Drop.
Variables (wb : world) (nm nf : nat).
Let wd := drop_models_files nm nf wb.
Lemma wd_model m x : model_at wd m = Some x -> model_at wb m = Some x.
Proof. unfold model_at, wd, drop_models_files. cbn [w_models]. apply nth_opt_firstn. Qed.
Lemma wd_nv : NV wb wd.
Proof. intros i. reflexivity. Qed.
Lemma wd_nv' : NV wd wb.
Proof. intros i. reflexivity. Qed.
Lemma wd_dpath a i q : dpath T wd a i q <-> dpath T wb a i q.
Proof. split; apply dpath_sv; [exact wd_nv'|exact wd_nv]. Qed.
Lemma wd_pathset m x p i : model_at wd m = Some x -> (PathSet T wd m p i <-> PathSet T wb m p i).
Proof.
  intros Hx. pose proof (wd_model m x Hx) as Hx'. unfold PathSet, MReach, SpecPath, spath, reach.
  rewrite (identifiable_sv T wb wd i wd_nv). rewrite Hx, Hx'.
  split; intros ((y & [= <-] & (q & Hd)) & Hid & (y2 & [= <-] & (q2 & Hd2 & E))).
  - split; [exists x; split; [reflexivity|exists q; apply wd_dpath; exact Hd]|]. split; [exact Hid|].
    exists x. split; [reflexivity|]. exists q2. split; [apply wd_dpath; exact Hd2|]. rewrite <- (seg_sv T wb wd _ wd_nv). exact E.
  - split; [exists x; split; [reflexivity|exists q; apply wd_dpath; exact Hd]|]. split; [exact Hid|].
    exists x. split; [reflexivity|]. exists q2. split; [apply wd_dpath; exact Hd2|]. rewrite (seg_sv T wb wd _ wd_nv). exact E.
Qed.
Lemma wd_refset m x p r : model_at wd m = Some x -> (RefSet T wd m p r <-> RefSet T wb m p r).
Proof.
  intros Hx. pose proof (wd_model m x Hx) as Hx'. unfold RefSet, MReach, reach. rewrite (ref_text_sv T wb wd r wd_nv), Hx, Hx'.
  split; intros ((y & [= <-] & (q & Hd)) & Ht); (split; [exists x; split; [reflexivity|exists q; apply wd_dpath; exact Hd]|exact Ht]).
Qed.

Lemma drop_inv : Inv04 wb -> Inv05 T wb -> RX wb -> Inv04 wd /\ Inv05 T wd /\ RX wd.
Proof.
  intros [I1 I2 I3 IL I4 I5] [E1 E2] HX. split; [|split].
  - constructor.
    + exact I1.
    + exact I2.
    + intros i n Hi Hid. change (w_nodes wd i) with (w_nodes wb i) in Hi.
      rewrite (item_name_n_sv T wb wd n n wd_nv eq_refl). apply (I3 i n Hi). rewrite <- (identifiable_n_sv T wb wd n n wd_nv eq_refl). exact Hid.
    + exact IL.
    + intros m x Hx p i. rewrite (wd_pathset m x p i Hx). apply (I4 m x (wd_model m x Hx)).
    + intros m x Hx. apply (I5 m x (wd_model m x Hx)).
  - constructor.
    + intros m x Hx p. destruct (E1 m x (wd_model m x Hx) p) as (A & B). split; [exact A|]. intros r. rewrite (wd_refset m x p r Hx). apply B.
    + intros m x Hx. apply (E2 m x (wd_model m x Hx)).
  - exact HX.
Qed.
End Drop.

Theorem C45_duplicate m w r w' :
  K w -> dup_clean T tab_el tab_en check_fn LATEST root_attrs w m = true ->
  m_duplicate T tab_el tab_en check_fn LATEST root_attrs m w = Val (r, w') ->
  Inv04 w' /\ Inv05 T w' /\ RX w' /\ (forall c, r = OK c -> TreeInv w').
Proof.
  intros HK Hc H. unfold m_duplicate in H.
  destruct (m_duplicate_body T LATEST root_attrs m w) as [[[c|e] wb]| |] eqn:Eb; try discriminate H.
  - injection H as <- <-. destruct (K_duplicate_body m w _ _ HK Hc Eb) as (A & B & C & D).
    split; [exact B|]. split; [exact C|]. split; [exact D|]. intros _ _. exact A.
  - injection H as <- <-. destruct (K_duplicate_body m w _ _ HK Hc Eb) as (A & B & C & D).
    destruct (drop_inv wb (List.length (w_models w)) (List.length (w_files w)) B C D) as (B' & C' & D').
    split; [exact B'|]. split; [exact C'|]. split; [exact D'|]. intros c0 [=].
Qed.

End Dup.
