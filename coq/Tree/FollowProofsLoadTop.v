(* Tree/FollowProofsLoadTop.v — C06 after a first load, top: AutosarModel::load_buffer into the only, still empty model
   of a world (AutosarModel::new(); load_buffer(..)), then set_item_name.
     after_first_load      Inv06D of the loaded world; agent-c03 supplies Core and TreeFactsL (RealInvL_load), agent-xmlproofs
                           that the parser state records the tree (load_StOf_all); what remains as a hypothesis is DocSide
                           of the loaded world
     load_then_rename      the clauses of C06_rename_d for a rename in the loaded world
     fresh_model           AutosarModel::new() in the empty world makes such a world *)
From Coq Require Import Lia.
From AV Require Import Base.Bytes Base.Outcome Hash.HashModel Spec.SpecOps Tree.Heap Tree.Ops Tree.Script Tree.Script2 Tree.Load
  Tree.MergeSpec Tree.Inv Tree.IndexProofsW Tree.Index Tree.Refs Tree.Follow Tree.FollowL Tree.LoadProofs Tree.LoadRefineIndex
  Tree.InvEBase Tree.InvLoad Tree.InvProofsLoadLive Tree.InvProofsOp2Live Tree.FollowProofsLoad Tree.FollowProofsLoadMain
  Tree.FollowProofsRenameD.
From AV Require Xml.Lexer Xml.Parser Xml.TablesOk Xml.LoadRecords Xml.LoadRecordsRegular Xml.LoadRecordsTree.
Open Scope string_scope.
Open Scope list_scope.
Open Scope N_scope.

Section Top.
Variable T : tables.
Variable tab_el tab_at tab_en : nametab.
Variable check_fn : N -> list N -> res bool.
Variable float_parse : list N -> option N.
Variable LATEST name_definition_ref : N.

Lemma known_load_shared_first buffer filename strict w x :
  w_models w = [x] -> m_files x = [] ->
  Known_load_shared T tab_el tab_at tab_en check_fn float_parse LATEST name_definition_ref w (OpLoad 0 buffer filename strict) = false.
Proof.
  intros Hms Hfx. unfold Known_load_shared, load_merge_point.
  destruct (Parser.load strict T tab_el tab_at tab_en check_fn float_parse buffer) as [[root st|pe st]| |]; try reflexivity.
  destruct (install PNone root w) as [[[t|e] w1]| |] eqn:Ei; try reflexivity.
  pose proof (above_install (w_next w) _ _ _ _ _ (N.le_refl _) Ei) as (_ & _ & _ & A4).
  cbn [w_models]. rewrite A4, Hms. cbn. rewrite Hfx. reflexivity.
Qed.

Theorem after_first_load buffer filename strict w x f ws w' :
  TablesOk.tables_ok T = true -> LoadRecordsRegular.sn_charsb T = true -> LoadRecordsRegular.ref_charsb T = true ->
  (forall ty, is_ref T ty = Val true -> content_mode T ty = Val MCharacters) ->
  RealInvL T w -> w_models w = [x] -> m_files x = [] -> m_idents x = [] -> m_origins x = [] ->
  m_load_buffer T tab_el tab_at tab_en check_fn float_parse LATEST name_definition_ref 0 buffer filename strict w = Val (OK (f, ws), w') ->
  DocSide T check_fn w' ->
  Inv06D T check_fn w'.
Proof.
  intros HOK SC RC HRF I Hms Hfx Hix Hox H HD.
  destruct (TreeFactsL_after_load T tab_el tab_at tab_en check_fn float_parse LATEST name_definition_ref 0 buffer filename strict w
              (OK (f, ws)) w' HOK I (known_load_shared_first buffer filename strict w x Hms Hfx) ltac:(discriminate) H) as (I' & HTL).
  unfold m_load_buffer in H.
  apply wbind_inv in H as [(x0 & w0 & H0 & H) | (e' & H0 & [=])].
  apply get_model_inv in H0 as (x0' & Hx0 & E0 & E0'). injection E0 as E0. subst x0 w0.
  apply wbind_inv in H as [(w1 & w2 & H1 & H) | (e' & H1 & [=])].
  apply wget_inv in H1 as (E1 & E1'). injection E1 as E1. subst w1 w2.
  destruct (existsb _ _); [apply wfail_inv in H as ([=] & _)|].
  destruct (Parser.load strict T tab_el tab_at tab_en check_fn float_parse buffer) as [[root st|pe st]| |] eqn:EP; try discriminate H.
  apply wbind_inv in H as [(f0 & w3 & H2 & H) | (e' & H2 & [=])].
  apply wret_inv in H as (E & Ew). subst w3. injection E as <- _.
  eapply (first_load_inv06d T check_fn LATEST name_definition_ref filename root st w x f w'); eauto.
  - exact (LoadRecordsTree.load_StOf_all T tab_el tab_at tab_en check_fn float_parse strict buffer root st HOK SC RC EP).
  - exact (proj1 (proj1 I')).
Qed.

(* load, then rename *)
Theorem load_then_rename buffer filename strict w x f ws w1 h nn w2 :
  TablesOk.tables_ok T = true -> LoadRecordsRegular.sn_charsb T = true -> LoadRecordsRegular.ref_charsb T = true ->
  (forall ty, is_ref T ty = Val true -> content_mode T ty = Val MCharacters) ->
  RealInvL T w -> w_models w = [x] -> m_files x = [] -> m_idents x = [] -> m_origins x = [] ->
  m_load_buffer T tab_el tab_at tab_en check_fn float_parse LATEST name_definition_ref 0 buffer filename strict w = Val (OK (f, ws), w1) ->
  DocSide T check_fn w1 ->
  live_ref T w1 0 h ->
  e_set_item_name T check_fn LATEST h nn w1 = Val (OK tt, w2) ->
  (forall r y, live_ref T w1 0 r -> designates T w1 0 r y -> below T w1 h y -> designates T w2 0 r y) /\
  (forall r p, ~ dead w1 r -> ref_text T w1 r = Some p -> resolves T w1 0 r ->
               ~ (exists y, designates T w1 0 r y /\ below T w1 h y) -> ref_text T w2 r = Some p) /\
  (forall r p old, ~ dead w1 r -> SpecPath T w1 0 h old -> ref_text T w1 r = Some p ->
                   ~ (live_ref T w1 0 r /\ old_form old p) -> ref_text T w2 r = Some p).
Proof.
  intros HOK SC RC HRF I Hms Hfx Hix Hox H HD Hl Hr.
  eapply C06_rename_d; [|exact Hl|exact Hr].
  eapply after_first_load; eauto.
Qed.

(* AutosarModel::new() in the empty world *)
Lemma fresh_model root_attrs m w :
  (forall ty, is_ref T ty = Val true -> content_mode T ty = Val MCharacters) ->
  new_model T root_attrs empty_world = Val (OK m, w) ->
  m = 0 /\ RealInvL T w /\ exists x, w_models w = [x] /\ m_files x = [] /\ m_idents x = [] /\ m_origins x = [].
Proof.
  intros RC H. pose proof (LOK_new_model T tab_el tab_en check_fn LATEST root_attrs RC empty_world m w (RealInvL_empty T) H) as I.
  unfold new_model in H. cbn [empty_world w_next w_models w_nodes w_files] in H.
  destruct (et_new T (autosar_element T)) as [ty| |]; destruct (elem T (autosar_element T)) as [ed| |]; try discriminate H.
  injection H as <- <-. split; [reflexivity|]. split; [exact I|]. eexists. split; [reflexivity|]. auto.
Qed.

End Top.
