(* Tree/InvProofsStale3.v — C03, stale handles: "cannot change the live model" in EVERY world that satisfies Core.
   The four requests that ask for min_version alone (create_sub_element, create_sub_element_at, set_attribute,
   get_or_create_sub_element) fail through a detached handle when DetFiles holds (Tree/StaleProofs.v); without it
   (after a load, inside a known class) they may succeed, but then they only change the detached node itself and
   allocate new nodes: the live model is untouched.  Together with stale_fails / stale_local:
     stale_live: Core w -> Detached w h -> principal o = Some h -> run o w = Val (r, w') -> live_eq w w'
   for EVERY operation o, and along every op2 history with loads outside Known_load_shared (Core_histories2_full). *)
From Coq Require Import PeanoNat Arith Lia.
From AV Require Import Base.Bytes Base.Outcome Hash.HashModel Tree.Heap Tree.Ops Tree.Script Tree.Inv
  Tree.InvProofsBase Tree.InvProofsCore Tree.InvProofsTree Tree.InvProofsPrim Tree.InvProofsData Tree.InvProofsCreate
  Tree.StaleProofs Tree.InvProofs Tree.Script2 Tree.InvLoad Tree.InvProofsOp2Rej.
Open Scope string_scope.
Open Scope list_scope.
Open Scope N_scope.

(* only node h changes, new nodes may be allocated *)
Definition only_grow (h : id) (w w' : world) : Prop :=
  w_models w' = w_models w /\ w_files w' = w_files w /\
  forall x, x <> h -> x < w_next w -> w_nodes w' x = w_nodes w x.

Lemma only_grow_refl h w : only_grow h w w. Proof. repeat split; auto. Qed.
Lemma only_node_grow h w w' : only_node h w w' -> only_grow h w w'.
Proof. intros (A & B & Cc). repeat split; auto. Qed.
Lemma live_eq_refl w : live_eq w w. Proof. repeat split; auto. Qed.

Lemma only_grow_live_eq w w' h : Core w -> Detached w h -> only_grow h w w' -> live_eq w w'.
Proof.
  intros C Hd (Hm & Hf & Hn). repeat split; auto. intros x Hl. apply Hn.
  - intros ->. eapply detached_not_live; eauto.
  - destruct Hl as (r0 & _ & Hr). apply (c_alloc _ C). destruct Hr as [Ha|p c _ Hl]; [exact Ha|].
    apply (c_up _ C) in Hl. destruct Hl as (n & Hn' & _). eexists; eauto.
Qed.

Section Stale3.
Variable T : tables.
Variable tab_el tab_en : nametab.
Variable check_fn : N -> list N -> res bool.
Variable LATEST : N.
Variable root_attrs : list (N * cdata).
Notation run := (Inv.run T tab_el tab_en check_fn LATEST root_attrs).

Lemma create_inner_only self name pos version w r w' :
  create_sub_element_inner T self name pos version w = Val (r, w') -> only_grow self w w'.
Proof.
  unfold create_sub_element_inner. intros H.
  wstep H; winv E.
  wstep H; winv E.
  destruct v as [[et ix]|]; [|winv H; apply only_grow_refl].
  wstep H; winv E.
  destruct v; [winv H; apply only_grow_refl|].
  wstep H.
  apply alloc_walloc in E as ([= ->] & ->).
  assert (G : forall r1 w1, content_insert self pos (CElem (w_next w)) (walloc w (new_node (PElem self) name et)) = Val (r1, w1) ->
              only_grow self w w1).
  { intros r1 w1 H1. apply content_insert_inv in H1 as (n1 & _ & _ & ->). repeat split; auto.
    intros x Hx Hlt. rewrite nodes_wset_neq by auto. apply nodes_walloc_old. lia. }
  wstep H.
  - winv H. eapply G; eauto.
  - eapply G; eauto.
Qed.

Lemma raw_set_attribute_only h attr v version w r w' :
  raw_set_attribute T check_fn h attr v version w = Val (r, w') -> only_node h w w'.
Proof.
  intros H. unfold raw_set_attribute in H. wrun H ltac:(first [apply only_node_refl | apply only_node_wset]).
Qed.

Theorem stale_live o h w r w' :
  Core w -> Detached w h -> principal o = Some h -> run o w = Val (r, w') -> live_eq w w'.
Proof.
  intros C Hd Hp H.
  destruct (place_dependent o) eqn:Hpd; [|eapply stale_local; eauto].
  destruct (needs_version_only o) eqn:Hv.
  2:{ assert (E : w' = w).
      { eapply (stale_fails T tab_el tab_en check_fn LATEST root_attrs o h w r w'); eauto. rewrite Hv. discriminate. }
      subst. apply live_eq_refl. }
  eapply only_grow_live_eq; eauto. unfold Inv.run in H.
  destruct o; try discriminate Hv; injection Hp as ->; cbn [run_op] in H;
    apply wbind_inv in H as [(a & w1 & H & H2) | (e & H & _)];
    try (apply wret_inv in H2 as (_ & ->)).
  - unfold e_create_sub_element, raw_create_sub_element in H. wrun_ro H ltac:(apply only_grow_refl).
    eapply create_inner_only; eauto.
  - unfold e_create_sub_element, raw_create_sub_element in H. wrun_ro H ltac:(apply only_grow_refl).
    eapply create_inner_only; eauto.
  - unfold e_create_sub_element_at, raw_create_sub_element_at in H. wrun_ro H ltac:(apply only_grow_refl).
    eapply create_inner_only; eauto.
  - unfold e_create_sub_element_at, raw_create_sub_element_at in H. wrun_ro H ltac:(apply only_grow_refl).
    eapply create_inner_only; eauto.
  - unfold e_set_attribute in H. wrun_ro H ltac:(apply only_grow_refl).
    apply only_node_grow. eapply raw_set_attribute_only; eauto.
  - unfold e_set_attribute in H. wrun_ro H ltac:(apply only_grow_refl).
    apply only_node_grow. eapply raw_set_attribute_only; eauto.
  - unfold e_get_or_create_sub_element, raw_create_sub_element in H. wrun_ro H ltac:(apply only_grow_refl).
    eapply create_inner_only; eauto.
  - unfold e_get_or_create_sub_element, raw_create_sub_element in H. wrun_ro H ltac:(apply only_grow_refl).
    eapply create_inner_only; eauto.
Qed.

End Stale3.

(* along EVERY op2 history from the empty world — loads (accepted or rejected), duplicates (also the failing ones),
   failed re-parentings included — outside the merge-DAG class Known_load_shared: whatever is requested through a
   handle of a detached element, the models, the files and every live node stay as they were *)
Section Stale3H.
Variable T : tables.
Variable tab_el tab_at tab_en : nametab.
Variable check_fn : N -> list N -> res bool.
Variable float_parse : list N -> option N.
Variable float_fmt : N -> list N.
Variables LATEST name_index name_definition_ref attr_schema_location : N.
Variable root_attrs : list (N * cdata).

Theorem stale_live_histories2 l w o h r w' :
  run_ops2 T tab_el tab_at tab_en check_fn float_parse float_fmt LATEST name_index name_definition_ref
           attr_schema_location root_attrs l empty_world = Val w ->
  clean_shared_ops2 T tab_el tab_at tab_en check_fn float_parse float_fmt LATEST name_index name_definition_ref
           attr_schema_location root_attrs l empty_world = true ->
  Detached w h -> principal o = Some h ->
  Inv.run T tab_el tab_en check_fn LATEST root_attrs o w = Val (r, w') ->
  live_eq w w' /\
  (place_dependent o = true -> needs_version_only o = false -> w' = w /\ failed r).
Proof.
  intros H Hc Hd Hp Hr. split.
  - eapply stale_live; eauto.
    exact (Core_histories2_full T tab_el tab_at tab_en check_fn float_parse float_fmt LATEST name_index
             name_definition_ref attr_schema_location root_attrs l empty_world w empty_core Hc H).
  - intros Hpd Hv. eapply (stale_fails T tab_el tab_en check_fn LATEST root_attrs o h w r w'); eauto.
    rewrite Hv. discriminate.
Qed.
End Stale3H.

(* ------------------------------------------------------------------ the four min_version-only requests, per handle *)
(* what they need is only that the file sets ON THE CHAIN OF THE HANDLE are empty (DetFiles asks it of every detached
   chain); this is what remove / move clear (fix 6db19c9), and what is still to be carried across OpLoad *)
Definition ChainFiles (w : world) (h : id) : Prop :=
  forall y n, AncS w y h -> w_nodes w y = Some n -> n_files n = [].

Lemma DetFiles_ChainFiles w h : DetFiles w -> Detached w h -> ChainFiles w h.
Proof. intros D Hd y n Ha Hn. eapply D; eauto. Qed.

Lemma file_membership_chain w x r w' :
  ChainFiles w x -> Detached w x -> file_membership x w = Val (r, w') -> w' = w /\ r = ER ItemDeleted.
Proof.
  intros Hc Hd H. unfold file_membership in H. wstep H; winv E. eapply fm_walk_detached; eauto.
Qed.
Lemma min_version_chain LATEST w x r w' :
  ChainFiles w x -> Detached w x -> min_version LATEST x w = Val (r, w') -> w' = w /\ r = ER ItemDeleted.
Proof.
  intros Hc Hd H. unfold min_version in H. wstep H.
  - destruct (file_membership_chain _ _ _ _ Hc Hd E) as (_ & [=]).
  - destruct (file_membership_chain _ _ _ _ Hc Hd E) as (_ & [= ->]). auto.
Qed.

Section Stale3C.
Variable T : tables.
Variable tab_el tab_en : nametab.
Variable check_fn : N -> list N -> res bool.
Variable LATEST : N.
Variable root_attrs : list (N * cdata).
Notation run := (Inv.run T tab_el tab_en check_fn LATEST root_attrs).

Theorem stale_fails_chain o h w r w' :
  (needs_version_only o = true -> ChainFiles w h) ->
  Detached w h -> principal o = Some h -> place_dependent o = true ->
  run o w = Val (r, w') -> w' = w /\ failed r.
Proof.
  intros Hc Hd Hp Hpd H.
  destruct (needs_version_only o) eqn:Hv.
  2:{ eapply (stale_fails T tab_el tab_en check_fn LATEST root_attrs o h w r w'); eauto. rewrite Hv. discriminate. }
  specialize (Hc eq_refl). unfold Inv.run in H.
  assert (G : forall A (k : N -> W A) r0 w0, (do v <- min_version LATEST h; k v)%W w = Val (r0, w0) -> w0 = w /\ failed r0).
  { intros A k r0 w0 E. apply wbind_inv in E as [(v & w1 & E1 & _) | (e & E1 & ->)].
    - destruct (min_version_chain _ _ _ _ _ Hc Hd E1) as (_ & [=]).
    - destruct (min_version_chain _ _ _ _ _ Hc Hd E1) as (-> & _). split; [reflexivity|eexists; reflexivity]. }
  destruct o; try discriminate Hv; injection Hp as ->; cbn [run_op] in H;
    first [ apply stale_elem_op in H; [exact H|] | apply stale_unit_op in H; [exact H|] ];
    clear H; intros r0 w0 H.
  - unfold e_create_sub_element in H. eapply G; eauto.
  - unfold e_create_sub_element_at in H. eapply G; eauto.
  - unfold e_set_attribute in H. eapply G; eauto.
  - unfold e_get_or_create_sub_element in H.
    exact (G _ (fun v => (do s <- get_sub_element h name;
                          match s with Some c => wret c | None => raw_create_sub_element T h name v end)%W) _ _ H).
Qed.
End Stale3C.
