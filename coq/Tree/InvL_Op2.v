(* Tree/InvL_Op2.v — C03: DFL over op2 (PARTIAL: without OpDuplicate / OpLoad, pending_real2). *)
From AV Require Import Base.Bytes Base.Outcome Hash.HashModel Tree.Heap Tree.Ops Tree.Script Tree.Inv
  Tree.InvProofsBase Tree.InvProofsCore Tree.InvProofs Tree.InvProofsDetFiles Tree.InvProofsOp2 Tree.InvProofsOp2Lift
  Tree.InvEBase Tree.InvL_Base Tree.InvL_Main Tree.Script2.
Open Scope string_scope.
Open Scope list_scope.
Open Scope N_scope.

Section L2.
Variable T : tables.
Variable tab_el tab_at tab_en : nametab.
Variable check_fn : N -> list N -> res bool.
Variable float_parse : list N -> option N.
Variable float_fmt : N -> list N.
Variable LATEST name_index name_definition_ref attr_schema_location : N.
Variable root_attrs : list (N * cdata).

Theorem DFL_step2_partial o w r w' :
  TreeInvL w -> DFL w -> pending_real2 o = false ->
  run_op2 T tab_el tab_at tab_en check_fn float_parse float_fmt LATEST name_index name_definition_ref
          attr_schema_location root_attrs o w = Val (r, w') -> DFL w'.
Proof.
  intros I D Hp H. destruct o as [o1| | | | | | | |];
    try (eapply DFL_pframe; [apply I|eapply lf_p; eapply lift_step2; eauto; intros o1; discriminate|exact D]).
  cbn [run_op2] in H. apply wmap_inv in H as (r0 & H & _). eapply DF_stepL; eauto.
Qed.
End L2.
