(* Tree/SpecWFReal.v — [F] SpecWF RT: the well-formedness facts of Tree/SpecWF.v hold of the regenerated real tables.
   The per-index checkers are evaluated in Gen/WFSweep*.v (sharded vm_compute, regenerated on every check run);
   the bounds (the table functions are undefined at and above the table sizes) follow from how Spec/SpecReal.v builds its maps. *)
From Coq Require Import FMapPositive Arith Lia.
From AV Require Import Base.Bytes Base.Outcome Spec.SpecOps Spec.SpecProofs Spec.SpecReal Tree.SpecWF.
From AV.Gen Require Import SpecTables WFSweepAll.
Open Scope N_scope.

Lemma succ_pos_key j k : N.succ_pos j = Pos.of_succ_nat k <-> N.to_nat j = k.
Proof.
  split; intros H.
  - assert (E : N.pos (N.succ_pos j) = N.pos (Pos.of_succ_nat k)) by congruence.
    rewrite N.succ_pos_spec in E. change (N.pos (Pos.of_succ_nat k)) with (N.of_nat (S k)) in E. lia.
  - assert (E : N.pos (N.succ_pos j) = N.pos (Pos.of_succ_nat k)).
    { rewrite N.succ_pos_spec. change (N.pos (Pos.of_succ_nat k)) with (N.of_nat (S k)). lia. }
    injection E as E. exact E.
Qed.

(* get (build l) i = the i-th element of l *)
Lemma fold_build {A} (l : list A) : forall (m : PositiveMap.t A) (p : positive) (done : list A),
  p = Pos.of_succ_nat (List.length done) ->
  (forall i, PositiveMap.find (N.succ_pos i) m = nth_error done (N.to_nat i)) ->
  forall i, PositiveMap.find (N.succ_pos i)
              (fst (fold_left (fun (acc : PositiveMap.t A * positive) x =>
                                 (PositiveMap.add (snd acc) x (fst acc), Pos.succ (snd acc))) l (m, p)))
            = nth_error (done ++ l) (N.to_nat i).
Proof.
  induction l as [|x l IH]; intros m p done Hp Hm i.
  - cbn [fold_left fst]. rewrite app_nil_r. apply Hm.
  - cbn [fold_left fst snd].
    replace (done ++ x :: l) with ((done ++ [x]) ++ l) by (rewrite <- app_assoc; reflexivity).
    apply IH.
    + rewrite app_length. cbn [List.length]. subst p. rewrite Nat.add_1_r. reflexivity.
    + intros j. destruct (Pos.eq_dec (N.succ_pos j) p) as [E|NE].
      * rewrite E, PositiveMap.gss. subst p. apply succ_pos_key in E.
        rewrite E, nth_error_app2 by lia. rewrite Nat.sub_diag. reflexivity.
      * rewrite PositiveMap.gso by exact NE. rewrite Hm.
        assert (NK : N.to_nat j <> List.length done) by (intros K; apply NE; subst p; apply succ_pos_key; exact K).
        destruct (Nat.lt_ge_cases (N.to_nat j) (List.length done)) as [LT|GE].
        -- rewrite nth_error_app1 by exact LT. reflexivity.
        -- assert (nth_error done (N.to_nat j) = None) as -> by (apply nth_error_None; lia).
           symmetry. apply nth_error_None. rewrite app_length. cbn [List.length]. lia.
Qed.

Lemma get_build {A} (l : list A) i : get (build l) i = nth_error l (N.to_nat i).
Proof.
  unfold get, build. apply (fold_build l (PositiveMap.empty A) 1%positive []); [reflexivity|].
  intros j. rewrite PositiveMap.gempty. destruct (N.to_nat j); reflexivity.
Qed.

Lemma get_build_bound {A} (l : list A) i a : get (build l) i = Some a -> i < lenN l.
Proof.
  rewrite get_build. intros H. assert (nth_error l (N.to_nat i) <> None) by congruence.
  apply nth_error_Some in H0. unfold lenN. lia.
Qed.

Lemma m_datatypes_eq : m_datatypes = build (map mk_dt t_datatypes).
Proof. vm_cast_no_check (@eq_refl _ m_datatypes). Qed.
Lemma m_elements_eq : m_elements = build (map mk_elem t_elements).
Proof. vm_cast_no_check (@eq_refl _ m_elements). Qed.

Lemma real_dt_bound ty d : T_datatypes RT ty = Some d -> ty < n_datatypes RT.
Proof.
  cbn [T_datatypes n_datatypes RT]. rewrite m_datatypes_eq. intros H. apply get_build_bound in H.
  unfold lenN in H. rewrite map_length in H. exact H.
Qed.
Lemma real_elem_bound i e : T_elements RT i = Some e -> i < n_elements RT.
Proof.
  cbn [T_elements n_elements RT]. rewrite m_elements_eq. intros H. apply get_build_bound in H.
  unfold lenN in H. rewrite map_length in H. exact H.
Qed.

Theorem SpecWF_real : SpecWF RT.
Proof.
  apply SpecWF_of_checks.
  - exact real_dt_bound.
  - exact real_elem_bound.
  - rewrite wf_n_datatypes. exact wf_sweep_all_dt.
  - rewrite wf_n_elements. exact wf_sweep_all_el.
Qed.
