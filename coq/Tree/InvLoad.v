(* Tree/InvLoad.v — C03 over the extended alphabet op2 (Tree/Script2.v): the classes of OpLoad on which the code
   breaks the tree invariant, and histories over op2.  DEFINITIONS ONLY (proofs: Tree/InvProofsLoad*.v).

   (v) Known_load_shared — a GENUINE finding (confirmed on the library): merge_element pairs elements of the model
       with elements of the incoming file by the two-pointer walk.  When at one level
         * two model elements get the SAME incoming element as their merge partner (MergeUnequal / find_merge_partner
           returns the first sibling with the same key: two multi-valued parameters with one DEFINITION-REF), or
         * an incoming element is first put into elements_b_only and later chosen as a merge partner,
       merge_sub_elements imports the sub-elements of that incoming element into two model elements (or imports the
       element AND merges it): they end up in two content lists, their parent link names only the last one.
       The class is decided by re-running the decisions of merge_element at every level the real merge visits.
   (vi) Known_load_rejected — the load returns InvalidFileMerge: the rollback (Element::remove_from_file at the root)
       runs on a state in which the dropped incoming elements still list what was imported; not covered here. *)
From AV Require Import Base.Bytes Base.Outcome Hash.HashModel Tree.Heap Tree.Ops Tree.Script Tree.Inv
  Tree.Sort Tree.Copy Tree.Load Tree.Compat Tree.Serialize Tree.Script2.
From AV Require Xml.Parser.
Open Scope string_scope.
Open Scope list_scope.
Open Scope N_scope.

Definition inb (i : N) (l : list N) : bool := existsb (N.eqb i) l.
Fixpoint nodupb (l : list N) : bool :=
  match l with [] => true | x :: r => negb (inb x r) && nodupb r end.

(* one level: an incoming element is the partner of two model elements, or imported and merged *)
Definition walk_shared (wk : walked) : bool :=
  negb (nodupb (map snd (wk_merge wk))) ||
  existsb (fun b => inb (fst b) (map snd (wk_merge wk))) (wk_b_only wk).

Section KnownLoad.
Variable T : tables.
Variable tab_el tab_at tab_en : nametab.
Variable check_fn : N -> list N -> res bool.
Variable float_parse : list N -> option N.
Variable float_fmt : N -> list N.
Variable LATEST name_index name_definition_ref attr_schema_location : N.
Variable root_attrs : list (N * cdata).

(* the decisions of merge_element at (parent_a, parent_b): the computation of Load.merge_element up to the walk *)
Definition merge_decisions (pa : id) (files : list N) (pb nf : N) (w : world) : option walked :=
  match w_nodes w pa, w_nodes w pb with
  | Some na, Some nb =>
    let pty := n_type na in
    match keys_of T name_definition_ref w pty (n_content na), keys_of T name_definition_ref w pty (n_content nb) with
    | Val la, Val lb =>
      let min_ver_a := files_min_version LATEST w files in
      let min_ver_b := match nth_opt (w_files w) (N.to_nat nf) with Some x => f_version x | None => LATEST end in
      match splittable_in T pty (N.min min_ver_a min_ver_b) with
      | Val sp =>
        match walk (S (List.length la + List.length lb)) la lb sp (N.of_nat (List.length (n_content na))) 0 la lb
                   (mkWalked [] [] []) with
        | Val (OK wk) => Some wk
        | _ => None
        end
      | _ => None
      end
    | _, _ => None
    end
  | _, _ => None
  end.

Definition min_ver_of (nf : N) (w : world) : N :=
  match nth_opt (w_files w) (N.to_nat nf) with Some x => f_version x | None => LATEST end.

(* follows the recursion of Load.merge_element (same worlds) and looks at the decisions of every level *)
Fixpoint merge_shared (fuel : nat) (pa : id) (files : list N) (pb nf : N) (w : world) {struct fuel} : bool :=
  match fuel with
  | O => false
  | S fl =>
    match merge_decisions pa files pb nf w with
    | None => false
    | Some wk =>
      walk_shared wk ||
      match (restrict_a_only (wk_a_only wk) files;;
             import_new_items T pa (wk_b_only wk) 0 nf (min_ver_of nf w))%W w with
      | Val (OK _, w2) =>
        (fix subs (l : list (id * id)) (wc : world) {struct l} : bool :=
           match l with
           | [] => false
           | (ea, eb) :: r =>
             match w_nodes wc ea with
             | None => false
             | Some nea =>
               let files' := if negb (is_empty (n_files nea)) then n_files nea else files in
               merge_shared fl ea files' eb nf wc ||
               match (merge_element T LATEST name_definition_ref fl ea files' eb nf;;
                      modify_node ea (fun x => if negb (is_empty (n_files x))
                                               then set_files x (set_add nf (n_files x)) else x))%W wc with
               | Val (OK _, wn) => subs r wn
               | _ => false
               end
             end
           end) (wk_merge wk) w2
      | _ => false
      end
    end
  end.

(* the state in which load_parsed calls merge_file_data: parsed tree installed, file record appended *)
Definition load_merge_point (m : N) (buffer filename : list N) (strict : bool) (w : world) : option (world * id * N) :=
  match Parser.load strict T tab_el tab_at tab_en check_fn float_parse buffer with
  | Val (Parser.Ret root st) =>
    match install PNone root w with
    | Val (OK t, w1) =>
      Some (mkWorld (w_nodes w1) (w_next w1)
                    (w_files w1 ++ [mkFile m filename (Parser.p_version st) (Parser.p_standalone st)]) (w_models w1),
            it_id t, N.of_nat (List.length (w_files w)))
    | _ => None
    end
  | _ => None
  end.

Notation run2 := (run_op2 T tab_el tab_at tab_en check_fn float_parse float_fmt LATEST name_index name_definition_ref
                          attr_schema_location root_attrs).

Definition Known_load_shared (w : world) (o : op2) : bool :=
  match o with
  | OpLoad m buffer filename strict =>
    match load_merge_point m buffer filename strict w with
    | Some (w2, root_element, fid) =>
      match nth_opt (w_models w2) (N.to_nat m) with
      | Some x =>
        negb (is_empty (m_files x)) &&
        merge_shared (fuel_of w2) (m_root x) (fold_right set_add [] (m_files x)) root_element fid w2
      | None => false
      end
    | None => false
    end
  | _ => false
  end.

Definition Known_load_rejected (w : world) (o : op2) : bool :=
  match o with
  | OpLoad _ _ _ _ => match run2 o w with Val (ER InvalidFileMerge, _) => true | _ => false end
  | _ => false
  end.

Definition Known_load (w : world) (o : op2) : bool := Known_load_shared w o || Known_load_rejected w o.

(* the first load into a model replaces the root element; the old root keeps its parent link `PModel m`
   (in the library it is dropped unless a handle is held): breaks RootsOnly, not Core *)
Definition Known_load_first (w : world) (o : op2) : bool :=
  match o with
  | OpLoad m _ _ _ => match nth_opt (w_models w) (N.to_nat m) with Some x => is_empty (m_files x) | None => false end
  | _ => false
  end.

(* histories over op2 *)
Fixpoint run_ops2 (l : list op2) (w : world) : res world :=
  match l with
  | [] => Val w
  | o :: r => match run2 o w with Val (_, w') => run_ops2 r w' | Pan s => Pan s | Fuel => Fuel end
  end.

Fixpoint clean_load_ops2 (l : list op2) (w : world) : bool :=
  match l with
  | [] => true
  | o :: r => negb (Known_load w o) && match run2 o w with Val (_, w') => clean_load_ops2 r w' | _ => true end
  end.

End KnownLoad.
