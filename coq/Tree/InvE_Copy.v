(* GENERATED from Tree/InvProofsCopy.v by tools/c03_gen_invE.py: the same proof over NoOrphanP (no RootsOnly), see Tree/InvEBase.v *)
(* Tree/InvProofsCopy.v — C03 proofs: deep_copy only allocates (a consistent detached tree), register_subtree only
   touches the index, create_copied_sub_element(_at). *)
From Coq Require Import PeanoNat Arith.
From AV Require Import Base.Bytes Base.Outcome Hash.HashModel Tree.Heap Tree.Ops Tree.Script Tree.Inv
  Tree.InvProofsBase Tree.InvProofsCore Tree.InvProofsTree Tree.InvProofsPrim Tree.InvEBase Tree.InvProofsCreate Tree.InvE_Create
  Tree.InvProofsData Tree.InvProofsRefs Tree.InvProofsRemove Tree.InvE_Remove Tree.InvProofsMove Tree.InvE_Move.
Open Scope string_scope.
Open Scope list_scope.
Open Scope N_scope.

(* w' extends w: the nodes allocated in w are untouched *)
Definition extE (w w' : world) : Prop :=
  w_next w <= w_next w' /\ roots w' = roots w /\ forall x, x < w_next w -> w_nodes w' x = w_nodes w x.

Lemma ext_reflE w : extE w w. Proof. repeat split; auto. lia. Qed.
Lemma ext_transE a b c : extE a b -> extE b c -> extE a c.
Proof.
  intros (H1 & H2 & H3) (G1 & G2 & G3). repeat split; try lia; try congruence.
  intros x Hx. rewrite G3 by lia. auto.
Qed.
Lemma same_nodes_extE w w' :
  w_next w' = w_next w -> roots w' = roots w -> (forall x, x < w_next w -> w_nodes w' x = w_nodes w x) -> extE w w'.
Proof. intros. repeat split; auto. lia. Qed.

(* what deep_copy guarantees *)
Definition copy_postE (w : world) (r : out id) (w' : world) : Prop :=
  Core w' /\ (forall S, OrphSubE w S -> OrphSubE w' S) /\ extE w w' /\
  match r with
  | OK c => c = w_next w /\ c < w_next w' /\ exists nc, w_nodes w' c = Some nc /\ n_parent nc = PNone
  | ER _ => True
  end.

Lemma elems_app_elemE l c : elems (l ++ [CElem c]) = elems l ++ [c].
Proof. rewrite elems_app. reflexivity. Qed.
Lemma elems_app_dataE l d : elems (l ++ [CData d]) = elems l.
Proof. rewrite elems_app. cbn. apply app_nil_r. Qed.

Lemma pnone_unlistedE w c nc : Core w -> w_nodes w c = Some nc -> n_parent nc = PNone -> forall p, ~ lists w p c.
Proof. intros C Hc Hp p Hl. apply C in Hl. destruct Hl as (n & Hn & Hpp). congruence. Qed.

Lemma pnone_not_belowE w a c nc : w_nodes w c = Some nc -> n_parent nc = PNone -> AncS w a c -> a = c.
Proof. intros Hc Hp Ha. destruct Ha as [|x p (n & Hn & Hpp) Ha]; auto. congruence. Qed.

Section Copy.
Variable T : tables.
Variable tab_el tab_en : nametab.
Variable check_fn : N -> list N -> res bool.
Variable LATEST : N.

(* attach a detached tree top cs below c (c itself a detached top, older than cs) at the end of c's list *)
Lemma attach_lastE w c cs ncs :
  Core w -> c <> cs -> allocated w c -> (forall a, AncS w a c -> a = c) ->
  w_nodes w cs = Some ncs -> n_parent ncs = PNone ->
  forall r1 w1 r2 w2,
    modify_node cs (fun x => set_parent x (PElem c)) w = Val (r1, w1) ->
    modify_node c (fun x => set_content x (n_content x ++ [CElem cs])) w1 = Val (r2, w2) ->
    Core w2 /\ (forall S, OrphSubE w S -> OrphSubE w2 S) /\ w_next w2 = w_next w /\ roots w2 = roots w /\
    (forall x, x <> c -> x <> cs -> w_nodes w2 x = w_nodes w x) /\
    (exists nc nc2, w_nodes w c = Some nc /\ w_nodes w2 c = Some nc2 /\ n_parent nc2 = n_parent nc) /\
    r1 = OK tt /\ r2 = OK tt.
Proof.
  intros C Hne Hac Htop Hcs Hp r1 w1 r2 w2 H1 H2.
  apply modify_node_wset in H1 as (n1 & Hn1 & -> & ->). assert (n1 = ncs) as -> by congruence.
  set (w1 := wset w cs _) in *.
  pose proof (pnone_unlistedE _ _ _ C Hcs Hp) as Hun.
  assert (Hi : skel w cs = Some (PNone, kids ncs)) by (rewrite (skel_some _ _ _ Hcs), Hp; auto).
  assert (Hi' : skel w1 cs = Some (PElem c, kids ncs)) by (unfold w1; rewrite skel_wset_eq; reflexivity).
  assert (C1 : Core w1).
  { eapply (core_reparent w w1 cs); eauto using upd1_wset; [congruence|].
    intros Ha. apply Htop in Ha. congruence. }
  apply modify_node_wset in H2 as (nc1 & Hnc1 & -> & ->).
  assert (Hnc : w_nodes w c = Some nc1) by (unfold w1 in Hnc1; rewrite nodes_wset_neq in Hnc1 by auto; auto).
  set (nc2 := set_content nc1 _). set (w2 := wset w1 c nc2).
  assert (Hj : skel w1 c = Some (n_parent nc1, kids nc1)) by (apply skel_some; auto).
  assert (Hj' : skel w2 c = Some (n_parent nc1, kids nc1 ++ [cs])).
  { unfold w2. rewrite skel_wset_eq. unfold nc2, kids. cbn. rewrite elems_app_elemE. reflexivity. }
  assert (Hpar : par w1 cs c) by (apply par_skel; eauto).
  assert (Hnin : ~ In cs (kids nc1)) by (intros Hin; apply (Hun c); exists nc1; auto).
  assert (Hin : forall x, In x (kids nc1 ++ [cs]) <-> x = cs \/ In x (kids nc1)).
  { intros x. rewrite in_app_iff. cbn. intuition. }
  split; [|split; [|split; [|split; [|split; [|split]]]]]; auto.
  - eapply (core_upd_kids w1 w2 c); eauto using upd1_wset.
    + apply NoDup_app_intro; [eapply c_nodup; eauto | repeat constructor; auto |].
      intros x Hx [<-|[]]. auto.
    + intros x Hx. apply Hin in Hx as [->|Hx]; auto.
  - intros S HO. eapply OrphSubE_weaken; [|eapply (orphsubE_insert w1 w2 c); eauto using upd1_wset;
                                             eapply (orphsubE_reparent w w1 cs); eauto using upd1_wset].
    cbn. intros x [[Hs| ->] Hx]; auto. congruence.
  - intros x Hxc Hxs. unfold w2, w1. rewrite !nodes_wset_neq by auto. reflexivity.
  - exists nc1, nc2. repeat split; auto. unfold w2. apply nodes_wset_eq.
Qed.

(* ---------- deep_copy ---------- *)
Definition items_loopE (f : nat) (ty : N * N) (version : N) (c : id) : list citem -> W unit :=
  fix items (l : list citem) : W unit :=
    match l with
    | [] => wret tt
    | CData d :: rest =>
      (modify_node c (fun x => set_content x (n_content x ++ [CData d]));; items rest)%W
    | CElem s :: rest =>
      (do sn <- get_node s;
       do fs <- wl (find_sub_element T ty (n_name sn) version);
       match fs with
       | Some _ =>
         do r <- wtry (deep_copy T f s version);
         match r with
         | Some cs =>
           modify_node cs (fun x => set_parent x (PElem c));;
           modify_node c (fun x => set_content x (n_content x ++ [CElem cs]));;
           items rest
         | None => items rest
         end
       | None => items rest
       end)%W
    end.

Definition CInvE (w0 : world) (c : id) (wk : world) : Prop :=
  Core wk /\ (forall S, OrphSubE w0 S -> OrphSubE wk S) /\ extE w0 wk /\ w_next w0 <= c /\ c < w_next wk /\
  exists nc, w_nodes wk c = Some nc /\ n_parent nc = PNone.

Lemma CInv_stE w0 c wk wk' :
  same_tree wk wk' -> (forall x, x < w_next w0 -> w_nodes wk' x = w_nodes wk x) -> CInvE w0 c wk -> CInvE w0 c wk'.
Proof.
  intros ST Hold (Ck & Ok & (E1 & E2 & E3) & Hc0 & Hc & nc & Hnc & Hp).
  pose proof ST as (Hn & Hr & Hs).
  split; [eapply Core_same_tree; eauto|]. split; [intros S HS; eapply OrphSubE_same_tree; eauto|].
  split; [repeat split; try congruence; try lia; intros x Hx; rewrite Hold by auto; auto|].
  split; auto. split; [lia|].
  specialize (Hs c). rewrite (skel_some _ _ _ Hnc) in Hs. apply skel_inv in Hs as (nc' & Hnc' & Hp' & _).
  exists nc'. split; auto. congruence.
Qed.

Lemma items_specE f w0 c ty version :
  (forall src ver w r w', deep_copy T f src ver w = Val (r, w') -> Core w -> copy_postE w r w') ->
  forall l wk r w', CInvE w0 c wk -> items_loopE f ty version c l wk = Val (r, w') -> CInvE w0 c w'.
Proof.
  intros IHf. induction l as [|[s|d] l IH]; intros wk r w' I H; cbn [items_loopE] in H.
  - winv H. auto.
  - wstepn H sn Es; winv Es. wstepn H fs Ef; winv Ef.
    destruct v as [x|]; [|eapply IH; eauto].
    wstepn H ro Ed. apply wtry_inv in Ed as (r0 & Ed & [= ->]).
    pose proof I as (Ck & Ok & Ek & Hc0 & Hc & nc & Hnc & Hp).
    destruct (IHf _ _ _ _ _ Ed Ck) as (C1 & O1 & E1 & Hr0).
    destruct r0 as [cs|e].
    + destruct Hr0 as (-> & Hcs & ncs & Hncs & Hpcs).
      wstepn H u1 Em1. wstepn H u2 Em2.
      assert (Hc1 : w_nodes w c = Some nc) by (rewrite (proj2 (proj2 E1)) by auto; auto).
      destruct (attach_lastE w c (w_next wk) ncs C1 ltac:(lia) ltac:(eexists; eauto)
                  (fun a Ha => pnone_not_belowE _ _ _ _ Hc1 Hp Ha) Hncs Hpcs _ _ _ _ Em1 Em2)
        as (C2 & O2 & N2 & R2 & F2 & (nc1 & nc2 & Hq1 & Hq2 & Hq3) & _ & _).
      eapply IH; [|exact H]. split; auto. split; [intros S HS; auto|].
      destruct Ek as (K1 & K2 & K3). destruct E1 as (L1 & L2 & L3).
      split; [repeat split; try lia; try congruence|].
      { intros y Hy. rewrite F2 by lia. rewrite L3 by lia. auto. }
      split; auto. split; [lia|]. exists nc2. split; auto. congruence.
    + eapply IH; [|exact H]. split; auto. split; [intros S HS; auto|].
      split; [eapply ext_transE; eauto|]. split; auto. destruct E1 as (L1 & L2 & L3). split; [lia|].
      exists nc. split; auto. rewrite L3 by auto. auto.
  - wstepn H u Em. pose proof I as (Ck & Ok & Ek & Hc0 & Hc & nc & Hnc & Hp).
    apply modify_node_wset in Em as (nc' & Hnc' & _ & ->). assert (nc' = nc) as -> by congruence.
    eapply IH; [|exact H]. eapply CInv_stE; [| |exact I].
    + eapply st_wset; eauto. unfold kids. cbn. apply elems_app_dataE.
    + intros x Hx. apply nodes_wset_neq. lia.
Qed.

Lemma deep_copy_specE f : forall src ver w r w', deep_copy T f src ver w = Val (r, w') -> Core w -> copy_postE w r w'.
Proof.
  induction f as [|f IHf]; intros src ver w r w' H C; [discriminate|].
  change (deep_copy T (S f) src ver) with
    (do n <- get_node src;
     do c <- alloc (mkNode PNone (n_name n) (n_type n) [] [] [] (n_comment n));
     do attrs <- copy_attrs T (n_type n) ver (n_attrs n) [];
     modify_node c (fun x => set_attrs x attrs);;
     items_loopE f (n_type n) ver c (n_content n);;
     wret c)%W in H.
  wstepn H n En; winv En.
  wstepn H c Ea. apply alloc_walloc in Ea as ([= ->] & ->).
  set (nd := mkNode _ _ _ _ _ _ _) in *. set (w1 := walloc w nd) in *.
  assert (Hsk : skel w1 (w_next w) = Some (PNone, [])) by (unfold w1; rewrite skel_walloc_new; reflexivity).
  assert (I1 : CInvE w (w_next w) w1).
  { split; [eapply (core_alloc w w1 PNone); eauto using alloc1_walloc|].
    split.
    { intros S HS. eapply OrphSubE_weaken; [|eapply (orphsubE_alloc w w1 PNone); eauto using alloc1_walloc; congruence].
      cbn. intros x [?|(_ & Hx)]; auto. congruence. }
    split; [split; [unfold w1; cbn; lia | split; [reflexivity | intros x Hx; unfold w1; apply nodes_walloc_old; lia]]|].
    split; [lia|]. split; [unfold w1; cbn; lia|]. exists nd. split; [apply nodes_walloc_new|reflexivity]. }
  assert (P1 : forall e, copy_postE w (@ER id e) w1).
  { intros e. destruct I1 as (C1 & O1 & E1 & _). split; [exact C1|split; [exact O1|split; [exact E1|exact I]]]. }
  wstepn H attrs Ec. 2:{ apply P1. }
  wstepn H u Em. apply modify_node_wset in Em as (nd' & Hnd' & _ & ->).
  assert (I2 : CInvE w (w_next w) (wset w1 (w_next w) (set_attrs nd' attrs))).
  { eapply CInv_stE; [| |exact I1].
    - eapply st_wset; eauto.
    - intros x Hx. apply nodes_wset_neq. lia. }
  wstepn H u2 Ei.
  - winv H. destruct (items_specE f w (w_next w) _ _ IHf _ _ _ _ I2 Ei) as (C3 & O3 & E3 & _ & Hc3 & nc & Hnc & Hp).
    split; auto. split; auto. split; auto. split; auto. split; eauto.
  - destruct (items_specE f w (w_next w) _ _ IHf _ _ _ _ I2 Ei) as (C3 & O3 & E3 & _).
    split; [exact C3|split; [exact O3|split; [exact E3|exact I]]].
Qed.

(* ---------- register_subtree: index only ---------- *)
Lemma stp_kloopE step l : (forall c, stp (step c)) -> stp (kloopE step l).
Proof. intros Hs. induction l as [|[c|d] l IH]; cbn [kloopE]; stp_tac. Qed.

Lemma stp_register_subtreeE f : forall m cur i, stp (register_subtree T f m cur i).
Proof.
  induction f as [|f IH]; intros m cur i; [intros w r w' H; discriminate|].
  change (register_subtree T (S f) m cur i) with
    (do n <- get_node i;
     do ident <- is_identifiable T n;
     do cur' <- (if ident then
                   do nm <- item_name T n;
                   let p := match nm with Some x => cur ++ [47] ++ x | None => cur end in
                   add_identifiable m p i;; wret p
                 else wret cur);
     do isr <- wl (is_ref T (n_type n));
     (if isr then
        do cd <- wl (character_data T n);
        match cd with Some (DString r) => add_reference_origin m r i | _ => wret tt end
      else wret tt);;
     kloopE (fun c => register_subtree T f m cur' c) (n_content n))%W.
  stp_tac. apply stp_kloopE. intros c. apply IH.
Qed.

(* ---------- create_copied_sub_element ---------- *)
Definition copy_post2E (w : world) (r : out id) (w' : world) : Prop :=
  Core w' /\
  (NoOrphanP w -> NoOrphanP w' \/ (exists e, r = ER e /\ is_pelem (parent_in w' (w_next w)) = true)).

Lemma old_ancestorsE w w1 a x :
  Core w -> (forall y, y < w_next w -> w_nodes w1 y = w_nodes w y) ->
  AncS w1 a x -> x < w_next w -> a < w_next w.
Proof.
  intros C Hold Ha. induction Ha as [|x p Hp Ha IH]; intros Hx; auto. apply IH.
  destruct Hp as (n & Hn & Hpp). rewrite Hold in Hn by auto.
  assert (Hd : allocated w x) by (eexists; eauto). destruct (c_depth _ C _ Hd) as (h & Hdep).
  destruct (par_depth w x p h (ex_intro _ n (conj Hn Hpp)) Hdep) as (h' & _ & Dp).
  apply C. eapply depth_alloc; eauto.
Qed.

Lemma copied_inner_specE self other pos m version w r w' :
  create_copied_sub_element_inner T self other pos m version w = Val (r, w') -> Core w -> copy_post2E w r w'.
Proof.
  intros H C. unfold create_copied_sub_element_inner in H.
  assert (F : copy_post2E w r w) by (split; auto).
  wrun_ro H ltac:(exact F).
  wstepn H c Ed.
  2:{ destruct (deep_copy_specE _ _ _ _ _ _ Ed C) as (C1 & O1 & _). split; auto. intros O. left.
      apply NoOrphanP_OrphSubE. apply O1. apply NoOrphanP_OrphSubE. auto. }
  destruct (deep_copy_specE _ _ _ _ _ _ Ed C) as (C1 & O1 & (X1 & X2 & X3) & -> & Hcn & nc & Hnc & Hpc).
  match type of Ed with _ = Val (_, ?wx) => rename wx into w1 end.
  assert (F1 : copy_post2E w r w1).
  { split; auto. intros O. left. apply NoOrphanP_OrphSubE. apply O1. apply NoOrphanP_OrphSubE. auto. }
  wrun_ro H ltac:(exact F1).
  wstepn H u Em. apply modify_node_wset in Em as (nc' & Hnc' & _ & ->). assert (nc' = nc) as -> by congruence.
  set (c := w_next w) in *. set (w2 := wset w1 c _) in *.
  assert (Hself1 : w_nodes w1 self = Some n) by (rewrite X3; auto; apply C; eexists; eauto).
  assert (Hlt : self < c) by (apply C; eexists; eauto).
  assert (Hi : skel w1 c = Some (PNone, kids nc)) by (rewrite (skel_some _ _ _ Hnc), Hpc; auto).
  assert (Hi' : skel w2 c = Some (PElem self, kids nc)) by (unfold w2; rewrite skel_wset_eq; reflexivity).
  assert (Hun1 : forall p, ~ lists w1 p c) by (eapply pnone_unlistedE; eauto).
  assert (C2 : Core w2).
  { eapply (core_reparent w1 w2 c); eauto using upd1_wset; [congruence | eexists; eauto |].
    intros Ha. pose proof (old_ancestorsE w w1 c self C X3 Ha Hlt). unfold c in *. lia. }
  assert (O2 : NoOrphanP w -> OrphSubE w2 (fun x => x = c)).
  { intros O. eapply OrphSubE_weaken; [|eapply (orphsubE_reparent w1 w2 c); eauto using upd1_wset;
                                         apply O1; apply NoOrphanP_OrphSubE; eauto].
    cbn. tauto. }
  assert (Hpar2 : par w2 c self) by (apply par_skel; eauto).
  assert (Hun2 : forall p, ~ lists w2 p c).
  { intros p Hl. apply (Hun1 p). apply lists_skel in Hl as (qa & qb & Eq & Hin). apply lists_skel.
    destruct (N.eq_dec p c) as [->|Hp].
    - rewrite Hi' in Eq. injection Eq as <- <-. eauto.
    - unfold w2 in Eq. rewrite skel_wset_neq in Eq by auto. eauto. }
  clearbody w2.
  assert (EXIT : forall wk e, same_tree w2 wk -> copy_post2E w (@ER id e) wk).
  { intros wk e ST. split; [eapply Core_same_tree; eauto|]. intros _. right. exists e. split; auto.
    destruct ST as (_ & _ & Hs). specialize (Hs c). rewrite Hi' in Hs.
    apply skel_inv in Hs as (nk & Hnk & Hpk & _). unfold parent_in. fold c. rewrite Hnk, Hpk. reflexivity. }
  wstepn H cn Eg; winv Eg.
  wstepn H ident Ei. 2:{ unfold is_identifiable in Ei. absurd_err Ei. }
  wstepn H u2 Eu.
  2:{ apply EXIT. match type of Eu with ?mm ?wa = _ => refine ((_ : stp mm) wa _ _ Eu) end.
      destruct ident; [|stp_tac]. apply stp_bind; [apply stp_make_unique | intros; stp_tac]. }
  assert (ST3 : same_tree w2 w0).
  { match type of Eu with ?mm ?wa = _ => refine ((_ : stp mm) wa _ _ Eu) end.
    destruct ident; [|stp_tac]. apply stp_bind; [apply stp_make_unique | intros; stp_tac]. }
  wstepn H w2' Ew; winv Ew.
  wstepn H u3 Er.
  2:{ apply EXIT. eapply same_tree_trans; [exact ST3|]. eapply stp_register_subtreeE; eauto. }
  assert (ST4 : same_tree w2 w3).
  { eapply same_tree_trans; [exact ST3|]. eapply stp_register_subtreeE; eauto. }
  assert (C4 : Core w3) by (eapply Core_same_tree; eauto).
  assert (Hpar4 : par w3 c self).
  { apply par_skel. destruct ST4 as (_ & _ & Hs). rewrite Hs. apply par_skel. auto. }
  assert (Hun4 : ~ lists w3 self c).
  { intros Hl. apply (Hun2 self). apply lists_skel. destruct ST4 as (_ & _ & Hs). rewrite <- Hs. apply lists_skel. auto. }
  wstepn H u5 Ec.
  - winv H. destruct (insert_child_coreE _ _ _ _ _ _ C4 Hpar4 Hun4 Ec) as (C' & _ & HO). split; auto.
    intros O. left. apply NoOrphanP_OrphSubE.
    eapply OrphSubE_weaken; [|apply HO; eapply OrphSubE_same_tree; [exact ST4|apply O2; auto]].
    cbn. intros x (-> & Hx). congruence.
  - destruct (insert_child_coreE _ _ _ _ _ _ C4 Hpar4 Hun4 Ec) as (_ & [=] & _).
Qed.

Lemma raw_copied_specE self other m version w r w' :
  raw_create_copied_sub_element T self other m version w = Val (r, w') -> Core w -> copy_post2E w r w'.
Proof.
  intros H C. unfold raw_create_copied_sub_element in H.
  assert (F : copy_post2E w r w) by (split; auto).
  wrun_ro H ltac:(exact F). eapply copied_inner_specE; eauto.
Qed.
Lemma raw_copied_at_specE self other pos m version w r w' :
  raw_create_copied_sub_element_at T self other pos m version w = Val (r, w') -> Core w -> copy_post2E w r w'.
Proof.
  intros H C. unfold raw_create_copied_sub_element_at in H.
  assert (F : copy_post2E w r w) by (split; auto).
  wrun_ro H ltac:(exact F). eapply copied_inner_specE; eauto.
Qed.
Lemma e_copied_specE h other w r w' :
  e_create_copied_sub_element T LATEST h other w = Val (r, w') -> Core w -> copy_post2E w r w'.
Proof.
  intros H C. unfold e_create_copied_sub_element in H.
  assert (F : copy_post2E w r w) by (split; auto).
  wrun_ro H ltac:(exact F). eapply raw_copied_specE; eauto.
Qed.
Lemma e_copied_at_specE h other pos w r w' :
  e_create_copied_sub_element_at T LATEST h other pos w = Val (r, w') -> Core w -> copy_post2E w r w'.
Proof.
  intros H C. unfold e_create_copied_sub_element_at in H.
  assert (F : copy_post2E w r w) by (split; auto).
  wrun_ro H ltac:(exact F). eapply raw_copied_at_specE; eauto.
Qed.

End Copy.
