(* Tree/CompatHist8.v — the typing invariant across the loader (Tree/Load.v), part 1: installing a parsed tree.
   agent-xmlproofs' `linked T t` (Xml/LoadRecords.v: every sub-element of a loaded tree was found in its parent's type under its
   name with the type it carries) makes every edge of the installed tree an okpair.  Installed nodes hang on PNone / PElem, so the
   installation is a frame step for PM (Fp). *)
From Coq Require Import PeanoNat Arith Lia.
From AV Require Import Base.Bytes Base.Outcome Hash.HashModel Spec.SpecOps Tree.Heap Tree.Ops Tree.Script Tree.Inv
  Tree.InvProofsBase Tree.InvProofsCore Tree.InvProofsPrim Tree.Load
  Tree.Compat Tree.CompatSpec Tree.CompatTyped Tree.CompatProofs8 Tree.CompatFrame Tree.CompatFrameOps
  Tree.CompatHist1 Tree.CompatPM.
From AV Require Xml.Parser Xml.StrictValidDef Xml.LoadRecords.
Open Scope string_scope.
Open Scope list_scope.
Open Scope N_scope.

Section Install.
Variable T : tables.

(* old nodes are untouched, the allocation pointer only grows *)
Definition ext2 (w w' : world) : Prop :=
  w_next w <= w_next w' /\ (forall j, j < w_next w -> w_nodes w' j = w_nodes w j) /\ w_models w' = w_models w.
Lemma ext2_refl w : ext2 w w. Proof. split; [lia|auto]. Qed.
Lemma ext2_trans a b c : ext2 a b -> ext2 b c -> ext2 a c.
Proof.
  intros (N1 & H1 & M1) (N2 & H2 & M2). split; [lia|]. split; [|congruence]. intros j Hj. rewrite H2 by lia. apply H1. exact Hj.
Qed.
Lemma ext2_old a b j : ext2 a b -> j < w_next a -> w_nodes b j = w_nodes a j.
Proof. intros (_ & H & _). apply H. Qed.

(* replacing the content list of node i by a list all of whose elements are okpairs below i *)
Lemma typed_set_content w i n items :
  TypedU T w -> w_nodes w i = Some n ->
  (forall c cn, In (CElem c) items -> w_nodes w c = Some cn -> okpair T (n_type n) (n_name cn) (n_type cn)) ->
  TypedU T (wset w i (set_content n items)).
Proof.
  intros HT Hi Hok j nj c cn Hj Hin Hc.
  assert (Hcn : exists cn0, w_nodes w c = Some cn0 /\ n_name cn0 = n_name cn /\ n_type cn0 = n_type cn).
  { destruct (N.eq_dec c i) as [->|Hne].
    - rewrite nodes_wset_eq in Hc. injection Hc as <-. exists n. auto.
    - rewrite nodes_wset_neq in Hc by exact Hne. exists cn. auto. }
  destruct Hcn as (cn0 & Hc0 & <- & <-).
  destruct (N.eq_dec j i) as [->|Hne].
  - rewrite nodes_wset_eq in Hj. injection Hj as <-. cbn [n_type set_content]. cbn [n_content set_content] in Hin.
    exact (Hok c cn0 Hin Hc0).
  - rewrite nodes_wset_neq in Hj by exact Hne. exact (HT j nj c cn0 Hj Hin Hc0).
Qed.

Lemma bounded_set_content w i n items :
  Bounded w -> w_nodes w i = Some n -> (forall c, In (CElem c) items -> c < w_next w) -> Bounded (wset w i (set_content n items)).
Proof.
  intros (B1 & B2) Hi Hb. split.
  - intros j nj Hj. cbn [wset w_next]. destruct (N.eq_dec j i) as [->|Hne]; [exact (B1 _ _ Hi)|].
    rewrite nodes_wset_neq in Hj by exact Hne. exact (B1 _ _ Hj).
  - intros j nj c Hj Hin. cbn [wset w_next]. destruct (N.eq_dec j i) as [->|Hne].
    + rewrite nodes_wset_eq in Hj. injection Hj as <-. exact (Hb c Hin).
    + rewrite nodes_wset_neq in Hj by exact Hne. exact (B2 _ _ _ Hj Hin).
Qed.

Definition inst_go (i : id) :=
  fix go (l : list (Parser.etree + Parser.cdata)) : W (list citem * list (option itree)) :=
    match l with
    | [] => wret ([], [])
    | inl c :: r => (do t <- install (PElem i) c; do '(cs, ts) <- go r; wret (CElem (it_id t) :: cs, Some t :: ts))%W
    | inr d :: r => (do '(cs, ts) <- go r; wret (CData (to_hc d) :: cs, None :: ts))%W
    end.

Definition inst_post (parent : pref) (e : Parser.etree) (w : world) (r : out itree) (w' : world) : Prop :=
  Bounded w' /\ TypedU T w' /\ Fp w w' /\ ext2 w w' /\
  exists t, r = OK t /\ it_id t = w_next w /\ w_next w < w_next w' /\
            exists n, w_nodes w' (w_next w) = Some n /\ n_name n = Parser.e_name e /\ n_type n = StrictValidDef.e_type e /\
                      n_parent n = parent.

Lemma install_typed e : LoadRecords.linked T e ->
  forall parent w r w', (forall m, parent <> PModel m) -> install parent e w = Val (r, w') -> Bounded w -> TypedU T w ->
  inst_post parent e w r w'.
Proof.
  induction 1 as [name ty attrs content comment Hfound _ IH]. intros parent w r w' Hpar H B HT.
  cbn [install] in H. fold (inst_go (w_next w)) in H.
  apply wbind_inv in H as [(i & w1 & H1 & H2) | (e' & H1 & _)]; [|discriminate H1].
  pose proof H1 as Ha. apply alloc_walloc in H1 as ([= ->] & ->).
  set (n0 := mkNode parent name ty [] (map (fun a => (fst a, to_hc (snd a))) attrs) [] comment) in *.
  set (i := w_next w) in *.
  pose proof (bounded_alloc w n0 B eq_refl) as B1. pose proof (typed_alloc T w n0 B HT eq_refl) as T1.
  assert (F1 : Fp w (walloc w n0)).
  { apply (fpp_alloc w n0) with (w := w) (r := OK (w_next w)); [intros m Hm; exact (Hpar m Hm)|apply Fp_refl|exact Ha]. }
  assert (E1 : ext2 w (walloc w n0)).
  { split; [cbn; lia|]. split; [|reflexivity]. intros j Hj. apply nodes_walloc_old. unfold i in *. lia. }
  assert (Hi1 : w_nodes (walloc w n0) i = Some n0) by apply nodes_walloc_new.
  assert (G : forall l, (forall c, In (inl c) l -> In (inl c) content) ->
    forall wa r0 wb, inst_go i l wa = Val (r0, wb) -> Bounded wa -> TypedU T wa ->
    Bounded wb /\ TypedU T wb /\ Fp wa wb /\ ext2 wa wb /\
    exists items kds, r0 = OK (items, kds) /\
      forall c, In (CElem c) items -> w_next wa <= c < w_next wb /\
                exists cn, w_nodes wb c = Some cn /\ okpair T ty (n_name cn) (n_type cn)).
  { induction l as [|[c|d] rest IHr]; intros Hsub wa r0 wb Hg Ba Ta; cbn [inst_go] in Hg; fold (inst_go i) in Hg.
    - apply wret_inv in Hg as (-> & ->). split; [exact Ba|]. split; [exact Ta|]. split; [apply Fp_refl|]. split; [apply ext2_refl|].
      exists [], []. split; [reflexivity|]. intros c [].
    - assert (Hc : In (inl c) content) by (apply Hsub; left; reflexivity).
      assert (Hpe : forall m, PElem i <> PModel m) by (intros m; discriminate).
      apply wbind_inv in Hg as [(t & w3 & H5 & H6) | (e' & H5 & ->)].
      2:{ destruct (IH c Hc (PElem i) wa _ _ Hpe H5 Ba Ta) as (_ & _ & _ & _ & t & [=] & _). }
      destruct (IH c Hc (PElem i) wa _ _ Hpe H5 Ba Ta) as (B3 & T3 & F3 & E3 & t' & [= <-] & Eid & L3 & nr & Hnr & Nnr & Tnr & _).
      apply wbind_inv in H6 as [([cs ts] & w4 & H7 & H8) | (e' & H7 & ->)].
      2:{ destruct (IHr (fun c0 Hc0 => Hsub c0 (or_intror Hc0)) w3 _ _ H7 B3 T3) as (_ & _ & _ & _ & ? & ? & [=] & _). }
      apply wret_inv in H8 as (-> & ->).
      destruct (IHr (fun c0 Hc0 => Hsub c0 (or_intror Hc0)) w3 _ _ H7 B3 T3) as (B4 & T4 & F4 & E4 & items & kds & [= -> ->] & K4).
      split; [exact B4|]. split; [exact T4|]. split; [exact (Fp_trans wa w3 _ (proj1 Ba) F3 F4)|].
      split; [exact (ext2_trans _ _ _ E3 E4)|].
      exists (CElem (it_id t) :: items), (Some t :: kds). split; [reflexivity|].
      intros c0 [[= <-]|Hc0].
      + rewrite Eid. split; [destruct E4; lia|]. exists nr. split; [rewrite (ext2_old _ _ _ E4) by lia; exact Hnr|].
        destruct (Hfound c Hc) as (v & idx & Hf). rewrite Nnr, Tnr. exists v, (StrictValidDef.e_type c), idx. split; [exact Hf|reflexivity].
      + destruct (K4 c0 Hc0) as (Hr & Hcn). split; [lia|exact Hcn].
    - apply wbind_inv in Hg as [([cs ts] & w4 & H7 & H8) | (e' & H7 & ->)].
      2:{ destruct (IHr (fun c0 Hc0 => Hsub c0 (or_intror Hc0)) wa _ _ H7 Ba Ta) as (_ & _ & _ & _ & ? & ? & [=] & _). }
      apply wret_inv in H8 as (-> & ->).
      destruct (IHr (fun c0 Hc0 => Hsub c0 (or_intror Hc0)) wa _ _ H7 Ba Ta) as (B4 & T4 & F4 & E4 & items & kds & [= -> ->] & K4).
      split; [exact B4|]. split; [exact T4|]. split; [exact F4|]. split; [exact E4|].
      exists (CData (to_hc d) :: items), (None :: kds). split; [reflexivity|].
      intros c0 [Hc0|Hc0]; [discriminate Hc0|exact (K4 c0 Hc0)]. }
  apply wbind_inv in H2 as [([items kds] & w2 & H3 & H4) | (e' & H3 & _)].
  2:{ destruct (G content (fun c Hc => Hc) _ _ _ H3 B1 T1) as (_ & _ & _ & _ & ? & ? & [=] & _). }
  destruct (G content (fun c Hc => Hc) _ _ _ H3 B1 T1) as (B2 & T2 & F2 & E2 & items' & kds' & [= <- <-] & K2). clear G.
  apply wbind_inv in H4 as [(u & w3 & H5 & H6) | (e' & H5 & _)].
  2:{ apply modify_node_wset in H5 as (? & _ & [=] & _). }
  apply wret_inv in H6 as (-> & ->).
  apply modify_node_wset in H5 as (n & Hn & _ & ->).
  assert (Hlt : i < w_next (walloc w n0)) by (cbn; unfold i; lia).
  assert (n = n0) as -> by (rewrite (ext2_old _ _ _ E2) in Hn by exact Hlt; congruence).
  split; [|split; [|split; [|split]]].
  - apply bounded_set_content; [exact B2|exact Hn|]. intros c Hc. destruct (K2 c Hc) as (Hr & _). lia.
  - apply typed_set_content; [exact T2|exact Hn|]. intros c cn Hc Hcn. destruct (K2 c Hc) as (_ & cn' & Hcn' & Hok).
    assert (cn' = cn) by congruence. subst cn'. exact Hok.
  - apply Fp_wset; [exact (Fp_trans w _ w2 (proj1 B) F1 F2)|]. right. split; [intros m Hm; exact (Hpar m Hm)|unfold i; lia].
  - split; [cbn [wset w_next]; destruct E2 as (X & _); cbn in X; unfold i in *; lia|]. split.
    + intros j Hj. rewrite nodes_wset_neq by (unfold i; lia). rewrite (ext2_old _ _ _ E2) by (cbn; lia). apply (ext2_old _ _ _ E1). exact Hj.
    + cbn [wset w_models]. destruct E2 as (_ & _ & ->). reflexivity.
  - exists (INode i kds). split; [reflexivity|]. split; [reflexivity|].
    split; [cbn [wset w_next]; destruct E2 as (X & _); cbn in X; unfold i in *; lia|].
    exists (set_content n0 items). split; [apply nodes_wset_eq|]. auto.
Qed.

End Install.
