(* Tree/FollowProofsRename.v — C06 proofs, layer 2: Element::set_item_name.
     rename_exec     what a successful call executes: nothing (same name), or: write the SHORT-NAME text, re-key the path
                     index by prefix, run the reference-rewrite loop over the snapshot of the referrer-map keys
     rename_nodes    the node records afterwards: referrers (members of the referrer lists of keys of old form) carry
                     the re-keyed text, the SHORT-NAME element carries the new name, nothing else changed
     C06_rename_*    the statements of the property *)
From Coq Require Import Lia.
From AV Require Import Base.Bytes Base.Outcome Hash.HashModel Tree.Heap Tree.Ops Tree.Script Tree.Index Tree.Refs
  Tree.IndexProofsW Tree.IndexProofsBase Tree.IndexProofsAssoc Tree.Follow Tree.FollowProofsPath Tree.FollowProofsLoop.
Open Scope string_scope.
Open Scope list_scope.
Open Scope N_scope.

(* ---------- strings ---------- *)
Lemma slashfree_split a b sa sb :
  ~ In 47 a -> ~ In 47 b -> boundary sa = true -> boundary sb = true -> a ++ sa = b ++ sb -> a = b.
Proof.
  revert b. induction a as [|x a IH]; intros b Ha Hb Hsa Hsb H.
  - destruct b as [|y b]; [reflexivity|]. exfalso. cbn in H.
    apply boundary_spec in Hsa as [->|(r & ->)]; [discriminate H|]. injection H as <- _. apply Hb. left. reflexivity.
  - destruct b as [|y b].
    + exfalso. cbn in H. apply boundary_spec in Hsb as [->|(r & ->)]; [discriminate H|]. injection H as -> _.
      apply Ha. left. reflexivity.
    + cbn in H. injection H as -> H. f_equal. eapply IH; eauto.
      * intros Hi. apply Ha. right. exact Hi.
      * intros Hi. apply Hb. right. exact Hi.
Qed.

Lemma strip_suffix_some suf s base : strip_suffix suf s = Some base -> s = base ++ suf.
Proof.
  unfold strip_suffix. destruct (strip_prefix (rev suf) (rev s)) as [r|] eqn:E; [|discriminate].
  intros [= <-]. apply strip_prefix_some in E. rewrite <- (rev_involutive s), E, rev_app_distr, rev_involutive. reflexivity.
Qed.

(* a re-keyed key is not of old form again, when both names are '/'-free and differ *)
Lemma rekey_not_again base cur nn k k' :
  ~ In 47 cur -> ~ In 47 nn -> cur <> nn ->
  rekey (base ++ cur) (base ++ nn) k = Some k' -> rekey (base ++ cur) (base ++ nn) k' = None.
Proof.
  intros Hc Hn Hd Hr. apply rekey_some in Hr as (suf & -> & Hb & ->).
  destruct (rekey (base ++ cur) (base ++ nn) ((base ++ nn) ++ suf)) as [k2|] eqn:E; [|reflexivity].
  exfalso. apply rekey_some in E as (suf2 & H & Hb2 & _).
  rewrite <- !app_assoc in H. apply app_inv_head in H.
  apply Hd. symmetry. exact (slashfree_split nn cur suf suf2 Hn Hc Hb Hb2 H).
Qed.

Section Rename.
Variable T : tables.
Variable tab_el tab_en : nametab.
Variable check_fn : N -> list N -> res bool.
Variable LATEST : N.

(* the observable steps of a renaming call *)
Inductive rename_run (h : id) (nn : list N) (w w' : world) : Prop :=
| mk_rename_run
    (rr_m : N) (rr_version : N) (rr_n : node) (rr_cur rr_old rr_base : list N)
    (rr_s : id) (rr_sn : node) (rr_w1 rr_w2 : world) (rr_x2 : model)
    (rr_each : list (list N) -> W unit) (rr_inner : list N -> list id -> W unit)
    (rr_model : model_of h w = Val (OK rr_m, w))
    (rr_node : w_nodes w h = Some rr_n)
    (rr_name : item_name T rr_n w = Val (OK (Some rr_cur), w))
    (rr_diff : rr_cur <> nn)
    (rr_nonempty : nn <> [])
    (rr_path : path_of T rr_n w = Val (OK rr_old, w))
    (rr_strip : strip_suffix rr_cur rr_old = Some rr_base)
    (rr_free : get_element_by_path rr_m (rr_base ++ nn) w = Val (OK None, w))
    (rr_head : exists rest, n_content rr_n = CElem rr_s :: rest)
    (rr_snode : w_nodes w rr_s = Some rr_sn)
    (rr_short : n_name rr_sn = name_short_name T)
    (rr_write : raw_set_character_data T check_fn rr_s (DString nn) rr_version w = Val (OK tt, rr_w1))
    (rr_rekey : fix_identifiables rr_m rr_old (rr_base ++ nn) rr_w1 = Val (OK tt, rr_w2))
    (rr_x : model_at rr_w2 rr_m = Some rr_x2)
    (rr_loop : rr_each (map fst (m_origins rr_x2)) rr_w2 = Val (OK tt, w'))
    (rr_inner_nil : forall p', rr_inner p' [] = wret tt)
    (rr_inner_cons : forall p' re rr,
      rr_inner p' (re :: rr) =
      (do rn <- get_node re;
       match n_content rn with
       | [] => set_node re (set_content rn [CData (DString p')])
       | _ :: tl => set_node re (set_content rn (CData (DString p') :: tl))
       end;; rr_inner p' rr)%W)
    (rr_each_nil : rr_each [] = wret tt)
    (rr_each_cons : forall refpath r,
      rr_each (refpath :: r) =
      (match strip_prefix rr_old refpath with
       | Some partial =>
         if is_empty partial || starts_with_slash partial then
           do y <- get_model rr_m;
           match assoc_get refpath (m_origins y) with
           | Some reflist =>
             set_model rr_m (set_origins y (assoc_remove refpath (m_origins y)));;
             rr_inner ((rr_base ++ nn) ++ partial) reflist;;
             modify_model rr_m (fun z => set_origins z (match assoc_get ((rr_base ++ nn) ++ partial) (m_origins z) with
                                                      | Some l0 => assoc_insert ((rr_base ++ nn) ++ partial) (l0 ++ reflist) (m_origins z)
                                                      | None => m_origins z ++ [((rr_base ++ nn) ++ partial, reflist)] end))
           | None => wret tt
           end
         else wret tt
       | None => wret tt
       end;; rr_each r)%W)
  : rename_run h nn w w'.

Ltac wk H := lazymatch type of H with
  | wbind ?m ?k ?w = Val (OK ?r, ?w') =>
    let a := fresh "a" in let w1 := fresh "w" in let E := fresh "E" in let e := fresh "e" in let Q := fresh "Q" in
    apply wbind_inv in H as [(a & w1 & E & H) | (e & E & Q)]; [ try ro_subst E | discriminate Q ]
  end.

Lemma rename_exec h nn w w' :
  e_set_item_name T check_fn LATEST h nn w = Val (OK tt, w') -> w' = w \/ rename_run h nn w w'.
Proof.
  intros H. unfold e_set_item_name in H.
  destruct nn as [|c0 nn0] eqn:Enn; [discriminate H|]. rewrite <- Enn in *. cbn [is_empty] in H.
  replace (is_empty nn) with false in H by (rewrite Enn; reflexivity).
  wk H. rename E into Em. wk H. wk H. apply get_node_inv in E0 as (n & Hn & Q & _). injection Q as <-.
  wk H. rename E0 into Ename.
  destruct a2 as [cur|]; [|discriminate H].
  destruct (bytes_eqb cur nn) eqn:Ecn; [apply wret_inv in H as (_ & ->); left; reflexivity|].
  wk H. rename E0 into Epath.
  destruct (strip_suffix cur a2) as [base|] eqn:Estrip; [|discriminate H].
  wk H. rename E0 into Efree.
  destruct a3 as [ex|]; [discriminate H|].
  destruct (n_content a1) as [|[s|d] rest] eqn:Ec; try (apply wret_inv in H as (_ & ->); left; reflexivity).
  wk H. apply get_node_inv in E0 as (sn & Hsn & Q & _). injection Q as <-.
  destruct (n_name a3 =? SHORT T) eqn:Es; [|apply wret_inv in H as (_ & ->); left; reflexivity].
  wk H. rename E0 into Ewrite. destruct a4.
  wk H. rename E0 into Erekey. destruct a4.
  wk H. apply get_model_inv in E0 as (x2 & Hx2 & Q & _). injection Q as <-.
  right.
  set (inner := fun (p' : list N) => fix upd_refs (rl : list id) : W unit :=
         match rl with
         | [] => wret tt
         | re :: rr =>
           (do rn <- get_node re;
            match n_content rn with
            | [] => set_node re (set_content rn [CData (DString p')])
            | _ :: tl => set_node re (set_content rn (CData (DString p') :: tl))
            end;; upd_refs rr)%W
         end).
  match type of H with ?each _ _ = _ =>
    eapply (mk_rename_run h nn w w' a a0 a1 cur a2 base s a3 _ _ a4 each inner) end;
    try eassumption; try reflexivity.
  - intros ->. rewrite bytes_eqb_refl in Ecn. discriminate.
  - rewrite Enn. discriminate.
  - eauto.
  - apply N.eqb_eq in Es. exact Es.
Qed.

(* ---------- the pieces of a run ---------- *)
Lemma raw_set_cd_ok i v ver w w1 :
  raw_set_character_data T check_fn i v ver w = Val (OK tt, w1) ->
  exists n cs, w_nodes w i = Some n /\ chardata_spec T (n_type n) = Val (Some cs) /\
    check_value check_fn v cs ver = Val true /\
    w1 = mkWorld (upd (w_nodes w) i (set_content n (match n_content n with [] => [CData v] | _ :: r => CData v :: r end)))
                 (w_next w) (w_files w) (w_models w).
Proof.
  intros H. unfold raw_set_character_data in H.
  wk H. apply get_node_inv in E as (n & Hn & Q & _). injection Q as <-.
  wk H. apply wl_inv in E as (mode & Hm & Q & _). injection Q as <-.
  match type of H with (if ?b then _ else _) _ = _ => destruct b end; [|discriminate H].
  wk H. apply wl_inv in E as (sp & Hs & Q & _). injection Q as <-.
  destruct a1 as [cs|]; [|discriminate H].
  wk H. apply wl_inv in E as (ok & Hok & Q & _). injection Q as <-.
  destruct a1; [|discriminate H]. apply set_node_inv in H as (_ & ->).
  exists a, cs. auto.
Qed.

(* the text of a reference depends on its node record only *)
Lemma ref_text_node w w' r : w_nodes w' r = w_nodes w r -> ref_text T w' r = ref_text T w r.
Proof. intros H. unfold ref_text. rewrite H. reflexivity. Qed.

Lemma ref_text_rewritten w w' r n p p' :
  w_nodes w r = Some n -> ref_text T w r = Some p -> w_nodes w' r = Some (rewrite_head p' n) ->
  ref_text T w' r = Some p'.
Proof.
  intros Hn Ht Hn'. unfold ref_text in *. rewrite Hn in Ht. rewrite Hn'. clear Hn Hn'.
  destruct n as [pa nm ty ct ats fi co]. unfold rewrite_head, set_content, cdata_of, character_data in *.
  cbn [n_content n_type n_parent n_name n_attrs n_files n_comment] in *.
  destruct (isref T ty); [|discriminate].
  destruct ct as [|[c|d] [|y tl0]]; try discriminate. cbn [tl].
  destruct (content_mode T ty) as [mode| |]; cbn in *; try discriminate.
  destruct ((mode =? MCharacters) || (mode =? MMixed)); [|discriminate]. reflexivity.
Qed.

(* what C06 assumes about the world: C03's tree facts, C04's index invariant, C05's referrer-map invariant *)
Definition Inv06 (w : world) : Prop := TreeFacts w /\ Inv04 T check_fn w /\ Inv05 T w.

Lemma specpath_nonempty w m i p n nm :
  SpecPath T w m i p -> w_nodes w i = Some n -> item_name_n T w n = Some nm -> p <> [].
Proof.
  intros (xm & _ & (q & Hd & ->)) Hn Hnm.
  assert (Hs : seg T w i = 47 :: nm) by (unfold seg, seg_n; rewrite Hn, Hnm; reflexivity).
  destruct Hd as [|pp c q Hp Hc].
  - rewrite app_nil_r, Hs. discriminate.
  - rewrite Hs. intros E. apply app_eq_nil in E as (_ & E). apply app_eq_nil in E as (_ & E). discriminate.
Qed.

(* MAIN LEMMA: the state after a renaming run *)
Lemma rename_main h nn w w' :
  Inv06 w -> rename_run h nn w w' ->
  exists m old new xm x',
    model_of h w = Val (OK m, w) /\
    SpecPath T w m h old /\ old <> [] /\ model_at w m = Some xm /\ assoc_get old (m_idents xm) = Some h /\
    model_at w' m = Some x' /\
    (forall k2 e, assoc_get k2 (m_idents x') = Some e <->
       (exists k, rekey old new k = Some k2 /\ assoc_get k (m_idents xm) = Some e)
       \/ (rekey old new k2 = None /\ assoc_get k2 (m_idents xm) = Some e)) /\
    (forall r p p', ref_text T w r = Some p -> MReach T w m r -> rekey old new p = Some p' ->
       ref_text T w' r = Some p') /\
    (forall r p, ref_text T w r = Some p -> (~ MReach T w m r \/ rekey old new p = None) ->
       ref_text T w' r = Some p).
Proof.
  intros (HT & H4 & H5) R.
  destruct R as [m version n cur old base s sn w1 w2 x2 each inner
                 Hmodel Hnode Hname Hdiff Hne Hpath Hstrip Hfree (rest & Hhead) Hsnode Hshort Hwrite Hrekey Hx Hloop
                 Hin Hic Hen Hec].
  set (new := base ++ nn) in *.
  (* h lies in model m, its path is old *)
  assert (HRh : MReach T w m h).
  { apply (model_of_val T) in Hmodel as (_ & [(m0 & s0 & [= <-] & Hu)|([=] & _)]).
    eapply specpath_mreach. eapply upath_specpath; eauto. }
  destruct (path_of_spec T w m h n HT Hnode HRh) as (_ & Hps).
  destruct (Hps _ _ Hpath) as (_ & Hid). destruct (identifiable T w h) eqn:Eid; [|discriminate Hid].
  destruct Hid as (old0 & [= <-] & Hsp).
  apply (item_name_val T) in Hname as (_ & [= Hcur]). symmetry in Hcur.
  assert (Hold : old = base ++ cur) by (apply strip_suffix_some; exact Hstrip).
  assert (Hone : old <> []) by exact (specpath_nonempty w m h old n cur Hsp Hnode Hcur).
  pose proof (slashfree_names T w (i4_slash _ _ _ H4)) as HNS.
  assert (Hcsf : ~ In 47 cur) by exact (HNS h n cur Hnode Hcur).
  (* the model and the free new path *)
  unfold get_element_by_path in Hfree. wk Hfree. apply get_model_inv in E as (xm & Hxm & Q & _). injection Q as <-.
  apply wret_inv in Hfree as ([= Hnone] & _).
  assert (Hkh : assoc_get old (m_idents a) = Some h).
  { apply (i4_exact _ _ _ H4 m a Hxm). split; [exact HRh|]. split; [exact Eid|exact Hsp]. }
  (* the SHORT-NAME write *)
  destruct (raw_set_cd_ok _ _ _ _ _ Hwrite) as (sn0 & cs & Hsn0 & Hcs & Hcv & ->).
  assert (sn0 = sn) by congruence. subst sn0.
  destruct (i4_short _ _ _ H4 s sn Hsnode Hshort) as (Hsmode & Hsref & Hsval).
  destruct (Hsval cs (DString nn) version Hcs Hcv) as (nn0 & [= <-] & Hnsf).
  (* the re-keying of the index *)
  unfold fix_identifiables in Hrekey. apply modify_model_inv in Hrekey as (xm1 & Hxm1 & _ & ->).
  cbn [w_models] in Hxm1. assert (xm1 = a) by (unfold model_at in *; congruence). subst xm1.
  unfold model_at in Hx. cbn [w_models] in Hx. rewrite (list_set_nth_eq _ _ _ _ Hxm) in Hx. injection Hx as <-.
  destruct (rekey_all old new (m_idents a) (i4_nodup _ _ _ H4 m a Hxm)) as (_ & Hget).
  { eapply rekey_fresh; eauto.
    - exact (i4_exact _ _ _ H4 m).
    - unfold new. intros E. apply app_eq_nil in E as (_ & E). contradiction. }
  (* the rewrite loop *)
  cbn [set_idents m_origins] in Hloop.
  destruct (i5_tidy _ _ H5 m a Hxm) as (HOnd & _).
  match type of Hloop with each _ ?w2 = _ =>
    destruct (outer_sem m old new each inner Hin Hic Hen Hec (map fst (m_origins a)) w2 w'
                (set_idents a (fold_left (rekey_step old new) (map fst (m_idents a)) (m_idents a)))) as (HF & HN) end.
  { exact HOnd. }
  { intros k k' Hr. rewrite Hold in *. eapply rekey_not_again; eauto. }
  { unfold model_at. cbn [w_models]. eapply list_set_nth_eq. exact Hxm. }
  { cbn [set_idents m_origins]. intros k1 k2 k1' k2' l1 l2 r I1 I2 Hne12 R1 R2 L1 L2 M1 M2.
    destruct (i5_exact _ _ H5 m a Hxm k1) as (_ & X1). destruct (i5_exact _ _ H5 m a Hxm k2) as (_ & X2).
    assert (Y1 : RefSet T w m k1 r) by (apply X1; unfold origins_of; rewrite L1; exact M1).
    assert (Y2 : RefSet T w m k2 r) by (apply X2; unfold origins_of; rewrite L2; exact M2).
    destruct Y1 as (_ & Y1). destruct Y2 as (_ & Y2). congruence. }
  { exact Hloop. }
  cbn [set_idents m_origins] in HN.
  destruct HF as (_ & _ & _ & HFm & _).
  match type of HFm with forall x, model_at ?w2 m = Some x -> _ =>
    destruct (HFm (set_idents a (fold_left (rekey_step old new) (map fst (m_idents a)) (m_idents a))))
      as (x' & Hx' & _ & _ & Hid') end.
  { unfold model_at. cbn [w_models]. eapply list_set_nth_eq. exact Hxm. }
  cbn [set_idents m_idents] in Hid'.
  (* nodes: s is not a reference, so no reference node changed before the loop *)
  assert (Hsnr : forall r p, ref_text T w r = Some p -> r <> s).
  { intros r p Hr ->. unfold ref_text in Hr. rewrite Hsnode in Hr. unfold isref in Hr. rewrite Hsref in Hr. discriminate. }
  exists m, old, new, a, x'. split; [exact Hmodel|]. split; [exact Hsp|]. split; [exact Hone|]. split; [exact Hxm|]. split; [exact Hkh|].
  split; [exact Hx'|]. split; [intros k2 e; rewrite Hid'; apply Hget|]. split.
  - intros r p p' Hr HRr Hrk.
    destruct (i5_exact _ _ H5 m a Hxm p) as (_ & X).
    assert (Hin_r : In r (origins_of a p)) by (apply X; split; assumption).
    unfold origins_of in Hin_r. destruct (assoc_get p (m_origins a)) as [l|] eqn:El; [|destruct Hin_r].
    assert (Hns := Hsnr r p Hr).
    destruct (HN r) as [(k & k' & l0 & G1 & G2 & G3 & G4 & G5)|(G1 & _)].
    + destruct (i5_exact _ _ H5 m a Hxm k) as (_ & Xk).
      assert (Yk : RefSet T w m k r) by (apply Xk; unfold origins_of; rewrite G3; exact G4).
      destruct Yk as (_ & Yk). assert (k = p) by congruence. subst k. assert (k' = p') by congruence. subst k'.
      cbn [w_nodes] in G5. rewrite upd_neq in G5 by exact Hns.
      unfold ref_text in Hr. destruct (w_nodes w r) as [nr|] eqn:Enr; [|discriminate].
      eapply (ref_text_rewritten w w' r nr p p'); eauto.
    + exfalso. eapply (G1 p p' l); eauto. eapply assoc_get_some_key. exact El.
  - intros r p Hr Hcase. assert (Hns := Hsnr r p Hr).
    destruct (HN r) as [(k & k' & l0 & G1 & G2 & G3 & G4 & G5)|(_ & G2)].
    + exfalso. destruct (i5_exact _ _ H5 m a Hxm k) as (_ & Xk).
      assert (Yk : RefSet T w m k r) by (apply Xk; unfold origins_of; rewrite G3; exact G4).
      destruct Yk as (Yr & Yk). assert (k = p) by congruence. subst k.
      destruct Hcase as [Hc|Hc]; [contradiction|congruence].
    + rewrite <- Hr. apply ref_text_node. rewrite G2. cbn [w_nodes]. apply upd_neq. exact Hns.
Qed.

Lemma old_form_rekey old new p : old_form old p <-> exists p', rekey old new p = Some p'.
Proof.
  split.
  - intros (suf & -> & Hb). exists (new ++ suf). apply rekey_some. exists suf. auto.
  - intros (p' & H). apply rekey_some in H as (suf & -> & Hb & _). exists suf. auto.
Qed.

(* ---------- the statements of the property ---------- *)
Theorem C06_rename h nn w w' m :
  Inv06 w ->
  e_set_item_name T check_fn LATEST h nn w = Val (OK tt, w') ->
  model_of h w = Val (OK m, w) ->
  (* (1) every reference of the model that designated the renamed element or an element below it still designates
         the same element *)
  (forall r x, live_ref T w m r -> designates T w m r x -> below T w h x -> designates T w' m r x) /\
  (* (2) a reference that resolves to an element outside the renamed subtree keeps its text *)
  (forall r p, ref_text T w r = Some p -> resolves T w m r ->
               ~ (exists x, designates T w m r x /\ below T w h x) -> ref_text T w' r = Some p) /\
  (* (3) whatever it resolves to: a reference keeps its text unless it is a reference of this model whose text is
         the old path or lies below it *)
  (forall r p old, SpecPath T w m h old -> ref_text T w r = Some p ->
                   ~ (live_ref T w m r /\ old_form old p) -> ref_text T w' r = Some p).
Proof.
  intros HI H Hm. destruct (rename_exec _ _ _ _ H) as [->|R].
  { split; [|split]; auto. }
  destruct (rename_main h nn w w' HI R) as (m0 & old & new & xm & x' & Hm0 & Hsp & Hone & Hxm & Hkh & Hx' & Hid & Ht1 & Ht2).
  assert (m0 = m) by congruence. subst m0.
  destruct HI as (HT & H4 & H5).
  pose proof (slashfree_names T w (i4_slash _ _ _ H4)) as HNS.
  split; [|split].
  - intros r x Hlive (xm0 & p & Hxm0 & Hr & Hp) Hb. assert (xm0 = xm) by congruence. subst xm0.
    pose proof (proj1 (i4_exact _ _ _ H4 m xm Hxm p x) Hp) as (_ & _ & Hspx).
    destruct (below_old_form T w m h x old p HT Hsp Hb Hspx) as (suf & -> & Hbd).
    assert (Hrk : rekey old new (old ++ suf) = Some (new ++ suf)) by (apply rekey_some; exists suf; auto).
    exists x', (new ++ suf). split; [exact Hx'|]. split; [eapply Ht1; eauto|].
    apply Hid. left. exists (old ++ suf). auto.
  - intros r p Hr (x & (xm0 & p0 & Hxm0 & Hr0 & Hp)) Hnot.
    assert (xm0 = xm) by congruence. subst xm0. assert (p0 = p) by congruence. subst p0.
    apply (Ht2 r p Hr). right.
    destruct (rekey old new p) as [p'|] eqn:Erk; [|reflexivity]. exfalso. apply Hnot. exists x. split.
    + exists xm, p. auto.
    + eapply (old_form_below T w m xm h old p x); eauto.
      * exact (i4_exact _ _ _ H4 m).
      * apply (old_form_rekey old new). eauto.
  - intros r p old0 Hsp0 Hr Hnot.
    destruct (specpath_fun T w m m h _ _ HT Hsp Hsp0) as (_ & <-).
    apply (Ht2 r p Hr).
    destruct (rekey old new p) as [p'|] eqn:Erk; [|right; reflexivity].
    left. intros Hl. apply Hnot. split; [exact Hl|]. apply (old_form_rekey old new). eauto.
Qed.

(* what happens to EVERY reference of the model whose text is of old form, resolving or not: it is rewritten *)
Theorem C06_rename_rewrites_prefix h nn w w' m old :
  Inv06 w ->
  e_set_item_name T check_fn LATEST h nn w = Val (OK tt, w') ->
  model_of h w = Val (OK m, w) -> SpecPath T w m h old ->
  w' = w \/
  exists new, forall r suf, live_ref T w m r -> ref_text T w r = Some (old ++ suf) ->
    (is_empty suf || starts_with_slash suf) = true -> ref_text T w' r = Some (new ++ suf).
Proof.
  intros HI H Hm Hsp0. destruct (rename_exec _ _ _ _ H) as [->|R]; [left; reflexivity|right].
  destruct (rename_main h nn w w' HI R) as (m0 & old1 & new & xm & x' & Hm0 & Hsp & Hone & Hxm & Hkh & Hx' & Hid & Ht1 & Ht2).
  assert (m0 = m) by congruence. subst m0. destruct HI as (HT & _).
  destruct (specpath_fun T w m m h _ _ HT Hsp Hsp0) as (_ & ->).
  exists new. intros r suf Hl Hr Hb. eapply Ht1; eauto. apply rekey_some. exists suf. auto.
Qed.

End Rename.
