(* Tree/FollowProofsLoadRep.v — C06 after a first load, layer 2: the heap right after `install` holds the parsed tree.
     Rep lo w t e     the node of every element of e (at the id the itree t gives it) carries the element's name and type,
                      and its content list is the element's content with the ids of t for the sub-elements (citems);
                      all ids are in [lo, w_next w)            (agent-c09's ItOK, plus type and content)
     install_rep      install establishes Rep
     Rep_sub          ... at every position *)
From Coq Require Import Lia.
From AV Require Import Base.Bytes Base.Outcome Hash.HashModel Tree.Heap Tree.Ops Tree.Script Tree.Load Tree.MergeSpec
  Tree.LoadProofsBase Tree.LoadProofs Tree.LoadRefineTop Tree.LoadRefineIndex.
From AV Require Xml.Lexer Xml.Parser.
Open Scope string_scope.
Open Scope list_scope.
Open Scope N_scope.

Fixpoint citems (ks : list (option itree)) (l : list (Parser.etree + Parser.cdata)) {struct l} : list citem :=
  match l, ks with
  | inl _ :: r, Some tc :: kr => CElem (it_id tc) :: citems kr r
  | inr d :: r, _ :: kr => CData (to_hc d) :: citems kr r
  | _, _ => []
  end.

Definition node_rep (n : node) (name : N) (ty : N * N) (ks : list (option itree)) (l : list (Parser.etree + Parser.cdata)) : Prop :=
  n_name n = name /\ n_type n = ty /\ n_content n = citems ks l.

Fixpoint Rep (lo : N) (w : world) (t : itree) (e : Parser.etree) {struct e} : Prop :=
  match e with
  | Parser.ENode name ty attrs content comment =>
    match t with
    | INode i kids =>
      (exists n, w_nodes w i = Some n /\ node_rep n name ty kids content) /\ lo <= i < w_next w /\
      (fix all (ks : list (option itree)) (l : list (Parser.etree + Parser.cdata)) {struct l} : Prop :=
         match l, ks with
         | [], [] => True
         | inl c :: r, Some tc :: kr => Rep lo w tc c /\ all kr r
         | inr _ :: r, None :: kr => all kr r
         | _, _ => False
         end) kids content
    end
  end.
Fixpoint Reps (lo : N) (w : world) (ks : list (option itree)) (l : list (Parser.etree + Parser.cdata)) {struct l} : Prop :=
  match l, ks with
  | [], [] => True
  | inl c :: r, Some tc :: kr => Rep lo w tc c /\ Reps lo w kr r
  | inr _ :: r, None :: kr => Reps lo w kr r
  | _, _ => False
  end.

Lemma Rep_unfold lo w i kids name ty attrs content comment :
  Rep lo w (INode i kids) (Parser.ENode name ty attrs content comment) <->
  ((exists n, w_nodes w i = Some n /\ node_rep n name ty kids content) /\ lo <= i < w_next w /\ Reps lo w kids content).
Proof.
  cbn [Rep].
  assert (E : forall l ks,
             (fix all (ks : list (option itree)) (l : list (Parser.etree + Parser.cdata)) {struct l} : Prop :=
                match l, ks with
                | [], [] => True
                | inl c :: r, Some tc :: kr => Rep lo w tc c /\ all kr r
                | inr _ :: r, None :: kr => all kr r
                | _, _ => False
                end) ks l <-> Reps lo w ks l).
  { induction l as [|[c|d] r IH]; intros [|[tc|] kr]; cbn [Reps]; try tauto; rewrite IH; tauto. }
  rewrite E. tauto.
Qed.

(* frame: Rep only looks at the nodes in [lo, w_next) *)
Lemma Rep_mono lo lo' w w' : forall e t,
  (forall i, lo <= i < w_next w -> w_nodes w' i = w_nodes w i) -> w_next w <= w_next w' -> lo' <= lo ->
  Rep lo w t e -> Rep lo' w' t e.
Proof.
  fix IH 1. intros [name ty attrs content comment] [i kids] Hf Hn Hl HI.
  apply Rep_unfold in HI as ((n & Hn0 & En) & Hb & HK). apply Rep_unfold.
  split; [exists n; rewrite Hf by exact Hb; auto|]. split; [lia|].
  clear En Hn0. revert kids HK. induction content as [|[c|d] r IHr]; intros [|[tc|] kr] HK; cbn [Reps] in *; auto.
  destruct HK as [H1 H2]. split; [apply IH; auto|apply IHr; exact H2].
Qed.

(* the same when the nodes only keep name, type and content *)
Lemma Rep_view lo w w' : forall e t,
  (forall i n, lo <= i < w_next w -> w_nodes w i = Some n ->
     exists n', w_nodes w' i = Some n' /\ n_name n' = n_name n /\ n_type n' = n_type n /\ n_content n' = n_content n) ->
  w_next w <= w_next w' -> Rep lo w t e -> Rep lo w' t e.
Proof.
  fix IH 1. intros [name ty attrs content comment] [i kids] Hf Hn HI.
  apply Rep_unfold in HI as ((n & Hn0 & (E1 & E2 & E3)) & Hb & HK). apply Rep_unfold.
  destruct (Hf i n Hb Hn0) as (n' & Hn' & F1 & F2 & F3).
  split; [exists n'; split; [exact Hn'|]; repeat split; congruence|]. split; [lia|].
  clear E3 F3 Hn0 Hn'. revert kids HK. induction content as [|[c|d] r IHr]; intros [|[tc|] kr] HK; cbn [Reps] in *; auto.
  destruct HK as [H1 H2]. split; [apply IH; auto|apply IHr; exact H2].
Qed.

Lemma install_rep : forall e parent w t w',
  install parent e w = Val (OK t, w') -> Rep (w_next w) w' t e.
Proof.
  fix IH 1. intros [name ty attrs content comment] parent w t w' H.
  cbn [install] in H.
  apply wbind_inv in H as [(i & w1 & H1 & H2) | (e' & H1 & [=])].
  apply alloc_inv in H1 as ([= ->] & Ew1).
  apply wbind_inv in H2 as [([items kids] & w2 & H3 & H4) | (e' & H3 & [=])].
  assert (G : Reps (w_next w1) w2 kids content /\ above (w_next w1) w1 w2 /\ items = citems kids content).
  { clear H4 Ew1. revert items kids w1 w2 H3.
    induction content as [|[c|d] rest IHr]; intros items kids w1 w2 H3.
    - apply wret_inv in H3 as ([= -> ->] & ->). split; [exact I|]. split; [apply above_refl|reflexivity].
    - apply wbind_inv in H3 as [(tc & w3 & H5 & H6) | (e' & H5 & [=])].
      pose proof (IH _ _ _ _ _ H5) as HIc.
      pose proof (above_install (w_next w1) _ _ _ _ _ (N.le_refl _) H5) as A3.
      apply wbind_inv in H6 as [([cs ts] & w4 & H7 & H8) | (e' & H7 & [=])].
      apply wret_inv in H8 as ([= -> ->] & ->).
      destruct (IHr _ _ _ _ H7) as (HIr & A4 & Ecs).
      assert (L13 : w_next w1 <= w_next w3) by (destruct A3 as (A31 & _); exact A31).
      cbn [Reps citems]. split; [|split].
      + split.
        * destruct A4 as (A41 & A42 & _). apply (Rep_mono (w_next w1) (w_next w1) w3 w4); auto; [|lia].
          intros i Hi. apply A42. lia.
        * revert HIr. clear -L13. revert ts. induction rest as [|[c0|d0] r IHr0]; intros [|[tc0|] kr]; cbn [Reps]; auto.
          intros [H1 H2]. split; [|apply IHr0; exact H2].
          apply (Rep_mono (w_next w3) (w_next w1) w4 w4); auto; lia.
      + eapply above_trans; [exact A3|]. eapply above_weaken; [|exact A4]. exact L13.
      + rewrite Ecs. reflexivity.
    - apply wbind_inv in H3 as [([cs ts] & w4 & H7 & H8) | (e' & H7 & [=])].
      apply wret_inv in H8 as ([= -> ->] & ->). cbn [Reps citems].
      destruct (IHr _ _ _ _ H7) as (HIr & A4 & Ecs). split; [exact HIr|]. split; [exact A4|]. rewrite Ecs. reflexivity. }
  destruct G as (HK & (A21 & A22 & _) & Eitems).
  apply wbind_inv in H4 as [(u & w3 & H5 & H6) | (e' & H5 & [=])].
  apply wret_inv in H6 as ([= ->] & ->).
  apply modify_node_inv in H5 as (n & Hn & _ & ->).
  assert (Hnext1 : w_next w1 = w_next w + 1) by (rewrite Ew1; reflexivity).
  apply Rep_unfold. cbn [w_nodes w_next]. split; [|split; [lia|]].
  - exists (set_content n items). rewrite upd_eq. split; [reflexivity|].
    rewrite A22 in Hn by lia. rewrite Ew1 in Hn. cbn [w_nodes] in Hn. rewrite upd_eq in Hn. injection Hn as <-.
    repeat split. exact Eitems.
  - clear -HK A21 Hnext1. revert kids HK. generalize (set_content n items). intros n'.
    induction content as [|[c|d] r IHr]; intros [|[tc|] kr] HK; cbn [Reps] in *; auto.
    destruct HK as [H1 H2]. split; [|apply IHr; exact H2].
    apply (Rep_mono (w_next w1) (w_next w) w2 _); auto; cbn [w_next w_nodes]; [|lia|lia].
    intros i Hi. apply upd_neq. lia.
Qed.

(* ---------- positions *)
Fixpoint it_sub (t : itree) (pos : list nat) {struct pos} : option itree :=
  match pos with
  | [] => Some t
  | k :: r => match t with INode _ kids => match nth_error kids k with Some (Some c) => it_sub c r | _ => None end end
  end.
Lemma it_at_sub t pos : it_at t pos = option_map it_id (it_sub t pos).
Proof.
  revert t. induction pos as [|k r IH]; intros [i kids]; cbn [it_at it_sub option_map]; [reflexivity|].
  destruct (nth_error kids k) as [[c|]|]; auto.
Qed.

Lemma Reps_nth lo w : forall content kids k c,
  Reps lo w kids content -> nth_error content k = Some (inl c) ->
  exists tc, nth_error kids k = Some (Some tc) /\ Rep lo w tc c /\ In (CElem (it_id tc)) (citems kids content).
Proof.
  induction content as [|[c0|d] r IHr]; intros [|[tc|] kr] [|k] c HK Hs; cbn [Reps nth_error citems] in *;
    try discriminate; try contradiction.
  - injection Hs as <-. destruct HK as [H1 _]. exists tc. split; [reflexivity|]. split; [exact H1|left; reflexivity].
  - destruct HK as [_ H2]. destruct (IHr kr k c H2 Hs) as (tc' & A & B & C). exists tc'. split; [exact A|]. split; [exact B|right; exact C].
  - destruct (IHr kr k c HK Hs) as (tc' & A & B & C). exists tc'. split; [exact A|]. split; [exact B|right; exact C].
Qed.

Lemma Rep_sub lo w : forall pos t e c,
  Rep lo w t e -> esub e pos = Some c -> exists tc, it_sub t pos = Some tc /\ Rep lo w tc c.
Proof.
  induction pos as [|k pos IH]; intros [i kids] [name ty attrs content comment] c HI Hs.
  - cbn [esub] in Hs. injection Hs as <-. exists (INode i kids). split; [reflexivity|exact HI].
  - cbn [esub Parser.e_content] in Hs. apply Rep_unfold in HI as (_ & _ & HK). cbn [it_sub].
    destruct (nth_error content k) as [[c0|d]|] eqn:En; try discriminate Hs.
    destruct (Reps_nth lo w content kids k c0 HK En) as (tc & A & B & _). rewrite A. eapply IH; eauto.
Qed.

(* a child listed in the content of a node of the tree is the root of the sub-tree at the next position *)
Lemma Reps_child lo w : forall content kids x,
  Reps lo w kids content -> In (CElem x) (citems kids content) ->
  exists k c tc, nth_error content k = Some (inl c) /\ nth_error kids k = Some (Some tc) /\ it_id tc = x /\ Rep lo w tc c.
Proof.
  induction content as [|[c0|d] r IHr]; intros [|[tc|] kr] x HK Hin; cbn [Reps citems] in *; try contradiction.
  - destruct HK as [H1 H2]. destruct Hin as [[= <-]|Hin].
    + exists O, c0, tc. auto.
    + destruct (IHr kr x H2 Hin) as (k & c & tc' & A & B & C & D). exists (S k), c, tc'. auto.
  - destruct Hin as [[=]|Hin]. destruct (IHr kr x HK Hin) as (k & c & tc' & A & B & C & D). exists (S k), c, tc'. auto.
Qed.
