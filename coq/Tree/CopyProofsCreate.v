(* Tree/CopyProofsCreate.v — C13 proofs, layer 2: create_copied_sub_element[_at/_inner], make_unique_item_name and
   the registration walk (Tree/Ops.v).  Frame (what a copy operation may touch) and structure (what the copy looks
   like in the final world).  For every table set. *)
From AV Require Import Base.Bytes Base.Outcome Hash.HashModel Tree.Heap Tree.Ops Tree.Script
  Tree.CopyProofsW Tree.CopyProofsDefs Tree.CopyProofsDeep.
From Coq Require Import Lia PeanoNat.
Open Scope string_scope.
Open Scope list_scope.
Open Scope N_scope.

(* ------------------------------------------------------------------ stability under a preorder on worlds *)
Section Stab.
Variable R : world -> world -> Prop.
Hypothesis Rrefl : forall w, R w w.
Hypothesis Rtrans : forall a b c, R a b -> R b c -> R a c.

Definition stab {A} (m : W A) : Prop := forall w r w', m w = Val (r, w') -> R w w'.

Lemma stab_ro {A} (m : W A) : ro m -> stab m.
Proof. intros Hm w r w' H. apply Hm in H. subst. apply Rrefl. Qed.
Lemma stab_bind {A B} (m : W A) (k : A -> W B) : stab m -> (forall a, stab (k a)) -> stab (wbind m k).
Proof.
  intros Hm Hk w r w' H. apply wbind_inv in H as [(a & w1 & H1 & H2) | (e & H1 & _)].
  - eapply Rtrans; [eapply Hm | eapply Hk]; eauto.
  - eapply Hm; eauto.
Qed.
Lemma stab_try {A} (m : W A) : stab m -> stab (wtry m).
Proof. intros Hm w r w' H. apply wtry_inv in H as (r0 & H & _). eapply Hm; eauto. Qed.
End Stab.

Ltac stab_step Rrefl Rtrans :=
  first
  [ solve [apply (stab_ro _ Rrefl); ro_tac]
  | apply (stab_bind _ Rtrans); [ | intros ? ]
  | apply (stab_try _)
  | match goal with
    | |- stab _ (match ?x with _ => _ end) => destruct x
    | |- stab _ (if ?b then _ else _) => destruct b
    | |- stab _ (let '(_, _) := ?x in _) => destruct x
    end ].

(* ------------------------------------------------------------------ the model list: only the two index maps of model m *)
Lemma nth_opt_list_set_eq {A} (l : list A) k x y : nth_opt l k = Some y -> nth_opt (list_set l k x) k = Some x.
Proof. rewrite !nth_opt_nth_error. apply list_set_nth_eq. Qed.
Lemma nth_opt_list_set_neq {A} (l : list A) k j x : j <> k -> nth_opt (list_set l k x) j = nth_opt l j.
Proof. rewrite !nth_opt_nth_error. apply list_set_nth_neq. Qed.
Lemma list_set_twice {A} (l : list A) k x y : list_set (list_set l k x) k y = list_set l k y.
Proof. revert k. induction l as [|z l IH]; intros [|k]; cbn; auto. f_equal. apply IH. Qed.

Definition IdxOnly (m : N) (ms ms' : list model) : Prop :=
  ms' = ms \/
  exists x i o, nth_opt ms (N.to_nat m) = Some x /\
                ms' = list_set ms (N.to_nat m) (mkModel (m_root x) (m_files x) i o).

Lemma IdxOnly_refl m ms : IdxOnly m ms ms.
Proof. left. reflexivity. Qed.
Lemma IdxOnly_trans m a b c : IdxOnly m a b -> IdxOnly m b c -> IdxOnly m a c.
Proof.
  intros [->|(x & i & o & Hx & ->)] H2; auto.
  destruct H2 as [->|(y & i' & o' & Hy & ->)].
  - right. eauto.
  - right. rewrite (nth_opt_list_set_eq _ _ _ _ Hx) in Hy. injection Hy as <-. cbn.
    exists x, i', o'. split; auto. apply list_set_twice.
Qed.

Lemma IdxOnly_length m a b : IdxOnly m a b -> List.length b = List.length a.
Proof. intros [->|(x & i & o & _ & ->)]; auto. apply list_set_length. Qed.

Lemma IdxOnly_nth m a b k x :
  IdxOnly m a b -> nth_opt a k = Some x ->
  exists y, nth_opt b k = Some y /\ m_root y = m_root x /\ m_files y = m_files x /\ (k <> N.to_nat m -> y = x).
Proof.
  intros [->|(z & i & o & Hz & ->)] Hx.
  - exists x. auto.
  - destruct (Nat.eq_dec k (N.to_nat m)) as [->|Hk].
    + rewrite Hz in Hx. injection Hx as <-. rewrite (nth_opt_list_set_eq _ _ _ _ Hz).
      eexists. split; [reflexivity|]. cbn. repeat split; auto. congruence.
    + rewrite nth_opt_list_set_neq by auto. exists x. auto.
Qed.

(* what the registration walk may touch *)
Definition RegFrame (m : N) (w w' : world) : Prop :=
  w_nodes w' = w_nodes w /\ w_next w' = w_next w /\ w_files w' = w_files w /\ IdxOnly m (w_models w) (w_models w').

Lemma RegFrame_refl m w : RegFrame m w w.
Proof. repeat split; auto. apply IdxOnly_refl. Qed.
Lemma RegFrame_trans m a b c : RegFrame m a b -> RegFrame m b c -> RegFrame m a c.
Proof.
  intros (n1 & x1 & f1 & i1) (n2 & x2 & f2 & i2). repeat split; try congruence.
  eapply IdxOnly_trans; eauto.
Qed.

Lemma modify_model_idx m (g : model -> model) :
  (forall x, m_root (g x) = m_root x /\ m_files (g x) = m_files x) ->
  stab (RegFrame m) (modify_model m g).
Proof.
  intros Hg w r w' H. apply modify_model_inv in H as (x & Hx & _ & ->).
  repeat split; cbn; auto. right. destruct (Hg x) as (Hr & Hf).
  exists x, (m_idents (g x)), (m_origins (g x)). split; auto.
  f_equal. destruct (g x); cbn in *. congruence.
Qed.

Lemma add_identifiable_frame m p e : stab (RegFrame m) (add_identifiable m p e).
Proof. apply modify_model_idx. intros x. split; reflexivity. Qed.
Lemma add_reference_origin_frame m p e : stab (RegFrame m) (add_reference_origin m p e).
Proof. apply modify_model_idx. intros x. split; reflexivity. Qed.

Section Create.
Variable T : tables.
Variable LATEST : N.

(* ------------------------------------------------------------------ the registration walk *)
Definition rs_kids (rs : id -> W unit) : list citem -> W unit :=
  fix kids (l : list citem) : W unit :=
    match l with
    | [] => wret tt
    | CElem c :: rest => (rs c;; kids rest)%W
    | CData _ :: rest => kids rest
    end.

Lemma register_subtree_S f m cur i :
  register_subtree T (S f) m cur i =
  (do n <- get_node i;
   do ident <- is_identifiable T n;
   do cur' <- (if ident then
                 do nm <- item_name T n;
                 let p := match nm with Some x => cur ++ [47] ++ x | None => cur end in
                 add_identifiable m p i;; wret p
               else wret cur);
   do isr <- wl (is_ref T (n_type n));
   (if isr then
      do cd <- wl (character_data T n);
      match cd with Some (DString r) => add_reference_origin m r i | _ => wret tt end
    else wret tt);;
   rs_kids (register_subtree T f m cur') (n_content n))%W.
Proof. reflexivity. Qed.

Lemma rs_kids_frame m rs l : (forall c, stab (RegFrame m) (rs c)) -> stab (RegFrame m) (rs_kids rs l).
Proof.
  intros Hrs. induction l as [|[c|d] l IH]; cbn [rs_kids].
  - apply stab_ro; [apply RegFrame_refl | ro_tac].
  - apply stab_bind; [apply RegFrame_trans | apply Hrs | intros _; exact IH].
  - exact IH.
Qed.

Lemma register_subtree_frame f : forall m cur i, stab (RegFrame m) (register_subtree T f m cur i).
Proof.
  induction f as [|f IH]; intros m cur i.
  - intros w r w' H. discriminate H.
  - rewrite register_subtree_S.
    repeat first
      [ apply rs_kids_frame; intros c; apply IH
      | apply add_identifiable_frame | apply add_reference_origin_frame
      | stab_step (RegFrame_refl m) (RegFrame_trans m) ].
Qed.

(* ------------------------------------------------------------------ make_unique_item_name *)
Definition FreeName (w : world) (m : N) (path : list N) : Prop :=
  exists x, nth_opt (w_models w) (N.to_nat m) = Some x /\ assoc_get path (m_idents x) = None.

Lemma unique_loop_spec f m pp orig : forall name counter w r w',
  unique_loop f m pp orig name counter w = Val (r, w') ->
  w' = w /\ exists name' counter', r = OK (name', counter') /\
    (counter' = counter /\ name' = name \/ counter < counter' /\ name' = suffixed orig (counter' - 1)) /\
    FreeName w m (pp ++ [47] ++ name').
Proof.
  induction f as [|f IH]; intros name counter w r w' H; [discriminate H|].
  cbn [unique_loop] in H.
  apply wbind_inv in H as [(ex & w1 & E & H) | (e & E & _)].
  2: { unfold get_element_by_path in E. apply wbind_inv in E as [(x & w2 & E1 & E2) | (e' & E1 & _)].
       - apply wret_inv in E2 as ([=] & _).
       - apply get_model_inv in E1 as (? & _ & [=] & _). }
  unfold get_element_by_path in E. apply wbind_inv in E as [(x & w2 & E1 & E2) | (e' & E1 & [=])].
  apply get_model_inv in E1 as (x' & Hx & [= <-] & ->). apply wret_inv in E2 as ([= ->] & ->).
  match type of H with (match ?a with _ => _ end) _ = _ => destruct a eqn:Hget end.
  - apply IH in H as (-> & name' & counter' & -> & Hc & Hfree). split; auto.
    exists name', counter'. split; auto. split; auto. right.
    destruct Hc as [(-> & ->) | (Hlt & ->)].
    + split; [lia|]. replace (counter + 1 - 1) with counter by lia. reflexivity.
    + split; [lia|]. reflexivity.
  - apply wret_inv in H as (-> & ->). split; auto. exists name, counter. split; auto. split; auto.
    exists x. auto.
Qed.

Lemma item_name_some_content n w r w' nm :
  item_name T n w = Val (r, w') -> r = OK (Some nm) -> exists s rest, n_content n = CElem s :: rest.
Proof.
  unfold item_name. intros H Hr. subst r.
  apply wbind_inv in H as [(named & w1 & E & H) | (e & E & [=])].
  apply wl_inv in E as (? & _ & [= <-] & ->).
  destruct (negb named); [apply wret_inv in H as ([=] & _)|].
  destruct (n_content n) as [|[s|d] rest]; try (apply wret_inv in H as ([=] & _)).
  eauto.
Qed.

(* the three outcomes of make_unique_item_name: an error (nothing changed), the name was free (nothing changed),
   or the SHORT-NAME text of the element was replaced by orig_k *)
Lemma make_unique_spec i m pp w r w' :
  make_unique_item_name T i m pp w = Val (r, w') ->
  (exists e, r = ER e /\ w' = w) \/
  exists n orig name,
    w_nodes w i = Some n /\ item_name T n w = Val (OK (Some orig), w) /\ r = OK name /\
    NameOf orig name /\ FreeName w m (pp ++ [47] ++ name) /\
    ((name = orig /\ w' = w) \/
     exists s rest sn, n_content n = CElem s :: rest /\ w_nodes w s = Some sn /\
       w' = mkWorld (upd (w_nodes w) s (set_content sn [CData (DString name)])) (w_next w) (w_files w) (w_models w)).
Proof.
  unfold make_unique_item_name. intros H.
  apply wbind_inv in H as [(n & w1 & E & H) | (e & E & ->)].
  2: { apply get_node_inv in E as (? & _ & [=] & _). }
  apply get_node_inv in E as (n' & Hn & [= <-] & ->).
  apply wbind_inv in H as [(nm & w1 & E & H) | (e & E & ->)].
  2: { left. exists e. split; auto. eapply ro_item_name; eauto. }
  assert (w1 = w) by (eapply ro_item_name; eauto). subst w1.
  destruct nm as [orig|].
  2: { apply wfail_inv in H as (-> & ->). left. eauto. }
  apply wbind_inv in H as [(x & w1 & E1 & H) | (e & E1 & ->)].
  2: { apply get_model_inv in E1 as (? & _ & [=] & _). }
  apply get_model_inv in E1 as (x' & Hx & [= <-] & ->).
  apply wbind_inv in H as [([name counter] & w1 & E1 & H) | (e & E1 & ->)].
  2: { apply unique_loop_spec in E1 as (-> & ? & ? & [=] & _). }
  apply unique_loop_spec in E1 as (-> & name' & counter' & [= <- <-] & Hc & Hfree).
  right. exists n, orig, name.
  apply wbind_inv in H as [(u & w1 & E1 & H) | (e & E1 & ->)].
  - apply wret_inv in H as (-> & ->).
    assert (HN : NameOf orig name).
    { destruct Hc as [(_ & ->) | (Hlt & ->)]; [left; auto | right; exists (counter - 1); split; [lia | reflexivity]]. }
    repeat (split; auto).
    destruct (1 <? counter) eqn:Hcnt.
    + destruct (item_name_some_content _ _ _ _ orig E eq_refl) as (s & rest & Hcont).
      rewrite Hcont in E1. apply modify_node_inv in E1 as (sn & Hsn & _ & ->).
      right. exists s, rest, sn. auto.
    + apply wret_inv in E1 as (_ & ->). left. split; auto.
      destruct Hc as [(_ & ->) | (Hlt & _)]; auto. apply N.ltb_ge in Hcnt. lia.
  - exfalso. destruct (1 <? counter).
    + destruct (n_content n) as [|[s|d] rest].
      * apply wret_inv in E1 as ([=] & _).
      * apply modify_node_inv in E1 as (? & _ & [=] & _).
      * apply wret_inv in E1 as ([=] & _).
    + apply wret_inv in E1 as ([=] & _).
Qed.

End Create.
