(* Tree/CopyProofsCreate.v — C13 proofs, layer 2: create_copied_sub_element[_at/_inner], make_unique_item_name and
   the registration walk (Tree/Ops.v).  Frame (what a copy operation may touch) and structure (what the copy looks
   like in the final world).  For every table set. *)
From AV Require Import Base.Bytes Base.Outcome Hash.HashModel Tree.Heap Tree.Ops Tree.Script
  Tree.CopyProofsW Tree.CopyProofsDefs Tree.CopyProofsDeep.
From Coq Require Import Lia PeanoNat.
Open Scope string_scope.
Open Scope list_scope.
Open Scope N_scope.

(* ------------------------------------------------------------------ stability under a preorder on worlds *)
Section Stab.
Variable R : world -> world -> Prop.
Hypothesis Rrefl : forall w, R w w.
Hypothesis Rtrans : forall a b c, R a b -> R b c -> R a c.

Definition stab {A} (m : W A) : Prop := forall w r w', m w = Val (r, w') -> R w w'.

Lemma stab_ro {A} (m : W A) : ro m -> stab m.
Proof. intros Hm w r w' H. apply Hm in H. subst. apply Rrefl. Qed.
Lemma stab_bind {A B} (m : W A) (k : A -> W B) : stab m -> (forall a, stab (k a)) -> stab (wbind m k).
Proof.
  intros Hm Hk w r w' H. apply wbind_inv in H as [(a & w1 & H1 & H2) | (e & H1 & _)].
  - eapply Rtrans; [eapply Hm | eapply Hk]; eauto.
  - eapply Hm; eauto.
Qed.
Lemma stab_try {A} (m : W A) : stab m -> stab (wtry m).
Proof. intros Hm w r w' H. apply wtry_inv in H as (r0 & H & _). eapply Hm; eauto. Qed.
End Stab.

Ltac stab_step Rrefl Rtrans :=
  first
  [ solve [apply (stab_ro _ Rrefl); ro_tac]
  | apply (stab_bind _ Rtrans); [ | intros ? ]
  | apply (stab_try _)
  | match goal with
    | |- stab _ (match ?x with _ => _ end) => destruct x
    | |- stab _ (if ?b then _ else _) => destruct b
    | |- stab _ (let '(_, _) := ?x in _) => destruct x
    end ].

(* ------------------------------------------------------------------ the model list: only the two index maps of model m *)
Lemma nth_opt_list_set_eq {A} (l : list A) k x y : nth_opt l k = Some y -> nth_opt (list_set l k x) k = Some x.
Proof. rewrite !nth_opt_nth_error. apply list_set_nth_eq. Qed.
Lemma nth_opt_list_set_neq {A} (l : list A) k j x : j <> k -> nth_opt (list_set l k x) j = nth_opt l j.
Proof. rewrite !nth_opt_nth_error. apply list_set_nth_neq. Qed.
Lemma list_set_twice {A} (l : list A) k x y : list_set (list_set l k x) k y = list_set l k y.
Proof. revert k. induction l as [|z l IH]; intros [|k]; cbn; auto. f_equal. apply IH. Qed.

Lemma IdxOnly_refl m ms : IdxOnly m ms ms.
Proof. left. reflexivity. Qed.
Lemma IdxOnly_trans m a b c : IdxOnly m a b -> IdxOnly m b c -> IdxOnly m a c.
Proof.
  intros [->|(x & i & o & Hx & ->)] H2; auto.
  destruct H2 as [->|(y & i' & o' & Hy & ->)].
  - right. eauto.
  - right. rewrite (nth_opt_list_set_eq _ _ _ _ Hx) in Hy. injection Hy as <-. cbn.
    exists x, i', o'. split; auto. apply list_set_twice.
Qed.

Lemma IdxOnly_length m a b : IdxOnly m a b -> List.length b = List.length a.
Proof. intros [->|(x & i & o & _ & ->)]; auto. apply list_set_length. Qed.

Lemma IdxOnly_nth m a b k x :
  IdxOnly m a b -> nth_opt a k = Some x ->
  exists y, nth_opt b k = Some y /\ m_root y = m_root x /\ m_files y = m_files x /\ (k <> N.to_nat m -> y = x).
Proof.
  intros [->|(z & i & o & Hz & ->)] Hx.
  - exists x. auto.
  - destruct (Nat.eq_dec k (N.to_nat m)) as [->|Hk].
    + rewrite Hz in Hx. injection Hx as <-. rewrite (nth_opt_list_set_eq _ _ _ _ Hz).
      eexists. split; [reflexivity|]. cbn. repeat split; auto. congruence.
    + rewrite nth_opt_list_set_neq by auto. exists x. auto.
Qed.

(* what the registration walk may touch *)
Definition RegFrame (m : N) (w w' : world) : Prop :=
  w_nodes w' = w_nodes w /\ w_next w' = w_next w /\ w_files w' = w_files w /\ IdxOnly m (w_models w) (w_models w').

Lemma RegFrame_refl m w : RegFrame m w w.
Proof. repeat split; auto. apply IdxOnly_refl. Qed.
Lemma RegFrame_trans m a b c : RegFrame m a b -> RegFrame m b c -> RegFrame m a c.
Proof.
  intros (n1 & x1 & f1 & i1) (n2 & x2 & f2 & i2). repeat split; try congruence.
  eapply IdxOnly_trans; eauto.
Qed.

Lemma modify_model_idx m (g : model -> model) :
  (forall x, m_root (g x) = m_root x /\ m_files (g x) = m_files x) ->
  stab (RegFrame m) (modify_model m g).
Proof.
  intros Hg w r w' H. apply modify_model_inv in H as (x & Hx & _ & ->).
  repeat split; cbn; auto. right. destruct (Hg x) as (Hr & Hf).
  exists x, (m_idents (g x)), (m_origins (g x)). split; auto.
  f_equal. destruct (g x); cbn in *. congruence.
Qed.

Lemma add_identifiable_frame m p e : stab (RegFrame m) (add_identifiable m p e).
Proof. apply modify_model_idx. intros x. split; reflexivity. Qed.
Lemma add_reference_origin_frame m p e : stab (RegFrame m) (add_reference_origin m p e).
Proof. apply modify_model_idx. intros x. split; reflexivity. Qed.

Lemma in_insert_at {A} (l : list A) k x y : In y (insert_at l k x) -> In y l \/ y = x.
Proof.
  revert k. induction l as [|z l IH]; intros [|k]; cbn; intros H.
  - destruct H as [->|[]]; auto.
  - destruct H as [->|[]]; auto.
  - destruct H as [->|H]; auto.
  - destruct H as [->|H]; auto. apply IH in H as [H|H]; auto.
Qed.

Section Create.
Variable T : tables.
Variable LATEST : N.

(* ------------------------------------------------------------------ the registration walk *)
Definition rs_kids (rs : id -> W unit) : list citem -> W unit :=
  fix kids (l : list citem) : W unit :=
    match l with
    | [] => wret tt
    | CElem c :: rest => (rs c;; kids rest)%W
    | CData _ :: rest => kids rest
    end.

Lemma register_subtree_S f m cur i :
  register_subtree T (S f) m cur i =
  (do n <- get_node i;
   do ident <- is_identifiable T n;
   do cur' <- (if ident then
                 do nm <- item_name T n;
                 let p := match nm with Some x => cur ++ [47] ++ x | None => cur end in
                 add_identifiable m p i;; wret p
               else wret cur);
   do isr <- wl (is_ref T (n_type n));
   (if isr then
      do cd <- wl (character_data T n);
      match cd with Some (DString r) => add_reference_origin m r i | _ => wret tt end
    else wret tt);;
   rs_kids (register_subtree T f m cur') (n_content n))%W.
Proof. reflexivity. Qed.

Lemma rs_kids_frame m rs l : (forall c, stab (RegFrame m) (rs c)) -> stab (RegFrame m) (rs_kids rs l).
Proof.
  intros Hrs. induction l as [|[c|d] l IH]; cbn [rs_kids].
  - apply stab_ro; [apply RegFrame_refl | ro_tac].
  - apply stab_bind; [apply RegFrame_trans | apply Hrs | intros _; exact IH].
  - exact IH.
Qed.

Lemma register_subtree_frame f : forall m cur i, stab (RegFrame m) (register_subtree T f m cur i).
Proof.
  induction f as [|f IH]; intros m cur i.
  - intros w r w' H. discriminate H.
  - rewrite register_subtree_S.
    repeat first
      [ apply rs_kids_frame; intros c; apply IH
      | apply add_identifiable_frame | apply add_reference_origin_frame
      | stab_step (RegFrame_refl m) (RegFrame_trans m) ].
Qed.

(* ------------------------------------------------------------------ make_unique_item_name *)
Lemma unique_loop_spec f m pp orig : forall name counter w r w',
  unique_loop f m pp orig name counter w = Val (r, w') ->
  w' = w /\ exists name' counter', r = OK (name', counter') /\
    (counter' = counter /\ name' = name \/ counter < counter' /\ name' = suffixed orig (counter' - 1)) /\
    FreeName w m (pp ++ [47] ++ name').
Proof.
  induction f as [|f IH]; intros name counter w r w' H; [discriminate H|].
  cbn [unique_loop] in H.
  apply wbind_inv in H as [(ex & w1 & E & H) | (e & E & _)].
  2: { unfold get_element_by_path in E. apply wbind_inv in E as [(x & w2 & E1 & E2) | (e' & E1 & _)].
       - apply wret_inv in E2 as ([=] & _).
       - apply get_model_inv in E1 as (? & _ & [=] & _). }
  unfold get_element_by_path in E. apply wbind_inv in E as [(x & w2 & E1 & E2) | (e' & E1 & [=])].
  apply get_model_inv in E1 as (x' & Hx & [= <-] & ->). apply wret_inv in E2 as ([= ->] & ->).
  match type of H with (match ?a with _ => _ end) _ = _ => destruct a eqn:Hget end.
  - apply IH in H as (-> & name' & counter' & -> & Hc & Hfree). split; auto.
    exists name', counter'. split; auto. split; auto. right.
    destruct Hc as [(-> & ->) | (Hlt & ->)].
    + split; [lia|]. replace (counter + 1 - 1) with counter by lia. reflexivity.
    + split; [lia|]. reflexivity.
  - apply wret_inv in H as (-> & ->). split; auto. exists name, counter. split; auto. split; auto.
    exists x. auto.
Qed.

Lemma item_name_some_content n w r w' nm :
  item_name T n w = Val (r, w') -> r = OK (Some nm) -> exists s rest, n_content n = CElem s :: rest.
Proof.
  unfold item_name. intros H Hr. subst r.
  apply wbind_inv in H as [(named & w1 & E & H) | (e & E & [=])].
  apply wl_inv in E as (? & _ & [= <-] & ->).
  destruct (negb named); [apply wret_inv in H as ([=] & _)|].
  destruct (n_content n) as [|[s|d] rest]; try (apply wret_inv in H as ([=] & _)).
  eauto.
Qed.

(* the three outcomes of make_unique_item_name: an error (nothing changed), the name was free (nothing changed),
   or the SHORT-NAME text of the element was replaced by orig_k *)
Lemma make_unique_spec i m pp w r w' :
  make_unique_item_name T i m pp w = Val (r, w') ->
  (exists e, r = ER e /\ w' = w) \/
  exists n orig name,
    w_nodes w i = Some n /\ item_name T n w = Val (OK (Some orig), w) /\ r = OK name /\
    NameOf orig name /\ FreeName w m (pp ++ [47] ++ name) /\
    ((name = orig /\ w' = w) \/
     exists s rest sn, n_content n = CElem s :: rest /\ w_nodes w s = Some sn /\
       (exists k, 1 <= k /\ name = suffixed orig k) /\
       w' = mkWorld (upd (w_nodes w) s (set_content sn [CData (DString name)])) (w_next w) (w_files w) (w_models w)).
Proof.
  unfold make_unique_item_name. intros H.
  apply wbind_inv in H as [(n & w1 & E & H) | (e & E & ->)].
  2: { apply get_node_inv in E as (? & _ & [=] & _). }
  apply get_node_inv in E as (n' & Hn & [= <-] & ->).
  apply wbind_inv in H as [(nm & w1 & E & H) | (e & E & ->)].
  2: { left. exists e. split; auto. eapply ro_item_name; eauto. }
  assert (w1 = w) by (eapply ro_item_name; eauto). subst w1.
  destruct nm as [orig|].
  2: { apply wfail_inv in H as (-> & ->). left. eauto. }
  apply wbind_inv in H as [(x & w1 & E1 & H) | (e & E1 & ->)].
  2: { apply get_model_inv in E1 as (? & _ & [=] & _). }
  apply get_model_inv in E1 as (x' & Hx & [= <-] & ->).
  apply wbind_inv in H as [([name counter] & w1 & E1 & H) | (e & E1 & ->)].
  2: { apply unique_loop_spec in E1 as (-> & ? & ? & [=] & _). }
  apply unique_loop_spec in E1 as (-> & name' & counter' & [= <- <-] & Hc & Hfree).
  right. exists n, orig, name.
  apply wbind_inv in H as [(u & w1 & E1 & H) | (e & E1 & ->)].
  - apply wret_inv in H as (-> & ->).
    assert (HN : NameOf orig name).
    { destruct Hc as [(_ & ->) | (Hlt & ->)]; [left; auto | right; exists (counter - 1); split; [lia | reflexivity]]. }
    repeat (split; auto).
    destruct (1 <? counter) eqn:Hcnt.
    + destruct (item_name_some_content _ _ _ _ orig E eq_refl) as (s & rest & Hcont).
      rewrite Hcont in E1. apply modify_node_inv in E1 as (sn & Hsn & _ & ->).
      right. exists s, rest, sn. repeat (split; auto).
      apply N.ltb_lt in Hcnt. destruct Hc as [(-> & _) | (Hlt & ->)]; [lia|].
      exists (counter - 1). split; [lia | reflexivity].
    + apply wret_inv in E1 as (_ & ->). left. split; auto.
      destruct Hc as [(_ & ->) | (Hlt & _)]; auto. apply N.ltb_ge in Hcnt. lia.
  - exfalso. destruct (1 <? counter).
    + destruct (n_content n) as [|[s|d] rest].
      * apply wret_inv in E1 as ([=] & _).
      * apply modify_node_inv in E1 as (? & _ & [=] & _).
      * apply wret_inv in E1 as ([=] & _).
    + apply wret_inv in E1 as ([=] & _).
Qed.

(* ------------------------------------------------------------------ create_copied_sub_element_inner *)
Lemma CopyFrame_of_Ext self m w w' : Ext w w' -> CopyFrame self m w w'.
Proof.
  intros (Hn & Hk & Hf & Hm). repeat split; auto. rewrite Hm. apply IdxOnly_refl.
Qed.

Lemma FiltR_first_child lo v w w' p s c nc x rest :
  FiltR T lo v w w' p s c -> w_nodes w' c = Some nc -> n_content nc = CElem x :: rest -> c < x.
Proof.
  intros HF Hc Hcont. inversion HF as [? ? ? ns nc0 _ Hc0 _ _ _ _ _ _ _ HI]; subst.
  rewrite Hc in Hc0. injection Hc0 as <-. rewrite Hcont in HI.
  clear - HI. remember (n_content ns) as l eqn:El. clear El.
  remember (CElem x :: rest) as l' eqn:El'. revert El'.
  induction HI; intros El'; try discriminate; auto.
  injection El' as -> ->. assumption.
Qed.

Theorem ccsei_spec self other pos m v w r w' :
  Closed w ->
  create_copied_sub_element_inner T self other pos m v w = Val (r, w') ->
  Closed w' /\ CopyFrame self m w w' /\
  exists ns, w_nodes w self = Some ns /\
  match r with
  | ER _ => w_nodes w' self = Some ns
  | OK c =>
    w_nodes w' self = Some (set_content ns (insert_at (n_content ns) (N.to_nat pos) (CElem c))) /\
    exists w1, deep_copy T (fuel_of w) other v w = Val (OK c, w1) /\ CopyRel T w1 w' self c /\
    (* the registration walk ran on a world w3 that has the final nodes except for the destination's content list *)
    exists w3 w4 path,
      register_subtree T (fuel_of w3) m path c w3 = Val (OK tt, w4) /\
      w_models w' = w_models w4 /\
      (forall i, i <> self -> w_nodes w' i = w_nodes w3 i) /\ w_nodes w3 self = Some ns /\
      path_unchecked T ns w1 = Val (OK path, w1)
  end.
Proof.
  intros Cw H. unfold create_copied_sub_element_inner in H.
  apply wbind_inv in H as [(ns & w0 & E & H) | (e & E & _)].
  2: { apply get_node_inv in E as (? & _ & [=] & _). }
  apply get_node_inv in E as (ns' & Hself & [= <-] & ->).
  assert (Hselflt : self < w_next w) by (eapply (proj1 Cw); eauto).
  apply wbind_inv in H as [(wg & w0 & E & H) | (e & E & _)].
  2: { apply wget_inv in E as ([=] & _). }
  apply wget_inv in E as ([= ->] & ->).
  apply wbind_inv in H as [(anc & w0 & E & H) | (e & E & ->)].
  2: { assert (w' = w) by (eapply ro_ancestor_is; eauto). subst w'.
       split; auto. split; [apply CopyFrame_of_Ext, Ext_refl|]. exists ns. auto. }
  assert (w0 = w) by (eapply ro_ancestor_is; eauto). subst w0. clear E.
  destruct anc.
  { apply wfail_inv in H as (-> & ->). split; auto. split; [apply CopyFrame_of_Ext, Ext_refl|]. exists ns. auto. }
  apply wbind_inv in H as [(c & w1 & E & H) | (e & E & ->)].
  2: { destruct (deep_copy_frame T _ _ _ _ _ _ Cw E) as (Ex & Cw'). split; auto.
       split; [apply CopyFrame_of_Ext; auto|]. exists ns. split; auto.
       destruct Ex as (_ & Hk & _). rewrite Hk; auto. }
  destruct (deep_copy_spec T _ _ _ _ _ _ Cw E) as (Cw1 & Ex1 & HF).
  destruct Ex1 as (Hn1 & Hk1 & Hf1 & Hm1).
  assert (Hclo : w_next w <= c) by (inversion HF; auto).
  inversion HF as [? ? ? nso nc1 Hso Hc1 _ Hpar1 Hfil1 _ _ _ _ HI]; subst.
  assert (Hself1 : w_nodes w1 self = Some ns) by (rewrite Hk1; auto).
  (* fix a8ba45e: a copy of an identifiable type without SHORT-NAME is refused; read-only steps *)
  assert (EXIT1 : Closed w1 /\ CopyFrame self m w w1 /\ exists ns0, w_nodes w self = Some ns0 /\ w_nodes w1 self = Some ns0).
  { split; auto. split; [apply CopyFrame_of_Ext; repeat split; auto|]. exists ns. auto. }
  apply wbind_inv in H as [(cn0 & w2 & E2 & H) | (e & E2 & _)].
  2: { apply get_node_inv in E2 as (? & _ & [=] & _). }
  apply get_node_inv in E2 as (cn0' & _ & _ & ->). clear cn0'.
  apply wbind_inv in H as [(nv & w2 & E2 & H) | (e & E2 & _)].
  2: { apply wl_inv in E2 as (? & _ & [=] & _). }
  apply wl_inv in E2 as (nv' & _ & _ & ->). clear nv'.
  apply wbind_inv in H as [(id0 & w2 & E2 & H) | (e & E2 & ->)].
  2: { assert (w' = w1) by (eapply ro_is_identifiable; eauto). subst w'. exact EXIT1. }
  assert (w2 = w1) by (eapply ro_is_identifiable; eauto). subst w2. clear E2.
  destruct (nv && negb id0).
  { apply wfail_inv in H as (-> & ->). exact EXIT1. }
  clear EXIT1.
  (* path_unchecked of the destination *)
  apply wbind_inv in H as [(path & w2 & E2 & H) | (e & E2 & ->)].
  2: { assert (w' = w1) by (eapply ro_path_unchecked; eauto). subst w'.
       split; auto. split; [apply CopyFrame_of_Ext; repeat split; auto|]. exists ns. auto. }
  assert (w2 = w1) by (eapply ro_path_unchecked; eauto). subst w2. rename E2 into Epath.
  (* set_parent *)
  apply wbind_inv in H as [(u & w2 & E2 & H) | (e & E2 & _)].
  2: { apply modify_node_inv in E2 as (? & _ & [=] & _). }
  apply modify_node_inv in E2 as (nc1' & Hc1' & _ & ->). rewrite Hc1 in Hc1'. injection Hc1' as <-.
  set (cn := set_parent nc1 (PElem self)) in *.
  set (w2 := mkWorld (upd (w_nodes w1) c cn) (w_next w1) (w_files w1) (w_models w1)) in *.
  assert (Cw2 : Closed w2).
  { apply (Closed_upd w1 c nc1 cn Cw1 Hc1). cbn. intros y Hin. exact (proj2 Cw1 c nc1 y Hc1 Hin). }
  assert (Hself2 : w_nodes w2 self = Some ns) by (cbn; rewrite upd_neq by lia; auto).
  assert (Fr2 : CopyFrame self m w w2).
  { repeat split; cbn; auto; try congruence.
    - intros i Hi _. rewrite upd_neq by lia. auto.
    - rewrite Hm1. apply IdxOnly_refl. }
  apply wbind_inv in H as [(cn' & w3 & E2 & H) | (e & E2 & _)].
  2: { apply get_node_inv in E2 as (? & _ & [=] & _). }
  apply get_node_inv in E2 as (cn'' & Hcn & [= <-] & ->).
  cbn [w_nodes w2] in Hcn. rewrite upd_eq in Hcn. injection Hcn as <-.
  apply wbind_inv in H as [(ident & w3 & E2 & H) | (e & E2 & ->)].
  2: { assert (w' = w2) by (eapply ro_is_identifiable; eauto). subst w'.
       split; auto. split; auto. exists ns. auto. }
  assert (w3 = w2) by (eapply ro_is_identifiable; eauto). subst w3. clear E2.
  (* make_unique_item_name *)
  assert (MU : forall w3 (ru : out unit),
    (if ident then (do _ <- make_unique_item_name T c m path; wret tt)%W else wret tt) w2 = Val (ru, w3) ->
    Closed w3 /\ CopyFrame self m w w3 /\ w_nodes w3 self = Some ns /\ w_next w3 = w_next w1 /\
    CopyRel T w1 w3 self c).
  { intros w3 ru Hmu.
    assert (Base : Closed w2 /\ CopyFrame self m w w2 /\ w_nodes w2 self = Some ns /\ w_next w2 = w_next w1 /\
                   CopyRel T w1 w2 self c).
    { repeat (split; auto). exists nc1. split; auto. split; [cbn; apply upd_eq|].
      left. intros i _ Hic. cbn. apply upd_neq. exact Hic. }
    destruct ident.
    2: { apply wret_inv in Hmu as (_ & ->). exact Base. }
    apply wbind_inv in Hmu as [(nm & w4 & Emu & Hmu) | (e & Emu & _)].
    - apply wret_inv in Hmu as (_ & ->).
      apply make_unique_spec in Emu as [(e & [=] & _) | (n & orig & name & Hn & Hin & _ & HN & _ & Hcase)].
      cbn [w_nodes w2] in Hn. rewrite upd_eq in Hn. injection Hn as <-.
      destruct Hcase as [(_ & ->) | (s & rest & sn & Hcont & Hsn & HNk & ->)]; [exact Base|].
      assert (Hcs : c < s).
      { eapply FiltR_first_child with (nc := nc1); eauto. }
      assert (Hsn1 : w_nodes w1 s = Some sn).
      { cbn in Hsn. rewrite upd_neq in Hsn by lia. exact Hsn. }
      set (w3 := mkWorld (upd (w_nodes w2) s (set_content sn [CData (DString name)])) (w_next w2) (w_files w2) (w_models w2)).
      assert (Cw3 : Closed w3).
      { apply (Closed_upd w2 s sn _ Cw2 Hsn). cbn. intros y [[=]|[]]. }
      split; auto. split.
      { destruct Fr2 as (F1 & F2 & F3 & F4). repeat split; cbn; auto.
        intros i Hi Hne. rewrite upd_neq by lia. apply F2; auto. }
      split. { cbn. rewrite upd_neq by lia. rewrite upd_neq by lia. exact Hself1. }
      split; [reflexivity|].
      exists nc1. split; auto. split. { cbn. rewrite upd_neq by lia. apply upd_eq. }
      right. exists s, rest, sn, name, orig. repeat (split; auto).
      { cbn. apply upd_eq. }
      intros i _ Hic His. cbn. rewrite upd_neq by auto. apply upd_neq. exact Hic.
    - apply make_unique_spec in Emu as [(e' & _ & ->) | (n & orig & name & _ & _ & [=] & _)]. exact Base. }
  apply wbind_inv in H as [(u3 & w3 & E3 & H) | (e & E3 & ->)].
  2: { destruct (MU _ _ E3) as (C3 & F3 & S3 & _). split; auto. split; auto. exists ns; auto. }
  destruct (MU _ _ E3) as (Cw3 & Fr3 & Hself3 & Hn3 & CR3). clear MU E3.
  apply wbind_inv in H as [(wg & w3' & E3 & H) | (e & E3 & _)].
  2: { apply wget_inv in E3 as ([=] & _). }
  apply wget_inv in E3 as ([= ->] & ->).
  (* the registration walk *)
  assert (REG : forall (r4 : out unit) w4, register_subtree T (fuel_of w3) m path c w3 = Val (r4, w4) ->
     Closed w4 /\ CopyFrame self m w w4 /\ w_nodes w4 = w_nodes w3).
  { intros r4 w4 E4. apply register_subtree_frame in E4 as (Hnodes4 & Hnext4 & Hfiles4 & Hidx4).
    split. { destruct Cw3 as [A B]. split; rewrite ?Hnodes4, ?Hnext4; auto. }
    split; auto. destruct Fr3 as (F1 & F2 & F3 & F4). repeat split; try congruence.
    - intros i Hi Hne. rewrite Hnodes4. auto.
    - eapply IdxOnly_trans; eauto. }
  apply wbind_inv in H as [(u4 & w4 & E4 & H) | (e & E4 & ->)].
  2: { destruct (REG _ _ E4) as (C4 & F4 & N4). split; auto. split; auto. exists ns. split; auto. rewrite N4; auto. }
  destruct (REG _ _ E4) as (Cw4 & Fr4 & Hnodes4). clear REG. destruct u4.
  (* insertion into the destination's content list *)
  unfold content_insert in H.
  apply wbind_inv in H as [(u5 & w5 & E5 & H) | (e & E5 & ->)].
  2: { exfalso. apply wbind_inv in E5 as [(n5 & w6 & E6 & E5) | (e' & E6 & _)].
       - apply get_node_inv in E6 as (? & _ & _ & ->).
         destruct (_ <? pos); [discriminate E5 | apply set_node_inv in E5 as ([=] & _)].
       - apply get_node_inv in E6 as (? & _ & [=] & _). }
  apply wret_inv in H as (-> & ->).
  apply wbind_inv in E5 as [(n5 & w6 & E6 & E5) | (e' & E6 & _)].
  2: { apply get_node_inv in E6 as (? & _ & [=] & _). }
  apply get_node_inv in E6 as (n5' & Hn5 & [= <-] & ->).
  rewrite Hnodes4, Hself3 in Hn5. injection Hn5 as <-.
  destruct (_ <? pos); [discriminate E5|].
  apply set_node_inv in E5 as (_ & ->).
  destruct CR3 as (nc1' & Hc1' & Hc3 & Hrest). rewrite Hc1 in Hc1'. injection Hc1' as <-.
  assert (Hcself : c <> self) by lia.
  split.
  { apply (Closed_upd w4 self ns _ Cw4); [rewrite Hnodes4; auto|].
    cbn. intros y Hin. apply in_insert_at in Hin as [Hin|[= ->]].
    - eapply (proj2 Cw4 self ns); eauto. rewrite Hnodes4; auto.
    - rewrite Hnodes4. eauto. }
  split.
  { destruct Fr4 as (F1 & F2 & F3 & F4). repeat split; cbn; auto.
    intros i Hi Hne. rewrite upd_neq by auto. auto. }
  exists ns. split; auto. split. { cbn. apply upd_eq. }
  exists w1. split; auto.
  split.
  2: { exists w3, w4, path. split; [exact E4|]. split; [reflexivity|]. split; [|split; [exact Hself3 | exact Epath]].
       intros i Hi. cbn. rewrite upd_neq by auto. rewrite Hnodes4. reflexivity. }
  exists nc1. split; auto. split. { cbn. rewrite upd_neq by auto. rewrite Hnodes4. exact Hc3. }
  destruct Hrest as [Hrest | (s & rest & sn & name & orig & Hcont & Hsn & Hcs & Hs3 & HNk & Hin & Hrest)].
  - left. intros i His Hic. cbn. rewrite upd_neq by auto. rewrite Hnodes4. auto.
  - right. exists s, rest, sn, name, orig. repeat (split; auto).
    + cbn. rewrite upd_neq by lia. rewrite Hnodes4. exact Hs3.
    + intros i His Hic Hisn. cbn. rewrite upd_neq by auto. rewrite Hnodes4. auto.
Qed.

(* ------------------------------------------------------------------ the public entry points reduce to the inner function *)
Definition ReducesToInner (h other : id) (w : world) (r : out id) (w' : world) : Prop :=
  (w' = w /\ exists e, r = ER e) \/
  exists m v pos, h <> other /\ model_of h w = Val (OK m, w) /\ min_version LATEST h w = Val (OK v, w) /\
                  create_copied_sub_element_inner T h other pos m v w = Val (r, w').

Lemma raw_copy_inner h other m v w r w' :
  raw_create_copied_sub_element T h other m v w = Val (r, w') ->
  (w' = w /\ exists e, r = ER e) \/ exists pos, create_copied_sub_element_inner T h other pos m v w = Val (r, w').
Proof.
  unfold raw_create_copied_sub_element. intros H.
  apply wbind_inv in H as [(n & w1 & E & H) | (e & E & _)].
  2: { apply get_node_inv in E as (? & _ & [=] & _). }
  apply get_node_inv in E as (? & _ & [= <-] & ->).
  apply wbind_inv in H as [(o & w1 & E & H) | (e & E & _)].
  2: { apply get_node_inv in E as (? & _ & [=] & _). }
  apply get_node_inv in E as (? & _ & [= <-] & ->).
  apply wbind_inv in H as [([s e] & w1 & E & H) | (e & E & ->)].
  - assert (w1 = w) by (eapply ro_calc_range; eauto). subst w1. right. eauto.
  - left. split; eauto. eapply ro_calc_range; eauto.
Qed.

Lemma raw_copy_at_inner h other pos m v w r w' :
  raw_create_copied_sub_element_at T h other pos m v w = Val (r, w') ->
  (w' = w /\ exists e, r = ER e) \/ create_copied_sub_element_inner T h other pos m v w = Val (r, w').
Proof.
  unfold raw_create_copied_sub_element_at. intros H.
  apply wbind_inv in H as [(n & w1 & E & H) | (e & E & _)].
  2: { apply get_node_inv in E as (? & _ & [=] & _). }
  apply get_node_inv in E as (? & _ & [= <-] & ->).
  apply wbind_inv in H as [(o & w1 & E & H) | (e & E & _)].
  2: { apply get_node_inv in E as (? & _ & [=] & _). }
  apply get_node_inv in E as (? & _ & [= <-] & ->).
  apply wbind_inv in H as [([s e] & w1 & E & H) | (e & E & ->)].
  - assert (w1 = w) by (eapply ro_calc_range; eauto). subst w1.
    destruct ((s <=? pos) && (pos <=? e)); auto.
    apply wfail_inv in H as (-> & ->). left. eauto.
  - left. split; eauto. eapply ro_calc_range; eauto.
Qed.

Lemma e_copy_inner h other w r w' :
  e_create_copied_sub_element T LATEST h other w = Val (r, w') -> ReducesToInner h other w r w'.
Proof.
  unfold e_create_copied_sub_element. intros H.
  destruct (h =? other) eqn:Eh.
  { apply wfail_inv in H as (-> & ->). left. eauto. }
  apply N.eqb_neq in Eh.
  apply wbind_inv in H as [(m & w1 & E & H) | (e & E & ->)].
  2: { left. split; eauto. eapply ro_model_of; eauto. }
  assert (w1 = w) by (eapply ro_model_of; eauto). subst w1.
  apply wbind_inv in H as [(v & w1 & E2 & H) | (e & E2 & ->)].
  2: { left. split; eauto. eapply ro_min_version; eauto. }
  assert (w1 = w) by (eapply ro_min_version; eauto). subst w1.
  apply raw_copy_inner in H as [H | (pos & H)]; [left; auto|].
  right. exists m, v, pos. auto.
Qed.

Lemma e_copy_at_inner h other pos w r w' :
  e_create_copied_sub_element_at T LATEST h other pos w = Val (r, w') -> ReducesToInner h other w r w'.
Proof.
  unfold e_create_copied_sub_element_at. intros H.
  destruct (h =? other) eqn:Eh.
  { apply wfail_inv in H as (-> & ->). left. eauto. }
  apply N.eqb_neq in Eh.
  apply wbind_inv in H as [(m & w1 & E & H) | (e & E & ->)].
  2: { left. split; eauto. eapply ro_model_of; eauto. }
  assert (w1 = w) by (eapply ro_model_of; eauto). subst w1.
  apply wbind_inv in H as [(v & w1 & E2 & H) | (e & E2 & ->)].
  2: { left. split; eauto. eapply ro_min_version; eauto. }
  assert (w1 = w) by (eapply ro_min_version; eauto). subst w1.
  apply raw_copy_at_inner in H as [H | H]; [left; auto|].
  right. exists m, v, pos. auto.
Qed.

End Create.
