(* Tree/CompatHist10.v — the typing invariant across merge_file_data / merge_element (Tree/Load.v): merge_ok from PairOK.
   merge_element(parent_a, parent_b) imports sub-elements of parent_b (the incoming tree) below parent_a and recurses into the
   pairs it matched.  Invariant of the recursion: the two parents' stored datatypes are rel_ok (equal, or both without
   sub-elements).  Then
     - an imported element was an okpair below parent_b, hence is one below parent_a (the lookups read the datatype only);
     - a matched pair (elem_a, elem_b) has the same element name, both are okpairs below rel_ok parents, so by the table fact
       PairOK their datatypes are rel_ok again.
   Only names of matched keys matter; everything else the walk decides (positions, a-only) is irrelevant for typing. *)
From Coq Require Import PeanoNat Arith Lia.
From AV Require Import Base.Bytes Base.Outcome Hash.HashModel Spec.SpecOps Tree.Heap Tree.Ops Tree.Script Tree.Inv
  Tree.InvProofsBase Tree.InvProofsCore Tree.InvProofsPrim Tree.InvProofsCreate Tree.Load
  Tree.Compat Tree.CompatSpec Tree.CompatTyped Tree.CompatProofs5 Tree.CompatProofs8 Tree.CompatFrame Tree.CompatFrameOps
  Tree.CompatHist1 Tree.CompatPM Tree.CompatPMOps Tree.CompatHist7 Tree.CompatHist9.
Open Scope string_scope.
Open Scope list_scope.
Open Scope N_scope.

Section Merge.
Variable T : tables.
Variable LATEST : N.
Variable name_definition_ref : N.
Hypothesis HP : PairOK T.

Definition trel (a b : N * N) : Prop := rel_ok T (snd a) (snd b) = true.

Lemma okpair_transfer ta tb nm tc : trel ta tb -> okpair T tb nm tc -> okpair T ta nm tc.
Proof.
  intros R (u & et & ixs & Hf & Hs). exists u, et, ixs. split; [|exact Hs].
  rewrite (find_sub_element_snd T ta tb nm u (rel_ok_nonleaf T _ _ _ _ _ R Hf)). exact Hf.
Qed.
Lemma children_rel ta tb nm tca tcb : trel ta tb -> okpair T ta nm tca -> okpair T tb nm tcb -> trel tca tcb.
Proof.
  intros R (u & et & ixs & Hf & Hs) (v & et' & ixs' & Hf' & Hs'). unfold trel. rewrite <- Hs, <- Hs'.
  pose proof (rel_ok_nonleaf T _ _ _ _ _ R Hf') as E. unfold find_sub_element in Hf, Hf'. rewrite <- E in Hf'.
  exact (HP _ _ _ _ _ _ _ _ Hf Hf').
Qed.

(* ---------- what the pure walk produces ---------- *)
Definition isk (w : world) (l : list citem) (k : ckey) : Prop :=
  In (CElem (k_id k)) l /\ exists n, w_nodes w (k_id k) = Some n /\ k_name k = n_name n.

Lemma keys_of_isk w pty : forall l ks, keys_of T name_definition_ref w pty l = Val ks -> forall k, In k ks -> isk w l k.
Proof.
  induction l as [|[c|d] r IH]; intros ks H k Hk; cbn [keys_of] in H.
  - injection H as <-. destruct Hk.
  - unfold key_of in H. destruct (w_nodes w c) as [n|] eqn:En; [|discriminate H]. cbn [bind] in H.
    destruct (keys_of T name_definition_ref w pty r) as [ks'| |] eqn:Er; try discriminate H. cbn [bind] in H. injection H as <-.
    destruct Hk as [<-|Hk].
    + split; [left; reflexivity|]. exists n. cbn [k_id k_name]. auto.
    + destruct (IH ks' eq_refl k Hk) as (Hin & Hn). split; [right; exact Hin|exact Hn].
  - destruct (IH ks H k Hk) as (Hin & Hn). split; [right; exact Hin|exact Hn].
Qed.

Lemma sibling_item_in name item : forall lb s, find_sibling_item name item lb = Val (Some s) ->
  exists kb, In kb lb /\ k_id kb = s /\ k_name kb = name.
Proof.
  induction lb as [|kb r IH]; intros s H; cbn [find_sibling_item] in H; [discriminate H|].
  destruct (k_name kb =? name) eqn:En.
  - destruct (k_item kb) as [it| |]; try discriminate H. cbn [bind] in H. destruct (opt_bytes_eqb it item).
    + injection H as <-. exists kb. split; [left; reflexivity|]. split; [reflexivity|apply N.eqb_eq; exact En].
    + destruct (IH s H) as (k & Hk & E). exists k. split; [right; exact Hk|exact E].
  - destruct (IH s H) as (k & Hk & E). exists k. split; [right; exact Hk|exact E].
Qed.
Lemma sibling_defref_in name dr : forall lb s, find_sibling_defref name dr lb = Val (Some s) ->
  exists kb, In kb lb /\ k_id kb = s /\ k_name kb = name.
Proof.
  induction lb as [|kb r IH]; intros s H; cbn [find_sibling_defref] in H; [discriminate H|].
  destruct (k_name kb =? name) eqn:En.
  - destruct (k_defref kb) as [it| |]; try discriminate H. cbn [bind] in H. destruct (opt_bytes_eqb it dr).
    + injection H as <-. exists kb. split; [left; reflexivity|]. split; [reflexivity|apply N.eqb_eq; exact En].
    + destruct (IH s H) as (k & Hk & E). exists k. split; [right; exact Hk|exact E].
  - destruct (IH s H) as (k & Hk & E). exists k. split; [right; exact Hk|exact E].
Qed.
Lemma merge_partner_in l k s : find_merge_partner l k = Val (Some s) -> exists kb, In kb l /\ k_id kb = s /\ k_name kb = k_name k.
Proof.
  unfold find_merge_partner. destruct (k_ident k) as [[|]| |]; try discriminate; cbn [bind].
  - destruct (k_item k) as [it| |]; try discriminate; cbn [bind]. apply sibling_item_in.
  - destruct (k_defref k) as [d| |]; try discriminate; cbn [bind]. apply sibling_defref_in.
Qed.

Definition act_ok (all_b : list ckey) (ka kb : ckey) (a : action) : Prop :=
  match a with
  | MergeEqual => k_name ka = k_name kb
  | MergeUnequal s => exists kb', In kb' all_b /\ k_id kb' = s /\ k_name kb' = k_name ka
  | _ => True
  end.

Lemma merge_action_ok all_a all_b sp pos ka kb a :
  merge_action all_a all_b sp pos ka kb = Val (OK a) -> act_ok all_b ka kb a.
Proof.
  unfold merge_action. destruct (k_name ka =? k_name kb) eqn:En.
  - apply N.eqb_eq in En. destruct (k_ident ka) as [[|]| |]; try discriminate; cbn [bind].
    + unfold calc_identifiables_merge. destruct (k_item ka) as [ia| |]; try discriminate; cbn [bind].
      destruct (k_item kb) as [ib| |]; try discriminate; cbn [bind].
      destruct (opt_bytes_eqb ia ib); [intros [= <-]; exact En|].
      destruct (find_sibling_item (k_name ka) ia all_b) as [[s|]| |] eqn:Es; try discriminate; cbn [bind].
      * intros [= <-]. exact (sibling_item_in _ _ _ _ Es).
      * destruct sp; intros [= <-]. exact I.
    + unfold calc_element_merge. destruct (k_defref ka) as [da| |]; try discriminate; cbn [bind].
      destruct (k_defref kb) as [db| |]; try discriminate; cbn [bind].
      destruct (opt_bytes_eqb da db); [cbn [bind]; intros [= <-]; exact En|].
      destruct (find_sibling_defref (k_name ka) da all_b) as [[s|]| |] eqn:Es; try discriminate; cbn [bind]; intros [= <-].
      * exact (sibling_defref_in _ _ _ _ Es).
      * exact I.
  - destruct (k_idx ka) as [[ia|]| |]; try discriminate; cbn [bind].
    destruct (k_idx kb) as [[ib|]| |]; try discriminate; cbn [bind].
    destruct (find_merge_partner all_b ka) as [[s|]| |] eqn:Es; try discriminate; cbn [bind].
    + intros [= <-]. exact (merge_partner_in _ _ _ Es).
    + destruct (find_merge_partner all_a kb) as [[s|]| |]; try discriminate; cbn [bind]; intros [= <-]; [exact I|].
      destruct (lex_cmp ia ib); exact I.
Qed.

Definition GoodW (all_a all_b : list ckey) (wk : walked) : Prop :=
  (forall a b, In (a, b) (wk_merge wk) ->
     exists ka kb, In ka all_a /\ In kb all_b /\ k_id ka = a /\ k_id kb = b /\ k_name ka = k_name kb) /\
  (forall b p, In (b, p) (wk_b_only wk) -> exists kb, In kb all_b /\ k_id kb = b).

Lemma goodw_nil all_a all_b : GoodW all_a all_b (mkWalked [] [] []).
Proof. split; [intros a b []|intros b p []]. Qed.

Lemma walk_good all_a all_b sp ec : forall fuel pos la lb acc wk,
  (forall k, In k la -> In k all_a) -> (forall k, In k lb -> In k all_b) -> GoodW all_a all_b acc ->
  walk fuel all_a all_b sp ec pos la lb acc = Val (OK wk) -> GoodW all_a all_b wk.
Proof.
  induction fuel as [|f IH]; intros pos la lb acc wk Ha Hb G H; cbn [walk] in H; [discriminate H|].
  destruct la as [|ka la']; destruct lb as [|kb lb'].
  - injection H as <-. exact G.
  - injection H as <-. destruct G as (G1 & G2). split; [exact G1|]. cbn [wk_b_only]. intros b p Hin.
    apply in_app_or in Hin as [Hin|Hin]; [exact (G2 b p Hin)|].
    apply in_map_iff in Hin as (kb0 & [= <- _] & Hk). exists kb0. split; [|reflexivity]. apply Hb.
    destruct (negb (merged_b (wk_merge acc) (k_id kb))) in Hk.
    + destruct Hk as [<-|Hk]; [left; reflexivity|right; apply (proj1 (filter_In _ _ _)) in Hk; exact (proj1 Hk)].
    + right. apply (proj1 (filter_In _ _ _)) in Hk. exact (proj1 Hk).
  - injection H as <-. destruct G as (G1 & G2). split; [exact G1|exact G2].
  - destruct (merge_action all_a all_b sp pos ka kb) as [[act|e]| |] eqn:Ea; try discriminate H; cbn [bind] in H.
    pose proof (merge_action_ok _ _ _ _ _ _ _ Ea) as Hact. destruct G as (G1 & G2).
    assert (Ha' : forall k, In k la' -> In k all_a) by (intros k Hk; apply Ha; right; exact Hk).
    assert (Hb' : forall k, In k lb' -> In k all_b) by (intros k Hk; apply Hb; right; exact Hk).
    destruct act as [| other | | position]; cbn [act_ok] in Hact.
    + apply (IH _ _ _ _ _ Ha' Hb') in H; [exact H|]. split; [|exact G2]. cbn [wk_merge]. intros a b Hin.
      apply in_app_or in Hin as [Hin|[[= <- <-]|[]]]; [exact (G1 a b Hin)|].
      exists ka, kb. split; [apply Ha; left; reflexivity|]. split; [apply Hb; left; reflexivity|]. auto.
    + apply (IH _ _ _ _ _ Ha' Hb) in H; [exact H|]. split; [|exact G2]. cbn [wk_merge]. intros a b Hin.
      apply in_app_or in Hin as [Hin|[[= <- <-]|[]]]; [exact (G1 a b Hin)|].
      destruct Hact as (kb' & Hk & Ei & En). exists ka, kb'. split; [apply Ha; left; reflexivity|]. split; [exact Hk|]. auto.
    + apply (IH _ _ _ _ _ Ha' Hb) in H; [exact H|]. split; [exact G1|exact G2].
    + apply (IH _ _ _ _ _ Ha Hb') in H; [exact H|]. split; [exact G1|]. cbn [wk_b_only]. intros b p Hin.
      destruct (merged_b (wk_merge acc) (k_id kb)); [exact (G2 b p Hin)|].
      apply in_app_or in Hin as [Hin|[[= <- _]|[]]]; [exact (G2 b p Hin)|]. exists kb. split; [apply Hb; left; reflexivity|reflexivity].
Qed.


(* ---------- import_new_items: each element is attached below parent_a, where it is an okpair ---------- *)
Lemma frp_restrict_a_only w0 : forall l files, frp w0 (restrict_a_only l files).
Proof. induction l as [|e r IH]; intros files; cbn [restrict_a_only]; fr_go. Qed.
Lemma fpp_restrict_a_only w0 : forall l files, fpp w0 (restrict_a_only l files).
Proof. induction l as [|e r IH]; intros files; cbn [restrict_a_only]; fp_go. Qed.

Lemma import_jp wb pa tpa : forall l idx nf mv,
  pa < w_next wb -> (forall npa, w_nodes wb pa = Some npa -> n_type npa = tpa) ->
  (forall ne pos, In (ne, pos) l -> ne < w_next wb /\ forall nn, w_nodes wb ne = Some nn -> okpair T tpa (n_name nn) (n_type nn)) ->
  JP T wb (import_new_items T pa l idx nf mv).
Proof.
  induction l as [|[ne ipos] rest IH]; intros idx nf mv Hpa Htpa Hl; cbn [import_new_items].
  - apply JP_frame; [intros w0; fr_go|fp_go].
  - apply JP_bind; [apply JP_frame; [intros w0; fr_go|fp_go]|intros _].
    apply JP_bind; [apply JP_frame; [intros w0; fr_go|fp_go]|intros _].
    intros w r w' F H B HT.
    apply wbind_inv in H as [(nn & wx & H1 & H) | (e & H1 & _)]; apply get_node_inv in H1 as (nn' & Hnn & E1 & ->);
      [|discriminate E1].
    injection E1 as <-.
    apply wbind_inv in H as [(npa & wx & H1 & H) | (e & H1 & _)]; apply get_node_inv in H1 as (npa' & Hnpa & E1 & ->);
      [|discriminate E1].
    injection E1 as <-.
    apply wbind_inv in H as [(range & wx & H1 & H) | (e & H1 & _)]; [|apply wcatch_inv in H1 as (? & _ & [=])].
    apply wcatch_inv in H1 as (r0 & H1' & [= ->]).
    assert (wx = w) as ->.
    { revert H1'. match goal with |- ?mm w = _ -> _ => assert (R : ro mm) by ro_tac end. intros H1'. exact (R _ _ _ H1'). }
    destruct r0 as [[first_pos last_pos]|e]; [|apply wfail_inv in H as (_ & ->); auto].
    apply wbind_inv in H as [(u & w2 & H1 & H) | (e & H1 & _)]; apply content_insert_inv in H1 as (n1 & Hn1 & E1 & ->);
      [|discriminate E1].
    assert (n1 = npa) by congruence. subst n1. clear E1 Hn1.
    destruct (Hl ne ipos (or_introl eq_refl)) as (Hne & Hok).
    destruct (Fp_old wb w pa npa F Hpa Hnpa) as (npa0 & Hnpa0 & Tpa & _).
    destruct (Fp_old wb w ne nn F Hne Hnn) as (nn0 & Hnn0 & Tnn & Nnn).
    match type of H with _ ?ww = _ => set (w2 := ww) in * end.
    assert (B2 : Bounded w2).
    { apply (bounded_add_edge w pa npa ne); [exact B|exact Hnpa|destruct B as (X & _); exact (X _ _ Hnn)|].
      intros x Hx. exact (in_insert_elem _ _ _ _ Hx). }
    assert (T2 : TypedU T w2).
    { apply (typed_add_edge T w pa npa ne); [exact HT|exact Hnpa| |intros x Hx; exact (in_insert_elem _ _ _ _ Hx)].
      intros nc Hnc. assert (nc = nn) by congruence. subst nc. rewrite Tpa, Tnn, Nnn, (Htpa _ Hnpa0). exact (Hok _ Hnn0). }
    assert (F2 : Fp wb w2).
    { apply Fp_wset; [exact F|]. apply (pk_upd wb pa npa); [exact (proj2 F _ _ Hnpa)|]. split; [reflexivity|]. split; [reflexivity|]. auto. }
    exact (IH (idx + 1) nf mv Hpa Htpa (fun ne0 p0 Hin => Hl ne0 p0 (or_intror Hin)) w2 r w' F2 H B2 T2).
Qed.

(* ---------- merge_element ---------- *)
Definition merge_post (w w' : world) : Prop := Bounded w' /\ TypedU T w' /\ Fp w w'.

Lemma merge_element_typed : forall fuel pa files pb nf w r w',
  merge_element T LATEST name_definition_ref fuel pa files pb nf w = Val (r, w') -> Bounded w -> TypedU T w ->
  (forall na nb, w_nodes w pa = Some na -> w_nodes w pb = Some nb -> trel (n_type na) (n_type nb)) ->
  merge_post w w'.
Proof.
  induction fuel as [|fl IHf]; intros pa files pb nf w r w' H B HT Hrel; cbn [merge_element] in H; [discriminate H|].
  apply wbind_inv in H as [(w0 & wx & H1 & H) | (e & H1 & _)]; apply wget_inv in H1 as (E1 & ->); [|discriminate E1].
  injection E1 as ->.
  apply wbind_inv in H as [(na & wx & H1 & H) | (e & H1 & _)]; apply get_node_inv in H1 as (na' & Hna & E1 & ->); [|discriminate E1].
  injection E1 as <-.
  apply wbind_inv in H as [(nb & wx & H1 & H) | (e & H1 & _)]; apply get_node_inv in H1 as (nb' & Hnb & E1 & ->); [|discriminate E1].
  injection E1 as <-.
  apply wbind_inv in H as [(la & wx & H1 & H) | (e & H1 & _)]; apply wlift_inv in H1 as (la' & Hla & E1 & ->); [|discriminate E1].
  injection E1 as <-.
  apply wbind_inv in H as [(lb & wx & H1 & H) | (e & H1 & _)]; apply wlift_inv in H1 as (lb' & Hlb & E1 & ->); [|discriminate E1].
  injection E1 as <-.
  apply wbind_inv in H as [(sp & wx & H1 & H) | (e & H1 & _)]; apply wlift_inv in H1 as (sp' & _ & E1 & ->); [|discriminate E1].
  injection E1 as <-.
  pose proof (Hrel na nb Hna Hnb) as Rab.
  apply wbind_inv in H as [(wk & wx & H1 & H) | (e & H1 & _)].
  2:{ destruct (walk _ _ _ _ _ _ _ _ _) as [o| |]; try discriminate H1. injection H1 as _ <-. split; [exact B|]. split; [exact HT|apply Fp_refl]. }
  destruct (walk _ la lb sp _ 0 la lb _) as [o| |] eqn:Ew; try discriminate H1. injection H1 as -> <-.
  pose proof (walk_good la lb sp _ _ _ _ _ _ _ (fun k Hk => Hk) (fun k Hk => Hk) (goodw_nil la lb) Ew) as (Gm & Gb).
  pose proof (keys_of_isk w (n_type na) _ _ Hla) as Ka. pose proof (keys_of_isk w (n_type na) _ _ Hlb) as Kb.
  assert (Hpa : pa < w_next w) by (destruct B as (X & _); exact (X _ _ Hna)).
  (* the three phases, relative to the base world w *)
  revert H. match goal with |- ?mm w = _ -> _ => assert (HJ : JP T w mm) end.
  2:{ intros H. exact (HJ w r w' (Fp_refl w) H B HT). }
  apply JP_bind; [apply JP_frame; [intros w0; apply frp_restrict_a_only|apply fpp_restrict_a_only]|intros _].
  apply JP_bind.
  { apply (import_jp w pa (n_type na)); [exact Hpa|intros npa Hn; congruence|].
    intros ne pos Hin. destruct (Gb ne pos Hin) as (kb & Hkb & <-). destruct (Kb kb Hkb) as (Hc & nn & Hnn & _).
    split; [destruct B as (_ & X); exact (X _ _ _ Hnb Hc)|].
    intros nn' Hnn'. assert (nn' = nn) by congruence. subst nn'.
    exact (okpair_transfer _ _ _ _ Rab (HT _ _ _ _ Hnb Hc Hnn)). }
  intros _.
  (* recursion into the matched pairs *)
  assert (Hpairs : forall a b, In (a, b) (wk_merge wk) -> a < w_next w /\ b < w_next w /\
            forall x y, w_nodes w a = Some x -> w_nodes w b = Some y -> trel (n_type x) (n_type y)).
  { intros a b Hin. destruct (Gm a b Hin) as (ka & kb & Hka & Hkb & <- & <- & En).
    destruct (Ka ka Hka) as (Hca & xa & Hxa & Nxa). destruct (Kb kb Hkb) as (Hcb & xb & Hxb & Nxb).
    split; [destruct B as (_ & X); exact (X _ _ _ Hna Hca)|]. split; [destruct B as (_ & X); exact (X _ _ _ Hnb Hcb)|].
    intros x y Hx Hy. assert (x = xa) by congruence. assert (y = xb) by congruence. subst x y.
    apply (children_rel (n_type na) (n_type nb) (n_name xa)); [exact Rab|exact (HT _ _ _ _ Hna Hca Hxa)|].
    rewrite <- Nxa, En, Nxb. exact (HT _ _ _ _ Hnb Hcb Hxb). }
  generalize (wk_merge wk) Hpairs. clear Hpairs. intros l. induction l as [|[ea eb] rest IHl]; intros Hpairs.
  - apply JP_frame; [intros w0; fr_go|fp_go].
  - destruct (Hpairs ea eb (or_introl eq_refl)) as (Hea & Heb & Hre).
    intros wa ra wb F H Ba Ta.
    apply wbind_inv in H as [(nea & wx & H1 & H) | (e & H1 & _)]; apply get_node_inv in H1 as (nea' & Hnea & E1 & ->);
      [|discriminate E1].
    injection E1 as <-.
    assert (Hrel' : forall x y, w_nodes wa ea = Some x -> w_nodes wa eb = Some y -> trel (n_type x) (n_type y)).
    { intros x y Hx Hy. destruct (Fp_old w wa ea x F Hea Hx) as (x0 & Hx0 & Tx & _).
      destruct (Fp_old w wa eb y F Heb Hy) as (y0 & Hy0 & Ty & _). rewrite Tx, Ty. exact (Hre _ _ Hx0 Hy0). }
    apply wbind_inv in H as [(u & w1 & H1 & H) | (e & H1 & _)].
    + destruct (IHf _ _ _ _ _ _ _ H1 Ba Ta Hrel') as (B1 & T1 & F1).
      pose proof (Fp_trans w wa w1 (proj1 B) F F1) as F1'.
      revert H. match goal with |- ?mm w1 = _ -> _ => assert (HK : JP T w mm) end.
      { apply JP_bind; [apply JP_frame; [intros w0; fr_go|fp_go]|intros _].
        exact (IHl (fun a b Hin => Hpairs a b (or_intror Hin))). }
      intros H. exact (HK w1 ra wb F1' H B1 T1).
    + destruct (IHf _ _ _ _ _ _ _ H1 Ba Ta Hrel') as (B1 & T1 & F1).
      split; [exact B1|]. split; [exact T1|exact (Fp_trans w wa wb (proj1 B) F F1)].
Qed.

Theorem merge_ok_of_pairok : merge_ok T LATEST name_definition_ref.
Proof.
  intros m new_root fid w r w' Hcond H B HT. unfold merge_file_data in H.
  apply wbind_inv in H as [(x & wx & H1 & H) | (e & H1 & _)]; apply get_model_inv in H1 as (x' & Hx & E1 & ->); [|discriminate E1].
  injection E1 as <-.
  apply wbind_inv in H as [(w0 & wx & H1 & H) | (e & H1 & _)]; apply wget_inv in H1 as (E1 & ->); [|discriminate E1].
  injection E1 as ->.
  assert (Hrel : forall na nb, w_nodes w (m_root x) = Some na -> w_nodes w new_root = Some nb -> trel (n_type na) (n_type nb)).
  { intros na nb Hna Hnb. unfold trel. rewrite (Hcond x na nb Hx Hna Hnb). apply rel_ok_refl. }
  apply wbind_inv in H as [(u & w1 & H1 & H) | (e & H1 & _)].
  - destruct (merge_element_typed _ _ _ _ _ _ _ _ H1 B HT Hrel) as (B1 & T1 & F1).
    revert H. match goal with |- ?mm w1 = _ -> _ => assert (HK : JP T w mm) end.
    { apply JP_frame; [intros w0; fr_go|fp_go]. }
    intros H. exact (HK w1 r w' F1 H B1 T1).
  - exact (merge_element_typed _ _ _ _ _ _ _ _ H1 B HT Hrel).
Qed.

End Merge.
