(* Tree/NoPanicReal.v — [F] the table facts C12 needs beyond Xml/TablesOk.v (every content mode of a datatype and of its
   nested groups is one of the five ContentMode variants; REF_ITEMS slices in range and present), evaluated on the
   regenerated tables (Spec/SpecReal.v over Gen/SpecTables.v), and nametab_ok of the EnumItem table (from_bytes). *)
From AV Require Import Base.Bytes Base.Outcome Hash.HashModel Spec.SpecOps Spec.SpecReal Xml.TablesOk Tree.NoPanic.
From AV Require Import Hash.HashRealEnum Hash.HashRealElement.

Lemma tables_ok12_real : tables_ok12 RT = true.
Proof. vm_compute. reflexivity. Qed.

Lemma en_ok_real : nametab_ok tab_enum = true.
Proof. vm_compute. reflexivity. Qed.

Lemma short_ok_real : name_ok tab_element (name_short_name RT).
Proof. unfold name_ok. vm_compute. discriminate. Qed.
