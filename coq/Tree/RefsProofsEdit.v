(* Tree/RefsProofsEdit.v — C05: operations that edit one node: insert/remove_character_content_item (never a
   reference), remove_character_data, set_character_data (no re-keying cases), set_reference_target. *)
From AV Require Import Base.Bytes Base.Outcome Hash.HashModel Tree.Heap Tree.Ops Tree.Script Tree.IndexProofsW
  Tree.Index Tree.IndexProofsBase Tree.IndexProofsAssoc Tree.IndexProofsFrame Tree.IndexProofsAttach
  Tree.IndexProofsNamed Tree.IndexProofsEdit Tree.Refs Tree.RefsProofsBase Tree.RefsProofs Tree.RefsProofsReport.
Open Scope string_scope.
Open Scope list_scope.
Open Scope N_scope.

Section REdit.
Variable T : tables.
Variable tab_el tab_en : nametab.
Variable check_fn : N -> list N -> res bool.
Variable LATEST : N.
Variable root_attrs : list (N * cdata).
Hypothesis TK : TablesOK T check_fn.
Notation Inv04 := (Inv04 T check_fn).
Notation SHORTN := (name_short_name T).

(* ---------- worlds that differ in reference_origins only *)
Lemma OO_IV w w' : OO w w' -> IV w w'.
Proof. intros (H1 & _ & _ & H4). split; [intros i; rewrite H1; reflexivity|exact H4]. Qed.
Lemma OO_mreach w w' m i : OO w w' -> (MReach T w' m i <-> MReach T w m i).
Proof. intros H. apply OO_IV in H. split; apply mreach_iv; [apply IV_sym|]; exact H. Qed.
Lemma OO_ref_text w w' j : OO w w' -> ref_text T w' j = ref_text T w j.
Proof. intros (H1 & _). unfold ref_text. rewrite H1. reflexivity. Qed.
Lemma OO_node w w' j : OO w w' -> w_nodes w' j = w_nodes w j.
Proof. intros (H1 & _). rewrite H1. reflexivity. Qed.

(* ---------- an edit that does not change the reference text of h *)
Lemma inv05_edit_shape w h w' :
  Inv05 T w -> edit_shape T w h w' -> ref_text T w' h = ref_text T w h -> Inv05 T w'.
Proof.
  intros HI [->|(n & n' & Hn & H1 & H2 & H3 & H4 & H5 & ->)] Ht; [exact HI|].
  apply (inv05_transfer T w (edit_world w h n')); [|reflexivity|exact HI].
  intros m p r. unfold RefSet. rewrite (mreach_edit T w h n n' Hn H1 H2 H3 H4 H5).
  destruct (N.eq_dec r h) as [->|Hne]; [rewrite Ht; tauto|].
  rewrite (ref_text_edit_other T w h n' r Hne). tauto.
Qed.

Lemma edit_noref_text w h n n' : w_nodes w h = Some n -> n_type n' = n_type n -> isref T (n_type n) = false ->
  ref_text T (edit_world w h n') h = ref_text T w h.
Proof. intros Hn Ht Hr. unfold ref_text. cbn. rewrite upd_eq, Hn, Ht, Hr. reflexivity. Qed.

Lemma inv05_citem w h w' :
  Inv05 T w -> edit_shape T w h w' -> (w' = w \/ forall n, w_nodes w h = Some n -> isref T (n_type n) = false) -> Inv05 T w'.
Proof.
  intros HI Hs [->|Hnr]; [exact HI|]. eapply inv05_edit_shape; eauto.
  destruct Hs as [->|(n & n' & Hn & _ & Ht & _ & _ & _ & ->)]; [reflexivity|]. apply (edit_noref_text w h n n'); auto.
Qed.

Theorem C05_insert_citem h text pos w r w' :
  Inv04 w -> Inv05 T w -> Known04 T LATEST w (OpInsertCItem h text pos) = false ->
  e_insert_character_content_item T h text pos w = Val (r, w') -> Inv05 T w'.
Proof.
  intros HI4 HI5 HK H. destruct (insert_citem_shape T check_fn LATEST TK _ _ _ _ _ _ HI4 HK H) as (Hs & Hnr).
  eapply inv05_citem; eauto.
Qed.
Theorem C05_remove_citem h pos w r w' :
  Inv04 w -> Inv05 T w -> Known04 T LATEST w (OpRemoveCItem h pos) = false ->
  e_remove_character_content_item T h pos w = Val (r, w') -> Inv05 T w'.
Proof.
  intros HI4 HI5 HK H. destruct (remove_citem_shape T check_fn LATEST TK _ _ _ _ _ HI4 HK H) as (Hs & Hnr).
  eapply inv05_citem; eauto.
Qed.

(* ---------- helpers for the re-targeting operations *)
Lemma ref_text_node w h n : w_nodes w h = Some n ->
  ref_text T w h = if isref T (n_type n) then match cdata_of T n with Some (DString p) => Some p | _ => None end else None.
Proof. intros Hn. unfold ref_text. rewrite Hn. reflexivity. Qed.

Lemma chars_cdata n v : content_mode T (n_type n) = Val MCharacters -> cdata_of T (set_content n [CData v]) = Some v.
Proof. intros Hm. unfold cdata_of, character_data. cbn. rewrite Hm. reflexivity. Qed.

Lemma modify_origins_world m f w r w' :
  modify_model m (fun x => set_origins x (f (m_origins x))) w = Val (r, w') ->
  exists x, model_at w m = Some x /\
    w' = mkWorld (w_nodes w) (w_next w) (w_files w) (list_set (w_models w) (N.to_nat m) (set_origins x (f (m_origins x)))).
Proof. intros H. apply modify_model_inv in H as (x & Hx & _ & ->). exists x. split; [exact Hx|reflexivity]. Qed.

(* the common frame of the three operations: an OO step on model m and an edit of node h, in either order *)
Section Frame.
Variables (w wa wb : world) (h : id) (n n' : node) (m : N) (x : model) (f : list (list N * list id) -> list (list N * list id)).
Hypothesis HF : TreeFacts w.
Hypothesis Hn : w_nodes w h = Some n.
Hypothesis Hname : n_name n' = n_name n.
Hypothesis Htype : n_type n' = n_type n.
Hypothesis Hkids : elem_ids (n_content n') = elem_ids (n_content n).
Hypothesis Hns : n_name n <> SHORTN.
Hypothesis Hleaf : elem_ids (n_content n) = [].
Hypothesis Hx : model_at w m = Some x.
Hypothesis Hm : MReach T w m h.
(* the final world: nodes of w with h := n', models of w with the origins of m := f (origins) *)
Hypothesis Hnodes : forall j, w_nodes wb j = if j =? h then Some n' else w_nodes w j.
Hypothesis Hmodels : w_models wb = list_set (w_models w) (N.to_nat m) (set_origins x (f (m_origins x))).

Lemma frame_edit_eq : forall j, w_nodes wb j = w_nodes (edit_world w h n') j.
Proof. intros j. rewrite Hnodes. cbn. unfold upd. reflexivity. Qed.

Lemma frame_reach m2 i : MReach T wb m2 i <-> MReach T w m2 i.
Proof.
  assert (Hhead : named T (n_type n) = true ->
     hd_error (n_content n') = hd_error (n_content n)
     \/ (identifiable_n T w n = false /\ identifiable_n T (edit_world w h n') n' = false)).
  { intros _. right. split; apply hd_no_elem_not_identifiable; [exact Hleaf|rewrite Hkids; exact Hleaf]. }
  assert (Hns' : n_name n = SHORTN ->
     (forall j nj, w_nodes w j = Some nj -> hd_error (n_content nj) = Some (CElem h) -> named T (n_type nj) = false) /\
     (forall s, cdata_of T n' = Some (DString s) -> ~ In 47 s)) by (intros E; contradiction).
  rewrite <- (mreach_edit T w h n n' Hn Hname Htype Hkids Hns' Hhead m2 i).
  assert (HIV : IV (edit_world w h n') wb).
  { split.
    - intros j. rewrite frame_edit_eq. reflexivity.
    - rewrite Hmodels. cbn [edit_world w_models]. apply iview_list_set with (x := x); [exact Hx|reflexivity]. }
  split; apply mreach_iv; [apply IV_sym|]; exact HIV.
Qed.
Lemma frame_text j : j <> h -> ref_text T wb j = ref_text T w j.
Proof. intros Hne. unfold ref_text. rewrite Hnodes. apply N.eqb_neq in Hne. rewrite Hne. reflexivity. Qed.
Lemma frame_text_h : ref_text T wb h = if isref T (n_type n) then match cdata_of T n' with Some (DString p) => Some p | _ => None end else None.
Proof. unfold ref_text. rewrite Hnodes, N.eqb_refl, Htype. reflexivity. Qed.
Lemma frame_model : model_at wb m = Some (set_origins x (f (m_origins x))).
Proof. eapply model_at_set_same; eauto. Qed.
Lemma frame_others m2 : m2 <> m -> option_map m_origins (model_at wb m2) = option_map m_origins (model_at w m2).
Proof. intros Hne. rewrite (model_at_set_other _ _ _ _ _ Hmodels Hne). reflexivity. Qed.

Theorem frame_inv05 old_t new_t :
  ref_text T w h = old_t -> ref_text T wb h = new_t ->
  f (m_origins x) = upd_origins h old_t new_t (m_origins x) ->
  Inv05 T w -> Inv05 T wb.
Proof.
  intros Ho Hnw Hf.
  apply (retarget_inv05 T w wb m h x (set_origins x (f (m_origins x))) old_t new_t HF frame_reach frame_text Ho Hnw Hm Hx
           frame_model Hf frame_others).
Qed.

(* the same frame when the origins do not change and neither does the text of h *)
Theorem frame_inv05_same :
  f (m_origins x) = m_origins x -> ref_text T wb h = ref_text T w h -> Inv05 T w -> Inv05 T wb.
Proof.
  intros Hf Ht. apply inv05_transfer.
  - intros m2 p r. unfold RefSet. rewrite frame_reach. destruct (N.eq_dec r h) as [->|Hne]; [rewrite Ht; tauto|].
    rewrite (frame_text _ Hne). tauto.
  - intros m2. destruct (N.eq_dec m2 m) as [->|Hne]; [|apply frame_others; exact Hne].
    rewrite frame_model, Hx. cbn. rewrite Hf. reflexivity.
Qed.

End Frame.

(* an edit of a node without sub-elements that is not a SHORT-NAME element *)
Lemma leafnode_edit_shape w h n n' :
  w_nodes w h = Some n -> n_name n' = n_name n -> n_type n' = n_type n ->
  elem_ids (n_content n') = [] -> elem_ids (n_content n) = [] -> n_name n <> SHORTN ->
  edit_shape T w h (edit_world w h n').
Proof.
  intros Hn H1 H2 H3 H4 H5. right. exists n, n'. split; [exact Hn|]. split; [exact H1|]. split; [exact H2|].
  split; [congruence|]. split; [intros E; contradiction|]. split; [|reflexivity].
  intros _. right. split; apply hd_no_elem_not_identifiable; assumption.
Qed.

Lemma edit_world_nodes w h n' j : w_nodes (edit_world w h n') j = if j =? h then Some n' else w_nodes w j.
Proof. reflexivity. Qed.

(* ---------- remove_character_data *)
Theorem C05_remove_cdata h w r w' :
  TreeFacts w -> Inv04 w -> Inv05 T w -> e_remove_character_data T h w = Val (r, w') -> Inv05 T w'.
Proof.
  intros HF HI4 HI5 H. unfold e_remove_character_data in H.
  wnode H n Hn. wval H mode Hmode.
  destruct (mode =? MCharacters) eqn:Em; cbn [negb] in H; [|winv H; exact HI5]. apply N.eqb_eq in Em. subst mode.
  destruct (n_name n =? SHORT T) eqn:Es; [winv H; exact HI5|]. apply N.eqb_neq in Es.
  wval H cd Hcd. destruct cd as [d|]; [|winv H; exact HI5].
  wval H isr Hisr.
  assert (Hleaf : elem_ids (n_content n) = []) by (eapply (i4_leaf _ _ _ HI4); eauto).
  set (n' := set_content n []) in *.
  assert (Hplain : forall ww, Inv05 T ww -> w_nodes ww h = Some n -> ref_text T ww h = None -> Inv05 T (edit_world ww h n')).
  { intros ww HIw Hnw Htw. eapply inv05_edit_shape; [exact HIw|apply (leafnode_edit_shape ww h n n'); auto|].
    rewrite Htw. unfold ref_text. cbn. rewrite upd_eq. cbn. unfold cdata_of, character_data. cbn.
    destruct (isref T (n_type n)); reflexivity. }
  destruct isr.
  2:{ wbind_w H u w0 E0; [|winv E0]. winv E0. apply modify_node_inv in H as (n1 & Hn1 & _ & ->).
      rewrite Hn in Hn1. injection Hn1 as <-. apply Hplain; auto.
      rewrite (ref_text_node _ _ _ Hn), (isref_val _ _ _ Hisr). reflexivity. }
  destruct d as [e|r0|u0|f0].
  1,3,4: (wbind_w H u w0 E0; [|wbind_ro E0 m0 Em0; [winv E0|exact HI5]]; wbind_ro E0 m0 Em0; winv E0;
          apply modify_node_inv in H as (n1 & Hn1 & _ & ->); rewrite Hn in Hn1; injection Hn1 as <-; apply Hplain; auto;
          rewrite (ref_text_node _ _ _ Hn), (cdata_of_val _ _ _ Hcd); destruct (isref T (n_type n)); reflexivity).
  (* a reference with string text r0 *)
  wbind_w H u w0 E0.
  2:{ wbind_ro E0 m0 Em0; [|exact HI5]. apply modify_model_inv in E0 as (x & _ & Hd & _). discriminate Hd. }
  wbind_ro E0 m Em0.
  change (remove_reference_origin m r0 h w) with
    (modify_model m (fun x => set_origins x (remove_origin r0 h (m_origins x))) w) in E0.
  apply modify_origins_world in E0 as (x & Hx & ->).
  apply modify_node_inv in H as (n1 & Hn1 & _ & ->). cbn in Hn1. rewrite Hn in Hn1. injection Hn1 as <-.
  eapply (frame_inv05 w _ h n n' m x (remove_origin r0 h) HF Hn) with (old_t := Some r0) (new_t := None); eauto.
  - eapply model_of_mreach; eauto.
  - rewrite (ref_text_node _ _ _ Hn), (isref_val _ _ _ Hisr), (cdata_of_val _ _ _ Hcd). reflexivity.
  - unfold ref_text. cbn. rewrite upd_eq. cbn. unfold cdata_of, character_data. cbn. destruct (isref T (n_type n)); reflexivity.
Qed.

End REdit.
