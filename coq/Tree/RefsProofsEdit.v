(* Tree/RefsProofsEdit.v — C05: operations that edit one node: insert/remove_character_content_item (never a
   reference), remove_character_data, set_character_data (no re-keying cases), set_reference_target. *)
From AV Require Import Base.Bytes Base.Outcome Hash.HashModel Tree.Heap Tree.Ops Tree.Script Tree.IndexProofsW
  Tree.Index Tree.IndexProofsBase Tree.IndexProofsAssoc Tree.IndexProofsFrame Tree.IndexProofsAttach
  Tree.IndexProofsNamed Tree.IndexProofsEdit Tree.Refs Tree.RefsProofsBase Tree.RefsProofs Tree.RefsProofsReport.
Open Scope string_scope.
Open Scope list_scope.
Open Scope N_scope.

Section REdit.
Variable T : tables.
Variable tab_el tab_en : nametab.
Variable check_fn : N -> list N -> res bool.
Variable LATEST : N.
Variable root_attrs : list (N * cdata).
Hypothesis TK : TablesOK T check_fn.
Notation Inv04 := (Inv04 T check_fn).
Notation SHORTN := (name_short_name T).

(* ---------- worlds that differ in reference_origins only *)
Lemma OO_IV w w' : OO w w' -> IV w w'.
Proof. intros (H1 & _ & _ & H4). split; [intros i; rewrite H1; reflexivity|exact H4]. Qed.
Lemma OO_mreach w w' m i : OO w w' -> (MReach T w' m i <-> MReach T w m i).
Proof. intros H. apply OO_IV in H. split; apply mreach_iv; [apply IV_sym|]; exact H. Qed.
Lemma OO_ref_text w w' j : OO w w' -> ref_text T w' j = ref_text T w j.
Proof. intros (H1 & _). unfold ref_text. rewrite H1. reflexivity. Qed.
Lemma OO_node w w' j : OO w w' -> w_nodes w' j = w_nodes w j.
Proof. intros (H1 & _). rewrite H1. reflexivity. Qed.

(* ---------- an edit that does not change the reference text of h *)
Lemma inv05_edit_shape w h w' :
  Inv05 T w -> edit_shape T w h w' -> ref_text T w' h = ref_text T w h -> Inv05 T w'.
Proof.
  intros HI [->|(n & n' & Hn & H1 & H2 & H3 & Hc & H4 & H5 & ->)] Ht; [exact HI|].
  apply (inv05_transfer T w (edit_world w h n')); [|reflexivity|exact HI].
  intros m p r. unfold RefSet. rewrite (mreach_edit T w h n n' Hn H1 H2 H3 H4 H5).
  destruct (N.eq_dec r h) as [->|Hne]; [rewrite Ht; tauto|].
  rewrite (ref_text_edit_other T w h n' r Hne). tauto.
Qed.

Lemma edit_noref_text w h n n' : w_nodes w h = Some n -> n_type n' = n_type n -> isref T (n_type n) = false ->
  ref_text T (edit_world w h n') h = ref_text T w h.
Proof. intros Hn Ht Hr. unfold ref_text. cbn. rewrite upd_eq, Hn, Ht, Hr. reflexivity. Qed.

Lemma inv05_citem w h w' :
  Inv05 T w -> edit_shape T w h w' -> (w' = w \/ forall n, w_nodes w h = Some n -> isref T (n_type n) = false) -> Inv05 T w'.
Proof.
  intros HI Hs [->|Hnr]; [exact HI|]. eapply inv05_edit_shape; eauto.
  destruct Hs as [->|(n & n' & Hn & _ & Ht & _ & _ & _ & _ & ->)]; [reflexivity|]. apply (edit_noref_text w h n n'); auto.
Qed.

Theorem C05_insert_citem h text pos w r w' :
  Inv04 w -> Inv05 T w -> Known04 T LATEST w (OpInsertCItem h text pos) = false ->
  e_insert_character_content_item T h text pos w = Val (r, w') -> Inv05 T w'.
Proof.
  intros HI4 HI5 HK H. destruct (insert_citem_shape T check_fn LATEST TK _ _ _ _ _ _ HI4 HK H) as (Hs & Hnr).
  eapply inv05_citem; eauto.
Qed.
Theorem C05_remove_citem h pos w r w' :
  Inv04 w -> Inv05 T w -> Known04 T LATEST w (OpRemoveCItem h pos) = false ->
  e_remove_character_content_item T h pos w = Val (r, w') -> Inv05 T w'.
Proof.
  intros HI4 HI5 HK H. destruct (remove_citem_shape T check_fn LATEST TK _ _ _ _ _ HI4 HK H) as (Hs & Hnr).
  eapply inv05_citem; eauto.
Qed.

(* ---------- helpers for the re-targeting operations *)
Lemma ref_text_node w h n : w_nodes w h = Some n ->
  ref_text T w h = if isref T (n_type n) then match cdata_of T n with Some (DString p) => Some p | _ => None end else None.
Proof. intros Hn. unfold ref_text. rewrite Hn. reflexivity. Qed.

Lemma chars_cdata n v : content_mode T (n_type n) = Val MCharacters -> cdata_of T (set_content n [CData v]) = Some v.
Proof. intros Hm. unfold cdata_of, character_data. cbn. rewrite Hm. reflexivity. Qed.

Lemma modify_origins_world m f w r w' :
  modify_model m (fun x => set_origins x (f (m_origins x))) w = Val (r, w') ->
  exists x, model_at w m = Some x /\
    w' = mkWorld (w_nodes w) (w_next w) (w_files w) (list_set (w_models w) (N.to_nat m) (set_origins x (f (m_origins x)))).
Proof. intros H. apply modify_model_inv in H as (x & Hx & _ & ->). exists x. split; [exact Hx|reflexivity]. Qed.

(* the common frame of the three operations: an OO step on model m and an edit of node h, in either order *)
Section Frame.
Variables (w wa wb : world) (h : id) (n n' : node) (m : N) (x : model) (f : list (list N * list id) -> list (list N * list id)).
Hypothesis Honly : forall m2, MReach T w m2 h -> m2 = m.
Hypothesis Hn : w_nodes w h = Some n.
Hypothesis Hname : n_name n' = n_name n.
Hypothesis Htype : n_type n' = n_type n.
Hypothesis Hkids : elem_ids (n_content n') = elem_ids (n_content n).
Hypothesis Hns : n_name n <> SHORTN.
Hypothesis Hleaf : elem_ids (n_content n) = [].
Hypothesis Hx : model_at w m = Some x.
Hypothesis Hm : MReach T w m h.
(* the final world: nodes of w with h := n', models of w with the origins of m := f (origins) *)
Hypothesis Hnodes : forall j, w_nodes wb j = if j =? h then Some n' else w_nodes w j.
Hypothesis Hmodels : w_models wb = list_set (w_models w) (N.to_nat m) (set_origins x (f (m_origins x))).

Lemma frame_edit_eq : forall j, w_nodes wb j = w_nodes (edit_world w h n') j.
Proof. intros j. rewrite Hnodes. cbn. unfold upd. reflexivity. Qed.

Lemma frame_reach m2 i : MReach T wb m2 i <-> MReach T w m2 i.
Proof.
  assert (Hhead : named T (n_type n) = true ->
     hd_error (n_content n') = hd_error (n_content n)
     \/ (identifiable_n T w n = false /\ identifiable_n T (edit_world w h n') n' = false)).
  { intros _. right. split; apply hd_no_elem_not_identifiable; [exact Hleaf|rewrite Hkids; exact Hleaf]. }
  assert (Hns' : n_name n = SHORTN ->
     (forall j nj, w_nodes w j = Some nj -> hd_error (n_content nj) = Some (CElem h) -> named T (n_type nj) = false) /\
     (forall s, cdata_of T n' = Some (DString s) -> ~ In 47 s)) by (intros E; contradiction).
  rewrite <- (mreach_edit T w h n n' Hn Hname Htype Hkids Hns' Hhead m2 i).
  assert (HIV : IV (edit_world w h n') wb).
  { split.
    - intros j. rewrite frame_edit_eq. reflexivity.
    - rewrite Hmodels. cbn [edit_world w_models]. apply iview_list_set with (x := x); [exact Hx|reflexivity]. }
  split; apply mreach_iv; [apply IV_sym|]; exact HIV.
Qed.
Lemma frame_text j : j <> h -> ref_text T wb j = ref_text T w j.
Proof. intros Hne. unfold ref_text. rewrite Hnodes. apply N.eqb_neq in Hne. rewrite Hne. reflexivity. Qed.
Lemma frame_text_h : ref_text T wb h = if isref T (n_type n) then match cdata_of T n' with Some (DString p) => Some p | _ => None end else None.
Proof. unfold ref_text. rewrite Hnodes, N.eqb_refl, Htype. reflexivity. Qed.
Lemma frame_model : model_at wb m = Some (set_origins x (f (m_origins x))).
Proof. eapply model_at_set_same; eauto. Qed.
Lemma frame_others m2 : m2 <> m -> option_map m_origins (model_at wb m2) = option_map m_origins (model_at w m2).
Proof. intros Hne. rewrite (model_at_set_other _ _ _ _ _ Hmodels Hne). reflexivity. Qed.

Theorem frame_inv05 old_t new_t :
  ref_text T w h = old_t -> ref_text T wb h = new_t ->
  f (m_origins x) = upd_origins h old_t new_t (m_origins x) ->
  Inv05 T w -> Inv05 T wb.
Proof.
  intros Ho Hnw Hf.
  apply (retarget_inv05 T w wb m h x (set_origins x (f (m_origins x))) old_t new_t Honly frame_reach frame_text Ho Hnw Hm Hx
           frame_model Hf frame_others).
Qed.

(* the same frame when the origins do not change and neither does the text of h *)
Theorem frame_inv05_same :
  f (m_origins x) = m_origins x -> ref_text T wb h = ref_text T w h -> Inv05 T w -> Inv05 T wb.
Proof.
  intros Hf Ht. apply inv05_transfer.
  - intros m2 p r. unfold RefSet. rewrite frame_reach. destruct (N.eq_dec r h) as [->|Hne]; [rewrite Ht; tauto|].
    rewrite (frame_text _ Hne). tauto.
  - intros m2. destruct (N.eq_dec m2 m) as [->|Hne]; [|apply frame_others; exact Hne].
    rewrite frame_model, Hx. cbn. rewrite Hf. reflexivity.
Qed.

End Frame.

(* an edit of a node without sub-elements that is not a SHORT-NAME element *)
Lemma leafnode_edit_shape w h n n' :
  w_nodes w h = Some n -> n_name n' = n_name n -> n_type n' = n_type n ->
  chars_content (n_content n') -> elem_ids (n_content n) = [] -> n_name n <> SHORTN ->
  edit_shape T w h (edit_world w h n').
Proof.
  intros Hn H1 H2 Hc H4 H5. pose proof (chars_content_elems _ Hc) as H3.
  right. exists n, n'. split; [exact Hn|]. split; [exact H1|]. split; [exact H2|].
  split; [congruence|]. split; [intros _; exact Hc|]. split; [intros E; contradiction|]. split; [|reflexivity].
  intros _. right. split; apply hd_no_elem_not_identifiable; assumption.
Qed.

Lemma edit_world_nodes w h n' j : w_nodes (edit_world w h n') j = if j =? h then Some n' else w_nodes w j.
Proof. reflexivity. Qed.

(* ---------- remove_character_data *)
Theorem C05_remove_cdata h w r w' :
  TreeFacts w -> Inv04 w -> Inv05 T w -> e_remove_character_data T h w = Val (r, w') -> Inv05 T w'.
Proof.
  intros HF HI4 HI5 H. unfold e_remove_character_data in H.
  wnode H n Hn. wval H mode Hmode.
  destruct (mode =? MCharacters) eqn:Em; cbn [negb] in H; [|winv H; exact HI5]. apply N.eqb_eq in Em. subst mode.
  destruct (n_name n =? SHORT T) eqn:Es; [winv H; exact HI5|]. apply N.eqb_neq in Es.
  wval H cd Hcd. destruct cd as [d|]; [|winv H; exact HI5].
  wval H isr Hisr.
  assert (Hleaf : elem_ids (n_content n) = []) by (apply chars_content_elems; eapply (i4_leaf _ _ _ HI4); eauto).
  set (n' := set_content n []) in *.
  assert (Hplain : forall ww, Inv05 T ww -> w_nodes ww h = Some n -> ref_text T ww h = None -> Inv05 T (edit_world ww h n')).
  { intros ww HIw Hnw Htw. eapply inv05_edit_shape; [exact HIw|apply (leafnode_edit_shape ww h n n'); auto; left; reflexivity|].
    rewrite Htw. unfold ref_text. cbn. rewrite upd_eq. cbn. unfold cdata_of, character_data. cbn.
    destruct (isref T (n_type n)); reflexivity. }
  destruct isr.
  2:{ wbind_w H u w0 E0; [|winv E0]. winv E0. apply modify_node_inv in H as (n1 & Hn1 & _ & ->).
      rewrite Hn in Hn1. injection Hn1 as <-. apply Hplain; auto.
      rewrite (ref_text_node _ _ _ Hn), (isref_val _ _ _ Hisr). reflexivity. }
  destruct d as [e|r0|u0|f0].
  1,3,4: (wbind_w H u w0 E0; [|wbind_ro E0 m0 Em0; [winv E0|exact HI5]]; wbind_ro E0 m0 Em0; winv E0;
          apply modify_node_inv in H as (n1 & Hn1 & _ & ->); rewrite Hn in Hn1; injection Hn1 as <-; apply Hplain; auto;
          rewrite (ref_text_node _ _ _ Hn), (cdata_of_val _ _ _ Hcd); destruct (isref T (n_type n)); reflexivity).
  (* a reference with string text r0 *)
  wbind_w H u w0 E0.
  2:{ wbind_ro E0 m0 Em0; [|exact HI5]. apply modify_model_inv in E0 as (x & _ & Hd & _). discriminate Hd. }
  wbind_ro E0 m Em0.
  change (remove_reference_origin m r0 h w) with
    (modify_model m (fun x => set_origins x (remove_origin r0 h (m_origins x))) w) in E0.
  apply modify_origins_world in E0 as (x & Hx & ->).
  apply modify_node_inv in H as (n1 & Hn1 & _ & ->). cbn in Hn1. rewrite Hn in Hn1. injection Hn1 as <-.
  assert (Hreach : MReach T w m h) by (eapply model_of_mreach; eauto).
  eapply (frame_inv05 w _ h n n' m x (remove_origin r0 h) (only_model T w m h HF Hreach) Hn) with (old_t := Some r0) (new_t := None); eauto.
  - rewrite (ref_text_node _ _ _ Hn), (isref_val _ _ _ Hisr), (cdata_of_val _ _ _ Hcd). reflexivity.
  - unfold ref_text. cbn. rewrite upd_eq. cbn. unfold cdata_of, character_data. cbn. destruct (isref T (n_type n)); reflexivity.
Qed.

(* ---------- worlds with the same element structure, reference texts and reference_origins *)
Lemma reach_child_ext w w' a i :
  (forall p c, child_of w p c -> child_of w' p c) -> reach T w a i -> reach T w' a i.
Proof.
  intros Hc (q & Hd). induction Hd as [|p c q Hp IH Hpc]; [apply reach_refl|].
  eapply reach_step; [exact IH|apply Hc; exact Hpc].
Qed.

Definition rview (x : model) := (m_root x, m_origins x).

Lemma inv05_same_refs w w' :
  (forall p c, child_of w' p c <-> child_of w p c) ->
  (forall j, ref_text T w' j = ref_text T w j) ->
  map rview (w_models w') = map rview (w_models w) ->
  Inv05 T w -> Inv05 T w'.
Proof.
  intros Hc Ht Hm.
  assert (Hmod : forall m, option_map rview (model_at w' m) = option_map rview (model_at w m)).
  { intros m. unfold model_at. rewrite <- !nth_opt_map, Hm. reflexivity. }
  apply inv05_transfer.
  - intros m p r. unfold RefSet, MReach. rewrite Ht. specialize (Hmod m).
    split; intros ((x & Hx & Hr) & Htx); (split; [|exact Htx]).
    + rewrite Hx in Hmod. destruct (model_at w m) as [y|]; [|discriminate]. cbn in Hmod. injection Hmod as Hroot _.
      exists y. split; [reflexivity|]. rewrite <- Hroot. eapply reach_child_ext; [|exact Hr]. intros p0 c0. apply Hc.
    + rewrite Hx in Hmod. destruct (model_at w' m) as [y|]; [|discriminate]. cbn in Hmod. injection Hmod as Hroot _.
      exists y. split; [reflexivity|]. rewrite Hroot. eapply reach_child_ext; [|exact Hr]. intros p0 c0. apply Hc.
  - intros m. specialize (Hmod m). destruct (model_at w' m), (model_at w m); cbn in *; try discriminate; [|reflexivity].
    injection Hmod as _ Ho. rewrite Ho. reflexivity.
Qed.

(* computations that keep nodes and (root, origins) of every model: the path-index maintenance *)
Definition RO (w w' : world) : Prop :=
  w_nodes w' = w_nodes w /\ map rview (w_models w') = map rview (w_models w).
Lemma RO_refl w : RO w w. Proof. split; reflexivity. Qed.
Lemma RO_trans a b c : RO a b -> RO b c -> RO a c.
Proof. intros (A1 & A2) (B1 & B2). split; congruence. Qed.
Notation pro := (pres RO).
Lemma pro_ro {A} (m : W A) : ro m -> pro m. Proof. apply pres_ro. apply RO_refl. Qed.
Lemma pro_bind {A B} (m : W A) (k : A -> W B) : pro m -> (forall a, pro (k a)) -> pro (wbind m k).
Proof. apply pres_bind. apply RO_trans. Qed.
Lemma pro_modify_model m f : (forall x, rview (f x) = rview x) -> pro (modify_model m f).
Proof.
  intros Hf w r w' H. apply modify_model_inv in H as (x & Hx & _ & ->). split; [reflexivity|]. cbn.
  apply list_set_map_same. intros y Hy. rewrite Hx in Hy. injection Hy as <-. apply Hf.
Qed.
Ltac ro_step' :=
  first
  [ solve [apply pro_ro; ro_tac]
  | apply pro_modify_model; intros ?; reflexivity
  | apply pro_bind; [|intros ?]
  | match goal with
    | |- pres _ (match ?x with _ => _ end) => destruct x
    | |- pres _ (if ?b then _ else _) => destruct b
    end ].

Lemma pro_fix_identifiables m a b : pro (fix_identifiables m a b).
Proof. unfold fix_identifiables. repeat ro_step'. Qed.

(* ---------- set_character_data (every case) *)
Theorem C05_set_cdata h val0 w r w' :
  TreeFacts w -> Inv04 w -> Inv05 T w ->
  e_set_character_data T tab_en check_fn LATEST h val0 w = Val (r, w') -> Inv05 T w'.
Proof.
  intros HF HI4 HI5 H. unfold e_set_character_data in H.
  wnode H n Hn. wval H mode Hmode.
  match type of H with (if negb ?c then _ else _) _ = _ => destruct c eqn:Emode end; cbn [negb] in H; [|winv H; exact HI5].
  assert (Hleaf : elem_ids (n_content n) = []).
  { apply orb_true_iff in Emode as [Em|Em].
    - apply N.eqb_eq in Em. subst mode. apply chars_content_elems; eapply (i4_leaf _ _ _ HI4); eauto.
    - apply andb_true_iff in Em as (_ & Em). apply negb_true_iff in Em. apply no_elem_ids. exact Em. }
  wval H spec Hspec. destruct spec as [cs|]; [|winv H; exact HI5].
  wbind_ro H m Em; [|exact HI5]. wbind_ro H ver Ever; [|exact HI5]. wval H ok0 Hok0.
  wbind_ro H vok Evok.
  2:{ exfalso. destruct (negb ok0 && _); [|winv Evok]. wval Evok s0 Hs0. wval Evok ok1 Hok1. winv Evok. }
  assert (Hchk : snd vok = true -> check_value check_fn (fst vok) cs ver = Val true).
  { destruct (negb ok0 && _).
    - wval Evok s0 Hs0. wval Evok ok1 Hok1. winv Evok. cbn. intros ->. exact Hok1.
    - winv Evok. cbn. intros ->. exact Hok0. }
  clear Evok. destruct vok as [v ok]. cbn [fst snd] in Hchk. destruct ok; cbn [negb] in H; [|winv H; exact HI5].
  specialize (Hchk eq_refl).
  wval H cd0 Hcd0.
  wbind_ro H prev Eprev; [|exact HI5].
  wval H isr Hisr.
  set (n' := set_content n [CData v]) in *.
  wbind_w H u w1 E1. 2:{ apply set_node_inv in E1 as ([=] & _). }
  apply set_node_inv in E1 as (_ & ->). fold (edit_world w h n') in H.
  destruct isr.
  - (* a reference element: never a SHORT-NAME, so there is no re-keying *)
    assert (Hns : n_name n <> SHORTN).
    { intros Hs. destruct (i4_short _ _ _ HI4 _ _ Hn Hs) as (_ & Hr & _). congruence. }
    assert (Hprev : prev = None).
    { unfold SHORT in Eprev. apply N.eqb_neq in Hns. rewrite Hns in Eprev. cbn [andb] in Eprev. winv Eprev. reflexivity. }
    subst prev. wbind_w H u2 w2 E2; [|winv E2]. winv E2.
    destruct (tk_refspec _ _ TK _ _ _ _ Hisr Hspec Hchk) as (refval & ->).
    assert (Hmc : content_mode T (n_type n) = Val MCharacters) by (apply (tk_ref _ _ TK); exact Hisr).
    assert (Hnew : forall ww, w_nodes ww h = Some n' -> ref_text T ww h = Some refval).
    { intros ww Hw. rewrite (ref_text_node _ _ _ Hw). unfold n'. rewrite (chars_cdata n (DString refval) Hmc).
      cbn [set_content n_type]. rewrite (isref_val _ _ _ Hisr). reflexivity. }
    assert (Hold : ref_text T w h = match cd0 with Some (DString s) => Some s | _ => None end).
    { rewrite (ref_text_node _ _ _ Hn), (isref_val _ _ _ Hisr), (cdata_of_val _ _ _ Hcd0). reflexivity. }
    assert (Hreach : MReach T w m h) by (eapply model_of_mreach; eauto).
    destruct (mreach_alloc T _ _ _ HF Hreach) as (_ & _).
    assert (Hkids : elem_ids (n_content n') = elem_ids (n_content n)) by (rewrite Hleaf; reflexivity).
    destruct (match cd0 with Some (DString s) => Some s | _ => None end) as [o|] eqn:Eo.
    + unfold fix_reference_origins in H. destruct (bytes_eqb o refval) eqn:Eb.
      * winv H. apply bytes_eqb_spec in Eb. subst o.
        eapply inv05_edit_shape; [exact HI5|apply (leafnode_edit_shape w h n n'); auto; right; eexists; reflexivity|].
        rewrite Hold. apply Hnew. cbn. apply upd_eq.
      * apply modify_model_inv in H as (x & Hx & _ & ->). cbn [edit_world w_models] in Hx. fold (model_at w m) in Hx.
        pose proof (i5_tidy _ _ HI5 m x Hx) as Htidy.
        eapply (frame_inv05 w _ h n n' m x
                  (fun l => let o1 := match assoc_get o l with
                                      | Some lst => match index_of (N.eqb h) lst with
                                                    | Some k => let l' := swap_remove_at lst k in
                                                                if is_empty l' then assoc_remove o l else assoc_insert o l' l
                                                    | None => l end
                                      | None => l end in
                            match assoc_get refval o1 with
                            | Some lst => assoc_insert refval (lst ++ [h]) o1
                            | None => o1 ++ [(refval, [h])]
                            end) (only_model T w m h HF Hreach) Hn) with (old_t := Some o) (new_t := Some refval); eauto.
        -- apply Hnew. cbn. apply upd_eq.
        -- apply (fix_origins_eq o refval h (m_origins x) Htidy).
    + apply modify_model_inv in H as (x & Hx & _ & ->). cbn [edit_world w_models] in Hx. fold (model_at w m) in Hx.
      eapply (frame_inv05 w _ h n n' m x (add_origin refval h) (only_model T w m h HF Hreach) Hn) with (old_t := None) (new_t := Some refval); eauto.
      apply Hnew. cbn. apply upd_eq.
  - (* not a reference: the reference text of h is None before and after, reference_origins is not touched *)
    assert (Hgen : forall w2, RO (edit_world w h n') w2 -> Inv05 T w2).
    { intros w2 (Hro1 & Hro2). apply (inv05_same_refs w w2); [| |exact Hro2|exact HI5].
      - intros p c. unfold child_of. rewrite Hro1. cbn. unfold upd. destruct (p =? h) eqn:Ep; [|tauto].
        apply N.eqb_eq in Ep. subst p. rewrite Hn. split; intros (y & [= <-] & Hc); exfalso.
        + cbn in Hc. destruct Hc as [Hc|[]]; discriminate.
        + apply in_elem_ids in Hc. rewrite Hleaf in Hc. destruct Hc.
      - intros j. unfold ref_text. rewrite Hro1. cbn. unfold upd. destruct (j =? h) eqn:Ej; [|reflexivity].
        apply N.eqb_eq in Ej. subst j. rewrite Hn. cbn [n' set_content n_type]. rewrite (isref_val _ _ _ Hisr). reflexivity. }
    apply Hgen. revert H.
    match goal with |- ?c _ = _ -> _ => assert (Hp : pro c) by (repeat ro_step'; apply pro_fix_identifiables) end.
    apply Hp.
Qed.

(* ---------- set_reference_target *)
Lemma ids_eqb_eq a b : ids_eqb a b = true -> a = b.
Proof.
  revert b. induction a as [|x a IH]; intros [|y b]; cbn; try discriminate; auto.
  intros H. apply andb_true_iff in H as (H1 & H2). apply N.eqb_eq in H1. subst. f_equal. auto.
Qed.
Lemma origins_eqb_eq a b : origins_eqb a b = true -> a = b.
Proof.
  revert b. induction a as [|[k l] a IH]; intros [|[k2 l2] b]; cbn; try discriminate; auto.
  intros H. apply andb_true_iff in H as (H12 & H3). apply andb_true_iff in H12 as (H1 & H2).
  apply bytes_eqb_spec in H1. apply ids_eqb_eq in H2. subst. f_equal. auto.
Qed.
Lemma all_origins_eqb_eq a b : all_origins_eqb a b = true -> map m_origins a = map m_origins b.
Proof.
  revert b. induction a as [|x a IH]; intros [|y b]; cbn; try discriminate; auto.
  intros H. apply andb_true_iff in H as (H1 & H2). apply origins_eqb_eq in H1. rewrite H1. f_equal. auto.
Qed.

Notation Known05 := (Known05 T tab_el tab_en check_fn LATEST root_attrs).

Lemma SV_mreach w w' m i : SV w w' -> (MReach T w' m i <-> MReach T w m i).
Proof. intros H. apply SV_IV in H. split; apply mreach_iv; [apply IV_sym|]; exact H. Qed.

Theorem C05_set_reference_target h target w r w' :
  TreeFacts w -> Inv04 w -> Inv05 T w -> Known05 w (OpSetRefTarget h target) = false ->
  e_set_reference_target T tab_el tab_en check_fn LATEST h target w = Val (r, w') -> Inv05 T w'.
Proof.
  intros HF HI4 HI5 HK H. pose proof H as H0. unfold e_set_reference_target in H.
  wnode H n Hn. wval H isr Hisr. destruct isr; cbn [negb] in H; [|winv H; exact HI5].
  wbind_ro H new_ref Enr; [|exact HI5]. wnode H tn Htn. wval H txt Htxt.
  wbind_ro H item Eitem.
  2:{ destruct (from_bytes tab_en txt); winv Eitem. }
  destruct item as [enum_item|]; [|winv H; exact HI5].
  wbind_ro H m Em; [|exact HI5]. wbind_ro H ver Ever; [|exact HI5].
  wbind_w H ra w1 Ea. 2:{ apply wtry_inv in Ea as (? & _ & [=]). }
  apply wtry_inv in Ea as (r0 & Ea & Hra). injection Hra as ->. apply raw_set_attribute_sv in Ea.
  assert (HI51 : Inv05 T w1) by (eapply Inv05_sv; eauto).
  assert (HI41 : Inv04 w1) by (eapply Inv04_iv; [apply SV_IV; exact Ea|exact HI4]).
  destruct r0 as [u|e]; [|winv H; exact HI51].
  wnode H n2 Hn2. wval H cd Hcd.
  assert (Hreach : MReach T w m h) by (eapply model_of_mreach; eauto).
  assert (Hreach1 : MReach T w1 m h) by (apply (SV_mreach _ _ _ _ Ea); exact Hreach).
  assert (Honly1 : forall m2, MReach T w1 m2 h -> m2 = m).
  { intros m2 H2. apply (SV_mreach _ _ _ _ Ea) in H2. eapply only_model; eauto. }
  assert (Hty : n_type n2 = n_type n /\ n_name n2 = n_name n).
  { destruct Ea as (Hnv & _). specialize (Hnv h). rewrite Hn, Hn2 in Hnv. cbn in Hnv. unfold tview in Hnv. split; congruence. }
  destruct Hty as (Hty & Hnm).
  assert (Hisr2 : is_ref T (n_type n2) = Val true) by (rewrite Hty; exact Hisr).
  assert (Hmode : content_mode T (n_type n2) = Val MCharacters) by (apply (tk_ref _ _ TK); exact Hisr2).
  assert (Hns : n_name n2 <> SHORTN).
  { intros Hs. destruct (i4_short _ _ _ HI41 _ _ Hn2 Hs) as (_ & Hr & _). congruence. }
  assert (Hleaf : elem_ids (n_content n2) = []) by (apply chars_content_elems; eapply (i4_leaf _ _ _ HI41); eauto).
  set (old_t := match cd with Some (DString o) => Some o | _ => None end).
  assert (Hold : ref_text T w1 h = old_t).
  { rewrite (ref_text_node _ _ _ Hn2), (isref_val _ _ _ Hisr2), (cdata_of_val _ _ _ Hcd). reflexivity. }
  (* the reference_origins step *)
  wbind_w H u2 w2 Eo.
  2:{ (* it cannot fail with an error *)
      destruct cd as [[| o | |]|]; try (apply modify_model_inv in Eo as (? & _ & Hd & _); discriminate Hd).
      unfold fix_reference_origins in Eo. destruct (bytes_eqb o new_ref); [winv Eo|].
      apply modify_model_inv in Eo as (? & _ & Hd & _). discriminate Hd. }
  assert (Hoo : OO w1 w2).
  { destruct cd as [[| o | |]|];
      first [eapply poo_fix_reference_origins; exact Eo | eapply poo_add_reference_origin; exact Eo]. }
  assert (Hn2' : w_nodes w2 h = Some n2) by (rewrite (OO_node _ _ _ Hoo); exact Hn2).
  (* the text write *)
  unfold raw_set_character_data in H.
  wnode H n3 Hn3. rewrite Hn2' in Hn3. injection Hn3 as <-.
  wval H mode Hm. rewrite Hmode in Hm. injection Hm as <-. change (MCharacters =? MCharacters) with true in H. cbn [orb] in H.
  assert (Hfail : r = ER IncorrectContentType -> w' = w2 -> Inv05 T w').
  { (* the finding class K05-setref is excluded: the maps are as before *)
    intros -> ->. unfold Refs.Known05 in HK. cbn [run_op] in HK. unfold wunit, wbind in HK. rewrite H0 in HK.
    apply negb_false_iff in HK. apply all_origins_eqb_eq in HK.
    apply (inv05_transfer T w w2); [| |exact HI5].
    - intros m2 p0 r0. unfold RefSet. rewrite (OO_mreach _ _ _ _ Hoo), (SV_mreach _ _ _ _ Ea).
      rewrite (OO_ref_text _ _ _ Hoo), (ref_text_sv T _ _ _ (proj1 Ea)). tauto.
    - intros m2. unfold model_at. rewrite <- !nth_opt_map, HK. reflexivity. }
  wval H spec Hspec. destruct spec as [cs|]; [|winv H; apply Hfail; reflexivity].
  wval H ok Hok. destruct ok; [|winv H; apply Hfail; reflexivity].
  apply set_node_inv in H as (_ & ->). clear Hfail.
  set (n' := set_content n2 [CData (DString new_ref)]).
  assert (Hn'eq : set_content n2 (match n_content n2 with [] => [CData (DString new_ref)] | _ :: r1 => CData (DString new_ref) :: r1 end) = n').
  { unfold n'. destruct (i4_leaf _ _ _ HI41 _ _ Hn2 Hmode) as [->|(d0 & ->)]; reflexivity. }
  rewrite Hn'eq.
  assert (Hkids : elem_ids (n_content n') = elem_ids (n_content n2)) by (rewrite Hleaf; reflexivity).
  destruct Hreach1 as (x & Hx & Hrx).
  assert (Hreach1 : MReach T w1 m h) by (exists x; auto).
  assert (Hnewt : forall ww, w_nodes ww h = Some n' -> ref_text T ww h = Some new_ref).
  { intros ww Hw. rewrite (ref_text_node _ _ _ Hw). unfold n'. rewrite (chars_cdata n2 (DString new_ref) Hmode).
    cbn [set_content n_type]. rewrite (isref_val _ _ _ Hisr2). reflexivity. }
  (* the shape of the origins step *)
  destruct cd as [[| o | |]|];
    try (apply modify_model_inv in Eo as (x2 & Hx2 & _ & ->); fold (model_at w1 m) in Hx2; rewrite Hx in Hx2; injection Hx2 as <-;
         eapply (frame_inv05 w1 _ h n2 n' m x (add_origin new_ref h) Honly1 Hn2) with (old_t := None) (new_t := Some new_ref); eauto;
         apply Hnewt; cbn; apply upd_eq).
  unfold fix_reference_origins in Eo. destruct (bytes_eqb o new_ref) eqn:Eb.
  - winv Eo. apply bytes_eqb_spec in Eb. subst o.
    eapply inv05_edit_shape; [exact HI51|apply (leafnode_edit_shape w1 h n2 n'); auto; right; eexists; reflexivity|].
    rewrite Hold. apply Hnewt. cbn. apply upd_eq.
  - apply modify_model_inv in Eo as (x2 & Hx2 & _ & ->). fold (model_at w1 m) in Hx2. rewrite Hx in Hx2. injection Hx2 as <-.
    pose proof (i5_tidy _ _ HI51 m x Hx) as Htidy.
    eapply (frame_inv05 w1 _ h n2 n' m x
              (fun l => let o1 := match assoc_get o l with
                                  | Some lst => match index_of (N.eqb h) lst with
                                                | Some k => let l' := swap_remove_at lst k in
                                                            if is_empty l' then assoc_remove o l else assoc_insert o l' l
                                                | None => l end
                                  | None => l end in
                        match assoc_get new_ref o1 with
                        | Some lst => assoc_insert new_ref (lst ++ [h]) o1
                        | None => o1 ++ [(new_ref, [h])]
                        end) Honly1 Hn2) with (old_t := Some o) (new_t := Some new_ref); eauto.
    + apply Hnewt. cbn. apply upd_eq.
    + apply (fix_origins_eq o new_ref h (m_origins x) Htidy).
Qed.

End REdit.
