(* Tree/IndexProofsSort.v — C04/C05: Element::sort / AutosarModel::sort keep TreeFacts /\ Inv04 /\ Inv05.
   agent-c14 (Tree/SortProofsHeap.v, SortProofsNames.v) proves that a sort relates the worlds by `kept`: models, files and the
   allocation counter are untouched, every node keeps parent / name / type / attributes / files / comment, its content list is
   unchanged or - for a type that is neither Characters nor Mixed - a permutation of its element items, and a named element
   keeps its SHORT-NAME child in front (given NameFirst: a SHORT-NAME child of a named element is its first and only one).
   The specification side of both invariants only reads: the parent links, the SET of element children, the first content item
   of named elements, and the character data - all of which are the same in the two worlds. *)
From Coq Require Import Lia PeanoNat Permutation.
From AV Require Import Base.Bytes Base.Outcome Hash.HashModel Spec.SpecOps Tree.Heap Tree.Ops Tree.Script Tree.IndexProofsW
  Tree.Index Tree.IndexProofsBase Tree.IndexProofsAssoc Tree.IndexProofsFrame Tree.IndexProofsAttach Tree.IndexProofsTree
  Tree.Refs Tree.RefsProofsBase Tree.RefsProofs Tree.RefsProofsSetName Tree.Sort Tree.SortProofsHeap Tree.SortProofsNames
  Tree.IndexProofsRemove Tree.IndexProofsRemoveOp.
Open Scope string_scope.
Open Scope list_scope.
Open Scope N_scope.

Section SortX.
Variable T : tables.
Variable check_fn : N -> list N -> res bool.
Notation Inv04 := (Inv04 T check_fn).
Notation SHORTN := (name_short_name T).
Notation J5 := (J5 T check_fn).

Variables (w w' : world).
Hypothesis HJ : J5 w.
Hypothesis HK : kept T w w'.
Hypothesis NF : NameFirst T w.

Lemma sx_next : w_next w' = w_next w.
Proof. destruct HK as ((A & _) & _). exact A. Qed.
Lemma sx_models : w_models w' = w_models w.
Proof. destruct HK as ((_ & _ & A & _) & _). exact A. Qed.
Lemma sx_model_at m : model_at w' m = model_at w m.
Proof. unfold model_at. rewrite sx_models. reflexivity. Qed.

Lemma sx_fwd j n : w_nodes w j = Some n -> exists n', w_nodes w' j = Some n' /\ node_rel T n n'.
Proof.
  intros Hj. destruct HK as ((_ & _ & _ & nodes) & _). specialize (nodes j). rewrite Hj in nodes.
  destruct (w_nodes w' j) as [n'|]; [eauto|destruct nodes].
Qed.
Lemma sx_bwd j n' : w_nodes w' j = Some n' -> exists n, w_nodes w j = Some n /\ node_rel T n n'.
Proof.
  intros Hj. destruct HK as ((_ & _ & _ & nodes) & _). specialize (nodes j). rewrite Hj in nodes.
  destruct (w_nodes w j) as [n|]; [eauto|destruct nodes].
Qed.

Lemma rel_elem n n' c : node_rel T n n' -> (In (CElem c) (n_content n') <-> In (CElem c) (n_content n)).
Proof.
  intros [_ [e | [_ p]]]; [rewrite e; tauto|]. split; intros i.
  - eapply Permutation_in in i; [| apply Permutation_sym; exact p]. apply in_map_iff in i as (c' & [= ->] & i). apply in_celems. exact i.
  - eapply Permutation_in; [exact p|]. apply in_map_iff. exists c. split; [reflexivity|]. apply in_celems. exact i.
Qed.
Lemma celems_elem_ids l : celems l = elem_ids l.
Proof. reflexivity. Qed.
Lemma rel_nodup n n' : node_rel T n n' -> NoDup (elem_ids (n_content n)) -> NoDup (elem_ids (n_content n')).
Proof.
  intros [_ [e | [_ p]]] H; [rewrite e; exact H|]. apply celems_perm in p. rewrite celems_map in p.
  rewrite <- celems_elem_ids in *. eapply Permutation_NoDup; eauto.
Qed.
(* character data: a permuted list belongs to a type without character data *)
Lemma rel_cdata n n' : node_rel T n n' -> cdata_of T n' = cdata_of T n.
Proof.
  intros [(_ & _ & ety & _) [e | [(m & Hm & Hc & _) p]]]; unfold cdata_of, character_data; rewrite ety; [rewrite e; reflexivity|].
  rewrite Hm. cbn [bind]. rewrite Hc. destruct (n_content n') as [|[x|d] [|? ?]]; destruct (n_content n) as [|[y|d2] [|? ?]]; reflexivity.
Qed.
Lemma rel_chars n n' : node_rel T n n' -> content_mode T (n_type n) = Val MCharacters -> n_content n' = n_content n.
Proof.
  intros [_ [e | [(m & Hm & Hc & _) _]]] Hmode; [exact e|]. rewrite Hmode in Hm. injection Hm as <-. cbn in Hc. discriminate.
Qed.
Lemma rel_eq n n' : node_rel T n n' -> n_content n' = n_content n -> n' = n.
Proof. intros [(A & B & C & D & E & F) _] G. destruct n, n'. cbn in *. congruence. Qed.

Lemma sx_child p c : child_of w' p c <-> child_of w p c.
Proof.
  unfold child_of. split.
  - intros (n' & Hp & Hc). destruct (sx_bwd p n' Hp) as (n & Hn & R). exists n. split; [exact Hn|]. apply (rel_elem n n' c R). exact Hc.
  - intros (n & Hp & Hc). destruct (sx_fwd p n Hp) as (n' & Hn' & R). exists n'. split; [exact Hn'|]. apply (rel_elem n n' c R). exact Hc.
Qed.

(* a SHORT-NAME node is the same record in both worlds *)
Lemma sx_short_node c sn : w_nodes w c = Some sn -> n_name sn = SHORTN -> w_nodes w' c = Some sn.
Proof.
  intros Hc Hs. destruct HJ as (_ & H4 & _). destruct (i4_short _ _ _ H4 _ _ Hc Hs) as (Hm & _).
  destruct (sx_fwd c sn Hc) as (sn' & Hc' & R). rewrite Hc'. f_equal. apply (rel_eq sn sn' R). apply (rel_chars sn sn' R Hm).
Qed.
Lemma named_named_ty ty : named T ty = true -> named_ty T ty.
Proof.
  unfold named, is_named, named_ty. destruct (short_name_version_mask T (snd ty)) as [[m|]| |]; cbn; try discriminate. eauto.
Qed.

Lemma sx_readings j n n' : w_nodes w j = Some n -> w_nodes w' j = Some n' ->
  item_name_n T w' n' = item_name_n T w n /\ identifiable_n T w' n' = identifiable_n T w n /\ seg_n T w' n' = seg_n T w n.
Proof.
  intros Hj Hj'. destruct (sx_fwd j n Hj) as (n2 & Hj2 & R). rewrite Hj' in Hj2. injection Hj2 as <-.
  assert (Ety : n_type n' = n_type n) by apply R.
  assert (Hsc : named T (n_type n) = true -> short_child T w' n' = short_child T w n).
  { intros Hnm. pose proof (named_named_ty _ Hnm) as Hnt. destruct (short_child T w n) as [sn|] eqn:Es.
    - unfold short_child in Es. destruct (n_content n) as [|[c|d] rest] eqn:Ec; try discriminate Es.
      destruct (w_nodes w c) as [sn0|] eqn:Hc; [|discriminate Es]. destruct (n_name sn0 =? SHORTN) eqn:En; [|discriminate Es].
      injection Es as ->. apply N.eqb_eq in En.
      destruct (proj2 HK j n n' c rest Hj Hj' Hnt Ec (ex_intro _ sn (conj Hc En))) as (rest' & Ec').
      unfold short_child. rewrite Ec', (sx_short_node c sn Hc En), En, N.eqb_refl. reflexivity.
    - destruct (short_child T w' n') as [sn'|] eqn:Es'; [|reflexivity]. exfalso.
      unfold short_child in Es'. destruct (n_content n') as [|[c|d] rest'] eqn:Ec'; try discriminate Es'.
      destruct (w_nodes w' c) as [sn0|] eqn:Hc'; [|discriminate Es']. destruct (n_name sn0 =? SHORTN) eqn:En; [|discriminate Es'].
      apply N.eqb_eq in En. destruct (sx_bwd c sn0 Hc') as (sn1 & Hc & R1).
      assert (En1 : n_name sn1 = SHORTN) by (destruct R1 as ((_ & A & _) & _); congruence).
      assert (Hin : In (CElem c) (n_content n)) by (apply (rel_elem n n' c R); rewrite Ec'; left; reflexivity).
      destruct (NF j n c Hj Hnt Hin (ex_intro _ sn1 (conj Hc En1))) as (rest & Ec & _).
      unfold short_child in Es. rewrite Ec, Hc, En1, N.eqb_refl in Es. discriminate Es. }
  unfold seg_n, item_name_n, identifiable_n. rewrite Ety. destruct (named T (n_type n)) eqn:Hnm; [rewrite (Hsc eq_refl); auto|auto].
Qed.
Lemma sx_seg j : seg T w' j = seg T w j.
Proof.
  unfold seg. destruct (w_nodes w j) as [n|] eqn:Hj.
  - destruct (sx_fwd j n Hj) as (n' & Hj' & _). rewrite Hj'. apply (sx_readings j n n' Hj Hj').
  - destruct (w_nodes w' j) as [n'|] eqn:Hj'; [|reflexivity]. destruct (sx_bwd j n' Hj') as (n & Hn & _). congruence.
Qed.
Lemma sx_identifiable j : identifiable T w' j = identifiable T w j.
Proof.
  unfold identifiable. destruct (w_nodes w j) as [n|] eqn:Hj.
  - destruct (sx_fwd j n Hj) as (n' & Hj' & _). rewrite Hj'. apply (sx_readings j n n' Hj Hj').
  - destruct (w_nodes w' j) as [n'|] eqn:Hj'; [|reflexivity]. destruct (sx_bwd j n' Hj') as (n & Hn & _). congruence.
Qed.
Lemma sx_ref_text j : ref_text T w' j = ref_text T w j.
Proof.
  unfold ref_text. destruct (w_nodes w j) as [n|] eqn:Hj.
  - destruct (sx_fwd j n Hj) as (n' & Hj' & R). rewrite Hj'. assert (Ety : n_type n' = n_type n) by apply R.
    rewrite Ety, (rel_cdata n n' R). reflexivity.
  - destruct (w_nodes w' j) as [n'|] eqn:Hj'; [|reflexivity]. destruct (sx_bwd j n' Hj') as (n & Hn & _). congruence.
Qed.
Lemma sx_dpath a i q : dpath T w' a i q <-> dpath T w a i q.
Proof.
  split; intros H; induction H as [|p c q Hp IH Hc]; try constructor.
  - rewrite sx_seg. econstructor; [exact IH|]. apply sx_child. exact Hc.
  - rewrite <- sx_seg. econstructor; [exact IH|]. apply sx_child. exact Hc.
Qed.
Lemma sx_mreach m i : MReach T w' m i <-> MReach T w m i.
Proof.
  unfold MReach, reach. rewrite sx_model_at.
  split; intros (x & Hx & (q & Hd)); exists x; (split; [exact Hx|]); exists q; apply sx_dpath; exact Hd.
Qed.
Lemma sx_pathset m p i : PathSet T w' m p i <-> PathSet T w m p i.
Proof.
  unfold PathSet. rewrite sx_mreach, sx_identifiable. unfold SpecPath, spath. rewrite sx_model_at.
  split; intros (H1 & H2 & (x & Hx & (q & Hd & ->))); (split; [exact H1|]); (split; [exact H2|]); exists x; (split; [exact Hx|]); exists q;
    (split; [apply sx_dpath; exact Hd|]); rewrite sx_seg; reflexivity.
Qed.

Theorem sort_j5 : J5 w'.
Proof.
  destruct HJ as (HF & H4 & H5). pose proof H4 as [I1 I2 I3 IL I4 I5]. split; [|split].
  - constructor.
    + intros p c Hc. apply sx_child in Hc. destruct (tf_up _ HF _ _ Hc) as (cn & Hcn & Hp).
      destruct (sx_fwd c cn Hcn) as (cn' & Hcn' & ((A & _) & _)). exists cn'. split; [exact Hcn'|congruence].
    + intros p np' Hp. destruct (sx_bwd p np' Hp) as (np & Hp0 & R). apply (rel_nodup np np' R). eapply tf_nodup; eauto.
    + intros c cn' p Hc Hp. destruct (sx_bwd c cn' Hc) as (cn & Hc0 & ((A & _) & _)). apply sx_child. eapply tf_down; eauto. congruence.
    + intros m x Hx. rewrite sx_model_at in Hx. destruct (tf_roots _ HF _ _ Hx) as (nr & Hnr & Hp).
      destruct (sx_fwd _ nr Hnr) as (nr' & Hnr' & ((A & _) & _)). exists nr'. split; [exact Hnr'|congruence].
    + intros i ni' m Hi Hp. destruct (sx_bwd i ni' Hi) as (ni & Hi0 & ((A & _) & _)). rewrite sx_model_at. apply (tf_pmodel _ HF i ni m Hi0). congruence.
    + intros i ni' Hi. destruct (sx_bwd i ni' Hi) as (ni & Hi0 & _). destruct (tf_depth _ HF _ _ Hi0) as (k & Hk). exists k.
      clear Hi ni' Hi0 ni. induction Hk as [i ni Hi Ht|i ni p k Hi Hp Hd IH].
      * destruct (sx_fwd i ni Hi) as (ni' & Hi' & ((A & _) & _)). eapply pd_top; [exact Hi'|]. rewrite A. exact Ht.
      * destruct (sx_fwd i ni Hi) as (ni' & Hi' & ((A & _) & _)). eapply pd_step; [exact Hi'|rewrite A; exact Hp|exact IH].
    + intros i ni' Hi. destruct (sx_bwd i ni' Hi) as (ni & Hi0 & _). rewrite sx_next. eapply tf_alloc; eauto.
  - constructor.
    + intros j nj' Hj Hs. destruct (sx_bwd j nj' Hj) as (nj & Hj0 & ((_ & A & B & _) & _)). rewrite B. eapply I1; eauto. congruence.
    + intros j nj' t Hj Hs Hcd. destruct (sx_bwd j nj' Hj) as (nj & Hj0 & R). rewrite (rel_cdata nj nj' R) in Hcd.
      destruct R as ((_ & A & _) & _). eapply I2; eauto. congruence.
    + intros j nj' Hj Hid. destruct (sx_bwd j nj' Hj) as (nj & Hj0 & _). destruct (sx_readings j nj nj' Hj0 Hj) as (A & B & _).
      rewrite A. apply (I3 j nj Hj0). rewrite <- B. exact Hid.
    + intros j nj' Hj Hm. destruct (sx_bwd j nj' Hj) as (nj & Hj0 & R). assert (Ety : n_type nj' = n_type nj) by apply R.
      rewrite Ety in Hm. rewrite (rel_chars nj nj' R Hm). eapply IL; eauto.
    + intros m x Hx p i. rewrite sx_model_at in Hx. rewrite sx_pathset. apply (I4 m x Hx).
    + intros m x Hx. rewrite sx_model_at in Hx. apply (I5 m x Hx).
  - eapply inv05_transfer; [| |exact H5].
    + intros m p r. unfold RefSet. rewrite sx_mreach, sx_ref_text. tauto.
    + intros m. rewrite sx_model_at. reflexivity.
Qed.

End SortX.

(* ---------- agent-c14's hypothesis NameFirst is the absence of late SHORT-NAME elements (Index.late_short, NoLate) *)
Lemma nolate_namefirst T w : NoLate T w -> NameFirst T w.
Proof.
  intros HNL i n c Hi (m & Hm) Hin (cn & Hc & Hcn).
  assert (Hnamed : named T (n_type n) = true) by (unfold named, is_named; rewrite Hm; reflexivity).
  apply In_nth_error in Hin as (k & Hk). destruct k as [|k].
  - destruct (n_content n) as [|it rest] eqn:Ec; [discriminate Hk|]. cbn in Hk. injection Hk as ->. exists rest. split; [reflexivity|].
    intros c' Hin' (cn' & Hc' & Hcn'). apply In_nth_error in Hin' as (k' & Hk').
    apply (HNL i n k' c' cn' Hi Hnamed); [rewrite Ec; exact Hk'|exact Hc'|exact Hcn'].
  - exfalso. exact (HNL i n k c cn Hi Hnamed Hk Hc Hcn).
Qed.
