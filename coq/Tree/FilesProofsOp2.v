(* Tree/FilesProofsOp2.v — C10 proofs: (a) the remove_file theorems with FilesOwned instead of the Unowned exclusion;
   (b) the extended alphabet op2 of Tree/Script2.v: sort, sort model, set_version, check_version_compatibility,
   serialize file / element keep TreeInv, FilesInv and FilesOwned; histories over op2 (C10_history2_owned).
   Pending in op2: OpLoad (membership after a merge is agent-c09's subject on the pure model; no heap-level FilesInv
   theorem) and OpDuplicate for FilesInv (the copy's membership is a zip of two walks, finding classes of C13 / C10);
   duplicate is covered for FilesOwned and for the ORIGINAL models below as far as C13_duplicate goes. *)
From Coq Require Import PeanoNat Arith Lia Permutation.
From AV Require Import Base.Bytes Base.Outcome Hash.HashModel Tree.Heap Tree.Ops Tree.Script Tree.Serialize
  Tree.Inv Tree.InvProofsBase Tree.InvProofsCore Tree.InvProofsTree Tree.InvProofsPrim Tree.InvProofsData Tree.InvProofs
  Tree.Files Tree.FilesProofsBase Tree.FilesProofsProj Tree.FilesProofsFrame Tree.FilesProofsOps
  Tree.FilesProofsAdd Tree.FilesProofsInv Tree.FilesProofsHist Tree.FilesProofsTop
  Tree.FilesProofsExact Tree.FilesProofsExact2 Tree.FilesProofsOwned Tree.FilesProofsText.
From AV Require Import Tree.Sort Tree.SortProofsHeap Tree.SortProofsOrder Tree.SortProofsMain Tree.Copy Tree.Compat Tree.Load Tree.Script2
  Tree.InvProofsOp2.
From AV Require Tree.Index.
From AV Require Tree.CopyProofsBridge Tree.CopyProofsDup.
Open Scope string_scope.
Open Scope list_scope.
Open Scope N_scope.

(* ====================================================================== (a) remove_file under FilesOwned *)
Section RemoveOwned.
Variable T : tables.
Variables (m f : N) (w : world) (r : out unit) (w' : world) (x : model).
Hypothesis TI : TreeInv w.
Hypothesis FI : FilesInv T w.
Hypothesis FO : FilesOwned w.
Hypothesis HK : Known_root_last w (OpRemoveFile m f) = false.
Hypothesis HL : last_file w (OpRemoveFile m f) = false.
Hypothesis NS : forall i n, Reach w (m_root x) i -> w_nodes w i = Some n -> n_name n = SHORT T -> n_files n = [].
Hypothesis Hrun : m_remove_file T m f w = Val (r, w').
Hypothesis Hmx : model_b w m = Some x.
Hypothesis Hin : In f (m_files x).

Let HU : Unowned w (OpRemoveFile m f) = false := owned_unowned w (OpRemoveFile m f) FO.

Theorem remove_file_exact_owned :
  forall i, Reach w (m_root x) i -> (Reach w' (m_root x) i <-> exists g, g <> f /\ Attributed w i g).
Proof. exact (remove_file_exact T m f w r w' x TI FI HK HU HL NS Hrun Hmx Hin). Qed.

Theorem remove_file_exact_index_owned : Index.IndexExact T w' m ->
  forall i, Reach w (m_root x) i -> ~ (exists g, g <> f /\ Attributed w i g) ->
  forall x' p, model_b w' m = Some x' -> assoc_get p (m_idents x') <> Some i.
Proof. exact (remove_file_exact_index T m f w r w' x TI FI HK HU HL NS Hrun Hmx Hin). Qed.

Theorem remove_file_exact_refs_owned : Index.RefsExact T w' m ->
  forall i, Reach w (m_root x) i -> ~ (exists g, g <> f /\ Attributed w i g) ->
  forall x' p, model_b w' m = Some x' -> ~ In i (Index.origins_of x' p).
Proof. exact (remove_file_exact_refs T m f w r w' x TI FI HK HU HL NS Hrun Hmx Hin). Qed.

Theorem remove_file_other_tree_owned : forall g, g <> f -> Attributed w (m_root x) g ->
  forall fuel t, fproj fuel w (Some g) (m_root x) = Some t -> fproj fuel w' (Some g) (m_root x) = Some t.
Proof. exact (remove_file_other_tree T m f w r w' x TI FI HK HU HL NS Hrun Hmx Hin). Qed.

Theorem remove_file_other_text_owned : forall g, g <> f ->
  forall tab_el tab_at tab_en float_fmt, Attributed w (m_root x) g -> CharsLeaf T w -> KeepsSome T w f g (m_root x) ->
  forall fuel indent inline,
    ser_heap T tab_el tab_at tab_en float_fmt fuel w' (Some g) (m_root x) indent inline =
    ser_heap T tab_el tab_at tab_en float_fmt fuel w (Some g) (m_root x) indent inline.
Proof. exact (remove_file_other_text T m f w r w' x TI FI HK HU HL NS Hrun Hmx Hin). Qed.

End RemoveOwned.

(* ====================================================================== (b) worlds that agree on what FilesInv reads *)
Definition node_eqv (n n' : node) : Prop :=
  n_parent n' = n_parent n /\ n_files n' = n_files n /\ n_type n' = n_type n /\ (forall c, In c (kids n') <-> In c (kids n)).
Definition world_eqv (w w' : world) : Prop :=
  w_models w' = w_models w /\
  forall i, match w_nodes w i, w_nodes w' i with
            | Some n, Some n' => node_eqv n n'
            | None, None => True
            | _, _ => False
            end.

Lemma world_eqv_sym w w' : world_eqv w w' -> world_eqv w' w.
Proof.
  intros (M & H). split; [congruence|]. intros i. specialize (H i).
  destruct (w_nodes w i) as [n|]; destruct (w_nodes w' i) as [n'|]; auto.
  destruct H as (P & F & Ty & K). repeat split; try congruence; apply K.
Qed.

Lemma eqv_node w w' i n : world_eqv w w' -> w_nodes w i = Some n -> exists n', w_nodes w' i = Some n' /\ node_eqv n n'.
Proof.
  intros (_ & H) Hn. specialize (H i). rewrite Hn in H. destruct (w_nodes w' i) as [n'|]; [|destruct H]. eauto.
Qed.

Lemma eqv_reach w w' r0 i : world_eqv w w' -> Reach w r0 i -> Reach w' r0 i.
Proof.
  intros E H. induction H as [(n & Hn)|p c Hp IH (pn & Hpn & Hc)].
  - destruct (eqv_node _ _ _ _ E Hn) as (n' & Hn' & _). constructor. exists n'; auto.
  - destruct (eqv_node _ _ _ _ E Hpn) as (pn' & Hpn' & _ & _ & _ & K). eapply R_kid; eauto. exists pn'. split; auto. apply K. exact Hc.
Qed.

Lemma eqv_eff w w' i s : world_eqv w w' -> Eff w i s -> Eff w' i s.
Proof.
  intros E H. induction H as [i n Hn Hf | i n p s Hn Hf Hp He IH].
  - destruct (eqv_node _ _ _ _ E Hn) as (n' & Hn' & _ & F & _). rewrite <- F. constructor; auto. congruence.
  - destruct (eqv_node _ _ _ _ E Hn) as (n' & Hn' & P & F & _). eapply Eff_up; eauto; congruence.
Qed.

Lemma filesinv_eqv T w w' : world_eqv w w' -> FilesInv T w -> FilesInv T w'.
Proof.
  intros E FI x Hx. pose proof (world_eqv_sym _ _ E) as E'. destruct E as (M & _).
  rewrite M in Hx. destruct (FI x Hx) as [A B S D]. constructor.
  - intros i n' Hr Hn'. destruct (eqv_node _ _ _ _ E' Hn') as (n & Hn & _ & F & _). rewrite <- F.
    eapply A; eauto. eapply eqv_reach; eauto.
  - intros i n' p Hr Hn' Hne Hp. destruct (eqv_node _ _ _ _ E' Hn') as (n & Hn & P & F & _).
    destruct (B i n p) as (s & Hs & Hi); auto; try congruence. { eapply eqv_reach; eauto. }
    exists s. split; [eapply eqv_eff; eauto; apply world_eqv_sym; exact E'|]. rewrite <- F. exact Hi.
  - intros i n' p pn' Hr Hn' Hne Hp Hpn'. destruct (eqv_node _ _ _ _ E' Hn') as (n & Hn & P & F & _).
    destruct (eqv_node _ _ _ _ E' Hpn') as (pn & Hpn & _ & _ & Ty & _).
    apply (split_ok_type T pn pn'); [congruence|]. eapply (S i n p pn); eauto; try congruence. eapply eqv_reach; eauto.
  - intros Hne i Hr. destruct (D Hne i) as (s & Hs); [eapply eqv_reach; eauto|]. exists s. eapply eqv_eff; eauto.
    apply world_eqv_sym; exact E'.
Qed.

Lemma world_rel_eqv T w w' : world_rel T w w' -> world_eqv w w'.
Proof.
  intros (_ & _ & M & H). split; auto. intros i. specialize (H i).
  destruct (w_nodes w i) as [n|]; destruct (w_nodes w' i) as [n'|]; auto.
  destruct H as ((P & _ & Ty & _ & F & _) & Hc). repeat split; auto.
  - unfold kids. destruct Hc as [->|(_ & Pm)]; auto. intros Hi. apply in_elems in Hi.
    apply Permutation_sym in Pm. apply (Permutation_in _ Pm) in Hi. apply in_map_iff in Hi as (c0 & [= <-] & Hi).
    rewrite celems_elems in Hi. exact Hi.
  - unfold kids. destruct Hc as [->|(_ & Pm)]; auto. intros Hi. apply in_elems.
    apply (Permutation_in _ Pm). apply in_map. rewrite celems_elems. exact Hi.
Qed.

Lemma owned_same w w' : w_models w' = w_models w -> w_files w' = w_files w -> FilesOwned w -> FilesOwned w'.
Proof. intros M F O m x f Hx Hf. unfold model_b in Hx. rewrite M in Hx. rewrite F. eapply O; eauto. Qed.

(* ====================================================================== (b) the steps of the extended alphabet *)
Definition pending2 (o : op2) : bool :=
  match o with OpLoad _ _ _ _ | OpDuplicate _ => true | _ => false end.

Section Op2.
Variable T : tables.
Variable tab_el tab_at tab_en : nametab.
Variable check_fn : N -> list N -> res bool.
Variable float_parse : list N -> option N.
Variable float_fmt : N -> list N.
Variable LATEST name_index name_definition_ref attr_schema_location : N.
Variable root_attrs : list (N * cdata).

Notation run2 := (run_op2 T tab_el tab_at tab_en check_fn float_parse float_fmt LATEST name_index name_definition_ref
                          attr_schema_location root_attrs).

Definition step_ok2 (w : world) (o : op2) : bool :=
  match o with
  | Op1 o1 => step_ok_owned T tab_el tab_en check_fn LATEST root_attrs w o1
  | _ => negb (pending2 o)
  end.

Lemma world_rel_inv w w' : world_rel T w w' -> TreeInv w -> FilesInv T w -> FilesOwned w ->
  TreeInv w' /\ FilesInv T w' /\ FilesOwned w'.
Proof.
  intros WR (C & NO) FI FO. pose proof (world_rel_ptree T w w' WR) as PT. split; [|split].
  - split; [eapply Core_ptree; eauto | eapply NoOrphan_ptree; eauto].
  - eapply filesinv_eqv; eauto. eapply world_rel_eqv; eauto.
  - destruct WR as (_ & F & M & _). eapply owned_same; eauto.
Qed.

Theorem step2_inv o w r w' :
  TreeInv w -> FilesInv T w -> FilesOwned w -> step_ok2 w o = true ->
  run2 o w = Val (r, w') -> TreeInv w' /\ FilesInv T w' /\ FilesOwned w'.
Proof.
  intros TI FI FO Hok H. pose proof TI as (C & NO).
  destruct o; cbn [step_ok2 pending2 negb] in Hok; try discriminate Hok; cbn [run_op2] in H.
  - (* Op1 *)
    apply wmap_inv in H as (r0 & H & _). unfold step_ok_owned in Hok.
    apply Bool.andb_true_iff in Hok as (Hs & H3). apply Bool.andb_true_iff in Hs as (H1 & H2).
    apply Bool.negb_true_iff in H1, H2, H3.
    destruct (inv_step_owned_all T tab_el tab_en check_fn LATEST root_attrs o w r0 w' TI FI FO H2 H3 H) as (FI' & FO').
    split; auto. apply (tree_step_all T tab_el tab_en check_fn LATEST root_attrs o w r0 w' TI H1 H).
  - (* sort *)
    apply wmap_inv in H as (r0 & H & _). unfold e_sort in H.
    apply (e_sort_frame T tab_el tab_at tab_en name_index name_definition_ref isort_poly StableSort_isort) in H as (_ & WR).
    apply (world_rel_inv w w' WR); auto.
  - (* sort model *)
    apply wmap_inv in H as (r0 & H & _). unfold m_sort in H.
    apply (m_sort_frame T tab_el tab_at tab_en name_index name_definition_ref isort_poly StableSort_isort) in H as (_ & WR).
    apply (world_rel_inv w w' WR); auto.
  - (* set_version *)
    apply wmap_inv in H as (r0 & H & _). unfold f_set_version in H.
    apply wbind_inv in H as [([errs mask] & w1 & H1 & H) | (e0 & H1 & _)].
    2:{ unfold f_check_version_compatibility in H1. destruct (f_check T w f v); discriminate. }
    unfold f_check_version_compatibility in H1. destruct (f_check T w f v); try discriminate. injection H1 as _ <-.
    destruct (is_empty errs); [|apply wfail_inv in H as (_ & ->); auto].
    apply wbind_inv in H as [(x & w1 & H1 & H) | (e0 & H1 & _)]; [|apply get_file_inv in H1 as (? & _ & [=] & _)].
    apply get_file_inv in H1 as (x' & Hx & [= <-] & ->).
    pose proof (stp_set_file _ _ _ _ _ H) as ST. unfold set_file in H. injection H as _ <-.
    split; [eapply TreeInv_same_tree; eauto|]. split.
    + eapply filesinv_eqv; eauto. split; [reflexivity|]. intros i. cbn. destruct (w_nodes w i); auto.
      repeat split; auto.
    + intros m0 x0 f0 Hx0 Hf0. unfold model_b in Hx0. cbn in Hx0 |- *.
      destruct (FO m0 x0 f0 Hx0 Hf0) as (fl & Hfl & Hm).
      rewrite nth_opt_error, nth_error_list_set. rewrite nth_opt_error in Hfl, Hx.
      destruct (Nat.eqb (N.to_nat f0) (N.to_nat f)) eqn:E.
      * apply Nat.eqb_eq in E. rewrite E in *. rewrite Hfl. eexists. split; [reflexivity|]. cbn. congruence.
      * exists fl. auto.
  - (* check_version_compatibility *)
    apply wbind_inv in H as [(a & w1 & H1 & H2) | (e & H1 & _)];
      unfold f_check_version_compatibility in H1; destruct (f_check T w f v); try discriminate.
    injection H1 as _ <-. destruct a. apply wret_inv in H2 as (_ & ->). auto.
  - (* serialize file *)
    apply wmap_inv in H as (r0 & H & _). unfold f_serialize in H.
    apply wbind_inv in H as [(fl & w1 & H1 & H) | (e0 & H1 & _)]; [|apply get_file_inv in H1 as (? & _ & [=] & _)].
    apply get_file_inv in H1 as (fl' & Hfl & [= <-] & ->).
    apply wbind_inv in H as [(x & w1 & H1 & H) | (e0 & H1 & _)]; [|apply get_model_inv in H1 as (? & _ & [=] & _)].
    apply get_model_inv in H1 as (x' & Hx & [= <-] & ->).
    apply wbind_inv in H as [([loc files] & w1 & H1 & H) | (e0 & H1 & _)].
    2:{ assert (w' = w) as -> by (apply (ro_file_membership (m_root x) _ _ _ H1)). auto. }
    assert (w1 = w) as -> by (apply (ro_file_membership (m_root x) _ _ _ H1)).
    destruct (negb (set_mem f files)); [apply wfail_inv in H as (_ & ->); auto|].
    apply wbind_inv in H as [(fname & w1 & H2 & H) | (e0 & H2 & _)]; [|apply wlift_inv in H2 as (? & _ & [=] & _)].
    apply wlift_inv in H2 as (a & _ & _ & ->).
    apply wbind_inv in H as [(u & w1 & H2 & H) | (e0 & H2 & _)]; [|apply wtry_inv in H2 as (? & _ & [=])].
    apply wtry_inv in H2 as (r1 & H2 & _).
    assert (w' = w1) as -> by (destruct (ser_heap _ _ _ _ _ _ _ _ _ _ _) in H; try discriminate; injection H as _ <-; reflexivity).
    pose proof (stp_raw_set_attribute T check_fn _ _ _ _ _ _ _ H2) as ST.
    assert (TreeInv w1) as TI1 by (eapply TreeInv_same_tree; eauto).
    destruct (ff_raw_set_attribute T check_fn _ _ _ _ _ _ _ (core_fresh _ C) H2) as (F & _).
    split; auto. split; [apply (frame_transfer T w w1 TI (proj1 TI1) F FI)|].
    eapply owned_posrel; eauto. apply frame_pos; auto. apply TI1.
  - (* serialize element *)
    apply wmap_inv in H as (r0 & H & _). unfold e_serialize in H.
    destruct (ser_heap _ _ _ _ _ _ _ _ _ _ _) in H; try discriminate. injection H as _ <-. auto.
Qed.

(* ---------- histories over op2 ---------- *)
Fixpoint run_ops2 (l : list op2) (w : world) : res world :=
  match l with
  | [] => Val w
  | o :: rest => match run2 o w with Val (_, w') => run_ops2 rest w' | Pan s => Pan s | Fuel => Fuel end
  end.

Fixpoint steps_ok2 (l : list op2) (w : world) : bool :=
  match l with
  | [] => true
  | o :: rest => step_ok2 w o && match run2 o w with Val (_, w') => steps_ok2 rest w' | _ => true end
  end.

Theorem inv_histories2_owned l : forall w w', TreeInv w -> FilesInv T w -> FilesOwned w -> steps_ok2 l w = true ->
  run_ops2 l w = Val w' -> TreeInv w' /\ FilesInv T w' /\ FilesOwned w'.
Proof.
  induction l as [|o rest IH]; intros w w' TI FI FO Hok H; cbn [run_ops2 steps_ok2] in *.
  - injection H as <-. auto.
  - apply Bool.andb_true_iff in Hok as (Hs & Hok).
    destruct (run2 o w) as [[r w1]| |] eqn:Er; try discriminate.
    destruct (step2_inv o w r w1 TI FI FO Hs Er) as (TI1 & FI1 & FO1). apply (IH w1 w'); auto.
Qed.

Theorem reachable2_owned l w' : steps_ok2 l empty_world = true -> run_ops2 l empty_world = Val w' ->
  TreeInv w' /\ FilesInv T w' /\ FilesOwned w'.
Proof. apply inv_histories2_owned; [apply empty_treeinv | apply empty_filesinv | apply empty_owned]. Qed.

End Op2.

(* ====================================================================== duplicate, as far as it goes *)
(* everything allocated before is untouched: the invariant of an old model carries over *)
Lemma old_part_inv T w w' x : Core w -> (forall i, i < w_next w -> w_nodes w' i = w_nodes w i) ->
  In x (w_models w) -> FilesInvM T w x -> FilesInvM T w' x.
Proof.
  intros C Old Hx [A B S D].
  assert (forall i, allocated w i -> w_nodes w' i = w_nodes w i) as OldA by (intros i Ha; apply Old; apply (c_alloc _ C); exact Ha).
  assert (forall i, Reach w' (m_root x) i -> Reach w (m_root x) i) as R1.
  { intros i H. induction H as [_|p c Hp IH (pn' & Hpn' & Hc)].
    - constructor. destruct (root_node _ _ C Hx) as (rn & k & Hrn & _). exists rn; auto.
    - eapply R_kid; eauto. rewrite (OldA p (reach_alloc _ _ _ C IH)) in Hpn'. exists pn'; auto. }
  assert (forall i, Reach w (m_root x) i -> Reach w' (m_root x) i) as R2.
  { intros i H. induction H as [(n & Hn)|p c Hp IH (pn & Hpn & Hc)].
    - constructor. exists n. rewrite OldA; auto. exists n; auto.
    - eapply R_kid; eauto. exists pn. split; auto. rewrite OldA; auto. exists pn; auto. }
  assert (forall i s, Eff w i s -> Eff w' i s) as E2.
  { intros i s H. induction H as [i n Hn Hf | i n p s Hn Hf Hp He IH].
    - constructor; auto. rewrite OldA; auto. exists n; auto.
    - eapply Eff_up; eauto. rewrite OldA; auto. exists n; auto. }
  constructor.
  - intros i n' Hr Hn'. pose proof (R1 i Hr) as Hr0. rewrite (OldA i (reach_alloc _ _ _ C Hr0)) in Hn'. eapply A; eauto.
  - intros i n' p Hr Hn' Hne Hp. pose proof (R1 i Hr) as Hr0. rewrite (OldA i (reach_alloc _ _ _ C Hr0)) in Hn'.
    destruct (B i n' p Hr0 Hn' Hne Hp) as (s & Hs & Hi). exists s. split; [apply E2; exact Hs|exact Hi].
  - intros i n' p pn' Hr Hn' Hne Hp Hpn'. pose proof (R1 i Hr) as Hr0. rewrite (OldA i (reach_alloc _ _ _ C Hr0)) in Hn'.
    assert (par w i p) as Hpar by (exists n'; auto).
    destruct (reach_par _ _ _ _ C Hx Hr0 Hpar) as (Hrp & _).
    rewrite (OldA p (reach_alloc _ _ _ C Hrp)) in Hpn'. apply (S i n' p pn' Hr0 Hn' Hne Hp Hpn').
  - intros Hne i Hr. destruct (D Hne i (R1 i Hr)) as (s & Hs). exists s. auto.
Qed.

(* computations that keep Core and FilesOwned *)
Definition fo {A} (c : W A) : Prop :=
  forall w r w', c w = Val (r, w') -> Core w -> FilesOwned w -> Core w' /\ FilesOwned w'.

Lemma fo_cp {A} (c : W A) : cp c -> fo c.
Proof. intros H w r w' E C O. destruct (H _ _ _ E C) as (C' & P). split; auto. eapply owned_posrel; eauto. Qed.
Lemma fo_ro {A} (c : W A) : ro c -> fo c.
Proof. intros R. apply fo_cp, cp_ro, R. Qed.
Lemma fo_bind {A B} (c : W A) (k : A -> W B) : fo c -> (forall a, fo (k a)) -> fo (wbind c k).
Proof.
  intros Hc Hk w r w' H C O. apply wbind_inv in H as [(a & w1 & H1 & H2) | (e & H1 & _)].
  - destruct (Hc _ _ _ H1 C O) as (C1 & O1). eapply Hk; eauto.
  - eapply Hc; eauto.
Qed.
Lemma cp_corep_ff {A} (c : W A) : CoreP c -> ff c -> cp c.
Proof.
  intros P F w r w' H C. pose proof (P _ _ _ H C) as C'. split; auto.
  destruct (F _ _ _ (core_fresh _ C) H) as (Fr & _). apply frame_pos; auto.
Qed.

Section Dup.
Variable T : tables.
Variable tab_el tab_en : nametab.
Variable check_fn : N -> list N -> res bool.
Variable LATEST : N.
Variable root_attrs : list (N * cdata).

Lemma fo_create_file c name version : fo (m_create_file T c name version).
Proof.
  intros w r w' H C O. split; [|eapply owned_create_file; eauto].
  apply (Core_step T tab_el tab_en check_fn LATEST root_attrs (OpCreateFile c name version) w
           (match r with OK f => OK (VFile f) | ER e => ER e end) w' C).
  unfold Inv.run. cbn [run_op]. unfold wbind, wret. cbv beta. rewrite H. destruct r; reflexivity.
Qed.

Lemma fo_set_standalone nf sa {B} (k : W B) : fo k ->
  fo (wbind (get_file nf) (fun nfl => wbind (set_file nf (set_standalone nfl sa)) (fun _ => k))).
Proof.
  intros Hk w r w' H C O. apply wbind_inv in H as [(nfl & w1 & H1 & H) | (e0 & H1 & _)]; [|apply get_file_inv in H1 as (? & _ & [=] & _)].
  apply get_file_inv in H1 as (x' & Hx & [= <-] & ->).
  apply wbind_inv in H as [(u & w1 & H1 & H) | (e0 & H1 & _)]; [|unfold set_file in H1; discriminate].
  pose proof (stp_set_file _ _ _ _ _ H1) as ST. unfold set_file in H1. injection H1 as _ <-.
  eapply Hk; [exact H|eapply Core_same_tree; eauto|].
  intros m0 x0 f0 Hx0 Hf0. unfold model_b in Hx0. cbn in Hx0 |- *.
  destruct (O m0 x0 f0 Hx0 Hf0) as (fl & Hfl & Hm).
  rewrite nth_opt_error, nth_error_list_set. rewrite nth_opt_error in Hfl, Hx.
  destruct (Nat.eqb (N.to_nat f0) (N.to_nat nf)) eqn:E.
  - apply Nat.eqb_eq in E. rewrite E in *. rewrite Hfl. eexists. split; [reflexivity|]. cbn. congruence.
  - exists fl. auto.
Qed.

Lemma fo_dup_files c : forall files fm, fo (dup_files T c files fm).
Proof.
  induction files as [|f rest IH]; intros fm; cbn [dup_files]; [apply fo_ro; ro_tac|].
  apply fo_bind; [apply fo_ro; ro_tac|]. intros fl.
  apply fo_bind; [apply fo_create_file|]. intros nf.
  apply fo_set_standalone. apply IH.
Qed.

Lemma cp_dup_children croot : forall items, cp (dup_children T LATEST croot items).
Proof.
  induction items as [|[e|d] rest IH]; cbn [dup_children]; [apply cp_ro; ro_tac| |exact IH].
  apply cp_bind; [|intros _; exact IH].
  apply cp_corep_ff; [apply (CoreP_e_copied T check_fn) | apply ff_e_create_copied].
Qed.

Lemma cp_dup_membership fm : forall oids cids, cp (dup_membership fm oids cids).
Proof.
  induction oids as [|o orest IH]; intros [|c crest]; cbn [dup_membership]; try solve [apply cp_ro; ro_tac].
  apply cp_bind; [apply cp_ro; ro_tac|]. intros on. apply cp_bind; [apply cp_ro; ro_tac|]. intros w0.
  apply cp_bind; [apply cp_modify_files; intros n; split; reflexivity|]. intros _. apply IH.
Qed.

Lemma fo_duplicate_body m : fo (m_duplicate_body T LATEST root_attrs m).
Proof.
  unfold m_duplicate_body.
  apply fo_bind; [apply fo_ro; ro_tac|]. intros x.
  apply fo_bind; [apply fo_cp; apply cp_corep_ff; [apply CoreP_Pres; apply InvProofsFiles.Pres_new_model | apply ff_new_model]|]. intros c.
  apply fo_bind; [apply fo_ro; ro_tac|]. intros rn.
  apply fo_bind; [apply fo_ro; ro_tac|]. intros cx.
  apply fo_bind; [apply fo_cp; apply cp_modify_files; intros n; split; reflexivity|]. intros _.
  apply fo_bind; [apply fo_dup_files|]. intros filemap.
  apply fo_bind; [apply fo_cp; apply cp_dup_children|]. intros _.
  apply fo_bind; [apply fo_ro; ro_tac|]. intros w0.
  apply fo_bind; [apply fo_ro; apply ro_dfs_ids|]. intros oids.
  apply fo_bind; [apply fo_ro; apply ro_dfs_ids|]. intros cids.
  apply fo_bind; [apply fo_cp; apply cp_dup_membership|]. intros _. apply fo_ro. ro_tac.
Qed.

(* AutosarModel::duplicate: FilesOwned is kept; every model that was there keeps its place and its invariant (the
   membership of the COPY is not covered: pending) *)
Theorem duplicate_partial m w r w' : Core w -> FilesInv T w -> FilesOwned w ->
  m_duplicate T tab_el tab_en check_fn LATEST root_attrs m w = Val (r, w') ->
  FilesOwned w' /\
  firstn (List.length (w_models w)) (w_models w') = w_models w /\
  forall x, In x (w_models w) -> FilesInvM T w' x.
Proof.
  intros C FI O H.
  destruct (CopyProofsDup.duplicate_spec T tab_el tab_en check_fn LATEST root_attrs m w r w' (CopyProofsBridge.Core_Closed w C)) as (Old & _ & Ff & Fm & Hr); auto.
  { intros x Hx. rewrite nth_opt_error in Hx.
    assert (nth_error (roots w) (N.to_nat m) = Some (m_root x)) as Hk by (unfold roots; rewrite nth_error_map, Hx; reflexivity).
    destruct (c_roots _ C _ _ Hk) as (rn & Hrn & _). eauto. }
  split; [|split; auto].
  - unfold m_duplicate in H. destruct (m_duplicate_body T LATEST root_attrs m w) as [[[c|e] w1]|s|] eqn:E; try discriminate H.
    + injection H as _ <-. eapply fo_duplicate_body; eauto.
    + destruct r as [c|e']; [discriminate|]. destruct Hr as (F & M). eapply owned_same; eauto.
  - intros x Hx. eapply old_part_inv; eauto.
Qed.

End Dup.
