(* Tree/FilesProofsOp2.v — C10 proofs: (a) the remove_file theorems with FilesOwned instead of the Unowned exclusion;
   (b) the extended alphabet op2 of Tree/Script2.v: sort, sort model, set_version, check_version_compatibility,
   serialize file / element keep TreeInv, FilesInv and FilesOwned; histories over op2 (C10_history2_owned).
   Pending in op2: OpLoad (membership after a merge is agent-c09's subject on the pure model; no heap-level FilesInv
   theorem) and OpDuplicate for FilesInv (the copy's membership is a zip of two walks, finding classes of C13 / C10);
   duplicate is covered for FilesOwned and for the ORIGINAL models below as far as C13_duplicate goes. *)
From Coq Require Import PeanoNat Arith Lia Permutation.
From AV Require Import Base.Bytes Base.Outcome Hash.HashModel Tree.Heap Tree.Ops Tree.Script Tree.Serialize
  Tree.Inv Tree.InvProofsBase Tree.InvProofsCore Tree.InvProofsTree Tree.InvProofsPrim Tree.InvProofsData Tree.InvProofs
  Tree.Files Tree.FilesProofsBase Tree.FilesProofsProj Tree.FilesProofsFrame Tree.FilesProofsOps
  Tree.FilesProofsAdd Tree.FilesProofsInv Tree.FilesProofsHist Tree.FilesProofsTop
  Tree.FilesProofsExact Tree.FilesProofsExact2 Tree.FilesProofsOwned Tree.FilesProofsText.
From AV Require Import Tree.Sort Tree.SortProofsHeap Tree.SortProofsOrder Tree.SortProofsMain Tree.Copy Tree.Compat Tree.Load Tree.Script2
  Tree.InvProofsOp2.
From AV Require Tree.Index.
Open Scope string_scope.
Open Scope list_scope.
Open Scope N_scope.

(* ====================================================================== (a) remove_file under FilesOwned *)
Section RemoveOwned.
Variable T : tables.
Variables (m f : N) (w : world) (r : out unit) (w' : world) (x : model).
Hypothesis TI : TreeInv w.
Hypothesis FI : FilesInv T w.
Hypothesis FO : FilesOwned w.
Hypothesis HK : Known_root_last w (OpRemoveFile m f) = false.
Hypothesis HL : last_file w (OpRemoveFile m f) = false.
Hypothesis NS : forall i n, Reach w (m_root x) i -> w_nodes w i = Some n -> n_name n = SHORT T -> n_files n = [].
Hypothesis Hrun : m_remove_file T m f w = Val (r, w').
Hypothesis Hmx : model_b w m = Some x.
Hypothesis Hin : In f (m_files x).

Let HU : Unowned w (OpRemoveFile m f) = false := owned_unowned w (OpRemoveFile m f) FO.

Theorem remove_file_exact_owned :
  forall i, Reach w (m_root x) i -> (Reach w' (m_root x) i <-> exists g, g <> f /\ Attributed w i g).
Proof. exact (remove_file_exact T m f w r w' x TI FI HK HU HL NS Hrun Hmx Hin). Qed.

Theorem remove_file_exact_index_owned : Index.IndexExact T w' m ->
  forall i, Reach w (m_root x) i -> ~ (exists g, g <> f /\ Attributed w i g) ->
  forall x' p, model_b w' m = Some x' -> assoc_get p (m_idents x') <> Some i.
Proof. exact (remove_file_exact_index T m f w r w' x TI FI HK HU HL NS Hrun Hmx Hin). Qed.

Theorem remove_file_exact_refs_owned : Index.RefsExact T w' m ->
  forall i, Reach w (m_root x) i -> ~ (exists g, g <> f /\ Attributed w i g) ->
  forall x' p, model_b w' m = Some x' -> ~ In i (Index.origins_of x' p).
Proof. exact (remove_file_exact_refs T m f w r w' x TI FI HK HU HL NS Hrun Hmx Hin). Qed.

Theorem remove_file_other_tree_owned : forall g, g <> f -> Attributed w (m_root x) g ->
  forall fuel t, fproj fuel w (Some g) (m_root x) = Some t -> fproj fuel w' (Some g) (m_root x) = Some t.
Proof. exact (remove_file_other_tree T m f w r w' x TI FI HK HU HL NS Hrun Hmx Hin). Qed.

Theorem remove_file_other_text_owned : forall g, g <> f ->
  forall tab_el tab_at tab_en float_fmt, Attributed w (m_root x) g -> CharsLeaf T w -> KeepsSome T w f g (m_root x) ->
  forall fuel indent inline,
    ser_heap T tab_el tab_at tab_en float_fmt fuel w' (Some g) (m_root x) indent inline =
    ser_heap T tab_el tab_at tab_en float_fmt fuel w (Some g) (m_root x) indent inline.
Proof. exact (remove_file_other_text T m f w r w' x TI FI HK HU HL NS Hrun Hmx Hin). Qed.

End RemoveOwned.

(* ====================================================================== (b) worlds that agree on what FilesInv reads *)
Definition node_eqv (n n' : node) : Prop :=
  n_parent n' = n_parent n /\ n_files n' = n_files n /\ n_type n' = n_type n /\ (forall c, In c (kids n') <-> In c (kids n)).
Definition world_eqv (w w' : world) : Prop :=
  w_models w' = w_models w /\
  forall i, match w_nodes w i, w_nodes w' i with
            | Some n, Some n' => node_eqv n n'
            | None, None => True
            | _, _ => False
            end.

Lemma world_eqv_sym w w' : world_eqv w w' -> world_eqv w' w.
Proof.
  intros (M & H). split; [congruence|]. intros i. specialize (H i).
  destruct (w_nodes w i) as [n|]; destruct (w_nodes w' i) as [n'|]; auto.
  destruct H as (P & F & Ty & K). repeat split; try congruence; apply K.
Qed.

Lemma eqv_node w w' i n : world_eqv w w' -> w_nodes w i = Some n -> exists n', w_nodes w' i = Some n' /\ node_eqv n n'.
Proof.
  intros (_ & H) Hn. specialize (H i). rewrite Hn in H. destruct (w_nodes w' i) as [n'|]; [|destruct H]. eauto.
Qed.

Lemma eqv_reach w w' r0 i : world_eqv w w' -> Reach w r0 i -> Reach w' r0 i.
Proof.
  intros E H. induction H as [(n & Hn)|p c Hp IH (pn & Hpn & Hc)].
  - destruct (eqv_node _ _ _ _ E Hn) as (n' & Hn' & _). constructor. exists n'; auto.
  - destruct (eqv_node _ _ _ _ E Hpn) as (pn' & Hpn' & _ & _ & _ & K). eapply R_kid; eauto. exists pn'. split; auto. apply K. exact Hc.
Qed.

Lemma eqv_eff w w' i s : world_eqv w w' -> Eff w i s -> Eff w' i s.
Proof.
  intros E H. induction H as [i n Hn Hf | i n p s Hn Hf Hp He IH].
  - destruct (eqv_node _ _ _ _ E Hn) as (n' & Hn' & _ & F & _). rewrite <- F. constructor; auto. congruence.
  - destruct (eqv_node _ _ _ _ E Hn) as (n' & Hn' & P & F & _). eapply Eff_up; eauto; congruence.
Qed.

Lemma filesinv_eqv T w w' : world_eqv w w' -> FilesInv T w -> FilesInv T w'.
Proof.
  intros E FI x Hx. pose proof (world_eqv_sym _ _ E) as E'. destruct E as (M & _).
  rewrite M in Hx. destruct (FI x Hx) as [A B S D]. constructor.
  - intros i n' Hr Hn'. destruct (eqv_node _ _ _ _ E' Hn') as (n & Hn & _ & F & _). rewrite <- F.
    eapply A; eauto. eapply eqv_reach; eauto.
  - intros i n' p Hr Hn' Hne Hp. destruct (eqv_node _ _ _ _ E' Hn') as (n & Hn & P & F & _).
    destruct (B i n p) as (s & Hs & Hi); auto; try congruence. { eapply eqv_reach; eauto. }
    exists s. split; [eapply eqv_eff; eauto; apply world_eqv_sym; exact E'|]. rewrite <- F. exact Hi.
  - intros i n' p pn' Hr Hn' Hne Hp Hpn'. destruct (eqv_node _ _ _ _ E' Hn') as (n & Hn & P & F & _).
    destruct (eqv_node _ _ _ _ E' Hpn') as (pn & Hpn & _ & _ & Ty & _).
    apply (split_ok_type T pn pn'); [congruence|]. eapply (S i n p pn); eauto; try congruence. eapply eqv_reach; eauto.
  - intros Hne i Hr. destruct (D Hne i) as (s & Hs); [eapply eqv_reach; eauto|]. exists s. eapply eqv_eff; eauto.
    apply world_eqv_sym; exact E'.
Qed.

Lemma world_rel_eqv T w w' : world_rel T w w' -> world_eqv w w'.
Proof.
  intros (_ & _ & M & H). split; auto. intros i. specialize (H i).
  destruct (w_nodes w i) as [n|]; destruct (w_nodes w' i) as [n'|]; auto.
  destruct H as ((P & _ & Ty & _ & F & _) & Hc). repeat split; auto.
  - unfold kids. destruct Hc as [->|(_ & Pm)]; auto. intros Hi. apply in_elems in Hi.
    apply Permutation_sym in Pm. apply (Permutation_in _ Pm) in Hi. apply in_map_iff in Hi as (c0 & [= <-] & Hi).
    rewrite celems_elems in Hi. exact Hi.
  - unfold kids. destruct Hc as [->|(_ & Pm)]; auto. intros Hi. apply in_elems.
    apply (Permutation_in _ Pm). apply in_map. rewrite celems_elems. exact Hi.
Qed.

Lemma owned_same w w' : w_models w' = w_models w -> w_files w' = w_files w -> FilesOwned w -> FilesOwned w'.
Proof. intros M F O m x f Hx Hf. unfold model_b in Hx. rewrite M in Hx. rewrite F. eapply O; eauto. Qed.
