(* Tree/FilesProofsOp2.v — C10 proofs: (a) the remove_file theorems with FilesOwned instead of the Unowned exclusion;
   (b) the extended alphabet op2 of Tree/Script2.v: sort, sort model, set_version, check_version_compatibility,
   serialize file / element keep TreeInv, FilesInv and FilesOwned; histories over op2 (C10_history2_owned).
   Pending in op2: OpLoad (membership after a merge is agent-c09's subject on the pure model; no heap-level FilesInv
   theorem) and OpDuplicate for FilesInv (the copy's membership is a zip of two walks, finding classes of C13 / C10);
   duplicate is covered for FilesOwned and for the ORIGINAL models below as far as C13_duplicate goes. *)
From Coq Require Import PeanoNat Arith Lia Permutation.
From AV Require Import Base.Bytes Base.Outcome Hash.HashModel Tree.Heap Tree.Ops Tree.Script Tree.Serialize
  Tree.Inv Tree.InvProofsBase Tree.InvProofsCore Tree.InvProofsTree Tree.InvProofsPrim Tree.InvProofsData Tree.InvProofs
  Tree.Files Tree.FilesProofsBase Tree.FilesProofsProj Tree.FilesProofsFrame Tree.FilesProofsOps
  Tree.FilesProofsAdd Tree.FilesProofsInv Tree.FilesProofsHist Tree.FilesProofsTop
  Tree.FilesProofsExact Tree.FilesProofsExact2 Tree.FilesProofsOwned Tree.FilesProofsText.
From AV Require Import Tree.Sort Tree.SortProofsHeap Tree.SortProofsOrder Tree.SortProofsMain Tree.Copy Tree.Compat Tree.Load Tree.Script2
  Tree.InvProofsOp2.
From AV Require Tree.Index.
Open Scope string_scope.
Open Scope list_scope.
Open Scope N_scope.

(* ====================================================================== (a) remove_file under FilesOwned *)
Section RemoveOwned.
Variable T : tables.
Variables (m f : N) (w : world) (r : out unit) (w' : world) (x : model).
Hypothesis TI : TreeInv w.
Hypothesis FI : FilesInv T w.
Hypothesis FO : FilesOwned w.
Hypothesis HK : Known_root_last w (OpRemoveFile m f) = false.
Hypothesis HL : last_file w (OpRemoveFile m f) = false.
Hypothesis NS : forall i n, Reach w (m_root x) i -> w_nodes w i = Some n -> n_name n = SHORT T -> n_files n = [].
Hypothesis Hrun : m_remove_file T m f w = Val (r, w').
Hypothesis Hmx : model_b w m = Some x.
Hypothesis Hin : In f (m_files x).

Let HU : Unowned w (OpRemoveFile m f) = false := owned_unowned w (OpRemoveFile m f) FO.

Theorem remove_file_exact_owned :
  forall i, Reach w (m_root x) i -> (Reach w' (m_root x) i <-> exists g, g <> f /\ Attributed w i g).
Proof. exact (remove_file_exact T m f w r w' x TI FI HK HU HL NS Hrun Hmx Hin). Qed.

Theorem remove_file_exact_index_owned : Index.IndexExact T w' m ->
  forall i, Reach w (m_root x) i -> ~ (exists g, g <> f /\ Attributed w i g) ->
  forall x' p, model_b w' m = Some x' -> assoc_get p (m_idents x') <> Some i.
Proof. exact (remove_file_exact_index T m f w r w' x TI FI HK HU HL NS Hrun Hmx Hin). Qed.

Theorem remove_file_exact_refs_owned : Index.RefsExact T w' m ->
  forall i, Reach w (m_root x) i -> ~ (exists g, g <> f /\ Attributed w i g) ->
  forall x' p, model_b w' m = Some x' -> ~ In i (Index.origins_of x' p).
Proof. exact (remove_file_exact_refs T m f w r w' x TI FI HK HU HL NS Hrun Hmx Hin). Qed.

Theorem remove_file_other_tree_owned : forall g, g <> f -> Attributed w (m_root x) g ->
  forall fuel t, fproj fuel w (Some g) (m_root x) = Some t -> fproj fuel w' (Some g) (m_root x) = Some t.
Proof. exact (remove_file_other_tree T m f w r w' x TI FI HK HU HL NS Hrun Hmx Hin). Qed.

Theorem remove_file_other_text_owned : forall g, g <> f ->
  forall tab_el tab_at tab_en float_fmt, Attributed w (m_root x) g -> CharsLeaf T w -> KeepsSome T w f g (m_root x) ->
  forall fuel indent inline,
    ser_heap T tab_el tab_at tab_en float_fmt fuel w' (Some g) (m_root x) indent inline =
    ser_heap T tab_el tab_at tab_en float_fmt fuel w (Some g) (m_root x) indent inline.
Proof. exact (remove_file_other_text T m f w r w' x TI FI HK HU HL NS Hrun Hmx Hin). Qed.

End RemoveOwned.

(* ====================================================================== (b) worlds that agree on what FilesInv reads *)
Definition node_eqv (n n' : node) : Prop :=
  n_parent n' = n_parent n /\ n_files n' = n_files n /\ n_type n' = n_type n /\ (forall c, In c (kids n') <-> In c (kids n)).
Definition world_eqv (w w' : world) : Prop :=
  w_models w' = w_models w /\
  forall i, match w_nodes w i, w_nodes w' i with
            | Some n, Some n' => node_eqv n n'
            | None, None => True
            | _, _ => False
            end.

Lemma world_eqv_sym w w' : world_eqv w w' -> world_eqv w' w.
Proof.
  intros (M & H). split; [congruence|]. intros i. specialize (H i).
  destruct (w_nodes w i) as [n|]; destruct (w_nodes w' i) as [n'|]; auto.
  destruct H as (P & F & Ty & K). repeat split; try congruence; apply K.
Qed.

Lemma eqv_node w w' i n : world_eqv w w' -> w_nodes w i = Some n -> exists n', w_nodes w' i = Some n' /\ node_eqv n n'.
Proof.
  intros (_ & H) Hn. specialize (H i). rewrite Hn in H. destruct (w_nodes w' i) as [n'|]; [|destruct H]. eauto.
Qed.

Lemma eqv_reach w w' r0 i : world_eqv w w' -> Reach w r0 i -> Reach w' r0 i.
Proof.
  intros E H. induction H as [(n & Hn)|p c Hp IH (pn & Hpn & Hc)].
  - destruct (eqv_node _ _ _ _ E Hn) as (n' & Hn' & _). constructor. exists n'; auto.
  - destruct (eqv_node _ _ _ _ E Hpn) as (pn' & Hpn' & _ & _ & _ & K). eapply R_kid; eauto. exists pn'. split; auto. apply K. exact Hc.
Qed.

Lemma eqv_eff w w' i s : world_eqv w w' -> Eff w i s -> Eff w' i s.
Proof.
  intros E H. induction H as [i n Hn Hf | i n p s Hn Hf Hp He IH].
  - destruct (eqv_node _ _ _ _ E Hn) as (n' & Hn' & _ & F & _). rewrite <- F. constructor; auto. congruence.
  - destruct (eqv_node _ _ _ _ E Hn) as (n' & Hn' & P & F & _). eapply Eff_up; eauto; congruence.
Qed.

Lemma filesinv_eqv T w w' : world_eqv w w' -> FilesInv T w -> FilesInv T w'.
Proof.
  intros E FI x Hx. pose proof (world_eqv_sym _ _ E) as E'. destruct E as (M & _).
  rewrite M in Hx. destruct (FI x Hx) as [A B S D]. constructor.
  - intros i n' Hr Hn'. destruct (eqv_node _ _ _ _ E' Hn') as (n & Hn & _ & F & _). rewrite <- F.
    eapply A; eauto. eapply eqv_reach; eauto.
  - intros i n' p Hr Hn' Hne Hp. destruct (eqv_node _ _ _ _ E' Hn') as (n & Hn & P & F & _).
    destruct (B i n p) as (s & Hs & Hi); auto; try congruence. { eapply eqv_reach; eauto. }
    exists s. split; [eapply eqv_eff; eauto; apply world_eqv_sym; exact E'|]. rewrite <- F. exact Hi.
  - intros i n' p pn' Hr Hn' Hne Hp Hpn'. destruct (eqv_node _ _ _ _ E' Hn') as (n & Hn & P & F & _).
    destruct (eqv_node _ _ _ _ E' Hpn') as (pn & Hpn & _ & _ & Ty & _).
    apply (split_ok_type T pn pn'); [congruence|]. eapply (S i n p pn); eauto; try congruence. eapply eqv_reach; eauto.
  - intros Hne i Hr. destruct (D Hne i) as (s & Hs); [eapply eqv_reach; eauto|]. exists s. eapply eqv_eff; eauto.
    apply world_eqv_sym; exact E'.
Qed.

Lemma world_rel_eqv T w w' : world_rel T w w' -> world_eqv w w'.
Proof.
  intros (_ & _ & M & H). split; auto. intros i. specialize (H i).
  destruct (w_nodes w i) as [n|]; destruct (w_nodes w' i) as [n'|]; auto.
  destruct H as ((P & _ & Ty & _ & F & _) & Hc). repeat split; auto.
  - unfold kids. destruct Hc as [->|(_ & Pm)]; auto. intros Hi. apply in_elems in Hi.
    apply Permutation_sym in Pm. apply (Permutation_in _ Pm) in Hi. apply in_map_iff in Hi as (c0 & [= <-] & Hi).
    rewrite celems_elems in Hi. exact Hi.
  - unfold kids. destruct Hc as [->|(_ & Pm)]; auto. intros Hi. apply in_elems.
    apply (Permutation_in _ Pm). apply in_map. rewrite celems_elems. exact Hi.
Qed.

Lemma owned_same w w' : w_models w' = w_models w -> w_files w' = w_files w -> FilesOwned w -> FilesOwned w'.
Proof. intros M F O m x f Hx Hf. unfold model_b in Hx. rewrite M in Hx. rewrite F. eapply O; eauto. Qed.

(* ====================================================================== (b) the steps of the extended alphabet *)
Definition pending2 (o : op2) : bool :=
  match o with OpLoad _ _ _ _ | OpDuplicate _ => true | _ => false end.

Section Op2.
Variable T : tables.
Variable tab_el tab_at tab_en : nametab.
Variable check_fn : N -> list N -> res bool.
Variable float_parse : list N -> option N.
Variable float_fmt : N -> list N.
Variable LATEST name_index name_definition_ref attr_schema_location : N.
Variable root_attrs : list (N * cdata).

Notation run2 := (run_op2 T tab_el tab_at tab_en check_fn float_parse float_fmt LATEST name_index name_definition_ref
                          attr_schema_location root_attrs).

Definition step_ok2 (w : world) (o : op2) : bool :=
  match o with
  | Op1 o1 => step_ok_owned T tab_el tab_en check_fn LATEST root_attrs w o1
  | _ => negb (pending2 o)
  end.

Lemma world_rel_inv w w' : world_rel T w w' -> TreeInv w -> FilesInv T w -> FilesOwned w ->
  TreeInv w' /\ FilesInv T w' /\ FilesOwned w'.
Proof.
  intros WR (C & NO) FI FO. pose proof (world_rel_ptree T w w' WR) as PT. split; [|split].
  - split; [eapply Core_ptree; eauto | eapply NoOrphan_ptree; eauto].
  - eapply filesinv_eqv; eauto. eapply world_rel_eqv; eauto.
  - destruct WR as (_ & F & M & _). eapply owned_same; eauto.
Qed.

Theorem step2_inv o w r w' :
  TreeInv w -> FilesInv T w -> FilesOwned w -> step_ok2 w o = true ->
  run2 o w = Val (r, w') -> TreeInv w' /\ FilesInv T w' /\ FilesOwned w'.
Proof.
  intros TI FI FO Hok H. pose proof TI as (C & NO).
  destruct o; cbn [step_ok2 pending2 negb] in Hok; try discriminate Hok; cbn [run_op2] in H.
  - (* Op1 *)
    apply wmap_inv in H as (r0 & H & _). unfold step_ok_owned in Hok.
    apply Bool.andb_true_iff in Hok as (Hs & H3). apply Bool.andb_true_iff in Hs as (H1 & H2).
    apply Bool.negb_true_iff in H1, H2, H3.
    destruct (inv_step_owned_all T tab_el tab_en check_fn LATEST root_attrs o w r0 w' TI FI FO H2 H3 H) as (FI' & FO').
    split; auto. apply (tree_step_all T tab_el tab_en check_fn LATEST root_attrs o w r0 w' TI H1 H).
  - (* sort *)
    apply wmap_inv in H as (r0 & H & _). unfold e_sort in H.
    apply (e_sort_frame T tab_el tab_at tab_en name_index name_definition_ref isort_poly StableSort_isort) in H as (_ & WR).
    apply (world_rel_inv w w' WR); auto.
  - (* sort model *)
    apply wmap_inv in H as (r0 & H & _). unfold m_sort in H.
    apply (m_sort_frame T tab_el tab_at tab_en name_index name_definition_ref isort_poly StableSort_isort) in H as (_ & WR).
    apply (world_rel_inv w w' WR); auto.
  - (* set_version *)
    apply wmap_inv in H as (r0 & H & _). unfold f_set_version in H.
    apply wbind_inv in H as [([errs mask] & w1 & H1 & H) | (e0 & H1 & _)].
    2:{ unfold f_check_version_compatibility in H1. destruct (f_check T w f v); discriminate. }
    unfold f_check_version_compatibility in H1. destruct (f_check T w f v); try discriminate. injection H1 as _ <-.
    destruct (is_empty errs); [|apply wfail_inv in H as (_ & ->); auto].
    apply wbind_inv in H as [(x & w1 & H1 & H) | (e0 & H1 & _)]; [|apply get_file_inv in H1 as (? & _ & [=] & _)].
    apply get_file_inv in H1 as (x' & Hx & [= <-] & ->).
    pose proof (stp_set_file _ _ _ _ _ H) as ST. unfold set_file in H. injection H as _ <-.
    split; [eapply TreeInv_same_tree; eauto|]. split.
    + eapply filesinv_eqv; eauto. split; [reflexivity|]. intros i. cbn. destruct (w_nodes w i); auto.
      repeat split; auto.
    + intros m0 x0 f0 Hx0 Hf0. unfold model_b in Hx0. cbn in Hx0 |- *.
      destruct (FO m0 x0 f0 Hx0 Hf0) as (fl & Hfl & Hm).
      rewrite nth_opt_error, nth_error_list_set. rewrite nth_opt_error in Hfl, Hx.
      destruct (Nat.eqb (N.to_nat f0) (N.to_nat f)) eqn:E.
      * apply Nat.eqb_eq in E. rewrite E in *. rewrite Hfl. eexists. split; [reflexivity|]. cbn. congruence.
      * exists fl. auto.
  - (* check_version_compatibility *)
    apply wbind_inv in H as [(a & w1 & H1 & H2) | (e & H1 & _)];
      unfold f_check_version_compatibility in H1; destruct (f_check T w f v); try discriminate.
    injection H1 as _ <-. destruct a. apply wret_inv in H2 as (_ & ->). auto.
  - (* serialize file *)
    apply wmap_inv in H as (r0 & H & _). unfold f_serialize in H.
    apply wbind_inv in H as [(fl & w1 & H1 & H) | (e0 & H1 & _)]; [|apply get_file_inv in H1 as (? & _ & [=] & _)].
    apply get_file_inv in H1 as (fl' & Hfl & [= <-] & ->).
    apply wbind_inv in H as [(x & w1 & H1 & H) | (e0 & H1 & _)]; [|apply get_model_inv in H1 as (? & _ & [=] & _)].
    apply get_model_inv in H1 as (x' & Hx & [= <-] & ->).
    apply wbind_inv in H as [([loc files] & w1 & H1 & H) | (e0 & H1 & _)].
    2:{ assert (w' = w) as -> by (refine ((_ : ro (file_membership (m_root x))) _ _ _ H1); ro_tac). auto. }
    assert (w1 = w) as -> by (refine ((_ : ro (file_membership (m_root x))) _ _ _ H1); ro_tac).
    destruct (negb (set_mem f files)); [apply wfail_inv in H as (_ & ->); auto|].
    apply wbind_inv in H as [(fname & w1 & H2 & H) | (e0 & H2 & _)]; [|apply wlift_inv in H2 as (? & _ & [=] & _)].
    apply wlift_inv in H2 as (a & _ & _ & ->).
    apply wbind_inv in H as [(u & w1 & H2 & H) | (e0 & H2 & _)]; [|apply wtry_inv in H2 as (? & _ & [=])].
    apply wtry_inv in H2 as (r1 & H2 & _).
    assert (w' = w1) as -> by (destruct (ser_heap _ _ _ _ _ _ _ _ _ _ _) in H; try discriminate; injection H as _ <-; reflexivity).
    pose proof (stp_raw_set_attribute T check_fn _ _ _ _ _ _ _ H2) as ST.
    assert (TreeInv w1) as TI1 by (eapply TreeInv_same_tree; eauto).
    destruct (ff_raw_set_attribute T check_fn _ _ _ _ _ _ _ (core_fresh _ C) H2) as (F & _).
    split; auto. split; [apply (frame_transfer T w w1 TI (proj1 TI1) F FI)|].
    eapply owned_posrel; eauto. apply frame_pos; auto. apply TI1.
  - (* serialize element *)
    apply wmap_inv in H as (r0 & H & _). unfold e_serialize in H.
    destruct (ser_heap _ _ _ _ _ _ _ _ _ _ _) in H; try discriminate. injection H as _ <-. auto.
Qed.

(* ---------- histories over op2 ---------- *)
Fixpoint run_ops2 (l : list op2) (w : world) : res world :=
  match l with
  | [] => Val w
  | o :: rest => match run2 o w with Val (_, w') => run_ops2 rest w' | Pan s => Pan s | Fuel => Fuel end
  end.

Fixpoint steps_ok2 (l : list op2) (w : world) : bool :=
  match l with
  | [] => true
  | o :: rest => step_ok2 w o && match run2 o w with Val (_, w') => steps_ok2 rest w' | _ => true end
  end.

Theorem inv_histories2_owned l : forall w w', TreeInv w -> FilesInv T w -> FilesOwned w -> steps_ok2 l w = true ->
  run_ops2 l w = Val w' -> TreeInv w' /\ FilesInv T w' /\ FilesOwned w'.
Proof.
  induction l as [|o rest IH]; intros w w' TI FI FO Hok H; cbn [run_ops2 steps_ok2] in *.
  - injection H as <-. auto.
  - apply Bool.andb_true_iff in Hok as (Hs & Hok).
    destruct (run2 o w) as [[r w1]| |] eqn:Er; try discriminate.
    destruct (step2_inv o w r w1 TI FI FO Hs Er) as (TI1 & FI1 & FO1). apply (IH w1 w'); auto.
Qed.

Theorem reachable2_owned l w' : steps_ok2 l empty_world = true -> run_ops2 l empty_world = Val w' ->
  TreeInv w' /\ FilesInv T w' /\ FilesOwned w'.
Proof. apply inv_histories2_owned; [apply empty_treeinv | apply empty_filesinv | apply empty_owned]. Qed.

End Op2.
