(* Tree/InvProofsDetFilesMain.v — C03: DF (detached elements carry no local file set) is an invariant of every
   operation in a world that satisfies TreeInv; with it the stale-handle theorem needs no extra hypothesis along
   histories that stay outside the Known classes. *)
From Coq Require Import PeanoNat Arith.
From AV Require Import Base.Bytes Base.Outcome Hash.HashModel Tree.Heap Tree.Ops Tree.Script Tree.Inv
  Tree.InvProofsBase Tree.InvProofsCore Tree.InvProofsTree Tree.InvProofsPrim Tree.InvProofsCreate
  Tree.InvProofsData Tree.InvProofsRefs Tree.InvProofsRemove Tree.InvProofsFiles Tree.InvProofsMove
  Tree.InvProofsCopy Tree.InvProofsRename Tree.InvProofsFrame Tree.StaleProofs Tree.InvProofs
  Tree.InvProofsDetFiles Tree.InvProofsDetFiles2 Tree.InvProofsDetFiles3 Tree.InvProofsDetFiles4
  Tree.InvProofsDetFiles5 Tree.InvProofsDetFiles6.
Open Scope string_scope.
Open Scope list_scope.
Open Scope N_scope.

Section Main.
Variable T : tables.
Variable tab_el tab_en : nametab.
Variable check_fn : N -> list N -> res bool.
Variable LATEST : N.
Variable root_attrs : list (N * cdata).

Notation run := (Inv.run T tab_el tab_en check_fn LATEST root_attrs).
Notation Known := (Inv.Known T tab_el tab_en check_fn LATEST root_attrs).
Notation run_ops := (Inv.run_ops T tab_el tab_en check_fn LATEST root_attrs).
Notation clean_ops := (Inv.clean_ops T tab_el tab_en check_fn LATEST root_attrs).

Ltac by_pfc L := eapply DF_pframe; [eassumption | eapply L; eassumption | assumption].
Ltac by_pfp L := eapply DF_pframe; [eassumption | eapply L; eassumption | assumption].
Ltac by_dfp L := eapply L; [split; eassumption | assumption | eassumption].

Theorem DF_step o w r w' : TreeInv w -> DF w -> run o w = Val (r, w') -> DF w'.
Proof.
  intros (C & O) D H. unfold Inv.run in H. destruct o; cbn [run_op welem wunit] in H;
    apply wmap_inv in H as (r0 & H & _).
  - by_pfc pfc_e_create_sub.
  - by_pfc pfc_e_create_sub_at.
  - by_pfc pfc_e_create_named.
  - by_pfc pfc_e_create_named_at.
  - eapply e_copied_df; eauto.
  - eapply e_copied_at_df; eauto.
  - eapply e_move_df; eauto.
  - eapply e_move_at_df; eauto.
  - by_dfp DF_e_remove.
  - by_dfp DF_e_remove_kind.
  - eapply DF_pframe; [eassumption | eapply set_item_name_pframe; eassumption | assumption].
  - by_pfp pfp_set_character_data.
  - by_pfp pfp_remove_character_data.
  - by_pfp pfp_insert_citem.
  - by_pfp pfp_remove_citem.
  - by_pfp pfp_set_reference_target.
  - by_pfp pfp_set_attribute.
  - by_pfp pfp_remove_attribute.
  - by_pfp pfp_set_comment.
  - by_pfc pfc_e_get_or_create.
  - by_pfc pfc_e_get_or_create_named.
  - eapply new_model_df; eauto.
  - eapply m_create_file_df; eauto.
  - by_dfp m_remove_file_dfp.
  - eapply e_add_to_file_df; eauto.
  - by_dfp e_remove_from_file_dfp.
Qed.

Theorem DF_histories l : forall w w', TreeInv w -> DF w -> clean_ops l w = true -> run_ops l w = Val w' ->
  TreeInv w' /\ DF w'.
Proof.
  induction l as [|o l IH]; intros w w' I D Hc H; cbn [Inv.run_ops Inv.clean_ops] in *.
  - injection H as <-. auto.
  - apply andb_true_iff in Hc as (Hk & Hc). apply negb_true_iff in Hk.
    destruct (run o w) as [[r w1]|s|] eqn:E; try discriminate.
    eapply IH; [eapply TreeInv_step; eauto | eapply DF_step; eauto | exact Hc | exact H].
Qed.

Corollary DetFiles_reachable l w : run_ops l empty_world = Val w -> clean_ops l empty_world = true ->
  TreeInv w /\ DetFiles w.
Proof.
  intros H Hc. destruct (DF_histories l _ _ empty_treeinv DF_empty Hc H) as (I & D).
  split; auto. apply DF_DetFiles. auto.
Qed.

(* the stale-handle theorem without the DetFiles hypothesis, in every world reached outside the Known classes *)
Theorem stale_fails_reachable l w o h r w' :
  run_ops l empty_world = Val w -> clean_ops l empty_world = true ->
  Detached w h -> principal o = Some h -> place_dependent o = true ->
  run o w = Val (r, w') -> w' = w /\ failed r.
Proof.
  intros H Hc Hd Hp Hpd Hr. destruct (DetFiles_reachable _ _ H Hc) as (_ & Hdf).
  eapply stale_fails; eauto.
Qed.

Theorem stale_fails_inv o h w r w' :
  DF w -> Detached w h -> principal o = Some h -> place_dependent o = true ->
  run o w = Val (r, w') -> w' = w /\ failed r.
Proof. intros D. apply stale_fails. intros _. apply DF_DetFiles. auto. Qed.

End Main.
