(* Tree/RangeProofsListingNamed.v — C07: the NAMED half of the property text: for a name that list_valid_sub_elements reports as
   named, create_named_sub_element_at succeeds EXACTLY when the name is reported as allowed, the position lies in the reported
   range, and the item name is a valid fresh name: not empty, accepted by the SHORT-NAME specification of the type the listing's
   name resolves to in the file version, the parent has a path and parent_path/item is not yet an identifiable of the model.
   (Tree/RangeProofsNamed.v create_named_iff + Tree/RangeProofsListing.v listing_named_exact.) *)
From Coq Require Import Arith Lia.
From AV Require Import Base.Bytes Base.Outcome Hash.HashModel Spec.SpecOps Tree.Heap Tree.Ops Tree.Range Tree.ValidSubs Tree.Listing
  Tree.SpecWF Tree.InvProofsBase Tree.RangeProofsOps Tree.RangeProofsNamed Tree.RangeProofsListing.
Open Scope list_scope.
Open Scope N_scope.

Section ListingNamed.
Variable T : tables.
Hypothesis WF : SpecWF T.
Variable check_fn : N -> list N -> res bool.
Variable LATEST : N.

(* the item name is valid and fresh below the element h (node n) for a new sub-element of type et *)
Definition fresh_valid_name (n : node) (m v : N) (et : etype) (item : list N) (w : world) : Prop :=
  item <> [] /\
  exists se six cs pp x,
    find_sub_element T et (name_short_name T) v = Val (Some (se, six)) /\
    chardata_spec T se = Val (Some cs) /\ check_value check_fn (DString item) cs v = Val true /\
    path_unchecked T n w = Val (OK pp, w) /\
    nth_opt (w_models w) (N.to_nat m) = Some x /\ assoc_get (pp ++ [47] ++ item) (m_idents x) = None.

Theorem listing_named_creatable h n m v w r w' vi :
  named_agree_b T (snd (n_type n)) = true -> In v VERSIONS ->
  w_nodes w h = Some n -> w_nodes w (w_next w) = None -> w_nodes w (w_next w + 1) = None ->
  model_of h w = Val (OK m, w) -> min_version LATEST h w = Val (OK v, w) ->
  list_valid_sub_elements T LATEST h w = Val (OK r, w') -> In vi r -> vi_named vi = true ->
  exists et ix, find_sub_element T (n_type n) (vi_name vi) v = Val (Some (et, ix)) /\ is_named_in_version T et v = Val true /\
    forall item pos,
      (exists c w2, e_create_named_sub_element_at T check_fn LATEST h (vi_name vi) item pos w = Val (OK c, w2)) <->
      (vi_allowed vi = true /\
       (exists lo hi, calc_element_insert_range T n (vi_name vi) v w = Val (OK (lo, hi), w) /\ lo <= pos <= hi) /\
       fresh_valid_name n m v et item w).
Proof.
  intros HA Hv Hn Hf1 Hf2 Hm Hmv HL Hin Hnamed.
  destruct (listing_named_exact T LATEST h n v w r w' vi HA Hv Hn Hmv HL Hin) as (et & ix & HF & HN). rewrite Hnamed in HN.
  exists et, ix. split; [exact HF|]. split; [exact HN|]. intros item pos.
  destruct (list_valid_spec T LATEST h n v w r w' Hn Hmv HL) as (_ & HS). destruct (HS vi Hin) as (r0 & EC & EA).
  destruct r0 as [[lo hi]|er].
  - pose proof (create_named_iff T check_fn LATEST WF h n m v (vi_name vi) item pos w lo hi w Hn Hf1 Hf2 Hm Hmv EC) as IFF.
    split.
    + intros H. apply IFF in H as (Hp & Hi & et' & ix' & se & six & cs & pp & x & F1 & _ & F3 & F4 & F5 & F6 & F7 & F8).
      rewrite HF in F1. injection F1 as <- <-.
      split; [exact EA|]. split; [exists lo, hi; split; [exact EC|exact Hp]|]. split; [exact Hi|].
      exists se, six, cs, pp, x. repeat split; assumption.
    + intros (_ & (lo' & hi' & EC' & Hp) & Hi & se & six & cs & pp & x & F3 & F4 & F5 & F6 & F7 & F8).
      rewrite EC in EC'. injection EC' as <- <-. apply IFF. split; [exact Hp|]. split; [exact Hi|].
      exists et, ix, se, six, cs, pp, x. repeat split; assumption.
  - split.
    + intros (c & w2 & H).
      destruct (create_named_at_only_in_range T check_fn LATEST h n m v (vi_name vi) item pos w c w2 Hn Hm Hmv H) as (lo & hi & _ & _ & EC' & _).
      rewrite EC in EC'. discriminate.
    + intros (Ha & _). rewrite EA in Ha. discriminate.
Qed.

End ListingNamed.
