(* Tree/MergeGoodReal.v — C09: the class Good is inhabited on the REGENERATED tables (SpecReal.RT), by a master with the
   usual ARXML structure
       AUTOSAR / AR-PACKAGES (bag, splittable) / AR-PACKAGE "Pkg" / ELEMENTS (bag, splittable) / SYSTEM "A" {file 0}, SYSTEM "B" {file 1}
   version AUTOSAR_00051 (bit 1048576).  [real_master_good], [real_paths_ok]; the two views load and merge to the master
   ([real_union], an instance of LoadRefineIndex.heap_union_views_total). *)
From Coq Require Import Sorting.Sorted Permutation.
From AV Require Import Base.Bytes Base.Outcome Hash.HashModel Spec.SpecTypes Spec.SpecOps Spec.SpecReal Tree.Heap Tree.Ops Tree.Script
  Tree.Load Tree.MergeSpec Tree.MergePure Tree.LoadProofsWalk Tree.MergePureProofsBase Tree.MergePureProofs
  Tree.MergePureProofsMain Tree.MergePureProofsKeys Tree.LoadRefineBase Tree.LoadRefineTop Tree.LoadRefineIndex.
From AV Require Xml.Lexer Xml.Parser.
Open Scope string_scope.
Open Scope list_scope.
Open Scope N_scope.

Module RealM.
Definition V : N := 1048576.
Definition DEFREF : N := 6311.               (* DEFINITION-REF *)
Definition nAUTOSAR := 4057. Definition tAUTOSAR : N * N := (0, 250).
Definition nPKGS := 5413.    Definition tPKGS : N * N := (350, 251).
Definition nPKG := 5250.     Definition tPKG : N * N := (349, 207).
Definition nSHORT := 6239.   Definition tSHORT : N * N := (6912, 2500).
Definition nELEMENTS := 3929. Definition tELEMENTS : N * N := (2672, 208).
Definition nSYSTEM := 1081.  Definition tSYSTEM : N * N := (7648, 4608).

Definition msn (s : string) (fs : list N) : mtree := MNode nSHORT tSHORT [] [inr (Parser.DString (BS s))] None fs.
Definition mnamed (name : N) (ty : N * N) (s : string) (fs : list N) (kids : list mtree) : mtree :=
  MNode name ty [] (inl (msn s fs) :: map inl kids) None fs.
Definition mplain (name : N) (ty : N * N) (fs : list N) (kids : list mtree) : mtree := MNode name ty [] (map inl kids) None fs.

Definition sys_a := mnamed nSYSTEM tSYSTEM "A" [0] [].
Definition sys_b := mnamed nSYSTEM tSYSTEM "B" [1] [].
Definition elements := mplain nELEMENTS tELEMENTS [0; 1] [sys_a; sys_b].
Definition pkg := mnamed nPKG tPKG "Pkg" [0; 1] [elements].
Definition pkgs := mplain nPKGS tPKGS [0; 1] [pkg].
Definition master : mtree := mplain nAUTOSAR tAUTOSAR [0; 1] [pkgs].

Local Notation G := (Good RT DEFREF V).
Ltac sset_tac := unfold sset; repeat (constructor; try (cbv; reflexivity)).
Lemma s01 : sset [0; 1]. Proof. sset_tac. Qed.
Lemma s0 : sset [0]. Proof. sset_tac. Qed.
Lemma s1 : sset [1]. Proof. sset_tac. Qed.

Lemma short_name_is : name_short_name RT = nSHORT. Proof. vm_compute. reflexivity. Qed.

Lemma good_sn s fs : sset fs -> fs <> [] -> G (msn s fs).
Proof.
  intros Hs Hne. apply Good_unfold. split; [exact Hs|]. split; [exact Hne|]. split; [|intros c []].
  split; [intros c []|]. split; [exists false; vm_compute; reflexivity|]. split; [constructor|]. split; [left; reflexivity|].
  exists (fun _ => mkCore 0 false None None []). split; [intros c []|]. split; [intros c1 c2 []|intros c1 c2 []].
Qed.

Lemma sn_key pty idx sub s fs :
  find_sub_element RT pty nSHORT 4294967295 = Val (Some (sub, idx)) ->
  KeyStable RT DEFREF pty (msn s fs) (mkCore nSHORT false None None idx).
Proof. intros Hf. apply keystable_unnamed with (sub := sub); [vm_compute; reflexivity|exact Hf|intros c []]. Qed.

Lemma named_key pty name ty s fs rest idx sub :
  is_named RT ty = Val true ->
  find_sub_element RT pty name 4294967295 = Val (Some (sub, idx)) ->
  fs <> [] ->
  (forall c, In c rest -> m_name c <> DEFREF) ->
  KeyStable RT DEFREF pty (mnamed name ty s fs rest) (mkCore name true (Some (BS s)) None idx).
Proof.
  intros Hn Hf Hne Hr. unfold mnamed, msn. rewrite <- short_name_is.
  apply (keystable_named RT DEFREF pty name ty [] (map inl rest) None fs idx sub tSHORT (BS s) [] None);
    auto; try (vm_compute; reflexivity); try discriminate.
  all: try (intros c Hc; rewrite kids_map_inl in Hc; apply Hr; exact Hc).
  all: try (vm_compute; discriminate).
Qed.

(* a named element that consists of its SHORT-NAME only *)
Lemma good_named_only name ty s fs :
  sset fs -> fs <> [] ->
  is_named RT ty = Val true ->
  (exists sp, splittable_in RT ty V = Val sp) ->
  (exists sub idx, find_sub_element RT ty nSHORT 4294967295 = Val (Some (sub, idx))) ->
  G (mnamed name ty s fs []).
Proof.
  intros Hs Hne Hnamed Hsp (sub & idx & Hf). unfold mnamed. cbn [map]. apply Good_unfold.
  split; [exact Hs|]. split; [exact Hne|]. split.
  - split; [intros c [<-|[]]; apply incl_refl|]. split; [exact Hsp|].
    split; [constructor; [intros []|constructor]|]. split.
    + right. split; [reflexivity|]. left. split.
      * intros [_ H]. rewrite Hnamed in H. discriminate.
      * intros c [<-|[]]. reflexivity.
    + exists (fun _ => mkCore nSHORT false None None idx). split; [|split].
      * intros c [<-|[]]. eapply sn_key. exact Hf.
      * intros c1 c2 [<-|[]] [<-|[]] _. reflexivity.
      * intros c1 c2 _ _ _. reflexivity.
  - intros c [<-|[]]. apply good_sn; auto.
Qed.

Lemma good_sys_a : G sys_a.
Proof. apply good_named_only; [apply s0|discriminate|vm_compute; reflexivity|exists false; vm_compute; reflexivity|eexists; eexists; vm_compute; reflexivity]. Qed.
Lemma good_sys_b : G sys_b.
Proof. apply good_named_only; [apply s1|discriminate|vm_compute; reflexivity|exists false; vm_compute; reflexivity|eexists; eexists; vm_compute; reflexivity]. Qed.

Definition elem_core (c : mtree) : core :=
  match m_content c with
  | inl (MNode _ _ _ [inr (Parser.DString s)] _ _) :: _ => mkCore (m_name c) true (Some s) None [629]
  | _ => mkCore (m_name c) true None None []
  end.

Lemma good_elements : G elements.
Proof.
  unfold elements, mplain. cbn [map]. apply Good_unfold.
  split; [apply s01|]. split; [discriminate|]. split.
  - split.
    { intros c [<-|[<-|[]]]; cbn; intros x Hx; cbn in *; intuition. }
    split; [exists true; vm_compute; reflexivity|].
    split; [constructor; [intros [H|[]]; discriminate|constructor; [intros []|constructor]]|]. split.
    + right. split; [reflexivity|]. right. left. split; [split; vm_compute; reflexivity|]. split; [vm_compute; reflexivity|].
      intros c [<-|[<-|[]]]; eexists; vm_compute; reflexivity.
    + exists elem_core. split; [|split].
      * intros c [<-|[<-|[]]]; cbn.
        -- apply (named_key tELEMENTS nSYSTEM tSYSTEM "A" [0] [] [629] tSYSTEM); [vm_compute; reflexivity|vm_compute; reflexivity|discriminate|intros c []].
        -- apply (named_key tELEMENTS nSYSTEM tSYSTEM "B" [1] [] [629] tSYSTEM); [vm_compute; reflexivity|vm_compute; reflexivity|discriminate|intros c []].
      * intros c1 c2 [<-|[<-|[]]] [<-|[<-|[]]]; vm_compute; intros H; try reflexivity; discriminate.
      * intros c1 c2 [<-|[<-|[]]] [<-|[<-|[]]]; vm_compute; intros H; try reflexivity; discriminate.
  - intros c [<-|[<-|[]]]; [apply good_sys_a|apply good_sys_b].
Qed.

Lemma elements_key : KeyStable RT DEFREF tPKG elements (mkCore nELEMENTS false None None [11]).
Proof.
  apply keystable_unnamed with (sub := tELEMENTS); [vm_compute; reflexivity|vm_compute; reflexivity|].
  intros c [<-|[<-|[]]]; vm_compute; discriminate.
Qed.

Lemma good_pkg : G pkg.
Proof.
  unfold pkg, mnamed. cbn [map]. apply Good_unfold.
  split; [apply s01|]. split; [discriminate|]. split.
  - split; [intros c [<-|[<-|[]]]; apply incl_refl|]. split; [exists false; vm_compute; reflexivity|].
    split; [constructor; [intros [H|[]]; discriminate|constructor; [intros []|constructor]]|]. split.
    + right. split; [reflexivity|]. left. split; [intros [H _]; vm_compute in H; discriminate|].
      intros c [<-|[<-|[]]]; reflexivity.
    + exists (fun c => if m_name c =? nSHORT then mkCore nSHORT false None None [0] else mkCore nELEMENTS false None None [11]).
      split; [|split].
      * intros c [<-|[<-|[]]]; cbn [m_name msn N.eqb].
        -- eapply sn_key. vm_compute. reflexivity.
        -- apply elements_key.
      * intros c1 c2 [<-|[<-|[]]] [<-|[<-|[]]]; vm_compute; intros H; try reflexivity; discriminate.
      * intros c1 c2 [<-|[<-|[]]] [<-|[<-|[]]]; vm_compute; intros H; try reflexivity; discriminate.
  - intros c [<-|[<-|[]]]; [apply good_sn; [apply s01|discriminate]|apply good_elements].
Qed.

Lemma good_pkgs : G pkgs.
Proof.
  unfold pkgs, mplain. cbn [map]. apply Good_unfold.
  split; [apply s01|]. split; [discriminate|]. split.
  - split; [intros c [<-|[]]; apply incl_refl|]. split; [exists true; vm_compute; reflexivity|].
    split; [constructor; [intros []|constructor]|]. split.
    + right. split; [reflexivity|]. right. left. split; [split; vm_compute; reflexivity|]. split; [vm_compute; reflexivity|].
      intros c [<-|[]]; eexists; vm_compute; reflexivity.
    + exists (fun _ => mkCore nPKG true (Some (BS "Pkg")) None [0]). split; [|split].
      * intros c [<-|[]].
        apply (named_key tPKGS nPKG tPKG "Pkg" [0; 1] [elements] [0] tPKG); [vm_compute; reflexivity|vm_compute; reflexivity|discriminate|].
        intros c [<-|[]]. vm_compute. discriminate.
      * intros c1 c2 [<-|[]] [<-|[]] _. reflexivity.
      * intros c1 c2 _ _ _. reflexivity.
  - intros c [<-|[]]. apply good_pkg.
Qed.

Theorem real_master_good : G master.
Proof.
  unfold master, mplain. cbn [map]. apply Good_unfold.
  split; [apply s01|]. split; [discriminate|]. split.
  - split; [intros c [<-|[]]; apply incl_refl|]. split; [exists true; vm_compute; reflexivity|].
    split; [constructor; [intros []|constructor]|]. split.
    + right. split; [reflexivity|]. left. split; [intros [H _]; vm_compute in H; discriminate|]. intros c [<-|[]]. reflexivity.
    + exists (fun _ => mkCore nPKGS false None None [3]). split; [|split].
      * intros c [<-|[]]. apply keystable_unnamed with (sub := tPKGS); [vm_compute; reflexivity|vm_compute; reflexivity|].
        intros c [<-|[]]. vm_compute. discriminate.
      * intros c1 c2 [<-|[]] [<-|[]] _. reflexivity.
      * intros c1 c2 _ _ _. reflexivity.
  - intros c [<-|[]]. apply good_pkgs.
Qed.

Theorem real_paths_ok : PathsOK RT master [0; 1].
Proof. apply paths_okb_sound. vm_compute. reflexivity. Qed.


Definition new_world : world :=
  match new_model RT [] (mkWorld (fun _ => None) 0 [] []) with Val (_, w) => w | _ => mkWorld (fun _ => None) 0 [] [] end.

(* the unconditional union theorem applies: the views of the files 0 and 1 load, and the model is the master *)
Theorem real_union :
  exists os w,
    load_views RT V DEFREF 0 master (fun _ => V) [0; 1] new_world = Val (os, w) /\
    Forall2 (fun g o => o = OK g) [0; 1] os /\
    exists ta, abs_model w 0 = Some (erase ta) /\ hperm (erase ta) (expected None master).
Proof.
  destruct (heap_union_views_total RT V DEFREF V master 0 (mkModel 0 [] [] []) new_world 1)
    as (os & w & E & F & ta & _ & Ha & _ & Hc & _).
  - exact real_master_good.
  - vm_compute. reflexivity.
  - reflexivity.
  - reflexivity.
  - intros g [<-|[<-|[]]]; vm_compute; auto.
  - exact real_paths_ok.
  - exists os, w. split; [exact E|]. split; [exact F|]. exists ta. split; [exact Ha|]. apply Hc.
    vm_compute. intuition.
Qed.

(* cross-check by computation: the model after the two loads IS the master (the order of siblings is kept here) *)
Example real_union_computed :
  match load_views RT V DEFREF 0 master (fun _ => V) [0; 1] new_world with
  | Val (os, w) => (os, abs_model w 0)
  | _ => ([], None)
  end = ([OK 0; OK 1], Some (expected None master)).
Proof. vm_compute. reflexivity. Qed.

End RealM.
