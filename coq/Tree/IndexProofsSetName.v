(* Tree/IndexProofsSetName.v — C04: Element::set_item_name keeps Inv04 (given C05's Inv05: the members of the referrer
   lists are reference elements, so rewriting their first content item touches nobody's SHORT-NAME).
   Steps of a successful run (rename_run, agent-c06's FollowProofsRename.v): text of the SHORT-NAME, fix_identifiables
   old new (-> rename_short_inv04), then the loop that rewrites the referrers and moves their lists (keeps Inv04:
   every edited node is a reference element without sub-elements, the index is not touched). *)
From AV Require Import Base.Bytes Base.Outcome Hash.HashModel Tree.Heap Tree.Ops Tree.Script Tree.IndexProofsW
  Tree.Index Tree.IndexProofsBase Tree.IndexProofsAssoc Tree.IndexProofsFrame Tree.IndexProofsAttach
  Tree.IndexProofsTree Tree.IndexProofsNamed Tree.IndexProofsEdit Tree.Refs
  Tree.Follow Tree.FollowProofsPath Tree.FollowProofsLoop Tree.FollowProofsRename Tree.FailProofsBase Tree.FailProofsOps
  Tree.IndexProofsRename Tree.IndexProofsRenameOps.
Open Scope string_scope.
Open Scope list_scope.
Open Scope N_scope.

Section SetName.
Variable T : tables.
Variable tab_el tab_en : nametab.
Variable check_fn : N -> list N -> res bool.
Variable LATEST : N.
Hypothesis TK : TablesOK T check_fn.
Notation Inv04 := (Inv04 T check_fn).
Notation SHORTN := (name_short_name T).

(* a node that may safely get a new first content item: a reference element (character content, no sub-elements) *)
Definition Good (w : world) (r : id) : Prop :=
  exists nr, w_nodes w r = Some nr /\ chars_content (n_content nr) /\ n_name nr <> SHORTN /\
             content_mode T (n_type nr) = Val MCharacters.
Definition GoodOrigins (w : world) (m : N) : Prop :=
  forall x p l r, model_at w m = Some x -> In (p, l) (m_origins x) -> In r l -> Good w r.

Lemma good_of_inv05 w m : Inv04 w -> Inv05 T w -> GoodOrigins w m.
Proof.
  intros HI4 [IE IT] x p l r Hx Hin Hr. destruct (IT m x Hx) as (Hnd & _).
  destruct (IE m x Hx p) as (_ & Hiff). assert (Hm : In r (origins_of x p)).
  { unfold origins_of. rewrite (in_assoc_get _ _ _ Hnd Hin). exact Hr. }
  apply Hiff in Hm as (_ & Ht). unfold ref_text in Ht. destruct (w_nodes w r) as [nr|] eqn:Enr; [|discriminate].
  destruct (isref T (n_type nr)) eqn:Er; [|discriminate].
  assert (His : is_ref T (n_type nr) = Val true).
  { unfold isref in Er. destruct (is_ref T (n_type nr)) as [[|]| |]; congruence. }
  pose proof (tk_ref _ _ TK _ His) as Hmode.
  exists nr. split; [exact Enr|]. split; [eapply (i4_leaf _ _ _ HI4); eauto|]. split; [|exact Hmode].
  intros Hs. destruct (i4_short _ _ _ HI4 _ _ Enr Hs) as (_ & Hnr & _). congruence.
Qed.

(* the loop invariant *)
Definition J (m : N) (w : world) : Prop := Inv04 w /\ GoodOrigins w m.

(* one referrer gets its new text *)
Lemma edit_good_inv04 w re nr p' :
  Inv04 w -> w_nodes w re = Some nr -> chars_content (n_content nr) -> n_name nr <> SHORTN ->
  Inv04 (mkWorld (upd (w_nodes w) re (rewrite_head p' nr)) (w_next w) (w_files w) (w_models w)).
Proof.
  intros HI Hn Hc Hs.
  assert (He : elem_ids (n_content nr) = []) by (apply chars_content_elems; exact Hc).
  assert (Hc' : n_content (rewrite_head p' nr) = [CData (DString p')]).
  { unfold rewrite_head. cbn. destruct Hc as [->|(d & ->)]; reflexivity. }
  apply (inv04_edit_node T check_fn w re nr (rewrite_head p' nr)); auto.
  - rewrite Hc', He. reflexivity.
  - intros _. rewrite Hc'. right. eexists. reflexivity.
  - intros E. contradiction.
  - intros _. right. split; apply hd_no_elem_not_identifiable; [exact He|rewrite Hc'; reflexivity].
Qed.

Lemma good_after_edit w re nr p' r :
  w_nodes w re = Some nr -> chars_content (n_content nr) ->
  Good w r -> Good (mkWorld (upd (w_nodes w) re (rewrite_head p' nr)) (w_next w) (w_files w) (w_models w)) r.
Proof.
  intros Hn Hc (n0 & Hn0 & H1 & H2 & H3). destruct (N.eq_dec r re) as [->|Hne].
  - rewrite Hn in Hn0. injection Hn0 as <-. exists (rewrite_head p' nr). cbn. rewrite upd_eq. split; [reflexivity|].
    split; [|split; assumption]. unfold rewrite_head. cbn. destruct Hc as [->|(d & ->)]; right; eexists; reflexivity.
  - exists n0. cbn. rewrite upd_neq by exact Hne. auto.
Qed.

Section Loop.
Variables (m : N) (old new : list N).
Variable each : list (list N) -> W unit.
Variable inner : list N -> list id -> W unit.
Hypothesis inner_nil : forall p', inner p' [] = wret tt.
Hypothesis inner_cons : forall p' re rr,
  inner p' (re :: rr) =
  (do rn <- get_node re;
   match n_content rn with
   | [] => set_node re (set_content rn [CData (DString p')])
   | _ :: tl => set_node re (set_content rn (CData (DString p') :: tl))
   end;; inner p' rr)%W.
Definition loop_body (refpath : list N) : W unit :=
  (match strip_prefix old refpath with
   | Some partial =>
     if is_empty partial || starts_with_slash partial then
       do y <- get_model m;
       match assoc_get refpath (m_origins y) with
       | Some reflist =>
         set_model m (set_origins y (assoc_remove refpath (m_origins y)));;
         inner (new ++ partial) reflist;;
         modify_model m (fun z => set_origins z (match assoc_get (new ++ partial) (m_origins z) with
                                                  | Some l0 => assoc_insert (new ++ partial) (l0 ++ reflist) (m_origins z)
                                                  | None => m_origins z ++ [(new ++ partial, reflist)] end))
       | None => wret tt
       end
     else wret tt
   | None => wret tt
   end)%W.
Hypothesis each_nil : each [] = wret tt.
Hypothesis each_cons : forall refpath r, each (refpath :: r) = (loop_body refpath;; each r)%W.

(* the inner loop: Inv04 and the goodness of every node are kept, models untouched *)
Lemma inner_keeps p' : forall rl w w',
  Inv04 w -> (forall r, In r rl -> Good w r) ->
  inner p' rl w = Val (OK tt, w') ->
  Inv04 w' /\ w_models w' = w_models w /\ (forall r, Good w r -> Good w' r).
Proof.
  induction rl as [|re rr IH]; intros w w' HI Hg H.
  - rewrite inner_nil in H. winv H. auto.
  - rewrite inner_cons in H. wnode H rn Hrn.
    destruct (Hg re (or_introl eq_refl)) as (nr & Hnr & Hc & Hs & _). rewrite Hrn in Hnr. injection Hnr as <-.
    wbind_w H u w1 E1. destruct u.
    assert (Ew1 : w1 = mkWorld (upd (w_nodes w) re (rewrite_head p' rn)) (w_next w) (w_files w) (w_models w)).
    { unfold rewrite_head. destruct (n_content rn) as [|c tl]; apply set_node_inv in E1 as (_ & ->); reflexivity. }
    subst w1. clear E1.
    destruct (IH _ _ (edit_good_inv04 w re rn p' HI Hrn Hc Hs)
                 (fun r Hr => good_after_edit w re rn p' r Hrn Hc (Hg r (or_intror Hr))) H) as (H1 & H2 & H3).
    split; [exact H1|]. split; [rewrite H2; reflexivity|]. intros r Hr. apply H3. apply good_after_edit; assumption.
Qed.

Lemma inv04_models w ms : Inv04 w -> map iview ms = map iview (w_models w) -> Inv04 (mkWorld (w_nodes w) (w_next w) (w_files w) ms).
Proof. intros HI H. eapply Inv04_iv; [|exact HI]. split; [intros i; reflexivity|exact H]. Qed.

Lemma body_keeps k w w1 : J m w -> loop_body k w = Val (OK tt, w1) -> J m w1.
Proof.
  intros HJ E1. unfold loop_body in E1.
    destruct (strip_prefix old k) as [partial|]; [|winv E1; exact HJ].
    destruct (is_empty partial || starts_with_slash partial); [|winv E1; exact HJ].
    wmodel E1 y Hy. fold (model_at w m) in Hy.
    destruct (assoc_get k (m_origins y)) as [reflist|] eqn:Ek; [|winv E1; exact HJ].
    destruct HJ as (HI & HG).
    wbind_w E1 u1 wa Ea. apply set_model_inv in Ea as (_ & ->).
    wbind_w E1 u2 wb Eb.
    set (wa := mkWorld (w_nodes w) (w_next w) (w_files w) (list_set (w_models w) (N.to_nat m) (set_origins y (assoc_remove k (m_origins y))))) in *.
    assert (HIa : Inv04 wa).
    { apply inv04_models; [exact HI|]. eapply iview_list_set; [exact Hy|reflexivity]. }
    assert (Hgl : forall r, In r reflist -> Good wa r).
    { intros r Hr. destruct (HG y k reflist r Hy (assoc_get_in _ _ _ Ek) Hr) as (nr & H1 & H2). exists nr. auto. }
    destruct u2. destruct (inner_keeps _ _ _ _ HIa Hgl Eb) as (HIb & Hmb & Hgb).
    apply modify_model_inv in E1 as (z & Hz & _ & ->).
    assert (Hza : z = set_origins y (assoc_remove k (m_origins y))).
    { rewrite Hmb in Hz. cbn [wa w_models] in Hz. rewrite (list_set_nth_eq _ _ _ _ Hy) in Hz. congruence. }
    split.
    + apply inv04_models; [exact HIb|]. eapply iview_list_set; [exact Hz|reflexivity].
    + (* goodness of the members of the new map *)
      intros x2 p l r Hx2 Hin Hr. unfold model_at in Hx2. cbn [w_models] in Hx2.
      rewrite (list_set_nth_eq _ _ _ _ Hz) in Hx2. injection Hx2 as <-. cbn [set_origins m_origins] in Hin.
      assert (Hgood_any : forall r0, Good w r0 -> Good (mkWorld (w_nodes wb) (w_next wb) (w_files wb)
                 (list_set (w_models wb) (N.to_nat m) (set_origins z
                    (match assoc_get (new ++ partial) (m_origins z) with
                     | Some l0 => assoc_insert (new ++ partial) (l0 ++ reflist) (m_origins z)
                     | None => m_origins z ++ [(new ++ partial, reflist)] end)))) r0).
      { intros r0 Hr0. assert (Ha : Good wa r0) by (destruct Hr0 as (nr & H1 & H2); exists nr; auto).
        destruct (Hgb r0 Ha) as (nr & H1 & H2). exists nr. auto. }
      apply Hgood_any.
      assert (Hmem : forall p0 l0 r0, In (p0, l0) (m_origins z) -> In r0 l0 -> Good w r0).
      { intros p0 l0 r0 Hin0 Hr0. subst z. cbn [set_origins m_origins] in Hin0. apply in_remove in Hin0 as (Hin0 & _).
        eapply HG; eauto. }
      destruct (assoc_get (new ++ partial) (m_origins z)) as [l0|] eqn:El0.
      * (* merged into an existing list *)
        assert (Hcase : (p = new ++ partial /\ l = l0 ++ reflist) \/ In (p, l) (m_origins z)).
        { clear -Hin. induction (m_origins z) as [|[k2 a2] lz IHz]; cbn in Hin.
          - destruct Hin as [[= <- <-]|[]]. left. auto.
          - destruct (bytes_eqb k2 (new ++ partial)) eqn:E.
            + destruct Hin as [[= <- <-]|Hin]; [left; apply bytes_eqb_spec in E; auto|right; right; exact Hin].
            + destruct Hin as [Hin|Hin]; [right; left; exact Hin|]. destruct (IHz Hin) as [H|H]; [left; exact H|right; right; exact H]. }
        destruct Hcase as [(-> & ->)|Hin0]; [|eapply Hmem; eauto].
        apply in_app_iff in Hr as [Hr|Hr]; [eapply Hmem; [apply assoc_get_in; exact El0|exact Hr]|].
        eapply HG; [exact Hy|apply assoc_get_in; exact Ek|exact Hr].
      * apply in_app_iff in Hin as [Hin|[[= <- <-]|[]]]; [eapply Hmem; eauto|].
        eapply HG; [exact Hy|apply assoc_get_in; exact Ek|exact Hr].
Qed.

Lemma each_keeps : forall keys w w', J m w -> each keys w = Val (OK tt, w') -> J m w'.
Proof.
  induction keys as [|k keys IH]; intros w w' HJ H.
  - rewrite each_nil in H. winv H. exact HJ.
  - rewrite each_cons in H. wbind_w H u w1 E1. destruct u. apply (IH w1 w'); [|exact H]. eapply body_keeps; eauto.
Qed.

End Loop.

Theorem C04_set_item_name h nn w r w' :
  TreeFacts w -> Inv04 w -> Inv05 T w ->
  e_set_item_name T check_fn LATEST h nn w = Val (r, w') -> Inv04 w'.
Proof.
  intros HF HI HI5 H. destruct r as [u|e].
  2:{ apply (nf_e_set_item_name T check_fn LATEST h nn) in H. subst w'. exact HI. }
  destruct u. destruct (rename_exec T check_fn LATEST h nn w w' H) as [->|R]; [exact HI|].
  destruct R as [m version n cur old base s sn w1 w2 x2 each inner
                 Hmodel Hnode Hname Hdiff Hne Hpath Hstrip Hfree (rest & Hhead) Hsnode Hshort Hwrite Hrekey Hx Hloop
                 Hin_nil Hin_cons Hea_nil Hea_cons].
  (* the readings of h *)
  apply item_name_val in Hname as (_ & Hname0). assert (Hname : item_name_n T w n = Some cur) by congruence. clear Hname0.
  assert (Hsc : short_child T w n = Some sn).
  { unfold short_child. rewrite Hhead, Hsnode, Hshort, N.eqb_refl. reflexivity. }
  assert (Hnamed : named T (n_type n) = true).
  { unfold item_name_n in Hname. destruct (named T (n_type n)); [reflexivity|discriminate]. }
  assert (Hcd : cdata_of T sn = Some (DString cur)).
  { unfold item_name_n in Hname. rewrite Hnamed, Hsc in Hname. destruct (cdata_of T sn) as [[| c | |]|]; try discriminate. congruence. }
  (* model and path *)
  apply (path_of_val T h n w _ _ Hnode) in Hpath as (_ & [(_ & [=])|(Hid & [(m' & s0 & Hs0 & Hup)|([=] & _)])]).
  injection Hs0 as <-.
  assert (Hm' : m' = m).
  { apply (model_of_val T) in Hmodel as (_ & [(m2 & q2 & [= <-] & Hu2)|([=] & _)]).
    destruct (upath_fun T _ _ _ _ Hup _ _ Hu2) as (-> & _). reflexivity. }
  subst m'.
  assert (Hsp : SpecPath T w m h old) by (eapply upath_specpath; eauto).
  assert (Hreach : MReach T w m h) by (eapply specpath_mreach; eauto).
  inversion Hup as [|i0 n0 pre Hn0 Hu0 Ei Eo]; subst i0. rewrite Hnode in Hn0. injection Hn0 as <-.
  assert (Hseg : seg_n T w n = 47 :: cur) by (unfold seg_n; rewrite Hname; reflexivity).
  rewrite Hseg in Eo. subst old.
  replace (pre ++ 47 :: cur) with ((pre ++ [47]) ++ cur) in Hstrip by (rewrite <- app_assoc; reflexivity).
  rewrite strip_suffix_app in Hstrip. injection Hstrip as <-.
  (* the new path is free *)
  unfold get_element_by_path in Hfree. wmodel Hfree x Hx0. apply wret_inv in Hfree as (Hfree & _). injection Hfree as Hfree.
  symmetry in Hfree. fold (model_at w m) in Hx0. rewrite <- app_assoc in Hfree. cbn [app] in Hfree.
  (* the text write *)
  destruct (raw_set_cd_ok T check_fn _ _ _ _ _ Hwrite) as (sn0 & cs & Hsn0 & Hcs & Hck & ->).
  rewrite Hsnode in Hsn0. injection Hsn0 as <-.
  destruct (i4_short _ _ _ HI _ _ Hsnode Hshort) as (Hmode & _ & Hval).
  destruct (Hval _ _ _ Hcs Hck) as (nn0 & Hnn0 & Hnn). injection Hnn0 as <-.
  assert (Hcont : set_content sn (match n_content sn with [] => [CData (DString nn)] | _ :: r0 => CData (DString nn) :: r0 end)
                  = set_content sn [CData (DString nn)]).
  { destruct (i4_leaf _ _ _ HI _ _ Hsnode Hmode) as [->|(d & ->)]; reflexivity. }
  rewrite Hcont in *. clear Hcont.
  (* the re-keying *)
  apply fix_identifiables_val in Hrekey as (x1 & Hx1 & _ & ->).
  assert (x1 = x) by (unfold model_at in Hx1, Hx0; cbn [w_models] in Hx1; congruence). subst x1. clear Hx1.
  replace ((pre ++ [47]) ++ nn) with (pre ++ 47 :: nn) in * by (rewrite <- app_assoc; reflexivity).
  cbn [w_nodes w_next w_files w_models] in *.
  fold (renamed_world w s (set_content sn [CData (DString nn)]) m x (pre ++ 47 :: cur) (pre ++ 47 :: nn)) in *.
  set (w2 := renamed_world w s (set_content sn [CData (DString nn)]) m x (pre ++ 47 :: cur) (pre ++ 47 :: nn)) in *.
  assert (HI2 : Inv04 w2).
  { apply (rename_short_inv04 T check_fn w s sn h n rest m x pre cur nn); auto. }
  assert (HG2 : GoodOrigins w2 m).
  { intros y p l r0 Hy Hin Hr0. unfold w2, renamed_world, model_at in Hy. cbn [w_models] in Hy.
    rewrite (list_set_nth_eq _ _ _ _ Hx0) in Hy. injection Hy as <-. cbn [set_idents m_origins] in Hin.
    destruct (good_of_inv05 w m HI HI5 x p l r0 Hx0 Hin Hr0) as (nr & H1 & H2 & H3 & H4).
    exists nr. split; [|auto]. unfold w2, renamed_world. cbn [w_nodes]. rewrite upd_neq; [exact H1|].
    intros ->. rewrite Hsnode in H1. injection H1 as <-. contradiction. }
  destruct (each_keeps m (pre ++ 47 :: cur) (pre ++ 47 :: nn) each inner Hin_nil Hin_cons Hea_nil Hea_cons _ _ _ (conj HI2 HG2) Hloop) as (HI' & _).
  exact HI'.
Qed.

End SetName.
