(* Tree/FollowWitness.v — C06: examples and witnesses over the tiny table set of Tree/Index.v.
   World sR (built from the empty world by a script that is clean for C03/C04/C05, so TreeFacts, Inv04, Inv05 hold by
   C04_C05_reachable_partial):   packages /p1 (2) and /p10 (7); /p1/S (5) nested; SYSTEM /p10/R (10) holding five
   references   12 -> /p1   13 -> /p1/S   14 -> /p10 (name-prefix sibling)   15 = "/p1/zzz" (dangling, below the old
   path)   16 = "/q" (dangling, equal to the FUTURE path).   Then  set_item_name(/p1, "q"). *)
From Coq Require Import Lia.
From AV Require Import Base.Bytes Base.Outcome Hash.HashModel Tree.Heap Tree.Ops Tree.Script Tree.Inv Tree.InvProofs
  Tree.Index Tree.Refs Tree.IndexProofsBase Tree.IndexProofsBridge Tree.IndexProofsTiny
  Tree.Follow Tree.FollowProofsRename Tree.FollowProofsMove.
Import Tiny.
Open Scope list_scope.
Open Scope N_scope.

Notation runs := (run_ops tiny tiny_el tiny_en tiny_check_fn LATEST []).
Notation rename := (e_set_item_name tiny tiny_check_fn LATEST).

Definition sR : list op :=
  setup ++ [OpCreateNamed 1 nPKG (BS "p1"); OpCreateSub 2 nELEMENTS; OpCreateNamed 4 nSYSTEM (BS "S");
            OpCreateNamed 1 nPKG (BS "p10"); OpCreateSub 7 nELEMENTS; OpCreateNamed 9 nSYSTEM (BS "R");
            OpCreateSub 10 nREF; OpCreateSub 10 nREF; OpCreateSub 10 nREF; OpCreateSub 10 nREF; OpCreateSub 10 nREF;
            OpSetRefTarget 12 2; OpSetRefTarget 13 5; OpSetRefTarget 14 7;
            OpSetCData 15 (DString (BS "/p1/zzz")); OpSetCData 16 (DString (BS "/q"))].

Definition texts (w : world) : list (option (list N)) := map (ref_text tiny w) [12; 13; 14; 15; 16].

(* the hypotheses of C06_rename hold in the example world *)
Lemma sR_inv : exists w, runs sR empty_world = Val w /\ Inv06 tiny tiny_check_fn w.
Proof.
  eexists. split; [vm_compute; reflexivity|].
  eapply (C04_C05_reachable_partial tiny tiny_el tiny_en tiny_check_fn LATEST [] tiny_tables_ok sR);
    vm_compute; reflexivity.
Qed.

(* all clauses observable at once *)
Example rename_follow_example :
  exists w w', runs sR empty_world = Val w /\ Inv06 tiny tiny_check_fn w /\
    rename 2 (BS "q") w = Val (OK tt, w') /\
    texts w  = [Some (BS "/p1"); Some (BS "/p1/S"); Some (BS "/p10"); Some (BS "/p1/zzz"); Some (BS "/q")] /\
    texts w' = [Some (BS "/q");  Some (BS "/q/S");  Some (BS "/p10"); Some (BS "/q/zzz");  Some (BS "/q")] /\
    (* the same element objects *)
    assoc_get (BS "/p1") (idents_of w 0) = Some 2 /\ assoc_get (BS "/q") (idents_of w' 0) = Some 2 /\
    assoc_get (BS "/p1/S") (idents_of w 0) = Some 5 /\ assoc_get (BS "/q/S") (idents_of w' 0) = Some 5 /\
    assoc_get (BS "/p10") (idents_of w' 0) = Some 7 /\ assoc_get (BS "/p1") (idents_of w' 0) = None /\
    (* the dangling referrer of the future path is merged into the referrer list of the renamed element *)
    assoc_get (BS "/q") (origins_list w' 0) = Some [16; 12].
Proof.
  destruct sR_inv as (w & Hw & HI). exists w. eexists.
  split; [exact Hw|]. split; [exact HI|].
  vm_compute in Hw. injection Hw as <-.
  split; [vm_compute; reflexivity|]. vm_compute. repeat split.
Qed.

(* FINDING (C06 by the letter): reference 15 designated NOTHING before the rename ("/p1/zzz" is not a path), it is one
   of "all other references", yet its text is rewritten to "/q/zzz".  The code rewrites every key of the referrer map
   that has the old path as a '/'-prefix, resolving or not. *)
Theorem rename_dangling_rewritten :
  exists w w' r p, runs sR empty_world = Val w /\ Inv06 tiny tiny_check_fn w /\
    rename 2 (BS "q") w = Val (OK tt, w') /\
    ref_text tiny w r = Some p /\ ~ resolves tiny w 0 r /\ ref_text tiny w' r <> Some p.
Proof.
  destruct sR_inv as (w & Hw & HI). exists w. eexists. exists 15, (BS "/p1/zzz").
  split; [exact Hw|]. split; [exact HI|].
  vm_compute in Hw. injection Hw as <-.
  split; [vm_compute; reflexivity|]. split; [vm_compute; reflexivity|]. split.
  - intros (x & xm & p & Hxm & Hr & Hp). vm_compute in Hxm. injection Hxm as <-.
    vm_compute in Hr. injection Hr as <-. vm_compute in Hp. discriminate Hp.
  - vm_compute. discriminate.
Qed.

(* ---------- move within one model, with renaming by make_unique_item_name ----------
   sM = sR plus a second SYSTEM named S (17) in /p10.  Moving /p1/S (5) into ELEMENTS (9) of /p10 collides with it: the
   moved element becomes S_1, reference 13 follows to "/p10/S_1" and still designates element 5; the dangling
   reference "/p1/zzz" is NOT rewritten by a move (only keys that are paths of elements of the subtree are). *)
Definition sM : list op := sR ++ [OpCreateNamed 9 nSYSTEM (BS "S")].
Notation move_here := (e_move_element_here tiny tiny_en tiny_check_fn LATEST).

Lemma sM_inv : exists w, runs sM empty_world = Val w /\ Inv06 tiny tiny_check_fn w.
Proof.
  eexists. split; [vm_compute; reflexivity|].
  eapply (C04_C05_reachable_partial tiny tiny_el tiny_en tiny_check_fn LATEST [] tiny_tables_ok sM);
    vm_compute; reflexivity.
Qed.

Example move_follow_example :
  exists w w', runs sM empty_world = Val w /\ Inv06 tiny tiny_check_fn w /\
    move_here 9 5 w = Val (OK 5, w') /\
    model_of 9 w = Val (OK 0, w) /\ model_of 5 w = Val (OK 0, w) /\ identifiable tiny w 5 = true /\
    texts w  = [Some (BS "/p1"); Some (BS "/p1/S");    Some (BS "/p10"); Some (BS "/p1/zzz"); Some (BS "/q")] /\
    texts w' = [Some (BS "/p1"); Some (BS "/p10/S_1"); Some (BS "/p10"); Some (BS "/p1/zzz"); Some (BS "/q")] /\
    assoc_get (BS "/p1/S") (idents_of w 0) = Some 5 /\ assoc_get (BS "/p10/S_1") (idents_of w' 0) = Some 5 /\
    assoc_get (BS "/p10/S") (idents_of w' 0) = Some 17 /\ assoc_get (BS "/p1/S") (idents_of w' 0) = None.
Proof.
  destruct sM_inv as (w & Hw & HI). exists w. eexists.
  split; [exact Hw|]. split; [exact HI|].
  vm_compute in Hw. injection Hw as <-.
  split; [vm_compute; reflexivity|]. vm_compute. repeat split.
Qed.

(* ---------- moving a NON-identifiable container ----------
   sK = sR plus an empty package /b (17).  Moving ELEMENTS (4) of /p1 - which holds /p1/S - into /b: the per-path
   re-keying gives /b/S, reference 13 follows. *)
Definition sK : list op := sR ++ [OpCreateNamed 1 nPKG (BS "b")].

Lemma sK_inv : exists w, runs sK empty_world = Val w /\ Inv06 tiny tiny_check_fn w.
Proof.
  eexists. split; [vm_compute; reflexivity|].
  eapply (C04_C05_reachable_partial tiny tiny_el tiny_en tiny_check_fn LATEST [] tiny_tables_ok sK);
    vm_compute; reflexivity.
Qed.

Example move_container_example :
  exists w w', runs sK empty_world = Val w /\ Inv06 tiny tiny_check_fn w /\
    move_here 17 4 w = Val (OK 4, w') /\
    model_of 17 w = Val (OK 0, w) /\ model_of 4 w = Val (OK 0, w) /\ identifiable tiny w 4 = false /\
    collision06 tiny w 17 4 = false /\
    texts w' = [Some (BS "/p1"); Some (BS "/b/S"); Some (BS "/p10"); Some (BS "/p1/zzz"); Some (BS "/q")] /\
    assoc_get (BS "/p1/S") (idents_of w 0) = Some 5 /\ assoc_get (BS "/b/S") (idents_of w' 0) = Some 5 /\
    assoc_get (BS "/p1/S") (idents_of w' 0) = None.
Proof.
  destruct sK_inv as (w & Hw & HI). exists w. eexists.
  split; [exact Hw|]. split; [exact HI|].
  vm_compute in Hw. injection Hw as <-.
  split; [vm_compute; reflexivity|]. vm_compute. repeat split.
Qed.

(* FINDING (C04-move-container-duplicates-paths): the container case has no uniqueness check.  sX = sR plus a package
   /c (17) with a sub-package /c/S (20), referenced by 22.  Moving ELEMENTS (4) of /p1 into /c gives the SYSTEM S (5)
   the path /c/S too: two elements with one path, the index entry of package 20 is overwritten, and reference 22 -
   which is not in the moved subtree and keeps its text - now resolves to element 5. *)
Definition sX : list op :=
  sR ++ [OpCreateNamed 1 nPKG (BS "c"); OpCreateSub 17 nPKGS; OpCreateNamed 19 nPKG (BS "S");
         OpCreateSub 10 nREF; OpSetRefTarget 22 20].

Theorem container_collision :
  exists w w', runs sX empty_world = Val w /\ Inv06 tiny tiny_check_fn w /\
    move_here 17 4 w = Val (OK 4, w') /\ identifiable tiny w 4 = false /\
    collision06 tiny w 17 4 = true /\
    ref_text tiny w 22 = Some (BS "/c/S") /\ ref_text tiny w' 22 = Some (BS "/c/S") /\
    assoc_get (BS "/c/S") (idents_of w 0) = Some 20 /\ assoc_get (BS "/c/S") (idents_of w' 0) = Some 5 /\
    index_ok tiny w = true /\ index_ok tiny w' = false.
Proof.
  assert (HI : exists w, runs sX empty_world = Val w /\ Inv06 tiny tiny_check_fn w).
  { eexists. split; [vm_compute; reflexivity|].
    eapply (C04_C05_reachable_partial tiny tiny_el tiny_en tiny_check_fn LATEST [] tiny_tables_ok sX);
      vm_compute; reflexivity. }
  destruct HI as (w & Hw & HI). exists w. eexists.
  split; [exact Hw|]. split; [exact HI|].
  vm_compute in Hw. injection Hw as <-.
  split; [vm_compute; reflexivity|]. vm_compute. repeat split.
Qed.

(* ---------- moving a subtree to another model ----------
   sC2 = sR plus a second model (root 17, AR-PACKAGES 18) that already has a package p10 (19).  Moving /p10 (7) of model 0
   there: the moved package becomes p10_1 in the DESTINATION index; reference 14 (inside, text "/p10" = the moved element)
   follows to "/p10_1"; references 12, 13 (inside, pointing to /p1.. outside), 15, 16 (dangling) keep their text; all
   five are registered in the destination's referrer map and gone from the source's. *)
Definition sC2 : list op :=
  sR ++ [OpNewModel; OpCreateFile 1 (BS "g") 2; OpCreateSub 17 nPKGS; OpCreateNamed 18 nPKG (BS "p10")].

Example move_cross_example :
  exists w w', runs sC2 empty_world = Val w /\ Inv06 tiny tiny_check_fn w /\
    move_here 18 7 w = Val (OK 7, w') /\
    model_of 18 w = Val (OK 1, w) /\ model_of 7 w = Val (OK 0, w) /\
    texts w' = [Some (BS "/p1"); Some (BS "/p1/S"); Some (BS "/p10_1"); Some (BS "/p1/zzz"); Some (BS "/q")] /\
    assoc_get (BS "/p10") (idents_of w 0) = Some 7 /\ assoc_get (BS "/p10_1") (idents_of w' 1) = Some 7 /\
    assoc_get (BS "/p10") (idents_of w' 1) = Some 19 /\ assoc_get (BS "/p10") (idents_of w' 0) = None /\
    origins_list w' 0 = [] /\
    origins_list w' 1 = [(BS "/p1", [12]); (BS "/p1/S", [13]); (BS "/p10_1", [14]); (BS "/p1/zzz", [15]); (BS "/q", [16])].
Proof.
  assert (HI : exists w, runs sC2 empty_world = Val w /\ Inv06 tiny tiny_check_fn w).
  { eexists. split; [vm_compute; reflexivity|].
    eapply (C04_C05_reachable_partial tiny tiny_el tiny_en tiny_check_fn LATEST [] tiny_tables_ok sC2);
      vm_compute; reflexivity. }
  destruct HI as (w & Hw & HI). exists w. eexists.
  split; [exact Hw|]. split; [exact HI|].
  vm_compute in Hw. injection Hw as <-.
  split; [vm_compute; reflexivity|]. vm_compute. repeat split.
Qed.
