(* Tree/FollowProofsLoop.v — C06 proofs, layer 1: what the reference-rewrite loop of set_item_name does.
   The two nested loops are anonymous `fix` terms inside Ops.e_set_item_name; the lemmas here are stated for ANY
   functions satisfying the same unfolding equations, the main proof instantiates them with the captured terms.
     inner_sem   rewriting the head text item of every element of a referrer list
     outer_sem   the loop over the snapshot of the keys of reference_origins: every element of the (current) list of
                 a key of old form gets the re-keyed text, every other node is untouched, the path index, the roots
                 and the other models are untouched *)
From Coq Require Import Lia.
From AV Require Import Base.Bytes Base.Outcome Hash.HashModel Tree.Heap Tree.Ops Tree.Script Tree.Index
  Tree.IndexProofsW Tree.IndexProofsBase Tree.IndexProofsAssoc Tree.Follow.
Open Scope string_scope.
Open Scope list_scope.
Open Scope N_scope.

(* the new node of a rewritten referrer: its first content item becomes the text p' (pushed when empty) *)
Definition rewrite_head (p' : list N) (n : node) : node :=
  set_content n (CData (DString p') :: tl (n_content n)).

Lemma rewrite_head_idem p' n : rewrite_head p' (rewrite_head p' n) = rewrite_head p' n.
Proof. reflexivity. Qed.

(* worlds that differ only in node records and in the origins map of model m *)
Definition same_frame (m : N) (w w' : world) : Prop :=
  w_next w' = w_next w /\ w_files w' = w_files w /\
  (forall m2, m2 <> m -> model_at w' m2 = model_at w m2) /\
  (forall x, model_at w m = Some x ->
     exists x', model_at w' m = Some x' /\ m_root x' = m_root x /\ m_files x' = m_files x /\ m_idents x' = m_idents x) /\
  (model_at w m = None -> model_at w' m = None).

Lemma same_frame_refl m w : same_frame m w w.
Proof. repeat split; auto. intros x Hx. exists x. auto. Qed.
Lemma same_frame_trans m a b c : same_frame m a b -> same_frame m b c -> same_frame m a c.
Proof.
  intros (A1 & A2 & A3 & A4 & A5) (B1 & B2 & B3 & B4 & B5). repeat split; try congruence.
  - intros m2 H. rewrite B3 by exact H. apply A3. exact H.
  - intros x Hx. destruct (A4 x Hx) as (x1 & H1 & H2 & H3 & H4). destruct (B4 x1 H1) as (x2 & G1 & G2 & G3 & G4).
    exists x2. repeat split; congruence.
  - intros H. apply B5. apply A5. exact H.
Qed.

Lemma model_at_list_set_eq w m x y :
  model_at w m = Some x -> nth_opt (list_set (w_models w) (N.to_nat m) y) (N.to_nat m) = Some y.
Proof. intros H. eapply list_set_nth_eq. exact H. Qed.

Lemma same_frame_set_origins m w x o :
  model_at w m = Some x ->
  same_frame m w (mkWorld (w_nodes w) (w_next w) (w_files w) (list_set (w_models w) (N.to_nat m) (set_origins x o))).
Proof.
  intros Hx. split; [reflexivity|]. split; [reflexivity|]. split; [|split].
  - intros m2 Hne. unfold model_at. cbn [w_models]. apply list_set_nth_neq. intros E. apply Hne. apply N2Nat.inj. exact E.
  - intros x0 Hx0. assert (x0 = x) by congruence. subst x0. exists (set_origins x o). split; [|auto].
    unfold model_at. cbn [w_models]. eapply list_set_nth_eq. exact Hx.
  - intros H. congruence.
Qed.

Lemma same_frame_nodes m w f : same_frame m w (mkWorld f (w_next w) (w_files w) (w_models w)).
Proof. repeat split; auto. intros x Hx. exists x. auto. Qed.

Section Inner.
Variable loop : list id -> W unit.
Variable p' : list N.
Hypothesis loop_nil : loop [] = wret tt.
Hypothesis loop_cons : forall re rr,
  loop (re :: rr) =
  (do rn <- get_node re;
   match n_content rn with
   | [] => set_node re (set_content rn [CData (DString p')])
   | _ :: tl => set_node re (set_content rn (CData (DString p') :: tl))
   end;; loop rr)%W.

Lemma inner_sem : forall rl w w',
  loop rl w = Val (OK tt, w') ->
  w_next w' = w_next w /\ w_files w' = w_files w /\ w_models w' = w_models w /\
  (forall i, In i rl -> w_nodes w' i = option_map (rewrite_head p') (w_nodes w i)) /\
  (forall i, ~ In i rl -> w_nodes w' i = w_nodes w i).
Proof.
  induction rl as [|re rr IH]; intros w w' H.
  - rewrite loop_nil in H. apply wret_inv in H as (_ & ->). repeat split; auto. intros i [].
  - rewrite loop_cons in H.
    apply wbind_inv in H as [(rn & w1 & E & H)|(e & _ & [=])].
    apply get_node_inv in E as (rn0 & Hrn & Q & ->). assert (rn = rn0) by congruence. subst rn. clear Q.
    apply wbind_inv in H as [(u & w1 & E & H)|(e & _ & [=])].
    assert (Ew1 : w1 = mkWorld (upd (w_nodes w) re (rewrite_head p' rn0)) (w_next w) (w_files w) (w_models w)).
    { unfold rewrite_head. destruct (n_content rn0) as [|c tl]; apply set_node_inv in E as (_ & ->); reflexivity. }
    subst w1. clear E.
    destruct (IH _ _ H) as (H1 & H2 & H3 & H4 & H5). cbn [w_next w_files w_models w_nodes] in *.
    repeat split; auto.
    + intros i [<-|Hi].
      * destruct (in_dec N.eq_dec re rr) as [Hin|Hnin].
        -- rewrite H4 by exact Hin. rewrite upd_eq, Hrn. reflexivity.
        -- rewrite H5 by exact Hnin. rewrite upd_eq, Hrn. reflexivity.
      * rewrite H4 by exact Hi. destruct (N.eq_dec i re) as [->|Hne].
        -- rewrite upd_eq, Hrn. reflexivity.
        -- rewrite upd_neq by exact Hne. reflexivity.
    + intros i Hi. rewrite H5 by (intros Hx; apply Hi; right; exact Hx).
      apply upd_neq. intros ->. apply Hi. left. reflexivity.
Qed.
End Inner.

(* ---------- merging a referrer list into the map (entry(k').or_default().extend(l)) ---------- *)
Definition merge_origin (k' : list N) (l : list id) (O : list (list N * list id)) : list (list N * list id) :=
  match assoc_get k' O with Some l0 => assoc_insert k' (l0 ++ l) O | None => O ++ [(k', l)] end.

Lemma assoc_get_snoc {A} k k' (v : A) O :
  assoc_get k (O ++ [(k', v)]) = match assoc_get k O with Some a => Some a | None => if bytes_eqb k' k then Some v else None end.
Proof.
  induction O as [|(k0, a0) O IH]; cbn; [reflexivity|]. destruct (bytes_eqb k0 k); [reflexivity|exact IH].
Qed.

Lemma assoc_get_merge_neq k k' l O : k <> k' -> assoc_get k (merge_origin k' l O) = assoc_get k O.
Proof.
  intros Hne. unfold merge_origin. destruct (assoc_get k' O) as [l0|] eqn:E.
  - apply assoc_get_insert_neq. exact Hne.
  - rewrite assoc_get_snoc. destruct (assoc_get k O); [reflexivity|].
    destruct (bytes_eqb k' k) eqn:Eb; [|reflexivity]. apply bytes_eqb_spec in Eb. congruence.
Qed.

Lemma assoc_get_merge_eq k' l O :
  assoc_get k' (merge_origin k' l O) = Some (match assoc_get k' O with Some l0 => l0 ++ l | None => l end).
Proof.
  unfold merge_origin. destruct (assoc_get k' O) as [l0|] eqn:E.
  - apply assoc_get_insert_eq.
  - rewrite assoc_get_snoc, E. rewrite bytes_eqb_refl. reflexivity.
Qed.

Section Outer.
Variable m : N.
Variable old new : list N.
Variable each : list (list N) -> W unit.
Variable inner : list N -> list id -> W unit.
Hypothesis inner_nil : forall p', inner p' [] = wret tt.
Hypothesis inner_cons : forall p' re rr,
  inner p' (re :: rr) =
  (do rn <- get_node re;
   match n_content rn with
   | [] => set_node re (set_content rn [CData (DString p')])
   | _ :: tl => set_node re (set_content rn (CData (DString p') :: tl))
   end;; inner p' rr)%W.
Hypothesis each_nil : each [] = wret tt.
Hypothesis each_cons : forall refpath r,
  each (refpath :: r) =
  (match strip_prefix old refpath with
   | Some partial =>
     if is_empty partial || starts_with_slash partial then
       do y <- get_model m;
       match assoc_get refpath (m_origins y) with
       | Some reflist =>
         set_model m (set_origins y (assoc_remove refpath (m_origins y)));;
         inner (new ++ partial) reflist;;
         modify_model m (fun z => set_origins z (match assoc_get (new ++ partial) (m_origins z) with
                                                  | Some l0 => assoc_insert (new ++ partial) (l0 ++ reflist) (m_origins z)
                                                  | None => m_origins z ++ [(new ++ partial, reflist)] end))
       | None => wret tt
       end
     else wret tt
   | None => wret tt
   end;; each r)%W.

(* one iteration *)
Lemma body_sem k wc w1 xc (body : W unit) :
  body = (match strip_prefix old k with
   | Some partial =>
     if is_empty partial || starts_with_slash partial then
       do y <- get_model m;
       match assoc_get k (m_origins y) with
       | Some reflist =>
         set_model m (set_origins y (assoc_remove k (m_origins y)));;
         inner (new ++ partial) reflist;;
         modify_model m (fun z => set_origins z (match assoc_get (new ++ partial) (m_origins z) with
                                                  | Some l0 => assoc_insert (new ++ partial) (l0 ++ reflist) (m_origins z)
                                                  | None => m_origins z ++ [(new ++ partial, reflist)] end))
       | None => wret tt
       end
     else wret tt
   | None => wret tt
   end)%W ->
  model_at wc m = Some xc ->
  body wc = Val (OK tt, w1) ->
  match rekey old new k, assoc_get k (m_origins xc) with
  | Some k', Some l =>
    w_next w1 = w_next wc /\ w_files w1 = w_files wc /\
    w_models w1 = list_set (w_models wc) (N.to_nat m)
                    (set_origins xc (merge_origin k' l (assoc_remove k (m_origins xc)))) /\
    (forall i, In i l -> w_nodes w1 i = option_map (rewrite_head k') (w_nodes wc i)) /\
    (forall i, ~ In i l -> w_nodes w1 i = w_nodes wc i)
  | _, _ => w1 = wc
  end.
Proof.
  intros -> Hxc H. unfold rekey, boundary.
  destruct (strip_prefix old k) as [partial|]; [|apply wret_inv in H as (_ & ->); reflexivity].
  destruct (is_empty partial || starts_with_slash partial); [|apply wret_inv in H as (_ & ->); reflexivity].
  apply wbind_inv in H as [(y & w0 & E & H)|(e & _ & [=])].
  apply get_model_inv in E as (y0 & Hy & Q & ->). assert (y = y0) by congruence. subst y. clear Q.
  assert (y0 = xc) by (unfold model_at in Hxc; congruence). subst y0.
  destruct (assoc_get k (m_origins xc)) as [l|]; [|apply wret_inv in H as (_ & ->); reflexivity].
  apply wbind_inv in H as [(u & wa & E & H)|(e & _ & [=])]. apply set_model_inv in E as (_ & ->).
  apply wbind_inv in H as [(u2 & wb & E & H)|(e & _ & [=])]. destruct u2.
  destruct (inner_sem (inner (new ++ partial)) (new ++ partial) (inner_nil _) (inner_cons _) _ _ _ E)
    as (B1 & B2 & B3 & B4 & B5). cbn [w_next w_files w_models w_nodes] in *.
  apply modify_model_inv in H as (z & Hz & _ & ->). cbn [w_next w_files w_models w_nodes].
  rewrite B3 in Hz. rewrite (list_set_nth_eq _ _ _ _ Hy) in Hz. injection Hz as <-.
  rewrite B3. repeat split; auto.
  cbn [set_origins m_origins m_root m_files m_idents].
  clear. generalize (w_models wc). intros ms. generalize (N.to_nat m). intros j.
  revert j. induction ms as [|a ms IH]; intros [|j]; cbn; try reflexivity. f_equal. apply IH.
Qed.

Lemma outer_sem : forall todo wc w' xc,
  NoDup todo ->
  (forall k k', rekey old new k = Some k' -> rekey old new k' = None) ->
  model_at wc m = Some xc ->
  (forall k1 k2 k1' k2' l1 l2 r, In k1 todo -> In k2 todo -> k1 <> k2 ->
     rekey old new k1 = Some k1' -> rekey old new k2 = Some k2' ->
     assoc_get k1 (m_origins xc) = Some l1 -> assoc_get k2 (m_origins xc) = Some l2 -> In r l1 -> In r l2 -> False) ->
  each todo wc = Val (OK tt, w') ->
  same_frame m wc w' /\
  (forall i,
     (exists k k' l, In k todo /\ rekey old new k = Some k' /\ assoc_get k (m_origins xc) = Some l /\ In i l /\
                     w_nodes w' i = option_map (rewrite_head k') (w_nodes wc i))
     \/ ((forall k k' l, In k todo -> rekey old new k = Some k' -> assoc_get k (m_origins xc) = Some l -> ~ In i l) /\
         w_nodes w' i = w_nodes wc i)).
Proof.
  induction todo as [|k todo IH]; intros wc w' xc Hnd H5 Hxc Hdisj H.
  - rewrite each_nil in H. apply wret_inv in H as (_ & ->). split; [apply same_frame_refl|].
    intros i. right. split; [intros ? ? ? []|reflexivity].
  - rewrite each_cons in H. apply wbind_inv in H as [(u & w1 & E & H)|(e & _ & [=])]. destruct u.
    inversion Hnd as [|? ? Hk Hnd']; subst.
    pose proof (body_sem k wc w1 xc _ eq_refl Hxc E) as HB. clear E.
    destruct (rekey old new k) as [k'|] eqn:Er.
    2:{ subst w1. destruct (IH wc w' xc Hnd' H5 Hxc) as (F & G); [|exact H|].
        { intros; eapply (Hdisj k1 k2); eauto; right; assumption. }
        split; [exact F|]. intros i. destruct (G i) as [(k2 & k2' & l & G1 & G2 & G3 & G4 & G5)|(G1 & G2)].
        - left. exists k2, k2', l. repeat split; auto. right. exact G1.
        - right. split; [|exact G2]. intros k2 k2' l [<-|Hin] Hr Hl; [congruence|]. eapply G1; eauto. }
    destruct (assoc_get k (m_origins xc)) as [l|] eqn:El.
    2:{ subst w1. destruct (IH wc w' xc Hnd' H5 Hxc) as (F & G); [|exact H|].
        { intros; eapply (Hdisj k1 k2); eauto; right; assumption. }
        split; [exact F|]. intros i. destruct (G i) as [(k2 & k2' & l & G1 & G2 & G3 & G4 & G5)|(G1 & G2)].
        - left. exists k2, k2', l. repeat split; auto. right. exact G1.
        - right. split; [|exact G2]. intros k2 k2' l [<-|Hin] Hr Hl; [congruence|]. eapply G1; eauto. }
    destruct HB as (B1 & B2 & B3 & B4 & B5).
    set (O1 := merge_origin k' l (assoc_remove k (m_origins xc))) in *.
    set (x1 := set_origins xc O1) in *.
    assert (Hx1 : model_at w1 m = Some x1).
    { unfold model_at. rewrite B3. eapply list_set_nth_eq. exact Hxc. }
    assert (HO1 : forall k2 k2', In k2 todo -> rekey old new k2 = Some k2' ->
                   assoc_get k2 (m_origins x1) = assoc_get k2 (m_origins xc)).
    { intros k2 k2' Hin Hr. unfold x1, O1. cbn [set_origins m_origins].
      rewrite assoc_get_merge_neq.
      - apply assoc_get_remove_neq. intros ->. contradiction.
      - intros ->. rewrite (H5 _ _ Er) in Hr. discriminate. }
    destruct (IH w1 w' x1 Hnd' H5 Hx1) as (F & G); [|exact H|].
    { intros k1 k2 k1' k2' l1 l2 r I1 I2 Hne R1 R2 L1 L2. rewrite (HO1 _ _ I1 R1) in L1. rewrite (HO1 _ _ I2 R2) in L2.
      eapply (Hdisj k1 k2); eauto; right; assumption. }
    split.
    { eapply same_frame_trans; [|exact F]. split; [exact B1|]. split; [exact B2|]. split; [|split].
      - intros m2 Hne. unfold model_at. rewrite B3. apply list_set_nth_neq. intros E. apply Hne. apply N2Nat.inj. exact E.
      - intros x0 Hx0. assert (x0 = xc) by congruence. subst x0. exists x1. split; [exact Hx1|]. auto.
      - intros Hn. congruence. }
    intros i. destruct (G i) as [(k2 & k2' & l2 & G1 & G2 & G3 & G4 & G5)|(G1 & G2)].
    + rewrite (HO1 _ _ G1 G2) in G3. left. exists k2, k2', l2. split; [right; exact G1|]. repeat split; auto.
      rewrite G5. rewrite B5; [reflexivity|]. intros Hil.
      eapply (Hdisj k k2 k' k2' l l2 i); eauto; [left; reflexivity|right; exact G1|intros ->; contradiction].
    + destruct (in_dec N.eq_dec i l) as [Hil|Hnil].
      * left. exists k, k', l. split; [left; reflexivity|]. repeat split; auto. rewrite G2. apply B4. exact Hil.
      * right. split.
        -- intros k2 k2' l2 [<-|Hin] Hr Hl.
           ++ assert (l2 = l) by congruence. subst. exact Hnil.
           ++ eapply G1; eauto. rewrite (HO1 _ _ Hin Hr). exact Hl.
        -- rewrite G2. apply B5. exact Hnil.
Qed.

End Outer.
