(* Tree/NoPanicProofsOp2.v — C12 (panic / loop half) over the LARGE alphabet op2 of Tree/Script2.v, partial coverage.
   After any history of the (oracle) alphabet `op` from the empty world on the regenerated tables:
     Op1 o          covered: Tree/NoPanicProofsHistReal.v (every constructor of `op`)
     OpSort h       covered: agent-c14's never_fails_histories_real (Element::sort returns Ok in every such world, for the
     OpSortModel m           std insertion sort of the model) — composed here with the oracle alphabet
     OpSerializeElem h  covered: Tree/NoPanicProofsSer.v (Element::serialize in a world with H12; the float printer is the oracle)
     OpDuplicate / OpLoad / OpSetVersion / OpCheckCompat / OpSerializeFile      PENDING (covered_op2 = false):
        the parser under load_buffer is total (C02_load_total), the mask `unwrap` of check_version_compatibility is safe on
        the real tables (C17_unwrap_safe_real), the counter loop of duplicate's copies is total (C13_unique_loop_total);
        no theorem composes them to the whole call, the implementation fuzzer and the per-property harnesses cover these calls. *)
From Coq Require Import Lia.
From AV Require Import Base.Bytes Base.Outcome Hash.HashModel Spec.SpecOps Spec.SpecReal Xml.TablesOk
  Tree.Heap Tree.Ops Tree.Script Tree.Script2 Tree.Inv Tree.InvProofs Tree.Sort Tree.SortProofsOrder Tree.SortProofsHeap Tree.SortProofsReal.
From AV Require Import Hash.HashRealElement Hash.HashRealAttr Hash.HashRealEnum.
From AV Require Import Tree.NoPanic Tree.NoPanicProofsBase Tree.NoPanicProofsCopy2 Tree.NoPanicFloat
  Tree.NoPanicProofsHist Tree.NoPanicReal Tree.NoPanicProofsHistReal Tree.NoPanicProofsSer.
Open Scope list_scope.
Open Scope N_scope.

Definition covered_op2 (o : op2) : bool :=
  match o with Op1 _ | OpSort _ | OpSortModel _ | OpSerializeElem _ => true | _ => false end.
Definition pending_op2 (o : op2) : bool := negb (covered_op2 o).
Lemma coverage2 o : covered_op2 o = match o with Op1 _ | OpSort _ | OpSortModel _ | OpSerializeElem _ => true | _ => false end.
Proof. reflexivity. Qed.

(* the client side of one call of the large alphabet *)
Definition op2_wf (tab_el tab_en : nametab) (w : world) (o : op2) : Prop :=
  match o with
  | Op1 o1 => op_wf tab_el tab_en w o1 /\ SizeOk w
  | OpSort h | OpSerializeElem h => h < w_next w
  | OpSortModel m => m < N.of_nat (List.length (w_models w))
  | _ => True
  end.

Section Op2.
Variable T : tables.
Variable tab_el tab_at tab_en : nametab.
Variable check_fn : N -> list N -> res bool.
Variable float_parse : list N -> option N.
Variable float_fmt : N -> list N.                 (* ORACLE: f64::to_string (the serializer's and set_character_data's) *)
Variable LATEST name_index name_definition_ref attr_schema_location : N.
Variable root_attrs : list (N * cdata).

(* run_op2 with the small alphabet's float conversion replaced by the oracle *)
Definition run_op2F (o : op2) : W value2 :=
  match o with
  | Op1 o1 => (do v <- run_opF T tab_el tab_en check_fn LATEST root_attrs float_fmt o1; wret (V1 v))%W
  | _ => run_op2 T tab_el tab_at tab_en check_fn float_parse float_fmt LATEST name_index name_definition_ref attr_schema_location
                 root_attrs o
  end.
End Op2.

Lemma nth_opt_lt {A} (l : list A) k : (k < List.length l)%nat -> exists x, nth_opt l k = Some x.
Proof. revert k. induction l as [|a l IH]; intros [|k] H; cbn in *; try lia; eauto. apply IH. lia. Qed.

Section Real.
Variable check_fn : N -> list N -> res bool.
Variable float_parse : list N -> option N.
Variable fmt : N -> list N.
Variable LATEST name_index name_definition_ref attr_schema_location : N.
Variable root_attrs : list (N * cdata).
Hypothesis CHECK : forall fn s, exists b, check_fn fn s = Val b.
Hypothesis RootOK : forall a, In a root_attrs -> to_str tab_attr (fst a) <> None /\ cdata_named tab_enum (snd a).

Notation run_opsF' := (run_opsF RT tab_element tab_enum check_fn LATEST root_attrs fmt).
Notation wf_ops' := (wf_ops RT tab_element tab_enum check_fn LATEST root_attrs fmt).
Notation run2F := (run_op2F RT tab_element tab_attr tab_enum check_fn float_parse fmt LATEST name_index name_definition_ref
                            attr_schema_location root_attrs).

Theorem no_panic2_partial_real l w o :
  run_opsF' l empty_world = Val w -> wf_ops' l empty_world -> covered_op2 o = true -> op2_wf tab_element tab_enum w o ->
  (forall s, run2F o w <> Pan s) /\ run2F o w <> Fuel.
Proof.
  intros E WF COV WFo.
  assert (R : runs (run2F o) w); [|destruct R as (r & w1 & R); rewrite R; split; [intros s|]; discriminate].
  destruct o; try discriminate COV; cbn [op2_wf] in WFo; cbn [run_op2F run_op2].
  - destruct WFo as (WFo & SZ).
    destruct (no_panic_after_history_real check_fn LATEST root_attrs fmt CHECK RootOK l w o E WF WFo SZ) as (NP & NF).
    unfold runs, wbind.
    destruct (run_opF RT tab_element tab_enum check_fn LATEST root_attrs fmt o w) as [[[v|e] w1]|s|];
      [unfold wret; eauto|eauto|exfalso; exact (NP s eq_refl)|exfalso; exact (NF eq_refl)].
  - destruct (run_opsF_is_run_ops _ _ _ _ _ _ _ _ _ _ E) as (l' & E').
    destruct (never_fails_histories_real check_fn LATEST root_attrs name_index name_definition_ref isort_poly StableSort_isort
                RootOK l' w E') as (ES & _).
    assert (A : exists n, w_nodes w h = Some n).
    { apply (c_alloc w (Core_reachable _ _ _ _ _ _ _ _ E')). exact WFo. }
    destruct (ES h A) as (w' & Es & _). unfold runs, wbind. unfold e_sort. rewrite Es. unfold wret. eauto.
  - destruct (run_opsF_is_run_ops _ _ _ _ _ _ _ _ _ _ E) as (l' & E').
    destruct (never_fails_histories_real check_fn LATEST root_attrs name_index name_definition_ref isort_poly StableSort_isort
                RootOK l' w E') as (_ & MS).
    destruct (nth_opt_lt (w_models w) (N.to_nat m)) as (x & Hx); [lia|].
    destruct (MS m x Hx) as (w' & Es & _). unfold runs, wbind. unfold m_sort. rewrite Es. unfold wret. eauto.
  - pose proof (H12_reachableF_real check_fn LATEST root_attrs fmt RootOK l w E) as I.
    destruct (np_e_serialize RT tab_element tab_attr tab_enum fmt tables_ok12_real w h I WFo) as ([s|e] & w1 & Es);
      unfold runs, wbind; rewrite Es; unfold wret; eauto.
Qed.

End Real.
