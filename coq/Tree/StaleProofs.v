(* Tree/StaleProofs.v — C03, stale handles.
   Detached w h : h is allocated and its ancestor chain ends in PNone (it was removed, or it is garbage of a copy).
   * every allocated node is Live or Detached when TreeInv holds (live_or_detached);
   * a Detached node is not Live, so nothing done to it or below it can change the live model (detached_not_live);
   * every place-dependent request through a Detached handle fails with an error and leaves the world unchanged:
     parent / model / path / file membership queries, create*, copy, move (as destination or as moved element),
     remove*, set_item_name, set_character_data, set_reference_target, add_to_file, remove_from_file, set_attribute
     (min_version), get_or_create* (C03_stale below, by cases on the operation);
   * the requests that do not depend on the place (set_comment, remove_attribute, insert/remove character content
     item, remove_character_data on a non-reference element) may succeed; they only change the Detached node itself,
     so the live model is untouched (live_eq). *)
From Coq Require Import PeanoNat Arith.
From AV Require Import Base.Bytes Base.Outcome Hash.HashModel Tree.Heap Tree.Ops Tree.Script Tree.Inv
  Tree.InvProofsBase Tree.InvProofsCore Tree.InvProofsTree Tree.InvProofsPrim Tree.InvProofsData.
Open Scope string_scope.
Open Scope list_scope.
Open Scope N_scope.

(* ------------------------------------------------------------------ live or detached *)
Lemma reach_top w r x : Core w -> Reach w r x -> forall t, Top w r t -> Top w x t.
Proof.
  intros C Hr. induction Hr as [|p c Hr IH Hl]; intros t Ht; auto.
  apply C in Hl. destruct Hl as (n & Hn & Hp). eapply T_up; eauto.
Qed.

Lemma live_top w x : Core w -> Live w x -> exists m, Top w x (PModel m).
Proof.
  intros C (r & Hin & Hr). apply In_nth_error in Hin as (k & Hk).
  destruct (c_roots _ C _ _ Hk) as (n & Hn & Hp). exists (N.of_nat k).
  eapply reach_top; eauto. rewrite <- Hp. eapply T_here; eauto. rewrite Hp. congruence.
Qed.

Theorem detached_not_live w x : Core w -> Detached w x -> ~ Live w x.
Proof.
  intros C Hd Hl. destruct (live_top _ _ C Hl) as (m & Ht). pose proof (top_fun _ _ _ Hd _ Ht). discriminate.
Qed.

(* with NoOrphan, a chain that ends in a model root is listed all the way down *)
Lemma top_model_live w : Core w -> NoOrphan w -> forall x t, Top w x t -> forall m, t = PModel m -> Live w x.
Proof.
  intros C (O & R) x t Ht. induction Ht as [x n Hn Hnp | x n p t Hn Hp Ht IH]; intros m Hm.
  - exists x. split; [|constructor; eexists; eauto]. eapply nth_error_In. eapply R; eauto.
  - destruct (IH m Hm) as (r & Hr & Hreach). exists r. split; auto. eapply R_kid; eauto. apply O. exists n; auto.
Qed.

Theorem live_or_detached w x : TreeInv w -> allocated w x -> Live w x \/ Detached w x.
Proof.
  intros (C & O) Ha. destruct (c_depth _ C _ Ha) as (h & Hd). destruct (depth_top _ _ _ Hd) as (t & Ht).
  destruct t as [|m|p].
  - right. exact Ht.
  - left. eapply top_model_live; eauto.
  - exfalso. eapply top_not_pelem; eauto.
Qed.

(* ------------------------------------------------------------------ the walks fail on a detached node *)
Lemma top_none_inv w x n : Top w x PNone -> w_nodes w x = Some n ->
  n_parent n = PNone \/ exists p, n_parent n = PElem p /\ Top w p PNone.
Proof.
  intros Ht Hn. remember PNone as t eqn:Et. destruct Ht as [x n' Hn' Hnp | x n' p t Hn' Hp Ht].
  - left. congruence.
  - right. exists p. split; [congruence|]. subst t. auto.
Qed.

Lemma fm_walk_detached f : forall s x w r w', fm_walk f s x w = Val (r, w') ->
  Top w x PNone -> (forall y n, AncS w y x -> w_nodes w y = Some n -> n_files n = []) ->
  w' = w /\ r = ER ItemDeleted.
Proof.
  induction f as [|f IH]; intros s x w r w' H Ht Hf; cbn [fm_walk] in H; [discriminate|].
  wstep H; winv E. rewrite (Hf x n (A_refl _ _) Hn) in H. cbn [is_empty negb] in H.
  unfold parent_of in H. destruct (top_none_inv _ _ _ Ht Hn) as [Hp|(p & Hp & Htp)]; rewrite Hp in H.
  - wstep H; winv E. auto.
  - wstep H; winv E. eapply IH; eauto. intros y ny Hy. apply Hf. eapply ancs_trans; [exact Hy|].
    eapply A_up; [exists n; eauto | constructor].
Qed.

(* the local file sets on the chain of a detached node are empty (fix 6db19c9 clears them on removal) *)
Definition DetFiles (w : world) : Prop :=
  forall x y n, Detached w x -> AncS w y x -> w_nodes w y = Some n -> n_files n = [].

Lemma file_membership_detached w x r w' :
  DetFiles w -> Detached w x -> file_membership x w = Val (r, w') -> w' = w /\ r = ER ItemDeleted.
Proof.
  intros Hdf Hd H. unfold file_membership in H. wstep H; winv E. eapply fm_walk_detached; eauto.
Qed.

Lemma min_version_detached LATEST w x r w' :
  DetFiles w -> Detached w x -> min_version LATEST x w = Val (r, w') -> w' = w /\ r = ER ItemDeleted.
Proof.
  intros Hdf Hd H. unfold min_version in H. wstep H.
  - destruct (file_membership_detached _ _ _ _ Hdf Hd E) as (_ & [=]).
  - destruct (file_membership_detached _ _ _ _ Hdf Hd E) as (_ & [= ->]). auto.
Qed.

Lemma model_of_detached w x r w' : Detached w x -> model_of x w = Val (r, w') -> w' = w /\ r = ER ItemDeleted.
Proof.
  intros Hd H. apply model_of_top in H as (-> & t & Ht & Hr). pose proof (top_fun _ _ _ Hd _ Ht) as <-. auto.
Qed.

Lemma up_names_detached T f : forall p acc w r w', up_names T f p acc w = Val (r, w') ->
  (p = PNone \/ exists i, p = PElem i /\ Top w i PNone) -> w' = w /\ exists e, r = ER e.
Proof.
  induction f as [|f IH]; intros p acc w r w' H Hp; cbn [up_names] in H; [discriminate|].
  destruct Hp as [->|(i & -> & Ht)].
  - winv H. eauto.
  - wstep H; winv E. wstep H.
    2:{ split; eauto. }
    eapply IH; eauto. destruct (top_none_inv _ _ _ Ht Hn) as [Hp|(q & Hp & Htq)]; rewrite Hp; eauto.
Qed.

Lemma path_unchecked_detached T w x n r w' :
  Detached w x -> w_nodes w x = Some n -> path_unchecked T n w = Val (r, w') -> w' = w /\ exists e, r = ER e.
Proof.
  intros Hd Hn H. unfold path_unchecked in H. wstep H.
  2:{ split; eauto. }
  wstep H; winv E0. wstep H.
  - apply up_names_detached in E0 as (_ & e & [=]).
    destruct (top_none_inv _ _ _ Hd Hn) as [Hp|(q & Hp & Htq)]; rewrite Hp; eauto.
  - split; eauto.
Qed.

(* ------------------------------------------------------------------ queries through a detached handle *)
Section Stale.
Variable T : tables.
Variable tab_el tab_en : nametab.
Variable check_fn : N -> list N -> res bool.
Variable LATEST : N.
Variable root_attrs : list (N * cdata).

Notation run := (Inv.run T tab_el tab_en check_fn LATEST root_attrs).

(* the element through which the call is made *)
Definition principal (o : op) : option id :=
  match o with
  | OpCreateSub h _ | OpCreateSubAt h _ _ | OpCreateNamed h _ _ | OpCreateNamedAt h _ _ _
  | OpCopy h _ | OpCopyAt h _ _ | OpMove h _ | OpMoveAt h _ _ | OpRemove h _ | OpRemoveKind h _
  | OpSetItemName h _ | OpSetCData h _ | OpRemoveCData h | OpInsertCItem h _ _ | OpRemoveCItem h _
  | OpSetRefTarget h _ | OpSetAttr h _ _ | OpRemoveAttr h _ | OpSetComment h _
  | OpGetOrCreate h _ | OpGetOrCreateNamed h _ _ | OpAddToFile h _ | OpRemoveFromFile h _ => Some h
  | OpNewModel | OpCreateFile _ _ _ | OpRemoveFile _ _ => None
  end.

(* the requests that depend on the element's place in the model *)
Definition place_dependent (o : op) : bool :=
  match o with
  | OpCreateSub _ _ | OpCreateSubAt _ _ _ | OpCreateNamed _ _ _ | OpCreateNamedAt _ _ _ _
  | OpCopy _ _ | OpCopyAt _ _ _ | OpMove _ _ | OpMoveAt _ _ _ | OpRemove _ _ | OpRemoveKind _ _
  | OpSetItemName _ _ | OpSetCData _ _ | OpSetRefTarget _ _ | OpSetAttr _ _ _
  | OpGetOrCreate _ _ | OpGetOrCreateNamed _ _ _ | OpAddToFile _ _ | OpRemoveFromFile _ _ => true
  | _ => false
  end.

Definition failed {A} (r : out A) : Prop := exists e, r = ER e.

Ltac stale_fin := split; [reflexivity | eexists; reflexivity].
Ltac stale_contra Hd Hdf :=
  exfalso;
  match goal with
  | E : model_of _ _ = Val (OK _, _) |- _ => destruct (model_of_detached _ _ _ _ Hd E) as (_ & [=])
  | E : min_version _ _ _ = Val (OK _, _) |- _ => destruct (min_version_detached _ _ _ _ _ Hdf Hd E) as (_ & [=])
  | E : file_membership _ _ = Val (OK _, _) |- _ => destruct (file_membership_detached _ _ _ _ Hdf Hd E) as (_ & [=])
  end.

Lemma stale_elem_op (m : W id) w r w' :
  (forall r0 w0, m w = Val (r0, w0) -> w0 = w /\ failed r0) ->
  welem m w = Val (r, w') -> w' = w /\ failed r.
Proof.
  intros Hm H. unfold welem in H. wstep H.
  - destruct (Hm _ _ E) as (_ & e & [=]).
  - destruct (Hm _ _ E) as (-> & _). stale_fin.
Qed.
Lemma stale_unit_op (m : W unit) w r w' :
  (forall r0 w0, m w = Val (r0, w0) -> w0 = w /\ failed r0) ->
  wunit m w = Val (r, w') -> w' = w /\ failed r.
Proof.
  intros Hm H. unfold wunit in H. wstep H.
  - destruct (Hm _ _ E) as (_ & e & [=]).
  - destruct (Hm _ _ E) as (-> & _). stale_fin.
Qed.

(* every place-dependent request through a detached handle fails and changes nothing at all *)
(* the four requests that only ask for the file membership (min_version) and not for the model *)
Definition needs_version_only (o : op) : bool :=
  match o with
  | OpCreateSub _ _ | OpCreateSubAt _ _ _ | OpSetAttr _ _ _ | OpGetOrCreate _ _ => true
  | _ => false
  end.

Ltac stale_contra_m Hd :=
  exfalso;
  match goal with
  | E : model_of _ _ = Val (OK _, _) |- _ => destruct (model_of_detached _ _ _ _ Hd E) as (_ & [=])
  end.

Theorem stale_fails o h w r w' :
  (needs_version_only o = true -> DetFiles w) ->
  Detached w h -> principal o = Some h -> place_dependent o = true ->
  run o w = Val (r, w') -> w' = w /\ failed r.
Proof.
  intros Hdf0 Hd Hp Hpd H. unfold Inv.run in H.
  assert (Hdf : needs_version_only o = true -> DetFiles w) by exact Hdf0. clear Hdf0.
  destruct o; try discriminate Hpd; injection Hp as ->; cbn [run_op] in H;
    first [ apply stale_elem_op in H; [exact H|] | apply stale_unit_op in H; [exact H|] ];
    clear H; intros r0 w0 H.
  - unfold e_create_sub_element in H. wrun_ro H stale_fin. all: stale_contra Hd (Hdf eq_refl).
  - unfold e_create_sub_element_at in H. wrun_ro H stale_fin. all: stale_contra Hd (Hdf eq_refl).
  - unfold e_create_named_sub_element in H. wrun_ro H stale_fin. all: stale_contra_m Hd.
  - unfold e_create_named_sub_element_at in H. wrun_ro H stale_fin. all: stale_contra_m Hd.
  - unfold e_create_copied_sub_element in H. wrun_ro H stale_fin. all: stale_contra_m Hd.
  - unfold e_create_copied_sub_element_at in H. wrun_ro H stale_fin. all: stale_contra_m Hd.
  - unfold e_move_element_here in H. wrun_ro H stale_fin. all: stale_contra_m Hd.
  - unfold e_move_element_here_at in H. wrun_ro H stale_fin. all: stale_contra_m Hd.
  - unfold e_remove_sub_element in H. wrun_ro H stale_fin. all: stale_contra_m Hd.
  - unfold e_remove_sub_element_kind, e_remove_sub_element in H. wrun_ro H stale_fin. all: stale_contra_m Hd.
  - unfold e_set_item_name in H. wrun_ro H stale_fin. all: stale_contra_m Hd.
  - unfold e_set_character_data in H. wrun_ro H stale_fin. all: stale_contra_m Hd.
  - unfold e_set_reference_target in H. wrun_ro H stale_fin. all: stale_contra_m Hd.
  - unfold e_set_attribute in H. wrun_ro H stale_fin. all: stale_contra Hd (Hdf eq_refl).
  - unfold e_get_or_create_sub_element in H. wrun_ro H stale_fin. all: stale_contra Hd (Hdf eq_refl).
  - unfold e_get_or_create_named_sub_element in H. wrun_ro H stale_fin. all: stale_contra_m Hd.
  - unfold e_add_to_file in H. wrun_ro H stale_fin. all: stale_contra_m Hd.
  - unfold e_remove_from_file in H. wrun_ro H stale_fin. all: stale_contra_m Hd.
Qed.

(* a detached element as the element to be moved *)
Theorem stale_moved h mv w r w' :
  Detached w mv ->
  (run (OpMove h mv) w = Val (r, w') -> w' = w /\ failed r) /\
  (forall pos, run (OpMoveAt h mv pos) w = Val (r, w') -> w' = w /\ failed r).
Proof.
  intros Hd. split; [|intros pos]; intros H; unfold Inv.run in H; cbn [run_op] in H;
    (apply stale_elem_op in H; [exact H|]); clear H; intros r0 w0 H.
  - unfold e_move_element_here in H. wrun_ro H stale_fin. all: stale_contra_m Hd.
  - unfold e_move_element_here_at in H. wrun_ro H stale_fin. all: stale_contra_m Hd.
Qed.

(* a detached element as reference target *)
Theorem stale_target h target w r w' :
  Detached w target -> run (OpSetRefTarget h target) w = Val (r, w') -> w' = w /\ failed r.
Proof.
  intros Hd H. unfold Inv.run in H. cbn [run_op] in H. apply stale_unit_op in H; [exact H|]. clear H.
  intros r0 w0 H. unfold e_set_reference_target in H.
  wstepn H n En; winv En. wstepn H isr Ei; winv Ei. destruct (negb v); [winv H; stale_fin|].
  wstepn H np Ep.
  - exfalso. unfold path_id in Ep. wstepn Ep tn Et; winv Et. unfold path_of in Ep. wstepn Ep idf Ei.
    destruct idf; [|winv Ep].
    destruct (path_unchecked_detached _ _ _ _ _ _ Hd Hn0 Ep) as (_ & e & [=]).
  - stale_fin.
Qed.

(* the requests that do not depend on the place: only the detached node itself may change *)
Definition only_node (h : id) (w w' : world) : Prop :=
  w_models w' = w_models w /\ w_files w' = w_files w /\ forall x, x <> h -> w_nodes w' x = w_nodes w x.

Lemma only_node_refl h w : only_node h w w. Proof. repeat split; auto. Qed.
Lemma only_node_wset h w n : only_node h w (wset w h n).
Proof. repeat split; auto. intros x Hx. apply nodes_wset_neq. auto. Qed.

Lemma only_node_live_eq w w' h : Core w -> Detached w h -> only_node h w w' -> live_eq w w'.
Proof.
  intros C Hd (Hm & Hf & Hn). repeat split; auto. intros x Hl. apply Hn. intros ->.
  eapply detached_not_live; eauto.
Qed.

Theorem stale_local o h w r w' :
  Core w -> Detached w h -> principal o = Some h -> place_dependent o = false ->
  run o w = Val (r, w') -> live_eq w w'.
Proof.
  intros C Hd Hp Hpd H. eapply only_node_live_eq; eauto. unfold Inv.run in H.
  destruct o; try discriminate Hpd; try discriminate Hp; injection Hp as ->; cbn [run_op] in H;
    apply wbind_inv in H as [(a & w1 & H & H2) | (e & H & _)];
    try (apply wret_inv in H2 as (_ & ->)).
  - unfold e_remove_character_data in H. wrun_ro H ltac:(apply only_node_refl).
    wstepn H u Es.
    assert (w0 = w) as ->.
    { destruct v1; [|winv Es; auto]. wstepn Es m Em. stale_contra_m Hd. }
    apply modify_node_wset in H as (n1 & _ & _ & ->). apply only_node_wset.
  - unfold e_remove_character_data in H. wrun_ro H ltac:(apply only_node_refl).
    wstepn H u Es.
    + prim_noerr H.
    + destruct v1; [|winv Es]. wstepn Es m Em. { stale_contra_m Hd. } apply only_node_refl.
  - unfold e_insert_character_content_item in H. wrun H ltac:(first [apply only_node_refl | apply only_node_wset]).
  - unfold e_insert_character_content_item in H. wrun H ltac:(first [apply only_node_refl | apply only_node_wset]).
  - unfold e_remove_character_content_item in H. wrun H ltac:(first [apply only_node_refl | apply only_node_wset]).
  - unfold e_remove_character_content_item in H. wrun H ltac:(first [apply only_node_refl | apply only_node_wset]).
  - unfold e_remove_attribute in H. wrun H ltac:(first [apply only_node_refl | apply only_node_wset]).
  - unfold e_remove_attribute in H. wrun H ltac:(first [apply only_node_refl | apply only_node_wset]).
  - unfold e_set_comment in H. apply modify_node_wset in H as (n1 & _ & _ & ->). apply only_node_wset.
  - unfold e_set_comment in H. prim_noerr H.
Qed.

(* the queries *)
Theorem stale_queries h w :
  Detached w h ->
  (forall r w', q_model h w = Val (r, w') -> w' = w /\ r = ER ItemDeleted) /\
  (forall r w', q_path T h w = Val (r, w') -> w' = w /\ failed r) /\
  (forall r w', DetFiles w -> q_file_membership h w = Val (r, w') -> w' = w /\ r = ER ItemDeleted) /\
  (forall r w', parent_in w h = PNone -> q_parent h w = Val (r, w') -> w' = w /\ r = ER ItemDeleted).
Proof.
  intros Hd. split; [|split; [|split]].
  - intros r w'. apply model_of_detached; auto.
  - intros r w' H. unfold q_path, path_id in H. wstepn H n En; winv En. unfold path_of in H.
    wstepn H idf Ei; [|stale_fin]. destruct idf; [|winv H; stale_fin].
    destruct (path_unchecked_detached _ _ _ _ _ _ Hd Hn H) as (-> & e & ->). stale_fin.
  - intros r w' Hdf. apply file_membership_detached; auto.
  - intros r w' Hp H. unfold q_parent in H. wstepn H n En; winv En. unfold parent_in in Hp. rewrite Hn in Hp.
    unfold parent_of in H. rewrite Hp in H. winv H. auto.
Qed.

End Stale.
