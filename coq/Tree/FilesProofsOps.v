(* Tree/FilesProofsOps.v — C10 proofs, layer 3: every operation other than the file operations and move satisfies
   Frame (its effect on the world never touches a local file set of a node that stays in the tree, the file list of
   a model or the type of a node; nodes it allocates start with an empty set). *)
From Coq Require Import PeanoNat Arith Lia.
From AV Require Import Base.Bytes Base.Outcome Hash.HashModel Tree.Heap Tree.Ops Tree.Script Tree.Serialize
  Tree.Inv Tree.InvProofsBase Tree.InvProofsCore Tree.InvProofsTree Tree.Files Tree.FilesProofsBase Tree.FilesProofsProj
  Tree.FilesProofsFrame.
Open Scope string_scope.
Open Scope list_scope.
Open Scope N_scope.

(* ------------------------------------------------------------------ fresh ids *)
Definition Fresh (w : world) : Prop := forall x, w_next w <= x -> w_nodes w x = None.

Lemma core_fresh w : Core w -> Fresh w.
Proof.
  intros C x Hx. destruct (w_nodes w x) as [n|] eqn:E; auto.
  assert (allocated w x) as A by (exists n; auto). apply (c_alloc _ C) in A. lia.
Qed.

Lemma fresh_lt w x n : Fresh w -> w_nodes w x = Some n -> x < w_next w.
Proof. intros F H. destruct (N.lt_ge_cases x (w_next w)) as [L|L]; auto. rewrite (F _ L) in H. discriminate. Qed.

(* ------------------------------------------------------------------ elementary world changes *)
Lemma frame_wset w i n n' : w_nodes w i = Some n -> node_kept n n' -> Frame w (wset w i n').
Proof.
  intros Hn K. constructor; cbn; auto; try lia.
  - intros x m Hm. unfold upd. destruct (x =? i) eqn:E.
    + apply N.eqb_eq in E. subst. exists n'. split; auto. assert (m = n) by congruence. subst. exact K.
    + exists m. split; auto. apply node_kept_refl.
  - intros x m' Hnone. unfold upd. destruct (x =? i) eqn:E.
    + apply N.eqb_eq in E. subst. congruence.
    + congruence.
  - intros x' Hx'. left. eauto.
Qed.
Lemma fresh_wset w i n n' : Fresh w -> w_nodes w i = Some n -> Fresh (wset w i n').
Proof.
  intros F Hn x Hx. cbn in *. unfold upd. destruct (x =? i) eqn:E; auto.
  apply N.eqb_eq in E. subst. pose proof (fresh_lt _ _ _ F Hn). lia.
Qed.

Lemma frame_walloc w n : Fresh w -> n_files n = [] -> Frame w (walloc w n).
Proof.
  intros F Hf. constructor; cbn; auto; try lia.
  - intros x m Hm. unfold upd. destruct (x =? w_next w) eqn:E.
    + apply N.eqb_eq in E. subst. rewrite (F (w_next w)) in Hm by lia. discriminate.
    + exists m. split; auto. apply node_kept_refl.
  - intros x m' Hnone. unfold upd. destruct (x =? w_next w) eqn:E; [intros [= <-]; auto|congruence].
  - intros x' Hx'. left. eauto.
Qed.
Lemma fresh_walloc w n : Fresh w -> Fresh (walloc w n).
Proof.
  intros F x Hx. cbn in *. unfold upd. destruct (x =? w_next w) eqn:E.
  - apply N.eqb_eq in E. lia.
  - apply F. lia.
Qed.

Lemma frame_wmodels w ms : map mview ms = map mview (w_models w) -> Frame w (wmodels w ms).
Proof.
  intros H. constructor; cbn; auto; try lia.
  - intros x n Hn. exists n. split; auto. apply node_kept_refl.
  - intros x n' H1 H2. congruence.
  - intros x' Hx'. left. apply (in_map mview) in Hx'. rewrite H in Hx'. apply in_map_iff in Hx' as (x & E & Hx). eauto.
Qed.
Lemma fresh_wmodels w ms : Fresh w -> Fresh (wmodels w ms).
Proof. intros F x Hx. apply F. exact Hx. Qed.

Lemma frame_wfiles w fs : w_files w = fs -> Frame w (mkWorld (w_nodes w) (w_next w) fs (w_models w)).
Proof.
  intros <-. constructor; cbn; auto; try lia.
  - intros x n Hn. exists n. split; auto. apply node_kept_refl.
  - intros x n' H1 H2. congruence.
  - intros x' Hx'. left. eauto.
Qed.

(* a node that is new with respect to w may be rewritten freely as long as its set stays empty *)
Lemma frame_upd_new w w1 c n' : Frame w w1 -> w_nodes w c = None -> n_files n' = [] -> Frame w (wset w1 c n').
Proof.
  intros [N O W M Fl] Hc Hf. constructor; cbn; auto.
  - intros x n Hn. unfold upd. destruct (x =? c) eqn:E; [apply N.eqb_eq in E; subst; congruence|]. apply O. exact Hn.
  - intros x m' Hnone. unfold upd. destruct (x =? c) eqn:E; [intros [= <-]; auto|]. apply W. exact Hnone.
Qed.

(* ------------------------------------------------------------------ the predicate and its closure *)
Definition ff {A} (m : W A) : Prop := forall w r w', Fresh w -> m w = Val (r, w') -> Frame w w' /\ Fresh w'.

Lemma ff_ro {A} (m : W A) : ro m -> ff m.
Proof. intros R w r w' F H. apply R in H. subst. split; auto. apply Frame_refl. Qed.

Lemma ff_bind {A B} (m : W A) (k : A -> W B) : ff m -> (forall a, ff (k a)) -> ff (wbind m k).
Proof.
  intros Hm Hk w r w' F H. apply wbind_inv in H as [(a & w1 & H1 & H2) | (e & H1 & _)].
  - destruct (Hm _ _ _ F H1) as (F1 & R1). destruct (Hk a _ _ _ R1 H2) as (F2 & R2). split; auto. eapply Frame_trans; eauto.
  - eapply Hm; eauto.
Qed.
Lemma ff_try {A} (m : W A) : ff m -> ff (wtry m).
Proof. intros Hm w r w' F H. apply wtry_inv in H as (r0 & H & _). eapply Hm; eauto. Qed.
Lemma ff_catch {A} (m : W A) : ff m -> ff (wcatch m).
Proof. intros Hm w r w' F H. apply wcatch_inv in H as (r0 & H & _). eapply Hm; eauto. Qed.

Lemma ff_modify_node i f : (forall n, node_kept n (f n)) -> ff (modify_node i f).
Proof.
  intros K w r w' F H. apply modify_node_wset in H as (n & Hn & _ & ->). split.
  - eapply frame_wset; eauto.
  - eapply fresh_wset; eauto.
Qed.
Lemma ff_alloc n : n_files n = [] -> ff (alloc n).
Proof.
  intros Hf w r w' F H. apply alloc_walloc in H as (_ & ->). split; [apply frame_walloc | apply fresh_walloc]; auto.
Qed.

Lemma mview_list_set l k (x y : model) : nth_opt l k = Some x -> mview y = mview x -> map mview (list_set l k y) = map mview l.
Proof.
  revert k. induction l as [|z l IH]; intros [|k] H E; cbn in *; try discriminate; auto.
  - injection H as ->. rewrite E. reflexivity.
  - f_equal. eapply IH; eauto.
Qed.

Lemma ff_modify_model m f : (forall x, mview (f x) = mview x) -> ff (modify_model m f).
Proof.
  intros K w r w' F H. apply modify_model_inv in H as (x & Hx & _ & ->). split; [|apply fresh_wmodels; auto].
  apply frame_wmodels. eapply mview_list_set; eauto.
Qed.

(* set_model right after get_model *)
Lemma ff_get_set_model m (g : model -> model) (k : unit -> W unit) :
  (forall x, mview (g x) = mview x) -> (ff (k tt)) -> ff (wbind (get_model m) (fun x => wbind (set_model m (g x)) k)).
Proof.
  intros K Hk w r w' F H.
  apply wbind_inv in H as [(x & w1 & H1 & H2) | (e & H1 & _)].
  - apply get_model_inv in H1 as (x' & Hx & [= <-] & ->).
    apply wbind_inv in H2 as [(u & w2 & H2 & H3) | (e & H2 & _)].
    + apply set_model_inv in H2 as (_ & ->). destruct u.
      assert (Frame w (wmodels w (list_set (w_models w) (N.to_nat m) (g x)))) as F1
        by (apply frame_wmodels; eapply mview_list_set; eauto).
      destruct (Hk _ _ _ (fresh_wmodels _ _ F) H3) as (F2 & R2). split; auto. eapply Frame_trans; eauto.
    + apply set_model_inv in H2 as ([=] & _).
  - apply get_model_inv in H1 as (x' & _ & [=] & _).
Qed.

(* ------------------------------------------------------------------ with a known node: set_node after get_node *)
Definition ffat (i : id) (n : node) {A} (m : W A) : Prop :=
  forall w r w', Fresh w -> w_nodes w i = Some n -> m w = Val (r, w') -> Frame w w' /\ Fresh w'.

Lemma ffat_ff i n {A} (m : W A) : ff m -> ffat i n m.
Proof. intros H w r w' F _ E. eapply H; eauto. Qed.
Lemma ffat_set_node i n n' : node_kept n n' -> ffat i n (set_node i n').
Proof.
  intros K w r w' F Hn H. apply set_node_wset in H as (_ & ->). split; [eapply frame_wset | eapply fresh_wset]; eauto.
Qed.
Lemma ffat_bind_ro i n {A B} (m : W A) (k : A -> W B) : ro m -> (forall a, ffat i n (k a)) -> ffat i n (wbind m k).
Proof.
  intros R Hk w r w' F Hn H. apply wbind_inv in H as [(a & w1 & H1 & H2) | (e & H1 & _)].
  - apply R in H1. subst. eapply Hk; eauto.
  - apply R in H1. subst. split; auto. apply Frame_refl.
Qed.
Lemma ffat_bind i n {A B} (m : W A) (k : A -> W B) : ffat i n m -> (forall a, ff (k a)) -> ffat i n (wbind m k).
Proof.
  intros Hm Hk w r w' F Hn H. apply wbind_inv in H as [(a & w1 & H1 & H2) | (e & H1 & _)].
  - destruct (Hm _ _ _ F Hn H1) as (F1 & R1). destruct (Hk a _ _ _ R1 H2) as (F2 & R2). split; auto. eapply Frame_trans; eauto.
  - eapply Hm; eauto.
Qed.
Lemma ff_get_node i {B} (k : node -> W B) : (forall n, ffat i n (k n)) -> ff (wbind (get_node i) k).
Proof.
  intros Hk w r w' F H. apply wbind_inv in H as [(a & w1 & H1 & H2) | (e & H1 & _)].
  - apply get_node_inv in H1 as (n & Hn & [= <-] & ->). eapply Hk; eauto.
  - apply get_node_inv in H1 as (n & _ & [=] & _).
Qed.
Lemma ffat_get_node i n j {B} (k : node -> W B) : (forall n', ffat j n' (k n')) -> ffat i n (wbind (get_node j) k).
Proof. intros Hk. apply ffat_ff. apply ff_get_node. exact Hk. Qed.

(* the same with a known model: set_model after get_model *)
Definition ffmod (m : N) (x : model) {A} (mm : W A) : Prop :=
  forall w r w', Fresh w -> nth_opt (w_models w) (N.to_nat m) = Some x -> mm w = Val (r, w') -> Frame w w' /\ Fresh w'.

Lemma ffmod_ff m x {A} (mm : W A) : ff mm -> ffmod m x mm.
Proof. intros H w r w' F _ E. eapply H; eauto. Qed.
Lemma ffmod_set_model m x y : mview y = mview x -> ffmod m x (set_model m y).
Proof.
  intros K w r w' F Hx H. apply set_model_inv in H as (_ & ->). split; [|apply fresh_wmodels; auto].
  apply frame_wmodels. eapply mview_list_set; eauto.
Qed.
Lemma ffmod_bind_ro m x {A B} (mm : W A) (k : A -> W B) : ro mm -> (forall a, ffmod m x (k a)) -> ffmod m x (wbind mm k).
Proof.
  intros R Hk w r w' F Hx H. apply wbind_inv in H as [(a & w1 & H1 & H2) | (e & H1 & _)].
  - apply R in H1. subst. eapply Hk; eauto.
  - apply R in H1. subst. split; auto. apply Frame_refl.
Qed.
Lemma ffmod_bind m x {A B} (mm : W A) (k : A -> W B) : ffmod m x mm -> (forall a, ff (k a)) -> ffmod m x (wbind mm k).
Proof.
  intros Hm Hk w r w' F Hx H. apply wbind_inv in H as [(a & w1 & H1 & H2) | (e & H1 & _)].
  - destruct (Hm _ _ _ F Hx H1) as (F1 & R1). destruct (Hk a _ _ _ R1 H2) as (F2 & R2). split; auto. eapply Frame_trans; eauto.
  - eapply Hm; eauto.
Qed.
Lemma ff_get_model m {B} (k : model -> W B) : (forall x, ffmod m x (k x)) -> ff (wbind (get_model m) k).
Proof.
  intros Hk w r w' F H. apply wbind_inv in H as [(a & w1 & H1 & H2) | (e & H1 & _)].
  - apply get_model_inv in H1 as (x & Hx & [= <-] & ->). eapply Hk; eauto.
  - apply get_model_inv in H1 as (x & _ & [=] & _).
Qed.

Lemma kept_set_content n c : node_kept n (set_content n c). Proof. split; cbn; auto. Qed.
Lemma kept_set_attrs n a : node_kept n (set_attrs n a). Proof. split; cbn; auto. Qed.
Lemma kept_set_comment n c : node_kept n (set_comment n c). Proof. split; cbn; auto. Qed.
Lemma kept_removed n : node_kept n (set_parent (set_files (set_content n []) []) PNone).
Proof. split; cbn; auto. Qed.

Create HintDb ff discriminated.
#[export] Hint Resolve kept_set_content kept_set_attrs kept_set_comment kept_removed node_kept_refl : ff.

Ltac ff_step :=
  first
  [ apply ff_ro; solve [ro_tac]
  | solve [auto with ff]
  | match goal with
    | |- ffat _ _ (match ?x with _ => _ end) => destruct x
    | |- ffat _ _ (if ?b then _ else _) => destruct b
    | |- ffat _ _ (let '(_, _) := ?x in _) => destruct x
    | |- ffat _ _ (set_node _ _) => apply ffat_set_node; solve [auto with ff]
    | |- ffat _ _ (wbind _ _) => first [ apply ffat_bind_ro; [solve [ro_tac] | intros ?] | apply ffat_bind; [ | intros ? ] ]
    | |- ffat _ _ _ => apply ffat_ff
    end
  | match goal with
    | |- ffmod _ _ (match ?x with _ => _ end) => destruct x
    | |- ffmod _ _ (if ?b then _ else _) => destruct b
    | |- ffmod _ _ (let '(_, _) := ?x in _) => destruct x
    | |- ffmod _ _ (set_model _ _) => apply ffmod_set_model; reflexivity
    | |- ffmod _ _ (wbind _ _) => first [ apply ffmod_bind_ro; [solve [ro_tac] | intros ?] | apply ffmod_bind; [ | intros ? ] ]
    | |- ffmod _ _ _ => apply ffmod_ff
    end
  | apply ff_modify_node; solve [intros; auto with ff]
  | apply ff_alloc; reflexivity
  | apply ff_modify_model; solve [intros; reflexivity]
  | apply ff_get_node; intros ?
  | match goal with |- ff (wbind (get_model _) _) => apply ff_get_model; intros ? end
  | apply ff_bind; [ | intros ? ]
  | apply ff_try | apply ff_catch
  | match goal with
    | |- ff ((fix f (l : list _) {struct l} : _ := _) ?l0) =>
      let l := fresh "l" in let a := fresh "a" in let IHl := fresh "IHl" in
      generalize l0; intros l; induction l as [|a l IHl]; [ | simpl ]
    | |- ff (match ?x with _ => _ end) => destruct x
    | |- ff (if ?b then _ else _) => destruct b
    | |- ff (let '(_, _) := ?x in _) => destruct x
    end ].
Ltac ff_tac := repeat ff_step.

Section Ops.
Variable T : tables.
Variable tab_el tab_en : nametab.
Variable check_fn : N -> list N -> res bool.
Variable LATEST : N.

(* ---------- the index maps ---------- *)
Lemma ff_add_identifiable m p e : ff (add_identifiable m p e).
Proof. unfold add_identifiable. ff_tac. Qed.
Lemma ff_remove_identifiable m p : ff (remove_identifiable m p).
Proof. unfold remove_identifiable. ff_tac. Qed.
Lemma ff_fix_identifiables m a b : ff (fix_identifiables m a b).
Proof. unfold fix_identifiables. ff_tac. Qed.
Lemma ff_add_reference_origin m r e : ff (add_reference_origin m r e).
Proof. unfold add_reference_origin. ff_tac. Qed.
Lemma ff_fix_reference_origins m a b e : ff (fix_reference_origins m a b e).
Proof. unfold fix_reference_origins. ff_tac. Qed.
Lemma ff_remove_reference_origin m r e : ff (remove_reference_origin m r e).
Proof. unfold remove_reference_origin. ff_tac. Qed.
Hint Resolve ff_add_identifiable ff_remove_identifiable ff_fix_identifiables ff_add_reference_origin
  ff_fix_reference_origins ff_remove_reference_origin : ff.

(* ---------- small mutators ---------- *)
Lemma ff_content_insert self pos it : ff (content_insert self pos it).
Proof. unfold content_insert. ff_tac. Qed.
Lemma ff_raw_set_character_data i v version : ff (raw_set_character_data T check_fn i v version).
Proof. unfold raw_set_character_data. ff_tac. Qed.
Lemma ff_raw_set_attribute h attr v version : ff (raw_set_attribute T check_fn h attr v version).
Proof. unfold raw_set_attribute. ff_tac. Qed.
Hint Resolve ff_content_insert ff_raw_set_character_data ff_raw_set_attribute : ff.

Lemma ff_e_set_comment h c : ff (e_set_comment h c).
Proof. unfold e_set_comment. ff_tac. Qed.
Lemma ff_e_set_attribute h attr v : ff (e_set_attribute T check_fn LATEST h attr v).
Proof. unfold e_set_attribute. ff_tac. Qed.
Lemma ff_e_remove_attribute h attr : ff (e_remove_attribute T h attr).
Proof. unfold e_remove_attribute. ff_tac. Qed.
Lemma ff_e_insert_citem h text pos : ff (e_insert_character_content_item T h text pos).
Proof. unfold e_insert_character_content_item. ff_tac. Qed.
Lemma ff_e_remove_citem h pos : ff (e_remove_character_content_item T h pos).
Proof. unfold e_remove_character_content_item. ff_tac. Qed.
Lemma ff_e_remove_character_data h : ff (e_remove_character_data T h).
Proof. unfold e_remove_character_data. ff_tac. Qed.

(* ---------- creation ---------- *)
Lemma ff_create_sub_element_inner self name pos version : ff (create_sub_element_inner T self name pos version).
Proof. unfold create_sub_element_inner, new_node. ff_tac. Qed.
Hint Resolve ff_create_sub_element_inner : ff.
Lemma ff_raw_create_sub_element self name version : ff (raw_create_sub_element T self name version).
Proof. unfold raw_create_sub_element. ff_tac. Qed.
Lemma ff_raw_create_sub_element_at self name pos version : ff (raw_create_sub_element_at T self name pos version).
Proof. unfold raw_create_sub_element_at. ff_tac. Qed.
Hint Resolve ff_raw_create_sub_element ff_raw_create_sub_element_at : ff.
Lemma ff_create_named_inner self name item pos m version : ff (create_named_sub_element_inner T check_fn self name item pos m version).
Proof. unfold create_named_sub_element_inner, new_node. ff_tac. Qed.
Hint Resolve ff_create_named_inner : ff.
Lemma ff_raw_create_named self name item m version : ff (raw_create_named_sub_element T check_fn self name item m version).
Proof. unfold raw_create_named_sub_element. ff_tac. Qed.
Lemma ff_raw_create_named_at self name item pos m version : ff (raw_create_named_sub_element_at T check_fn self name item pos m version).
Proof. unfold raw_create_named_sub_element_at. ff_tac. Qed.
Hint Resolve ff_raw_create_named ff_raw_create_named_at : ff.

Lemma ff_e_create_sub h name : ff (e_create_sub_element T LATEST h name).
Proof. unfold e_create_sub_element. ff_tac. Qed.
Lemma ff_e_create_sub_at h name pos : ff (e_create_sub_element_at T LATEST h name pos).
Proof. unfold e_create_sub_element_at. ff_tac. Qed.
Lemma ff_e_create_named h name item : ff (e_create_named_sub_element T check_fn LATEST h name item).
Proof. unfold e_create_named_sub_element. ff_tac. Qed.
Lemma ff_e_create_named_at h name item pos : ff (e_create_named_sub_element_at T check_fn LATEST h name item pos).
Proof. unfold e_create_named_sub_element_at. ff_tac. Qed.
Lemma ff_e_get_or_create h name : ff (e_get_or_create_sub_element T LATEST h name).
Proof. unfold e_get_or_create_sub_element. ff_tac. Qed.
Lemma ff_e_get_or_create_named h name item : ff (e_get_or_create_named_sub_element T check_fn LATEST h name item).
Proof. unfold e_get_or_create_named_sub_element. ff_tac. Qed.

(* ---------- character data, names, references ---------- *)
Lemma ff_e_set_character_data h v : ff (e_set_character_data T tab_en check_fn LATEST h v).
Proof. unfold e_set_character_data. ff_tac. Qed.
Lemma ff_e_set_item_name h name : ff (e_set_item_name T check_fn LATEST h name).
Proof. unfold e_set_item_name. ff_tac. Qed.
Lemma ff_e_set_reference_target h target : ff (e_set_reference_target T tab_el tab_en check_fn LATEST h target).
Proof. unfold e_set_reference_target. ff_tac. Qed.

(* ---------- removal ---------- *)
Lemma ff_remove_internal fuel : forall i m path, ff (remove_internal T fuel i m path).
Proof.
  induction fuel as [|fuel IH]; intros i m path; cbn [remove_internal]; ff_tac.
Qed.
Hint Resolve ff_remove_internal : ff.
Lemma ff_raw_remove_sub_element self sub m : ff (raw_remove_sub_element T self sub m).
Proof. unfold raw_remove_sub_element. ff_tac. Qed.
Hint Resolve ff_raw_remove_sub_element : ff.
Lemma ff_e_remove_sub_element h sub : ff (e_remove_sub_element T h sub).
Proof. unfold e_remove_sub_element. ff_tac. Qed.
Hint Resolve ff_e_remove_sub_element : ff.
Lemma ff_e_remove_sub_element_kind h name : ff (e_remove_sub_element_kind T h name).
Proof. unfold e_remove_sub_element_kind. ff_tac. Qed.

(* ---------- copy ---------- *)
Lemma ff_register_subtree fuel : forall m cur i, ff (register_subtree T fuel m cur i).
Proof. induction fuel as [|fuel IH]; intros m cur i; cbn [register_subtree]; ff_tac. Qed.
Hint Resolve ff_register_subtree : ff.
Lemma ff_make_unique_item_name i m pp : ff (make_unique_item_name T i m pp).
Proof. unfold make_unique_item_name. ff_tac. Qed.
Hint Resolve ff_make_unique_item_name : ff.

(* deep_copy re-parents the copies it has just allocated: Frame holds for the whole call, and the result is fresh *)
Definition dc_spec (fuel : nat) : Prop :=
  forall src v w r w', Fresh w -> deep_copy T fuel src v w = Val (r, w') ->
  Frame w w' /\ Fresh w' /\ (forall c, r = OK c -> c = w_next w).

(* a step `re-parent a node that is new since w0` *)
Lemma frame_reparent_new w0 w1 cs p r w2 :
  Frame w0 w1 -> Fresh w1 -> w_nodes w0 cs = None ->
  modify_node cs (fun x => set_parent x p) w1 = Val (r, w2) -> Frame w0 w2 /\ Fresh w2.
Proof.
  intros F R Hc H. apply modify_node_wset in H as (n & Hn & _ & ->). split.
  - eapply frame_upd_new; eauto. cbn. eapply (fr_new _ _ F); eauto.
  - eapply fresh_wset; eauto.
Qed.

Lemma ff_copy_child f s v p {B} (K : id -> W B) (KN : W B) :
  dc_spec f -> (forall cs, ff (K cs)) -> ff KN ->
  ff (wbind (wtry (deep_copy T f s v))
        (fun r => match r with
                  | Some cs => wbind (modify_node cs (fun x => set_parent x p)) (fun _ => K cs)
                  | None => KN end)).
Proof.
  intros D HK HN w r w' F H.
  apply wbind_inv in H as [(a & w1 & H1 & H2) | (e & H1 & _)].
  - apply wtry_inv in H1 as (r0 & H1 & E). injection E as ->. destruct (D _ _ _ _ _ F H1) as (F1 & R1 & Hc).
    destruct r0 as [cs|e].
    + pose proof (Hc cs eq_refl) as ->.
      apply wbind_inv in H2 as [(u & w2 & H2 & H3) | (e & H2 & _)].
      * assert (w_nodes w (w_next w) = None) as Hnone by (apply F; lia).
        destruct (frame_reparent_new _ _ _ _ _ _ F1 R1 Hnone H2) as (F2 & R2).
        destruct (HK _ _ _ _ R2 H3) as (F3 & R3). split; auto. eapply Frame_trans; eauto.
      * apply modify_node_wset in H2 as (? & _ & [=] & _).
    + destruct (HN _ _ _ R1 H2) as (F2 & R2). split; auto. eapply Frame_trans; eauto.
  - apply wtry_inv in H1 as (r0 & _ & [=]).
Qed.

Lemma dc_spec_all fuel : dc_spec fuel.
Proof.
  induction fuel as [|f IH]; intros src v w r w' F H; [discriminate|].
  cbn [deep_copy] in H.
  apply wbind_inv in H as [(n & w1 & H1 & H) | (e & H1 & _)];
    [|apply get_node_inv in H1 as (? & _ & [=] & _)].
  apply get_node_inv in H1 as (n' & Hn & [= <-] & ->).
  apply wbind_inv in H as [(c & w1 & H1 & H) | (e & H1 & _)];
    [|apply alloc_walloc in H1 as ([=] & _)].
  apply alloc_walloc in H1 as ([= ->] & ->).
  set (w1 := walloc w (mkNode PNone (n_name n) (n_type n) [] [] [] (n_comment n))) in *.
  assert (Frame w w1 /\ Fresh w1) as (F1 & R1) by (split; [apply frame_walloc | apply fresh_walloc]; auto).
  assert (ff (wbind (copy_attrs T (n_type n) v (n_attrs n) []) (fun attrs =>
           wbind (modify_node (w_next w) (fun x => set_attrs x attrs)) (fun _ =>
           wbind ((fix items (l : list citem) : W unit :=
                     match l with
                     | [] => wret tt
                     | CData d :: rest =>
                       wbind (modify_node (w_next w) (fun x => set_content x (n_content x ++ [CData d]))) (fun _ => items rest)
                     | CElem s :: rest =>
                       wbind (get_node s) (fun sn =>
                       wbind (wl (find_sub_element T (n_type n) (n_name sn) v)) (fun fs =>
                       match fs with
                       | Some _ =>
                         wbind (wtry (deep_copy T f s v)) (fun r =>
                         match r with
                         | Some cs =>
                           wbind (modify_node cs (fun x => set_parent x (PElem (w_next w)))) (fun _ =>
                           wbind (modify_node (w_next w) (fun x => set_content x (n_content x ++ [CElem cs]))) (fun _ =>
                           items rest))
                         | None => items rest
                         end)
                       | None => items rest
                       end))
                     end) (n_content n)) (fun _ => wret (w_next w)))))) as HF.
  { apply ff_bind; [apply ff_ro; ro_tac|intros attrs].
    apply ff_bind; [ff_tac|intros _].
    apply ff_bind; [|intros _; ff_tac].
    generalize (n_content n). intros l. induction l as [|[s|d] l IHl]; [ff_tac| |].
    - apply ff_get_node. intros sn. apply ffat_ff. apply ff_bind; [ff_tac|intros fs].
      destruct fs as [?|]; auto. apply ff_copy_child; auto. intros cs. apply ff_bind; [ff_tac|intros _; exact IHl].
    - apply ff_bind; [ff_tac|intros _; exact IHl]. }
  assert (forall c, r = OK c -> c = w_next w) as Hres.
  { intros c0 ->. clear HF.
    repeat (apply wbind_inv in H as [(? & ? & _ & H) | (? & _ & [=])]). apply wret_inv in H as (H & _). congruence. }
  destruct (HF _ _ _ R1 H) as (F2 & R2). split; [eapply Frame_trans; eauto|]. split; auto.
Qed.

Lemma ff_deep_copy fuel src v : ff (deep_copy T fuel src v).
Proof. intros w r w' F H. destruct (dc_spec_all fuel _ _ _ _ _ F H) as (A & B & _). auto. Qed.

Lemma ff_create_copied_inner self other pos m version : ff (create_copied_sub_element_inner T self other pos m version).
Proof.
  unfold create_copied_sub_element_inner.
  apply ff_get_node. intros n. apply ffat_ff.
  apply ff_bind; [apply ff_ro; ro_tac|intros w0].
  apply ff_bind; [apply ff_ro; ro_tac|intros anc]. destruct anc; [ff_tac|].
  intros w r w' F H.
  apply wbind_inv in H as [(c & w1 & H1 & H) | (e & H1 & _)]; [|eapply ff_deep_copy; eauto].
  destruct (dc_spec_all _ _ _ _ _ _ F H1) as (F1 & R1 & Hc). pose proof (Hc c eq_refl) as ->.
  (* three read-only steps and the refusal of a nameless copy *)
  apply wbind_inv in H as [(cn0 & w2 & H2 & H) | (e & H2 & _)].
  2:{ assert (w' = w1) by (refine ((_ : ro (get_node (w_next w))) _ _ _ H2); ro_tac). subst. auto. }
  assert (w2 = w1) by (refine ((_ : ro (get_node (w_next w))) _ _ _ H2); ro_tac). subst w2. clear H2.
  apply wbind_inv in H as [(nv & w2 & H2 & H) | (e & H2 & _)].
  2:{ assert (w' = w1) by (refine ((_ : ro (wl (is_named_in_version T (n_type cn0) version))) _ _ _ H2); ro_tac). subst. auto. }
  assert (w2 = w1) by (refine ((_ : ro (wl (is_named_in_version T (n_type cn0) version))) _ _ _ H2); ro_tac). subst w2. clear H2.
  apply wbind_inv in H as [(id0 & w2 & H2 & H) | (e & H2 & _)].
  2:{ assert (w' = w1) by (refine ((_ : ro (is_identifiable T cn0)) _ _ _ H2); ro_tac). subst. auto. }
  assert (w2 = w1) by (refine ((_ : ro (is_identifiable T cn0)) _ _ _ H2); ro_tac). subst w2. clear H2.
  destruct (nv && negb id0); [apply wfail_inv in H as (_ & ->); auto|].
  apply wbind_inv in H as [(path & w2 & H2 & H) | (e & H2 & _)].
  2:{ assert (w' = w1) by (refine ((_ : ro (path_unchecked T n)) _ _ _ H2); ro_tac). subst. auto. }
  assert (w2 = w1) by (refine ((_ : ro (path_unchecked T n)) _ _ _ H2); ro_tac). subst w2.
  apply wbind_inv in H as [(u & w2 & H3 & H) | (e & H3 & _)];
    [|apply modify_node_wset in H3 as (? & _ & [=] & _)].
  assert (w_nodes w (w_next w) = None) as Hnone by (apply F; lia).
  destruct (frame_reparent_new _ _ _ _ _ _ F1 R1 Hnone H3) as (F2 & R2).
  assert (ff (wbind (get_node (w_next w)) (fun cn =>
           wbind (is_identifiable T cn) (fun ident =>
           wbind (if ident then wbind (make_unique_item_name T (w_next w) m path) (fun _ => wret tt) else wret tt) (fun _ =>
           wbind wget (fun w2 =>
           wbind (register_subtree T (fuel_of w2) m path (w_next w)) (fun _ =>
           wbind (content_insert self pos (CElem (w_next w))) (fun _ => wret (w_next w))))))))) as HF by ff_tac.
  destruct (HF _ _ _ R2 H) as (F3 & R3). split; auto. eapply Frame_trans; eauto.
Qed.
Hint Resolve ff_create_copied_inner : ff.

Lemma ff_e_create_copied h other : ff (e_create_copied_sub_element T LATEST h other).
Proof. unfold e_create_copied_sub_element, raw_create_copied_sub_element. ff_tac. Qed.
Lemma ff_e_create_copied_at h other pos : ff (e_create_copied_sub_element_at T LATEST h other pos).
Proof. unfold e_create_copied_sub_element_at, raw_create_copied_sub_element_at. ff_tac. Qed.

(* ---------- a new model ---------- *)
Lemma ff_new_model attrs : ff (new_model T attrs).
Proof.
  intros w r w' F H. unfold new_model in H.
  destruct (et_new T (autosar_element T)) as [ty| |]; destruct (elem T (autosar_element T)) as [ed| |]; try discriminate.
  injection H as <- <-. split.
  - constructor; cbn; try lia; auto.
    + intros x n Hn. unfold upd. destruct (x =? w_next w) eqn:E.
      * apply N.eqb_eq in E. subst. rewrite (F (w_next w)) in Hn by lia. discriminate.
      * exists n. split; auto. apply node_kept_refl.
    + intros x n' Hnone. unfold upd. destruct (x =? w_next w) eqn:E; [intros [= <-]; auto|congruence].
    + intros x' Hx'. apply in_app_iff in Hx' as [Hx'|[<-|[]]]; [left; eauto|right]. cbn. split; auto. apply F. lia.
  - intros x Hx. cbn in *. unfold upd. destruct (x =? w_next w) eqn:E.
    + apply N.eqb_eq in E. lia.
    + apply F. lia.
Qed.

End Ops.
