(* Tree/NoPanicProofsHist.v — C12 (panic / loop half): the invariant over HISTORIES.
   H12 w := Core (C03) /\ CharsLeaf /\ OriginsRef (C03, Tree/InvProofsReal.v) /\ RE (C14: checked types, names inside the
            string table) /\ RV (C14: enum values inside the string table) /\ RX (C04: reference elements hold strings)
            /\ PMB (here: a parent link `PModel m` names an existing model)
   Every conjunct is kept by all 26 operations of Tree/Script.v without side condition (the theorems of the other
   developments; PMB from agent-c17's frame Fp and agent-c13's Grow), H12 holds in the empty world, and
        H12 w -> PanicFree w /\ RefNoFloat w
   which are the world premises of the per-operation no-panic theorems.  With the float printer as an oracle
   (Tree/NoPanicFloat.v) every constructor of the alphabet is covered:
        no_panic_all      PanicFree w -> SizeOk w -> RefNoFloat w -> op_wf w o -> runs (run_opF fmt o) w
        H12_stepF         H12 is kept by run_opF (each oracle step is a model step for some argument)
        no_panic_hist     from a world with H12, a history whose operations are well-formed where they run (wf_ops)
                          runs to the end: no operation panics or runs out of fuel. *)
From Coq Require Import Lia PeanoNat.
From AV Require Import Base.Bytes Base.Outcome Hash.HashModel Spec.SpecOps Xml.TablesOk Tree.Heap Tree.Ops Tree.Script Tree.Inv.
From AV Require Import Tree.InvProofsBase Tree.InvProofsCore Tree.InvProofs Tree.InvProofsChars Tree.InvProofsChars5
  Tree.InvProofsRefs Tree.InvProofsOrigins3 Tree.InvProofsReal Tree.SortProofsHeap Tree.SortProofsReadyE Tree.SortProofsReadyV
  Tree.Index Tree.IndexProofsNodeInv Tree.CompatPM Tree.CompatPMOps Tree.CopyProofsIrp Tree.CopyProofsGrow.
From AV Require Import Tree.NoPanic Tree.NoPanicProofsBase Tree.NoPanicProofsOps1 Tree.NoPanicProofsDepth.
From AV Require Import Tree.NoPanicProofsClosed Tree.NoPanicProofsOps2 Tree.NoPanicProofsOps3 Tree.NoPanicProofsOps4 Tree.NoPanicProofsOps5
  Tree.NoPanicProofsCopy Tree.NoPanicProofsCopy2 Tree.NoPanicProofsMove Tree.NoPanicProofsMoveX Tree.NoPanicFloat Tree.NoPanicProofsFloat.
Open Scope string_scope.
Open Scope list_scope.
Open Scope N_scope.

(* a parent link PModel m names an existing model *)
Definition PMB (w : world) : Prop :=
  forall i n m, w_nodes w i = Some n -> n_parent n = PModel m -> m < N.of_nat (List.length (w_models w)).

Lemma Depth_alloc w i h : Depth w i h -> exists n, w_nodes w i = Some n.
Proof. intros D. destruct D; eauto. Qed.

Section Hist.
Variable T : tables.
Variable tab_el tab_at tab_en : nametab.
Variable check_fn : N -> list N -> res bool.
Variable LATEST : N.
Variable root_attrs : list (N * cdata).
Hypothesis OK12 : tables_ok12 T = true.
Hypothesis CHECK : forall fn s, exists b, check_fn fn s = Val b.
Hypothesis EN_OK : nametab_ok tab_en = true.
Hypothesis SHORT_OK : name_ok tab_el (name_short_name T).
(* table facts of the other developments (all true of the generated tables) *)
Hypothesis NamesOK : forall i e, i < n_elements T -> T_elements T i = Some e -> to_str tab_el (ed_name e) <> None.
Hypothesis EnumsOK : forall k items it, T_cdata T k = Some (CEnum items) -> In it items -> to_str tab_en (fst it) <> None.
Hypothesis AttrsOK : forall k name cdid req, T_attributes T k = Some (name, cdid, req) -> to_str tab_at name <> None.
Hypothesis RootOK : attrV tab_at tab_en root_attrs.
Hypothesis TKr : forall ty cs v ver, is_ref T ty = Val true -> chardata_spec T ty = Val (Some cs) ->
  check_value check_fn v cs ver = Val true -> exists s, v = DString s.
Hypothesis RootTy : forall ty, et_new T (autosar_element T) = Val ty -> plainty T ty.

Notation ENV f := (f T tab_el tab_en check_fn LATEST root_attrs OK12 CHECK) (only parsing).
Notation TOK := (ok12_tables T OK12) (only parsing).
Notation PanicFree := (PanicFree T tab_el tab_en).
Notation Closed := (Closed T tab_el tab_en).
Notation op_wf := (op_wf tab_el tab_en).
Notation run := (Inv.run T tab_el tab_en check_fn LATEST root_attrs).
Notation runF := (run_opF T tab_el tab_en check_fn LATEST root_attrs).
Notation RNF := (RefNoFloat T).

Definition H12 (w : world) : Prop :=
  Core w /\ InvProofsChars.CharsLeaf T w /\ InvProofsOrigins3.OriginsRef T w /\ RE T tab_el w /\ RV tab_at tab_en w /\ RX T w /\ PMB w.

Lemma H12_empty : H12 empty_world.
Proof.
  split; [exact empty_core|]. split; [apply InvProofsChars.CharsLeaf_empty|]. split; [apply InvProofsOrigins3.OriginsRef_empty|].
  split; [apply empty_RE|]. split; [apply empty_RV|]. split; [apply empty_RX|].
  intros i n m H. discriminate H.
Qed.

(* ---------- H12 gives the world premises of the per-operation theorems ---------- *)
Lemma H12_PanicFree w : H12 w -> PanicFree w.
Proof.
  intros (C & _ & O & (E & _) & V & _ & B).
  assert (AL : forall i, w_nodes w i <> None <-> i < w_next w).
  { intros i. rewrite <- (c_alloc w C i). unfold allocated. split.
    - intros H. destruct (w_nodes w i) as [n|]; [eauto|congruence].
    - intros (n & ->). discriminate. }
  assert (AL' : forall i n, w_nodes w i = Some n -> i < w_next w).
  { intros i n H. apply AL. rewrite H. discriminate. }
  split.
  - split.
    + exact AL.
    + intros i n Hn. destruct (E i n Hn) as (Ety & Enm). destruct (V i n Hn) as (Vc & _).
      split; [exact Ety|]. split; [exact Enm|]. split; [|split].
      * intros c Hc. assert (L : lists w i c).
        { exists n. split; [exact Hn|]. unfold kids, elems. apply in_flat_map. exists (CElem c). split; [exact Hc|left; reflexivity]. }
        apply (c_up w C) in L as (cn & Hcn & _). exact (AL' _ _ Hcn).
      * intros d Hd. exact (Vc d Hd).
      * destruct (n_parent n) as [|m|p] eqn:EP; [exact I| |].
        -- exact (B i n m Hn EP).
        -- assert (A : allocated w i) by (exists n; exact Hn).
           destruct (c_depth w C i A) as (h & D). inversion D as [x n0 H0 HP|x n0 p0 h0 H0 HP DP]; subst.
           ++ rewrite Hn in H0. injection H0 as <-. exfalso. exact (HP p EP).
           ++ rewrite Hn in H0. injection H0 as <-. rewrite EP in HP. injection HP as <-.
              destruct (Depth_alloc _ _ _ DP) as (pn & Hpn). exact (AL' _ _ Hpn).
    + intros x Hx. split.
      * apply In_nth_error in Hx as (k & Hk).
        assert (Hr : nth_error (roots w) k = Some (m_root x)) by (unfold roots; rewrite nth_error_map, Hk; reflexivity).
        destruct (c_roots w C _ _ Hr) as (n & Hn & _). exact (AL' _ _ Hn).
      * intros k l e Hk He. assert (IO : in_origins w e) by (exists x, k, l; auto).
        destruct (O e IO) as (n & Hn & _). exact (AL' _ _ Hn).
  - intros i Hi. apply (c_depth w C). apply (c_alloc w C). exact Hi.
  - exact (c_up w C).
Qed.

Lemma H12_RefNoFloat w : H12 w -> RNF w.
Proof.
  intros (_ & _ & _ & _ & _ & X & _) i n b Hn Hr Hc.
  destruct (X i n Hn) as (Xc & _). unfold character_data in Hc.
  destruct (n_content n) as [|[c|d] [|it l]] eqn:EC; try discriminate Hc.
  assert (Hd : okd T (n_type n) d). { apply Xc. try rewrite EC. left. reflexivity. }
  assert (Hi : Index.isref T (n_type n) = true) by (unfold Index.isref; rewrite Hr; reflexivity).
  destruct (Hd Hi) as (s & ->).
  destruct (content_mode T (n_type n)) as [mode| |]; cbn in Hc; try discriminate Hc.
  destruct ((mode =? MCharacters) || (mode =? MMixed))%bool; discriminate Hc.
Qed.

(* ---------- every conjunct is kept by every operation ---------- *)
Lemma grow_op o w r w' : run o w = Val (r, w') -> Grow w w'.
Proof.
  intros H. unfold Inv.run in H.
  destruct o; cbn [run_op welem wunit] in H; apply wmap_inv in H as (r0 & H & _);
    match type of H with ?mm w = _ => assert (G : grows mm) by (auto with grows nocore) end; exact (G _ _ _ H).
Qed.

Lemma fpp_use {A} (m : W A) w r w' : fpp w m -> m w = Val (r, w') -> Fp w w'.
Proof. intros F H. exact (F w r w' (Fp_refl w) H). Qed.

Lemma fp_op o w r w' : o <> OpNewModel -> run o w = Val (r, w') -> Fp w w'.
Proof.
  intros NM H. unfold Inv.run in H.
  destruct o; try (exfalso; apply NM; reflexivity); cbn [run_op welem wunit] in H; apply wmap_inv in H as (r0 & H & _).
  - eapply fpp_use; [|exact H]. apply fpp_e_create_sub.
  - eapply fpp_use; [|exact H]. apply fpp_e_create_sub_at.
  - eapply fpp_use; [|exact H]. apply fpp_e_create_named.
  - eapply fpp_use; [|exact H]. apply fpp_e_create_named_at.
  - eapply fpp_use; [|exact H]. apply fpp_e_copy.
  - eapply fpp_use; [|exact H]. apply fpp_e_copy_at.
  - eapply fpp_use; [|exact H]. apply fpp_e_move.
  - eapply fpp_use; [|exact H]. apply fpp_e_move_at.
  - eapply fpp_use; [|exact H]. apply fpp_e_remove.
  - eapply fpp_use; [|exact H]. apply fpp_e_remove_kind.
  - eapply fpp_use; [|exact H]. apply fpp_set_item_name.
  - eapply fpp_use; [|exact H]. apply fpp_set_cdata.
  - eapply fpp_use; [|exact H]. apply fpp_remove_cdata.
  - eapply fpp_use; [|exact H]. apply fpp_insert_citem.
  - eapply fpp_use; [|exact H]. apply fpp_remove_citem.
  - eapply fpp_use; [|exact H]. apply fpp_set_ref_target.
  - eapply fpp_use; [|exact H]. apply fpp_set_attribute.
  - eapply fpp_use; [|exact H]. apply fpp_remove_attribute.
  - eapply fpp_use; [|exact H]. apply fpp_set_comment.
  - eapply fpp_use; [|exact H]. apply fpp_get_or_create.
  - eapply fpp_use; [|exact H]. apply fpp_get_or_create_named.
  - eapply fpp_use; [|exact H]. apply fpp_create_file.
  - eapply fpp_use; [|exact H]. apply fpp_remove_file.
  - eapply fpp_use; [|exact H]. apply fpp_add_to_file.
  - eapply fpp_use; [|exact H]. apply fpp_remove_from_file.
Qed.

Lemma PMB_step o w r w' : PMB w -> run o w = Val (r, w') -> PMB w'.
Proof.
  intros B H. pose proof (grow_op _ _ _ _ H) as (_ & GM & _).
  assert (D : o = OpNewModel \/ o <> OpNewModel) by (destruct o; (left; reflexivity) || (right; discriminate)).
  destruct D as [->|NM].
  - unfold Inv.run in H. cbn [run_op] in H. apply wmap_inv in H as (r0 & H & _). unfold new_model in H.
    destruct (et_new T (autosar_element T)) as [ty| |]; destruct (elem T (autosar_element T)) as [ed| |]; try discriminate.
    injection H as <- <-. intros i n m Hn Hp. cbn [w_nodes w_models] in *. rewrite app_length. cbn [List.length].
    unfold upd in Hn. destruct (N.eqb i (w_next w)) eqn:E.
    + injection Hn as <-. cbn [n_parent] in Hp. injection Hp as <-. lia.
    + pose proof (B i n m Hn Hp). lia.
  - destruct (fp_op _ _ _ _ NM H) as (_ & F). intros i n m Hn Hp.
    destruct (F _ _ Hn) as [(n0 & H0 & (_ & _ & Pp))|(Hno & _)]; [|exfalso; exact (Hno m Hp)].
    pose proof (B i n0 m H0 (Pp m Hp)). lia.
Qed.

Theorem H12_step o w r w' : H12 w -> run o w = Val (r, w') -> H12 w'.
Proof.
  intros (C & L & O & E & V & X & B) H. pose proof TOK as HOK.
  split; [eapply Core_step; eauto|]. split; [eapply CharsLeaf_step; eauto|]. split; [eapply OriginsRef_step; eauto|].
  split; [eapply RE_op; eauto|]. split; [eapply RV_op; eauto|]. split; [eapply RX_op; eauto|].
  eapply PMB_step; eauto.
Qed.

(* ---------- the oracle alphabet ---------- *)
Variable fmt : N -> list N.                     (* ORACLE: f64::to_string, any function *)

Lemma wunit_val (m : W unit) w r0 w' : m w = Val (r0, w') -> exists r, wunit m w = Val (r, w').
Proof. intros E. unfold wunit, wbind. rewrite E. destruct r0; unfold wret; eauto. Qed.

Lemma runF_covered o : covered_op o = true -> runF fmt o = run o.
Proof. destruct o; try reflexivity. destruct v; try reflexivity. discriminate. Qed.

Lemma runF_extends o w x : run o w = Val x -> runF fmt o w = Val x.
Proof.
  destruct o; try (intros H; exact H). unfold Inv.run. cbn [run_op run_opF]. unfold wunit, wbind. intros H.
  destruct (e_set_character_data T tab_en check_fn LATEST h v w) as [[r0 w1]| |] eqn:E; try discriminate H.
  rewrite (setF_extends T tab_en check_fn LATEST fmt h v w _ E). exact H.
Qed.

(* every step of the oracle alphabet is a step of Tree/Script.v's alphabet, possibly for another argument *)
Lemma runF_is_run o w r w' : runF fmt o w = Val (r, w') -> exists o' r', run o' w = Val (r', w').
Proof.
  intros H. destruct o; try (eexists _, _; exact H).
  destruct v; try (eexists (OpSetCData h _), _; exact H).
  cbn [run_opF] in H. apply wmap_inv in H as (r0 & H & _). apply setF_float in H as [H|H].
  - destruct (wunit_val _ _ _ _ H) as (r1 & E). exists (OpSetCData h (DFloat bits)), r1. exact E.
  - destruct (wunit_val _ _ _ _ H) as (r1 & E). exists (OpSetCData h (DString (fmt bits))), r1. exact E.
Qed.

Theorem H12_stepF o w r w' : H12 w -> runF fmt o w = Val (r, w') -> H12 w'.
Proof. intros I H. destruct (runF_is_run _ _ _ _ H) as (o' & r' & E). exact (H12_step _ _ _ _ I E). Qed.

(* ---------- every constructor of the alphabet: neither panic nor out of fuel ---------- *)
Theorem no_panic_all w o : PanicFree w -> SizeOk w -> RNF w -> op_wf w o -> runs (runF fmt o) w.
Proof.
  intros PF SZ NF WF. unfold run_opF, run_op. destruct o; cbn [NoPanic.op_wf] in WF; unfold h_ok, m_ok, f_ok in WF.
  - apply runs_welem. apply (ENV np_create_sub_element); tauto.
  - apply runs_welem. apply (ENV np_create_sub_element_at); tauto.
  - apply runs_welem. apply (ENV np_create_named); tauto.
  - apply runs_welem. apply (ENV np_create_named_at); tauto.
  - apply runs_welem. apply (ENV np_copy); tauto.
  - apply runs_welem. apply (ENV np_copy_at); tauto.
  - apply runs_welem. apply (ENV np_move_all); tauto.
  - apply runs_welem. apply (ENV np_move_at_all); tauto.
  - apply runs_wunit. apply (ENV np_remove); tauto.
  - apply runs_wunit. apply (ENV np_remove_kind); tauto.
  - apply runs_wunit. apply (ENV np_set_item_name); tauto.
  - apply runs_wunit. apply (ENV np_set_character_dataF); tauto.
  - apply runs_wunit. apply (ENV np_remove_cdata); tauto.
  - apply runs_wunit. apply (ENV np_insert_citem); tauto.
  - apply runs_wunit. apply (ENV np_remove_citem); tauto.
  - apply runs_wunit. apply (ENV np_set_reference_target EN_OK); tauto.
  - apply runs_wunit. apply (ENV np_set_attribute); tauto.
  - eapply runs_then; [apply (ENV np_remove_attribute); tauto|intros; apply runs_ret].
  - apply runs_wunit. apply (ENV np_set_comment); tauto.
  - apply runs_welem. apply (ENV np_get_or_create); tauto.
  - apply runs_welem. apply (ENV np_get_or_create_named); tauto.
  - eapply runs_then; [apply (ENV np_new_model)|intros; apply runs_ret].
  - eapply runs_then; [apply (ENV np_create_file); tauto|intros; apply runs_ret].
  - apply runs_wunit. apply (ENV np_remove_file); tauto.
  - apply runs_wunit. apply (ENV np_add_to_file); tauto.
  - apply runs_wunit. apply (ENV np_remove_from_file); tauto.
Qed.

Theorem no_panic_all' w o : PanicFree w -> SizeOk w -> RNF w -> op_wf w o ->
  (forall s, runF fmt o w <> Pan s) /\ runF fmt o w <> Fuel.
Proof. intros PF SZ NF WF. destruct (no_panic_all w o PF SZ NF WF) as (r & w' & E). rewrite E. split; [intros s|]; discriminate. Qed.

Theorem no_panic_H12 w o : H12 w -> SizeOk w -> op_wf w o -> runs (runF fmt o) w.
Proof. intros I SZ WF. apply no_panic_all; auto using H12_PanicFree, H12_RefNoFloat. Qed.

(* ---------- histories ---------- *)
Fixpoint run_opsF (l : list op) (w : world) : res world :=
  match l with
  | [] => Val w
  | o :: r => match runF fmt o w with Val (_, w') => run_opsF r w' | Pan s => Pan s | Fuel => Fuel end
  end.

(* the client side of a history: every operation is well-formed (op_wf: handles are handles, names and enum values
   are discriminants) and the size assumption holds in the state where it runs *)
Fixpoint wf_ops (l : list op) (w : world) : Prop :=
  match l with
  | [] => True
  | o :: r => op_wf w o /\ SizeOk w /\ forall x w', runF fmt o w = Val (x, w') -> wf_ops r w'
  end.

Theorem no_panic_hist l : forall w, H12 w -> wf_ops l w -> exists w', run_opsF l w = Val w' /\ H12 w'.
Proof.
  induction l as [|o l IH]; intros w I WF; cbn [run_opsF wf_ops] in *; [eauto|].
  destruct WF as (WF & SZ & K). destruct (no_panic_H12 w o I SZ WF) as (x & w1 & E). rewrite E.
  apply IH; [exact (H12_stepF _ _ _ _ I E)|exact (K _ _ E)].
Qed.

(* the same for Tree/Script.v's own alphabet when no Float is handed to set_character_data *)
Lemma run_opsF_covered l : Forall (fun o => covered_op o = true) l -> forall w, run_opsF l w = run_ops T tab_el tab_en check_fn LATEST root_attrs l w.
Proof.
  induction 1 as [|o l Ho _ IH]; intros w; cbn [run_opsF run_ops]; [reflexivity|]. rewrite (runF_covered o Ho).
  destruct (run o w) as [[x w1]| |]; auto.
Qed.

(* PanicFree is an invariant of histories (Tree/Script.v's alphabet and the oracle alphabet) *)
Theorem H12_reachable l : forall w w', H12 w -> run_ops T tab_el tab_en check_fn LATEST root_attrs l w = Val w' -> H12 w'.
Proof.
  induction l as [|o l IH]; intros w w' I H; cbn [run_ops] in H; [injection H as <-; exact I|].
  fold run in H. destruct (run o w) as [[x w1]| |] eqn:E; try discriminate H. exact (IH _ _ (H12_step _ _ _ _ I E) H).
Qed.

(* a history of the oracle alphabet is a history of Tree/Script.v's alphabet (with other arguments for the float calls):
   whatever is proved about worlds reached by run_ops holds for worlds reached by run_opsF *)
Lemma run_opsF_is_run_ops l : forall w w', run_opsF l w = Val w' ->
  exists l', run_ops T tab_el tab_en check_fn LATEST root_attrs l' w = Val w'.
Proof.
  induction l as [|o l IH]; intros w w' H; cbn [run_opsF] in H; [exists []; exact H|].
  destruct (runF fmt o w) as [[x w1]| |] eqn:E; try discriminate H.
  destruct (runF_is_run _ _ _ _ E) as (o' & r' & E'). destruct (IH _ _ H) as (l' & H').
  exists (o' :: l'). cbn [run_ops]. fold run. rewrite E'. exact H'.
Qed.

(* the three facts about the invariant, and the three facts about the oracle alphabet, as single statements *)
Theorem H12_invariant :
  H12 empty_world /\
  (forall o w r w', H12 w -> runF fmt o w = Val (r, w') -> H12 w') /\
  (forall w, H12 w -> PanicFree w /\ RNF w).
Proof.
  split; [exact H12_empty|]. split; [exact H12_stepF|]. intros w I. split; [exact (H12_PanicFree w I)|exact (H12_RefNoFloat w I)].
Qed.

Theorem oracle_facts o :
  (covered_op o = true -> runF fmt o = run o) /\
  (forall w x, run o w = Val x -> runF fmt o w = Val x) /\
  (forall w r w', runF fmt o w = Val (r, w') -> exists o' r', run o' w = Val (r', w')).
Proof. split; [exact (runF_covered o)|]. split; [exact (runF_extends o)|exact (runF_is_run o)]. Qed.

Theorem H12_reachableF l : forall w w', H12 w -> run_opsF l w = Val w' -> H12 w'.
Proof.
  induction l as [|o l IH]; intros w w' I H; cbn [run_opsF] in H; [injection H as <-; exact I|].
  destruct (runF fmt o w) as [[x w1]| |] eqn:E; try discriminate H. exact (IH _ _ (H12_stepF _ _ _ _ I E) H).
Qed.

End Hist.
