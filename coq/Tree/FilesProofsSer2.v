(* Tree/FilesProofsSer2.v — C10 proofs: the serialize side over histories WITHOUT the hypothesis Recursible.
   "Elements with character content mode have no sub-elements" (C03's CharsLeaf, Tree/InvProofsChars*.v) is an invariant of
   every step of the extended alphabet (CharsLeaf_step for the 26 operations, lift_step2 for sort / set_version / check /
   serialize); a successful ser_ids evaluated content_mode at every element it visits that has content; together: every
   visited element with sub-elements recurses, which is all that "attributed => written" needs on the way up.
   Result: the list of written elements IS the set of elements of the model attributed to the file (iff). *)
From Coq Require Import PeanoNat Arith Lia.
From AV Require Import Base.Bytes Base.Outcome Hash.HashModel Spec.SpecOps Tree.Heap Tree.Ops Tree.Script Tree.Serialize
  Tree.Inv Tree.InvProofsBase Tree.InvProofsCore Tree.InvProofsTree Tree.InvProofsPrim Tree.InvProofsData
  Tree.InvProofsFrame Tree.InvProofs Tree.InvProofsChars Tree.InvProofsChars5 Tree.InvProofsOp2Lift
  Tree.Files Tree.FilesProofsBase Tree.FilesProofsProj Tree.FilesProofsFrame Tree.FilesProofsOps
  Tree.FilesProofsAdd Tree.FilesProofsExact Tree.FilesProofsHist Tree.FilesProofsTop Tree.FilesProofsOwned Tree.FilesProofsOp2
  Tree.FilesProofsSet Tree.FilesProofsSer.
From AV Require Import Tree.Script2.
From AV Require Xml.Serializer.
Open Scope string_scope.
Open Scope list_scope.
Open Scope N_scope.

Section Ser2.
Variable T : tables.
Variable tab_el tab_at tab_en : nametab.
Variable check_fn : N -> list N -> res bool.
Variable float_parse : list N -> option N.
Variable float_fmt : N -> list N.
Variable LATEST name_index name_definition_ref attr_schema_location : N.
Variable root_attrs : list (N * cdata).

Let FS := f_serialize T tab_el tab_at tab_en check_fn float_fmt attr_schema_location.
Notation CL := (InvProofsChars.CharsLeaf T).

(* ---------- a successful ser_ids looked up the content mode of every visited element that has content ---------- *)
Lemma ids_subs_call fl w ff : forall l body, ids_subs T fl w ff l = Val body ->
  forall c cn, In c (elems l) -> w_nodes w c = Some cn -> passes ff cn = true -> exists a, ser_ids T fl w ff c = Val a.
Proof.
  induction l as [|[c0|d] l IHl]; intros body H c cn Hc Hcn Hp; cbn [ids_subs] in H.
  - destruct Hc.
  - rewrite elems_cons_elem in Hc. destruct (w_nodes w c0) as [cn0|] eqn:Hcn0; [|discriminate H].
    destruct (passes ff cn0) eqn:Hp0.
    + apply bind_val in H as (a & Ha & H). apply bind_val in H as (b & Hb & H).
      destruct Hc as [<-|Hc]; [exists a; exact Ha|]. exact (IHl _ Hb c cn Hc Hcn Hp).
    + destruct Hc as [<-|Hc]; [|exact (IHl _ H c cn Hc Hcn Hp)].
      rewrite Hcn in Hcn0. injection Hcn0 as <-. rewrite Hp in Hp0. discriminate Hp0.
  - rewrite elems_cons_data in Hc. exact (IHl _ H c cn Hc Hcn Hp).
Qed.

Lemma ser_ids_modes fuel w ff : forall i l, ser_ids T fuel w ff i = Val l ->
  forall p pn, Proj T w ff i p -> w_nodes w p = Some pn -> kids pn <> [] -> exists mode, content_mode T (n_type pn) = Val mode.
Proof.
  induction fuel as [|fl IH]; intros i l H p pn Hp Hpn Hk; [discriminate H|].
  rewrite ser_ids_unfold in H. destruct (w_nodes w i) as [n|] eqn:Hn; [|discriminate H].
  destruct (proj_cases T _ _ _ _ Hp) as [->|(n' & c & cn & Hn' & Hrec & Hc & Hcn & Hpass & Hpc)].
  - rewrite Hn in Hpn. injection Hpn as <-.
    destruct (n_content n) as [|it rest] eqn:Ec; [exfalso; apply Hk; unfold kids; rewrite Ec; reflexivity|].
    apply bind_val in H as (mode & Hm & _). exists mode. exact Hm.
  - rewrite Hn in Hn'. injection Hn' as <-.
    destruct (n_content n) as [|it rest] eqn:Ec; [unfold kids in Hc; rewrite Ec in Hc; destruct Hc|].
    apply bind_val in H as (mode & Hm & H). destruct Hrec as (mode' & Hm' & Hf).
    rewrite Hm in Hm'. injection Hm' as <-. rewrite Hf in H.
    apply bind_val in H as (body & Hb & _).
    assert (In c (elems (it :: rest))) as Hc' by (unfold kids in Hc; rewrite Ec in Hc; exact Hc).
    destruct (ids_subs_call fl w ff _ _ Hb c cn Hc' Hcn Hpass) as (a & Ha).
    exact (IH c a Ha p pn Hpc Hpn Hk).
Qed.

(* attributed to f => written for f, with "recurses" only where it is needed: at the written elements *)
Lemma attributed_proj_on w x f : Core w -> In x (w_models w) -> FilesInvM T w x ->
  (forall p pn, Proj T w (Some f) (m_root x) p -> w_nodes w p = Some pn -> kids pn <> [] -> recurses T pn) ->
  forall i, Reach w (m_root x) i -> Attributed w i f -> Proj T w (Some f) (m_root x) i.
Proof.
  intros C Hx F Hrec i Hr. induction Hr as [H|p c Hp IH Hl]; intros (s & Hs & Hf); [constructor; auto|].
  destruct Hl as (pn & Hpn & Hc).
  assert (par w c p) as (cn & Hcn & Hpar) by (apply (c_up _ C); exists pn; auto).
  assert (Reach w (m_root x) c) as Hrc by (eapply R_kid; eauto; exists pn; auto).
  assert (Attributed w p f /\ passes (Some f) cn = true) as (Hap & Hpass).
  { inversion Hs as [i n Hn Hne E1 E2 | i n q s' Hn He Hq Hs' E1 E2]; subst.
    - rewrite Hcn in Hn. injection Hn as <-.
      destruct (fi_par _ _ _ F c cn p Hrc Hcn Hne Hpar) as (sp & Hsp & Hincl).
      split; [exists sp; auto|]. apply passes_some. auto.
    - rewrite Hcn in Hn. injection Hn as <-. rewrite Hpar in Hq. injection Hq as <-.
      split; [exists s; auto|]. apply passes_some. auto. }
  pose proof (IH Hap) as Pp.
  eapply Proj_kid; eauto. apply (Hrec p pn Pp Hpn). intros E. rewrite E in Hc. destruct Hc.
Qed.

(* CharsLeaf + a successful enumeration: every written element with sub-elements recurses *)
Lemma written_recurse w ff r l : CL w -> ser_ids T (fuel_of w) w ff r = Val l ->
  forall p pn, Proj T w ff r p -> w_nodes w p = Some pn -> kids pn <> [] -> recurses T pn.
Proof.
  intros HCL Hl p pn Hp Hpn Hk. destruct (ser_ids_modes _ _ _ _ _ Hl p pn Hp Hpn Hk) as (mode & Hm).
  exists mode. split; [exact Hm|]. destruct (mode =? MCharacters) eqn:E; [|reflexivity].
  apply N.eqb_eq in E. subst mode. exfalso. apply Hk. exact (HCL p pn Hpn Hm).
Qed.

(* what the text of a file is made of: the written elements are exactly the attributed ones *)
Definition WrittenIff (w1 : world) (f : N) (root : id) (text : list N) (sa : option bool) : Prop :=
  exists body l,
    text = Serializer.xml_header sa ++ body /\
    ser_heap T tab_el tab_at tab_en float_fmt (fuel_of w1) w1 (Some f) root 0 false = Val body /\
    ser_ids T (fuel_of w1) w1 (Some f) root = Val l /\
    (forall i, In i l <-> Reach w1 root i /\ Attributed w1 i f).

(* serialize keeps CharsLeaf (it rewrites one attribute value of the root) *)
Lemma serialize_chars f w r w1 : CL w -> FS f w = Val (r, w1) -> CL w1.
Proof.
  intros HCL H.
  assert (run_op2 T tab_el tab_at tab_en check_fn float_parse float_fmt LATEST name_index name_definition_ref
            attr_schema_location root_attrs (OpSerializeFile f) w
          = Val (match r with OK s => OK (VText s) | ER e => ER e end, w1)) as H2.
  { cbn [run_op2]. unfold wbind. fold FS. rewrite H. destruct r; reflexivity. }
  eapply CharsLeaf_frame; [|exact HCL].
  apply (lf_c T w w1). eapply lift_step2; [| |exact H2]; [reflexivity|intros o1; discriminate].
Qed.

Theorem serialize_iff f w text w1 : TreeInv w -> FilesInv T w -> CL w -> FS f w = Val (OK text, w1) ->
  exists fl x, nth_opt (w_files w) (N.to_nat f) = Some fl /\ nth_opt (w_models w) (N.to_nat (f_model fl)) = Some x /\
    WrittenIff w1 f (m_root x) text (f_standalone fl).
Proof.
  intros TI FI HCL H. pose proof (serialize_chars f w _ w1 HCL H) as CL1.
  destruct (serialize_exact T tab_el tab_at tab_en check_fn float_fmt attr_schema_location f w text w1 TI FI H)
    as ((C1 & _) & FI1 & fl & x & Hfl & Hx & body & l & Ht & Hb & Hl & Hin & _).
  exists fl, x. split; [exact Hfl|]. split; [exact Hx|]. exists body, l. split; [exact Ht|]. split; [exact Hb|]. split; [exact Hl|].
  intros i. split; [apply Hin|]. intros (Hr & Ha).
  (* the model record of w1 with this root *)
  assert (Reach w1 (m_root x) (m_root x)) as Hrr.
  { assert (In (m_root x) l) as H0.
    { apply (ser_ids_proj T _ _ _ _ _ Hl). constructor.
      clear - Hr. induction Hr as [Ha|p c Hp IH Hlk]; auto. }
    apply Hin in H0. apply H0. }
  assert (exists x1, In x1 (w_models w1) /\ m_root x1 = m_root x) as (x1 & Hx1 & Hr1).
  { pose proof TI as (C & _). unfold FS, f_serialize in H.
    apply wbind_inv in H as [(fl0 & w0 & H1 & H) | (e0 & H1 & [=])].
    apply get_file_inv in H1 as (fl' & Hfl' & [= <-] & ->).
    apply wbind_inv in H as [(x0 & w0 & H1 & H) | (e0 & H1 & [=])].
    apply get_model_inv in H1 as (x' & Hx' & [= <-] & ->).
    apply wbind_inv in H as [([loc files] & w0 & H1 & H) | (e0 & H1 & [=])].
    apply file_membership_spec in H1 as (-> & _ & _).
    destruct (negb (set_mem f files)); [apply wfail_inv in H as ([=] & _)|].
    apply wbind_inv in H as [(fname & w0 & H1 & H) | (e0 & H1 & [=])].
    apply wlift_inv in H1 as (a & _ & [= <-] & ->).
    apply wbind_inv in H as [(u & w2 & H2 & H) | (e0 & H2 & [=])].
    apply wtry_inv in H2 as (r1 & H2 & _).
    destruct (ser_heap T tab_el tab_at tab_en float_fmt (fuel_of w2) w2 (Some f) (m_root x0) 0 false); try discriminate H.
    injection H as _ <-.
    pose proof (stp_raw_set_attribute T check_fn _ _ _ _ _ _ _ H2) as (_ & Hroots & _).
    rewrite Hfl in Hfl'. injection Hfl' as <-. rewrite Hx in Hx'. injection Hx' as <-.
    rewrite nth_opt_error in Hx.
    assert (nth_error (roots w) (N.to_nat (f_model fl)) = Some (m_root x)) as Hk by (unfold roots; rewrite nth_error_map, Hx; reflexivity).
    rewrite <- Hroots in Hk. unfold roots in Hk. rewrite nth_error_map in Hk.
    destruct (nth_error (w_models w2) (N.to_nat (f_model fl))) as [x2|] eqn:E2; [|discriminate Hk]. injection Hk as Hk.
    exists x2. split; [eapply nth_error_In; eauto|exact Hk]. }
  rewrite <- Hr1 in *.
  apply (ser_ids_proj T _ _ _ _ _ Hl).
  apply (attributed_proj_on w1 x1 f C1 Hx1 (FI1 x1 Hx1)); [|exact Hr|exact Ha].
  exact (written_recurse w1 (Some f) (m_root x1) l CL1 Hl).
Qed.

Notation run2 := (run_op2 T tab_el tab_at tab_en check_fn float_parse float_fmt LATEST name_index name_definition_ref
                          attr_schema_location root_attrs).
Notation run2s := (run_ops2 T tab_el tab_at tab_en check_fn float_parse float_fmt LATEST name_index name_definition_ref
                            attr_schema_location root_attrs).
Notation ok2s := (steps_ok2 T tab_el tab_at tab_en check_fn float_parse float_fmt LATEST name_index name_definition_ref
                            attr_schema_location root_attrs).
Notation ok2 := (step_ok2 T tab_el tab_en check_fn LATEST root_attrs).

(* CharsLeaf over one step of the extended alphabet (load and duplicate are pending in step_ok2) *)
Lemma chars_step2 o w r w' : Core w -> CL w -> ok2 w o = true -> run2 o w = Val (r, w') -> CL w'.
Proof.
  intros C HCL Hok H. destruct o as [o1| | | | | | | |].
  - cbn [run_op2] in H. apply wmap_inv in H as (r0 & H & _).
    exact (CharsLeaf_step T tab_el tab_en check_fn LATEST root_attrs o1 w r0 w' C HCL H).
  - eapply CharsLeaf_frame; [|exact HCL]. apply (lf_c T w w'). eapply lift_step2; [| |exact H]; [reflexivity|intros o1; discriminate].
  - eapply CharsLeaf_frame; [|exact HCL]. apply (lf_c T w w'). eapply lift_step2; [| |exact H]; [reflexivity|intros o1; discriminate].
  - discriminate Hok.
  - discriminate Hok.
  - eapply CharsLeaf_frame; [|exact HCL]. apply (lf_c T w w'). eapply lift_step2; [| |exact H]; [reflexivity|intros o1; discriminate].
  - eapply CharsLeaf_frame; [|exact HCL]. apply (lf_c T w w'). eapply lift_step2; [| |exact H]; [reflexivity|intros o1; discriminate].
  - eapply CharsLeaf_frame; [|exact HCL]. apply (lf_c T w w'). eapply lift_step2; [| |exact H]; [reflexivity|intros o1; discriminate].
  - eapply CharsLeaf_frame; [|exact HCL]. apply (lf_c T w w'). eapply lift_step2; [| |exact H]; [reflexivity|intros o1; discriminate].
Qed.

Theorem chars_histories2 l : forall w w', TreeInv w -> FilesInv T w -> FilesOwned w -> CL w -> ok2s l w = true ->
  run2s l w = Val w' -> TreeInv w' /\ FilesInv T w' /\ FilesOwned w' /\ CL w'.
Proof.
  induction l as [|o rest IH]; intros w w' TI FI FO HCL Hok H; cbn [run_ops2 steps_ok2] in *.
  - injection H as <-. auto.
  - apply Bool.andb_true_iff in Hok as (Hs & Hok).
    destruct (run2 o w) as [[r w1]| |] eqn:Er; try discriminate H.
    destruct (step2_inv T tab_el tab_at tab_en check_fn float_parse float_fmt LATEST name_index name_definition_ref
                attr_schema_location root_attrs o w r w1 TI FI FO Hs Er) as (TI1 & FI1 & FO1).
    pose proof (chars_step2 o w r w1 (proj1 TI) HCL Hs Er) as CL1. apply (IH w1 w'); auto.
Qed.

(* over histories: the elements written for a file are exactly the elements of the model attributed to it *)
Theorem serialize_iff_histories l w0 w f text w1 :
  TreeInv w0 -> FilesInv T w0 -> FilesOwned w0 -> CL w0 -> ok2s l w0 = true -> run2s l w0 = Val w ->
  FS f w = Val (OK text, w1) ->
  exists fl x, nth_opt (w_files w) (N.to_nat f) = Some fl /\ nth_opt (w_models w) (N.to_nat (f_model fl)) = Some x /\
    WrittenIff w1 f (m_root x) text (f_standalone fl).
Proof.
  intros TI0 FI0 FO0 CL0 Hok Hrun H.
  destruct (chars_histories2 l w0 w TI0 FI0 FO0 CL0 Hok Hrun) as (TI & FI & _ & HCL).
  exact (serialize_iff f w text w1 TI FI HCL H).
Qed.

Theorem serialize_iff_reachable l w f text w1 :
  ok2s l empty_world = true -> run2s l empty_world = Val w -> FS f w = Val (OK text, w1) ->
  exists fl x, nth_opt (w_files w) (N.to_nat f) = Some fl /\ nth_opt (w_models w) (N.to_nat (f_model fl)) = Some x /\
    WrittenIff w1 f (m_root x) text (f_standalone fl).
Proof.
  intros Hok Hrun H.
  apply (serialize_iff_histories l empty_world w f text w1); auto;
    [apply empty_treeinv|apply empty_filesinv|apply empty_owned|apply CharsLeaf_empty].
Qed.

(* ---------- nothing lost on write, over histories, without Recursible ---------- *)
(* what ArxmlFile::serialize does to the world: same tree, a Frame step; and the model it reads *)
Lemma serialize_world f w text w1 : Core w -> FS f w = Val (OK text, w1) ->
  same_tree w w1 /\ Frame w w1 /\
  exists fl x, nth_opt (w_files w) (N.to_nat f) = Some fl /\ nth_opt (w_models w) (N.to_nat (f_model fl)) = Some x.
Proof.
  intros C H. unfold FS, f_serialize in H.
  apply wbind_inv in H as [(fl & w0 & H1 & H) | (e0 & H1 & [=])].
  apply get_file_inv in H1 as (fl' & Hfl & [= <-] & ->).
  apply wbind_inv in H as [(x & w0 & H1 & H) | (e0 & H1 & [=])].
  apply get_model_inv in H1 as (x' & Hx & [= <-] & ->).
  apply wbind_inv in H as [([loc files] & w0 & H1 & H) | (e0 & H1 & [=])].
  apply file_membership_spec in H1 as (-> & _ & _).
  destruct (negb (set_mem f files)); [apply wfail_inv in H as ([=] & _)|].
  apply wbind_inv in H as [(fname & w0 & H1 & H) | (e0 & H1 & [=])].
  apply wlift_inv in H1 as (a & _ & [= <-] & ->).
  apply wbind_inv in H as [(u & w2 & H2 & H) | (e0 & H2 & [=])].
  apply wtry_inv in H2 as (r1 & H2 & _).
  destruct (ser_heap T tab_el tab_at tab_en float_fmt (fuel_of w2) w2 (Some f) (m_root x) 0 false); try discriminate H.
  injection H as _ <-.
  split; [exact (stp_raw_set_attribute T check_fn _ _ _ _ _ _ _ H2)|].
  split; [exact (proj1 (ff_raw_set_attribute T check_fn _ _ _ _ _ _ _ (core_fresh _ C) H2))|].
  exists fl, x. auto.
Qed.

Lemma serialize_keeps f w text w1 x : TreeInv w -> FilesInv T w -> FS f w = Val (OK text, w1) ->
  In x (w_models w) -> forall i g, Reach w (m_root x) i -> Attributed w i g ->
  Reach w1 (m_root x) i /\ Attributed w1 i g.
Proof.
  intros TI FI H Hx i g Hr (s & Hs & Hg). pose proof TI as (C & _).
  destruct (serialize_world f w text w1 C H) as (ST & F & _).
  assert (Core w1) as C1 by (eapply Core_same_tree; eauto).
  pose proof (reach_same_tree w w1 _ _ ST Hr) as Hr1. split; [exact Hr1|].
  (* the record of the model in w1 *)
  destruct ST as (_ & Hroots & _).
  apply In_nth_error in Hx as (k & Hk).
  assert (nth_error (roots w) k = Some (m_root x)) as Hrk by (unfold roots; rewrite nth_error_map, Hk; reflexivity).
  rewrite <- Hroots in Hrk. unfold roots in Hrk. rewrite nth_error_map in Hrk.
  destruct (nth_error (w_models w1) k) as [x1|] eqn:E1; [|discriminate Hrk]. injection Hrk as Hrk.
  assert (In x1 (w_models w1)) as Hx1 by (eapply nth_error_In; eauto).
  destruct (fr_models _ _ F x1 Hx1) as [(x0 & Hx0 & Hmv)|(_ & Hnone)].
  - assert (m_root x0 = m_root x) as Hr0 by (unfold mview in Hmv; injection Hmv as E _; congruence).
    assert (Reach w1 (m_root x1) i) as Hr1' by (rewrite Hrk; exact Hr1).
    destruct (frame_carried T w w1 x0 x1 TI C1 F (FI x0 Hx0) Hx0 Hx1 Hmv i Hr1') as (_ & [K|K]).
    + destruct K as (n & n' & _ & _ & _ & _ & _ & _ & He). exists s. split; [apply He; exact Hs|exact Hg].
    + destruct K as (n' & Hn & _). exfalso.
      destruct (reach_alloc _ _ _ C Hr) as (n & Hn0). rewrite Hn0 in Hn. discriminate Hn.
  - exfalso. rewrite Hrk in Hnone.
    assert (In x (w_models w)) as Hx by (eapply nth_error_In; eauto).
    destruct (root_node _ _ C Hx) as (rn & k0 & Hrn & _). rewrite Hrn in Hnone. discriminate Hnone.
Qed.

(* in every state such a history reaches, every element of a model with files is attributed to a file f of the model,
   and whenever ArxmlFile::serialize of f succeeds the element is among the written ones *)
Theorem nothing_lost_on_write_histories l w0 w :
  TreeInv w0 -> FilesInv T w0 -> FilesOwned w0 -> CL w0 -> ok2s l w0 = true -> run2s l w0 = Val w ->
  forall x, In x (w_models w) -> m_files x <> [] ->
  forall i, Reach w (m_root x) i ->
  exists f, In f (m_files x) /\ Attributed w i f /\
    forall text w1, FS f w = Val (OK text, w1) ->
      exists fl body ids, nth_opt (w_files w) (N.to_nat f) = Some fl /\
        text = Serializer.xml_header (f_standalone fl) ++ body /\
        ser_heap T tab_el tab_at tab_en float_fmt (fuel_of w1) w1 (Some f) (m_root x) 0 false = Val body /\
        ser_ids T (fuel_of w1) w1 (Some f) (m_root x) = Val ids /\ In i ids.
Proof.
  intros TI0 FI0 FO0 CL0 Hok Hrun x Hx Hne i Hr.
  destruct (chars_histories2 l w0 w TI0 FI0 FO0 CL0 Hok Hrun) as (TI & FI & FO & HCL).
  pose proof TI as (C & _). pose proof (FI x Hx) as FIx.
  destruct (fi_eff _ _ _ FIx Hne i Hr) as (s & Hs).
  destruct s as [|f s']; [exfalso; eapply Eff_nonempty; eauto|].
  assert (Attributed w i f) as Hai by (exists (f :: s'); split; auto; left; reflexivity).
  assert (In f (m_files x)) as Hfx by (eapply (Eff_incl_files T w x i (f :: s')); eauto; left; reflexivity).
  exists f. split; [exact Hfx|]. split; [exact Hai|]. intros text w1 H.
  destruct (serialize_iff f w text w1 TI FI HCL H) as (fl & x' & Hfl & Hx' & body & ids & Ht & Hb & Hl & Hin).
  (* the file names this model *)
  pose proof Hx as Hx2. apply In_nth_error in Hx2 as (k & Hk).
  assert (model_b w (N.of_nat k) = Some x) as Hmb by (unfold model_b; rewrite Nnat.Nat2N.id, nth_opt_error; exact Hk).
  destruct (FO _ _ _ Hmb Hfx) as (fl' & Hfl' & Hfm). rewrite Hfl in Hfl'. injection Hfl' as <-.
  rewrite Hfm in Hx'. unfold model_b in Hmb. rewrite Hmb in Hx'. injection Hx' as <-.
  exists fl, body, ids. split; [exact Hfl|]. split; [exact Ht|]. split; [exact Hb|]. split; [exact Hl|].
  apply Hin. exact (serialize_keeps f w text w1 x TI FI H Hx i f Hr Hai).
Qed.

Theorem nothing_lost_on_write_reachable l w :
  ok2s l empty_world = true -> run2s l empty_world = Val w ->
  forall x, In x (w_models w) -> m_files x <> [] ->
  forall i, Reach w (m_root x) i ->
  exists f, In f (m_files x) /\ Attributed w i f /\
    forall text w1, FS f w = Val (OK text, w1) ->
      exists fl body ids, nth_opt (w_files w) (N.to_nat f) = Some fl /\
        text = Serializer.xml_header (f_standalone fl) ++ body /\
        ser_heap T tab_el tab_at tab_en float_fmt (fuel_of w1) w1 (Some f) (m_root x) 0 false = Val body /\
        ser_ids T (fuel_of w1) w1 (Some f) (m_root x) = Val ids /\ In i ids.
Proof.
  intros Hok Hrun. apply (nothing_lost_on_write_histories l empty_world w); auto;
    [apply empty_treeinv|apply empty_filesinv|apply empty_owned|apply CharsLeaf_empty].
Qed.

End Ser2.

(* the one-state theorem does not depend on the arguments of the other operations *)
Lemma serialize_iff_state (T : tables) (tab_el tab_at tab_en : nametab) (check_fn : N -> list N -> res bool)
  (float_fmt : N -> list N) (attr_schema_location : N) (f : N) (w : world) (text : list N) (w1 : world) :
  TreeInv w -> FilesInv T w -> InvProofsChars.CharsLeaf T w ->
  f_serialize T tab_el tab_at tab_en check_fn float_fmt attr_schema_location f w = Val (OK text, w1) ->
  exists fl x, nth_opt (w_files w) (N.to_nat f) = Some fl /\ nth_opt (w_models w) (N.to_nat (f_model fl)) = Some x /\
    WrittenIff T tab_el tab_at tab_en float_fmt w1 f (m_root x) text (f_standalone fl).
Proof. exact (serialize_iff T tab_el tab_at tab_en check_fn (fun _ => None) float_fmt 0 0 0 attr_schema_location [] f w text w1). Qed.
