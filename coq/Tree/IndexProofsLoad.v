(* Tree/IndexProofsLoad.v — C04/C05: the FIRST load_buffer into the only, still empty model of a world (AutosarModel::new();
   load_buffer(..)) establishes the path index exactly (Inv04) and the referrer map exactly as a set (Inv05S: no key twice, and
   the entries under a text are precisely the reference elements of the model with that text - in particular NO dead entry).
   The proof is agent-c06's (Tree/FollowProofsLoadMain.v first_load_inv06d / FollowProofsLoadTop.v after_first_load, built on
   agent-c09's refinement of the loader, agent-xmlproofs' load_StOf_all and agent-c03's RealInvL_load), re-run with the sharper
   conclusion about the referrer map.  Not derived: that no referrer list holds an element twice and that no list is empty (the
   two remaining parts of Refs.Inv05; agent-c06's fill semantics is membership-level).
   After a first load the element made by AutosarModel::new keeps its PModel link (finding C03-first-load-replaces-root): TreeFacts
   fails, TreeFactsL (Tree/FollowL.v) is what holds; the one-step theorems of Tree/IndexProofsAll.v assume TreeFacts, so a history
   cannot be continued with them after a load.  A MERGING load (second and later files) leaves dead entries in the referrer map:
   exact Inv05 is false there, agent-c06's Inv05D is the statement that tolerates them. *)
From Coq Require Import Lia.
From AV Require Import Base.Bytes Base.Outcome Hash.HashModel Spec.SpecOps Tree.Heap Tree.Ops Tree.Script Tree.Script2 Tree.Load Tree.MergeSpec Tree.Inv
  Tree.IndexProofsW Tree.Index Tree.IndexProofsBase Tree.IndexProofsAssoc Tree.IndexProofsFrame Tree.Refs Tree.Follow Tree.FollowL
  Tree.LoadProofs Tree.LoadRefineIndex Tree.FollowProofsLoadRep Tree.FollowProofsLoadEnum Tree.FollowProofsLoadFills Tree.FollowProofsLoadFirst
  Tree.FollowProofsLoadKeep Tree.InvEBase Tree.InvLoad Tree.InvProofsLoadLive Tree.InvProofsOp2Live Tree.FollowProofsLoad
  Tree.FollowProofsLoadMain Tree.FollowProofsLoadTop.
From AV Require Xml.Lexer Xml.Parser Xml.TablesOk Xml.LoadRecords Xml.LoadRecordsRegular Xml.LoadRecordsTree.
Open Scope string_scope.
Open Scope list_scope.
Open Scope N_scope.

Section LoadFirst.
Variable T : tables.
Variable check_fn : N -> list N -> res bool.
Variables LATEST defref : N.

(* the referrer map is exact as a set *)
Definition Inv05S (w : world) : Prop :=
  forall m x, model_at w m = Some x ->
    NoDupKeys (m_origins x) /\ forall p r, In r (origins_of x p) <-> RefSet T w m p r.

Lemma Inv05_S w : Inv05 T w -> Inv05S w.
Proof.
  intros [IE IT] m x Hx. split; [exact (proj1 (IT m x Hx))|]. intros p r. exact (proj2 (IE m x Hx p) r).
Qed.

Theorem first_load_exact filename root st w x f w' :
  w_models w = [x] -> m_files x = [] -> m_idents x = [] -> m_origins x = [] ->
  load_parsed T LATEST defref 0 filename root st w = Val (OK f, w') ->
  StOf T st root -> TreeFactsL w' -> Core w' -> DocSide T check_fn w' ->
  (forall ty, is_ref T ty = Val true -> content_mode T ty = Val MCharacters) ->
  TreeFactsL w' /\ Inv04 T check_fn w' /\ Inv05S w'.
Proof.
  intros Hms Hfx Hix Hox H (Hst1 & Hst2) HTL HC (HST & HSF & HAN & HCL & HSN) HRF.
  assert (Hx : nth_opt (w_models w) (N.to_nat 0) = Some x) by (rewrite Hms; reflexivity).
  destruct (first_load_inv T LATEST defref 0 filename root st w x f w' Hx Hfx Hix Hox H)
    as (t & w1 & w4 & keep & x4 & Hinst & Hnd & Hview & Hnext & Hmods & Hroot4 & HndI & HgetI & HndO & HgetO & Hkeep & Hkill).
  rewrite Hst1, rev_involutive in HgetI. rewrite Hst2, rev_involutive in HgetO.
  destruct (kill_cases _ _ _ _ Hkill) as (K1 & K2 & K3 & K4 & K5).
  set (root_id := it_id t) in *.
  assert (Hkroot : w_nodes w' root_id = w_nodes w4 root_id) by (apply K4; exact Hkeep).
  assert (Hmods' : w_models w' = [x4]) by (rewrite K3, Hmods, Hms; reflexivity).
  assert (Hm0 : model_at w' 0 = Some x4) by (unfold model_at; rewrite Hmods'; reflexivity).
  assert (Hm0' : forall m2 y, model_at w' m2 = Some y -> m2 = 0 /\ y = x4).
  { intros m2 y Hy. unfold model_at in Hy. rewrite Hmods' in Hy. destruct (N.to_nat m2) as [|k] eqn:E.
    - cbn in Hy. injection Hy as <-. split; [lia|reflexivity].
    - cbn in Hy. destruct k; discriminate Hy. }
  (* the tree in w4 *)
  assert (HRep : Rep (w_next w) w4 t root).
  { apply (Rep_view (w_next w) w1 w4); [|lia|exact (install_rep _ _ _ _ _ Hinst)].
    intros i n _ Hn. specialize (Hview i). rewrite Hn in Hview. destruct (w_nodes w4 i) as [n'|]; [|discriminate Hview].
    cbn in Hview. unfold tview in Hview. exists n'. split; [reflexivity|]. repeat split; congruence. }
  set (P := fun j => exists q, dpath T w4 root_id j q).
  assert (Pclosed : forall p c, P p -> child_of w4 p c -> P c).
  { intros p c (q & Hq) Hc. exists (q ++ seg T w4 c). econstructor; eauto. }
  assert (Proot : P root_id) by (exists []; constructor).
  pose proof (reach_kept T w4 w' root_id HC Hkroot K5) as Hkept.
  assert (L1 : forall i n, P i -> w_nodes w4 i = Some n -> n_name n = name_short_name T -> short_type T check_fn (n_type n)).
  { intros i n (q & Hq) Hn. apply (HST i n). rewrite (Hkept i q Hq). exact Hn. }
  assert (L2 : forall i n, P i -> w_nodes w4 i = Some n -> content_mode T (n_type n) = Val MCharacters -> chars_content (n_content n)).
  { intros i n (q & Hq) Hn. apply (HCL i n). rewrite (Hkept i q Hq). exact Hn. }
  assert (L3 : forall i n, P i -> w_nodes w4 i = Some n -> identifiable_n T w4 n = true -> item_name_n T w4 n <> None).
  { intros i n (q & Hq) Hn Hid. rewrite <- (item_name_n_kill T w4 w' root_id HC Hkroot K5 i n q Hq Hn).
    apply (HAN i n); [rewrite (Hkept i q Hq); exact Hn|].
    rewrite (identifiable_n_kill T w4 w' root_id HC Hkroot K5 i n q Hq Hn). exact Hid. }
  assert (L4 : forall i n, P i -> w_nodes w4 i = Some n -> short_child T w4 n <> None -> named T (n_type n) = true).
  { intros i n (q & Hq) Hn Hs. apply (HSN i n); [rewrite (Hkept i q Hq); exact Hn|].
    rewrite (short_child_kill T w4 w' root_id HC Hkroot K5 i n q Hq Hn). exact Hs. }
  destruct (enum_ids T check_fn w4 (w_next w) P Pclosed L1 L2 L3 L4 root t [] [] HRep Proot) as (EIs & EIc).
  destruct (enum_refs T w4 (w_next w) P Pclosed HRF root t [] HRep Proot) as (ERs & ERc).
  cbn [rev app] in EIs, EIc, ERs, ERc.
  split; [exact HTL|]. split.
  - (* Inv04 *)
    constructor; try assumption.
    + intros m2 y Hy. destruct (Hm0' m2 y Hy) as (-> & ->). intros p i. rewrite HgetI. split.
      * intros (pos & Hin & Hat). destruct (EIs p pos Hin) as (q & tc & s & -> & Hsub & Hid & Hd & ->).
        rewrite it_at_sub, Hsub in Hat. cbn in Hat. injection Hat as <-.
        split; [exists x4; split; [exact Hm0|]; rewrite Hroot4; exists s; apply (dpath_kill_fwd T w4 w' root_id HC Hkroot K5); exact Hd|].
        split; [rewrite (identifiable_kill T w4 w' root_id HC Hkroot K5 _ s Hd); exact Hid|].
        exists x4. split; [exact Hm0|]. rewrite Hroot4. exists s. split; [apply (dpath_kill_fwd T w4 w' root_id HC Hkroot K5); exact Hd|].
        rewrite (seg_kill T w4 w' root_id HC Hkroot K5 root_id [] (dp_refl _ _ _)). reflexivity.
      * intros (_ & Hid & (y & Hy' & (s & Hd & ->))). assert (y = x4) by congruence. subst y. rewrite Hroot4 in Hd.
        apply (dpath_kill_bwd T w4 w' root_id HC Hkroot K5) in Hd.
        rewrite (identifiable_kill T w4 w' root_id HC Hkroot K5 _ s Hd) in Hid.
        destruct (EIc i s Hd Hid) as (q & tc & Hsub & <- & Hin). exists q. split.
        -- rewrite Hroot4, (seg_kill T w4 w' root_id HC Hkroot K5 root_id [] (dp_refl _ _ _)). exact Hin.
        -- rewrite it_at_sub, Hsub. reflexivity.
    + intros m2 y Hy. destruct (Hm0' m2 y Hy) as (-> & ->). exact HndI.
  - (* the referrer map, as a set *)
    intros m2 y Hy. destruct (Hm0' m2 y Hy) as (-> & ->).
    assert (Hentry : forall p r, In r (origins_of x4 p) -> RefSet T w' 0 p r).
    { intros p r Hin. rewrite <- olist_origins in Hin. apply HgetO in Hin as (pos & Hin & Hat).
      destruct (ERs p pos Hin) as (q & tc & -> & Hsub & Ht & (s & Hd)).
      rewrite it_at_sub, Hsub in Hat. cbn in Hat. injection Hat as <-. split.
      - exists x4. split; [exact Hm0|]. rewrite Hroot4. exists s. apply (dpath_kill_fwd T w4 w' root_id HC Hkroot K5). exact Hd.
      - rewrite (ref_text_kill T w4 w' root_id HC Hkroot K5 _ s Hd). exact Ht. }
    split; [exact HndO|]. intros p r. split; [apply Hentry|].
    intros ((y & Hy' & (s & Hd)) & Ht). assert (y = x4) by congruence. subst y. rewrite Hroot4 in Hd.
    apply (dpath_kill_bwd T w4 w' root_id HC Hkroot K5) in Hd.
    rewrite (ref_text_kill T w4 w' root_id HC Hkroot K5 _ s Hd) in Ht.
    destruct (ERc r p (ex_intro _ s Hd) Ht) as (q & tc & Hsub & <- & Hin).
    rewrite <- olist_origins. apply HgetO. exists q. split; [exact Hin|]. rewrite it_at_sub, Hsub. reflexivity.
Qed.

End LoadFirst.

Section LoadTop.
Variable T : tables.
Variable tab_el tab_at tab_en : nametab.
Variable check_fn : N -> list N -> res bool.
Variable float_parse : list N -> option N.
Variable LATEST name_definition_ref : N.

Theorem C45_load_first buffer filename strict w x f ws w' :
  TablesOk.tables_ok T = true -> LoadRecordsRegular.sn_charsb T = true -> LoadRecordsRegular.ref_charsb T = true ->
  (forall ty, is_ref T ty = Val true -> content_mode T ty = Val MCharacters) ->
  RealInvL T w -> w_models w = [x] -> m_files x = [] -> m_idents x = [] -> m_origins x = [] ->
  m_load_buffer T tab_el tab_at tab_en check_fn float_parse LATEST name_definition_ref 0 buffer filename strict w = Val (OK (f, ws), w') ->
  DocSide T check_fn w' ->
  TreeFactsL w' /\ Inv04 T check_fn w' /\ Inv05S T w'.
Proof.
  intros HOK SC RC HRF I Hms Hfx Hix Hox H HD.
  destruct (TreeFactsL_after_load T tab_el tab_at tab_en check_fn float_parse LATEST name_definition_ref 0 buffer filename strict w
              (OK (f, ws)) w' HOK I (known_load_shared_first T tab_el tab_at tab_en check_fn float_parse LATEST name_definition_ref buffer filename strict w x Hms Hfx) ltac:(discriminate) H) as (I' & HTL).
  unfold m_load_buffer in H.
  apply wbind_inv in H as [(x0 & w0 & H0 & H) | (e' & H0 & [=])].
  apply get_model_inv in H0 as (x0' & Hx0 & E0 & E0'). injection E0 as E0. subst x0 w0.
  apply wbind_inv in H as [(w1 & w2 & H1 & H) | (e' & H1 & [=])].
  apply wget_inv in H1 as (E1 & E1'). injection E1 as E1. subst w1 w2.
  destruct (existsb _ _); [apply wfail_inv in H as ([=] & _)|].
  destruct (Parser.load strict T tab_el tab_at tab_en check_fn float_parse buffer) as [[root st|pe st]| |] eqn:EP; try discriminate H.
  apply wbind_inv in H as [(f0 & w3 & H2 & H) | (e' & H2 & [=])].
  apply wret_inv in H as (E & Ew). subst w3. injection E as <- _.
  eapply (first_load_exact T check_fn LATEST name_definition_ref filename root st w x f w'); eauto.
  - exact (LoadRecordsTree.load_StOf_all T tab_el tab_at tab_en check_fn float_parse strict buffer root st HOK SC RC EP).
  - exact (proj1 (proj1 I')).
Qed.

End LoadTop.
