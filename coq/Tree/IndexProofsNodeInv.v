(* Tree/IndexProofsNodeInv.v — C04/C05: two facts about every allocated node that hold in every world the 26 operations of
   Tree/Script.v can build from the empty one, with no exception class:
     RefStr    a node of a reference type holds only string data (a value enters a reference element through check_value
               against the reference pattern, as the new path of set_reference_target / a move, or as a copy)
     RootPlain a node whose parent is a model (a root) has the root element type, which is neither named nor a reference
   Used to drop the side condition "root_unplain" of remove_file and to show that the texts which the move between two
   models takes from `character_data().to_string()` are the reference texts of the specification.
   The preservation calculus is the one of agent-c14's Tree/SortProofsReadyV.v (vp / vp_go), instantiated with another node
   predicate; deep_copy needs the extra fact that the type of an allocated node never changes. *)
From Coq Require Import PeanoNat Arith Lia.
From AV Require Import Base.Bytes Base.Outcome Hash.HashModel Spec.SpecOps Tree.Heap Tree.Ops Tree.Script Tree.Inv
  Tree.InvProofsBase Tree.InvProofsCore Tree.InvProofsPrim Tree.InvProofsCreate Tree.InvProofsRefs Tree.InvProofsRemove Tree.InvProofs
  Tree.Compat Tree.CompatSpec Tree.CompatTyped Tree.CompatProofs8 Tree.CompatFrame Tree.CompatFrameOps Tree.CompatHist3
  Tree.SortProofsHeap Tree.Index Tree.RefsAll.
Open Scope string_scope.
Open Scope list_scope.
Open Scope N_scope.

Section X.
Variable T : tables.
Variable tab_el tab_en : nametab.
Variable check_fn : N -> list N -> res bool.
Variable LATEST : N.
Variable root_attrs : list (N * cdata).

Definition plainty (ty : N * N) : Prop := Index.named T ty = false /\ Index.isref T ty = false.
Definition okd (ty : N * N) (d : cdata) : Prop := Index.isref T ty = true -> exists s, d = DString s.
Definition cX (ty : N * N) (l : list citem) : Prop := forall d, In (CData d) l -> okd ty d.
Definition nodeX (n : node) : Prop :=
  cX (n_type n) (n_content n) /\ (forall m, n_parent n = PModel m -> plainty (n_type n)).
Definition RX (w : world) : Prop := forall i n, w_nodes w i = Some n -> nodeX n.

(* table facts (true of the generated tables, Tree/IndexProofsTablesReal.v) *)
Hypothesis TKr : forall ty cs v ver, is_ref T ty = Val true -> chardata_spec T ty = Val (Some cs) ->
  check_value check_fn v cs ver = Val true -> exists s, v = DString s.
Hypothesis RootTy : forall ty, et_new T (autosar_element T) = Val ty -> plainty ty.

Lemma empty_RX : RX empty_world.
Proof. intros i n H. discriminate. Qed.

Lemma okd_string ty s : okd ty (DString s).
Proof. intros _. eauto. Qed.
Lemma okd_checked ty cs v ver : chardata_spec T ty = Val (Some cs) -> check_value check_fn v cs ver = Val true -> okd ty v.
Proof.
  intros Hs Hc Hr. unfold Index.isref in Hr. destruct (is_ref T ty) as [b| |] eqn:E; try discriminate. subst b.
  exact (TKr _ _ _ _ E Hs Hc).
Qed.
Lemma cX_nil ty : cX ty [].
Proof. intros d []. Qed.
Lemma cX_cons_data ty d l : okd ty d -> cX ty l -> cX ty (CData d :: l).
Proof. intros Hd Hl x [[= <-]|H]; auto. Qed.
Lemma cX_cons_elem ty c l : cX ty l -> cX ty (CElem c :: l).
Proof. intros Hl x [H|H]; [discriminate|auto]. Qed.
Lemma cX_tail ty x l : cX ty (x :: l) -> cX ty l.
Proof. intros H d Hd. apply H. right. exact Hd. Qed.
Lemma cX_app ty a b : cX ty a -> cX ty b -> cX ty (a ++ b).
Proof. intros Ha Hb d H. apply in_app_or in H as [H|H]; auto. Qed.
Lemma cX_remove_at ty l k : cX ty l -> cX ty (remove_at l k).
Proof. intros H d Hd. apply H. exact (in_remove_at _ _ _ Hd). Qed.
Lemma cX_insert_elem ty l k c : cX ty l -> cX ty (insert_at l k (CElem c)).
Proof. intros H d Hd. apply in_insert_at in Hd as [Hd|Hd]; [discriminate|auto]. Qed.
Lemma cX_insert_data ty l k x : okd ty x -> cX ty l -> cX ty (insert_at l k (CData x)).
Proof. intros Hx H d Hd. apply in_insert_at in Hd as [[= ->]|Hd]; auto. Qed.

(* ---- the calculus ---- *)
Definition xp {A} (m : W A) : Prop := forall w r w', RX w -> m w = Val (r, w') -> RX w'.

Lemma RX_nodes_eq w w' : (forall x, w_nodes w' x = w_nodes w x) -> RX w -> RX w'.
Proof. intros E H i n Hn. rewrite E in Hn. exact (H _ _ Hn). Qed.
Lemma RX_wset w i x : RX w -> nodeX x -> RX (wset w i x).
Proof.
  intros H Hx j y Hy. destruct (N.eq_dec j i) as [->|Hne].
  - rewrite nodes_wset_eq in Hy. injection Hy as <-. exact Hx.
  - rewrite nodes_wset_neq in Hy by exact Hne. exact (H _ _ Hy).
Qed.
Lemma RX_walloc w x : RX w -> nodeX x -> RX (walloc w x).
Proof.
  intros H Hx j y Hy. destruct (N.eq_dec j (w_next w)) as [->|Hne].
  - rewrite nodes_walloc_new in Hy. injection Hy as <-. exact Hx.
  - rewrite nodes_walloc_old in Hy by exact Hne. exact (H _ _ Hy).
Qed.

Lemma xp_ro {A} (m : W A) : ro m -> xp m.
Proof. intros R w r w' F H. apply R in H. subst. exact F. Qed.
Lemma xp_nfp {A} (m : W A) : nfp m -> xp m.
Proof. intros Hn w r w' F H. destruct (Hn _ _ _ H) as (E & _). exact (RX_nodes_eq _ _ E F). Qed.
Lemma xp_bind {A B} (m : W A) (k : A -> W B) : xp m -> (forall a, xp (k a)) -> xp (wbind m k).
Proof.
  intros Hm Hk w r w' F H. apply wbind_inv in H as [(a & w1 & H1 & H2) | (e & H1 & _)].
  - eapply Hk; [eapply Hm; eauto|eauto].
  - eapply Hm; eauto.
Qed.
Lemma xp_bind_post {A B} (P : A -> Prop) (m : W A) (k : A -> W B) :
  xp m -> (forall w a w', m w = Val (OK a, w') -> P a) -> (forall a, P a -> xp (k a)) -> xp (wbind m k).
Proof.
  intros Hm HP Hk w r w' F H. apply wbind_inv in H as [(a & w1 & H1 & H2) | (e & H1 & _)].
  - eapply (Hk a (HP _ _ _ H1)); [eapply Hm; eauto|eauto].
  - eapply Hm; eauto.
Qed.
Lemma xp_try {A} (m : W A) : xp m -> xp (wtry m).
Proof. intros Hm w r w' F H. apply wtry_inv in H as (r0 & H & _). eapply Hm; eauto. Qed.
Lemma xp_catch {A} (m : W A) : xp m -> xp (wcatch m).
Proof. intros Hm w r w' F H. apply wcatch_inv in H as (r0 & H & _). eapply Hm; eauto. Qed.

Lemma xp_bind_get {B} i (k : node -> W B) : (forall n, nodeX n -> xp (k n)) -> xp (wbind (get_node i) k).
Proof.
  intros Hk w r w' F H. apply wbind_inv in H as [(n & w1 & H1 & H2) | (e & H1 & _)].
  - apply get_node_inv in H1 as (n' & Hn & [= <-] & ->). exact (Hk n (F _ _ Hn) _ _ _ F H2).
  - apply get_node_inv in H1 as (n' & _ & [=] & _).
Qed.
Lemma xp_bind_wl {A B} (x : res A) (k : A -> W B) : (forall a, x = Val a -> xp (k a)) -> xp (wbind (wl x) k).
Proof.
  intros Hk w r w' F H. apply wbind_inv in H as [(a & w1 & H1 & H2) | (e & H1 & _)].
  - apply wl_inv in H1 as (a' & Hx & [= <-] & ->). exact (Hk a Hx _ _ _ F H2).
  - apply wl_inv in H1 as (a' & _ & [=] & _).
Qed.
Lemma xp_set_node i x : nodeX x -> xp (set_node i x).
Proof. intros Hx w r w' F H. apply set_node_wset in H as (_ & ->). exact (RX_wset _ _ _ F Hx). Qed.
Lemma xp_modify_node i f : (forall n, nodeX n -> nodeX (f n)) -> xp (modify_node i f).
Proof. intros Hf w r w' F H. apply modify_node_wset in H as (n & Hn & _ & ->). exact (RX_wset _ _ _ F (Hf _ (F _ _ Hn))). Qed.
Lemma xp_alloc x : nodeX x -> xp (alloc x).
Proof. intros Hx w r w' F H. apply alloc_walloc in H as (_ & ->). exact (RX_walloc _ _ F Hx). Qed.
Lemma xp_set_model m x : xp (set_model m x).
Proof. intros w r w' F H. apply set_model_inv in H as (_ & ->). exact F. Qed.
Lemma xp_modify_model m f : xp (modify_model m f).
Proof. intros w r w' F H. apply modify_model_inv in H as (x & _ & _ & ->). exact F. Qed.
Lemma xp_set_file f x : xp (set_file f x).
Proof. intros w r w'. unfold set_file. intros F [= <- <-]. exact F. Qed.

Create HintDb nx discriminated.
Hint Resolve okd_string okd_checked cX_nil cX_cons_data cX_cons_elem cX_app cX_remove_at cX_insert_elem cX_insert_data : nx.
Hint Immediate cX_tail : nx.

(* nodeX of an updated record from nodeX of the record(s) in the context *)
Ltac nx_tac :=
  cbv beta;
  repeat match goal with H : nodeX _ |- _ => destruct H as [? ?] end;
  repeat match goal with
         | |- nodeX (if ?b then _ else _) => destruct b
         | |- nodeX (match ?x with _ => _ end) => destruct x eqn:?
         end;
  (split; cbn [n_content n_attrs n_type n_parent set_content set_parent set_attrs set_files set_comment new_node];
  [ repeat match goal with
           | |- cX _ (match ?l with _ => _ end) => destruct l eqn:?
           | E : ?l = _, H : cX _ ?l |- _ => rewrite E in H
           end;
    eauto 6 with nx
  | first [ assumption | intros ? ?; discriminate ] ]).

Create HintDb xp discriminated.

Ltac xp_step :=
  first
  [ apply xp_ro; solve [ro_tac]
  | assumption
  | solve [auto with xp]
  | apply xp_nfp; solve [auto with nfp]
  | apply xp_modify_node; intros ? ?; solve [nx_tac]
  | apply xp_set_node; solve [nx_tac]
  | apply xp_alloc; solve [nx_tac]
  | apply xp_modify_model | apply xp_set_model | apply xp_set_file
  | apply xp_try | apply xp_catch
  | apply xp_bind_get; intros ? ?
  | apply xp_bind_wl; intros ? ?
  | apply xp_bind; [ | intros ? ]
  | match goal with
    | |- xp (match ?x with _ => _ end) => first [is_var x; destruct x | destruct x eqn:?]
    | |- xp (if ?b then _ else _) => first [is_var b; destruct b | destruct b eqn:?]
    | |- xp (let '(_, _) := ?x in _) => destruct x
    end ].
Ltac xp_loop :=
  match goal with
  | |- xp (?F ?l) =>
    is_fix F;
    let l' := fresh "l" in
    generalize l; intro l'; induction l' as [|? ? ?]; lazy beta iota fix zeta
  end.
Ltac xp_go := repeat first [ xp_step | xp_loop ].

(* ---- model tables only ---- *)
Lemma xp_add_identifiable m p e : xp (add_identifiable m p e).
Proof. unfold add_identifiable. xp_go. Qed.
Lemma xp_remove_identifiable m p : xp (remove_identifiable m p).
Proof. unfold remove_identifiable. xp_go. Qed.
Lemma xp_fix_identifiables m a b : xp (fix_identifiables m a b).
Proof. unfold fix_identifiables. xp_go. Qed.
Lemma xp_add_reference_origin m r e : xp (add_reference_origin m r e).
Proof. unfold add_reference_origin. xp_go. Qed.
Lemma xp_fix_reference_origins m a b e : xp (fix_reference_origins m a b e).
Proof. unfold fix_reference_origins. xp_go. Qed.
Lemma xp_remove_reference_origin m r e : xp (remove_reference_origin m r e).
Proof. unfold remove_reference_origin. xp_go. Qed.
Hint Resolve xp_add_identifiable xp_remove_identifiable xp_fix_identifiables xp_add_reference_origin
  xp_fix_reference_origins xp_remove_reference_origin : xp.

Lemma xp_raw_set_cdata i v version : xp (raw_set_character_data T check_fn i v version).
Proof. unfold raw_set_character_data. xp_go. Qed.
Hint Resolve xp_raw_set_cdata : xp.

Lemma xp_raw_set_attribute h attr v version : xp (raw_set_attribute T check_fn h attr v version).
Proof. unfold raw_set_attribute. xp_go. Qed.
Hint Resolve xp_raw_set_attribute : xp.

Lemma xp_content_insert self pos c : xp (content_insert self pos (CElem c)).
Proof. unfold content_insert. xp_go. Qed.
Hint Resolve xp_content_insert : xp.

Lemma xp_detach p c : xp (detach_from p c).
Proof. unfold detach_from. xp_go. Qed.
Hint Resolve xp_detach : xp.

Lemma xp_make_unique i m pp : xp (make_unique_item_name T i m pp).
Proof. unfold make_unique_item_name. xp_go. Qed.
Hint Resolve xp_make_unique : xp.

Lemma xp_remove_internal fuel : forall i m path, xp (remove_internal T fuel i m path).
Proof. induction fuel as [|f IH]; intros i m path; cbn [remove_internal]; xp_go. Qed.
Hint Resolve xp_remove_internal : xp.

Lemma xp_raw_remove self sub m : xp (raw_remove_sub_element T self sub m).
Proof. unfold raw_remove_sub_element. xp_go. Qed.
Hint Resolve xp_raw_remove : xp.
Lemma xp_e_remove h sub : xp (e_remove_sub_element T h sub).
Proof. unfold e_remove_sub_element. xp_go. Qed.
Hint Resolve xp_e_remove : xp.
Lemma xp_e_remove_kind h name : xp (e_remove_sub_element_kind T h name).
Proof. unfold e_remove_sub_element_kind. xp_go. Qed.

Lemma xp_set_item_name h nm : xp (e_set_item_name T check_fn LATEST h nm).
Proof. unfold e_set_item_name. xp_go. Qed.

Lemma xp_set_cdata h v0 : xp (e_set_character_data T tab_en check_fn LATEST h v0).
Proof.
  unfold e_set_character_data.
  apply xp_bind_get; intros n HV. apply xp_bind_wl; intros mode Hm.
  match goal with |- xp (if ?b then _ else _) => destruct b end; [xp_go|].
  apply xp_bind_wl; intros spec Hs. destruct spec as [cs|]; [|xp_go].
  apply xp_bind; [xp_go|intros m]. apply xp_bind; [xp_go|intros version]. apply xp_bind_wl; intros ok0 H0.
  apply (xp_bind_post (fun p : cdata * bool => snd p = true -> okd (n_type n) (fst p))).
  - xp_go.
  - intros w a w' H.
    match type of H with (if ?b then _ else _) _ = _ => destruct b end.
    + wstep H; winv E. wstep H; winv E. apply wret_inv in H as ([= ->] & _). intros _. apply okd_string.
    + apply wret_inv in H as ([= ->] & _). cbn [fst snd]. intros ->. exact (okd_checked _ _ _ _ Hs H0).
  - intros [v ok] HP. cbn [fst snd] in HP. destruct ok; cbn [negb]; [|xp_go]. specialize (HP eq_refl). xp_go.
Qed.
Lemma xp_remove_cdata h : xp (e_remove_character_data T h).
Proof. unfold e_remove_character_data. xp_go. Qed.
Lemma xp_insert_citem h text pos : xp (e_insert_character_content_item T h text pos).
Proof. unfold e_insert_character_content_item. xp_go. Qed.
Lemma xp_remove_citem h pos : xp (e_remove_character_content_item T h pos).
Proof. unfold e_remove_character_content_item. xp_go. Qed.
Lemma xp_set_attribute h attr v : xp (e_set_attribute T check_fn LATEST h attr v).
Proof. unfold e_set_attribute. xp_go. Qed.
Lemma xp_remove_attribute h attr : xp (e_remove_attribute T h attr).
Proof. unfold e_remove_attribute. xp_go. Qed.
Lemma xp_set_ref_target h target : xp (e_set_reference_target T tab_el tab_en check_fn LATEST h target).
Proof. unfold e_set_reference_target. xp_go. Qed.
Lemma xp_set_comment h c : xp (e_set_comment h c).
Proof. unfold e_set_comment. xp_go. Qed.
Lemma xp_add_to_file_restricted fuel : forall e f, xp (add_to_file_restricted T fuel e f).
Proof. induction fuel as [|fl IH]; intros e f; cbn [add_to_file_restricted]; xp_go. Qed.
Hint Resolve xp_add_to_file_restricted : xp.
Lemma xp_add_to_file e f : xp (e_add_to_file T e f).
Proof. unfold e_add_to_file. xp_go. Qed.
Lemma xp_remove_from_file e f : xp (e_remove_from_file T e f).
Proof. unfold e_remove_from_file. xp_go. Qed.
Lemma xp_create_file m name version : xp (m_create_file T m name version).
Proof.
  unfold m_create_file. apply xp_bind; [xp_go|intros x].
  intros w r w' F H. apply wbind_inv in H as [(wc & w1 & H1 & H2) | (e & H1 & _)]; [|apply wget_inv in H1 as ([=] & _)].
  apply wget_inv in H1 as ([= <-] & ->).
  destruct (existsb _ (m_files x)); [apply wfail_inv in H2 as (_ & ->); exact F|].
  apply wbind_inv in H2 as [(u & w2 & H1 & H2) | (e & H1 & _)]; [|discriminate H1].
  unfold wput in H1. injection H1 as <- <-.
  revert H2. match goal with |- ?k ?ww = _ -> _ => assert (xp k) as K by xp_go; intros H2; apply (K _ _ _) in H2; [exact H2|] end.
  intros j y Hy. exact (F _ _ Hy).
Qed.
Lemma xp_set_file_membership e fm : xp (set_file_membership T e fm).
Proof. unfold set_file_membership. xp_go. Qed.
Hint Resolve xp_set_file_membership : xp.
Lemma xp_remove_file m f : xp (m_remove_file T m f).
Proof. unfold m_remove_file. xp_go. Qed.

(* ---- creating ---- *)
Lemma xp_create_inner self name pos version : xp (create_sub_element_inner T self name pos version).
Proof. unfold create_sub_element_inner. xp_go. Qed.
Hint Resolve xp_create_inner : xp.
Lemma xp_raw_create_sub self name version : xp (raw_create_sub_element T self name version).
Proof. unfold raw_create_sub_element. xp_go. Qed.
Lemma xp_raw_create_sub_at self name pos version : xp (raw_create_sub_element_at T self name pos version).
Proof. unfold raw_create_sub_element_at. xp_go. Qed.
Hint Resolve xp_raw_create_sub xp_raw_create_sub_at : xp.
Lemma xp_e_create_sub h name : xp (e_create_sub_element T LATEST h name).
Proof. unfold e_create_sub_element. xp_go. Qed.
Lemma xp_e_create_sub_at h name pos : xp (e_create_sub_element_at T LATEST h name pos).
Proof. unfold e_create_sub_element_at. xp_go. Qed.
Lemma xp_e_get_or_create h name : xp (e_get_or_create_sub_element T LATEST h name).
Proof. unfold e_get_or_create_sub_element. xp_go. Qed.
Lemma xp_create_named_inner self name item pos m version :
  xp (create_named_sub_element_inner T check_fn self name item pos m version).
Proof. unfold create_named_sub_element_inner. xp_go. Qed.
Hint Resolve xp_create_named_inner : xp.
Lemma xp_raw_create_named self name item m version : xp (raw_create_named_sub_element T check_fn self name item m version).
Proof. unfold raw_create_named_sub_element. xp_go. Qed.
Lemma xp_raw_create_named_at self name item pos m version :
  xp (raw_create_named_sub_element_at T check_fn self name item pos m version).
Proof. unfold raw_create_named_sub_element_at. xp_go. Qed.
Hint Resolve xp_raw_create_named xp_raw_create_named_at : xp.
Lemma xp_e_create_named h name item : xp (e_create_named_sub_element T check_fn LATEST h name item).
Proof. unfold e_create_named_sub_element. xp_go. Qed.
Lemma xp_e_create_named_at h name item pos : xp (e_create_named_sub_element_at T check_fn LATEST h name item pos).
Proof. unfold e_create_named_sub_element_at. xp_go. Qed.
Lemma xp_e_get_or_create_named h name item : xp (e_get_or_create_named_sub_element T check_fn LATEST h name item).
Proof. unfold e_get_or_create_named_sub_element. xp_go. Qed.

Lemma xp_new_model : xp (new_model T root_attrs).
Proof.
  intros w r w' F H. unfold new_model in H. pose proof RootTy as RT0.
  destruct (et_new T (autosar_element T)) as [ty| |]; destruct (elem T (autosar_element T)) as [ed| |]; try discriminate.
  injection H as <- <-. intros j y Hy. cbn [w_nodes] in Hy. unfold upd in Hy.
  destruct (j =? w_next w); [|exact (F _ _ Hy)].
  injection Hy as <-. split; cbn [n_content n_type n_parent]; [apply cX_nil|intros _ _; exact (RT0 _ eq_refl)].
Qed.

(* ---- deep copy: the copy has the type of the source and its data; the type of an allocated node never changes ---- *)
Definition TK (w w' : world) : Prop :=
  w_next w <= w_next w' /\
  forall i n, i < w_next w -> w_nodes w i = Some n -> exists n', w_nodes w' i = Some n' /\ n_type n' = n_type n.
Lemma TK_refl w : TK w w.
Proof. split; [lia|]. intros i n _ H. eauto. Qed.
Lemma TK_trans a b c : TK a b -> TK b c -> TK a c.
Proof.
  intros (L1 & H1) (L2 & H2). split; [lia|]. intros i n Hi H.
  destruct (H1 _ _ Hi H) as (n1 & E1 & T1). assert (Hi2 : i < w_next b) by lia. destruct (H2 _ _ Hi2 E1) as (n2 & E2 & T2). exists n2. split; congruence.
Qed.
Lemma TK_wset w i n x : w_nodes w i = Some n -> n_type x = n_type n -> TK w (wset w i x).
Proof.
  intros Hn Hf. split; [cbn; lia|]. intros j y _ Hy. destruct (N.eq_dec j i) as [->|Hne].
  - rewrite nodes_wset_eq. rewrite Hn in Hy. injection Hy as <-. eauto.
  - rewrite nodes_wset_neq by exact Hne. eauto.
Qed.
Lemma TK_walloc w x : TK w (walloc w x).
Proof. split; [cbn; lia|]. intros j y Hj Hy. exists y. split; [|reflexivity]. rewrite nodes_walloc_old by lia. exact Hy. Qed.

Lemma ro_copy_attrs ty version : forall l acc, ro (copy_attrs T ty version l acc).
Proof. induction l as [|[an av] l IH]; intros acc; cbn [copy_attrs]; ro_tac. Qed.

Definition xk {A} (m : W A) : Prop := forall w r w', RX w -> m w = Val (r, w') -> RX w' /\ TK w w'.

Lemma xk_items dc (Hdc : forall s v, xk (dc s v)) c ty ty' v : forall l w r w',
  RX w -> c < w_next w -> (exists x, w_nodes w c = Some x /\ n_type x = ty) -> cX ty l ->
  dc_items T dc c ty' v l w = Val (r, w') -> RX w' /\ TK w w'.
Proof.
  induction l as [|[s|d] l IH]; intros w r w' F Hc Hx HC H.
  - cbn [dc_items] in H. apply wret_inv in H as (_ & ->). split; [exact F|apply TK_refl].
  - cbn [dc_items] in H. pose proof (cX_tail _ _ _ HC) as HC'.
    apply wbind_inv in H as [(sn & wa & E & H) | (e & E & _)]; [|apply get_node_inv in E as (? & _ & [=] & _)].
    apply get_node_inv in E as (sn' & _ & _ & ->).
    apply wbind_inv in H as [(fs & wb & E & H) | (e & E & _)]; [|apply wl_inv in E as (? & _ & [=] & _)].
    apply wl_inv in E as (fs' & _ & _ & ->).
    destruct fs as [fs|]; [|exact (IH _ _ _ F Hc Hx HC' H)].
    apply wbind_inv in H as [(ro & w1 & E & H) | (e & E & _)]; [|apply wtry_inv in E as (? & _ & [=])].
    apply wtry_inv in E as (r0 & E & _). destruct (Hdc _ _ _ _ _ F E) as (F1 & K1).
    assert (Hc1 : c < w_next w1) by (destruct K1; lia).
    assert (Hx1 : exists x, w_nodes w1 c = Some x /\ n_type x = ty).
    { destruct Hx as (x & Hx & Tx). destruct (proj2 K1 _ _ Hc Hx) as (x' & Hx' & Tx'). exists x'. split; congruence. }
    destruct ro as [cs|].
    2:{ destruct (IH _ _ _ F1 Hc1 Hx1 HC' H) as (F' & K'). split; [exact F'|exact (TK_trans _ _ _ K1 K')]. }
    apply wbind_inv in H as [(u & w2 & E2 & H) | (e & E2 & _)]; [|apply modify_node_wset in E2 as (? & _ & [=] & _)].
    apply modify_node_wset in E2 as (ncs & Hncs & _ & ->).
    assert (F2 : RX (wset w1 cs (set_parent ncs (PElem c)))).
    { apply RX_wset; [exact F1|]. destruct (F1 _ _ Hncs) as (A & _). split; [exact A|intros m [=]]. }
    assert (K2 : TK w1 (wset w1 cs (set_parent ncs (PElem c)))) by (eapply TK_wset; [exact Hncs|reflexivity]).
    assert (Hx2 : exists x, w_nodes (wset w1 cs (set_parent ncs (PElem c))) c = Some x /\ n_type x = ty).
    { destruct Hx1 as (x & Hx1 & Tx). destruct (proj2 K2 _ _ Hc1 Hx1) as (x' & Hx' & Tx'). exists x'. split; congruence. }
    set (w2 := wset w1 cs (set_parent ncs (PElem c))) in *.
    apply wbind_inv in H as [(u3 & w3 & E3 & H) | (e & E3 & _)]; [|apply modify_node_wset in E3 as (? & _ & [=] & _)].
    apply modify_node_wset in E3 as (nc & Hnc & _ & ->).
    destruct Hx2 as (x2 & Hx2 & Tx2). rewrite Hnc in Hx2. injection Hx2 as <-.
    assert (F3 : RX (wset w2 c (set_content nc (n_content nc ++ [CElem cs])))).
    { apply RX_wset; [exact F2|]. destruct (F2 _ _ Hnc) as (A & B). split; [|exact B]. cbn [n_type n_content set_content].
      apply cX_app; [exact A|apply cX_cons_elem; apply cX_nil]. }
    assert (K3 : TK w2 (wset w2 c (set_content nc (n_content nc ++ [CElem cs])))) by (eapply TK_wset; [exact Hnc|reflexivity]).
    destruct (IH _ _ _ F3 ltac:(cbn; exact Hc1) ltac:(eexists; split; [apply nodes_wset_eq|exact Tx2]) HC' H) as (F' & K').
    split; [exact F'|]. exact (TK_trans _ _ _ K1 (TK_trans _ _ _ K2 (TK_trans _ _ _ K3 K'))).
  - cbn [dc_items] in H. pose proof (cX_tail _ _ _ HC) as HC'.
    apply wbind_inv in H as [(u3 & w3 & E3 & H) | (e & E3 & _)]; [|apply modify_node_wset in E3 as (? & _ & [=] & _)].
    apply modify_node_wset in E3 as (nc & Hnc & _ & ->).
    destruct Hx as (x2 & Hx2 & Tx2). rewrite Hnc in Hx2. injection Hx2 as <-.
    assert (F3 : RX (wset w c (set_content nc (n_content nc ++ [CData d])))).
    { apply RX_wset; [exact F|]. destruct (F _ _ Hnc) as (A & B). split; [|exact B]. cbn [n_type n_content set_content].
      apply cX_app; [exact A|]. apply cX_cons_data; [|apply cX_nil]. rewrite Tx2. apply HC. left. reflexivity. }
    assert (K3 : TK w (wset w c (set_content nc (n_content nc ++ [CData d])))) by (eapply TK_wset; [exact Hnc|reflexivity]).
    destruct (IH _ _ _ F3 ltac:(cbn; exact Hc) ltac:(eexists; split; [apply nodes_wset_eq|exact Tx2]) HC' H) as (F' & K').
    split; [exact F'|exact (TK_trans _ _ _ K3 K')].
Qed.

Lemma xk_deep_copy : forall fuel src version, xk (deep_copy T fuel src version).
Proof.
  induction fuel as [|f IHf]; intros src version; [intros w r w' _ H; discriminate H|].
  rewrite deep_copy_S. intros w r w' F H.
  apply wbind_inv in H as [(n & wa & E & H) | (e & E & _)]; [|apply get_node_inv in E as (? & _ & [=] & _)].
  apply get_node_inv in E as (n' & Hn & [= <-] & ->).
  assert (HC : cX (n_type n) (n_content n)) by exact (proj1 (F _ _ Hn)).
  apply wbind_inv in H as [(c & w1 & H1 & H) | (e & H1 & _)]; [|apply alloc_walloc in H1 as ([=] & _)].
  apply alloc_walloc in H1 as ([= ->] & ->).
  set (x0 := mkNode PNone (n_name n) (n_type n) [] [] [] (n_comment n)) in *.
  assert (F1 : RX (walloc w x0)).
  { apply RX_walloc; [exact F|]. split; cbn; [apply cX_nil|intros m [=]]. }
  pose proof (TK_walloc w x0) as K1.
  apply wbind_inv in H as [(attrs & w2 & H1 & H) | (e & H1 & _)].
  2:{ apply ro_copy_attrs in H1. subst. split; assumption. }
  apply ro_copy_attrs in H1. subst w2.
  apply wbind_inv in H as [(u & w2 & E2 & H) | (e & E2 & _)]; [|apply modify_node_wset in E2 as (? & _ & [=] & _)].
  apply modify_node_wset in E2 as (y & Hy & _ & ->).
  rewrite nodes_walloc_new in Hy. injection Hy as <-.
  set (w2 := wset (walloc w x0) (w_next w) (set_attrs x0 attrs)) in *.
  assert (F2 : RX w2).
  { apply RX_wset; [exact F1|]. split; cbn; [apply cX_nil|intros m [=]]. }
  assert (K2 : TK (walloc w x0) w2) by (eapply TK_wset; [apply nodes_walloc_new|reflexivity]).
  apply wbind_inv in H as [(u9 & w3 & E3 & H) | (e & E3 & _)].
  - destruct (xk_items _ (IHf) (w_next w) (n_type n) (n_type n) version _ _ _ _ F2 ltac:(cbn; lia)
               ltac:(eexists; split; [apply nodes_wset_eq|reflexivity]) HC E3) as (F3 & K3).
    apply wret_inv in H as (_ & ->). split; [exact F3|exact (TK_trans _ _ _ K1 (TK_trans _ _ _ K2 K3))].
  - destruct (xk_items _ (IHf) (w_next w) (n_type n) (n_type n) version _ _ _ _ F2 ltac:(cbn; lia)
               ltac:(eexists; split; [apply nodes_wset_eq|reflexivity]) HC E3) as (F3 & K3).
    split; [exact F3|exact (TK_trans _ _ _ K1 (TK_trans _ _ _ K2 K3))].
Qed.
Lemma xp_deep_copy fuel src version : xp (deep_copy T fuel src version).
Proof. intros w r w' F H. exact (proj1 (xk_deep_copy _ _ _ _ _ _ F H)). Qed.
Hint Resolve xp_deep_copy : xp.

(* ---- move, copy ---- *)
Lemma xp_register_subtree fuel : forall m cur i, xp (register_subtree T fuel m cur i).
Proof. induction fuel as [|f IH]; intros m cur i; cbn [register_subtree]; xp_go. Qed.
Hint Resolve xp_register_subtree : xp.

Lemma xp_move_local self mv pos m version : xp (move_element_local T check_fn self mv pos m version).
Proof. unfold move_element_local. xp_go. Qed.
Lemma xp_move_full self mv pos m m_src version : xp (move_element_full T tab_en check_fn self mv pos m m_src version).
Proof. unfold move_element_full. xp_go. Qed.
Lemma xp_move_position self mv pos e : xp (move_element_position self mv pos e).
Proof. unfold move_element_position. xp_go. Qed.
Hint Resolve xp_move_local xp_move_full xp_move_position : xp.
Lemma xp_e_move h mv : xp (e_move_element_here T tab_en check_fn LATEST h mv).
Proof. unfold e_move_element_here. xp_go. Qed.
Lemma xp_e_move_at h mv pos : xp (e_move_element_here_at T tab_en check_fn LATEST h mv pos).
Proof. unfold e_move_element_here_at. xp_go. Qed.
Lemma xp_copied_inner self other pos m version : xp (create_copied_sub_element_inner T self other pos m version).
Proof. unfold create_copied_sub_element_inner. xp_go. Qed.
Hint Resolve xp_copied_inner : xp.
Lemma xp_e_copy h other : xp (e_create_copied_sub_element T LATEST h other).
Proof. unfold e_create_copied_sub_element, raw_create_copied_sub_element. xp_go. Qed.
Lemma xp_e_copy_at h other pos : xp (e_create_copied_sub_element_at T LATEST h other pos).
Proof. unfold e_create_copied_sub_element_at, raw_create_copied_sub_element_at. xp_go. Qed.

(* ---- all 26 operations ---- *)
Notation run := (Inv.run T tab_el tab_en check_fn LATEST root_attrs).

Theorem RX_op o w r w' : RX w -> run o w = Val (r, w') -> RX w'.
Proof.
  intros HR H.
  unfold Inv.run in H. destruct o; cbn [run_op welem wunit] in H; apply wmap_inv in H as (r0 & H & _).
  - exact (xp_e_create_sub h name _ _ _ HR H).
  - exact (xp_e_create_sub_at h name pos _ _ _ HR H).
  - exact (xp_e_create_named h name item _ _ _ HR H).
  - exact (xp_e_create_named_at h name item pos _ _ _ HR H).
  - exact (xp_e_copy h other _ _ _ HR H).
  - exact (xp_e_copy_at h other pos _ _ _ HR H).
  - exact (xp_e_move h mv _ _ _ HR H).
  - exact (xp_e_move_at h mv pos _ _ _ HR H).
  - exact (xp_e_remove h sub _ _ _ HR H).
  - exact (xp_e_remove_kind h name _ _ _ HR H).
  - exact (xp_set_item_name h name _ _ _ HR H).
  - exact (xp_set_cdata h v _ _ _ HR H).
  - exact (xp_remove_cdata h _ _ _ HR H).
  - exact (xp_insert_citem h text pos _ _ _ HR H).
  - exact (xp_remove_citem h pos _ _ _ HR H).
  - exact (xp_set_ref_target h target _ _ _ HR H).
  - exact (xp_set_attribute h attr v _ _ _ HR H).
  - exact (xp_remove_attribute h attr _ _ _ HR H).
  - exact (xp_set_comment h c _ _ _ HR H).
  - exact (xp_e_get_or_create h name _ _ _ HR H).
  - exact (xp_e_get_or_create_named h name item _ _ _ HR H).
  - exact (xp_new_model _ _ _ HR H).
  - exact (xp_create_file m name version _ _ _ HR H).
  - exact (xp_remove_file m f _ _ _ HR H).
  - exact (xp_add_to_file h f _ _ _ HR H).
  - exact (xp_remove_from_file h f _ _ _ HR H).
Qed.

(* ---- the consequences ---- *)
Lemma RX_refstr w : RX w -> RefStr T w.
Proof.
  intros F i n d Hn Hr Hcd. destruct (F _ _ Hn) as (HC & _). apply HC; [|exact Hr].
  unfold cdata_of, character_data in Hcd. destruct (n_content n) as [|[c|d0] [|x l]]; try discriminate Hcd.
  destruct (content_mode T (n_type n)) as [mode| |]; try discriminate Hcd. cbn in Hcd.
  destruct ((mode =? MCharacters) || (mode =? MMixed)); [|discriminate Hcd]. injection Hcd as ->. left. reflexivity.
Qed.
Lemma RX_roots w : TreeFacts w -> RX w -> RootsPlain T w.
Proof.
  intros HF F m x n Hx Hn. destruct (tf_roots _ HF _ _ Hx) as (n0 & Hn0 & Hp). rewrite Hn in Hn0. injection Hn0 as <-.
  destruct (F _ _ Hn) as (_ & H). exact (H m Hp).
Qed.
Lemma roots_plain_unplain w m : RootsPlain T w -> root_unplain T w m = false.
Proof.
  intros H. unfold root_unplain. destruct (model_at w m) as [x|] eqn:Ex; [|reflexivity].
  unfold named_node, is_ref_node. destruct (w_nodes w (m_root x)) as [n|] eqn:En; [|reflexivity].
  destruct (H m x n Ex En) as (-> & ->). reflexivity.
Qed.

End X.
