(* Tree/WorldCheck.v — C07 (reload clause): a BOOLEAN checker, node by node over the allocated ids of a world, for everything
   C07_reload_clean_world needs of a file EXCEPT specification order (which the history theorem supplies):
     typedb        every sub-element's stored type is the type its parent's stored type lists for its name in the version
                   (fails after move / copy below a parent that lists the name with another type: finding move-keeps-source-type)
     shortb        an element of a type that is identifiable in the version has a SHORT-NAME that belongs to the file
     hollowb       C10's NoHollow: an element with content keeps some of it in the file (in character mode: the first item)
     node_canonb   WorldCanon (Tree/ProjectCanon.v): comment, name spelling, attributes canonical and complete, layout, texts
                   (components: agent-c01's checkers of Xml/RoundTripCanonb.v)
     root_headerb  RootHeader: the root is the AUTOSAR element with the header attributes of the version
     the projection exists for the writer's fuel.
   DEFINITIONS only; soundness: Tree/RangeProofsCheck.v. *)
From AV Require Import Base.Bytes Base.Outcome Hash.HashModel Spec.SpecOps Spec.Versions Tree.Heap Tree.Ops Tree.Range Tree.Project Tree.ProjectCanon.
From AV Require Xml.Parser Xml.StrictValidDef Xml.RoundTripAttrs Xml.RoundTripElem Xml.RoundTripCanon Xml.RoundTripCanonb.
Open Scope string_scope.
Open Scope list_scope.
Open Scope N_scope.

Section Check.
Import Xml.Parser Xml.RoundTripAttrs Xml.RoundTripElem Xml.RoundTripCanon Xml.RoundTripCanonb.
Variable T : tables.
Variable tab_el tab_at tab_en : nametab.
Variable check_fn : N -> list N -> res bool.
Variable float_fmt : N -> list N.
Variable float_parse : list N -> option N.
Variable ver : N.
Variable w : world.
Variable ff : option N.
Variable root : id.

Definition pcattrs (n : node) : list (N * Parser.cdata) := map (fun a => (fst a, to_pc (snd a))) (n_attrs n).

Definition typedb (n : node) : bool :=
  forallb (fun it => match it with
                     | CElem c =>
                       match w_nodes w c with
                       | Some cn => match find_sub_element T (n_type n) (n_name cn) ver with
                                    | Val (Some (et, _)) => etype_eqb et (n_type cn)
                                    | _ => false
                                    end
                       | None => true
                       end
                     | CData _ => true
                     end) (n_content n).

Definition is_short_item (it : citem) : bool :=
  match it with
  | CElem c => match w_nodes w c with Some cn => passes ff cn && (n_name cn =? name_short_name T) | None => false end
  | CData _ => false
  end.

Definition shortb (n : node) : bool :=
  match is_named_in_version T (n_type n) ver with
  | Val true => existsb is_short_item (n_content n)
  | Val false => true
  | _ => false
  end.

Definition item_keptb (it : citem) : bool :=
  match it with CData _ => true | CElem c => match w_nodes w c with Some cn => passes ff cn | None => false end end.

Definition hollowb (n : node) : bool :=
  match n_content n with
  | [] => true
  | first :: _ =>
    existsb item_keptb (n_content n) &&
    match content_mode T (n_type n) with
    | Val mode => if mode =? MCharacters then item_keptb first else true
    | _ => true
    end
  end.

Fixpoint adj_none (k : list (option N)) : bool :=
  match k with
  | [] => false
  | a :: r => match a, r with None, None :: _ => true | _, _ => adj_none r end
  end.

Definition shape_keptb (mode : N) (k : list (option N)) : bool :=
  if mode =? MCharacters then match k with [] => true | [None] => true | _ => false end
  else if mode =? MMixed then negb (adj_none k)
  else forallb (fun c : option N => match c with Some _ => true | None => false end) k.

Definition node_canonb (va : N) (n : node) : bool :=
  comments_okb (n_comment n) && elem_nameb tab_el (n_name n) &&
  attrsokb T tab_at tab_en check_fn float_fmt float_parse va (n_type n) (pcattrs n) &&
  match content_mode T (n_type n), kept_items w ff (n_content n), is_named_in_version T (n_type n) ver with
  | Val mode, Some k, Val named =>
    shape_keptb mode k &&
    (* the kept content of an identifiable element starts with its SHORT-NAME (the loader names an element by its FIRST item) *)
    (negb named || match k with Some s :: _ => s =? name_short_name T | _ => false end)
  | _, _, _ => false
  end &&
  forallb (fun it => match it with
                     | CData d => textokb T tab_en check_fn float_fmt float_parse ver (n_type n) (to_pc d)
                     | CElem _ => true
                     end) (n_content n).

Definition root_headerb (n : node) : bool :=
  match elem T (autosar_element T), version_of_ident "Autosar_4_0_1" with
  | Val e, Some v401 =>
    (n_name n =? ed_name e) && etype_eqb (n_type n) (autosar_element T, ed_type e) &&
    node_canonb v401 n && headerb tab_at ver (pcattrs n)
  | _, _ => false
  end.

Definition no_root_childb (n : node) : bool :=
  negb (existsb (fun it => match it with CElem c => c =? root | CData _ => false end) (n_content n)).

Definition node_checkb (i : id) (n : node) : bool :=
  no_root_childb n && typedb n && shortb n && hollowb n && (if i =? root then root_headerb n else node_canonb ver n).

Definition ids_below (k : N) : list id := map N.of_nat (seq 0 (N.to_nat k)).

Definition world_checkb : bool :=
  forallb (fun i => match w_nodes w i with Some n => node_checkb i n | None => true end) (ids_below (w_next w)) &&
  match proj (fuel_of w) w ff root with Some _ => true | None => false end.

End Check.
