(* Tree/FilesProofsSet.v — C10 proofs, layer 4: worlds that differ only in the local file set of one node, and what
   the two elementary set changes of add_to_file do to the effective sets:
     materialize  a child that inherited gets the inherited set as its own set        (effective sets unchanged)
     extend       an element's set becomes (its effective set) + f                   (effective sets grow by at most f) *)
From Coq Require Import PeanoNat Arith Lia.
From AV Require Import Base.Bytes Base.Outcome Hash.HashModel Tree.Heap Tree.Ops Tree.Script Tree.Serialize
  Tree.Inv Tree.InvProofsBase Tree.InvProofsCore Tree.InvProofsTree Tree.Files Tree.FilesProofsBase Tree.FilesProofsProj.
Open Scope string_scope.
Open Scope list_scope.
Open Scope N_scope.

Definition fset (w : world) (i : id) (s : list N) : world :=
  match w_nodes w i with Some n => wset w i (set_files n s) | None => w end.

Lemma fset_eq w i n s : w_nodes w i = Some n -> w_nodes (fset w i s) i = Some (set_files n s).
Proof. unfold fset. intros ->. cbn. apply upd_eq. Qed.
Lemma fset_neq w i s x : x <> i -> w_nodes (fset w i s) x = w_nodes w x.
Proof. unfold fset. destruct (w_nodes w i); auto. cbn. intros H. apply upd_neq. exact H. Qed.
Lemma fset_models w i s : w_models (fset w i s) = w_models w.
Proof. unfold fset. destruct (w_nodes w i); reflexivity. Qed.
Lemma fset_files w i s : w_files (fset w i s) = w_files w.
Proof. unfold fset. destruct (w_nodes w i); reflexivity. Qed.
Lemma fset_next w i s : w_next (fset w i s) = w_next w.
Proof. unfold fset. destruct (w_nodes w i); reflexivity. Qed.

Lemma fset_skel w i s x : skel (fset w i s) x = skel w x.
Proof.
  destruct (N.eq_dec x i) as [->|Hne].
  - unfold skel. destruct (w_nodes w i) as [n|] eqn:Hn.
    + rewrite (fset_eq _ _ _ _ Hn). reflexivity.
    + unfold fset. rewrite Hn. rewrite Hn. reflexivity.
  - unfold skel. rewrite fset_neq; auto.
Qed.

Lemma fset_same_tree w i s : same_tree w (fset w i s).
Proof.
  repeat split.
  - apply fset_next.
  - unfold roots. rewrite fset_models. reflexivity.
  - intros x. apply fset_skel.
Qed.

Lemma modify_files_fset i s w r w' :
  modify_node i (fun x => set_files x s) w = Val (r, w') -> r = OK tt /\ w' = fset w i s /\ allocated w i.
Proof.
  intros H. apply modify_node_wset in H as (n & Hn & -> & ->). unfold fset. rewrite Hn. repeat split; auto. exists n; auto.
Qed.

(* reachability only looks at the skeleton *)
Lemma lists_same_tree w w' p c : same_tree w w' -> lists w p c -> lists w' p c.
Proof.
  intros (_ & _ & Hs) H. apply lists_skel in H as (pp & ks & Hk & Hc). apply lists_skel. exists pp, ks. rewrite Hs. auto.
Qed.
Lemma allocated_same_tree w w' i : same_tree w w' -> allocated w i -> allocated w' i.
Proof. intros (_ & _ & Hs) H. apply allocated_skel in H. apply allocated_skel. rewrite Hs. exact H. Qed.
Lemma reach_same_tree w w' r i : same_tree w w' -> Reach w r i -> Reach w' r i.
Proof.
  intros S H. induction H as [H|p c Hp IH Hl].
  - constructor. eapply allocated_same_tree; eauto.
  - eapply R_kid; eauto. eapply lists_same_tree; eauto.
Qed.
Lemma reach_same_tree_iff w w' r i : same_tree w w' -> (Reach w r i <-> Reach w' r i).
Proof. intros S. split; apply reach_same_tree; auto. apply same_tree_sym. exact S. Qed.

Lemma fset_reach w i s r x : Reach (fset w i s) r x <-> Reach w r x.
Proof. symmetry. apply reach_same_tree_iff. apply fset_same_tree. Qed.

Lemma fset_core w i s : Core w -> Core (fset w i s).
Proof. apply Core_same_tree. apply fset_same_tree. Qed.

(* the node at x after the update, in terms of the node before *)
Lemma fset_node w i s x n' : w_nodes (fset w i s) x = Some n' ->
  exists n, w_nodes w x = Some n /\ n_parent n' = n_parent n /\ n_type n' = n_type n /\ n_content n' = n_content n /\
            ((x = i /\ n_files n' = s) \/ (x <> i /\ n_files n' = n_files n)).
Proof.
  destruct (N.eq_dec x i) as [->|Hne].
  - destruct (w_nodes w i) as [n|] eqn:Hn.
    + rewrite (fset_eq _ _ _ _ Hn). intros [= <-]. exists n. cbn. repeat split; auto.
    + unfold fset. rewrite Hn. congruence.
  - rewrite fset_neq; auto. intros H. exists n'. repeat split; auto.
Qed.

(* ------------------------------------------------------------------ materialize *)
Section Materialize.
Variables (w : world) (c : id) (s : list N) (cn : node).
Hypothesis Hc : w_nodes w c = Some cn.
Hypothesis Hempty : n_files cn = [].
Hypothesis Heff : Eff w c s.
Let w' := fset w c s.

Lemma mat_fwd i t : Eff w i t -> Eff w' i t.
Proof.
  induction 1 as [i n Hn Hf | i n p t Hn Hf Hp He IH].
  - assert (i <> c) by (intros ->; congruence).
    constructor; auto. unfold w'. rewrite fset_neq; auto.
  - destruct (N.eq_dec i c) as [->|Hne].
    + assert (t = s) as -> by (eapply Eff_fun; [eapply Eff_up; eauto|exact Heff]).
      replace s with (n_files (set_files cn s)) by reflexivity. constructor.
      * unfold w'. apply fset_eq. exact Hc.
      * cbn. eapply Eff_nonempty; eauto.
    + eapply Eff_up; eauto. unfold w'. rewrite fset_neq; auto.
Qed.

Lemma mat_bwd i t : Eff w' i t -> Eff w i t.
Proof.
  induction 1 as [i n Hn Hf | i n p t Hn Hf Hp He IH].
  - destruct (N.eq_dec i c) as [->|Hne].
    + unfold w' in Hn. rewrite (fset_eq _ _ _ _ Hc) in Hn. injection Hn as <-. cbn. exact Heff.
    + unfold w' in Hn. rewrite fset_neq in Hn; auto. constructor; auto.
  - destruct (N.eq_dec i c) as [->|Hne].
    + unfold w' in Hn. rewrite (fset_eq _ _ _ _ Hc) in Hn. injection Hn as <-. cbn in Hf.
      exfalso. apply (Eff_nonempty _ _ _ Heff). exact Hf.
    + unfold w' in Hn. rewrite fset_neq in Hn; auto. eapply Eff_up; eauto.
Qed.

Lemma mat_iff i t : Eff w' i t <-> Eff w i t.
Proof. split; [apply mat_bwd | apply mat_fwd]. Qed.
End Materialize.

(* ------------------------------------------------------------------ extend *)
(* i inherits its effective set from cur: the nodes from i up to (excluding) cur have empty sets *)
Inductive Inh (w : world) (cur : id) : id -> Prop :=
| Inh_refl : Inh w cur cur
| Inh_up i n q : w_nodes w i = Some n -> n_files n = [] -> n_parent n = PElem q -> Inh w cur q -> Inh w cur i.

Lemma inh_eff w cur i s : Inh w cur i -> Eff w cur s -> Eff w i s.
Proof. induction 1 as [|i n q Hn Hf Hq Hi IH]; auto. intros He. eapply Eff_up; eauto. Qed.

Section Extend.
Variables (w : world) (cur : id) (s : list N) (f : N).
Hypothesis Heff : Eff w cur s.
Let w' := fset w cur (set_add f s).

Lemma ext_cur : Eff w' cur (set_add f s).
Proof.
  destruct (Eff_alloc _ _ _ Heff) as (n & Hn).
  replace (set_add f s) with (n_files (set_files n (set_add f s))) by reflexivity. constructor.
  - unfold w'. apply fset_eq. exact Hn.
  - cbn. apply set_add_nonempty.
Qed.

Lemma ext_mono i t : Eff w i t -> exists t', Eff w' i t' /\ incl t t' /\ (forall g, In g t' -> g = f \/ In g t).
Proof.
  induction 1 as [i n Hn Hf | i n p t Hn Hf Hp He IH].
  - destruct (N.eq_dec i cur) as [->|Hne].
    + assert (n_files n = s) as E by (eapply Eff_fun; [constructor; eauto|exact Heff]).
      exists (set_add f s). split; [apply ext_cur|]. rewrite E. split.
      * intros g Hg. apply set_add_in. auto.
      * intros g Hg. apply set_add_in in Hg. tauto.
    + exists (n_files n). split; [constructor; auto; unfold w'; rewrite fset_neq; auto|]. split; [apply incl_refl|auto].
  - destruct (N.eq_dec i cur) as [->|Hne].
    + assert (t = s) as -> by (eapply Eff_fun; [eapply Eff_up; eauto|exact Heff]).
      exists (set_add f s). split; [apply ext_cur|]. split.
      * intros g Hg. apply set_add_in. auto.
      * intros g Hg. apply set_add_in in Hg. tauto.
    + destruct IH as (t' & Ht' & I1 & I2). exists t'. split; auto.
      eapply Eff_up; eauto. unfold w'. rewrite fset_neq; auto.
Qed.

Lemma ext_inh i : Inh w cur i -> Eff w' i (set_add f s).
Proof.
  induction 1 as [|i n q Hn Hf Hq Hi IH]; [apply ext_cur|].
  destruct (N.eq_dec i cur) as [->|Hne]; [apply ext_cur|].
  eapply Eff_up; eauto. unfold w'. rewrite fset_neq; auto.
Qed.
End Extend.
