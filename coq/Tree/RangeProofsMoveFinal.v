(* Tree/RangeProofsMoveFinal.v — C07: the order invariant for move_element_here[_at] into another parent, assembled from
   Keep (every step before the insertion) + the insertion inside the range of the moved element's name. *)
From Coq Require Import Arith.
From AV Require Import Base.Bytes Base.Outcome Hash.HashModel Spec.SpecOps Tree.Heap Tree.Ops Tree.Script Tree.Inv Tree.InvProofsBase
  Tree.Range Tree.RangeProofsPath Tree.SpecWF Tree.RangeProofsLoop Tree.RangeProofsCalc Tree.RangeProofsOps
  Tree.InvProofsCreate Tree.RangeProofsKeep Tree.RangeProofsMove.
Open Scope list_scope.
Open Scope N_scope.

(* ------------------------------------------------------------------ Ordered depends on the names of the sub-elements only,
   and is inherited by subsequences *)
Section Names.
Variable T : tables.

Lemma paths_of_somes ty v items : paths_of T ty v items = paths_of T ty v (map Some (somes items)).
Proof.
  induction items as [|[nm|] r IH]; cbn [paths_of somes flat_map app map]; [reflexivity| |exact IH].
  change (flat_map _ r) with (somes r). rewrite IH. reflexivity.
Qed.

Lemma paths_of_subseq ty v : forall l' l pl, subseq l' l -> paths_of T ty v (map Some l) = Some pl ->
  exists pl', paths_of T ty v (map Some l') = Some pl' /\ subseq pl' pl.
Proof.
  intros l' l pl S. revert pl. induction S; intros pl; cbn [map paths_of].
  - intros [= <-]. exists []. split; [reflexivity|apply ss_nil].
  - destruct (idx_of T ty v x) as [ix|]; [|discriminate]. destruct (paths_of T ty v (map Some l)) as [pr|] eqn:E; [|discriminate].
    intros [= <-]. destruct (IHS pr eq_refl) as (pl' & H1 & H2). exists pl'. split; [exact H1|apply ss_skip; exact H2].
  - destruct (idx_of T ty v x) as [ix|]; [|discriminate]. destruct (paths_of T ty v (map Some l)) as [pr|] eqn:E; [|discriminate].
    intros [= <-]. destruct (IHS pr eq_refl) as (pl' & H1 & H2). rewrite H1. exists (ix :: pl'). split; [reflexivity|apply ss_take; exact H2].
Qed.

Lemma all_pairs_ok_subseq ty : forall l' l, subseq l' l -> all_pairs_ok T ty l = true -> all_pairs_ok T ty l' = true.
Proof.
  intros l' l S. induction S; intros H; [reflexivity| |].
  - cbn [all_pairs_ok] in H. apply andb_true_iff in H as [_ H]. auto.
  - cbn [all_pairs_ok] in *. apply andb_true_iff in H as [H1 H2]. apply andb_true_iff. split; [|auto].
    rewrite forallb_forall in *. intros y Hy. apply H1. eapply subseq_in; eauto.
Qed.

Lemma ordered_subseq ty v items items' :
  subseq (somes items') (somes items) -> Ordered T ty v items -> Ordered T ty v items'.
Proof.
  unfold Ordered, orderedb. rewrite (paths_of_somes ty v items), (paths_of_somes ty v items').
  intros S. destruct (paths_of T ty v (map Some (somes items))) as [pl|] eqn:E; [|discriminate].
  destruct (paths_of_subseq ty v _ _ pl S E) as (pl' & -> & S2). intros H. eapply all_pairs_ok_subseq; eauto.
Qed.

End Names.

(* ------------------------------------------------------------------ names of the children of a node *)
Definition nm (w : world) (i : id) : N := match w_nodes w i with Some n => n_name n | None => 0 end.

Lemma elems_cons x c : elems (x :: c) = match x with CElem i => [i] | CData _ => [] end ++ elems c.
Proof. reflexivity. Qed.
Lemma somes_cons {A} (x : option A) l : somes (x :: l) = match x with Some a => [a] | None => [] end ++ somes l.
Proof. reflexivity. Qed.

Lemma items_of_names w : forall c items, items_of w c = Some items ->
  somes items = map (nm w) (elems c) /\ (forall i, In i (elems c) -> w_nodes w i <> None).
Proof.
  induction c as [|x c IH]; intros items; cbn [items_of].
  - intros [= <-]. split; [reflexivity|intros i []].
  - destruct (item_of w x) as [it|] eqn:EI; [|discriminate]. destruct (items_of w c) as [xs|] eqn:EL; [|discriminate].
    intros [= <-]. destruct (IH xs eq_refl) as (E1 & E2). rewrite elems_cons, somes_cons. destruct x as [i|d]; cbn [item_of] in EI.
    + destruct (w_nodes w i) as [cn|] eqn:EN; [|discriminate]. injection EI as <-. cbn [app map].
      split; [unfold nm at 1; rewrite EN, E1; reflexivity|]. intros j [<-|Hj]; [congruence|auto].
    + injection EI as <-. cbn [app]. auto.
Qed.

Lemma items_of_exists w : forall c, (forall i, In i (elems c) -> w_nodes w i <> None) -> exists items, items_of w c = Some items.
Proof.
  induction c as [|x c IH]; intros H; [exists []; reflexivity|].
  destruct IH as (xs & EL).
  { intros i Hi. apply H. rewrite elems_cons. apply in_or_app. right. exact Hi. }
  cbn [items_of]. rewrite EL. destruct x as [i|d]; cbn [item_of].
  - destruct (w_nodes w i) eqn:EN; [eauto|]. exfalso. apply (H i); [rewrite elems_cons; left; reflexivity|exact EN].
  - eauto.
Qed.

Lemma map_subseq {A B} (f : A -> B) l' l : subseq l' l -> subseq (map f l') (map f l).
Proof. induction 1; cbn [map]; [apply ss_nil | apply ss_skip; auto | apply ss_take; auto]. Qed.

Lemma pdull_insert c c' k x : pdull c c' -> subseq (elems (insert_at c' k x)) (elems (insert_at c k x)).
Proof.
  intros H. revert k. induction H; intros k.
  - destruct k; apply subseq_refl.
  - destruct k as [|k]; cbn [insert_at]; rewrite !elems_cons.
    + apply subseq_app; [apply subseq_refl|]. apply subseq_app; [apply subseq_refl|]. apply pdull_elems. exact H.
    + apply subseq_app; [apply subseq_refl | apply IHpdull].
  - destruct k as [|k]; cbn [insert_at]; rewrite !elems_cons.
    + apply subseq_app; [apply subseq_refl|]. cbn [app].
      destruct x0; cbn [app]; [apply ss_skip|]; apply pdull_elems; exact H.
    + cbn [app]. destruct x0; cbn [app]; [apply ss_skip|]; apply IHpdull.
Qed.

Lemma elems_insert_in c k i : In i (elems (insert_at c k (CElem i))).
Proof.
  revert k. induction c as [|y c IH]; intros k; [destruct k; left; reflexivity|].
  destruct k as [|k]; cbn [insert_at]; rewrite !elems_cons; [left; reflexivity|]. apply in_or_app. right. apply IH.
Qed.

Lemma subseq_single {A} (x : A) l : In x l -> subseq [x] l.
Proof.
  induction l as [|y l IH]; intros H; [destruct H|]. destruct H as [->|H]; [apply ss_take; apply subseq_nil | apply ss_skip; auto].
Qed.

Lemma elems_nil_insert c k i : elems c = [] -> elems (insert_at c k (CElem i)) = [i].
Proof.
  revert k. induction c as [|y c IH]; intros k H; [destruct k; reflexivity|].
  rewrite elems_cons in H. destruct y as [j|d]; cbn [app] in H; [discriminate|].
  destruct k as [|k]; cbn [insert_at]; rewrite !elems_cons; cbn [app]; [rewrite H; reflexivity | apply IH; exact H].
Qed.

Lemma map_nm_eq (wa wb : world) l : (forall i, In i l -> nm wa i = nm wb i) -> map (nm wa) l = map (nm wb) l.
Proof. intros H. apply map_ext_in. exact H. Qed.

Lemma elems_insert_subset c k i j : In j (elems (insert_at c k (CElem i))) -> In j (elems c) \/ j = i.
Proof.
  revert k. induction c as [|y c IH]; intros k H.
  - destruct k; cbn in H; destruct H as [<-|[]]; right; reflexivity.
  - destruct k as [|k]; cbn [insert_at] in H; rewrite !elems_cons in H.
    + cbn [app] in H. destruct H as [<-|H]; [right; reflexivity|]. left. rewrite elems_cons. exact H.
    + apply in_app_or in H as [H|H]; [left; rewrite elems_cons; apply in_or_app; left; exact H|].
      destruct (IH k H) as [H1|H1]; [left; rewrite elems_cons; apply in_or_app; right; exact H1 | right; exact H1].
Qed.

Section Final.
Variable T : tables.
Hypothesis WF : SpecWF T.

(* every step before the insertion only shrinks (Keep), then the element is inserted inside the range *)
Theorem keep_insert_order h mv pos w w4 w' n mn v items lo hi :
  Keep h w w4 -> content_insert h pos (CElem mv) w4 = Val (OK tt, w') ->
  w_nodes w h = Some n -> w_nodes w mv = Some mn ->
  items_of w (n_content n) = Some items -> Ordered T (n_type n) v items ->
  calc_element_insert_range T n (n_name mn) v w = Val (OK (lo, hi), w) -> lo <= pos <= hi ->
  (exists n' items', w_nodes w' h = Some n' /\ n_type n' = n_type n /\
     items_of w' (n_content n') = Some items' /\ Ordered T (n_type n) v items') /\
  (forall i ni itemsi vi, i <> h -> w_nodes w i = Some ni -> items_of w (n_content ni) = Some itemsi ->
     Ordered T (n_type ni) vi itemsi ->
     exists ni' itemsi', w_nodes w' i = Some ni' /\ n_type ni' = n_type ni /\
       items_of w' (n_content ni') = Some itemsi' /\ Ordered T (n_type ni) vi itemsi').
Proof.
  intros K HC Hn Hmv HI HO EC Hp.
  apply content_insert_inv in HC as (n4 & Hn4 & _ & ->).
  destruct (K _ _ Hn) as (n4' & Hn4' & (Hname4 & Htype4 & Hsub4 & Hh4)). rewrite Hn4 in Hn4'. injection Hn4' as <-.
  specialize (Hh4 eq_refl).
  set (w' := wset w4 h (set_content n4 (insert_at (n_content n4) (N.to_nat pos) (CElem mv)))).
  (* allocation and names are kept from w to w' *)
  assert (Halloc : forall i ni, w_nodes w i = Some ni -> w_nodes w' i <> None /\ nm w' i = nm w i).
  { intros i ni Hi. destruct (K _ _ Hi) as (ni4 & Hi4 & (Hnm & _)).
    unfold w', wset, nm. cbn [w_nodes]. unfold upd. destruct (i =? h) eqn:E.
    - apply N.eqb_eq in E. subst i. rewrite Hn4 in Hi4. injection Hi4 as <-. rewrite Hi. cbn [n_name set_content].
      split; [discriminate|exact Hnm].
    - rewrite Hi4, Hi. split; [discriminate|exact Hnm]. }
  assert (Hnames : forall c itemsc, items_of w c = Some itemsc -> forall l, subseq l (elems c) ->
            map (nm w') l = map (nm w) l /\ (forall i, In i l -> w_nodes w' i <> None)).
  { intros c itemsc Hc l Sl. destruct (items_of_names w c itemsc Hc) as (_ & Hal).
    split.
    - apply map_nm_eq. intros i Hi. destruct (w_nodes w i) as [ni|] eqn:E; [eapply Halloc; eauto|].
      exfalso. apply (Hal i); [eapply subseq_in; eauto|exact E].
    - intros i Hi. destruct (w_nodes w i) as [ni|] eqn:E; [eapply Halloc; eauto|].
      exfalso. apply (Hal i); [eapply subseq_in; eauto|exact E]. }
  split.
  - (* the destination *)
    assert (Hmvitem : item_of w (CElem mv) = Some (Some (n_name mn))) by (cbn [item_of]; rewrite Hmv; reflexivity).
    pose proof (items_of_insert w (n_content n) items (N.to_nat pos) (CElem mv) _ HI Hmvitem) as HI0.
    destruct (items_of_names w _ _ HI0) as (EN0 & Hal0).
    assert (Hids : subseq (elems (insert_at (n_content n4) (N.to_nat pos) (CElem mv)))
                          (elems (insert_at (n_content n) (N.to_nat pos) (CElem mv)))).
    { destruct Hh4 as [Hd|He].
      - apply pdull_insert. exact Hd.
      - rewrite (elems_nil_insert _ _ _ He). apply subseq_single. apply elems_insert_in. }
    destruct (Hnames _ _ HI0 _ Hids) as (Hmap & Hal').
    destruct (items_of_exists w' (insert_at (n_content n4) (N.to_nat pos) (CElem mv)) Hal') as (items' & HI').
    exists (set_content n4 (insert_at (n_content n4) (N.to_nat pos) (CElem mv))), items'.
    split; [unfold w', wset; cbn [w_nodes]; unfold upd; rewrite N.eqb_refl; reflexivity|].
    split; [cbn [n_type set_content]; exact Htype4|]. cbn [n_content set_content]. split; [exact HI'|].
    destruct (range_exact T WF n (n_name mn) v w lo hi w items HI HO EC) as (_ & _ & Hhi & Hiff).
    assert (HOI : Ordered T (n_type n) v (ins items (N.to_nat pos) (Some (n_name mn)))) by (apply Hiff; lia).
    eapply ordered_subseq; [|exact HOI].
    destruct (items_of_names w' _ _ HI') as (EN' & _). rewrite EN', EN0, Hmap. apply map_subseq. exact Hids.
  - (* every other node *)
    intros i ni itemsi vi NE Hi HIi HOi.
    destruct (K _ _ Hi) as (ni4 & Hi4 & (_ & Hty & Hsub & _)).
    destruct (Hnames _ _ HIi _ Hsub) as (Hmap & Hal').
    destruct (items_of_exists w' (n_content ni4) Hal') as (itemsi' & HIi').
    exists ni4, itemsi'.
    split; [unfold w', wset; cbn [w_nodes]; unfold upd; apply N.eqb_neq in NE; rewrite NE; exact Hi4|].
    split; [exact Hty|]. split; [exact HIi'|].
    eapply ordered_subseq; [|exact HOi].
    destruct (items_of_names w' _ _ HIi') as (EN' & _). destruct (items_of_names w _ _ HIi) as (EN & _).
    rewrite EN', EN, Hmap. apply map_subseq. exact Hsub.
Qed.

End Final.

(* ------------------------------------------------------------------ the public calls, destination <> current parent *)
Section Public.
Variable T : tables.
Variable tab_en : nametab.
Variable check_fn : N -> list N -> res bool.
Variable LATEST : N.
Hypothesis WF : SpecWF T.

Definition move_order_post (h : id) (n : node) (v : N) (w w' : world) : Prop :=
  (exists n' items', w_nodes w' h = Some n' /\ n_type n' = n_type n /\
     items_of w' (n_content n') = Some items' /\ Ordered T (n_type n) v items') /\
  (forall i ni itemsi vi, i <> h -> w_nodes w i = Some ni -> items_of w (n_content ni) = Some itemsi ->
     Ordered T (n_type ni) vi itemsi ->
     exists ni' itemsi', w_nodes w' i = Some ni' /\ n_type ni' = n_type ni /\
       items_of w' (n_content ni') = Some itemsi' /\ Ordered T (n_type ni) vi itemsi').

Theorem move_at_other_parent_order_inv h mv pos n mn ms m vs v w c w' items :
  w_nodes w h = Some n -> w_nodes w mv = Some mn -> n_parent mn <> PElem h ->
  model_of mv w = Val (OK ms, w) -> model_of h w = Val (OK m, w) ->
  min_version LATEST mv w = Val (OK vs, w) -> min_version LATEST h w = Val (OK v, w) ->
  items_of w (n_content n) = Some items -> Ordered T (n_type n) v items ->
  e_move_element_here_at T tab_en check_fn LATEST h mv pos w = Val (OK c, w') ->
  move_order_post h n v w w'.
Proof.
  intros Hn Hmn Hpar Hms Hm Hvs Hv HI HO H.
  assert (Hpar' : forall mn0, w_nodes w mv = Some mn0 -> n_parent mn0 <> PElem h) by (intros mn0 E; congruence).
  unfold e_move_element_here_at in H.
  destruct (h =? mv) eqn:Ehm; [discriminate|].
  unfold wbind at 1 in H. rewrite Hms in H. unfold wbind at 1 in H. rewrite Hm in H.
  unfold wbind at 1 in H. rewrite Hvs in H. unfold wbind at 1 in H. rewrite Hv in H.
  destruct (v =? vs) eqn:EV; cbn [negb] in H; [|discriminate].
  unfold wbind at 1 in H. unfold get_node at 1 in H. rewrite Hn in H.
  unfold wbind at 1 in H. unfold get_node at 1 in H. rewrite Hmn in H.
  unfold wbind at 1 in H.
  destruct (calc_element_insert_range T n (n_name mn) v w) as [[[[lo hi]|er] w1]| |] eqn:EC; try discriminate.
  pose proof (calc_ro T _ _ _ _ _ _ EC) as ->.
  destruct ((lo <=? pos) && (pos <=? hi)) eqn:EP; [|discriminate].
  apply andb_true_iff in EP as [E1 E2]. apply N.leb_le in E1. apply N.leb_le in E2.
  assert (Hfin : forall w4, Keep h w w4 -> content_insert h pos (CElem mv) w4 = Val (OK tt, w') -> move_order_post h n v w w').
  { intros w4 K HCI. eapply (keep_insert_order T WF); eauto. }
  destruct (m =? ms).
  - unfold wbind at 1 in H. unfold parent_of in H.
    destruct (n_parent mn) as [|mm|p] eqn:EPp; try discriminate.
    unfold wret at 1 in H. cbn beta iota in H.
    destruct (p =? h) eqn:Eph; [apply N.eqb_eq in Eph; congruence|].
    destruct (move_local_keep T check_fn h mv pos m v w c w' H Hpar') as (w4 & K & HCI & _). eauto.
  - destruct (move_full_keep T tab_en check_fn h mv pos m ms v w c w' H Hpar') as (w4 & K & HCI & _). eauto.
Qed.

Theorem move_other_parent_order_inv h mv n mn ms m vs v w c w' items :
  w_nodes w h = Some n -> w_nodes w mv = Some mn -> n_parent mn <> PElem h ->
  model_of mv w = Val (OK ms, w) -> model_of h w = Val (OK m, w) ->
  min_version LATEST mv w = Val (OK vs, w) -> min_version LATEST h w = Val (OK v, w) ->
  items_of w (n_content n) = Some items -> Ordered T (n_type n) v items ->
  e_move_element_here T tab_en check_fn LATEST h mv w = Val (OK c, w') ->
  move_order_post h n v w w'.
Proof.
  intros Hn Hmn Hpar Hms Hm Hvs Hv HI HO H.
  assert (Hpar' : forall mn0, w_nodes w mv = Some mn0 -> n_parent mn0 <> PElem h) by (intros mn0 E; congruence).
  unfold e_move_element_here in H.
  destruct (h =? mv) eqn:Ehm; [discriminate|].
  unfold wbind at 1 in H. rewrite Hms in H. unfold wbind at 1 in H. rewrite Hm in H.
  unfold wbind at 1 in H. rewrite Hvs in H. unfold wbind at 1 in H. rewrite Hv in H.
  destruct (v =? vs) eqn:EV; cbn [negb] in H; [|discriminate].
  unfold wbind at 1 in H. unfold get_node at 1 in H. rewrite Hn in H.
  unfold wbind at 1 in H. unfold get_node at 1 in H. rewrite Hmn in H.
  unfold wbind at 1 in H.
  destruct (calc_element_insert_range T n (n_name mn) v w) as [[[[lo hi]|er] w1]| |] eqn:EC; try discriminate.
  pose proof (calc_bound T _ _ _ _ _ _ _ EC) as Hb. pose proof (calc_ro T _ _ _ _ _ _ EC) as ->.
  assert (Hfin : forall w4, Keep h w w4 -> content_insert h hi (CElem mv) w4 = Val (OK tt, w') -> move_order_post h n v w w').
  { intros w4 K HCI. eapply (keep_insert_order T WF); eauto. lia. }
  destruct (m =? ms).
  - unfold wbind at 1 in H. unfold parent_of in H.
    destruct (n_parent mn) as [|mm|p] eqn:EPp; try discriminate.
    unfold wret at 1 in H. cbn beta iota in H.
    destruct (p =? h) eqn:Eph; [apply N.eqb_eq in Eph; congruence|].
    destruct (move_local_keep T check_fn h mv hi m v w c w' H Hpar') as (w4 & K & HCI & _). eauto.
  - destruct (move_full_keep T tab_en check_fn h mv hi m ms v w c w' H Hpar') as (w4 & K & HCI & _). eauto.
Qed.

End Public.
