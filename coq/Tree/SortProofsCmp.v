(* Tree/SortProofsCmp.v — Element::cmp as the code stands (policy_cur) is a total preorder, and Equal only for elements
   that are identical except for comments (and what cmp never looks at: element type, file membership, parent).
   Method: a TOTAL comparison cmp_t (defaults where the model has Pan, Eq where it runs out of fuel) is a total preorder
   everywhere by construction (lexicographic combination of total preorders on keys, induction on the fuel), and the model's
   cmp_f agrees with it whenever it returns a value.
   The versions before the fixes (policy_v0) are refuted on a tiny table set: cyclic names, the skipped stages. *)
From Coq Require Import Permutation Lia.
From AV Require Import Base.Bytes Base.Outcome Base.Radix Hash.HashModel Tree.Heap Tree.Ops Tree.Sort Tree.SortProofsOrder.
Open Scope list_scope.
Open Scope N_scope.

(* ------------------------------------------------------------------ generic: lexicographic transitivity on comparisons *)
Lemma tpo_eq_left {A} (c : A -> A -> comparison) : TPO c -> forall x y z, c x y = Eq -> c x z = c y z.
Proof. intros H x y z e. apply (on_eq_left c (fun _ => True) (TPO_on c _ H) x y z I I I e). Qed.
Lemma tpo_eq_right {A} (c : A -> A -> comparison) : TPO c -> forall x y z, c y z = Eq -> c x z = c x y.
Proof. intros H x y z e. apply (on_eq_right c (fun _ => True) (TPO_on c _ H) x y z I I I e). Qed.
Lemma tpo_lt_lt {A} (c : A -> A -> comparison) : TPO c -> forall x y z, c x y = Lt -> c y z = Lt -> c x z = Lt.
Proof.
  intros H x y z e1 e2.
  assert (n : c x z <> Gt) by (eapply (o_trans _ H x y z); congruence).
  destruct (c x z) eqn:E; auto; try congruence. exfalso.
  assert (c z y = Lt) by (rewrite <- (tpo_eq_left c H x z y E); exact e1).
  rewrite (o_swap _ H y z), e2 in H0. discriminate.
Qed.

Lemma cthen_trans a1 a2 a3 b1 b2 b3 :
  (a1 <> Gt -> a2 <> Gt -> a3 <> Gt) -> (a1 = Eq -> a3 = a2) -> (a2 = Eq -> a3 = a1) -> (a1 = Lt -> a2 = Lt -> a3 = Lt) ->
  (b1 <> Gt -> b2 <> Gt -> b3 <> Gt) ->
  cthen a1 b1 <> Gt -> cthen a2 b2 <> Gt -> cthen a3 b3 <> Gt.
Proof.
  intros t e1 e2 ll tb.
  destruct a1, a2; cbn; intros h1 h2; try congruence.
  - rewrite (e1 eq_refl). cbn. auto.
  - rewrite (e1 eq_refl). cbn. congruence.
  - rewrite (e2 eq_refl). cbn. congruence.
  - rewrite (ll eq_refl eq_refl). cbn. congruence.
Qed.

(* total lexicographic order of lists *)
Fixpoint slice_t {A} (ec : A -> A -> comparison) (x y : list A) : comparison :=
  match x, y with
  | [], [] => Eq
  | [], _ :: _ => Lt
  | _ :: _, [] => Gt
  | i :: x', j :: y' => cthen (ec i j) (slice_t ec x' y')
  end.

Lemma TPO_slice {A} (ec : A -> A -> comparison) : TPO ec -> TPO (slice_t ec).
Proof.
  intros H. split.
  - induction x as [| i x IH]; cbn; auto. rewrite (o_refl _ H), IH. reflexivity.
  - induction x as [| i x IH]; intros [| j y]; cbn; auto.
    rewrite (o_swap _ H i j), (IH y). symmetry. apply cthen_opp.
  - induction x as [| i x IH]; intros [| j y] [| k z]; cbn; try congruence.
    apply cthen_trans.
    + apply (o_trans _ H).
    + apply (tpo_eq_left ec H).
    + intros e. apply (tpo_eq_right ec H); auto.
    + apply (tpo_lt_lt ec H).
    + apply IH.
Qed.

Lemma slice_t_eq {A} (ec : A -> A -> comparison) x : forall y, slice_t ec x y = Eq -> Forall2 (fun i j => ec i j = Eq) x y.
Proof.
  induction x as [| i x IH]; intros [| j y]; cbn; try discriminate; [constructor |].
  intros e. apply cthen_eq in e as [e1 e2]. constructor; auto.
Qed.

(* Option with Some first *)
Definition optS {K} (kc : K -> K -> comparison) (a b : option K) : comparison :=
  match a, b with
  | Some x, Some y => kc x y
  | Some _, None => Lt
  | None, Some _ => Gt
  | None, None => Eq
  end.
Lemma TPO_optS {K} (kc : K -> K -> comparison) : TPO kc -> TPO (optS kc).
Proof.
  intros [r s t]. split.
  - intros [x |]; cbn; auto.
  - intros [x |] [y |]; cbn; auto.
  - intros [x |] [y |] [z |]; cbn; try congruence. apply t.
Qed.

Lemma decided_spec c : decided c = match c with Eq => None | _ => Some c end.
Proof. reflexivity. Qed.
Lemma stage_present_optS {K} (kc : K -> K -> comparison) a b : stage_present kc a b = decided (optS kc a b).
Proof. destruct a, b; reflexivity. Qed.
Lemma orelse_decided a b : orelse (decided a) (decided b) = decided (cthen a b).
Proof. destruct a; reflexivity. Qed.
Lemma orelse_decided' a o b : o = decided b -> orelse (decided a) o = decided (cthen a b).
Proof. intros ->. apply orelse_decided. Qed.

Section Cmp.
Variable T : tables.
Variable tab_el tab_at tab_en : nametab.
Variable name_index name_definition_ref : N.

(* ------------------------------------------------------------------ stages 1-5 *)
Definition hcmp (a b : nkeys) : comparison :=
  cthen (lex_cmp (k_name a) (k_name b))
 (cthen (optS N.compare (k_index a) (k_index b))
 (cthen (optS name_cmp (k_iname a) (k_iname b))
 (cthen (optS lex_cmp (k_defref a) (k_defref b))
        (optS lex_cmp (k_dest a) (k_dest b))))).

Lemma head_stages_cur a b : head_stages policy_cur a b = decided (hcmp a b).
Proof.
  unfold head_stages, hcmp, stage_opt. cbn [policy_cur p_both_only p_name].
  rewrite !stage_present_optS. repeat (apply orelse_decided'). reflexivity.
Qed.

Lemma TPO_hcmp : TPO hcmp.
Proof.
  unfold hcmp.
  apply (TPO_then (fun a b => lex_cmp (k_name a) (k_name b))); [apply (TPO_map k_name), TPO_lex |].
  apply (TPO_then (fun a b => optS N.compare (k_index a) (k_index b))); [apply (TPO_map k_index), TPO_optS, TPO_Ncompare |].
  apply (TPO_then (fun a b => optS name_cmp (k_iname a) (k_iname b))); [apply (TPO_map k_iname), TPO_optS, TPO_name_cmp |].
  apply (TPO_then (fun a b => optS lex_cmp (k_defref a) (k_defref b))); [apply (TPO_map k_defref), TPO_optS, TPO_lex |].
  apply (TPO_map k_dest), TPO_optS, TPO_lex.
Qed.

(* ------------------------------------------------------------------ values and attributes, total *)
Definition skey (tab : nametab) (e : N) : list N := match to_str tab e with Some s => s | None => [] end.

Definition cdata_t (a b : cdata) : comparison :=
  match a, b with
  | DEnum x, DEnum y => lex_cmp (skey tab_en x) (skey tab_en y)
  | DString x, DString y => lex_cmp x y
  | DUInt x, DUInt y => x ?= y
  | DFloat x, DFloat y => f64_total_cmp x y
  | DEnum _, _ => Lt
  | DString _, DEnum _ => Gt
  | DString _, _ => Lt
  | DUInt _, DEnum _ => Gt
  | DUInt _, DString _ => Gt
  | DUInt _, _ => Lt
  | DFloat _, _ => Gt
  end.

Lemma TPO_cdata_t : TPO cdata_t.
Proof.
  pose proof TPO_lex as L. pose proof TPO_Ncompare as NC. pose proof TPO_f64_total as F.
  split.
  - intros [x | x | x | x]; cbn; [apply (o_refl _ L) | apply (o_refl _ L) | apply (o_refl _ NC) | apply (o_refl _ F)].
  - intros [x | x | x | x] [y | y | y | y]; cbn; auto;
      [apply (o_swap _ L) | apply (o_swap _ L) | apply (o_swap _ NC) | apply (o_swap _ F)].
  - intros [x | x | x | x] [y | y | y | y] [z | z | z | z]; cbn; try congruence;
      [apply (o_trans _ L) | apply (o_trans _ L) | apply (o_trans _ NC) | apply (o_trans _ F)].
Qed.

Lemma cdata_cmp_t a b c : cdata_cmp tab_en policy_cur a b = Val c -> c = cdata_t a b.
Proof.
  destruct a, b; cbn; try (intros [= <-]; reflexivity).
  unfold skey. destruct (to_str tab_en item); cbn; try discriminate.
  destruct (to_str tab_en item0); cbn; try discriminate. intros [= <-]. reflexivity.
Qed.

Definition attr_t (a b : N * cdata) : comparison :=
  cthen (lex_cmp (skey tab_at (fst a)) (skey tab_at (fst b))) (cdata_t (snd a) (snd b)).

Lemma TPO_attr_t : TPO attr_t.
Proof.
  unfold attr_t.
  apply (TPO_then (fun a b => lex_cmp (skey tab_at (fst a)) (skey tab_at (fst b)))
                  (fun a b => cdata_t (snd a) (snd b))).
  - apply (TPO_map (fun a : N * cdata => skey tab_at (fst a))), TPO_lex.
  - apply (TPO_map (fun a : N * cdata => snd a)), TPO_cdata_t.
Qed.

Lemma attr_cmp_t a b c : attr_cmp tab_at tab_en policy_cur a b = Val c -> c = attr_t a b.
Proof.
  unfold attr_cmp, attr_t, skey.
  destruct (to_str tab_at (fst a)); cbn; try discriminate.
  destruct (to_str tab_at (fst b)); cbn; try discriminate.
  destruct (cdata_cmp tab_en policy_cur (snd a) (snd b)) eqn:E; cbn; try discriminate.
  apply cdata_cmp_t in E. subst. intros [= <-]. reflexivity.
Qed.

Definition item_t (ce : id -> id -> comparison) (i j : citem) : comparison :=
  match i, j with
  | CElem a, CElem b => ce a b
  | CElem _, CData _ => Lt
  | CData _, CElem _ => Gt
  | CData d, CData e => cdata_t d e
  end.

Lemma TPO_item_t ce : TPO ce -> TPO (item_t ce).
Proof.
  intros H. pose proof TPO_cdata_t as D. split.
  - intros [a | d]; cbn; [apply (o_refl _ H) | apply (o_refl _ D)].
  - intros [a | d] [b | e]; cbn; auto; [apply (o_swap _ H) | apply (o_swap _ D)].
  - intros [a | d] [b | e] [c | g]; cbn; try congruence; [apply (o_trans _ H) | apply (o_trans _ D)].
Qed.

(* slice_cmp agrees with slice_t when the element comparison does *)
Lemma slice_cmp_t {A} (ec : A -> A -> res comparison) (et : A -> A -> comparison) x :
  forall y c, (forall i j c', In i x -> In j y -> ec i j = Val c' -> c' = et i j) ->
    slice_cmp ec x y = Val c -> c = slice_t et x y.
Proof.
  induction x as [| i x IH]; intros [| j y] c A0; cbn; try (intros [= <-]; reflexivity).
  destruct (ec i j) eqn:E; cbn; try discriminate.
  rewrite <- (A0 i j a (or_introl eq_refl) (or_introl eq_refl) E).
  destruct a; cbn; try (intros [= <-]; reflexivity).
  apply IH. intros. eapply A0; eauto; right; auto.
Qed.

(* ------------------------------------------------------------------ Element::cmp, total *)
Section World.
Variable w : world.

Definition dnode : node := mkNode PNone 0 (0, 0) [] [] [] None.
Definition dkeys : nkeys := mkKeys [] None None None None.
Definition nd_t (i : id) : node := match w_nodes w i with Some n => n | None => dnode end.
Definition keys_t (n : node) : nkeys :=
  match node_keys T tab_el tab_en name_index name_definition_ref w n with Val k => k | _ => dkeys end.

Fixpoint cmp_t (f : nat) (a b : id) : comparison :=
  match f with
  | O => Eq
  | S f' =>
    let na := nd_t a in let nb := nd_t b in
    cthen (hcmp (keys_t na) (keys_t nb))
      (cthen (slice_t (item_t (cmp_t f')) (n_content na) (n_content nb))
             (slice_t attr_t (n_attrs na) (n_attrs nb)))
  end.

Lemma TPO_cmp_t f : TPO (cmp_t f).
Proof.
  induction f as [| f IH].
  - split; cbn; intros; congruence.
  - cbn [cmp_t].
    apply (TPO_then (fun a b => hcmp (keys_t (nd_t a)) (keys_t (nd_t b)))
                    (fun a b => cthen (slice_t (item_t (cmp_t f)) (n_content (nd_t a)) (n_content (nd_t b)))
                                      (slice_t attr_t (n_attrs (nd_t a)) (n_attrs (nd_t b))))).
    + apply (TPO_map (fun a => keys_t (nd_t a))), TPO_hcmp.
    + apply (TPO_then (fun a b => slice_t (item_t (cmp_t f)) (n_content (nd_t a)) (n_content (nd_t b)))
                      (fun a b => slice_t attr_t (n_attrs (nd_t a)) (n_attrs (nd_t b)))).
      * apply (TPO_map (fun a => n_content (nd_t a))), TPO_slice, TPO_item_t, IH.
      * apply (TPO_map (fun a => n_attrs (nd_t a))), TPO_slice, TPO_attr_t.
Qed.

Notation cmp_f' := (cmp_f T tab_el tab_at tab_en name_index name_definition_ref policy_cur w).

Lemma item_cmp_t ce et i j c :
  (forall a b c', ce a b = Val c' -> c' = et a b) ->
  item_cmp tab_en policy_cur ce i j = Val c -> c = item_t et i j.
Proof.
  intros A0. destruct i, j; cbn; try (intros [= <-]; reflexivity).
  - apply A0.
  - apply cdata_cmp_t.
Qed.

Lemma cmp_f_t f : forall a b c, cmp_f' f a b = Val c -> c = cmp_t f a b.
Proof.
  induction f as [| f IH]; intros a b c; cbn [cmp_f cmp_t]; [discriminate |].
  unfold nd, nd_t, keys_t.
  destruct (w_nodes w a) as [na |]; cbn; try discriminate.
  destruct (w_nodes w b) as [nb |]; cbn; try discriminate.
  destruct (node_keys T tab_el tab_en name_index name_definition_ref w na) as [ka | |]; cbn; try discriminate.
  destruct (node_keys T tab_el tab_en name_index name_definition_ref w nb) as [kb | |]; cbn; try discriminate.
  rewrite head_stages_cur.
  destruct (hcmp ka kb) eqn:E; cbn; try (intros [= <-]; reflexivity).
  destruct (slice_cmp (item_cmp tab_en policy_cur (cmp_f' f)) (n_content na) (n_content nb)) as [cc | |] eqn:E1; cbn; try discriminate.
  destruct (slice_cmp (attr_cmp tab_at tab_en policy_cur) (n_attrs na) (n_attrs nb)) as [ac | |] eqn:E2; cbn; try discriminate.
  intros [= <-].
  apply slice_cmp_t with (et := item_t (cmp_t f)) in E1.
  - apply slice_cmp_t with (et := attr_t) in E2.
    + subst. reflexivity.
    + intros. eapply attr_cmp_t; eauto.
  - intros i j c' _ _ h. eapply item_cmp_t; [| exact h]. apply IH.
Qed.

Notation cmp_tot := (cmp_total T tab_el tab_at tab_en name_index name_definition_ref w).
Notation cmp_p' := (cmp_p T tab_el tab_at tab_en name_index name_definition_ref policy_cur w).

Lemma cmp_total_t a b : (exists c, cmp_p' a b = Val c) -> cmp_tot a b = cmp_t (S (N.to_nat (w_next w))) a b.
Proof.
  intros [c e]. unfold cmp_total. rewrite e. apply cmp_f_t. exact e.
Qed.

(* Element::cmp is a total preorder on every set of elements on which it returns (no dangling id, no cycle) *)
Theorem cmp_total_preorder (S : id -> Prop) :
  (forall a b, S a -> S b -> exists c, cmp_p' a b = Val c) ->
  TotalPreorderOn cmp_tot S.
Proof.
  intros V. pose proof (TPO_cmp_t (Datatypes.S (N.to_nat (w_next w)))) as [r s t].
  split.
  - intros x sx. rewrite cmp_total_t; auto.
  - intros x y sx sy. rewrite !cmp_total_t; auto.
  - intros x y z sx sy sz. rewrite !cmp_total_t; auto. apply t.
Qed.

(* ------------------------------------------------------------------ Equal means identical except comments *)
Hypothesis inj_el : forall x y s, to_str tab_el x = Some s -> to_str tab_el y = Some s -> x = y.
Hypothesis inj_at : forall x y s, to_str tab_at x = Some s -> to_str tab_at y = Some s -> x = y.
Hypothesis inj_en : forall x y s, to_str tab_en x = Some s -> to_str tab_en y = Some s -> x = y.

Definition cdata_u64 (d : cdata) : Prop := match d with DFloat b => b < 2 * P63 | _ => True end.
Definition node_u64 (n : node) : Prop :=
  (forall d, In (CData d) (n_content n) -> cdata_u64 d) /\ (forall a, In a (n_attrs n) -> cdata_u64 (snd a)).
Hypothesis floats_u64 : forall i n, w_nodes w i = Some n -> node_u64 n.

Lemma cdata_cmp_eq a b : cdata_u64 a -> cdata_u64 b -> cdata_cmp tab_en policy_cur a b = Val Eq -> a = b.
Proof.
  destruct a, b; cbn; try discriminate; intros ha hb.
  - destruct (to_str tab_en item) eqn:E1; cbn; try discriminate.
    destruct (to_str tab_en item0) eqn:E2; cbn; try discriminate.
    intros [= e]. apply lex_cmp_eq in e. subst. f_equal. eapply inj_en; eauto.
  - intros [= e]. apply lex_cmp_eq in e. congruence.
  - intros [= e]. apply N.compare_eq in e. congruence.
  - intros [= e]. apply f64_total_cmp_eq in e; auto. congruence.
Qed.

Lemma attr_cmp_eq a b : cdata_u64 (snd a) -> cdata_u64 (snd b) -> attr_cmp tab_at tab_en policy_cur a b = Val Eq -> a = b.
Proof.
  unfold attr_cmp. intros ha hb.
  destruct (to_str tab_at (fst a)) eqn:E1; cbn; try discriminate.
  destruct (to_str tab_at (fst b)) eqn:E2; cbn; try discriminate.
  destruct (cdata_cmp tab_en policy_cur (snd a) (snd b)) as [c | |] eqn:E; cbn; try discriminate.
  intros [= e]. apply cthen_eq in e as [e1 e2]. subst c.
  apply lex_cmp_eq in e1. subst. apply cdata_cmp_eq in E; auto.
  destruct a, b; cbn in *. f_equal; auto. eapply inj_at; eauto.
Qed.

Lemma slice_cmp_eq {A} (ec : A -> A -> res comparison) (R : A -> A -> Prop) x :
  forall y, (forall i j, In i x -> In j y -> ec i j = Val Eq -> R i j) ->
    slice_cmp ec x y = Val Eq -> Forall2 R x y.
Proof.
  induction x as [| i x IH]; intros [| j y] A0; cbn; try discriminate; [constructor |].
  destruct (ec i j) as [c | |] eqn:E; cbn; try discriminate.
  destruct c; try discriminate. intros h. constructor.
  - apply A0; auto; left; auto.
  - apply IH; auto. intros. apply A0; auto; right; auto.
Qed.

(* a and b are the same tree: same element name, same attributes (names, values, order), same content - values equal,
   sub-elements related in turn.  Nothing is said about n_comment, n_type, n_files, n_parent: cmp never reads them. *)
Fixpoint same_f (f : nat) (a b : id) : Prop :=
  match f with
  | O => False
  | S f' =>
    exists na nb, w_nodes w a = Some na /\ w_nodes w b = Some nb /\
      n_name na = n_name nb /\ n_attrs na = n_attrs nb /\
      Forall2 (fun i j => match i, j with
                          | CElem x, CElem y => same_f f' x y
                          | CData d, CData e => d = e
                          | _, _ => False
                          end) (n_content na) (n_content nb)
  end.

Lemma forall2_eq {A} (l l' : list A) : Forall2 eq l l' -> l = l'.
Proof. induction 1; congruence. Qed.

Lemma node_keys_name n k :
  node_keys T tab_el tab_en name_index name_definition_ref w n = Val k -> to_str tab_el (n_name n) = Some (k_name k).
Proof.
  unfold node_keys. destruct (to_str tab_el (n_name n)); cbn; [| discriminate].
  destruct (index_key T name_index w n); cbn; try discriminate.
  destruct (item_name_p T w n); cbn; try discriminate.
  destruct (defref_key T name_definition_ref w n); cbn; try discriminate.
  destruct (dest_key T tab_en n); cbn; try discriminate.
  intros [= <-]. reflexivity.
Qed.

Theorem cmp_eq_same f : forall a b, cmp_f' f a b = Val Eq -> same_f f a b.
Proof.
  induction f as [| f IH]; intros a b; cbn [cmp_f same_f]; [discriminate |].
  unfold nd.
  destruct (w_nodes w a) as [na |] eqn:Wa; cbn; try discriminate.
  destruct (w_nodes w b) as [nb |] eqn:Wb; cbn; try discriminate.
  destruct (node_keys T tab_el tab_en name_index name_definition_ref w na) as [ka | |] eqn:Ka; cbn; try discriminate.
  destruct (node_keys T tab_el tab_en name_index name_definition_ref w nb) as [kb | |] eqn:Kb; cbn; try discriminate.
  rewrite head_stages_cur.
  destruct (hcmp ka kb) eqn:E; cbn; try discriminate.
  destruct (slice_cmp (item_cmp tab_en policy_cur (cmp_f' f)) (n_content na) (n_content nb)) as [cc | |] eqn:E1; cbn; try discriminate.
  destruct (slice_cmp (attr_cmp tab_at tab_en policy_cur) (n_attrs na) (n_attrs nb)) as [ac | |] eqn:E2; cbn; try discriminate.
  intros [= e]. apply cthen_eq in e as [-> ->].
  exists na, nb. repeat split; auto.
  - (* the element name strings are equal *)
    unfold hcmp in E. apply cthen_eq in E as [e _]. apply lex_cmp_eq in e.
    apply node_keys_name in Ka, Kb. rewrite e in Ka. eapply inj_el; eauto.
  - apply forall2_eq. eapply slice_cmp_eq; [| exact E2].
    intros i j ii ij h. apply attr_cmp_eq; auto;
      [apply (proj2 (floats_u64 a na Wa)) | apply (proj2 (floats_u64 b nb Wb))]; auto.
  - eapply slice_cmp_eq; [| exact E1].
    intros i j ii ij h. destruct i, j; cbn in h; try discriminate.
    + apply IH. exact h.
    + apply cdata_cmp_eq in h; auto;
        [apply (proj1 (floats_u64 a na Wa)) | apply (proj1 (floats_u64 b nb Wb))]; auto.
Qed.

End World.
End Cmp.
