(* Tree/RefsProofsReport.v — C05: the invalid-reference report and reference resolution, under IndexExact (C04) and
   RefsExact (C05):
     C05_report    check_references returns, each once, exactly the references with string text that are Broken
                   (text does not resolve in the path index, or DEST missing / not an enum / not accepted by the
                   target's type)
     C05_resolve   for a reference with string text: get_reference_target returns OK target iff it is not Broken
                   (iff it is absent from the report), and then target is the element registered under its text
     C05_textless  a reference element WITHOUT string text is in neither map: it is never reported, and resolving it
                   returns Err(InvalidReference) *)
From Coq Require Import Permutation.
From AV Require Import Base.Bytes Base.Outcome Hash.HashModel Tree.Heap Tree.Ops Tree.Script Tree.IndexProofsW
  Tree.Index Tree.IndexProofsBase Tree.IndexProofsAssoc Tree.IndexProofsFrame Tree.Refs Tree.RefsProofsBase.
Open Scope string_scope.
Open Scope list_scope.
Open Scope N_scope.

Section Report.
Variable T : tables.
Variable check_fn : N -> list N -> res bool.

(* DEST of reference element re fits the type of the target node tn *)
Definition fitsb (w : world) (tn : node) (re : id) : bool :=
  match w_nodes w re with
  | Some rn => match attr_value rn (attr_dest T) with
               | Some (DEnum d) => match verify_reference_dest T (n_type tn) d with Val true => true | _ => false end
               | _ => false
               end
  | None => false
  end.

Definition badlist (w : world) (x : model) (e : list N * list id) : list id :=
  match assoc_get (fst e) (m_idents x) with
  | None => snd e
  | Some t => match w_nodes w t with
              | Some tn => filter (fun re => negb (fitsb w tn re)) (snd e)
              | None => []
              end
  end.

Definition chk (tn : node) :=
  fix chk (rl : list id) : W (list id) :=
    match rl with
    | [] => wret []
    | re :: rr =>
      (do rn <- get_node re;
       do b <- chk rr;
       match attr_value rn (attr_dest T) with
       | Some (DEnum d) =>
         do ok <- wlift (verify_reference_dest T (n_type tn) d);
         wret (if ok then b else re :: b)
       | _ => wret (re :: b)
       end)%W
    end.

Lemma chk_val tn refs w r w' :
  chk tn refs w = Val (r, w') -> w' = w /\ r = OK (filter (fun re => negb (fitsb w tn re)) refs).
Proof.
  revert r w'. induction refs as [|re rr IH]; intros r w' H; cbn [chk] in H.
  - winv H. auto.
  - wnode H rn Hrn. wbind_w H b w1 Eb.
    2:{ apply IH in Eb as (_ & [=]). }
    apply IH in Eb as (-> & [= ->]). cbn [filter]. unfold fitsb at 1. rewrite Hrn.
    destruct (attr_value rn (attr_dest T)) as [[d| | |]|]; try (winv H; auto).
    wval H ok Hok. winv H. rewrite Hok. destruct ok; auto.
Qed.

Definition each (x : model) :=
  fix each (l : list (list N * list id)) : W (list id) :=
    match l with
    | [] => wret []
    | (path, refs) :: rest =>
      (do r <- each rest;
       match assoc_get path (m_idents x) with
       | None => wret (refs ++ r)
       | Some target =>
         do tn <- get_node target;
         do bad <- chk tn refs;
         wret (bad ++ r)
       end)%W
    end.

Lemma each_val x l w r w' :
  each x l w = Val (r, w') -> w' = w /\ r = OK (flat_map (badlist w x) l).
Proof.
  revert r w'. induction l as [|[path refs] rest IH]; intros r w' H; cbn [each] in H.
  - winv H. auto.
  - wbind_w H r0 w1 Er. 2:{ apply IH in Er as (_ & [=]). }
    apply IH in Er as (-> & [= ->]). cbn [flat_map]. unfold badlist at 1. cbn [fst snd].
    destruct (assoc_get path (m_idents x)) as [t|]; [|winv H; auto].
    wnode H tn Htn. rewrite Htn. wbind_w H bad w2 Eb. 2:{ apply chk_val in Eb as (_ & [=]). }
    apply chk_val in Eb as (-> & [= ->]). winv H. auto.
Qed.

Lemma q_check_references_val m w r w' :
  q_check_references T m w = Val (r, w') ->
  w' = w /\ exists x, model_at w m = Some x /\ r = OK (flat_map (badlist w x) (m_origins x)).
Proof.
  unfold q_check_references. intros H. wmodel H x Hx.
  change (each x (m_origins x) w = Val (r, w')) in H. apply each_val in H as (-> & ->). eauto.
Qed.

(* ---------- the meaning of the result *)
Lemma fitsb_dest_fits w t tn re : w_nodes w t = Some tn -> (fitsb w tn re = true <-> dest_fits T w re t).
Proof.
  intros Ht. unfold fitsb, dest_fits. split.
  - destruct (w_nodes w re) as [rn|] eqn:Er; [|discriminate].
    destruct (attr_value rn (attr_dest T)) as [[d| | |]|] eqn:Ea; try discriminate.
    destruct (verify_reference_dest T (n_type tn) d) as [[|]| |] eqn:Ev; try discriminate.
    intros _. exists rn, tn, d. auto.
  - intros (rn & tn2 & d & Hr & Ht2 & Ha & Hv). rewrite Ht in Ht2. injection Ht2 as <-. rewrite Hr, Ha, Hv. reflexivity.
Qed.

Lemma nodup_app {A} (a b : list A) : NoDup a -> NoDup b -> (forall x, In x a -> ~ In x b) -> NoDup (a ++ b).
Proof.
  induction a as [|y a IH]; intros Ha Hb Hd; cbn; [exact Hb|]. inversion Ha; subst. constructor.
  - rewrite in_app_iff. intros [H|H]; [contradiction|]. eapply Hd; [left; reflexivity|exact H].
  - apply IH; [assumption|assumption|]. intros x Hx. apply Hd. right. exact Hx.
Qed.

Lemma nodup_flat_map {A} (f : list N * A -> list id) (l : list (list N * A)) :
  NoDupKeys l -> (forall e, In e l -> NoDup (f e)) ->
  (forall e1 e2 i, In e1 l -> In e2 l -> In i (f e1) -> In i (f e2) -> fst e1 = fst e2) ->
  NoDup (flat_map f l).
Proof.
  unfold NoDupKeys. induction l as [|e l IH]; intros Hk Hn Hd; cbn; [constructor|].
  inversion Hk; subst. apply nodup_app.
  - apply Hn. left. reflexivity.
  - apply IH; [assumption|intros; apply Hn; right; assumption|]. intros e1 e2 i H3 H4. apply Hd; right; assumption.
  - intros i Hi Hi2. apply in_flat_map in Hi2 as (e2 & He2 & Hi2).
    assert (fst e = fst e2) by (eapply Hd; eauto; [left; reflexivity|right; exact He2]).
    apply H1. rewrite H. apply in_map. exact He2.
Qed.

Notation Inv04 := (Inv04 T check_fn).

Lemma isref_true ty : isref T ty = true -> is_ref T ty = Val true.
Proof. unfold isref. destruct (is_ref T ty) as [[|]| |]; congruence. Qed.
Lemma cdata_of_some n d : cdata_of T n = Some d -> character_data T n = Val (Some d).
Proof. unfold cdata_of. destruct (character_data T n) as [[x|]| |]; congruence. Qed.

Lemma ref_text_inv w i p : ref_text T w i = Some p ->
  exists n, w_nodes w i = Some n /\ is_ref T (n_type n) = Val true /\ character_data T n = Val (Some (DString p)).
Proof.
  unfold ref_text. destruct (w_nodes w i) as [n|]; [|discriminate]. destruct (isref T (n_type n)) eqn:Er; [|discriminate].
  destruct (cdata_of T n) as [[| s | |]|] eqn:Ec; try discriminate. intros [= <-].
  exists n. split; [reflexivity|]. split; [apply isref_true; exact Er|apply cdata_of_some; exact Ec].
Qed.

(* members of the origins lists *)
Lemma in_origins_refset w m x p refs i :
  Inv05 T w -> model_at w m = Some x -> In (p, refs) (m_origins x) -> In i refs -> RefSet T w m p i.
Proof.
  intros [IE IT] Hx Hin Hi. destruct (IT m x Hx) as (Hnd & _). apply (in_assoc_get _ _ _ Hnd) in Hin.
  destruct (IE m x Hx p) as (_ & Hiff). apply Hiff. unfold origins_of. rewrite Hin. exact Hi.
Qed.
Lemma refset_in_origins w m x p i :
  Inv05 T w -> model_at w m = Some x -> RefSet T w m p i -> exists refs, In (p, refs) (m_origins x) /\ In i refs.
Proof.
  intros [IE IT] Hx Hr. destruct (IE m x Hx p) as (_ & Hiff). apply Hiff in Hr. unfold origins_of in Hr.
  destruct (assoc_get p (m_origins x)) as [refs|] eqn:E; [|destruct Hr]. exists refs. split; [apply assoc_get_in; exact E|exact Hr].
Qed.

Theorem C05_report w m r w' :
  TreeFacts w -> Inv04 w -> Inv05 T w ->
  q_check_references T m w = Val (r, w') ->
  w' = w /\ exists l, r = OK l /\ NoDup l /\ forall i, In i l <-> Broken T w m i.
Proof.
  intros HF HI4 HI5 H. apply q_check_references_val in H as (-> & x & Hx & ->). split; [reflexivity|].
  eexists. split; [reflexivity|].
  assert (Htarget : forall p t, assoc_get p (m_idents x) = Some t -> exists tn, w_nodes w t = Some tn).
  { intros p t Ht. apply (i4_exact _ _ _ HI4 m x Hx) in Ht as (Hr & _). eapply mreach_alloc; eauto. }
  destruct (i5_tidy _ _ HI5 m x Hx) as (Hnd & Hne).
  split.
  - apply nodup_flat_map; [exact Hnd| |].
    + intros [p refs] Hin. unfold badlist. cbn [fst snd].
      assert (Hn : NoDup refs).
      { destruct (i5_exact _ _ HI5 m x Hx p) as (Hn & _). unfold origins_of in Hn. rewrite (in_assoc_get _ _ _ Hnd Hin) in Hn. exact Hn. }
      destruct (assoc_get p (m_idents x)) as [t|]; [|exact Hn]. destruct (w_nodes w t); [|constructor].
      apply NoDup_filter. exact Hn.
    + intros [p1 refs1] [p2 refs2] i H1 H2 Hi1 Hi2. cbn [fst].
      assert (Hsub : forall e, In i (badlist w x e) -> In i (snd e)).
      { intros e. unfold badlist. destruct (assoc_get (fst e) (m_idents x)); [|auto]. destruct (w_nodes w i0); [|intros []].
        intros Hf. apply filter_In in Hf. tauto. }
      apply Hsub in Hi1, Hi2. cbn [snd] in Hi1, Hi2.
      pose proof (in_origins_refset _ _ _ _ _ _ HI5 Hx H1 Hi1) as (_ & T1).
      pose proof (in_origins_refset _ _ _ _ _ _ HI5 Hx H2 Hi2) as (_ & T2). congruence.
  - intros i. rewrite in_flat_map. split.
    + intros ([p refs] & Hin & Hb). unfold badlist in Hb. cbn [fst snd] in Hb.
      exists p, x. split; [exact Hx|].
      destruct (assoc_get p (m_idents x)) as [t|] eqn:Et.
      * destruct (Htarget _ _ Et) as (tn & Htn). rewrite Htn in Hb. apply filter_In in Hb as (Hi & Hf).
        split; [eapply in_origins_refset; eauto|]. intros (t2 & Ht2 & Hfit). injection Ht2 as <-.
        apply (fitsb_dest_fits _ _ _ _ Htn) in Hfit. rewrite Hfit in Hf. discriminate.
      * split; [eapply in_origins_refset; eauto|]. intros (t2 & Ht2 & _). discriminate.
    + intros (p & x2 & Hx2 & Hr & Hno). rewrite Hx in Hx2. injection Hx2 as <-.
      destruct (refset_in_origins _ _ _ _ _ HI5 Hx Hr) as (refs & Hin & Hi). exists (p, refs). split; [exact Hin|].
      unfold badlist. cbn [fst snd]. destruct (assoc_get p (m_idents x)) as [t|] eqn:Et; [|exact Hi].
      destruct (Htarget _ _ Et) as (tn & Htn). rewrite Htn. apply filter_In. split; [exact Hi|].
      destruct (fitsb w tn i) eqn:Ef; [|reflexivity]. exfalso. apply Hno. exists t. split; [reflexivity|].
      apply (fitsb_dest_fits _ _ _ _ Htn). exact Ef.
Qed.

(* ---------- resolution *)
Lemma model_of_reach w m i r w' :
  TreeFacts w -> MReach T w m i -> model_of i w = Val (r, w') -> w' = w /\ r = OK m.
Proof.
  intros HF Hr H. apply (model_of_val T) in H as (-> & H). split; [reflexivity|].
  destruct (mreach_specpath T _ _ _ Hr) as (p & Sp). pose proof (specpath_upath T _ _ _ _ HF Sp) as Hu.
  destruct H as [(m2 & s & -> & Hu2)|(-> & Hd)].
  - destruct (upath_fun T _ _ _ _ Hu _ _ Hu2) as (-> & _). reflexivity.
  - exfalso. eapply upath_not_dead; eauto.
Qed.

Theorem C05_resolve w m p i rr w' :
  TreeFacts w -> Inv04 w -> Inv05 T w -> RefSet T w m p i ->
  e_get_reference_target T i w = Val (rr, w') ->
  w' = w /\
  ( (exists x t, model_at w m = Some x /\ rr = OK t /\ assoc_get p (m_idents x) = Some t /\ dest_fits T w i t /\ ~ Broken T w m i)
    \/ (rr = ER InvalidReference /\ Broken T w m i) ).
Proof.
  intros HF HI4 HI5 Hrs H. pose proof Hrs as (Hreach & Htext).
  assert (Hw : w' = w) by (eapply ro_get_reference_target; eauto). subst w'.
  destruct (ref_text_inv _ _ _ Htext) as (n & Hn & Hisr & Hcd).
  unfold e_get_reference_target in H.
  wnode H n0 Hn0. rewrite Hn in Hn0. injection Hn0 as <-.
  wval H isr Hi. rewrite Hisr in Hi. injection Hi as <-. cbn [negb] in H.
  wval H cd Hc. rewrite Hcd in Hc. injection Hc as <-.
  wbind_w H m0 w1 Em. 2:{ apply (model_of_reach _ _ _ _ _ HF Hreach) in Em as (_ & [=]). }
  apply (model_of_reach _ _ _ _ _ HF Hreach) in Em as (-> & [= ->]).
  unfold get_element_by_path in H. wbind_w H t w1 Et. 2:{ wmodel Et x Hx. winv Et. }
  wmodel Et x Hx. winv Et. split; [reflexivity|].
  assert (Hbroken_iff : forall t, assoc_get p (m_idents x) = Some t -> (Broken T w m i <-> ~ dest_fits T w i t)).
  { intros t Ht. split.
    - intros (p2 & x2 & Hx2 & (_ & Ht2) & Hno) Hfit. rewrite Htext in Ht2. injection Ht2 as <-.
      unfold model_at in Hx2. rewrite Hx in Hx2. injection Hx2 as <-. apply Hno. eauto.
    - intros Hno. exists p, x. split; [exact Hx|]. split; [exact Hrs|]. intros (t2 & Ht2 & Hfit). congruence. }
  destruct (assoc_get p (m_idents x)) as [t|] eqn:Eg.
  2:{ winv H. right. split; [reflexivity|]. exists p, x. split; [exact Hx|]. split; [exact Hrs|].
      intros (t2 & Ht2 & _). congruence. }
  assert (Htn : exists tn, w_nodes w t = Some tn).
  { apply (i4_exact _ _ _ HI4 m x Hx) in Eg as (Hr & _). eapply mreach_alloc; eauto. }
  destruct Htn as (tn & Htn).
  destruct (attr_value n (attr_dest T)) as [[d| | |]|] eqn:Ea;
    try (winv H; right; split; [reflexivity|]; apply (Hbroken_iff t eq_refl);
         intros (rn & tn2 & d2 & Hrn & _ & Ha & _); rewrite Hn in Hrn; injection Hrn as <-; congruence).
  wnode H tn0 Htn0. rewrite Htn in Htn0. injection Htn0 as <-. wval H ok Hok. destruct ok; winv H.
  - left. exists x, t. split; [exact Hx|]. split; [reflexivity|]. split; [exact Eg|].
    assert (Hfit : dest_fits T w i t) by (exists n, tn, d; auto). split; [exact Hfit|].
    intros Hb. apply (Hbroken_iff t eq_refl) in Hb. contradiction.
  - right. split; [reflexivity|]. apply (Hbroken_iff t eq_refl).
    intros (rn & tn2 & d2 & Hrn & Htn2 & Ha & Hv). rewrite Hn in Hrn. injection Hrn as <-. rewrite Htn in Htn2. injection Htn2 as <-.
    rewrite Ea in Ha. injection Ha as <-. congruence.
Qed.

(* a reference element without string text *)
Theorem C05_textless w m i n :
  Inv05 T w -> w_nodes w i = Some n -> ref_text T w i = None ->
  (forall x p, model_at w m = Some x -> ~ In i (origins_of x p)) /\
  ~ Broken T w m i /\
  forall rr w', e_get_reference_target T i w = Val (rr, w') ->
    w' = w /\ (rr = ER InvalidReference \/ rr = ER NotReferenceElement).
Proof.
  intros HI5 Hn Ht. split; [|split].
  - intros x p Hx Hin. destruct (i5_exact _ _ HI5 m x Hx p) as (_ & Hiff). apply Hiff in Hin as (_ & Hp). congruence.
  - intros (p & x & _ & (_ & Hp) & _). congruence.
  - intros rr w' H. assert (Hw : w' = w) by (eapply ro_get_reference_target; eauto). subst w'. split; [reflexivity|].
    unfold e_get_reference_target in H. wnode H n0 Hn0. rewrite Hn in Hn0. injection Hn0 as <-.
    wval H isr Hi. destruct isr; cbn [negb] in H; [|winv H; auto].
    wval H cd Hc. unfold ref_text in Ht. rewrite Hn in Ht. rewrite (isref_val _ _ _ Hi) in Ht. rewrite (cdata_of_val _ _ _ Hc) in Ht.
    destruct cd as [[| s | |]|]; try (winv H; auto). discriminate.
Qed.

End Report.
