(* Tree/InvExamples.v — C03: a tiny hand-made table set on which the model is executed (vm_compute) to
   (1) show that the hypotheses of the theorems are satisfiable (a 3-level tree with a detached handle),
   (2) exhibit the remaining finding: a move that fails AFTER the point of no return leaves an orphan
       (class Known_failed_reparent): the element keeps a parent link to an element that does not list it. *)
From Coq Require Import PeanoNat Arith.
From AV Require Import Base.Bytes Base.Outcome Hash.HashModel Tree.Heap Tree.Ops Tree.Script Tree.Inv
  Tree.InvProofsBase Tree.InvProofsCore Tree.InvProofsTree Tree.InvProofsPrim Tree.InvProofs Tree.StaleProofs
  Tree.Iter.
Open Scope string_scope.
Open Scope list_scope.
Open Scope N_scope.

Module Tiny.
(* element names: 0 ROOT, 1 PKG, 2 SHORT-NAME, 3 REF.  ROOT = bag of PKG; PKG = bag of SHORT-NAME (first => named),
   PKG, REF; SHORT-NAME = text; REF = reference text of at most 4 bytes (so that a longer path is rejected). *)
Definition el (name ty : N) : elemdef := Build_elemdef name ty 2 0 0 0.
Definition dtp (ss se sv cd mode : N) : dtype := Build_dtype ss se sv 0 0 0 cd mode 0 0.
Definition T0 : tables :=
  Build_tables
    (fun i => match i with 0 => Some (el 0 0) | 1 => Some (el 1 1) | 2 => Some (el 2 2) | 3 => Some (el 3 3) | _ => None end) 4
    (fun i => match i with 0 => Some (0, 1) | 1 => Some (0, 2) | 2 => Some (0, 1) | 3 => Some (0, 3) | _ => None end) 4
    (fun _ => None) 0
    (fun _ => Some 1) 8
    (fun i => match i with
              | 0 => Some (dtp 0 1 0 0 MBag)
              | 1 => Some (dtp 1 4 1 0 MBag)
              | 2 => Some (dtp 4 4 4 1 MCharacters)
              | 3 => Some (dtp 4 4 4 2 MCharacters)
              | _ => None end) 4
    (fun _ => None) 0
    (fun i => match i with 0 => Some (CString false None) | 1 => Some (CString false (Some 4)) | _ => None end) 2
    1 0 2 99.
Definition nt0 : nametab := Build_nametab [] [] 0 0.
Definition chk0 : N -> list N -> res bool := fun _ _ => Val true.

Notation run0 := (Inv.run T0 nt0 nt0 chk0 1 []).
Notation run_ops0 := (Inv.run_ops T0 nt0 nt0 chk0 1 []).
Notation clean_ops0 := (Inv.clean_ops T0 nt0 nt0 chk0 1 []).
Definition world_of (r : res world) : world := match r with Val w => w | _ => empty_world end.
Definition after (o : op) (w : world) : world := match run0 o w with Val (_, w') => w' | _ => empty_world end.

Definition PKG := 1. Definition REF := 3.
Definition na := [97]. Definition nb := [98]. Definition nc := [99]. Definition ncc := [99; 99].

(* ids: 0 root; 1 /a (2 its SHORT-NAME); 3 /a/b (4); 5 /a/b/c (6) *)
Definition ops3 : list op :=
  [OpNewModel; OpCreateFile 0 [102] 1;
   OpCreateNamed 0 PKG na; OpCreateNamed 1 PKG nb; OpCreateNamed 3 PKG nc].
Definition w3 : world := world_of (run_ops0 ops3 empty_world).

Lemma w3_runs : run_ops0 ops3 empty_world = Val w3.
Proof. unfold w3. destruct (run_ops0 ops3 empty_world) eqn:E; try reflexivity; vm_compute in E; discriminate. Qed.
Lemma w3_clean : clean_ops0 ops3 empty_world = true.
Proof. vm_compute. reflexivity. Qed.

Theorem w3_treeinv : TreeInv w3.
Proof. exact (TreeInv_histories T0 nt0 nt0 chk0 1 [] ops3 empty_world w3 empty_treeinv w3_clean w3_runs). Qed.

Example w3_three_levels :
  skel w3 0 = Some (PModel 0, [1]) /\ skel w3 1 = Some (PElem 0, [2; 3]) /\
  skel w3 3 = Some (PElem 1, [4; 5]) /\ skel w3 5 = Some (PElem 3, [6]).
Proof. vm_compute. auto. Qed.

(* remove /a/b: elements 3 .. 6 are detached, handle 5 (the former /a/b/c) is stale *)
Definition w3r : world := after (OpRemove 1 3) w3.
Lemma w3r_runs : exists r, run0 (OpRemove 1 3) w3 = Val (r, w3r).
Proof.
  unfold w3r, after. destruct (run0 (OpRemove 1 3) w3) as [[r w']|s|] eqn:E; eauto; vm_compute in E; discriminate.
Qed.
Theorem w3r_treeinv : TreeInv w3r.
Proof.
  destruct w3r_runs as (r & H). eapply (TreeInv_step T0 nt0 nt0 chk0 1 []); [apply w3_treeinv | | exact H].
  vm_compute. reflexivity.
Qed.
Example w3r_detached : Detached w3r 5.
Proof.
  unfold Detached.
  assert (H : exists n, w_nodes w3r 5 = Some n /\ n_parent n = PNone).
  { vm_compute. eexists. split; reflexivity. }
  destruct H as (n & Hn & Hp). rewrite <- Hp. eapply T_here; eauto. rewrite Hp. congruence.
Qed.
(* creating below the stale handle fails and changes nothing *)
Example w3r_stale_create : exists e, fst (match run0 (OpCreateNamed 5 PKG na) w3r with Val x => x | _ => (OK VUnit, w3r) end) = ER e.
Proof. vm_compute. eexists. reflexivity. Qed.

(* ---------- finding: a move that fails after re-parenting ---------- *)
(* ids: 1 /a (2); 3 /a/b (4); 5 /cc (6); 7 = REF below /a with text "/a/b" *)
Definition opsM : list op :=
  [OpNewModel; OpCreateFile 0 [102] 1;
   OpCreateNamed 0 PKG na; OpCreateNamed 1 PKG nb; OpCreateNamed 0 PKG ncc;
   OpCreateSub 1 REF; OpSetCData 7 (DString [47; 97; 47; 98])].
Definition wM : world := world_of (run_ops0 opsM empty_world).
Lemma wM_runs : run_ops0 opsM empty_world = Val wM.
Proof. unfold wM. destruct (run_ops0 opsM empty_world) eqn:E; try reflexivity; vm_compute in E; discriminate. Qed.
Lemma wM_clean : clean_ops0 opsM empty_world = true.
Proof. vm_compute. reflexivity. Qed.
Theorem wM_treeinv : TreeInv wM.
Proof. exact (TreeInv_histories T0 nt0 nt0 chk0 1 [] opsM empty_world wM empty_treeinv wM_clean wM_runs). Qed.

Definition wM' : world := after (OpMove 5 3) wM.

(* moving /a/b below /cc: the referrer's new text "/cc/b" has 5 bytes and is rejected by its specification AFTER
   /a/b has been taken out of /a and re-parented: the call returns an error, and element 3 keeps the parent link
   PElem 5 although 5 does not list it (and 1 does not list it any more either). *)
Theorem move_failed_reparent_refuted :
  TreeInv wM /\
  (exists e, run0 (OpMove 5 3) wM = Val (ER e, wM')) /\
  Inv.Known T0 nt0 nt0 chk0 1 [] wM (OpMove 5 3) = true /\
  par wM' 3 5 /\ ~ lists wM' 5 3 /\ ~ NoOrphan wM' /\ ~ TreeInv wM' /\ Core wM'.
Proof.
  assert (Hrun : exists e, run0 (OpMove 5 3) wM = Val (ER e, wM')).
  { unfold wM', after. destruct (run0 (OpMove 5 3) wM) as [[[v|e] w']|s|] eqn:E; eauto; vm_compute in E; discriminate. }
  assert (Hpar : par wM' 3 5).
  { assert (H : exists n, w_nodes wM' 3 = Some n /\ n_parent n = PElem 5) by (vm_compute; eexists; split; reflexivity).
    exact H. }
  assert (Hnl : ~ lists wM' 5 3).
  { intros (n & Hn & Hin). assert (H : exists n', w_nodes wM' 5 = Some n' /\ kids n' = [6]) by
        (vm_compute; eexists; split; reflexivity).
    destruct H as (n' & Hn' & Hk). assert (n = n') as -> by congruence. rewrite Hk in Hin.
    destruct Hin as [Hin|[]]. discriminate Hin. }
  assert (HO : ~ NoOrphan wM') by (intros (O & _); apply Hnl; apply O; exact Hpar).
  split; [apply wM_treeinv|]. split; [exact Hrun|]. split; [vm_compute; reflexivity|].
  split; [exact Hpar|]. split; [exact Hnl|]. split; [exact HO|]. split; [intros (_ & O); auto|].
  destruct Hrun as (e & Hr). eapply (Core_step T0 nt0 nt0 chk0 1 []); [apply wM_treeinv | exact Hr].
Qed.

(* the orphan still answers model(): it is neither live nor detached *)
Example orphan_answers_model : model_of 3 wM' = Val (OK 0, wM').
Proof.
  assert (H : match model_of 3 wM' with Val (OK 0, _) => True | _ => False end) by (vm_compute; exact I).
  destruct (model_of 3 wM') as [[[m|e] w']|s|] eqn:E; try contradiction.
  destruct m; try contradiction. pose proof (InvProofsBase.ro_model_of 3 _ _ _ E). subst. reflexivity.
Qed.

(* the iterators on the 3-level world *)
Example w3_dfs : elements_dfs 100 0 0 w3 = Val [(0%nat, 0); (1%nat, 1); (2%nat, 2); (2%nat, 3); (3%nat, 4); (3%nat, 5); (4%nat, 6)].
Proof. vm_compute. reflexivity. Qed.
Example w3_dfs_depth2 : elements_dfs 100 0 2 w3 = Val [(0%nat, 0); (1%nat, 1); (2%nat, 2); (2%nat, 3)].
Proof. vm_compute. reflexivity. Qed.
Example w3_sub_elements : ei_drain 10 (ei_new 3) w3 = Val [4; 5].
Proof. vm_compute. reflexivity. Qed.
Example w3_file_dfs : file_elements_dfs 100 0 0 w3 = Val [(0%nat, 0); (1%nat, 1); (2%nat, 2); (2%nat, 3); (3%nat, 4); (3%nat, 5); (4%nat, 6)].
Proof. vm_compute. reflexivity. Qed.

End Tiny.
