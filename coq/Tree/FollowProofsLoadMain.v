(* Tree/FollowProofsLoadMain.v — C06 after a first load: the path index and the referrer map of a freshly loaded model
   are exact.
     DocSide w            the node-wise side conditions of Inv04 (SHORT-NAME elements have a SHORT-NAME type, their text has
                          no '/', an identifiable element has an item name, character elements hold at most one text) and:
                          a SHORT-NAME first child only occurs below an element of a named type - properties of the loaded
                          DOCUMENT, stated on the world it was loaded into
     first_load_inv06d    load_parsed of the first file into the only model of a world, a model with empty index maps (what
                          AutosarModel::new makes): if the load returns Ok, then Inv06D holds afterwards - with TreeFactsL and
                          Core of the result supplied (agent-c03: Tree/FollowProofsLoad.v), DocSide of the result, and the
                          parser state recording the tree (StOf: agent-xmlproofs C04_C05_load_StOf_all).
                          No hypothesis about duplicate paths: a load that returns Ok has passed the overlap check. *)
From Coq Require Import Lia.
From AV Require Import Base.Bytes Base.Outcome Hash.HashModel Spec.SpecOps Tree.Heap Tree.Ops Tree.Script Tree.Load Tree.MergeSpec Tree.Inv
  Tree.IndexProofsW Tree.Index Tree.IndexProofsBase Tree.IndexProofsAssoc Tree.IndexProofsFrame Tree.Refs Tree.Follow Tree.FollowL
  Tree.LoadRefineIndex Tree.FollowProofsLoadRep Tree.FollowProofsLoadEnum Tree.FollowProofsLoadFills Tree.FollowProofsLoadFirst
  Tree.FollowProofsLoadKeep.
From AV Require Xml.Lexer Xml.Parser.
Open Scope string_scope.
Open Scope list_scope.
Open Scope N_scope.

Section Main.
Variable T : tables.
Variable check_fn : N -> list N -> res bool.
Variables LATEST defref : N.

Definition SnNamed (w : world) : Prop :=
  forall i n, w_nodes w i = Some n -> short_child T w n <> None -> named T (n_type n) = true.
Definition DocSide (w : world) : Prop :=
  ShortTyped T check_fn w /\ SlashFree T w /\ AllNamed T w /\ CharsLeaf T w /\ SnNamed w.

Lemma olist_origins x p : olist (m_origins x) p = origins_of x p.
Proof. reflexivity. Qed.

Theorem first_load_inv06d filename root st w x f w' :
  w_models w = [x] -> m_files x = [] -> m_idents x = [] -> m_origins x = [] ->
  load_parsed T LATEST defref 0 filename root st w = Val (OK f, w') ->
  StOf T st root -> TreeFactsL w' -> Core w' -> DocSide w' ->
  (forall ty, is_ref T ty = Val true -> content_mode T ty = Val MCharacters) ->
  Inv06D T check_fn w'.
Proof.
  intros Hms Hfx Hix Hox H (Hst1 & Hst2) HTL HC (HST & HSF & HAN & HCL & HSN) HRF.
  assert (Hx : nth_opt (w_models w) (N.to_nat 0) = Some x) by (rewrite Hms; reflexivity).
  destruct (first_load_inv T LATEST defref 0 filename root st w x f w' Hx Hfx Hix Hox H)
    as (t & w1 & w4 & keep & x4 & Hinst & Hnd & Hview & Hnext & Hmods & Hroot4 & HndI & HgetI & HndO & HgetO & Hkeep & Hkill).
  rewrite Hst1, rev_involutive in HgetI. rewrite Hst2, rev_involutive in HgetO.
  destruct (kill_cases _ _ _ _ Hkill) as (K1 & K2 & K3 & K4 & K5).
  set (root_id := it_id t) in *.
  assert (Hkroot : w_nodes w' root_id = w_nodes w4 root_id) by (apply K4; exact Hkeep).
  assert (Hmods' : w_models w' = [x4]) by (rewrite K3, Hmods, Hms; reflexivity).
  assert (Hm0 : model_at w' 0 = Some x4) by (unfold model_at; rewrite Hmods'; reflexivity).
  assert (Hm0' : forall m2 y, model_at w' m2 = Some y -> m2 = 0 /\ y = x4).
  { intros m2 y Hy. unfold model_at in Hy. rewrite Hmods' in Hy. destruct (N.to_nat m2) as [|k] eqn:E.
    - cbn in Hy. injection Hy as <-. split; [lia|reflexivity].
    - cbn in Hy. destruct k; discriminate Hy. }
  (* the tree in w4 *)
  assert (HRep : Rep (w_next w) w4 t root).
  { apply (Rep_view (w_next w) w1 w4); [|lia|exact (install_rep _ _ _ _ _ Hinst)].
    intros i n _ Hn. specialize (Hview i). rewrite Hn in Hview. destruct (w_nodes w4 i) as [n'|]; [|discriminate Hview].
    cbn in Hview. unfold tview in Hview. exists n'. split; [reflexivity|]. repeat split; congruence. }
  set (P := fun j => exists q, dpath T w4 root_id j q).
  assert (Pclosed : forall p c, P p -> child_of w4 p c -> P c).
  { intros p c (q & Hq) Hc. exists (q ++ seg T w4 c). econstructor; eauto. }
  assert (Proot : P root_id) by (exists []; constructor).
  pose proof (reach_kept T w4 w' root_id HC Hkroot K5) as Hkept.
  assert (L1 : forall i n, P i -> w_nodes w4 i = Some n -> n_name n = name_short_name T -> short_type T check_fn (n_type n)).
  { intros i n (q & Hq) Hn. apply (HST i n). rewrite (Hkept i q Hq). exact Hn. }
  assert (L2 : forall i n, P i -> w_nodes w4 i = Some n -> content_mode T (n_type n) = Val MCharacters -> chars_content (n_content n)).
  { intros i n (q & Hq) Hn. apply (HCL i n). rewrite (Hkept i q Hq). exact Hn. }
  assert (L3 : forall i n, P i -> w_nodes w4 i = Some n -> identifiable_n T w4 n = true -> item_name_n T w4 n <> None).
  { intros i n (q & Hq) Hn Hid. rewrite <- (item_name_n_kill T w4 w' root_id HC Hkroot K5 i n q Hq Hn).
    apply (HAN i n); [rewrite (Hkept i q Hq); exact Hn|].
    rewrite (identifiable_n_kill T w4 w' root_id HC Hkroot K5 i n q Hq Hn). exact Hid. }
  assert (L4 : forall i n, P i -> w_nodes w4 i = Some n -> short_child T w4 n <> None -> named T (n_type n) = true).
  { intros i n (q & Hq) Hn Hs. apply (HSN i n); [rewrite (Hkept i q Hq); exact Hn|].
    rewrite (short_child_kill T w4 w' root_id HC Hkroot K5 i n q Hq Hn). exact Hs. }
  destruct (enum_ids T check_fn w4 (w_next w) P Pclosed L1 L2 L3 L4 root t [] [] HRep Proot) as (EIs & EIc).
  destruct (enum_refs T w4 (w_next w) P Pclosed HRF root t [] HRep Proot) as (ERs & ERc).
  cbn [rev app] in EIs, EIc, ERs, ERc.
  split; [exact HTL|]. split.
  - (* Inv04 *)
    constructor; try assumption.
    + intros m2 y Hy. destruct (Hm0' m2 y Hy) as (-> & ->). intros p i. rewrite HgetI. split.
      * intros (pos & Hin & Hat). destruct (EIs p pos Hin) as (q & tc & s & -> & Hsub & Hid & Hd & ->).
        rewrite it_at_sub, Hsub in Hat. cbn in Hat. injection Hat as <-.
        split; [exists x4; split; [exact Hm0|]; rewrite Hroot4; exists s; apply (dpath_kill_fwd T w4 w' root_id HC Hkroot K5); exact Hd|].
        split; [rewrite (identifiable_kill T w4 w' root_id HC Hkroot K5 _ s Hd); exact Hid|].
        exists x4. split; [exact Hm0|]. rewrite Hroot4. exists s. split; [apply (dpath_kill_fwd T w4 w' root_id HC Hkroot K5); exact Hd|].
        rewrite (seg_kill T w4 w' root_id HC Hkroot K5 root_id [] (dp_refl _ _ _)). reflexivity.
      * intros (_ & Hid & (y & Hy' & (s & Hd & ->))). assert (y = x4) by congruence. subst y. rewrite Hroot4 in Hd.
        apply (dpath_kill_bwd T w4 w' root_id HC Hkroot K5) in Hd.
        rewrite (identifiable_kill T w4 w' root_id HC Hkroot K5 _ s Hd) in Hid.
        destruct (EIc i s Hd Hid) as (q & tc & Hsub & <- & Hin). exists q. split.
        -- rewrite Hroot4, (seg_kill T w4 w' root_id HC Hkroot K5 root_id [] (dp_refl _ _ _)). exact Hin.
        -- rewrite it_at_sub, Hsub. reflexivity.
    + intros m2 y Hy. destruct (Hm0' m2 y Hy) as (-> & ->). exact HndI.
  - (* Inv05D *)
    intros m2 y Hy. destruct (Hm0' m2 y Hy) as (-> & ->).
    assert (Hentry : forall p r, In r (origins_of x4 p) -> RefSet T w' 0 p r).
    { intros p r Hin. rewrite <- olist_origins in Hin. apply HgetO in Hin as (pos & Hin & Hat).
      destruct (ERs p pos Hin) as (q & tc & -> & Hsub & Ht & (s & Hd)).
      rewrite it_at_sub, Hsub in Hat. cbn in Hat. injection Hat as <-. split.
      - exists x4. split; [exact Hm0|]. rewrite Hroot4. exists s. apply (dpath_kill_fwd T w4 w' root_id HC Hkroot K5). exact Hd.
      - rewrite (ref_text_kill T w4 w' root_id HC Hkroot K5 _ s Hd). exact Ht. }
    constructor.
    + exact HndO.
    + intros p r ((y & Hy' & (s & Hd)) & Ht). assert (y = x4) by congruence. subst y. rewrite Hroot4 in Hd.
      apply (dpath_kill_bwd T w4 w' root_id HC Hkroot K5) in Hd.
      rewrite (ref_text_kill T w4 w' root_id HC Hkroot K5 _ s Hd) in Ht.
      destruct (ERc r p (ex_intro _ s Hd) Ht) as (q & tc & Hsub & <- & Hin).
      rewrite <- olist_origins. apply HgetO. exists q. split; [exact Hin|]. rewrite it_at_sub, Hsub. reflexivity.
    + intros p r Hin. left. apply Hentry. exact Hin.
    + intros k1 k2 r H1 H2. apply Hentry in H1 as (_ & H1). apply Hentry in H2 as (_ & H2). congruence.
Qed.

End Main.
