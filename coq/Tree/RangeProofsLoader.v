(* Tree/RangeProofsLoader.v — C07 proofs: a child list in specification order passes the two checks the loader applies
   to a child list (parser.rs check_element_conflict, check_multiplicity; Tree/Range.v loader_scan): no
   ElementChoiceConflict, no TooManySubElements, and no table access panics. *)
From AV Require Import Base.Bytes Base.Outcome Spec.SpecOps Tree.Heap Tree.Range Tree.RangeProofsPath Tree.SpecWF.
Open Scope list_scope.
Open Scope N_scope.

Section Loader.
Variable T : tables.
Hypothesis WF : SpecWF T.

Lemma slot_dt g pos k i d : slot T g pos = Some (k, i, d) -> dt T g = Val d.
Proof.
  intros S. apply slot_sub_slice in S as (start & stop & ES & _ & _). unfold sub_slice in ES.
  destruct (dt T g) as [d0| |]; cbn [bind] in ES; try discriminate.
  destruct (slice_chk _ _ _ _); cbn [bind] in ES; try discriminate. injection ES as _ _ ->. reflexivity.
Qed.

Lemma removelast_cons2 {A} (x y : A) l : removelast (x :: y :: l) = x :: removelast (y :: l).
Proof. reflexivity. Qed.

(* the container mode of a leaf path is the mode of the group in which the path "parts from itself" *)
Lemma container_mode_leaf g ix : leaf_path T g ix ->
  exists cg m, common_group T g ix ix = Val cg /\ group_mode T cg = Some m /\
               get_sub_element_container_mode T (0, g) ix = Val m.
Proof.
  induction 1 as [g pos def d e m S E V | g pos kind gid d rest S K L IH].
  - exists g, (dt_mode d). rewrite (common_group_same T _ _ _ _ _ _ _ S). cbn [N.eqb].
    pose proof (slot_dt _ _ _ _ _ S) as Hd. unfold group_mode. rewrite Hd.
    split; [reflexivity|]. split; [reflexivity|].
    unfold get_sub_element_container_mode. cbn [List.length snd N.of_nat N.ltb N.compare Pos.compare Pos.compare_cont].
    cbn. rewrite Hd. reflexivity.
  - destruct IH as (cg & m & HC & HM & HK). exists cg, m.
    rewrite (common_group_same T _ _ _ _ _ _ _ S). pose proof K as K'. apply N.eqb_neq in K'. rewrite K'.
    split; [exact HC|]. split; [exact HM|].
    destruct (wf_group_entry T WF _ _ _ _ _ S K) as (-> & m0 & HV).
    pose proof (slot_sub_slice T _ _ _ _ _ S) as (start & stop & ES & EL & ESub).
    pose proof (leaf_path_slice T _ _ L) as (rs & ERS).
    destruct rest as [|p2 rest]; [exfalso; exact (leaf_path_nonempty T _ _ L eq_refl)|].
    destruct rest as [|p3 rest].
    + (* ix = [pos; p2] *)
      unfold get_sub_element_container_mode in *. cbn [List.length] in *.
      replace (N.of_nat 2 <? 2) with false by reflexivity. replace (N.of_nat 1 <? 2) with true in HK by reflexivity.
      cbn [removelast]. unfold get_sub_element_spec. cbn [snd] in *. rewrite ES. cbn [bind walk_groups]. rewrite ES. cbn [bind].
      rewrite EL, ESub. cbn [bind]. rewrite HV. cbn [bind]. exact HK.
    + (* ix = pos :: p2 :: p3 :: rest *)
      unfold get_sub_element_container_mode in *.
      replace (N.of_nat (List.length (pos :: p2 :: p3 :: rest)) <? 2) with false
        by (symmetry; apply N.ltb_ge; cbn [List.length]; lia).
      replace (N.of_nat (List.length (p2 :: p3 :: rest)) <? 2) with false in HK
        by (symmetry; apply N.ltb_ge; cbn [List.length]; lia).
      rewrite removelast_cons2. unfold get_sub_element_spec in *. cbn [snd] in *.
      assert (NE : removelast (p2 :: p3 :: rest) <> []) by (rewrite removelast_cons2; discriminate).
      destruct (removelast (p2 :: p3 :: rest)) as [|q1 qs] eqn:ERL; [congruence|].
      rewrite ES. cbn [bind]. rewrite ERS in HK. cbn [bind] in HK.
      rewrite (walk_groups_descend T g pos 1 gid d (q1 :: qs) S ltac:(discriminate) ltac:(discriminate)). exact HK.
Qed.

Lemma pair_ok_choice_mode ty a b g m :
  pair_ok T ty a b = true -> find_common_group T ty a b = Val g -> group_mode T g = Some m ->
  ix_eqb a b = false -> m <> MChoice /\ m <> MCharacters.
Proof.
  unfold pair_ok. intros H HG HM HE. rewrite HG, HM, HE in H. cbn [andb] in H.
  destruct (m =? MSequence) eqn:E0; [apply N.eqb_eq in E0; subst; split; discriminate|].
  destruct (m =? MChoice) eqn:E1; [discriminate|].
  apply N.eqb_neq in E1. split; [exact E1|].
  intros ->. discriminate.
Qed.

Lemma pair_ok_defined ty a b : pair_ok T ty a b = true -> exists g m, find_common_group T ty a b = Val g /\ group_mode T g = Some m.
Proof.
  unfold pair_ok. destruct (find_common_group T ty a b) as [g| |]; try discriminate.
  destruct (group_mode T g) as [m|] eqn:EM; try discriminate. intros _. exists g, m. auto.
Qed.

Lemma existsb_app_single seen name n :
  existsb (fun s : option N => match s with Some k => k =? name | None => false end) (seen ++ [Some n]) =
  existsb (fun s : option N => match s with Some k => k =? name | None => false end) seen || (n =? name).
Proof. rewrite existsb_app. cbn [existsb]. rewrite orb_false_r. reflexivity. Qed.

Lemma scan_ok ty v : forall items l prev seen,
  paths_of T ty v items = Some l -> all_pairs_ok T ty l = true ->
  (prev = [] \/ forall x, In x l -> pair_ok T ty prev x = true) ->
  (forall n, In (Some n) seen -> exists ixn, idx_of T ty v n = Some ixn /\ forall x, In x l -> pair_ok T ty ixn x = true) ->
  loader_scan T ty v prev seen items = Some [].
Proof.
  induction items as [|[name|] r IH]; intros l prev seen HP HO Hprev Hseen; cbn [loader_scan]; [reflexivity| |].
  - cbn [paths_of] in HP. destruct (idx_of T ty v name) as [ix|] eqn:EX; [|discriminate].
    destruct (paths_of T ty v r) as [l'|] eqn:EP; [|discriminate]. injection HP as <-.
    cbn [all_pairs_ok] in HO. apply andb_true_iff in HO as [H1 H2]. rewrite forallb_forall in H1.
    pose proof (idx_of_leaf T _ _ _ _ EX) as Lix.
    (* no choice conflict *)
    assert (CC : choice_conflict T ty prev ix = Some false).
    { unfold choice_conflict. destruct prev as [|p0 prev']; [reflexivity|].
      destruct (ix_eqb (p0 :: prev') ix) eqn:EE; [reflexivity|].
      destruct Hprev as [X|Hprev]; [discriminate|].
      pose proof (Hprev ix (or_introl eq_refl)) as PO.
      destruct (pair_ok_defined _ _ _ PO) as (g & m & HG & HM). rewrite HG, HM.
      destruct (pair_ok_choice_mode _ _ _ _ _ PO HG HM EE) as [NC NCh].
      apply N.eqb_neq in NC. apply N.eqb_neq in NCh. rewrite NC, NCh. reflexivity. }
    (* not too many *)
    assert (TM : too_many T ty ix name seen = Some false).
    { unfold too_many. destruct seen as [|s0 seen']; [reflexivity|].
      destruct ty as [a g]. cbn [snd] in Lix.
      destruct (container_mode_leaf g ix Lix) as (cg & m & HC & HM & HK).
      change (get_sub_element_container_mode T (a, g) ix) with (get_sub_element_container_mode T (0, g) ix). rewrite HK.
      destruct ((m =? MSequence) || (m =? MChoice)) eqn:ESC; [|reflexivity].
      destruct (mult_any_leaf T (a, g) ix Lix) as (mu & HMU & HMA). rewrite HMU.
      destruct (existsb (fun s : option N => match s with Some n => n =? name | None => false end) (s0 :: seen')) eqn:EXS;
        [|rewrite andb_false_r; reflexivity].
      apply existsb_exists in EXS as ([n0|] & Hin & Hn0); [|discriminate]. apply N.eqb_eq in Hn0. subst n0.
      destruct (Hseen name Hin) as (ixn & EXn & Hall). rewrite EX in EXn. injection EXn as <-.
      pose proof (Hall ix (or_introl eq_refl)) as PO.
      unfold pair_ok, find_common_group in PO. cbn [snd] in PO. rewrite HC, HM in PO.
      rewrite ix_cmp_refl, ix_eqb_refl in PO. cbn [andb] in PO.
      apply orb_true_iff in ESC as [ES|ES]; apply N.eqb_eq in ES; subst m; cbn in PO; rewrite HMA in PO; rewrite PO; reflexivity. }
    rewrite CC, TM.
    rewrite (IH l' ix (seen ++ [Some name]) eq_refl H2).
    + reflexivity.
    + right. exact H1.
    + intros n Hn. apply in_app_or in Hn as [Hn|[[= <-]|[]]].
      * destruct (Hseen n Hn) as (ixn & E1 & E2). exists ixn. split; [exact E1|]. intros x Hx. apply E2. right. exact Hx.
      * exists ix. split; [exact EX|exact H1].
  - cbn [paths_of] in HP. apply (IH l prev (seen ++ [None]) HP HO Hprev).
    intros n Hn. apply in_app_or in Hn as [Hn|[Hd|[]]]; [apply Hseen; exact Hn | discriminate].
Qed.

Theorem ordered_loader_accepts ty v items : Ordered T ty v items -> LoaderAccepts T ty v items.
Proof.
  unfold Ordered, orderedb, LoaderAccepts, loader_complaints.
  destruct (paths_of T ty v items) as [l|] eqn:EP; [|discriminate]. intros HO.
  apply (scan_ok ty v items l [] [] EP HO); [left; reflexivity | intros n []].
Qed.

End Loader.
