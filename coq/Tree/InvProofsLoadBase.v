(* Tree/InvProofsLoadBase.v — C03 over OpLoad, groundwork:
     mask D w        : the world in which the nodes of D list no sub-elements (the incoming elements that have been
                       merged into the model keep listing what was imported from them until the load returns)
     core_cut        : Core after kill_unreachable
     install_core    : Load.install puts a well-formed detached tree on fresh nodes *)
From Coq Require Import PeanoNat Arith Lia.
From AV Require Import Base.Bytes Base.Outcome Hash.HashModel Tree.Heap Tree.Ops Tree.Script Tree.Inv
  Tree.InvProofsBase Tree.InvProofsCore Tree.InvProofsTree Tree.InvProofsPrim Tree.Load Tree.InvLoad.
From AV Require Xml.Parser.
Open Scope string_scope.
Open Scope list_scope.
Open Scope N_scope.

Lemma inb_in i l : inb i l = true <-> In i l.
Proof.
  unfold inb. rewrite existsb_exists. split.
  - intros (x & Hx & E). apply N.eqb_eq in E. subst. auto.
  - intros H. exists i. split; auto. apply N.eqb_refl.
Qed.
Lemma inb_notin i l : inb i l = false <-> ~ In i l.
Proof. rewrite <- inb_in. destruct (inb i l); split; congruence. Qed.
Lemma nodupb_nodup l : nodupb l = true -> NoDup l.
Proof.
  induction l as [|x l IH]; cbn; [constructor|]. intros H. apply andb_prop in H as (H1 & H2).
  constructor; auto. apply inb_notin. destruct (inb x l); auto.
Qed.

(* ------------------------------------------------------------------ mask *)
Definition strip (n : node) : node := set_content n (cdata_only (n_content n)).
Definition mask (D : list id) (w : world) : world :=
  mkWorld (fun i => if inb i D then option_map strip (w_nodes w i) else w_nodes w i) (w_next w) (w_files w) (w_models w).

Lemma elems_cdata_only l : elems (cdata_only l) = [].
Proof. induction l as [|[c|d] l IH]; cbn; auto. Qed.
Lemma kids_strip n : kids (strip n) = [].
Proof. unfold kids, strip. cbn. apply elems_cdata_only. Qed.

Lemma skel_mask_out D w i : inb i D = false -> skel (mask D w) i = skel w i.
Proof. intros H. unfold skel, mask. cbn. rewrite H. reflexivity. Qed.
Lemma skel_mask_in D w i : inb i D = true ->
  skel (mask D w) i = match skel w i with Some (pp, _) => Some (pp, []) | None => None end.
Proof.
  intros H. unfold skel, mask. cbn [w_nodes]. rewrite H. destruct (w_nodes w i) as [n|]; [|reflexivity].
  cbn [option_map]. rewrite kids_strip. reflexivity.
Qed.
Lemma roots_mask D w : roots (mask D w) = roots w. Proof. reflexivity. Qed.
Lemma next_mask D w : w_next (mask D w) = w_next w. Proof. reflexivity. Qed.

Lemma alloc_mask D w i : allocated (mask D w) i <-> allocated w i.
Proof.
  rewrite !allocated_skel. destruct (inb i D) eqn:E; [rewrite skel_mask_in by auto|rewrite skel_mask_out by auto; tauto].
  destruct (skel w i) as [[pp ks]|]; split; congruence.
Qed.
Lemma par_mask D w c p : par (mask D w) c p <-> par w c p.
Proof.
  rewrite !par_skel. destruct (inb c D) eqn:E; [rewrite skel_mask_in by auto|rewrite skel_mask_out by auto; tauto].
  destruct (skel w c) as [[pp ks]|]; split; intros (k & H); try discriminate; injection H as ->; eauto.
Qed.
Lemma lists_mask D w p c : lists (mask D w) p c <-> lists w p c /\ inb p D = false.
Proof.
  rewrite !lists_skel. destruct (inb p D) eqn:E; [rewrite skel_mask_in by auto|rewrite skel_mask_out by auto; tauto].
  split; [|intros (_ & [=])]. destruct (skel w p) as [[pp ks]|]; intros (a & b & H & Hc); try discriminate.
  injection H as <- <-. destruct Hc.
Qed.
Lemma mask_parent D w i n : w_nodes w i = Some n -> exists n', w_nodes (mask D w) i = Some n' /\ n_parent n' = n_parent n.
Proof. intros H. unfold mask. cbn. rewrite H. destruct (inb i D); cbn; eauto. Qed.
Lemma mask_parent_back D w i n' : w_nodes (mask D w) i = Some n' -> exists n, w_nodes w i = Some n /\ n_parent n' = n_parent n.
Proof.
  unfold mask. cbn. destruct (inb i D); [|eauto]. destruct (w_nodes w i) as [n|]; cbn; [|discriminate].
  intros [= <-]. eauto.
Qed.

Lemma ancs_mask D w a x : AncS (mask D w) a x <-> AncS w a x.
Proof.
  split; intros H; induction H as [|? ? Hp ? IH]; try constructor.
  - eapply A_up; [|exact IH]. exact (proj1 (par_mask D w _ _) Hp).
  - eapply A_up; [|exact IH]. exact (proj2 (par_mask D w _ _) Hp).
Qed.

Lemma Core_mask_incl D D' w : (forall i, In i D -> In i D') -> Core (mask D w) -> Core (mask D' w).
Proof.
  intros Hi C. constructor.
  - intros i. rewrite alloc_mask, next_mask. rewrite <- (alloc_mask D), <- (next_mask D). apply C.
  - intros p c Hl. apply lists_mask in Hl as (Hl & Hp). apply par_mask. apply (par_mask D). apply C.
    apply lists_mask. split; auto. apply inb_notin. apply inb_notin in Hp. auto.
  - intros p n Hp. destruct (inb p D') eqn:E.
    + unfold mask in Hp. cbn in Hp. rewrite E in Hp. destruct (w_nodes w p); [|discriminate]. cbn in Hp.
      injection Hp as <-. rewrite kids_strip. constructor.
    + assert (E0 : inb p D = false). { apply inb_notin. apply inb_notin in E. auto. }
      unfold mask in Hp. cbn in Hp. rewrite E in Hp. apply (c_nodup _ C p). unfold mask. cbn. rewrite E0. auto.
  - intros k r. rewrite roots_mask, <- (roots_mask D). intros H. destruct (c_roots _ C _ _ H) as (n & Hn & Hp).
    apply mask_parent_back in Hn as (n0 & Hn0 & E). destruct (mask_parent D' _ _ _ Hn0) as (n' & Hn' & E').
    exists n'. split; auto. congruence.
  - intros i Ha. apply (proj1 (alloc_mask D' w i)) in Ha. apply (proj2 (alloc_mask D w i)) in Ha.
    destruct (c_depth _ C _ Ha) as (h & Hd).
    exists h. eapply depth_transfer; [|exact Hd]. intros x n Hx.
    apply mask_parent_back in Hx as (n0 & Hn0 & E). destruct (mask_parent D' _ _ _ Hn0) as (n' & Hn' & E').
    exists n'. split; auto. congruence.
Qed.

Lemma mask_nil w : forall i, skel (mask [] w) i = skel w i.
Proof. intros i. apply skel_mask_out. reflexivity. Qed.
Lemma Core_mask_nil w : Core w <-> Core (mask [] w).
Proof.
  split; apply Core_same_tree; repeat split; auto; intros i; rewrite mask_nil; auto.
Qed.
Lemma Core_mask D w : Core w -> Core (mask D w).
Proof. intros C. apply (Core_mask_incl [] D); [intros i []|]. exact (proj1 (Core_mask_nil w) C). Qed.

Lemma same_tree_mask D w w' : same_tree w w' -> same_tree (mask D w) (mask D w').
Proof.
  intros (Hn & Hr & Hs). repeat split; auto. intros i. destruct (inb i D) eqn:E.
  - rewrite !skel_mask_in by auto. rewrite Hs. reflexivity.
  - rewrite !skel_mask_out by auto. auto.
Qed.

Lemma mask_wset D w i n : inb i D = false -> forall x, skel (mask D (wset w i n)) x = skel (wset (mask D w) i n) x.
Proof.
  intros Hi x. destruct (N.eq_dec x i) as [->|Hx].
  - rewrite skel_mask_out by auto. rewrite !skel_wset_eq. reflexivity.
  - rewrite skel_wset_neq by auto. destruct (inb x D) eqn:E.
    + rewrite !skel_mask_in by auto. rewrite skel_wset_neq by auto. reflexivity.
    + rewrite !skel_mask_out by auto. apply skel_wset_neq. auto.
Qed.
Lemma upd1_mask_wset D w i n : inb i D = false -> upd1 (mask D w) (mask D (wset w i n)) i.
Proof.
  intros Hi. repeat split; auto. intros x Hx. rewrite mask_wset by auto. apply skel_wset_neq. auto.
Qed.

(* ------------------------------------------------------------------ cutting: the nodes of K become detached leaves *)
Lemma core_cut (K : id -> bool) w w' :
  w_next w' = w_next w -> roots w' = roots w ->
  (forall j, skel w' j = if K j then match skel w j with Some _ => Some (PNone, []) | None => None end else skel w j) ->
  (forall i, allocated w i <-> i < w_next w) ->
  (forall p n, K p = false -> w_nodes w p = Some n -> NoDup (kids n)) ->
  (forall k r, nth_error (roots w) k = Some r -> K r = false /\ exists n, w_nodes w r = Some n /\ n_parent n = PModel (N.of_nat k)) ->
  (forall i, allocated w i -> exists h, Depth w i h) ->
  (forall p c, K p = false -> lists w p c -> par w c p /\ K c = false) ->
  Core w'.
Proof.
  intros Hn Hr Hs Ha Hnd Hro Hd Hup.
  assert (Hal : forall x, allocated w' x <-> allocated w x).
  { intros x. rewrite !allocated_skel, Hs. destruct (K x); [|tauto]. destruct (skel w x); split; congruence. }
  constructor.
  - intros i. rewrite Hal, Hn. apply Ha.
  - intros p c Hl. apply lists_skel in Hl as (pp & ks & E & Hc). rewrite Hs in E. destruct (K p) eqn:Kp.
    + destruct (skel w p); [|discriminate]. injection E as <- <-. destruct Hc.
    + destruct (Hup p c Kp) as (Hp & Kc); [apply lists_skel; eauto|].
      apply par_skel in Hp as (ks0 & E0). apply par_skel. exists ks0. rewrite Hs, Kc. auto.
  - intros p n Hp. pose proof (skel_some _ _ _ Hp) as E. rewrite Hs in E. destruct (K p) eqn:Kp.
    + destruct (skel w p); [|discriminate]. injection E as _ <-. constructor.
    + apply skel_inv in E as (n0 & Hn0 & _ & <-). eapply Hnd; eauto.
  - intros k r. rewrite Hr. intros H. destruct (Hro _ _ H) as (Kr & n & Hn0 & Hp).
    pose proof (skel_some _ _ _ Hn0) as E. specialize (Hs r). rewrite Kr, E in Hs.
    apply skel_inv in Hs as (n' & Hn' & Hp' & _). exists n'. split; auto. congruence.
  - assert (G : forall x h, Depth w x h -> exists h', Depth w' x h').
    { intros x h H. induction H as [x n Hx Ht | x n p h Hx Hp Hdp IH].
      - pose proof (skel_some _ _ _ Hx) as E. specialize (Hs x). rewrite E in Hs. destruct (K x).
        + apply skel_inv in Hs as (n' & Hn' & Hp' & _). exists O. eapply D_top; [eauto|rewrite Hp'; congruence].
        + apply skel_inv in Hs as (n' & Hn' & Hp' & _). exists O. eapply D_top; [eauto|rewrite Hp'; auto].
      - destruct IH as (h' & IH). pose proof (skel_some _ _ _ Hx) as E. specialize (Hs x). rewrite E in Hs. destruct (K x).
        + apply skel_inv in Hs as (n' & Hn' & Hp' & _). exists O. eapply D_top; [eauto|rewrite Hp'; congruence].
        + apply skel_inv in Hs as (n' & Hn' & Hp' & _). exists (S h'). eapply D_step; eauto. congruence. }
    intros i Hi. apply (proj1 (Hal i)) in Hi. destruct (Hd _ Hi) as (h & Hh). eauto.
Qed.

(* ------------------------------------------------------------------ kill_unreachable, concretely *)
Lemma n_range_in k : forall from j, In j (n_range k from) <-> from <= j < from + N.of_nat k.
Proof.
  induction k as [|k IH]; intros from j; cbn [n_range].
  - split; [intros []|lia].
  - cbn [In]. rewrite IH. lia.
Qed.
Lemma n_range_nodup k : forall from, NoDup (n_range k from).
Proof.
  induction k as [|k IH]; intros from; cbn [n_range]; constructor; auto.
  rewrite n_range_in. lia.
Qed.

Definition killedb (from : id) (keep : list id) (w : world) (j : id) : bool :=
  (from <=? j) && (j <? w_next w) && negb (inb j keep).

Lemma fold_kill_spec keep ids : NoDup ids -> forall f j,
  fold_left (fun f i => if existsb (N.eqb i) keep then f
                        else match f i with Some n => upd f i (kill n) | None => f end) ids f j =
  if existsb (N.eqb j) ids && negb (inb j keep) then option_map kill (f j) else f j.
Proof.
  induction 1 as [|i ids Hni Hnd IH]; intros f j; cbn [fold_left existsb]; [reflexivity|].
  rewrite IH. clear IH.
  assert (Hex : forall x, existsb (N.eqb x) ids = true <-> In x ids) by (intros x; apply (inb_in x ids)).
  destruct (N.eqb_spec j i) as [->|Hji]; cbn [orb].
  - assert (E : existsb (N.eqb i) ids = false).
    { destruct (existsb (N.eqb i) ids) eqn:E; auto. apply Hex in E. contradiction. }
    rewrite E. cbn [andb]. fold (inb i keep). destruct (inb i keep); cbn [negb]; auto.
    destruct (f i) eqn:Ef; cbn; [rewrite upd_eq|rewrite Ef]; auto.
  - fold (inb i keep). destruct (inb i keep); auto.
    destruct (f i); auto. rewrite upd_neq by auto. reflexivity.
Qed.

Lemma kill_spec from keep w r w' :
  kill_unreachable from keep w = Val (r, w') ->
  r = OK tt /\ w_next w' = w_next w /\ w_files w' = w_files w /\ w_models w' = w_models w /\
  forall j, w_nodes w' j = if killedb from keep w j then option_map kill (w_nodes w j) else w_nodes w j.
Proof.
  unfold kill_unreachable. intros [= <- <-]. repeat split; auto. intros j. cbn [w_nodes].
  rewrite fold_kill_spec by apply n_range_nodup. unfold killedb.
  replace (existsb (N.eqb j) (n_range (N.to_nat (w_next w - from)) from)) with ((from <=? j) && (j <? w_next w)); auto.
  destruct (existsb (N.eqb j) _) eqn:E.
  - apply (inb_in j) in E. apply n_range_in in E. rewrite N2Nat.id in E.
    apply andb_true_intro. split; [apply N.leb_le|apply N.ltb_lt]; lia.
  - apply andb_false_iff. apply (inb_notin j) in E. rewrite n_range_in, N2Nat.id in E.
    destruct (N.leb_spec from j); auto. right. apply N.ltb_ge. lia.
Qed.

Lemma skel_kill n : (n_parent (kill n), kids (kill n)) = (PNone, []).
Proof. unfold kids, kill. cbn. rewrite elems_cdata_only. reflexivity. Qed.

Lemma kill_skel from keep w r w' :
  kill_unreachable from keep w = Val (r, w') ->
  forall j, skel w' j = if killedb from keep w j then match skel w j with Some _ => Some (PNone, []) | None => None end
                        else skel w j.
Proof.
  intros H j. apply kill_spec in H as (_ & _ & _ & _ & H). unfold skel. rewrite H.
  destruct (killedb from keep w j); auto. destruct (w_nodes w j); cbn; auto.
  f_equal. apply skel_kill.
Qed.

(* Core after kill_unreachable: D (the merged incoming elements) is killed, what is kept lists only what is kept *)
Lemma core_kill D from keep w r w' :
  Core (mask D w) ->
  (forall k r0, nth_error (roots w) k = Some r0 -> killedb from keep w r0 = false) ->
  (forall p, In p D -> allocated w p -> killedb from keep w p = true) ->
  (forall p c, killedb from keep w p = false -> lists w p c -> killedb from keep w c = false) ->
  kill_unreachable from keep w = Val (r, w') -> Core w'.
Proof.
  intros C Hro HD Hcl H. pose proof (kill_skel _ _ _ _ _ H) as Hs.
  apply kill_spec in H as (_ & Hn & _ & Hm & _).
  assert (HKD : forall p, killedb from keep w p = false -> allocated w p -> inb p D = false).
  { intros p Hp Ha. apply inb_notin. intros Hin. apply HD in Hin; auto. congruence. }
  eapply (core_cut (killedb from keep w) w w'); auto.
  - unfold roots. rewrite Hm. auto.
  - intros i. rewrite <- (alloc_mask D), <- (next_mask D). apply C.
  - intros p n Kp Hp. apply (c_nodup _ C p). unfold mask. cbn. rewrite (HKD _ Kp) by (eexists; eauto). auto.
  - intros k r0 Hk. split.
    + eapply Hro; eauto.
    + destruct (c_roots _ C k r0) as (n & Hn0 & Hp); [rewrite roots_mask; auto|].
      apply mask_parent_back in Hn0 as (n0 & Hn0 & E). exists n0. split; auto. congruence.
  - intros i Hi. apply (proj2 (alloc_mask D w i)) in Hi. destruct (c_depth _ C _ Hi) as (h & Hd). exists h.
    eapply depth_transfer; [|exact Hd]. intros x n Hx. apply mask_parent_back in Hx as (n0 & Hn0 & E). eauto.
  - intros p c Kp Hl. split; [|eapply Hcl; eauto]. apply (par_mask D). apply C. apply lists_mask. split; auto.
    apply HKD; auto. destruct Hl as (n0 & Hn0 & _). eexists; eauto.
Qed.

(* ------------------------------------------------------------------ install *)
Lemma par_frame w w' c p : (exists n, w_nodes w c = Some n) -> w_nodes w' c = w_nodes w c -> (par w' c p <-> par w c p).
Proof. intros _ E. unfold par. rewrite E. tauto. Qed.

Lemma install_core : forall e parent w r w',
  Core w -> (parent = PNone \/ exists q, parent = PElem q /\ allocated w q) ->
  install parent e w = Val (r, w') ->
  exists t, r = OK t /\ it_id t = w_next w /\ Core w' /\ w_next w < w_next w' /\ roots w' = roots w /\
    (forall j, j < w_next w -> w_nodes w' j = w_nodes w j) /\
    (exists n, w_nodes w' (w_next w) = Some n /\ n_parent n = parent) /\
    (forall c p, w_next w < c -> par w' c p -> w_next w <= p).
Proof.
  fix IH 1. intros [name ty attrs content comment] parent w r w' C Hpar H.
  cbn [install] in H.
  apply wbind_inv in H as [(i & w1 & H1 & H2) | (e' & H1 & _)]; [|discriminate H1].
  apply alloc_walloc in H1 as ([= ->] & ->).
  set (n0 := mkNode parent name ty [] (map (fun a => (fst a, to_hc (snd a))) attrs) [] comment) in *.
  set (i := w_next w) in *.
  assert (C1 : Core (walloc w n0)).
  { eapply core_alloc; [exact C|apply alloc1_walloc|apply skel_walloc_new|exact Hpar]. }
  assert (Hi1 : w_nodes (walloc w n0) i = Some n0) by apply nodes_walloc_new.
  assert (Hn1 : w_next (walloc w n0) = i + 1) by reflexivity.
  assert (G : forall l wa r0 wb, Core wa -> w_nodes wa i = Some n0 -> i < w_next wa ->
    (fix go (l : list (Parser.etree + Parser.cdata)) : W (list citem * list (option itree)) :=
       match l with
       | [] => wret ([], [])
       | inl c :: r => (do t <- install (PElem i) c; do '(cs, ts) <- go r; wret (CElem (it_id t) :: cs, Some t :: ts))%W
       | inr d :: r => (do '(cs, ts) <- go r; wret (CData (to_hc d) :: cs, None :: ts))%W
       end) l wa = Val (r0, wb) ->
    exists items kds, r0 = OK (items, kds) /\ Core wb /\ w_next wa <= w_next wb /\ roots wb = roots wa /\
      (forall j, j < w_next wa -> w_nodes wb j = w_nodes wa j) /\
      (forall c, In c (elems items) -> w_next wa <= c < w_next wb /\ par wb c i) /\ NoDup (elems items) /\
      (forall c p, w_next wa <= c -> par wb c p -> p = i \/ w_next wa <= p)).
  { induction l as [|[c|d] rest IHr]; intros wa r0 wb Ca Hia Hlt Hg.
    - apply wret_inv in Hg as (-> & ->). exists [], [].
      split; [reflexivity|]. split; [exact Ca|]. split; [lia|]. split; [reflexivity|]. split; [auto|].
      split; [intros c []|]. split; [constructor|].
      intros c p Hc (n & Hn & _). assert (allocated wa c) as Ha by (eexists; eauto). apply Ca in Ha. lia.
    - apply wbind_inv in Hg as [(t & w3 & H5 & H6) | (e' & H5 & ->)].
      2:{ destruct (IH c (PElem i) wa _ _ Ca (or_intror (ex_intro _ i (conj eq_refl (ex_intro _ n0 Hia)))) H5) as (t & [=] & _). }
      destruct (IH c (PElem i) wa _ _ Ca (or_intror (ex_intro _ i (conj eq_refl (ex_intro _ n0 Hia)))) H5)
        as (t' & [= <-] & Eid & C3 & L3 & R3 & F3 & (nr & Hnr & Pnr) & Cl3).
      assert (Hi3 : w_nodes w3 i = Some n0) by (rewrite F3; auto).
      apply wbind_inv in H6 as [([cs ts] & w4 & H7 & H8) | (e' & H7 & ->)].
      2:{ destruct (IHr w3 _ _ C3 Hi3 ltac:(lia) H7) as (? & ? & [=] & _). }
      apply wret_inv in H8 as (-> & ->).
      destruct (IHr w3 _ _ C3 Hi3 ltac:(lia) H7) as (items & kds & [= -> ->] & C4 & L4 & R4 & F4 & K4 & ND4 & Cl4).
      exists (CElem (it_id t) :: items), (Some t :: kds). rewrite elems_cons_elem.
      split; [reflexivity|]. split; [exact C4|]. split; [lia|]. split; [congruence|].
      split; [intros j Hj; rewrite F4 by lia; apply F3; auto|].
      split; [|split].
      + intros c0 [<-|Hc0].
        * rewrite Eid. split; [lia|]. exists nr. split; auto. rewrite F4 by lia. auto.
        * destruct (K4 _ Hc0) as (Hr4 & Hp4). split; [lia|auto].
      + constructor; auto. intros Hin. apply K4 in Hin as (Hr4 & _). lia.
      + intros c0 p Hc0 Hp. destruct (N.lt_ge_cases c0 (w_next w3)) as [Hlt3|Hge3].
        * assert (Hp3 : par w3 c0 p). { destruct Hp as (n & Hn & Hpp). exists n. split; auto. rewrite <- F4; auto. }
          destruct (N.eq_dec c0 (w_next wa)) as [->|Hne].
          -- left. eapply par_fun; [exact Hp3|]. exists nr. auto.
          -- right. apply (Cl3 c0 p); auto. lia.
        * destruct (Cl4 _ _ Hge3 Hp); auto. right. lia.
    - apply wbind_inv in Hg as [([cs ts] & w4 & H7 & H8) | (e' & H7 & ->)].
      2:{ destruct (IHr wa _ _ Ca Hia Hlt H7) as (? & ? & [=] & _). }
      apply wret_inv in H8 as (-> & ->).
      destruct (IHr wa _ _ Ca Hia Hlt H7) as (items & kds & [= -> ->] & C4 & L4 & R4 & F4 & K4 & ND4 & Cl4).
      exists (CData (to_hc d) :: items), (None :: kds). rewrite elems_cons_data.
      split; [reflexivity|]. split; [exact C4|]. split; [exact L4|]. split; [exact R4|]. split; [exact F4|]. auto. }
  apply wbind_inv in H2 as [([items kds] & w2 & H3 & H4) | (e' & H3 & _)].
  2:{ destruct (G _ _ _ _ C1 Hi1 ltac:(lia) H3) as (? & ? & [=] & _). }
  destruct (G _ _ _ _ C1 Hi1 ltac:(lia) H3) as (items' & kds' & [= <- <-] & C2 & L2 & R2 & F2 & K2 & ND2 & Cl2).
  clear G.
  apply wbind_inv in H4 as [(u & w3 & H5 & H6) | (e' & H5 & _)].
  2:{ apply modify_node_wset in H5 as (? & _ & [=] & _). }
  apply wret_inv in H6 as (-> & ->).
  apply modify_node_wset in H5 as (n & Hn & _ & ->).
  assert (n = n0) as -> by (rewrite F2 in Hn by lia; congruence).
  exists (INode i kds). split; [reflexivity|]. split; [reflexivity|].
  assert (Hs2 : skel w2 i = Some (parent, [])) by (rewrite (skel_some _ _ _ Hn); reflexivity).
  split.
  { eapply (core_upd_kids w2 _ i parent [] (elems items)); [exact C2|apply upd1_wset|exact Hs2|apply skel_wset_eq|exact ND2|].
    intros c Hc. right. apply K2. auto. }
  rewrite next_wset, roots_wset. split; [lia|]. split; [rewrite R2; reflexivity|].
  split.
  { intros j Hj. rewrite nodes_wset_neq by lia. rewrite F2 by lia. apply nodes_walloc_old. lia. }
  split.
  { exists (set_content n0 items). split; [apply nodes_wset_eq|reflexivity]. }
  intros c p Hc Hp. assert (Hp2 : par w2 c p).
  { destruct Hp as (nc & Hnc & Hpc). rewrite nodes_wset_neq in Hnc by lia. exists nc. auto. }
  destruct (Cl2 c p ltac:(lia) Hp2); lia.
Qed.

Lemma killedb_old from keep w j : j < from -> killedb from keep w j = false.
Proof. intros H. unfold killedb. apply N.leb_gt in H. rewrite H. reflexivity. Qed.
Lemma killedb_kept from keep w j : In j keep -> killedb from keep w j = false.
Proof. intros H. unfold killedb. apply inb_in in H. rewrite H. cbn. apply andb_false_r. Qed.
Lemma killedb_true from keep w j : killedb from keep w j = true <-> (from <= j /\ j < w_next w /\ ~ In j keep).
Proof.
  unfold killedb. rewrite !andb_true_iff, N.leb_le, N.ltb_lt, negb_true_iff, inb_notin. tauto.
Qed.
Lemma killedb_false from keep w j : killedb from keep w j = false -> j < from \/ w_next w <= j \/ In j keep.
Proof.
  intros H. destruct (N.lt_ge_cases j from); auto. destruct (N.lt_ge_cases j (w_next w)); auto.
  right. right. destruct (in_dec N.eq_dec j keep); auto. exfalso.
  assert (killedb from keep w j = true) by (apply killedb_true; auto). congruence.
Qed.

(* Depth does not distinguish the two kinds of top *)
Lemma depth_transfer_top w w' :
  (forall x n, w_nodes w x = Some n -> exists n', w_nodes w' x = Some n' /\
     (n_parent n' = n_parent n \/ ((forall p, n_parent n <> PElem p) /\ (forall p, n_parent n' <> PElem p)))) ->
  forall x h, Depth w x h -> Depth w' x h.
Proof.
  intros Hp x h H. induction H as [x n Hn Ht | x n p h Hn Hpp Hd IH].
  - destruct (Hp _ _ Hn) as (n' & Hn' & [E|(_ & E)]); eapply D_top; eauto. rewrite E. auto.
  - destruct (Hp _ _ Hn) as (n' & Hn' & [E|(E & _)]); [|exfalso; eapply E; eauto].
    eapply D_step; eauto. congruence.
Qed.
