(* Tree/NoPanicProofsHistEx.v — C12: non-vacuity of the history theorem on the regenerated tables.  A history with a
   Float handed to set_character_data of a SHORT-NAME element (string-typed: check_value rejects the Float, the printed
   text is validated and stored — the path on which Tree/Ops.v says UNMODELLED) satisfies wf_ops, so
   no_panic_histories_real applies; with the oracle fmt _ = "x1" the package is renamed to x1. *)
From Coq Require Import Lia.
From AV Require Import Base.Bytes Base.Outcome Hash.HashModel Spec.SpecOps Spec.SpecReal Xml.TablesOk
  Tree.Heap Tree.Ops Tree.Script Tree.Inv Tree.SortProofsReal.
From AV Require Import Hash.HashRealElement Hash.HashRealAttr Hash.HashRealEnum.
From AV Require Import Tree.NoPanic Tree.NoPanicProofsCopy2 Tree.NoPanicFloat Tree.NoPanicProofsHist Tree.NoPanicProofsHistReal.
Open Scope list_scope.
Open Scope N_scope.

Definition ex_fmt (b : N) : list N := [120; 49].          (* "x1" *)
Definition ex_hist : list op :=
  [ OpNewModel; OpCreateFile 0 [102] 1048576;
    OpCreateSub 0 5413;                     (* AR-PACKAGES        -> node 1 *)
    OpCreateNamed 1 5250 [113];             (* AR-PACKAGE "q"     -> node 2 (SHORT-NAME 3) *)
    OpSetCData 3 (DFloat 0) ].              (* SHORT-NAME := 0.0.to_string() *)

Notation wf_ex := (wf_ops RT tab_element tab_enum nv_check 1048576 [] ex_fmt).
Notation run_ex := (run_opsF RT tab_element tab_enum nv_check 1048576 [] ex_fmt).

Ltac size_ok := let y := fresh "y" in let Hy := fresh "Hy" in intros y Hy; repeat (destruct Hy as [<-|Hy]; [vm_compute; reflexivity|]); destruct Hy.
Ltac wf_step :=
  cbn [wf_ops]; split; [vm_compute; repeat split; try reflexivity; try discriminate|split; [size_ok|]];
  let x := fresh "x" in let w' := fresh "w" in let E := fresh "E" in
  intros x w' E; vm_compute in E; injection E as _ <-.

Example ex_wf : wf_ex ex_hist empty_world.
Proof.
  unfold ex_hist. wf_step. wf_step. wf_step. wf_step. wf_step. exact I.
Qed.

Example ex_runs : exists w', run_ex ex_hist empty_world = Val w' /\
  option_map n_content (w_nodes w' 3) = Some [CData (DString [120; 49])].
Proof.
  destruct (no_panic_histories_real nv_check 1048576 [] ex_fmt (fun fn s => ex_intro _ true eq_refl)
              (fun a (F : In a []) => match F with end) ex_hist ex_wf) as (w' & E).
  exists w'. split; [exact E|]. vm_compute in E. injection E as <-. vm_compute. reflexivity.
Qed.
