(* Tree/CompatHist9b.v — load_parsed / m_load_buffer keep J3 = Bounded /\ TypedU /\ PM (statement: see Tree/CompatHist9.v). *)
From Coq Require Import PeanoNat Arith Lia.
From AV Require Import Base.Bytes Base.Outcome Hash.HashModel Spec.SpecOps Tree.Heap Tree.Ops Tree.Script Tree.Inv
  Tree.InvProofsBase Tree.InvProofsCore Tree.InvProofsPrim Tree.InvProofsLoadBase Tree.Load
  Tree.Compat Tree.CompatSpec Tree.CompatTyped Tree.CompatProofs8 Tree.CompatFrame Tree.CompatFrameOps
  Tree.CompatHist1 Tree.CompatPM Tree.CompatPMOps Tree.CompatHist7 Tree.CompatHist8 Tree.CompatHist9.
From AV Require Xml.Parser Xml.StrictValidDef Xml.LoadRecords.
Open Scope string_scope.
Open Scope list_scope.
Open Scope N_scope.

Section LoadJ.
Variable T : tables.
Variable tab_el tab_at tab_en : nametab.
Variable check_fn : N -> list N -> res bool.
Variable float_parse : list N -> option N.
Variable LATEST : N.
Variable name_definition_ref : N.

Notation merge_ok := (merge_ok T LATEST name_definition_ref).

Theorem load_parsed_j3 m filename root st w r w' :
  first_file w m \/ merge_ok ->
  Core w -> J3 T w -> LoadRecords.linked T root -> et_new T (autosar_element T) = Val (StrictValidDef.e_type root) ->
  load_parsed T LATEST name_definition_ref m filename root st w = Val (r, w') -> J3 T w'.
Proof.
  intros Hmode C (B & HT & P) HL Hroot H. unfold load_parsed in H.
  apply wbind_inv in H as [(w0 & wx & H1 & H) | (e & H1 & _)]; apply wget_inv in H1 as (E1 & ->); [|discriminate E1].
  injection E1 as ->.
  apply wbind_inv in H as [(t & w1 & H1 & H) | (e & H1 & _)].
  2:{ destruct (install_typed T root HL PNone w _ _ ltac:(intros ? ?; discriminate) H1 B HT) as (_ & _ & _ & _ & t & [=] & _). }
  destruct (install_typed T root HL PNone w _ _ ltac:(intros ? ?; discriminate) H1 B HT)
    as (B1 & T1 & F1 & E1 & t' & [= <-] & Eid & L1 & nr & Hnr & Nnr & Tnr & Pnr).
  pose proof (Fp_pm T w w1 F1 P) as P1.
  apply wbind_inv in H as [(w1' & wx & H2 & H) | (e & H2 & _)]; apply wget_inv in H2 as (E2 & ->); [|discriminate E2].
  injection E2 as ->.
  apply wbind_inv in H as [(x0 & wx & H2 & H) | (e & H2 & _)]; apply get_model_inv in H2 as (x0' & Hx0 & E2 & ->); [|discriminate E2].
  injection E2 as <-.
  apply wbind_inv in H as [(ov & wx & H2 & H) | (e & H2 & _)]; apply wlift_inv in H2 as (ov' & _ & E2 & ->); [|discriminate E2].
  injection E2 as <-.
  destruct ov; [exact (overlap_j3p T _ _ _ _ H (conj B1 (conj T1 P1)))|].
  apply wbind_inv in H as [(u & w2 & H2 & H) | (e & H2 & _)]; [|discriminate H2].
  unfold wput in H2. injection H2 as _ <-.
  match type of H with _ ?ww = _ => set (w2 := ww) in * end.
  assert (J2 : J3 T w2) by (apply (j3_same_nodes T w1 w2); [reflexivity|reflexivity|exact (conj B1 (conj T1 P1))]).
  assert (Hnr2 : w_nodes w2 (w_next w) = Some nr) by exact Hnr.
  apply wbind_inv in H as [(x & wx & H2 & H) | (e & H2 & _)]; apply get_model_inv in H2 as (x' & Hx & E2 & ->); [|discriminate E2].
  injection E2 as <-.
  apply wbind_inv in H as [(rr & w3 & H2 & H) | (e & H2 & _)]; [|apply wcatch_inv in H2 as (? & _ & [=])].
  apply wcatch_inv in H2 as (r0 & H2 & [= ->]).
  apply (tail_j3p T _ _ _ r0 _ _ _ H). clear H.
  rewrite Eid in H2.
  assert (Hroot' : et_new T (autosar_element T) = Val (n_type nr)) by (rewrite Tnr; exact Hroot).
  apply wbind_inv in H2 as [(u1 & w4 & H3 & H4) | (e & H3 & _)]; [apply (rest_j3p T _ _ _ _ _ _ _ _ H4)|]; clear Hroot.
  all: destruct (is_empty (m_files x)) eqn:Eemp; [exact (first_j3 T m _ _ nr _ _ _ Hroot' H3 J2 Hnr2)|].
  (* merge *)
  all: assert (Hxw : nth_opt (w_models w) (N.to_nat m) = Some x) by (destruct E1 as (_ & _ & <-); exact Hx).
  all: destruct Hmode as [Hfirst|Hmerge]; [rewrite (Hfirst x Hxw) in Eemp; discriminate Eemp|].
  all: assert (Hcond : forall x' na nb, nth_opt (w_models w2) (N.to_nat m) = Some x' -> w_nodes w2 (m_root x') = Some na ->
                         w_nodes w2 (w_next w) = Some nb -> n_type na = n_type nb).
  1,3: (intros x' na nb Hx' Hna Hnb; assert (x' = x) by congruence; subst x'; assert (nb = nr) by congruence; subst nb;
        rewrite nth_opt_err in Hxw;
        assert (Hk : nth_error (roots w) (N.to_nat m) = Some (m_root x)) by (unfold roots; rewrite nth_error_map, Hxw; reflexivity);
        destruct (c_roots w C _ _ Hk) as (n0 & Hn0 & Hp0);
        assert (Hlt : m_root x < w_next w) by (destruct B as (X & _); exact (X _ _ Hn0));
        assert (na = n0) by (cbn [w2 w_nodes] in Hna; rewrite (ext2_old _ _ _ E1) in Hna by exact Hlt; congruence); subst na;
        pose proof (P _ _ _ Hn0 Hp0) as Ety; rewrite Hroot' in Ety; congruence).
  all: apply wbind_inv in H3 as [(mr & w5 & Hc & Hk) | (e' & Hc & _)]; [|apply wcatch_inv in Hc as (? & _ & [=])].
  all: apply wcatch_inv in Hc as (r1 & Hc & [= ->]).
  all: destruct J2 as (B2 & T2 & P2).
  all: destruct (Hmerge m _ _ w2 r1 w5 Hcond Hc B2 T2) as (B5 & T5 & F5).
  all: pose proof (Fp_pm T w2 w5 F5 P2) as P5.
  all: destruct r1 as [u5|e5]; [apply wret_inv in Hk as (_ & ->); exact (conj B5 (conj T5 P5))|].
  all: revert Hk; match goal with |- ?k ?ww = _ -> _ => assert (HK : J3P T k) end.
  1,3: (apply J3P_frame; intros wb; [pose proof (frp_remove_from_file T wb) as HR; fr_go|pose proof (fpp_remove_from_file T wb) as HR; fp_go]).
  all: intros Hk; exact (HK _ _ _ Hk (conj B5 (conj T5 P5))).
Qed.

(* AutosarModel::load_buffer *)
Theorem load_buffer_j3 m buffer filename strict w r w' :
  first_file w m \/ merge_ok ->
  Core w -> J3 T w ->
  m_load_buffer T tab_el tab_at tab_en check_fn float_parse LATEST name_definition_ref m buffer filename strict w = Val (r, w') ->
  J3 T w'.
Proof.
  intros Hmode C J H. unfold m_load_buffer in H.
  apply wbind_inv in H as [(x & wx & H1 & H) | (e & H1 & _)]; apply get_model_inv in H1 as (x' & Hx & E1 & ->); [|discriminate E1].
  injection E1 as <-.
  apply wbind_inv in H as [(w0 & wx & H1 & H) | (e & H1 & _)]; apply wget_inv in H1 as (E1 & ->); [|discriminate E1].
  injection E1 as ->.
  destruct (existsb _ (m_files x)); [apply wfail_inv in H as (_ & ->); exact J|].
  destruct (Parser.load strict T tab_el tab_at tab_en check_fn float_parse buffer) as [[root st|er st]| |] eqn:EL; try discriminate H.
  - destruct (LoadRecords.load_records T tab_el tab_at tab_en check_fn float_parse strict buffer root st EL) as (_ & _ & HL & Hroot).
    apply wbind_inv in H as [(f & w1 & H1 & H2) | (e & H1 & _)].
    + apply wret_inv in H2 as (_ & ->). exact (load_parsed_j3 m filename root st w _ _ Hmode C J HL Hroot H1).
    + exact (load_parsed_j3 m filename root st w _ _ Hmode C J HL Hroot H1).
  - apply wfail_inv in H as (_ & ->). exact J.
Qed.

End LoadJ.
