(* Tree/FollowProofsLoad.v — C06 after a load, layer 1: the structural part of Inv06D holds after EVERY load outside
   agent-c03's classes.
     treeinvL_treefactsL     C03's TreeInvL (Core /\ NoOrphanP: the tree invariant without RootsOnly) gives TreeFactsL
     TreeFactsL_after_load   RealInvL is kept by m_load_buffer (agent-c03, Tree/InvProofsOp2Live.v RealInvL_load: any
                             load that is not rejected with InvalidFileMerge and is outside Known_load_shared), hence
                             TreeFactsL holds afterwards - first loads (stale root) and merging loads alike *)
From AV Require Import Base.Bytes Base.Outcome Hash.HashModel Tree.Heap Tree.Ops Tree.Script Tree.Inv Tree.InvProofs
  Tree.Index Tree.IndexProofsBase Tree.IndexProofsBridge Tree.InvEBase Tree.InvProofsLoadLive Tree.InvProofsOp2Live
  Tree.Load Tree.Script2 Tree.InvLoad Tree.Follow Tree.FollowL.
From AV Require Xml.Parser Xml.TablesOk.
Open Scope string_scope.
Open Scope list_scope.
Open Scope N_scope.

Theorem treeinvL_treefactsL w : TreeInvL w -> TreeFactsL w.
Proof.
  intros (HC & HO). constructor.
  - intros p c (n & Hn & Hc). destruct (c_up _ HC p c) as (cn & Hcn & Hp); [|eauto].
    exists n. split; [exact Hn|]. apply in_elems_ids. exact Hc.
  - intros p n Hn. exact (c_nodup _ HC p n Hn).
  - intros c cn p Hcn Hp. destruct (HO c p) as (n & Hn & Hc); [exists cn; auto|].
    exists n. split; [exact Hn|]. apply in_elems_ids. exact Hc.
  - intros m x Hx. unfold model_at in Hx. rewrite nth_opt_nth_error in Hx.
    destruct (c_roots _ HC (N.to_nat m) (m_root x)) as (n & Hn & Hp).
    { unfold roots. rewrite nth_error_map, Hx. reflexivity. }
    rewrite N2Nat.id in Hp. eauto.
  - intros i n Hn. destruct (c_depth _ HC i) as (h & Hd); [exists n; exact Hn|]. exists h. apply depth_pdepth. exact Hd.
  - intros i n Hn. apply (c_alloc _ HC i). exists n. exact Hn.
Qed.

Section AfterLoad.
Variable T : tables.
Variable tab_el tab_at tab_en : nametab.
Variable check_fn : N -> list N -> res bool.
Variable float_parse : list N -> option N.
Variable LATEST name_definition_ref : N.

Theorem TreeFactsL_after_load m buffer filename strict w r w' :
  TablesOk.tables_ok T = true -> RealInvL T w ->
  Known_load_shared T tab_el tab_at tab_en check_fn float_parse LATEST name_definition_ref w (OpLoad m buffer filename strict) = false ->
  r <> ER InvalidFileMerge ->
  m_load_buffer T tab_el tab_at tab_en check_fn float_parse LATEST name_definition_ref m buffer filename strict w = Val (r, w') ->
  RealInvL T w' /\ TreeFactsL w'.
Proof.
  intros OK I Hs Hr H.
  pose proof (RealInvL_load T tab_el tab_at tab_en check_fn float_parse LATEST name_definition_ref m buffer filename strict w r w' OK I Hs Hr H) as I'.
  split; [exact I'|]. apply treeinvL_treefactsL. exact (proj1 I').
Qed.

End AfterLoad.
