(* Tree/RangeProofsNamed.v — C07: create_named_sub_element[_at] succeeds exactly when the position lies in the range, the
   item name is non-empty and accepted by the SHORT-NAME specification of the new type, the path is free, the type is named in
   the version and the parent is live; and what a successful call does to the parent's child list. *)
From Coq Require Import Arith.
From AV Require Import Base.Bytes Base.Outcome Hash.HashModel Spec.SpecOps Tree.Heap Tree.Ops Tree.Script Tree.Inv Tree.InvProofsBase
  Tree.Range Tree.RangeProofsPath Tree.SpecWF Tree.RangeProofsLoop Tree.RangeProofsCalc Tree.RangeProofsOps.
Open Scope list_scope.
Open Scope N_scope.

Section Named.
Variable T : tables.
Variable check_fn : N -> list N -> res bool.
Variable LATEST : N.
Hypothesis WF : SpecWF T.

Notation SHORTN := (name_short_name T).

(* the type found by a lookup belongs to an element definition with the requested name *)
Lemma find_sub_def fuel : forall ty target v et ix,
  find_sub T fuel ty target v = Val (Some (et, ix)) ->
  exists def e, elem T def = Val e /\ et = (def, ed_type e) /\ ed_name e = target.
Proof.
  induction fuel as [|fuel IH]; intros ty target v et ix; cbn [find_sub]; [discriminate|].
  destruct (sub_slice T ty) as [[[start stop] d]| |] eqn:ES; cbn [bind]; try discriminate.
  match goal with
  | |- ?f ?k0 0 = _ -> _ =>
    assert (G : forall k pos, f k pos = Val (Some (et, ix)) -> exists def e, elem T def = Val e /\ et = (def, ed_type e) /\ ed_name e = target);
      [| apply G]
  end.
  induction k as [|k IHk]; intros pos; [discriminate|].
  destruct (subel T (start + pos)) as [[kind idx]| |] eqn:ESub; cbn [bind]; try discriminate.
  destruct (kind =? 0) eqn:EK.
  - destruct (elem T idx) as [e| |] eqn:EE; cbn [bind]; try discriminate.
    destruct (vinfo T (dt_sub_ver d + pos)) as [mask| |] eqn:EV; cbn [bind]; try discriminate.
    destruct ((ed_name e =? target) && negb (N.land v mask =? 0)) eqn:EM.
    + unfold et_new. rewrite EE. cbn [bind]. intros [= <- <-].
      apply andb_true_iff in EM as [EM _]. apply N.eqb_eq in EM. exists idx, e. auto.
    + apply IHk.
  - destruct (find_sub T fuel idx target v) as [[[et' ixs]|]| |] eqn:EF; try discriminate.
    + intros [= <- <-]. eapply IH; eauto.
    + apply IHk.
Qed.

(* a SHORT-NAME has a character type and is not itself named *)
Lemma short_type_facts et v se six :
  find_sub_element T et SHORTN v = Val (Some (se, six)) ->
  content_mode T se = Val MCharacters /\ is_named_in_version T se v = Val false.
Proof.
  intros H. unfold find_sub_element in H. apply find_sub_def in H as (def & e & He & -> & Hn).
  destruct (wf_short_name_chars T WF _ _ He Hn) as (d & Hd & Hm & Hb). cbn [snd].
  pose proof (wf_chars_empty T WF _ _ Hd Hm) as Hse.
  unfold content_mode. cbn [snd]. rewrite Hd. cbn [bind]. rewrite Hm. split; [reflexivity|].
  unfold is_named_in_version, short_name_version_mask, sub_slice. cbn [snd]. rewrite Hd. cbn [bind].
  unfold slice_chk. rewrite Hse.
  replace (dt_sub_end d <? dt_sub_end d) with false by (symmetry; apply N.ltb_ge; lia).
  replace (n_subelements T <? dt_sub_end d) with false by (symmetry; apply N.ltb_ge; lia).
  cbn [orb bind]. rewrite N.eqb_refl. reflexivity.
Qed.

(* a type that is named in some version has sub-elements, hence is not a character type *)
Lemma named_not_chars et v : is_named_in_version T et v = Val true ->
  exists d, dt T (snd et) = Val d /\ dt_mode d <> MCharacters.
Proof.
  unfold is_named_in_version, short_name_version_mask, sub_slice.
  destruct (dt T (snd et)) as [d| |] eqn:Hd; cbn [bind]; try discriminate.
  destruct (slice_chk _ _ _ _); cbn [bind]; try discriminate.
  destruct (dt_sub_start d =? dt_sub_end d) eqn:E; [discriminate|].
  intros _. exists d. split; [reflexivity|]. intros Hm. apply N.eqb_neq in E. apply E. eapply wf_chars_empty; eauto.
Qed.

(* the range of any resolvable name in an element without content is (0, 0) *)
Lemma calc_empty nd name v w et ix :
  n_content nd = [] -> (exists d, dt T (snd (n_type nd)) = Val d /\ dt_mode d <> MCharacters) ->
  find_sub_element T (n_type nd) name v = Val (Some (et, ix)) ->
  calc_element_insert_range T nd name v w = Val (OK (0, 0), w).
Proof.
  intros Hc (d & Hd & Hm) Hf. unfold calc_element_insert_range, content_mode, wbind, wl, wlift.
  rewrite Hd. cbn [bind]. apply N.eqb_neq in Hm. rewrite Hm, Hf, Hc. cbn [List.length N.of_nat range_loop].
  destruct ((dt_mode d =? MBag) || (dt_mode d =? MMixed)); reflexivity.
Qed.

(* ------------------------------------------------------------------ the successful run, forwards *)
Definition named_post (w : world) (h : id) (n : node) (name pos : N) (w' : world) : Prop :=
  w_nodes w' h = Some (set_content n (insert_at (n_content n) (N.to_nat pos) (CElem (w_next w)))) /\
  (exists nc, w_nodes w' (w_next w) = Some nc /\ n_name nc = name) /\
  (forall i cn, w_nodes w i = Some cn -> i <> h -> w_nodes w' i = Some cn) /\
  w_files w' = w_files w.

Lemma create_named_inner_ok h n name item pos m v w et ix se six cs pp x :
  w_nodes w h = Some n -> w_nodes w (w_next w) = None -> w_nodes w (w_next w + 1) = None ->
  item <> [] ->
  find_sub_element T (n_type n) name v = Val (Some (et, ix)) ->
  is_named_in_version T et v = Val true ->
  find_sub_element T et SHORTN v = Val (Some (se, six)) ->
  chardata_spec T se = Val (Some cs) -> check_value check_fn (DString item) cs v = Val true ->
  path_unchecked T n w = Val (OK pp, w) ->
  nth_opt (w_models w) (N.to_nat m) = Some x -> assoc_get (pp ++ [47] ++ item) (m_idents x) = None ->
  pos <= N.of_nat (List.length (n_content n)) ->
  exists w', create_named_sub_element_inner T check_fn h name item pos m v w = Val (OK (w_next w), w') /\
             named_post w h n name pos w'.
Proof.
  intros Hn Hf1 Hf2 Hitem Hfind Hnv Hshort Hcs Hck Hpath Hm Hfree Hpos.
  assert (Hh1 : (h =? w_next w) = false) by (apply N.eqb_neq; intros E; rewrite <- E in Hf1; congruence).
  assert (Hh2 : (h =? w_next w + 1) = false) by (apply N.eqb_neq; intros E; rewrite <- E in Hf2; congruence).
  destruct (short_type_facts _ _ _ _ Hshort) as (Hsm & Hsn).
  pose proof (named_not_chars _ _ Hnv) as Hnc.
  unfold create_named_sub_element_inner. unfold SHORT.
  destruct item as [|i0 item']; [congruence|]. cbn [is_empty].
  unfold wbind at 1. unfold get_node at 1. rewrite Hn.
  unfold wbind at 1. unfold wl at 1, wlift. rewrite Hfind.
  unfold wbind at 1. unfold wl at 1, wlift. rewrite Hnv. cbn [negb].
  unfold wbind at 1. unfold wl at 1, wlift. rewrite Hshort.
  unfold wbind at 1. unfold wbind at 1. unfold wl at 1, wlift. rewrite Hcs.
  unfold wl at 1, wlift. rewrite Hck. cbn [negb].
  unfold wbind at 1. rewrite Hpath.
  unfold wbind at 1. unfold get_element_by_path, wbind at 1, get_model. rewrite Hm. unfold wret at 1. cbn beta iota.
  rewrite Hfree.
  (* alloc c *)
  unfold wbind at 1. unfold alloc at 1.
  set (c := w_next w).
  set (w1 := mkWorld (upd (w_nodes w) c (new_node (PElem h) name et)) (c + 1) (w_files w) (w_models w)).
  (* content_insert h pos (CElem c) *)
  unfold wbind at 1. unfold content_insert, wbind at 1, get_node at 1.
  assert (E1 : w_nodes w1 h = Some n) by (unfold w1; cbn [w_nodes]; unfold upd; fold c in Hh1; rewrite Hh1; exact Hn).
  rewrite E1.
  replace (N.of_nat (List.length (n_content n)) <? pos) with false by (symmetry; apply N.ltb_ge; exact Hpos).
  unfold set_node at 1.
  set (w2 := mkWorld (upd (w_nodes w1) h (set_content n (insert_at (n_content n) (N.to_nat pos) (CElem c)))) (w_next w1) (w_files w1) (w_models w1)).
  (* raw_create_sub_element c SHORT v *)
  unfold wbind at 1. unfold raw_create_sub_element, wbind at 1, get_node at 1.
  assert (E2 : w_nodes w2 c = Some (new_node (PElem h) name et)).
  { unfold w2, w1. cbn [w_nodes]. unfold upd. rewrite (N.eqb_sym c h). fold c in Hh1. rewrite Hh1, N.eqb_refl. reflexivity. }
  rewrite E2.
  unfold wbind at 1.
  rewrite (calc_empty (new_node (PElem h) name et) SHORTN v w2 se six eq_refl Hnc Hshort).
  unfold create_sub_element_inner, wbind at 1, get_node at 1. rewrite E2.
  unfold wbind at 1. unfold wl at 1, wlift. cbn [n_type new_node]. rewrite Hshort.
  unfold wbind at 1. unfold wl at 1, wlift. rewrite Hsn.
  unfold wbind at 1. unfold alloc at 1.
  set (s := w_next w2).
  set (w3 := mkWorld (upd (w_nodes w2) s (new_node (PElem c) SHORTN se)) (s + 1) (w_files w2) (w_models w2)).
  unfold wbind at 1. unfold content_insert, wbind at 1, get_node at 1.
  assert (Es : s = c + 1) by reflexivity.
  assert (E3 : w_nodes w3 c = Some (new_node (PElem h) name et)).
  { unfold w3. cbn [w_nodes]. unfold upd. replace (c =? s) with false by (symmetry; apply N.eqb_neq; lia). exact E2. }
  rewrite E3. cbn [n_content new_node List.length N.of_nat]. replace (0 <? 0) with false by reflexivity.
  unfold set_node at 1.
  set (w4 := mkWorld (upd (w_nodes w3) c (set_content (new_node (PElem h) name et) (insert_at [] (N.to_nat 0) (CElem s)))) (w_next w3) (w_files w3) (w_models w3)).
  unfold wret at 1. cbn beta iota.
  (* wtry (raw_set_character_data s ..) *)
  unfold wbind at 1. unfold wtry, raw_set_character_data, wbind at 1, get_node at 1.
  assert (E4 : w_nodes w4 s = Some (new_node (PElem c) SHORTN se)).
  { unfold w4, w3. cbn [w_nodes]. unfold upd. replace (s =? c) with false by (symmetry; apply N.eqb_neq; lia). rewrite N.eqb_refl. reflexivity. }
  rewrite E4.
  unfold wbind at 1. unfold wl at 1, wlift. cbn [n_type new_node]. rewrite Hsm.
  change (MCharacters =? MCharacters) with true. cbn [orb].
  unfold wbind at 1. unfold wl at 1, wlift. rewrite Hcs.
  unfold wbind at 1. unfold wl at 1, wlift. rewrite Hck.
  unfold set_node at 1. cbn [n_content new_node].
  set (w5 := mkWorld (upd (w_nodes w4) s (set_content (new_node (PElem c) SHORTN se) [CData (DString (i0 :: item'))])) (w_next w4) (w_files w4) (w_models w4)).
  (* add_identifiable *)
  unfold wbind at 1. unfold add_identifiable, modify_model, wbind at 1, get_model.
  assert (E5 : nth_opt (w_models w5) (N.to_nat m) = Some x) by exact Hm.
  rewrite E5. unfold set_model, wret.
  eexists. split; [reflexivity|].
  unfold named_post. cbn [w_nodes w_files].
  split.
  { unfold w5, w4, w3, w2. cbn [w_nodes]. unfold upd.
    replace (h =? s) with false by (symmetry; rewrite Es; exact Hh2).
    fold c in Hh1. rewrite Hh1, N.eqb_refl. reflexivity. }
  split.
  { assert (Hcs' : (w_next w =? s) = false) by (apply N.eqb_neq; rewrite Es; unfold c; lia).
    eexists. unfold w5, w4. cbn [w_nodes]. unfold upd. fold c. fold c in Hcs'. rewrite Hcs', N.eqb_refl.
    split; [reflexivity|reflexivity]. }
  split; [|reflexivity].
  intros i cn Hi Hih. unfold w5, w4, w3, w2, w1. cbn [w_nodes]. unfold upd.
  assert (i <> c) by (intros ->; unfold c in Hi; congruence).
  assert (i <> s) by (intros ->; rewrite Es in Hi; unfold c in Hi; congruence).
  repeat match goal with |- context [i =? ?k] => replace (i =? k) with false by (symmetry; apply N.eqb_neq; assumption) end.
  exact Hi.
Qed.

(* ------------------------------------------------------------------ the successful run, backwards *)
Definition named_conditions (w : world) (n : node) (name : N) (item : list N) (m v : N) : Prop :=
  item <> [] /\
  exists et ix se six cs pp x,
    find_sub_element T (n_type n) name v = Val (Some (et, ix)) /\
    is_named_in_version T et v = Val true /\
    find_sub_element T et SHORTN v = Val (Some (se, six)) /\
    chardata_spec T se = Val (Some cs) /\ check_value check_fn (DString item) cs v = Val true /\
    path_unchecked T n w = Val (OK pp, w) /\
    nth_opt (w_models w) (N.to_nat m) = Some x /\ assoc_get (pp ++ [47] ++ item) (m_idents x) = None.

Lemma create_named_inner_inv h n name item pos m v w c w' :
  w_nodes w h = Some n ->
  create_named_sub_element_inner T check_fn h name item pos m v w = Val (OK c, w') ->
  named_conditions w n name item m v.
Proof.
  intros Hn H. unfold create_named_sub_element_inner in H. unfold SHORT in H.
  destruct item as [|i0 item']; [discriminate|]. cbn [is_empty] in H.
  split; [discriminate|].
  unfold wbind at 1 in H. unfold get_node at 1 in H. rewrite Hn in H.
  unfold wbind at 1 in H. unfold wl at 1, wlift in H.
  destruct (find_sub_element T (n_type n) name v) as [[[et ix]|]| |] eqn:EF; try discriminate.
  unfold wbind at 1 in H. unfold wl at 1, wlift in H.
  destruct (is_named_in_version T et v) as [[|]| |] eqn:ENV; try discriminate. cbn [negb] in H.
  unfold wbind at 1 in H. unfold wl at 1, wlift in H.
  destruct (find_sub_element T et SHORTN v) as [[[se six]|]| |] eqn:ES; try discriminate.
  unfold wbind at 1 in H. unfold wbind at 1 in H. unfold wl at 1, wlift in H.
  destruct (chardata_spec T se) as [[cs|]| |] eqn:ECS; try discriminate.
  unfold wl at 1, wlift in H.
  destruct (check_value check_fn (DString (i0 :: item')) cs v) as [[|]| |] eqn:ECK; try discriminate. cbn [negb] in H.
  unfold wbind at 1 in H.
  destruct (path_unchecked T n w) as [[[pp|er] w1]| |] eqn:EP; try discriminate.
  pose proof (ro_path_unchecked T n _ _ _ EP) as ->.
  unfold wbind at 1 in H. unfold get_element_by_path, wbind at 1, get_model in H.
  destruct (nth_opt (w_models w) (N.to_nat m)) as [x|] eqn:EM; try discriminate.
  unfold wret at 1 in H. cbn beta iota in H.
  destruct (assoc_get (pp ++ [47] ++ i0 :: item') (m_idents x)) as [ex|] eqn:EA; [discriminate|].
  exists et, ix, se, six, cs, pp, x. auto 10.
Qed.

(* ------------------------------------------------------------------ the public calls *)
Lemma named_at_unfold h n m v name item pos w :
  w_nodes w h = Some n -> model_of h w = Val (OK m, w) -> min_version LATEST h w = Val (OK v, w) ->
  e_create_named_sub_element_at T check_fn LATEST h name item pos w =
  match calc_element_insert_range T n name v w with
  | Val (OK (s, e), w1) =>
    if (s <=? pos) && (pos <=? e) then create_named_sub_element_inner T check_fn h name item pos m v w1
    else Val (ER InvalidPosition, w1)
  | Val (ER er, w1) => Val (ER er, w1)
  | Pan st => Pan st
  | Fuel => Fuel
  end.
Proof.
  intros Hn Hm Hv. unfold e_create_named_sub_element_at, wbind. rewrite Hm, Hv.
  unfold raw_create_named_sub_element_at, wbind, get_node. rewrite Hn.
  destruct (calc_element_insert_range T n name v w) as [[[[s e]|er] w1]| |]; try reflexivity.
  destruct ((s <=? pos) && (pos <=? e)); reflexivity.
Qed.

Lemma named_default_unfold h n m v name item w :
  w_nodes w h = Some n -> model_of h w = Val (OK m, w) -> min_version LATEST h w = Val (OK v, w) ->
  e_create_named_sub_element T check_fn LATEST h name item w =
  match calc_element_insert_range T n name v w with
  | Val (OK (s, e), w1) => create_named_sub_element_inner T check_fn h name item e m v w1
  | Val (ER er, w1) => Val (ER er, w1)
  | Pan st => Pan st
  | Fuel => Fuel
  end.
Proof.
  intros Hn Hm Hv. unfold e_create_named_sub_element, wbind. rewrite Hm, Hv.
  unfold raw_create_named_sub_element, wbind, get_node. rewrite Hn.
  destruct (calc_element_insert_range T n name v w) as [[[[s e]|er] w1]| |]; reflexivity.
Qed.

Theorem create_named_iff h n m v name item pos w lo hi w1 :
  w_nodes w h = Some n -> w_nodes w (w_next w) = None -> w_nodes w (w_next w + 1) = None ->
  model_of h w = Val (OK m, w) -> min_version LATEST h w = Val (OK v, w) ->
  calc_element_insert_range T n name v w = Val (OK (lo, hi), w1) ->
  ((exists c w', e_create_named_sub_element_at T check_fn LATEST h name item pos w = Val (OK c, w')) <->
   lo <= pos <= hi /\ named_conditions w n name item m v).
Proof.
  intros Hn Hf1 Hf2 Hm Hv EC. pose proof (calc_bound T _ _ _ _ _ _ _ EC) as Hb.
  pose proof (calc_ro T _ _ _ _ _ _ EC) as ->.
  rewrite (named_at_unfold h n m v name item pos w Hn Hm Hv), EC. split.
  - intros (c & w' & H).
    destruct ((lo <=? pos) && (pos <=? hi)) eqn:EP; [|discriminate].
    apply andb_true_iff in EP as [E1 E2]. apply N.leb_le in E1. apply N.leb_le in E2.
    split; [lia|]. eapply create_named_inner_inv; eauto.
  - intros (Hp & Hitem & et & ix & se & six & cs & pp & x & EF & ENV & ES & ECS & ECK & EP & EM & EA).
    replace ((lo <=? pos) && (pos <=? hi)) with true by (symmetry; apply andb_true_iff; split; apply N.leb_le; lia).
    assert (Hpos : pos <= N.of_nat (List.length (n_content n))) by lia.
    destruct (create_named_inner_ok h n name item pos m v w et ix se six cs pp x Hn Hf1 Hf2 Hitem EF ENV ES ECS ECK EP EM EA Hpos)
      as (w' & H & _). eauto.
Qed.

(* what success does *)
Lemma create_named_at_effect h n m v name item pos w c w' :
  w_nodes w h = Some n -> w_nodes w (w_next w) = None -> w_nodes w (w_next w + 1) = None ->
  model_of h w = Val (OK m, w) -> min_version LATEST h w = Val (OK v, w) ->
  e_create_named_sub_element_at T check_fn LATEST h name item pos w = Val (OK c, w') ->
  exists lo hi, calc_element_insert_range T n name v w = Val (OK (lo, hi), w) /\ lo <= pos <= hi /\
                c = w_next w /\ named_post w h n name pos w'.
Proof.
  intros Hn Hf1 Hf2 Hm Hv H. rewrite (named_at_unfold h n m v name item pos w Hn Hm Hv) in H.
  destruct (calc_element_insert_range T n name v w) as [[[[lo hi]|er] w1]| |] eqn:EC; try discriminate.
  pose proof (calc_bound T _ _ _ _ _ _ _ EC) as Hb. pose proof (calc_ro T _ _ _ _ _ _ EC) as ->.
  destruct ((lo <=? pos) && (pos <=? hi)) eqn:EP; [|discriminate].
  apply andb_true_iff in EP as [E1 E2]. apply N.leb_le in E1. apply N.leb_le in E2.
  destruct (create_named_inner_inv _ _ _ _ _ _ _ _ _ _ Hn H) as (Hitem & et & ix & se & six & cs & pp & x & EF & ENV & ES & ECS & ECK & EPp & EM & EA).
  assert (Hpos : pos <= N.of_nat (List.length (n_content n))) by lia.
  destruct (create_named_inner_ok h n name item pos m v w et ix se six cs pp x Hn Hf1 Hf2 Hitem EF ENV ES ECS ECK EPp EM EA Hpos)
    as (w'' & H2 & Hpost).
  rewrite H2 in H. injection H as <- <-. exists lo, hi. split; [reflexivity|]. split; [lia|]. split; [reflexivity|exact Hpost].
Qed.

Lemma create_named_effect h n m v name item w c w' :
  w_nodes w h = Some n -> w_nodes w (w_next w) = None -> w_nodes w (w_next w + 1) = None ->
  model_of h w = Val (OK m, w) -> min_version LATEST h w = Val (OK v, w) ->
  e_create_named_sub_element T check_fn LATEST h name item w = Val (OK c, w') ->
  exists lo hi, calc_element_insert_range T n name v w = Val (OK (lo, hi), w) /\
                c = w_next w /\ named_post w h n name hi w'.
Proof.
  intros Hn Hf1 Hf2 Hm Hv H. rewrite (named_default_unfold h n m v name item w Hn Hm Hv) in H.
  destruct (calc_element_insert_range T n name v w) as [[[[lo hi]|er] w1]| |] eqn:EC; try discriminate.
  pose proof (calc_bound T _ _ _ _ _ _ _ EC) as Hb. pose proof (calc_ro T _ _ _ _ _ _ EC) as ->.
  destruct (create_named_inner_inv _ _ _ _ _ _ _ _ _ _ Hn H) as (Hitem & et & ix & se & six & cs & pp & x & EF & ENV & ES & ECS & ECK & EPp & EM & EA).
  assert (Hpos : hi <= N.of_nat (List.length (n_content n))) by lia.
  destruct (create_named_inner_ok h n name item hi m v w et ix se six cs pp x Hn Hf1 Hf2 Hitem EF ENV ES ECS ECK EPp EM EA Hpos)
    as (w'' & H2 & Hpost).
  rewrite H2 in H. injection H as <- <-. exists lo, hi. split; [reflexivity|]. split; [reflexivity|exact Hpost].
Qed.

(* the child list of the parent after a successful named creation *)
Lemma named_post_items w h n name pos w' items :
  w_nodes w h = Some n -> w_nodes w (w_next w) = None -> named_post w h n name pos w' ->
  items_of w (n_content n) = Some items ->
  items_of w' (insert_at (n_content n) (N.to_nat pos) (CElem (w_next w))) = Some (ins items (N.to_nat pos) (Some name)).
Proof.
  intros Hn Hf (Hh & (nc & Hc & Hcn) & Hold & _) HI.
  apply items_of_insert.
  - apply (items_of_frame w); [|exact HI]. intros i cn Hi.
    destruct (N.eq_dec i h) as [->|NE].
    + rewrite Hn in Hi. injection Hi as <-. eexists. split; [exact Hh|reflexivity].
    + exists cn. split; [apply Hold; auto|reflexivity].
  - cbn [item_of]. rewrite Hc, Hcn. reflexivity.
Qed.

Theorem create_named_at_order_inv h n m v name item pos w c w' items :
  w_nodes w h = Some n -> w_nodes w (w_next w) = None -> w_nodes w (w_next w + 1) = None ->
  model_of h w = Val (OK m, w) -> min_version LATEST h w = Val (OK v, w) ->
  items_of w (n_content n) = Some items -> Ordered T (n_type n) v items ->
  e_create_named_sub_element_at T check_fn LATEST h name item pos w = Val (OK c, w') ->
  exists n', w_nodes w' h = Some n' /\ n_type n' = n_type n /\
    items_of w' (n_content n') = Some (ins items (N.to_nat pos) (Some name)) /\
    Ordered T (n_type n) v (ins items (N.to_nat pos) (Some name)).
Proof.
  intros Hn Hf1 Hf2 Hm Hv HI HO H.
  destruct (create_named_at_effect h n m v name item pos w c w' Hn Hf1 Hf2 Hm Hv H) as (lo & hi & EC & Hp & -> & Hpost).
  pose proof Hpost as (Hh & _).
  eexists. split; [exact Hh|]. split; [reflexivity|]. cbn [n_content set_content].
  split; [eapply named_post_items; eauto|].
  destruct (range_exact T WF n name v w lo hi w items HI HO EC) as (_ & _ & Hhi & Hiff). apply Hiff; lia.
Qed.

Theorem create_named_order_inv h n m v name item w c w' items :
  w_nodes w h = Some n -> w_nodes w (w_next w) = None -> w_nodes w (w_next w + 1) = None ->
  model_of h w = Val (OK m, w) -> min_version LATEST h w = Val (OK v, w) ->
  items_of w (n_content n) = Some items -> Ordered T (n_type n) v items ->
  e_create_named_sub_element T check_fn LATEST h name item w = Val (OK c, w') ->
  exists n' items', w_nodes w' h = Some n' /\ n_type n' = n_type n /\
    items_of w' (n_content n') = Some items' /\ Ordered T (n_type n) v items'.
Proof.
  intros Hn Hf1 Hf2 Hm Hv HI HO H.
  destruct (create_named_effect h n m v name item w c w' Hn Hf1 Hf2 Hm Hv H) as (lo & hi & EC & -> & Hpost).
  pose proof Hpost as (Hh & _).
  eexists. eexists. split; [exact Hh|]. split; [reflexivity|]. cbn [n_content set_content].
  split; [eapply named_post_items; eauto|].
  destruct (range_exact T WF n name v w lo hi w items HI HO EC) as (_ & Hlh & Hhi & Hiff). apply Hiff; lia.
Qed.

(* ------------------------------------------------------------------ get_or_create *)
Definition order_kept (h : id) (n : node) (v : N) (w' : world) : Prop :=
  exists n' items', w_nodes w' h = Some n' /\ n_type n' = n_type n /\
    items_of w' (n_content n') = Some items' /\ Ordered T (n_type n) v items'.

Theorem get_or_create_order_inv h n v name w c w' items :
  w_nodes w h = Some n -> w_nodes w (w_next w) = None -> min_version LATEST h w = Val (OK v, w) ->
  items_of w (n_content n) = Some items -> Ordered T (n_type n) v items ->
  e_get_or_create_sub_element T LATEST h name w = Val (OK c, w') ->
  order_kept h n v w'.
Proof.
  intros Hn Hf Hv HI HO H. unfold e_get_or_create_sub_element in H.
  unfold wbind at 1 in H. rewrite Hv in H.
  unfold wbind at 1 in H. destruct (get_sub_element h name w) as [[[s|er] w1]| |] eqn:EG; try discriminate.
  pose proof (ro_get_sub_element h name _ _ _ EG) as ->.
  destruct s as [c0|].
  - apply wret_inv in H as [_ ->]. exists n, items. auto.
  - assert (H2 : e_create_sub_element T LATEST h name w = Val (OK c, w')).
    { unfold e_create_sub_element, wbind. rewrite Hv. exact H. }
    destruct (create_order_inv T LATEST WF h n v name w c w' items Hn Hf Hv HI HO H2) as (n' & items' & A & B & C & D).
    exists n', items'. auto.
Qed.

Theorem get_or_create_named_order_inv h n m v name item w c w' items :
  w_nodes w h = Some n -> w_nodes w (w_next w) = None -> w_nodes w (w_next w + 1) = None ->
  model_of h w = Val (OK m, w) -> min_version LATEST h w = Val (OK v, w) ->
  items_of w (n_content n) = Some items -> Ordered T (n_type n) v items ->
  e_get_or_create_named_sub_element T check_fn LATEST h name item w = Val (OK c, w') ->
  order_kept h n v w'.
Proof.
  intros Hn Hf1 Hf2 Hm Hv HI HO H. unfold e_get_or_create_named_sub_element in H.
  unfold wbind at 1 in H. rewrite Hm in H. unfold wbind at 1 in H. rewrite Hv in H.
  unfold wbind at 1 in H. unfold get_node at 1 in H. rewrite Hn in H.
  unfold wbind at 1 in H.
  destruct (first_named_item T name item (n_content n) w) as [[[s|er] w1]| |] eqn:EG; try discriminate.
  pose proof (ro_first_named_item T name item _ _ _ _ EG) as ->.
  destruct s as [c0|].
  - apply wret_inv in H as [_ ->]. exists n, items. auto.
  - assert (H2 : e_create_named_sub_element T check_fn LATEST h name item w = Val (OK c, w')).
    { unfold e_create_named_sub_element, wbind. rewrite Hm, Hv. exact H. }
    destruct (create_named_order_inv h n m v name item w c w' items Hn Hf1 Hf2 Hm Hv HI HO H2) as (n' & items' & A & B & C & D).
    exists n', items'. auto.
Qed.

End Named.
