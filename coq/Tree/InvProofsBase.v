(* Tree/InvProofsBase.v — C03 proofs, layer 0: inversion of the W monad, read-only computations, frame lemmas of
   the heap primitives, tactics for symbolic execution. *)
From AV Require Import Base.Bytes Base.Outcome Hash.HashModel Tree.Heap Tree.Ops Tree.Script Tree.Inv.
Open Scope string_scope.
Open Scope list_scope.
Open Scope N_scope.

(* ------------------------------------------------------------------ monad inversion *)
Lemma wbind_inv {A B} (m : W A) (k : A -> W B) w r w' :
  wbind m k w = Val (r, w') ->
  (exists a w1, m w = Val (OK a, w1) /\ k a w1 = Val (r, w')) \/
  (exists e, m w = Val (ER e, w') /\ r = ER e).
Proof.
  unfold wbind. destruct (m w) as [[[a|e] w1]|s|]; try discriminate.
  - intros H. left. eauto.
  - intros [= <- <-]. right. eauto.
Qed.

Lemma wtry_inv {A} (m : W A) w r w' :
  wtry m w = Val (r, w') ->
  exists r0, m w = Val (r0, w') /\ r = OK (match r0 with OK a => Some a | ER _ => None end).
Proof.
  unfold wtry. destruct (m w) as [[[a|e] w1]|s|]; try discriminate; intros [= <- <-]; eauto.
Qed.

Lemma wcatch_inv {A} (m : W A) w r w' :
  wcatch m w = Val (r, w') -> exists r0, m w = Val (r0, w') /\ r = OK r0.
Proof. unfold wcatch. destruct (m w) as [[r0 w1]|s|]; try discriminate; intros [= <- <-]; eauto. Qed.

Lemma wret_inv {A} (a : A) w r w' : wret a w = Val (r, w') -> r = OK a /\ w' = w.
Proof. unfold wret. intros [= <- <-]. auto. Qed.
Lemma wfail_inv {A} e w (r : out A) w' : wfail e w = Val (r, w') -> r = ER e /\ w' = w.
Proof. unfold wfail. intros [= <- <-]. auto. Qed.
Lemma wlift_inv {A} (x : res A) w r w' : wlift x w = Val (r, w') -> exists a, x = Val a /\ r = OK a /\ w' = w.
Proof. unfold wlift. destruct x; try discriminate. intros [= <- <-]. eauto. Qed.
Lemma wl_inv {A} (x : res A) w r w' : wl x w = Val (r, w') -> exists a, x = Val a /\ r = OK a /\ w' = w.
Proof. apply wlift_inv. Qed.
Lemma get_node_inv i w r w' : get_node i w = Val (r, w') -> exists n, w_nodes w i = Some n /\ r = OK n /\ w' = w.
Proof. unfold get_node. destruct (w_nodes w i); try discriminate. intros [= <- <-]. eauto. Qed.
Lemma get_model_inv m w r w' :
  get_model m w = Val (r, w') -> exists x, nth_opt (w_models w) (N.to_nat m) = Some x /\ r = OK x /\ w' = w.
Proof. unfold get_model. destruct (nth_opt _ _); try discriminate. intros [= <- <-]. eauto. Qed.
Lemma get_file_inv f w r w' :
  get_file f w = Val (r, w') -> exists x, nth_opt (w_files w) (N.to_nat f) = Some x /\ r = OK x /\ w' = w.
Proof. unfold get_file. destruct (nth_opt _ _); try discriminate. intros [= <- <-]. eauto. Qed.
Lemma wget_inv w r w' : wget w = Val (r, w') -> r = OK w /\ w' = w.
Proof. unfold wget. intros [= <- <-]. auto. Qed.

(* ------------------------------------------------------------------ read-only computations *)
Definition ro {A} (m : W A) : Prop := forall w r w', m w = Val (r, w') -> w' = w.

Lemma ro_ret {A} (a : A) : ro (wret a). Proof. intros w r w' H. apply wret_inv in H. tauto. Qed.
Lemma ro_fail {A} e : ro (@wfail A e). Proof. intros w r w' H. apply wfail_inv in H. tauto. Qed.
Lemma ro_panic {A} s : ro (@wpanic A s). Proof. intros w r w' H. discriminate. Qed.
Lemma ro_fuel {A} : ro (@wfuel A). Proof. intros w r w' H. discriminate. Qed.
Lemma ro_lift {A} (x : res A) : ro (wlift x).
Proof. intros w r w' H. apply wlift_inv in H as (a & _ & _ & ->). reflexivity. Qed.
Lemma ro_wl {A} (x : res A) : ro (wl x). Proof. apply ro_lift. Qed.
Lemma ro_out {A} (o : out A) : ro (wout o). Proof. intros w r w'. unfold wout. intros [= <- <-]. reflexivity. Qed.
Lemma ro_get_node i : ro (get_node i).
Proof. intros w r w' H. apply get_node_inv in H as (n & _ & _ & ->). reflexivity. Qed.
Lemma ro_get_model m : ro (get_model m).
Proof. intros w r w' H. apply get_model_inv in H as (n & _ & _ & ->). reflexivity. Qed.
Lemma ro_get_file m : ro (get_file m).
Proof. intros w r w' H. apply get_file_inv in H as (n & _ & _ & ->). reflexivity. Qed.
Lemma ro_wget : ro wget. Proof. intros w r w' H. apply wget_inv in H. tauto. Qed.
Lemma ro_bind {A B} (m : W A) (k : A -> W B) : ro m -> (forall a, ro (k a)) -> ro (wbind m k).
Proof.
  intros Hm Hk w r w' H. apply wbind_inv in H as [(a & w1 & H1 & H2) | (e & H1 & _)].
  - apply Hm in H1. subst w1. eapply Hk; eauto.
  - eapply Hm; eauto.
Qed.
Lemma ro_try {A} (m : W A) : ro m -> ro (wtry m).
Proof. intros Hm w r w' H. apply wtry_inv in H as (r0 & H & _). eapply Hm; eauto. Qed.
Lemma ro_catch {A} (m : W A) : ro m -> ro (wcatch m).
Proof. intros Hm w r w' H. apply wcatch_inv in H as (r0 & H & _). eapply Hm; eauto. Qed.

Create HintDb ro discriminated.
#[export] Hint Resolve ro_ret ro_fail ro_panic ro_fuel ro_lift ro_wl ro_out ro_get_node ro_get_model ro_get_file
  ro_wget ro_try ro_catch : ro.

(* decompose a goal `ro m` structurally *)
Ltac ro_step :=
  first
  [ apply ro_ret | apply ro_fail | apply ro_panic | apply ro_fuel | apply ro_wl | apply ro_lift | apply ro_out
  | apply ro_get_node | apply ro_get_model | apply ro_get_file | apply ro_wget
  | solve [auto with ro]
  | apply ro_bind; [ | intros ? ]
  | apply ro_try | apply ro_catch
  | match goal with
    | |- ro (match ?x with _ => _ end) => destruct x
    | |- ro (if ?b then _ else _) => destruct b
    | |- ro (let '(_, _) := ?x in _) => destruct x
    end ].
Ltac ro_tac := repeat ro_step.

Section RO.
Variable T : tables.
Variable tab_el tab_en : nametab.
Variable check_fn : N -> list N -> res bool.
Variable LATEST : N.

Lemma ro_item_name n : ro (item_name T n).
Proof. unfold item_name. ro_tac. Qed.
Lemma ro_is_identifiable n : ro (is_identifiable T n).
Proof. unfold is_identifiable. ro_tac. Qed.
Lemma ro_parent_of n : ro (parent_of n).
Proof. unfold parent_of. ro_tac. Qed.
Hint Resolve ro_item_name ro_is_identifiable ro_parent_of : ro.

Lemma ro_up_names f : forall p acc, ro (up_names T f p acc).
Proof. induction f as [|f IH]; intros p acc; cbn [up_names]; ro_tac; try apply IH. Qed.
Hint Resolve ro_up_names : ro.
Lemma ro_path_unchecked n : ro (path_unchecked T n).
Proof. unfold path_unchecked. ro_tac. Qed.
Hint Resolve ro_path_unchecked : ro.
Lemma ro_path_of n : ro (path_of T n).
Proof. unfold path_of. ro_tac. Qed.
Hint Resolve ro_path_of : ro.
Lemma ro_path_id i : ro (path_id T i).
Proof. unfold path_id. ro_tac. Qed.
Lemma ro_model_walk f : forall i, ro (model_walk f i).
Proof. induction f as [|f IH]; intros i; cbn [model_walk]; ro_tac; try apply IH. Qed.
Hint Resolve ro_model_walk ro_path_id : ro.
Lemma ro_model_of i : ro (model_of i).
Proof. unfold model_of. ro_tac. Qed.
Lemma ro_fm_walk f : forall s c, ro (fm_walk f s c).
Proof. induction f as [|f IH]; intros s c; cbn [fm_walk]; ro_tac; try apply IH. Qed.
Hint Resolve ro_model_of ro_fm_walk : ro.
Lemma ro_file_membership i : ro (file_membership i).
Proof. unfold file_membership. ro_tac. Qed.
Hint Resolve ro_file_membership : ro.
Lemma ro_min_version i : ro (min_version LATEST i).
Proof. unfold min_version. ro_tac. Qed.
Lemma ro_get_element_by_path m p : ro (get_element_by_path m p).
Proof. unfold get_element_by_path. ro_tac. Qed.
Hint Resolve ro_min_version ro_get_element_by_path : ro.

Lemma ro_range_loop ty version new_idx items : forall idx s e, ro (range_loop T ty version new_idx items idx s e).
Proof.
  induction items as [|[c|d] items IH]; intros idx s e; cbn [range_loop]; ro_tac; try apply IH.
Qed.
Hint Resolve ro_range_loop : ro.
Lemma ro_calc_range n name version : ro (calc_element_insert_range T n name version).
Proof. unfold calc_element_insert_range. ro_tac. Qed.
Hint Resolve ro_calc_range : ro.

Lemma ro_ancestor_is f : forall p other, ro (ancestor_is f p other).
Proof. induction f as [|f IH]; intros p other; cbn [ancestor_is]; ro_tac; try apply IH. Qed.
Hint Resolve ro_ancestor_is : ro.

Lemma ro_dfs_ids f : forall i, ro (dfs_ids f i).
Proof.
  induction f as [|f IH]; intros i; cbn [dfs_ids]; ro_tac.
  induction (n_content a) as [|[c|d] l IHl]; ro_tac; auto.
Qed.
Hint Resolve ro_dfs_ids : ro.

Lemma ro_named_paths ids : ro (named_paths T ids).
Proof. induction ids as [|i ids IH]; cbn [named_paths]; ro_tac. Qed.
Lemma ro_ref_texts ids : ro (ref_texts T tab_en ids).
Proof. induction ids as [|i ids IH]; cbn [ref_texts]; ro_tac. Qed.
Hint Resolve ro_named_paths ro_ref_texts : ro.

Lemma ro_first_named name l : ro (first_named name l).
Proof. induction l as [|[c|d] l IH]; cbn [first_named]; ro_tac. Qed.
Hint Resolve ro_first_named : ro.
Lemma ro_get_sub_element h name : ro (get_sub_element h name).
Proof. unfold get_sub_element. ro_tac. Qed.
Lemma ro_first_named_item name item l : ro (first_named_item T name item l).
Proof. induction l as [|[c|d] l IH]; cbn [first_named_item]; ro_tac. Qed.
Hint Resolve ro_get_sub_element ro_first_named_item : ro.
Lemma ro_parent_splittable n : ro (parent_splittable T n).
Proof. unfold parent_splittable. ro_tac. Qed.
Lemma ro_file_model f : ro (file_model f).
Proof. unfold file_model. ro_tac. Qed.
Hint Resolve ro_parent_splittable ro_file_model : ro.
Lemma ro_unique_loop f m pp orig : forall name counter, ro (unique_loop f m pp orig name counter).
Proof. induction f as [|f IH]; intros name counter; cbn [unique_loop]; ro_tac; try apply IH. Qed.
Hint Resolve ro_unique_loop : ro.
Lemma ro_copy_attrs ty version attrs : forall acc, ro (copy_attrs T ty version attrs acc).
Proof. induction attrs as [|[an av] attrs IH]; intros acc; cbn [copy_attrs]; ro_tac; try apply IH. Qed.
Hint Resolve ro_copy_attrs : ro.
Lemma ro_get_reference_target h : ro (e_get_reference_target T h).
Proof. unfold e_get_reference_target. ro_tac. Qed.

End RO.

#[export] Hint Resolve ro_item_name ro_is_identifiable ro_parent_of ro_up_names ro_path_unchecked ro_path_of
  ro_path_id ro_model_walk ro_model_of ro_fm_walk ro_file_membership ro_min_version ro_get_element_by_path
  ro_range_loop ro_calc_range ro_ancestor_is ro_dfs_ids ro_named_paths ro_ref_texts ro_first_named
  ro_get_sub_element ro_first_named_item ro_parent_splittable ro_file_model ro_unique_loop ro_copy_attrs
  ro_get_reference_target : ro.

(* ------------------------------------------------------------------ symbolic execution *)
(* [wstep H] inverts the head bind of H : (do x <- m; k) w = Val (r, w').  Two goals: m succeeded (H becomes the
   continuation) / m failed (r, w' are substituted).  When m is read-only the intermediate world is replaced. *)
Ltac ro_subst E :=
  match type of E with
  | ?m ?w = Val (_, ?w1) =>
    first [ is_var w1;
            let Hq := fresh in
            assert (Hq : w1 = w) by (refine ((_ : ro m) w _ w1 E); ro_tac);
            first [subst w1 | rewrite Hq in *; clear Hq]
          | idtac ]
  end.

(* error branch of a primitive that cannot fail *)
Ltac prim_noerr E :=
  lazymatch type of E with
  | set_node _ _ _ = Val (ER _, _) => discriminate E
  | alloc _ _ = Val (ER _, _) => discriminate E
  | set_model _ _ _ = Val (ER _, _) => discriminate E
  | wput _ _ = Val (ER _, _) => discriminate E
  | wget _ = Val (ER _, _) => discriminate E
  | get_node _ _ = Val (ER _, _) => let n := fresh in apply get_node_inv in E as (n & _ & E & _); discriminate E
  | get_model _ _ = Val (ER _, _) => let n := fresh in apply get_model_inv in E as (n & _ & E & _); discriminate E
  | get_file _ _ = Val (ER _, _) => let n := fresh in apply get_file_inv in E as (n & _ & E & _); discriminate E
  | wl _ _ = Val (ER _, _) => let n := fresh in apply wl_inv in E as (n & _ & E & _); discriminate E
  | wlift _ _ = Val (ER _, _) => let n := fresh in apply wlift_inv in E as (n & _ & E & _); discriminate E
  | wtry _ _ = Val (ER _, _) => let n := fresh in apply wtry_inv in E as (n & _ & E); discriminate E
  | modify_node _ _ _ = Val (ER _, _) =>
    let n := fresh in unfold modify_node in E; apply wbind_inv in E as [(n & ? & ? & E) | (n & E & _)];
    [discriminate E | apply get_node_inv in E as (? & _ & E & _); discriminate E]
  | modify_model _ _ _ = Val (ER _, _) =>
    let n := fresh in unfold modify_model in E; apply wbind_inv in E as [(n & ? & ? & E) | (n & E & _)];
    [discriminate E | apply get_model_inv in E as (? & _ & E & _); discriminate E]
  end.

Ltac wstep H :=
  lazymatch type of H with
  | wbind ?m ?k ?w = Val (?r, ?w') =>
    let a := fresh "a" in let w1 := fresh "w" in let E := fresh "E" in let e := fresh "e" in
    let Hr := fresh "Hr" in
    apply wbind_inv in H as [(a & w1 & E & H) | (e & E & Hr)];
    [ try ro_subst E
    | first [ discriminate Hr
            | prim_noerr E
            | first [ subst r | injection Hr as Hr; try subst | idtac ]; try ro_subst E ] ]
  end.

(* the same with chosen names for the result value and the equation of the first computation *)
Ltac wstep_as H a E :=
  lazymatch type of H with
  | wbind ?m ?k ?w = Val (?r, ?w') =>
    let w1 := fresh "w" in let e := fresh "e" in
    let Hr := fresh "Hr" in
    apply wbind_inv in H as [(a & w1 & E & H) | (e & E & Hr)];
    [ try ro_subst E
    | first [ discriminate Hr
            | prim_noerr E
            | first [ subst r | injection Hr as Hr; try subst | idtac ]; try ro_subst E ] ]
  end.
Tactic Notation "wstepn" hyp(H) ident(a) ident(E) := wstep_as H a E.

(* basic inversions of leaf computations *)
Ltac clear_triv := repeat match goal with H : ?x = ?x |- _ => clear H end.
Ltac fin_eq E := first [ discriminate E | injection E as E; try subst | subst ]; clear_triv.
Ltac winv E :=
  lazymatch type of E with
  | get_node _ _ = Val _ =>
    let n := fresh "n" in let Hn := fresh "Hn" in
    apply get_node_inv in E as (n & Hn & E & ?); fin_eq E
  | get_model _ _ = Val _ =>
    let x := fresh "x" in let Hx := fresh "Hx" in
    apply get_model_inv in E as (x & Hx & E & ?); fin_eq E
  | get_file _ _ = Val _ =>
    let x := fresh "x" in let Hx := fresh "Hx" in
    apply get_file_inv in E as (x & Hx & E & ?); fin_eq E
  | wl _ _ = Val _ =>
    let a := fresh "v" in let Ha := fresh "Hv" in
    apply wl_inv in E as (a & Ha & E & ?); fin_eq E
  | wlift _ _ = Val _ =>
    let a := fresh "v" in let Ha := fresh "Hv" in
    apply wlift_inv in E as (a & Ha & E & ?); fin_eq E
  | wret _ _ = Val _ => apply wret_inv in E as (E & ?); fin_eq E
  | wfail _ _ = Val _ => apply wfail_inv in E as (E & ?); fin_eq E
  | wget _ = Val _ => apply wget_inv in E as (E & ?); fin_eq E
  | wpanic _ _ = Val _ => discriminate E
  | wfuel _ = Val _ => discriminate E
  end.

(* ------------------------------------------------------------------ frame lemmas of the primitives *)
Lemma upd_eq f i n : upd f i n i = Some n.
Proof. unfold upd. rewrite N.eqb_refl. reflexivity. Qed.
Lemma upd_neq f i n x : x <> i -> upd f i n x = f x.
Proof. unfold upd. intros H. apply N.eqb_neq in H. rewrite H. reflexivity. Qed.

Lemma set_node_inv i n w r w' :
  set_node i n w = Val (r, w') ->
  r = OK tt /\ w' = mkWorld (upd (w_nodes w) i n) (w_next w) (w_files w) (w_models w).
Proof. unfold set_node. intros [= <- <-]. auto. Qed.

Lemma alloc_inv n w r w' :
  alloc n w = Val (r, w') ->
  r = OK (w_next w) /\ w' = mkWorld (upd (w_nodes w) (w_next w) n) (w_next w + 1) (w_files w) (w_models w).
Proof. unfold alloc. intros [= <- <-]. auto. Qed.

Lemma modify_node_inv i f w r w' :
  modify_node i f w = Val (r, w') ->
  exists n, w_nodes w i = Some n /\ r = OK tt /\
            w' = mkWorld (upd (w_nodes w) i (f n)) (w_next w) (w_files w) (w_models w).
Proof.
  unfold modify_node. intros H. wstep H.
  winv E. apply set_node_inv in H as (-> & ->). eauto.
Qed.

Definition wset (w : world) (i : id) (n : node) : world :=
  mkWorld (upd (w_nodes w) i n) (w_next w) (w_files w) (w_models w).
Definition walloc (w : world) (n : node) : world :=
  mkWorld (upd (w_nodes w) (w_next w) n) (w_next w + 1) (w_files w) (w_models w).
Definition wmodels (w : world) (ms : list model) : world :=
  mkWorld (w_nodes w) (w_next w) (w_files w) ms.

Lemma set_node_wset i n w r w' : set_node i n w = Val (r, w') -> r = OK tt /\ w' = wset w i n.
Proof. apply set_node_inv. Qed.
Lemma modify_node_wset i f w r w' :
  modify_node i f w = Val (r, w') -> exists n, w_nodes w i = Some n /\ r = OK tt /\ w' = wset w i (f n).
Proof. apply modify_node_inv. Qed.
Lemma alloc_walloc n w r w' : alloc n w = Val (r, w') -> r = OK (w_next w) /\ w' = walloc w n.
Proof. apply alloc_inv. Qed.

Lemma set_model_inv m x w r w' :
  set_model m x w = Val (r, w') ->
  r = OK tt /\ w' = wmodels w (list_set (w_models w) (N.to_nat m) x).
Proof. unfold set_model. intros [= <- <-]. auto. Qed.

Lemma modify_model_inv m f w r w' :
  modify_model m f w = Val (r, w') ->
  exists x, nth_opt (w_models w) (N.to_nat m) = Some x /\ r = OK tt /\
            w' = wmodels w (list_set (w_models w) (N.to_nat m) (f x)).
Proof.
  unfold modify_model. intros H. wstep H.
  winv E. apply set_model_inv in H as (-> & ->). eauto.
Qed.

(* ---------- lists ---------- *)
Lemma in_elems c l : In c (elems l) <-> In (CElem c) l.
Proof.
  unfold elems. rewrite in_flat_map. split.
  - intros ([x|d] & Hx & Hc); cbn in Hc; [destruct Hc as [->|[]]; auto | destruct Hc].
  - intros H. exists (CElem c). split; auto. cbn. auto.
Qed.

Lemma elems_app a b : elems (a ++ b) = elems a ++ elems b.
Proof. unfold elems. apply flat_map_app. Qed.
Lemma elems_cons_data d l : elems (CData d :: l) = elems l.
Proof. reflexivity. Qed.
Lemma elems_cons_elem c l : elems (CElem c :: l) = c :: elems l.
Proof. reflexivity. Qed.

Lemma has_elem_false l : has_elem l = false -> elems l = [].
Proof.
  induction l as [|[c|d] l IH]; cbn; auto; try discriminate.
Qed.
Lemma has_elem_true l : has_elem l = true -> exists c, In c (elems l).
Proof.
  induction l as [|[c|d] l IH]; cbn; try discriminate.
  - intros _. exists c. auto.
  - intros H. apply IH in H as (c & H). exists c. exact H.
Qed.

Lemma list_set_map {A B} (g : A -> B) l k x :
  (forall y, nth_error l k = Some y -> g x = g y) -> map g (list_set l k x) = map g l.
Proof.
  revert k. induction l as [|y l IH]; intros k H; cbn; auto.
  destruct k; cbn.
  - rewrite (H y); auto.
  - f_equal. apply IH. intros z Hz. apply H. exact Hz.
Qed.

Lemma list_set_length {A} (l : list A) k x : List.length (list_set l k x) = List.length l.
Proof. revert k. induction l as [|y l IH]; intros [|k]; cbn; auto. Qed.

Lemma list_set_nth_eq {A} (l : list A) k x y : nth_error l k = Some y -> nth_error (list_set l k x) k = Some x.
Proof. revert k. induction l as [|z l IH]; intros [|k]; cbn; try discriminate; auto. Qed.
Lemma list_set_nth_neq {A} (l : list A) k j x : j <> k -> nth_error (list_set l k x) j = nth_error l j.
Proof.
  revert k j. induction l as [|z l IH]; intros [|k] [|j] H; cbn; auto; try congruence.
Qed.
Lemma list_set_none {A} (l : list A) k x : nth_error l k = None -> list_set l k x = l.
Proof. revert k. induction l as [|z l IH]; intros [|k]; cbn; try discriminate; auto. intros H. f_equal. auto. Qed.

(* ------------------------------------------------------------------ symbolic execution engine *)
(* invert a completed primitive step E : m w = Val (r, w1), or leave it alone *)
Ltac wleaf E :=
  first
  [ winv E
  | lazymatch type of E with
    | set_node _ _ _ = Val _ => apply set_node_wset in E as (E & ?); fin_eq E
    | alloc _ _ = Val _ => apply alloc_walloc in E as (E & ?); fin_eq E
    | set_model _ _ _ = Val _ => apply set_model_inv in E as (E & ?); fin_eq E
    | modify_node _ _ _ = Val _ =>
      let n := fresh "n" in let Hn := fresh "Hn" in
      apply modify_node_wset in E as (n & Hn & E & ?); fin_eq E
    | modify_model _ _ _ = Val _ =>
      let x := fresh "x" in let Hx := fresh "Hx" in
      apply modify_model_inv in E as (x & Hx & E & ?); fin_eq E
    | wtry _ _ = Val _ =>
      let r0 := fresh "r" in
      apply wtry_inv in E as (r0 & E & ?); try subst
    end
  | idtac ].

(* one step on H : prog w = Val (r, w'); [fin] closes side goals (error exits) when it can *)
Ltac wrun1 H fin :=
  lazymatch type of H with
  | wbind _ _ _ = Val _ =>
    let a := fresh "a" in let E := fresh "E" in
    wstep_as H a E;
    lazymatch type of E with
    | _ = Val (ER _, _) => wleaf E; try solve [fin]
    | _ => wleaf E
    end
  | ?f ?w = Val _ =>
    lazymatch f with
    | match ?x with _ => _ end => destruct x eqn:?
    | if ?b then _ else _ => destruct b eqn:?
    | wret _ => winv H; try solve [fin]
    | wfail _ => winv H; try solve [fin]
    | wpanic _ => discriminate H
    | wfuel => discriminate H
    | wl _ => winv H; try solve [fin]
    | get_node _ => winv H; try solve [fin]
    | set_node _ _ => wleaf H; try solve [fin]
    | modify_node _ _ => wleaf H; try solve [fin]
    | modify_model _ _ => wleaf H; try solve [fin]
    | set_model _ _ => wleaf H; try solve [fin]
    end
  end.
Ltac wrun H fin := repeat (wrun1 H fin).

(* like wrun, but only steps over read-only computations: stops in front of the first mutation *)
Ltac wrun_ro1 H fin :=
  lazymatch type of H with
  | wbind ?m _ _ = Val _ =>
    let R := fresh in
    assert (R : ro m) by ro_tac; clear R;
    let a := fresh "a" in let E := fresh "E" in
    wstep_as H a E;
    lazymatch type of E with
    | _ = Val (ER _, _) => wleaf E; try solve [fin]
    | _ => wleaf E
    end
  | ?f ?w = Val _ =>
    lazymatch f with
    | match ?x with _ => _ end => destruct x eqn:?
    | if ?b then _ else _ => destruct b eqn:?
    | wret _ => winv H; try solve [fin]
    | wfail _ => winv H; try solve [fin]
    | wpanic _ => discriminate H
    | wfuel => discriminate H
    | wl _ => winv H; try solve [fin]
    | get_node _ => winv H; try solve [fin]
    end
  end.
Ltac wrun_ro H fin := repeat (wrun_ro1 H fin).

(* ------------------------------------------------------------------ computations that never return an error *)
Definition noerr {A} (m : W A) : Prop := forall w e w', m w = Val (ER e, w') -> False.

Lemma noerr_ret {A} (a : A) : noerr (wret a). Proof. intros w e w' H. discriminate. Qed.
Lemma noerr_panic {A} s : noerr (@wpanic A s). Proof. intros w e w' H. discriminate. Qed.
Lemma noerr_fuel {A} : noerr (@wfuel A). Proof. intros w e w' H. discriminate. Qed.
Lemma noerr_lift {A} (x : res A) : noerr (wlift x).
Proof. intros w e w' H. apply wlift_inv in H as (a & _ & [=] & _). Qed.
Lemma noerr_wl {A} (x : res A) : noerr (wl x). Proof. apply noerr_lift. Qed.
Lemma noerr_get_node i : noerr (get_node i).
Proof. intros w e w' H. apply get_node_inv in H as (n & _ & [=] & _). Qed.
Lemma noerr_get_model i : noerr (get_model i).
Proof. intros w e w' H. apply get_model_inv in H as (n & _ & [=] & _). Qed.
Lemma noerr_get_file i : noerr (get_file i).
Proof. intros w e w' H. apply get_file_inv in H as (n & _ & [=] & _). Qed.
Lemma noerr_wget : noerr wget. Proof. intros w e w' H. discriminate. Qed.
Lemma noerr_set_node i n : noerr (set_node i n). Proof. intros w e w' H. discriminate. Qed.
Lemma noerr_alloc n : noerr (alloc n). Proof. intros w e w' H. discriminate. Qed.
Lemma noerr_set_model m x : noerr (set_model m x). Proof. intros w e w' H. discriminate. Qed.
Lemma noerr_try {A} (m : W A) : noerr (wtry m).
Proof. intros w e w' H. apply wtry_inv in H as (r0 & _ & [=]). Qed.
Lemma noerr_bind {A B} (m : W A) (k : A -> W B) : noerr m -> (forall a, noerr (k a)) -> noerr (wbind m k).
Proof.
  intros Hm Hk w e w' H. apply wbind_inv in H as [(a & w1 & H1 & H2) | (e' & H1 & _)].
  - eapply Hk; eauto.
  - eapply Hm; eauto.
Qed.
Lemma noerr_modify_node i f : noerr (modify_node i f).
Proof. unfold modify_node. apply noerr_bind; [apply noerr_get_node | intros; apply noerr_set_node]. Qed.
Lemma noerr_modify_model i f : noerr (modify_model i f).
Proof. unfold modify_model. apply noerr_bind; [apply noerr_get_model | intros; apply noerr_set_model]. Qed.

Ltac noerr_step :=
  first
  [ apply noerr_ret | apply noerr_panic | apply noerr_fuel | apply noerr_wl | apply noerr_lift
  | apply noerr_get_node | apply noerr_get_model | apply noerr_get_file | apply noerr_wget
  | apply noerr_set_node | apply noerr_alloc | apply noerr_set_model | apply noerr_try
  | apply noerr_modify_node | apply noerr_modify_model
  | assumption
  | apply noerr_bind; [ | intros ? ]
  | match goal with
    | |- noerr (match ?x with _ => _ end) => destruct x
    | |- noerr (if ?b then _ else _) => destruct b
    end ].
Ltac noerr_tac := repeat noerr_step.
(* close a goal whose hypothesis E says that an error-free computation returned an error *)
Ltac absurd_err E :=
  exfalso; match type of E with ?m ?w = Val (ER ?e, ?w') => refine ((_ : noerr m) w e w' E); noerr_tac end.
