(* Tree/OrdHist.v — C07, histories: in every world reached from the empty world by a history of Tree/Script.v operations all of
   whose create_file calls use ONE version v (single_version v ops, decidable), the child list of EVERY allocated element is in
   specification order for v (AllOrd), on every table set with SpecWF.
   Invariant carried: Core (C03's Core_step), AllOrd (Tree/OrdHistOps.v step_allord), every file has version v and local file
   sets name existing files (Tree/OrdFilesOps.v) — the last two make Element::min_version answer v (mv_of_files). *)
From Coq Require Import PeanoNat Arith Lia.
From AV Require Import Base.Bytes Base.Outcome Hash.HashModel Spec.SpecOps Tree.Heap Tree.Ops Tree.Script Tree.Inv
  Tree.InvProofsBase Tree.InvProofsCore Tree.InvProofsPrim Tree.InvProofsCreate Tree.InvProofsRefs Tree.InvProofsRemove Tree.InvProofs
  Tree.Range Tree.SpecWF Tree.FilesProofsBase
  Tree.OrdFrame Tree.OrdHistOps Tree.OrdFiles Tree.OrdFilesOps.
Open Scope string_scope.
Open Scope list_scope.
Open Scope N_scope.

Definition single_version (v : N) (ops : list op) : bool :=
  forallb (fun o => match o with OpCreateFile _ _ ver => ver =? v | _ => true end) ops.

Definition FilesV (v : N) (w : world) : Prop := forall k x, nth_opt (w_files w) k = Some x -> f_version x = v.
Definition NFE (w : world) : Prop := NFw (w_files w) w.

Section Hist.
Variable T : tables.
Hypothesis WF : SpecWF T.
Variable tab_el tab_en : nametab.
Variable check_fn : N -> list N -> res bool.
Variable LATEST : N.
Variable root_attrs : list (N * cdata).
Variable v : N.
Hypothesis Hv : v <= LATEST.

(* ---------- min_version ---------- *)
Lemma fm_walk_nonempty fuel : forall self cur w loc fs w', fm_walk fuel self cur w = Val (OK (loc, fs), w') -> fs <> [].
Proof.
  induction fuel as [|fl IH]; intros self cur w loc fs w' H; [discriminate|].
  cbn [fm_walk] in H. wstepn H n En. winv En.
  remember (n_files n0) as fl0 eqn:Ef. destruct fl0 as [|f0 r0]; cbn [is_empty negb] in H.
  - wstepn H p Ep. destruct p as [pi|]; [|winv H]. eapply IH; eauto.
  - winv H. discriminate.
Qed.

Lemma fold_version_v (fl : list file) : forall files a,
  (forall f, In f files -> exists x, nth_opt fl (N.to_nat f) = Some x /\ f_version x = v) -> a = v ->
  fold_left (fun ver f => match nth_opt fl (N.to_nat f) with
                          | Some x => if f_version x <? ver then f_version x else ver
                          | None => ver end) files a = v.
Proof.
  induction files as [|f r IH]; intros a Hall ->; [reflexivity|]. cbn [fold_left].
  destruct (Hall f (or_introl eq_refl)) as (x & Hx & Vx). rewrite Hx, Vx, N.ltb_irrefl.
  apply IH; [intros g Hg; apply Hall; right; exact Hg|reflexivity].
Qed.

Lemma mv_of_files w : FilesV v w -> NFE w -> MV LATEST v w.
Proof.
  intros FV NF h vh w1 H. unfold min_version in H.
  apply wbind_inv in H as [([loc files] & w2 & H1 & H2) | (e & H1 & [=])].
  pose proof (ro_file_membership h _ _ _ H1) as ->.
  apply wbind_inv in H2 as [(wc & w3 & H2 & H3) | (e & H2 & [=])]. apply wget_inv in H2 as ([= ->] & ->).
  apply wret_inv in H3 as ([= ->] & _).
  unfold file_membership in H1. apply wbind_inv in H1 as [(wc2 & w3 & H1 & H4) | (e & H1 & [=])].
  apply wget_inv in H1 as ([= ->] & ->).
  pose proof (fm_walk_nonempty _ _ _ _ _ _ _ H4) as Hne.
  assert (Hall : forall f, In f files -> exists x, nth_opt (w_files w) (N.to_nat f) = Some x /\ f_version x = v).
  { intros f Hf. destruct (fm_walk_good (w_files w) _ _ _ _ _ _ _ NF H4 f Hf) as (x & Hx). exists x. split; [exact Hx|exact (FV _ _ Hx)]. }
  destruct files as [|f r]; [congruence|]. cbn [fold_left].
  destruct (Hall f (or_introl eq_refl)) as (x & Hx & Vx). rewrite Hx, Vx.
  apply fold_version_v; [intros g Hg; apply Hall; right; exact Hg|].
  destruct (v <? LATEST) eqn:E; [reflexivity|]. apply N.ltb_ge in E. lia.
Qed.

(* ---------- the file invariants, step by step ---------- *)
Lemma files_same {A} (m : W A) w r w' : fp (w_files w) m -> FilesV v w -> NFE w -> m w = Val (r, w') -> FilesV v w' /\ NFE w'.
Proof.
  intros Hm FV NF H. pose proof (Hm w r w' NF H) as NF'. pose proof (proj2 NF') as E.
  split; [intros k x Hx; rewrite E in Hx; exact (FV _ _ Hx)|]. unfold NFE. rewrite E. exact NF'.
Qed.

Lemma nth_opt_app_new {A} (l : list A) x k y : nth_opt (l ++ [x]) k = Some y -> nth_opt l k = Some y \/ (k = List.length l /\ y = x).
Proof.
  revert k. induction l as [|a l IH]; intros k H.
  - destruct k as [|k]; cbn in H; [injection H as <-; right; auto|destruct k; discriminate].
  - destruct k as [|k]; cbn in H |- *; [left; exact H|]. destruct (IH k H) as [L|(-> & ->)]; [left; exact L|right; auto].
Qed.
Lemma nth_opt_app_old {A} (l : list A) x k y : nth_opt l k = Some y -> nth_opt (l ++ [x]) k = Some y.
Proof. revert k. induction l as [|a l IH]; intros k H; [destruct k; discriminate|]. destruct k; cbn in *; auto. Qed.
Lemma nth_opt_app_last {A} (l : list A) x : nth_opt (l ++ [x]) (List.length l) = Some x.
Proof. induction l as [|a l IH]; [reflexivity|exact IH]. Qed.

Lemma create_file_files m name w r w' : FilesV v w -> NFE w ->
  m_create_file T m name v w = Val (r, w') -> FilesV v w' /\ NFE w'.
Proof.
  intros FV NF H. unfold m_create_file in H.
  wstepn H x Ex. wstepn H wc Ew. winv Ew.
  destruct (existsb _ (m_files x)); [winv H; auto|].
  apply wbind_inv in H as [(u & w1 & H1 & H2) | (e & H1 & _)]; [|discriminate H1].
  unfold wput in H1. injection H1 as _ <-.
  set (nf := mkFile m name v None) in *. set (FL' := w_files w ++ [nf]) in *.
  set (w1 := mkWorld (w_nodes w) (w_next w) FL' (w_models w)) in *.
  assert (FV1 : FilesV v w1).
  { intros k y Hy. unfold w1 in Hy. cbn [w_files] in Hy. apply nth_opt_app_new in Hy as [Hy|(_ & ->)]; [exact (FV _ _ Hy)|reflexivity]. }
  assert (NF1 : NFw FL' w1).
  { split; [|reflexivity]. intros i n Hn f Hf. destruct (proj1 NF i n Hn f Hf) as (y & Hy). exists y. apply nth_opt_app_old. exact Hy. }
  assert (Pfid : Pf FL' (N.of_nat (List.length (w_files w)))).
  { exists nf. rewrite Nat2N.id. apply nth_opt_app_last. }
  revert H2. match goal with |- ?k w1 = _ -> _ => assert (K : fp FL' k) end.
  { pose proof (fp_atfr T FL') as HA. fp_go. }
  intros H2. exact (files_same _ w1 r w' K FV1 NF1 H2).
Qed.

Lemma new_model_files w r w' : FilesV v w -> NFE w -> new_model T root_attrs w = Val (r, w') -> FilesV v w' /\ NFE w'.
Proof.
  intros FV NF H. unfold new_model in H.
  destruct (et_new T (autosar_element T)) as [ty| |]; destruct (elem T (autosar_element T)) as [ed| |]; try discriminate.
  injection H as _ <-. split; [exact FV|]. split; [|reflexivity]. cbn [w_nodes w_files].
  intros i n Hn. unfold upd in Hn. destruct (i =? w_next w); [injection Hn as <-; intros f []|exact (proj1 NF i n Hn)].
Qed.

Theorem step_files o w r w' :
  single_version v [o] = true -> FilesV v w -> NFE w ->
  run_op T tab_el tab_en check_fn LATEST root_attrs o w = Val (r, w') -> FilesV v w' /\ NFE w'.
Proof.
  intros SV FV NF H. destruct o; cbn [run_op] in H;
    try (apply welem_inv in H as (r0 & H)); try (apply wunit_inv in H as (r0 & H)).
  - exact (files_same _ _ _ _ (fp_e_create T LATEST _ h name) FV NF H).
  - exact (files_same _ _ _ _ (fp_e_create_at T LATEST _ h name pos) FV NF H).
  - exact (files_same _ _ _ _ (fp_e_named T check_fn LATEST _ h name item) FV NF H).
  - exact (files_same _ _ _ _ (fp_e_named_at T check_fn LATEST _ h name item pos) FV NF H).
  - exact (files_same _ _ _ _ (fp_e_copy T LATEST _ h other) FV NF H).
  - exact (files_same _ _ _ _ (fp_e_copy_at T LATEST _ h other pos) FV NF H).
  - exact (files_same _ _ _ _ (fp_e_move T tab_en check_fn LATEST _ h mv) FV NF H).
  - exact (files_same _ _ _ _ (fp_e_move_at T tab_en check_fn LATEST _ h mv pos) FV NF H).
  - exact (files_same _ _ _ _ (fp_e_remove T _ h sub) FV NF H).
  - exact (files_same _ _ _ _ (fp_e_remove_kind T _ h name) FV NF H).
  - exact (files_same _ _ _ _ (fp_set_item_name T check_fn LATEST _ h name) FV NF H).
  - exact (files_same _ _ _ _ (fp_set_cdata T tab_en check_fn LATEST _ h v0) FV NF H).
  - exact (files_same _ _ _ _ (fp_remove_cdata T _ h) FV NF H).
  - exact (files_same _ _ _ _ (fp_insert_citem T _ h text pos) FV NF H).
  - exact (files_same _ _ _ _ (fp_remove_citem T _ h pos) FV NF H).
  - exact (files_same _ _ _ _ (fp_set_ref_target T tab_el tab_en check_fn LATEST _ h target) FV NF H).
  - exact (files_same _ _ _ _ (fp_set_attribute T check_fn LATEST _ h attr v0) FV NF H).
  - apply wbind_inv in H as [(b & w1 & H1 & H2)|(e & H1 & _)]; [winv H2|];
      exact (files_same _ _ _ _ (fp_remove_attribute T _ h attr) FV NF H1).
  - exact (files_same _ _ _ _ (fp_set_comment _ h c) FV NF H).
  - exact (files_same _ _ _ _ (fp_get_or_create T LATEST _ h name) FV NF H).
  - exact (files_same _ _ _ _ (fp_get_or_create_named T check_fn LATEST _ h name item) FV NF H).
  - apply wbind_inv in H as [(b & w1 & H1 & H2)|(e & H1 & _)]; [winv H2|]; eapply new_model_files; eauto.
  - cbn [single_version forallb] in SV. rewrite andb_true_r in SV. apply N.eqb_eq in SV. subst version.
    apply wbind_inv in H as [(b & w1 & H1 & H2)|(e & H1 & _)]; [winv H2|]; eapply create_file_files; eauto.
  - exact (files_same _ _ _ _ (fp_remove_file T _ m f) FV NF H).
  - exact (files_same _ _ _ _ (fp_add_to_file T _ h f) FV NF H).
  - exact (files_same _ _ _ _ (fp_remove_from_file T _ h f) FV NF H).
Qed.

(* ---------- histories ---------- *)
Definition HInv (w : world) : Prop := Core w /\ AllOrd T v w /\ FilesV v w /\ NFE w.

Lemma hinv_empty : HInv empty_world.
Proof.
  split; [apply empty_core|]. split; [intros i n [=]|]. split; [intros k x H; destruct k; discriminate|].
  split; [intros i n [=]|reflexivity].
Qed.

Lemma hinv_step o w r w' : single_version v [o] = true -> HInv w ->
  run_op T tab_el tab_en check_fn LATEST root_attrs o w = Val (r, w') -> HInv w'.
Proof.
  intros SV (C & A & FV & NF) H.
  destruct (step_files o w r w' SV FV NF H) as (FV' & NF').
  split; [exact (Core_step T tab_el tab_en check_fn LATEST root_attrs o w r w' C H)|].
  split; [|auto]. exact (step_allord T WF tab_el tab_en check_fn LATEST root_attrs v o w r w' C A (mv_of_files w FV NF) H).
Qed.

Theorem hinv_histories : forall ops w w', single_version v ops = true -> HInv w ->
  run_ops T tab_el tab_en check_fn LATEST root_attrs ops w = Val w' -> HInv w'.
Proof.
  induction ops as [|o ops IH]; intros w w' SV I H; cbn [run_ops] in H.
  - injection H as <-. exact I.
  - cbn [single_version forallb] in SV. apply andb_true_iff in SV as [S1 S2].
    unfold Inv.run in H.
    destruct (run_op T tab_el tab_en check_fn LATEST root_attrs o w) as [[r w1]| |] eqn:E; try discriminate.
    apply (IH w1 w' S2); [|exact H]. apply (hinv_step o w r w1); auto.
    cbn [single_version forallb]. rewrite S1. reflexivity.
Qed.

Theorem order_histories : forall ops w, single_version v ops = true ->
  run_ops T tab_el tab_en check_fn LATEST root_attrs ops empty_world = Val w ->
  forall i n, w_nodes w i = Some n -> exists items, items_of w (n_content n) = Some items /\ Ordered T (n_type n) v items.
Proof. intros ops w SV H. exact (proj1 (proj2 (hinv_histories ops empty_world w SV hinv_empty H))). Qed.

End Hist.
