(* Tree/NoPanicProofsOps1.v — C12 (panic / loop half), layer 1: the operations that consist of a read-only prefix and
   at most one allocation + one content update: comment, attributes, character content items, remove_character_data,
   new_model, create_sub_element / _at, get_or_create_sub_element. *)
From Coq Require Import Lia.
From AV Require Import Base.Bytes Base.Outcome Hash.HashModel Spec.SpecOps Xml.TablesOk Tree.Heap Tree.Ops Tree.Script Tree.Inv.
From AV Require Import Tree.NoPanic Tree.NoPanicProofsBase.
Open Scope string_scope.
Open Scope list_scope.
Open Scope N_scope.

(* ------------------------------------------------------------------ primitive steps as equations *)
Definition wset (w : world) (i : id) (n : node) : world := mkWorld (upd (w_nodes w) i n) (w_next w) (w_files w) (w_models w).
Definition walloc (w : world) (n : node) : world := mkWorld (upd (w_nodes w) (w_next w) n) (w_next w + 1) (w_files w) (w_models w).
Definition wmodel (w : world) (m : N) (x : model) : world :=
  mkWorld (w_nodes w) (w_next w) (w_files w) (list_set (w_models w) (N.to_nat m) x).

Lemma get_node_val i w n : w_nodes w i = Some n -> get_node i w = Val (OK n, w).
Proof. intros E. unfold get_node. rewrite E. reflexivity. Qed.
Lemma set_node_val' i n w : set_node i n w = Val (OK tt, wset w i n). Proof. reflexivity. Qed.
Lemma modify_node_val i f w n : w_nodes w i = Some n -> modify_node i f w = Val (OK tt, wset w i (f n)).
Proof. intros E. unfold modify_node, wbind. rewrite (get_node_val _ _ _ E). reflexivity. Qed.
Lemma alloc_val n w : alloc n w = Val (OK (w_next w), walloc w n). Proof. reflexivity. Qed.
Lemma get_model_val m w x : nth_opt (w_models w) (N.to_nat m) = Some x -> get_model m w = Val (OK x, w).
Proof. intros E. unfold get_model. rewrite E. reflexivity. Qed.
Lemma modify_model_val m f w x : nth_opt (w_models w) (N.to_nat m) = Some x -> modify_model m f w = Val (OK tt, wmodel w m (f x)).
Proof. intros E. unfold modify_model, wbind. rewrite (get_model_val _ _ _ E). reflexivity. Qed.

Lemma upd_same f i n : upd f i n i = Some n. Proof. unfold upd. rewrite N.eqb_refl. reflexivity. Qed.
Lemma upd_other f i n x : x <> i -> upd f i n x = f x.
Proof. intros H. unfold upd. destruct (x =? i) eqn:E; [apply N.eqb_eq in E; congruence|reflexivity]. Qed.

Section Ops1.
Variable T : tables.
Variable tab_el tab_en : nametab.
Variable check_fn : N -> list N -> res bool.
Variable LATEST : N.
Variable root_attrs : list (N * cdata).
Hypothesis OK12 : tables_ok12 T = true.
Hypothesis CHECK : forall fn s, exists b, check_fn fn s = Val b.
Collection Env := T tab_el tab_en check_fn LATEST root_attrs OK12 CHECK.
Set Default Proof Using "Env".

Notation ENV f := (f T tab_el tab_en check_fn LATEST root_attrs OK12 CHECK) (only parsing).
Notation TOK := (ok12_tables T OK12) (only parsing).
Notation node_ok := (node_ok T tab_el tab_en).
Notation Closed := (Closed T tab_el tab_en).
Notation PanicFree := (PanicFree T tab_el tab_en).

Lemma runs_modify_node w i f : Closed w -> i < w_next w -> runs (modify_node i f) w.
Proof.
  intros C L. destruct (ENV get_node_ok w i C L) as (n & _ & E & _). eapply runs_val. apply modify_node_val. exact E.
Qed.

Lemma runs_modify_model w m f : m < N.of_nat (List.length (w_models w)) -> runs (modify_model m f) w.
Proof.
  intros L. destruct (nth_opt_lt (w_models w) (N.to_nat m) ltac:(lia)) as (x & E).
  eapply runs_val. apply modify_model_val. exact E.
Qed.

(* ---------- set_comment ---------- *)
Lemma np_set_comment w h c : PanicFree w -> h < w_next w -> runs (e_set_comment h c) w.
Proof. intros [C _ _] L. unfold e_set_comment. apply runs_modify_node; auto. Qed.

(* ---------- attributes ---------- *)
Lemma np_remove_attribute w h attr : PanicFree w -> h < w_next w -> runs (e_remove_attribute T h attr) w.
Proof.
  intros [C _ _] L. unfold e_remove_attribute.
  eapply rd_bind_runs; [apply (ENV rd_get_node w h (fun n => node_ok w n) C L); auto|]. intros n NO.
  destruct (index_of _ (n_attrs n)); [|apply runs_ret].
  destruct NO as (ET & _).
  destruct (find_attribute_spec_ok T TOK _ attr ET) as (r & E & _).
  eapply runs_bind; [apply wl_val; exact E|]. intros a [= <-].
  destruct r as [[[[c spec] req] ver]|]; [|apply runs_ret].
  destruct (req =? 0); [|apply runs_ret].
  eapply runs_bind; [apply set_node_val'|]. intros _ _. apply runs_ret.
Qed.

Lemma np_raw_set_attribute w h attr v version : Closed w -> h < w_next w -> runs (raw_set_attribute T check_fn h attr v version) w.
Proof.
  intros C L. unfold raw_set_attribute.
  eapply rd_bind_runs; [apply (ENV rd_get_node w h (fun n => node_ok w n) C L); auto|]. intros n NO.
  destruct NO as (ET & _).
  destruct (find_attribute_spec_ok T TOK _ attr ET) as (r & E & _).
  eapply runs_bind; [apply wl_val; exact E|]. intros a [= <-].
  destruct r as [[[[c spec] req] mask]|]; [|apply runs_fail].
  destruct (N.land version mask =? 0); [apply runs_fail|].
  destruct (ENV check_value_ok v spec version) as (b & EB).
  eapply runs_bind; [apply wl_val; exact EB|]. intros a [= <-].
  destruct b; [eapply runs_val; apply set_node_val'|apply runs_fail].
Qed.

Lemma np_set_attribute w h attr v : PanicFree w -> h < w_next w -> runs (e_set_attribute T check_fn LATEST h attr v) w.
Proof.
  intros [C U _] L. unfold e_set_attribute.
  eapply rd_bind_runs; [apply (ENV min_version_ok w h C U L)|]. intros version _.
  apply np_raw_set_attribute; auto.
Qed.

(* ---------- character content items ---------- *)
Lemma np_insert_citem w h text pos : PanicFree w -> h < w_next w -> runs (e_insert_character_content_item T h text pos) w.
Proof.
  intros [C _ _] L. unfold e_insert_character_content_item.
  eapply rd_bind_runs; [apply (ENV rd_get_node w h (fun n => node_ok w n) C L); auto|]. intros n NO.
  destruct NO as (ET & _). destruct (content_mode_ok T OK12 _ ET) as (mode & EM).
  eapply runs_bind; [apply wl_val; exact EM|]. intros a [= <-].
  destruct (mode =? MMixed); [|apply runs_fail].
  destruct (pos <=? _); [eapply runs_val; apply set_node_val'|apply runs_fail].
Qed.

Lemma np_remove_citem w h pos : PanicFree w -> h < w_next w -> runs (e_remove_character_content_item T h pos) w.
Proof.
  intros [C _ _] L. unfold e_remove_character_content_item.
  eapply rd_bind_runs; [apply (ENV rd_get_node w h (fun n => node_ok w n) C L); auto|]. intros n NO.
  destruct NO as (ET & _). destruct (content_mode_ok T OK12 _ ET) as (mode & EM).
  eapply runs_bind; [apply wl_val; exact EM|]. intros a [= <-].
  destruct (mode =? MMixed); [|apply runs_fail].
  destruct (nth_opt (n_content n) (N.to_nat pos)) as [[c|d]|]; try apply runs_fail.
  eapply runs_val; apply set_node_val'.
Qed.

(* ---------- remove_character_data ---------- *)
Lemma np_remove_cdata w h : PanicFree w -> h < w_next w -> runs (e_remove_character_data T h) w.
Proof.
  intros [C U _] L. unfold e_remove_character_data.
  destruct (ENV get_node_ok w h C L) as (n & EG & EN & NO).
  eapply runs_bind; [exact EG|]. intros a [= <-].
  pose proof NO as (ET & _). destruct (content_mode_ok T OK12 _ ET) as (mode & EM).
  eapply runs_bind; [apply wl_val; exact EM|]. intros a [= <-].
  destruct (negb (mode =? MCharacters)); [apply runs_fail|].
  destruct (n_name n =? SHORT T); [apply runs_fail|].
  destruct (ENV character_data_ok w n NO) as (cd & ECD).
  eapply runs_bind; [apply wl_val; exact ECD|]. intros a [= <-].
  destruct cd as [d|]; [|apply runs_ret].
  destruct (is_ref_ok T TOK _ ET) as (isr & EI).
  eapply runs_bind; [apply wl_val; exact EI|]. intros a [= <-].
  eapply (runsQ_bind_runs _ _ _ (fun _ w1 => w_nodes w1 = w_nodes w)).
  - destruct isr; [|eapply runsQ_val; [reflexivity|reflexivity]].
    eapply runsQ_bind; [apply rd_runsQ; apply (ENV model_of_ok w h C U L)| |intros e w1 [-> _]; reflexivity].
    intros m w1 [-> F]. specialize (F m eq_refl).
    destruct d; try (eapply runsQ_val; [reflexivity|reflexivity]).
    destruct (nth_opt_lt (w_models w) (N.to_nat m) ltac:(lia)) as (x & EX).
    eapply runsQ_val; [apply modify_model_val; exact EX|reflexivity].
  - intros _ w1 EW. eapply runs_val. apply (modify_node_val h _ w1 n). rewrite EW. exact EN.
Qed.

(* ---------- AutosarModel::new ---------- *)
Lemma np_new_model w : runs (new_model T root_attrs) w.
Proof.
  destruct (root_ok T TOK) as (e & t & EE & ET & _). unfold new_model, runs. rewrite ET, EE. eauto.
Qed.

(* ---------- create_sub_element ---------- *)
Lemma content_insert_runs w self pos it n : w_nodes w self = Some n -> pos <= N.of_nat (List.length (n_content n)) ->
  runs (content_insert self pos it) w.
Proof.
  intros E LE. unfold content_insert. eapply runs_bind; [apply get_node_val; exact E|]. intros a [= <-].
  destruct (N.of_nat (List.length (n_content n)) <? pos) eqn:EL; [apply N.ltb_lt in EL; lia|].
  eapply runs_val. apply set_node_val'.
Qed.

Lemma np_create_sub_element_inner w self n name pos version : Closed w -> self < w_next w -> w_nodes w self = Some n ->
  pos <= N.of_nat (List.length (n_content n)) -> runs (create_sub_element_inner T self name pos version) w.
Proof.
  intros C L EN LE. unfold create_sub_element_inner.
  eapply runs_bind; [apply get_node_val; exact EN|]. intros a [= <-].
  pose proof (cl_node _ _ _ _ C _ _ EN) as (ET & _).
  destruct (find_sub_element_total T TOK (n_type n) name version ET) as (f & EF & FO).
  eapply runs_bind; [apply wl_val; exact EF|]. intros a [= <-].
  destruct f as [[et idx]|]; [|apply runs_fail]. destruct FO as [ETN _].
  destruct (is_named_in_version_ok T TOK et version ETN) as (b & EB).
  eapply runs_bind; [apply wl_val; exact EB|]. intros a [= <-].
  destruct b; [apply runs_fail|].
  eapply runs_bind; [apply alloc_val|]. intros c [= <-].
  apply runs_then; [|intros; apply runs_ret].
  assert (E1 : w_nodes (walloc w (new_node (PElem self) name et)) self = Some n).
  { cbn [walloc w_nodes]. rewrite upd_other; [exact EN|lia]. }
  exact (content_insert_runs _ self pos (CElem (w_next w)) n E1 LE).
Qed.

Lemma np_raw_create_sub_element w self name version : Closed w -> self < w_next w ->
  runs (raw_create_sub_element T self name version) w.
Proof.
  intros C L. unfold raw_create_sub_element.
  destruct (ENV get_node_ok w self C L) as (n & EG & EN & NO).
  eapply runs_bind; [exact EG|]. intros a [= <-].
  eapply rd_bind_runs; [apply (ENV calc_range_ok w n name version C NO)|]. intros [s e] [_ LE].
  eapply np_create_sub_element_inner; eauto.
Qed.

Lemma np_raw_create_sub_element_at w self name pos version : Closed w -> self < w_next w ->
  runs (raw_create_sub_element_at T self name pos version) w.
Proof.
  intros C L. unfold raw_create_sub_element_at.
  destruct (ENV get_node_ok w self C L) as (n & EG & EN & NO).
  eapply runs_bind; [exact EG|]. intros a [= <-].
  eapply rd_bind_runs; [apply (ENV calc_range_ok w n name version C NO)|]. intros [s e] [_ LE]. cbn [fst snd] in LE.
  destruct ((s <=? pos) && (pos <=? e)) eqn:B; [|apply runs_fail].
  apply andb_true_iff in B as [_ B]. apply N.leb_le in B.
  eapply np_create_sub_element_inner; eauto. lia.
Qed.

Lemma np_create_sub_element w h name : PanicFree w -> h < w_next w -> runs (e_create_sub_element T LATEST h name) w.
Proof.
  intros [C U _] L. unfold e_create_sub_element.
  eapply rd_bind_runs; [apply (ENV min_version_ok w h C U L)|]. intros v _. apply np_raw_create_sub_element; auto.
Qed.

Lemma np_create_sub_element_at w h name pos : PanicFree w -> h < w_next w -> runs (e_create_sub_element_at T LATEST h name pos) w.
Proof.
  intros [C U _] L. unfold e_create_sub_element_at.
  eapply rd_bind_runs; [apply (ENV min_version_ok w h C U L)|]. intros v _. apply np_raw_create_sub_element_at; auto.
Qed.

(* ---------- get_sub_element / get_or_create_sub_element ---------- *)
Lemma first_named_ok w name l : Closed w -> (forall c, In (CElem c) l -> c < w_next w) ->
  rd (first_named name l) w (fun r => match r with Some c => c < w_next w | None => True end).
Proof.
  intros C. induction l as [|[c|d] rest IH]; intros KIDS; cbn [first_named].
  - apply rd_ret. exact I.
  - eapply rd_bind; [apply (ENV rd_get_node w c (fun _ => True) C); [apply KIDS; left; reflexivity|auto]|]. intros cn _.
    destruct (n_name cn =? name); [apply rd_ret; apply KIDS; left; reflexivity|].
    apply IH. intros c0 H. apply KIDS. right. exact H.
  - apply IH. intros c0 H. apply KIDS. right. exact H.
Qed.

Lemma get_sub_element_ok w h name : Closed w -> h < w_next w ->
  rd (get_sub_element h name) w (fun r => match r with Some c => c < w_next w | None => True end).
Proof.
  intros C L. unfold get_sub_element.
  eapply rd_bind; [apply (ENV rd_get_node w h (fun n => node_ok w n) C L); auto|]. intros n (_ & _ & KIDS & _).
  apply first_named_ok; auto.
Qed.

Lemma np_get_or_create w h name : PanicFree w -> h < w_next w -> runs (e_get_or_create_sub_element T LATEST h name) w.
Proof.
  intros [C U _] L. unfold e_get_or_create_sub_element.
  eapply rd_bind_runs; [apply (ENV min_version_ok w h C U L)|]. intros v _.
  eapply rd_bind_runs; [apply (get_sub_element_ok w h name C L)|]. intros [c|] _; [apply runs_ret|].
  apply np_raw_create_sub_element; auto.
Qed.

End Ops1.
