(* Tree/IndexProofsAllB.v — C04/C05, all 26 constructors with the smaller class Known05b (Tree/RefsAllB.v): for copies the duplicate
   check on the walk of the copy is gone (derived: Tree/IndexProofsCopyC.v).  What the copy clauses still decide by running the
   model: a failed copy that allocated nodes; two identifiable elements of the copy with one path (possible when the version
   filter drops the SHORT-NAME of two named containers); a copy that is not identifiable itself holding an element whose path is
   already in the destination's index (finding C04-copy-container-duplicates-paths). *)
From AV Require Import Base.Bytes Base.Outcome Hash.HashModel Tree.Heap Tree.Ops Tree.Script Tree.Inv Tree.InvProofs.
From AV Require Import Tree.Index Tree.IndexProofsBase Tree.IndexProofs Tree.Refs Tree.RefsProofsOps Tree.IndexProofsBridge Tree.IndexProofsTablesReal Spec.SpecReal Tree.CheckFn
  Tree.RefsAll Tree.RefsAllB Tree.IndexProofsNodeInv Tree.IndexProofsAll Tree.IndexProofsCopyC.
Open Scope string_scope.
Open Scope list_scope.
Open Scope N_scope.

Section AllB.
Variable T : tables.
Variable tab_el tab_en : nametab.
Variable check_fn : N -> list N -> res bool.
Variable LATEST : N.
Variable root_attrs : list (N * cdata).
Hypothesis TK : TablesOK T check_fn.
Hypothesis RootTy : forall ty, et_new T (autosar_element T) = Val ty -> plainty T ty.

Notation Inv04 := (Inv04 T check_fn).
Notation run := (run_op T tab_el tab_en check_fn LATEST root_attrs).
Notation run_ops := (Inv.run_ops T tab_el tab_en check_fn LATEST root_attrs).
Notation Known03 := (Inv.Known T tab_el tab_en check_fn LATEST root_attrs).
Notation Known04a := (Known04a T LATEST).
Notation Known05b := (Known05b T tab_el tab_en check_fn LATEST root_attrs).
Notation RX := (RX T).

Theorem C45_inv_allb w o r w' :
  TreeFacts w -> Inv04 w -> Inv05 T w -> RX w ->
  Known04a w o = false -> Known05b w o = false ->
  run o w = Val (r, w') -> Inv04 w' /\ Inv05 T w'.
Proof.
  intros HF H4 H5 HX K4 K5 H.
  eapply (C45_inv_all T tab_el tab_en check_fn LATEST root_attrs TK w o r w'); eauto.
  eapply (known05b_a T check_fn tab_el tab_en LATEST root_attrs); eauto.
Qed.

Fixpoint steps_ok_allb (l : list op) (w : world) : Prop :=
  match l with
  | [] => True
  | o :: rest =>
    TreeFacts w /\ Known04a w o = false /\ Known05b w o = false /\
    match run o w with Val (_, w') => steps_ok_allb rest w' | _ => True end
  end.

Theorem C45_history_allb l : forall w w',
  Inv04 w -> Inv05 T w -> RX w -> steps_ok_allb l w ->
  run_hist T tab_el tab_en check_fn LATEST root_attrs l w = Val w' -> Inv04 w' /\ Inv05 T w' /\ RX w'.
Proof.
  induction l as [|o rest IH]; intros w w' HI4 HI5 HX Hok H; cbn in *.
  - injection H as <-. auto.
  - destruct Hok as (HF & HK4 & HK5 & Hrest). destruct (run o w) as [[r w1]| |] eqn:E; try discriminate.
    destruct (C45_inv_allb w o r w1 HF HI4 HI5 HX HK4 HK5 E) as (H1 & H2).
    eapply IH; eauto. eapply (RX_step T tab_el tab_en check_fn LATEST root_attrs TK RootTy); eauto.
Qed.

(* no step of the history is in a finding class of C03/C04/C05; there is no pending constructor *)
Fixpoint clean45b (l : list op) (w : world) : bool :=
  match l with
  | [] => true
  | o :: rest =>
    negb (Known03 w o) && negb (Known04a w o) && negb (Known05b w o)
    && match run o w with Val (_, w') => clean45b rest w' | _ => true end
  end.

Lemma clean45b_steps l : forall w, TreeInv w -> clean45b l w = true -> steps_ok_allb l w.
Proof.
  induction l as [|o l IH]; intros w HT Hc; cbn in *; [exact I|].
  repeat (apply andb_true_iff in Hc as (Hc & ?)).
  repeat match goal with H : negb _ = true |- _ => apply negb_true_iff in H end.
  split; [apply treeinv_treefacts; exact HT|]. repeat (split; [assumption|]).
  destruct (run o w) as [[r w1]| |] eqn:E; try exact I. apply IH; [|assumption].
  eapply TreeInv_step; eauto.
Qed.

Theorem C04_C05_history_allb l w' :
  clean45b l empty_world = true -> run_ops l empty_world = Val w' ->
  TreeFacts w' /\ Inv04 w' /\ Inv05 T w'.
Proof.
  intros Hc H.
  assert (HT : TreeInv w').
  { eapply TreeInv_histories; [apply empty_treeinv| |exact H].
    clear H. revert Hc. generalize empty_world. induction l as [|o l IH]; intros w Hc; cbn in *; [reflexivity|].
    repeat (apply andb_true_iff in Hc as (Hc & ?)). apply andb_true_iff. split; [assumption|].
    unfold Inv.run. destruct (run o w) as [[r w1]| |]; auto. }
  split; [apply treeinv_treefacts; exact HT|].
  assert (G : Inv04 w' /\ Inv05 T w' /\ RX w').
  { apply (C45_history_allb l empty_world w').
    - apply Inv04_empty.
    - apply Inv05_empty.
    - apply empty_RX.
    - apply clean45b_steps; [apply empty_treeinv|exact Hc].
    - rewrite run_hist_run_ops. exact H. }
  destruct G as (H1 & H2 & _). auto.
Qed.

End AllB.

Theorem C04_C05_history_allb_rt (dfas : N -> option (list (list N) * list N)) (tab_el tab_en : nametab) (LATEST : N)
        (root_attrs : list (N * cdata)) l w' :
  clean45b RT tab_el tab_en (check_fn_model dfas) LATEST root_attrs l empty_world = true ->
  Inv.run_ops RT tab_el tab_en (check_fn_model dfas) LATEST root_attrs l empty_world = Val w' ->
  TreeFacts w' /\ Inv04 RT (check_fn_model dfas) w' /\ Inv05 RT w'.
Proof. apply C04_C05_history_allb; [apply real_tables_ok|exact real_root_plain]. Qed.
