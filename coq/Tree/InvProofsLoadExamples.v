(* Tree/InvProofsLoadExamples.v — C03 over OpLoad on the tiny tables of Tree/MergeSpec.v (TinyM):
     * the class Known_load_shared is real: a merge that uses ONE incoming element as the partner of TWO model elements
       succeeds and leaves an element listed by two parents (Core REFUTED for that load), and merge_shared flags it;
     * non-vacuity: the two files of TinyM.master are loaded one after the other, merge_shared is false, and Core of the
       result follows from load_parsed_core (not from computing the result). *)
From Coq Require Import PeanoNat Arith Lia.
From AV Require Import Base.Bytes Base.Outcome Hash.HashModel Tree.Heap Tree.Ops Tree.Script Tree.Inv
  Tree.InvProofsBase Tree.InvProofsPrim Tree.InvProofsFiles Tree.InvProofs Tree.Load Tree.MergeSpec
  Tree.InvLoad Tree.InvProofsLoadBase Tree.InvProofsLoad Tree.InvProofsChars Tree.InvProofsOrigins3 Tree.InvEBase
  Tree.InvProofsLoadLive Tree.InvProofsLoadRej.
From AV Require Tree.LoadProofsRefuted.
From AV Require Xml.Parser.
Open Scope string_scope.
Open Scope list_scope.
Open Scope N_scope.
Import TinyM.

Lemma new_world_core : Core new_world.
Proof.
  assert (E : new_model tiny [] empty_world = Val (OK 0, new_world)) by (vm_compute; reflexivity).
  exact (proj1 (Pres_new_model tiny [] _ _ _ E empty_core)).
Qed.

(* ---------- the finding ---------- *)
(* the model holds two UNIT elements without SHORT-NAME (same merge key); the incoming file has ONE UNIT (with a
   SHORT-NAME) followed by an element of another kind *)
Definition shared_a : Parser.etree :=
  plain nAUTOSAR [plain nPKGS [named nPKG "p" [plain nELEMENTS [plain nUNIT []; plain nUNIT []]]]].
Definition shared_b : Parser.etree :=
  plain nAUTOSAR [plain nPKGS [named nPKG "p" [plain nELEMENTS [named nUNIT "v" []; named nSYSTEM "s" []]]]].

Definition w_shared_a : world := match load_tree "a" shared_a new_world with Val (_, w) => w | _ => new_world end.
Definition w_shared_b : world := match load_tree "b" shared_b w_shared_a with Val (_, w) => w | _ => new_world end.

(* the state in which merge_file_data runs for the second file *)
Definition w_shared_mp : world :=
  match install PNone shared_b w_shared_a with
  | Val (_, w1) => mkWorld (w_nodes w1) (w_next w1) (w_files w1 ++ [mkFile 0 (BS "b") (Parser.p_version (pstate_of tiny 2 shared_b)) (Parser.p_standalone (pstate_of tiny 2 shared_b))]) (w_models w1)
  | _ => new_world
  end.

(* the hypothesis of load_parsed_core fails here: the class is not empty *)
Example load_shared_flagged :
  exists t w1 x,
    install PNone shared_b w_shared_a = Val (OK t, w1) /\
    nth_opt (w_models w_shared_mp) 0 = Some x /\ is_empty (m_files x) = false /\
    merge_shared tiny LATEST DEFREF (fuel_of w_shared_mp) (m_root x) (fold_right set_add [] (m_files x)) (it_id t)
                 (N.of_nat (List.length (w_files w_shared_a))) w_shared_mp = true.
Proof.
  destruct (install PNone shared_b w_shared_a) as [[[t|e] w1]| |] eqn:Ei; try (vm_compute in Ei; discriminate Ei).
  destruct (nth_opt (w_models w_shared_mp) 0) as [x|] eqn:Ex; [|vm_compute in Ex; discriminate Ex].
  exists t, w1, x. split; [reflexivity|]. split; [reflexivity|].
  vm_compute in Ei. injection Ei as <- <-. vm_compute in Ex. injection Ex as <-.
  split; vm_compute; reflexivity.
Qed.

(* both loads succeed; afterwards the SHORT-NAME (node 14) of the incoming UNIT is listed by both UNITs of the model
   (nodes 6 and 7), its parent link names node 7 *)
Example load_shared_refuted :
  load_tree "a" shared_a new_world = Val (OK 0, w_shared_a) /\
  load_tree "b" shared_b w_shared_a = Val (OK 1, w_shared_b) /\
  lists w_shared_b 6 14 /\ lists w_shared_b 7 14 /\ par w_shared_b 14 7 /\ ~ par w_shared_b 14 6 /\
  ~ Core w_shared_b.
Proof.
  assert (L6 : lists w_shared_b 6 14).
  { unfold lists. destruct (w_nodes w_shared_b 6) as [n|] eqn:E; [|vm_compute in E; discriminate E].
    exists n. split; auto. vm_compute in E. injection E as <-. vm_compute. auto. }
  assert (NP : ~ par w_shared_b 14 6).
  { intros (n & Hn & Hp). vm_compute in Hn. injection Hn as <-. vm_compute in Hp. discriminate Hp. }
  split; [vm_compute; reflexivity|]. split; [vm_compute; reflexivity|]. split; [exact L6|].
  split.
  { unfold lists. destruct (w_nodes w_shared_b 7) as [n|] eqn:E; [|vm_compute in E; discriminate E].
    exists n. split; auto. vm_compute in E. injection E as <-. vm_compute. auto. }
  split.
  { unfold par. destruct (w_nodes w_shared_b 14) as [n|] eqn:E; [|vm_compute in E; discriminate E].
    exists n. split; auto. vm_compute in E. injection E as <-. vm_compute. reflexivity. }
  split; [exact NP|]. intros C. apply NP. apply (c_up _ C). exact L6.
Qed.

(* ---------- non-vacuity ---------- *)
Definition w_f0 : world := match load_tree "f0" file0 new_world with Val (_, w) => w | _ => new_world end.
Definition w_f01 : world := match load_tree "f1" file1 w_f0 with Val (_, w) => w | _ => new_world end.

Lemma w_f0_core : Core w_f0.
Proof.
  apply (load_parsed_core tiny LATEST DEFREF 0 (BS "f0") file0 (pstate_of tiny 2 file0) new_world (OK 0) w_f0 new_world_core).
  - intros t w1 x Ei w2 Hx Hf. exfalso. vm_compute in Ei. injection Ei as <- <-.
    vm_compute in Hx. injection Hx as <-. vm_compute in Hf. discriminate Hf.
  - discriminate.
  - vm_compute. reflexivity.
Qed.

(* the second file is merged into the first: the class is empty here, Core follows from the theorem *)
Example load_master_core :
  load_tree "f0" file0 new_world = Val (OK 0, w_f0) /\ load_tree "f1" file1 w_f0 = Val (OK 1, w_f01) /\ Core w_f01.
Proof.
  split; [vm_compute; reflexivity|]. split; [vm_compute; reflexivity|].
  apply (load_parsed_core tiny LATEST DEFREF 0 (BS "f1") file1 (pstate_of tiny 2 file1) w_f0 (OK 1) w_f01 w_f0_core).
  - intros t w1 x Ei w2 Hx Hf. vm_compute in Ei. injection Ei as <- <-.
    vm_compute in Hx. injection Hx as <-. vm_compute. reflexivity.
  - discriminate.
  - vm_compute. reflexivity.
Qed.

(* ---------- a REJECTED load (agent-c09's conflict example): Core of the result by load_parsed_core_full ---------- *)
Definition w_rej_before : world :=
  match load_tree "a" LoadProofsRefuted.conf_a new_world with Val (_, w) => w | _ => new_world end.
Definition w_rej_after : world :=
  match load_tree "b" LoadProofsRefuted.conf_b w_rej_before with Val (_, w) => w | _ => new_world end.

Lemma w_rej_before_core : Core w_rej_before.
Proof.
  apply (load_parsed_core tiny LATEST DEFREF 0 (BS "a") LoadProofsRefuted.conf_a (pstate_of tiny 2 LoadProofsRefuted.conf_a)
                          new_world (OK 0) w_rej_before new_world_core).
  - intros t w1 x Ei w2 Hx Hf. exfalso. vm_compute in Ei. injection Ei as <- <-.
    vm_compute in Hx. injection Hx as <-. vm_compute in Hf. discriminate Hf.
  - discriminate.
  - vm_compute. reflexivity.
Qed.

Example load_rejected_core :
  load_tree "b" LoadProofsRefuted.conf_b w_rej_before = Val (ER InvalidFileMerge, w_rej_after) /\ Core w_rej_after.
Proof.
  split; [vm_compute; reflexivity|].
  apply (load_parsed_core_full tiny LATEST DEFREF 0 (BS "b") LoadProofsRefuted.conf_b
           (pstate_of tiny 2 LoadProofsRefuted.conf_b) w_rej_before (ER InvalidFileMerge) w_rej_after w_rej_before_core).
  - intros t w1 x Ei w2 Hx Hf. vm_compute in Ei. injection Ei as <- <-.
    vm_compute in Hx. injection Hx as <-. vm_compute. reflexivity.
  - vm_compute. reflexivity.
Qed.

(* ---------- RealInvL of the merged master, by load_parsed_real ---------- *)
Fixpoint echarsb (e : Parser.etree) : bool :=
  match e with
  | Parser.ENode _ ty _ content _ =>
    (match content_mode tiny ty with
     | Val m => negb (m =? MCharacters) || forallb (fun it => match it with inl _ => false | inr _ => true end) content
     | _ => true
     end) &&
    forallb (fun it => match it with inl c => echarsb c | inr _ => true end) content
  end.

Lemma echarsb_sound : forall e, echarsb e = true -> EChars tiny e.
Proof.
  fix IH 1. intros [name ty attrs content comment] H. cbn [echarsb] in H. apply andb_prop in H as (H1 & H2).
  constructor.
  - intros CM c Hc. rewrite CM in H1. rewrite N.eqb_refl in H1. cbn in H1. rewrite forallb_forall in H1.
    specialize (H1 _ Hc). discriminate H1.
  - clear H1. revert H2. induction content as [|[c0|d] rest IHc]; intros H2 c Hc; [destruct Hc| |].
    + cbn [forallb] in H2. apply andb_prop in H2 as (Ha & Hb). destruct Hc as [E|Hc].
      * injection E as <-. apply IH. exact Ha.
      * apply IHc; auto.
    + cbn [forallb] in H2. destruct Hc as [E|Hc]; [discriminate E|]. apply IHc; auto.
Qed.

Lemma new_world_real : RealInvL tiny new_world.
Proof.
  assert (Hn : forall i n, w_nodes new_world i = Some n -> i = 0 /\ kids n = [] /\ n_parent n = PModel 0).
  { intros i n H. unfold new_world in H. cbn in H. unfold upd in H. destruct (i =? 0) eqn:E; [|discriminate H].
    apply N.eqb_eq in E. injection H as <-. auto. }
  split; [split; [exact new_world_core|]|split].
  - intros c p (n & Hc & Hp). destruct (Hn _ _ Hc) as (_ & _ & Hpm). congruence.
  - intros i n Hi _. apply (Hn _ _ Hi).
  - intros re (x & k & l & Hx & Hk & _). cbn in Hx. destruct Hx as [<-|[]]. destruct Hk.
Qed.

Lemma w_f0_real : RealInvL tiny w_f0.
Proof.
  apply (load_parsed_real tiny LATEST DEFREF 0 (BS "f0") file0 (pstate_of tiny 2 file0) new_world (OK 0) w_f0 new_world_real).
  - apply echarsb_sound. vm_compute. reflexivity.
  - intros key pos sub Hin. vm_compute in Hin. destruct Hin.
  - intros t w1 x Ei w2 Hx Hf. exfalso. vm_compute in Ei. injection Ei as <- <-.
    vm_compute in Hx. injection Hx as <-. vm_compute in Hf. discriminate Hf.
  - discriminate.
  - vm_compute. reflexivity.
Qed.

Example load_master_real : RealInvL tiny w_f01.
Proof.
  apply (load_parsed_real tiny LATEST DEFREF 0 (BS "f1") file1 (pstate_of tiny 2 file1) w_f0 (OK 1) w_f01 w_f0_real).
  - apply echarsb_sound. vm_compute. reflexivity.
  - intros key pos sub Hin. vm_compute in Hin. destruct Hin.
  - intros t w1 x Ei w2 Hx Hf. vm_compute in Ei. injection Ei as <- <-.
    vm_compute in Hx. injection Hx as <-. vm_compute. reflexivity.
  - discriminate.
  - vm_compute. reflexivity.
Qed.
