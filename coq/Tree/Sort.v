(* Tree/Sort.v — model of Element::cmp (impl Ord for Element, element.rs), decompose_item_name, CharacterData::cmp and
   Attribute::cmp (chardata.rs / lib.rs), ElementRaw::sort (elementraw.rs) and AutosarModel::sort.
   STUB: the interface below is fixed (Tree/Script2.v and the drivers use it); the bodies are placeholders until the
   model is written.  MODEL ONLY: definitions, no proofs. *)
From AV Require Import Base.Bytes Base.Outcome Hash.HashModel Tree.Heap Tree.Ops.
Open Scope string_scope.
Open Scope N_scope.

Section Sort.
Variable T : tables.
Variable tab_el tab_en : nametab.
Variable name_index name_definition_ref : N.     (* ElementName::Index, ElementName::DefinitionRef *)

(* Element::cmp(a, b) *)
Definition elem_cmp (a b : id) : W comparison :=
  let _ := (T, tab_el, tab_en, name_index, name_definition_ref) in wpanic "UNMODELLED: Element::cmp".
(* Element::sort *)
Definition e_sort (i : id) : W unit :=
  let _ := (T, tab_el, tab_en, name_index, name_definition_ref) in wpanic "UNMODELLED: Element::sort".
(* AutosarModel::sort *)
Definition m_sort (m : N) : W unit := (do x <- get_model m; e_sort (m_root x))%W.
End Sort.
