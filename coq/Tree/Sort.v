(* Tree/Sort.v — model of Element::cmp (impl Ord for Element, element.rs), decompose_item_name, CharacterData::cmp
   (chardata.rs), Attribute::cmp and the derived Ord of ElementContent (lib.rs), CharacterData::parse_integer::<u64>
   (the part cmp uses), ElementRaw::sort (elementraw.rs), Element::sort and AutosarModel::sort.

   Rust                                                model
   --------------------------------------------------  ----------------------------------------------------------
   impl Ord for Element :: cmp                         cmp_f (fuel) / elem_cmp : the seven stages, in the Rust's order
     element_name().to_str().cmp(..)                     lex_cmp of the ElementName strings (byte-wise = str::cmp)
     get_sub_element(Index)...parse_integer::<u64>()     index_key  (first child of that name; character_data rule)
     item_name() x item_name() + decompose_item_name     name_cmp   (stage applies only if BOTH have a name)
     get_sub_element(DefinitionRef)...string_value()     defref_key (stage applies only if BOTH have one)
     attribute_value(Dest).enum_value()                  dest_key   (Some < None)
     content.cmp(..).then(attributes.cmp(..))            content_cmp (slice Ord, derived Ord of ElementContent:
                                                         Element(_) < CharacterData(_), Element by Element::cmp recursively,
                                                         CharacterData by cdata_cmp) then attrs_cmp (Attribute::cmp:
                                                         attrname.to_str() then content)
   impl Ord for CharacterData                          cdata_cmp  (Enum < String < UnsignedInteger < Float)
   decompose_item_name                                 decompose  (maximal ASCII digit suffix parsed as u64)
   ElementRaw::sort                                    sort_f     (children first; find_sub_element(name, u32::MAX).unwrap();
                                                         sort_by(indices.cmp.then(elem.cmp)))
   slice::sort_by                                      ANY function srt (a Section variable of SortWith); theorems are
                                                         stated for every srt with StableSort srt; `isort` (stable insertion
                                                         sort) is the instance that runs.

   The three places where the comparison was changed by `fix:` commits in /repo are collected in a `policy`:
   [policy_cur] is the code as it stands (and what e_sort / elem_cmp use), [policy_v0] the code before the fixes
   (kept for the refutation theorems C14_v0_* : the defects as found).

   Element::cmp never changes the state and cannot fail, so it is modelled as a pure function of the world into `res`
   (Pan only for a dangling node id / a name discriminant outside its string table, which have no Rust counterpart;
   Fuel only on a cyclic heap, where the Rust recursion would not terminate).
   The keys of both elements (name string, INDEX value, item name, DEFINITION-REF text, DEST string) are computed first,
   then the stages run; the Rust computes each key just before its stage, which only matters for WHICH model-only Pan is
   reported.  `a.then(b)` evaluates b before the call: content and attributes are both compared.

   The comparator given to sort_by can only be applied to the elements when it is a function: ElementRaw::sort first
   evaluates Element::cmp on every ordered pair of children (any Pan/Fuel among them is the result) and then sorts with the
   resulting total function.  Since Element::cmp has no panic site in the Rust, this agrees with the Rust on every heap.

   MODEL ONLY: definitions + Examples, no proofs (Tree/SortProofs*.v). *)
From Coq Require Import Permutation.
From AV Require Import Base.Bytes Base.Outcome Base.Radix Hash.HashModel Tree.Heap Tree.Ops.
Open Scope string_scope.
Open Scope list_scope.
Open Scope N_scope.

(* ------------------------------------------------------------------ std pieces *)
(* Ordering::then *)
Definition cthen (a b : comparison) : comparison := match a with Eq => b | _ => a end.

(* u64 from text / value: CharacterData::parse_integer::<u64>.
   (Value/CharData.v has the generic parse_integer over (signed, bits); this is its (false, 64) instance written over
   Base/Radix.v so that the tree model does not depend on ZArith.) *)
Definition parse_integer_u64 (d : cdata) : option N :=
  match d with
  | DString text =>
    if bytes_eqb text [48] then Some 0
    else match strip_prefix [48; 120] text with Some h => from_str_radix_u 64 16 h | None =>
         match strip_prefix [48; 88] text with Some h => from_str_radix_u 64 16 h | None =>
         match strip_prefix [48; 98] text with Some b => from_str_radix_u 64 2 b | None =>
         match strip_prefix [48; 66] text with Some b => from_str_radix_u 64 2 b | None =>
         match strip_prefix [48] text with Some o => from_str_radix_u 64 8 o | None =>
         from_str_radix_u 64 10 text end end end end end
  | DUInt v => Some v
  | _ => None
  end.

(* f64 comparison on the bit patterns (f64::to_bits) *)
Definition P63 : N := 9223372036854775808.
Definition f64_mag (b : N) : N := b mod P63.
Definition f64_nan (b : N) : bool := 9218868437227405312 <? f64_mag b.        (* exponent all ones, fraction non-zero *)
(* monotone key of a non-NaN value: -0 and +0 share a key *)
Definition f64_key (b : N) : N :=
  if f64_mag b =? 0 then P63 else if b <? P63 then P63 + f64_mag b else P63 - f64_mag b.
(* f64::partial_cmp *)
Definition f64_partial_cmp (a b : N) : option comparison :=
  if f64_nan a || f64_nan b then None else Some (f64_key a ?= f64_key b).
(* f64::total_cmp *)
Definition f64_total_key (b : N) : N := if b <? P63 then P63 + b else P63 - 1 - f64_mag b.
Definition f64_total_cmp (a b : N) : comparison := f64_total_key a ?= f64_total_key b.

(* ------------------------------------------------------------------ decompose_item_name *)
Definition is_digit (c : N) : bool := (48 <=? c) && (c <=? 57).

(* name = base ++ digits, digits the maximal suffix of ASCII digits (the `while pos > 0 && is_ascii_digit` loop) *)
Fixpoint split_digits (s : list N) : list N * list N :=
  match s with
  | [] => ([], [])
  | c :: r =>
    let (b, d) := split_digits r in
    match b with
    | [] => if is_digit c then ([], c :: d) else ([c], d)
    | _ :: _ => (c :: b, d)
    end
  end.

(* name[pos..].parse::<u64>() : Err on the empty string and on overflow *)
Definition decompose (name : list N) : option (list N * N) :=
  let (b, d) := split_digits name in
  match from_str_radix_u 64 10 d with Some i => Some (b, i) | None => None end.

(* the item-name stage for two names BEFORE fix C14-name-cycle:
   both decompose and the bases are equal -> numeric suffixes, then (or otherwise) the full names as strings *)
Definition name_cmp_v0 (n1 n2 : list N) : comparison :=
  match decompose n1, decompose n2 with
  | Some (b1, i1), Some (b2, i2) =>
    if list_eqbN b1 b2 then match i1 ?= i2 with Eq => lex_cmp n1 n2 | c => c end else lex_cmp n1 n2
  | _, _ => lex_cmp n1 n2
  end.

(* ... and as the code stands: (base, Option<index>, full name) lexicographically, a name that does not decompose being
   its own base with no index (None < Some) *)
Definition name_key (n : list N) : list N * option N :=
  match decompose n with Some (b, i) => (b, Some i) | None => (n, None) end.
Definition opt_cmp {K} (kc : K -> K -> comparison) (a b : option K) : comparison :=   (* derived Ord of Option: None < Some *)
  match a, b with
  | None, None => Eq | None, Some _ => Lt | Some _, None => Gt | Some x, Some y => kc x y
  end.
Definition name_cmp (n1 n2 : list N) : comparison :=
  let (b1, i1) := name_key n1 in let (b2, i2) := name_key n2 in
  cthen (lex_cmp b1 b2) (cthen (opt_cmp N.compare i1 i2) (lex_cmp n1 n2)).

(* ------------------------------------------------------------------ StableSort: what is assumed of slice::sort_by *)
Definition eqv {A} (c : A -> A -> comparison) (x y : A) : bool := match c x y with Eq => true | _ => false end.
Definition leb {A} (c : A -> A -> comparison) (x y : A) : bool := match c x y with Gt => false | _ => true end.

(* c is a total preorder on the members of l *)
Record TotalPreorderOn {A} (c : A -> A -> comparison) (P : A -> Prop) : Prop := {
  tp_refl : forall x, P x -> c x x = Eq;
  tp_swap : forall x y, P x -> P y -> c y x = CompOpp (c x y);
  tp_trans : forall x y z, P x -> P y -> P z -> c x y <> Gt -> c y z <> Gt -> c x z <> Gt
}.

Fixpoint sorted_by {A} (c : A -> A -> comparison) (l : list A) : Prop :=
  match l with
  | [] => True
  | x :: r => (forall y, In y r -> c x y <> Gt) /\ sorted_by c r
  end.

Definition StableSort (srt : forall A, (A -> A -> comparison) -> list A -> list A) : Prop :=
  forall A (c : A -> A -> comparison) (l : list A),
    Permutation l (srt A c l) /\
    (TotalPreorderOn c (fun x => In x l) ->
       sorted_by c (srt A c l) /\
       forall x, In x l -> filter (eqv c x) (srt A c l) = filter (eqv c x) l).

(* the instance that runs: the insertion sort slice::sort_by itself uses for up to 20 elements
   (core::slice::sort::shared::smallsort::insertion_sort_shift_left): the sorted prefix grows from the left, the next
   element moves left past every element it is Less than.  `racc` is the sorted prefix REVERSED. *)
Fixpoint ins_left {A} (c : A -> A -> comparison) (x : A) (racc : list A) : list A :=
  match racc with
  | [] => [x]
  | y :: r => match c x y with Lt => y :: ins_left c x r | _ => x :: racc end
  end.
Definition isort {A} (c : A -> A -> comparison) (l : list A) : list A :=
  rev (fold_left (fun racc x => ins_left c x racc) l []).
Definition isort_poly : forall A, (A -> A -> comparison) -> list A -> list A := @isort.

(* ------------------------------------------------------------------ the three repaired places *)
Record policy := {
  p_name : list N -> list N -> comparison;   (* two item names *)
  p_both_only : bool;                        (* item-name / DEFINITION-REF stage: true = compared only when BOTH elements have
                                                the key, skipped otherwise; false = like INDEX and DEST: present sorts first *)
  p_float : N -> N -> comparison             (* two f64 values (bits) *)
}.
(* before the fixes: cyclic names, skipped stages, partial_cmp().unwrap_or(Equal) *)
Definition policy_v0 : policy :=
  {| p_name := name_cmp_v0; p_both_only := true;
     p_float := fun a b => match f64_partial_cmp a b with Some c => c | None => Eq end |}.
(* the code as it stands *)
Definition policy_cur : policy := {| p_name := name_cmp; p_both_only := false; p_float := f64_total_cmp |}.

Section Sort.
Variable T : tables.
Variable tab_el tab_at tab_en : nametab.
Variable name_index name_definition_ref : N.     (* ElementName::Index, ElementName::DefinitionRef *)

(* a stage either decides (Some c) or lets the next one run (None) *)
Definition decided (c : comparison) : option comparison := match c with Eq => None | _ => Some c end.
(* (Some, Some) compare - Equal continues; (Some, None) Less; (None, Some) Greater; (None, None) continue *)
Definition stage_present {K} (kc : K -> K -> comparison) (a b : option K) : option comparison :=
  match a, b with
  | Some x, Some y => decided (kc x y)
  | Some _, None => Some Lt
  | None, Some _ => Some Gt
  | None, None => None
  end.
(* compared only when both are present, skipped otherwise *)
Definition stage_both {K} (kc : K -> K -> comparison) (a b : option K) : option comparison :=
  match a, b with
  | Some x, Some y => decided (kc x y)
  | _, _ => None
  end.
Definition stage_opt {K} (both_only : bool) (kc : K -> K -> comparison) (a b : option K) : option comparison :=
  if both_only then stage_both kc a b else stage_present kc a b.
(* first deciding stage *)
Definition orelse (a : option comparison) (b : option comparison) : option comparison :=
  match a with Some _ => a | None => b end.

(* <[T] as Ord>::cmp : element-wise up to the shorter length, then the lengths *)
Fixpoint slice_cmp {A} (ec : A -> A -> res comparison) (x y : list A) : res comparison :=
  match x, y with
  | [], [] => Val Eq
  | [], _ :: _ => Val Lt
  | _ :: _, [] => Val Gt
  | i :: x', j :: y' =>
    (let* c := ec i j in match c with Eq => slice_cmp ec x' y' | _ => Val c end)%res
  end.

(* what the first five stages look at *)
Record nkeys := mkKeys {
  k_name : list N;                 (* element_name().to_str() *)
  k_index : option N;              (* INDEX sub-element parsed as u64 *)
  k_iname : option (list N);       (* item_name() *)
  k_defref : option (list N);      (* DEFINITION-REF text *)
  k_dest : option (list N)         (* DEST attribute, as the EnumItem string *)
}.

Section Cmp.
Variable pol : policy.

(* stages 1-5 *)
Definition head_stages (a b : nkeys) : option comparison :=
  orelse (decided (lex_cmp (k_name a) (k_name b)))
 (orelse (stage_present N.compare (k_index a) (k_index b))
 (orelse (stage_opt (p_both_only pol) (p_name pol) (k_iname a) (k_iname b))
 (orelse (stage_opt (p_both_only pol) lex_cmp (k_defref a) (k_defref b))
         (stage_present lex_cmp (k_dest a) (k_dest b))))).

(* impl Ord for CharacterData *)
Definition cdata_cmp (a b : cdata) : res comparison :=
  match a, b with
  | DEnum x, DEnum y =>
    (let* sx := unwrap "EnumItem::to_str" (to_str tab_en x) in
     let* sy := unwrap "EnumItem::to_str" (to_str tab_en y) in Val (lex_cmp sx sy))%res
  | DString x, DString y => Val (lex_cmp x y)
  | DUInt x, DUInt y => Val (x ?= y)
  | DFloat x, DFloat y => Val (p_float pol x y)
  | DEnum _, _ => Val Lt
  | DString _, DEnum _ => Val Gt
  | DString _, _ => Val Lt
  | DUInt _, DEnum _ => Val Gt
  | DUInt _, DString _ => Val Gt
  | DUInt _, _ => Val Lt
  | DFloat _, _ => Val Gt
  end.

(* impl Ord for Attribute *)
Definition attr_cmp (a b : N * cdata) : res comparison :=
  (let* sa := unwrap "AttributeName::to_str" (to_str tab_at (fst a)) in
   let* sb := unwrap "AttributeName::to_str" (to_str tab_at (fst b)) in
   let* vc := cdata_cmp (snd a) (snd b) in
   Val (cthen (lex_cmp sa sb) vc))%res.

(* derived Ord of ElementContent: the variant order Element < CharacterData, then the payload *)
Definition item_cmp (ce : id -> id -> res comparison) (i j : citem) : res comparison :=
  match i, j with
  | CElem a, CElem b => ce a b
  | CElem _, CData _ => Val Lt
  | CData _, CElem _ => Val Gt
  | CData d, CData e => cdata_cmp d e
  end.

Section Pure.
Variable w : world.

Definition nd (i : id) : res node := unwrap "dangling node id" (w_nodes w i).

(* Element::get_sub_element: the first sub-element with that name *)
Fixpoint first_named_p (name : N) (l : list citem) : res (option id) :=
  match l with
  | [] => Val None
  | CElem c :: rest => (let* cn := nd c in if n_name cn =? name then Val (Some c) else first_named_p name rest)%res
  | CData _ :: rest => first_named_p name rest
  end.

(* get_sub_element(name).and_then(|e| e.character_data()) *)
Definition sub_cdata (n : node) (name : N) : res (option cdata) :=
  (let* s := first_named_p name (n_content n) in
   match s with
   | None => Val None
   | Some c => let* cn := nd c in character_data T cn
   end)%res.

(* Element::item_name (the pure reading of Ops.item_name) *)
Definition item_name_p (n : node) : res (option (list N)) :=
  (let* named := is_named T (n_type n) in
   if negb named then Val None else
   match n_content n with
   | CElem s :: _ =>
     let* sn := nd s in
     if n_name sn =? name_short_name T then
       let* cd := character_data T sn in
       Val (match cd with Some (DString nm) => Some nm | _ => None end)
     else Val None
   | _ => Val None
   end)%res.

Definition index_key (n : node) : res (option N) :=
  (let* cd := sub_cdata n name_index in
   Val (match cd with Some d => parse_integer_u64 d | None => None end))%res.

Definition defref_key (n : node) : res (option (list N)) :=
  (let* cd := sub_cdata n name_definition_ref in
   Val (match cd with Some (DString s) => Some s | _ => None end))%res.

(* attribute_value(Dest).and_then(enum_value), as the string the code compares *)
Definition dest_key (n : node) : res (option (list N)) :=
  match attr_value n (attr_dest T) with
  | Some (DEnum e) => (let* s := unwrap "EnumItem::to_str" (to_str tab_en e) in Val (Some s))%res
  | _ => Val None
  end.

Definition node_keys (n : node) : res nkeys :=
  (let* s := unwrap "ElementName::to_str" (to_str tab_el (n_name n)) in
   let* i := index_key n in
   let* m := item_name_p n in
   let* d := defref_key n in
   let* t := dest_key n in
   Val (mkKeys s i m d t))%res.

Fixpoint cmp_f (fuel : nat) (a b : id) {struct fuel} : res comparison :=
  match fuel with
  | O => Fuel
  | S f =>
    (let* na := nd a in
     let* nb := nd b in
     let* ka := node_keys na in
     let* kb := node_keys nb in
     match head_stages ka kb with
     | Some c => Val c
     | None =>
       let* cc := slice_cmp (item_cmp (cmp_f f)) (n_content na) (n_content nb) in
       let* ac := slice_cmp attr_cmp (n_attrs na) (n_attrs nb) in
       Val (cthen cc ac)
     end)%res
  end.

Definition cmp_p (a b : id) : res comparison := cmp_f (S (N.to_nat (w_next w))) a b.

End Pure.
End Cmp.

Definition wpure {A} (f : world -> res A) : W A :=
  fun w => match f w with Val a => Val (OK a, w) | Pan s => Pan s | Fuel => Fuel end.

(* Element::cmp(a, b) *)
Definition elem_cmp (a b : id) : W comparison := wpure (fun w => cmp_p policy_cur w a b).

(* ------------------------------------------------------------------ ElementRaw::sort *)
(* the comparator of sort_by: |(ia, a), (ib, b)| ia.cmp(ib).then(a.cmp(b)) with Element::cmp read off a total function *)
Definition key_cmp (ce : id -> id -> comparison) (x y : list N * id) : comparison :=
  cthen (lex_cmp (fst x) (fst y)) (ce (snd x) (snd y)).

(* Element::cmp on all ordered pairs: the first Pan / Fuel, else tt *)
Fixpoint row_val (w : world) (x : id) (ys : list id) : res unit :=
  match ys with [] => Val tt | y :: l' => (let* _ := cmp_p policy_cur w x y in row_val w x l')%res end.
Fixpoint all_pairs_val (w : world) (xs ys : list id) : res unit :=
  match xs with
  | [] => Val tt
  | x :: xs' => (let* _ := row_val w x ys in all_pairs_val w xs' ys)%res
  end.

Definition cmp_total (w : world) (a b : id) : comparison :=
  match cmp_p policy_cur w a b with Val c => c | _ => Eq end.

(* `for ec_elem in &self.content { if let Element(elem) = ec_elem { elem.sort(); find_sub_element(..).unwrap() ... } }`
   with `rec` = Element::sort of a child *)
Fixpoint keyed_loop (rec : id -> W unit) (ty : N * N) (l : list citem) : W (list (list N * id)) :=
  match l with
  | [] => wret []
  | CData _ :: rest => keyed_loop rec ty rest
  | CElem c :: rest =>
    (do _ <- rec c;
     do cn <- get_node c;
     do fs <- wl (find_sub_element T ty (n_name cn) 4294967295);
     match fs with
     | None => wpanic "elementraw.rs sort: find_sub_element(elem.element_name(), u32::MAX).unwrap()"
     | Some (_, idx) => do more <- keyed_loop rec ty rest; wret ((idx, c) :: more)
     end)%W
  end.
(* the else branch: only descend *)
Fixpoint iter_loop (rec : id -> W unit) (l : list citem) : W unit :=
  match l with
  | [] => wret tt
  | CData _ :: rest => iter_loop rec rest
  | CElem c :: rest => (do _ <- rec c; iter_loop rec rest)%W
  end.

Section SortWith.
Variable srt : forall A, (A -> A -> comparison) -> list A -> list A.

Fixpoint sort_f (fuel : nat) (i : id) {struct fuel} : W unit :=
  match fuel with
  | O => wfuel
  | S f =>
    (do n <- get_node i;
     do mode <- wl (content_mode T (n_type n));
     if (mode =? MCharacters) || (mode =? MMixed) then wret tt else
     do ordered <- wl (is_ordered T (n_type n));
     if negb ordered && (1 <? N.of_nat (List.length (n_content n))) then
       do keyed <- keyed_loop (sort_f f) (n_type n) (n_content n);
       do w <- wget;
       do _ <- wl (all_pairs_val w (map snd keyed) (map snd keyed));
       let sorted := srt _ (key_cmp (cmp_total w)) keyed in
       modify_node i (fun n' => set_content n' (map (fun k => CElem (snd k)) sorted))
     else iter_loop (sort_f f) (n_content n))%W
  end.

Definition e_sort_with (i : id) : W unit := (do w <- wget; sort_f (fuel_of w) i)%W.
Definition m_sort_with (m : N) : W unit := (do x <- get_model m; e_sort_with (m_root x))%W.
End SortWith.

(* Element::sort *)
Definition e_sort (i : id) : W unit := e_sort_with isort_poly i.
(* AutosarModel::sort *)
Definition m_sort (m : N) : W unit := m_sort_with isort_poly m.
End Sort.

(* ------------------------------------------------------------------ Examples *)
Example ex_decompose_1 : decompose (BS "item123") = Some (BS "item", 123). Proof. vm_compute. reflexivity. Qed.
Example ex_decompose_2 : decompose (BS "a1b") = None. Proof. vm_compute. reflexivity. Qed.
Example ex_decompose_3 : decompose (BS "42") = Some ([], 42). Proof. vm_compute. reflexivity. Qed.
Example ex_decompose_4 : decompose (BS "a99999999999999999999") = None. Proof. vm_compute. reflexivity. Qed.
Example ex_name_cycle_v0 :
  name_cmp_v0 (BS "a2") (BS "a10") = Lt /\ name_cmp_v0 (BS "a10") (BS "a1b") = Lt /\ name_cmp_v0 (BS "a1b") (BS "a2") = Lt.
Proof. vm_compute. repeat split. Qed.
Example ex_name_cmp :
  map (fun p => name_cmp (BS (fst p)) (BS (snd p)))
      [("a2", "a10"); ("a10", "a1b"); ("a2", "a1b"); ("a01", "a1"); ("Mmm_9", "Mmm_10"); ("a", "a1"); ("a_1", "a1"); ("b", "a2")]
  = [Lt; Lt; Lt; Lt; Lt; Lt; Gt; Gt].
Proof. vm_compute. reflexivity. Qed.
Example ex_parse_int : map parse_integer_u64 [DString (BS "06"); DString (BS "0X4"); DString (BS "0b1"); DString (BS "0B10");
                                               DString (BS "0"); DString (BS "x"); DUInt 7; DEnum 1; DString (BS "08")]
                       = [Some 6; Some 4; Some 1; Some 2; Some 0; None; Some 7; None; None].
Proof. vm_compute. reflexivity. Qed.
Example ex_f64 : (f64_partial_cmp 0 P63, f64_partial_cmp 4607182418800017408 4611686018427387904,
                  f64_partial_cmp 13830554455654793216 4607182418800017408, f64_partial_cmp 9221120237041090560 0)
                 = (Some Eq, Some Lt, Some Lt, None).
Proof. vm_compute. reflexivity. Qed.
Example ex_isort : isort N.compare [3; 1; 2; 1] = [1; 1; 2; 3]. Proof. vm_compute. reflexivity. Qed.
