(* Tree/InvProofsLoadLocal.v — C03 over OpLoad: the merge is LOCAL.
   Fix the world w0 in which the merge starts and the first id `base` of the incoming tree.  A node is touchable (Tch) if
   it is incoming (base <= x) or attached to a model in w0 (its parent chain ends in a model link).  At EVERY exit of
   merge_element / merge_file_data (accepted or rejected) every other node — every old detached element, what a handle
   of a removed element points to — is exactly as it was in w0 (merge_local). *)
From Coq Require Import PeanoNat Arith Lia.
From AV Require Import Base.Bytes Base.Outcome Hash.HashModel Tree.Heap Tree.Ops Tree.Script Tree.Inv
  Tree.InvProofsBase Tree.InvProofsCore Tree.InvProofsTree Tree.InvProofsPrim Tree.InvProofsCreate Tree.InvProofsFiles Tree.StaleProofs
  Tree.Load Tree.InvLoad Tree.InvProofsLoadBase Tree.InvProofsLoadWalk Tree.InvProofsLoadMerge Tree.InvProofsLoad.
From AV Require Tree.LoadEffects.
From AV Require Import Tree.Script2 Tree.InvProofs Tree.InvProofsDetFiles Tree.InvProofsStale2 Tree.InvProofsStale3.
Open Scope string_scope.
Open Scope list_scope.
Open Scope N_scope.

(* ------------------------------------------------------------------ where the ids of the walk come from (no NoDup needed) *)
Lemma walk_mem all_a all_b sp cnt : forall fuel pos la lb acc wk,
  walk fuel all_a all_b sp cnt pos la lb acc = Val (OK wk) ->
  (forall x, In x (map fst (wk_merge wk)) -> In x (map fst (wk_merge acc)) \/ In x (map k_id la)) /\
  (forall x, In x (map snd (wk_merge wk)) -> In x (map snd (wk_merge acc)) \/ In x (map k_id lb) \/ In x (map k_id all_b)) /\
  (forall x, In x (wk_a_only wk) -> In x (wk_a_only acc) \/ In x (map k_id la)) /\
  (forall x, In x (map fst (wk_b_only wk)) -> In x (map fst (wk_b_only acc)) \/ In x (map k_id lb)).
Proof.
  induction fuel as [|f IH]; intros pos la lb acc wk H; cbn [walk] in H; [discriminate|].
  destruct la as [|ka la']; [|destruct lb as [|kb lb']].
  - destruct lb as [|kb lb'].
    + injection H as <-. cbn [wk_merge wk_a_only wk_b_only]. rewrite app_nil_r. repeat split; auto.
    + injection H as <-. cbn [wk_merge wk_a_only wk_b_only]. split; [auto|]. split; [auto|]. split; [auto|].
      intros x Hx. rewrite map_app, map_fst_pair in Hx. apply in_app_or in Hx as [Hx|Hx]; auto. right.
      apply in_map_iff in Hx as (k & <- & Hk).
      change (In k (filter (fun kb0 : ckey => negb (merged_b (wk_merge acc) (k_id kb0))) (kb :: lb'))) in Hk.
      apply filter_In in Hk as (Hk & _). apply in_map. exact Hk.
  - injection H as <-. cbn [wk_merge wk_a_only wk_b_only]. split; [auto|]. split; [auto|]. split; [|auto].
    intros x Hx. apply in_app_or in Hx as [Hx|Hx]; auto.
  - destruct (merge_action all_a all_b sp pos ka kb) as [[act|e]| |] eqn:EA; try discriminate H; unfold bind in H; cbv beta iota in H.
    destruct act as [| other_b | | position].
    + apply IH in H as (A & B & Cc & Dd). cbn [wk_merge wk_a_only wk_b_only] in *.
      repeat split; intros x Hx; [apply A in Hx|apply B in Hx|apply Cc in Hx|apply Dd in Hx];
        rewrite ?map_app, ?in_app_iff in *; cbn [map In fst snd] in *; tauto.
    + pose proof (merge_action_unequal _ _ _ _ _ _ _ EA) as Hob.
      apply IH in H as (A & B & Cc & Dd). cbn [wk_merge wk_a_only wk_b_only] in *.
      repeat split; intros x Hx; [apply A in Hx|apply B in Hx|apply Cc in Hx|apply Dd in Hx];
        rewrite ?map_app, ?in_app_iff in *; cbn [map In fst snd] in *; try tauto.
      destruct Hx as [[Hx|[<-|[]]]|[Hx|Hx]]; auto.
    + apply IH in H as (A & B & Cc & Dd). cbn [wk_merge wk_a_only wk_b_only] in *.
      repeat split; intros x Hx; [apply A in Hx|apply B in Hx|apply Cc in Hx|apply Dd in Hx];
        rewrite ?map_app, ?in_app_iff in *; cbn [map In fst snd] in *; tauto.
    + apply IH in H as (A & B & Cc & Dd). cbn [wk_merge wk_a_only wk_b_only] in *.
      repeat split; intros x Hx; [apply A in Hx|apply B in Hx|apply Cc in Hx|apply Dd in Hx];
        destruct (merged_b (wk_merge acc) (k_id kb));
        rewrite ?map_app, ?in_app_iff in *; cbn [map In fst snd] in *; tauto.
Qed.

Lemma lists_wset_keep w i n n' p c :
  w_nodes w i = Some n -> kids n' = kids n -> (lists (wset w i n') p c <-> lists w p c).
Proof.
  intros Hn Hk. unfold lists. destruct (N.eq_dec p i) as [->|Hne].
  - rewrite nodes_wset_eq. split; intros (m & Hm & Hin).
    + injection Hm as <-. exists n. split; auto. rewrite <- Hk. exact Hin.
    + exists n'. split; auto. rewrite Hk. congruence.
  - rewrite nodes_wset_neq by auto. tauto.
Qed.

Section Local.
Variable T : tables.
Variables LATEST ndr : N.
Variable base : N.
Variable w0 : world.

Definition Tch (x : id) : Prop := base <= x \/ exists m, Top w0 x (PModel m).
(* untouchable nodes are as in w0; content lists lead from touchable to touchable and from incoming to incoming nodes *)
Definition FR (w : world) : Prop := forall x, ~ Tch x -> w_nodes w x = w_nodes w0 x.
Definition KL (w : world) : Prop := forall p c, lists w p c -> (Tch p -> Tch c) /\ (base <= p -> base <= c).
Definition Q (w : world) : Prop := FR w /\ KL w.
Definition QAny {A} (m : W A) : Prop := forall w r w', Q w -> m w = Val (r, w') -> Q w'.

Lemma QAny_ro {A} (m : W A) : ro m -> QAny m.
Proof. intros H w r w' I E. apply H in E. subst. exact I. Qed.
Lemma QAny_bind {A B} (m : W A) (k : A -> W B) : QAny m -> (forall a, QAny (k a)) -> QAny (wbind m k).
Proof.
  intros Hm Hk w r w' I H. apply wbind_inv in H as [(a & w1 & H1 & H2) | (e & H1 & _)].
  - eapply Hk; [|exact H2]. eapply Hm; eauto.
  - eapply Hm; eauto.
Qed.
Lemma Q_wset_keep w i n n' : Q w -> Tch i -> w_nodes w i = Some n -> kids n' = kids n -> Q (wset w i n').
Proof.
  intros (F & K) Hi Hn Hk. split.
  - intros x Hx. rewrite nodes_wset_neq; [apply F; exact Hx|]. intros ->. contradiction.
  - intros p c Hl. apply (lists_wset_keep w i n n' p c Hn Hk) in Hl. apply K. exact Hl.
Qed.
Lemma QAny_modify_keep i f : Tch i -> (forall n, kids (f n) = kids n) -> QAny (modify_node i f).
Proof.
  intros Hi Hf w r w' I H. apply modify_node_wset in H as (n & Hn & _ & ->). eapply Q_wset_keep; eauto.
Qed.

Lemma QAny_restrict files : forall l, (forall e, In e l -> Tch e) -> QAny (restrict_a_only l files).
Proof.
  induction l as [|e l IH]; intros Hl; cbn [restrict_a_only]; [apply QAny_ro; ro_tac|].
  apply QAny_bind; [|intros _; apply IH; intros e0 He0; apply Hl; right; exact He0].
  apply QAny_modify_keep; [apply Hl; left; reflexivity|]. intros n. destruct (is_empty (n_files n)); reflexivity.
Qed.

Lemma QAny_import pa nf minv : Tch pa ->
  forall l idx, (forall x, In x (map fst l) -> base <= x) -> QAny (import_new_items T pa l idx nf minv).
Proof.
  intros Hpa. induction l as [|[x ipos] l IH]; intros idx Hl; cbn [import_new_items]; [apply QAny_ro; ro_tac|].
  assert (Hx : base <= x) by (apply Hl; left; reflexivity).
  apply QAny_bind; [apply QAny_modify_keep; [left; exact Hx|intros n; reflexivity]|intros _].
  apply QAny_bind; [apply QAny_modify_keep; [left; exact Hx|intros n; reflexivity]|intros _].
  intros w r w' I H.
  apply wbind_inv in H as [(ne & w3 & E3 & H) | (e & E3 & _)]; [|apply get_node_inv in E3 as (? & _ & [=] & _)].
  apply get_node_inv in E3 as (ne' & Hne & [= ->] & ->).
  apply wbind_inv in H as [(pan & w4 & E4 & H) | (e & E4 & _)]; [|apply get_node_inv in E4 as (? & _ & [=] & _)].
  apply get_node_inv in E4 as (pan' & Hpan & [= ->] & ->).
  apply wbind_inv in H as [(range & w5 & E5 & H) | (e & E5 & _)]; [|apply wcatch_inv in E5 as (? & _ & [=])].
  apply wcatch_inv in E5 as (r0 & E5 & [= ->]).
  pose proof (ro_calc_range T _ _ _ _ _ _ E5) as ->.
  destruct r0 as [[fp lp]|e]; [|apply wfail_inv in H as (_ & ->); exact I].
  apply wbind_inv in H as [(u3 & w6 & E6 & H) | (e & E6 & _)]; [|apply content_insert_inv in E6 as (? & _ & [=] & _)].
  apply content_insert_inv in E6 as (npa & Hnpa & _ & ->).
  rewrite Hpan in Hnpa. injection Hnpa as <-.
  eapply (IH (idx + 1)); [intros y Hy; apply Hl; right; exact Hy| |exact H].
  destruct I as (F & K). split.
  - intros y Hy. rewrite nodes_wset_neq; [apply F; exact Hy|]. intros ->. contradiction.
  - intros p c (m & Hm & Hin). destruct (N.eq_dec p pa) as [->|Hpp].
    + rewrite nodes_wset_eq in Hm. injection Hm as <-. unfold kids in Hin. cbn [n_content set_content] in Hin.
      apply elems_insert_in in Hin as [->|Hin].
      * split; [intros _; left; exact Hx|intros _; exact Hx].
      * apply K. exists pan'. auto.
    + rewrite nodes_wset_neq in Hm by auto. apply K. exists m. auto.
Qed.

Lemma QAny_walk {A} (f : res (out A)) :
  QAny (fun w1 => match f with Val o => Val (o, w1) | Pan s => Pan s | Fuel => Fuel end).
Proof. intros w a w' I H. destruct f as [o| |]; try discriminate H. injection H as _ <-. exact I. Qed.

Lemma QAny_tail (F : id -> list N -> id -> W unit) pa files nf minv la_only lb_only :
  Tch pa -> (forall e, In e la_only -> Tch e) -> (forall x, In x (map fst lb_only) -> base <= x) ->
  forall lm, (forall x, In x (map fst lm) -> Tch x) ->
    (forall ea eb fs, In (ea, eb) lm -> QAny (F ea fs eb)) ->
  QAny (restrict_a_only la_only files;;
        import_new_items T pa lb_only 0 nf minv;;
        (fix subs (l : list (id * id)) : W unit :=
           match l with
           | [] => wret tt
           | (elem_a, elem_b) :: r =>
             do ea <- get_node elem_a;
             F elem_a (if negb (is_empty (n_files ea)) then n_files ea else files) elem_b;;
             modify_node elem_a (fun x => if negb (is_empty (n_files x)) then set_files x (set_add nf (n_files x)) else x);;
             subs r
           end) lm)%W.
Proof.
  intros Hpa Ha Hb lm Hm HF.
  apply QAny_bind; [apply QAny_restrict; exact Ha|intros _].
  apply QAny_bind; [apply QAny_import; [exact Hpa|exact Hb]|intros _].
  induction lm as [|[ea eb] l IHl]; [apply QAny_ro; ro_tac|].
  apply QAny_bind; [apply QAny_ro; ro_tac|intros nea].
  apply QAny_bind; [apply HF; left; reflexivity|intros _].
  apply QAny_bind.
  - apply QAny_modify_keep; [apply Hm; left; reflexivity|]. intros n. destruct (negb (is_empty (n_files n))); reflexivity.
  - intros _. apply IHl; [intros x Hx; apply Hm; right; exact Hx|intros a b fs Hin; apply HF; right; exact Hin].
Qed.

Lemma QAny_merge : forall fuel pa files pb nf, Tch pa -> base <= pb ->
  QAny (merge_element T LATEST ndr fuel pa files pb nf).
Proof.
  induction fuel as [|fl IH]; intros pa files pb nf Hpa Hpb; [intros w a w' _ H; discriminate H|].
  intros w r w' I H. cbn [merge_element] in H.
  bstep H wq wx E0; [|apply wget_inv in E0 as ([=] & _)]. apply wget_inv in E0 as ([= ->] & ->).
  bstep H na wx E1; [|apply get_node_inv in E1 as (? & _ & [=] & _)]. apply get_node_inv in E1 as (na' & Hna & [= ->] & ->).
  bstep H nb wx E2; [|apply get_node_inv in E2 as (? & _ & [=] & _)]. apply get_node_inv in E2 as (nb' & Hnb & [= ->] & ->).
  bstep H la wx E3; [|apply wl_inv in E3 as (? & _ & [=] & _)]. apply wl_inv in E3 as (la' & Hla & [= ->] & ->).
  bstep H lb wx E4; [|apply wl_inv in E4 as (? & _ & [=] & _)]. apply wl_inv in E4 as (lb' & Hlb & [= ->] & ->).
  bstep H sp wx E5; [|apply wl_inv in E5 as (? & _ & [=] & _)]. apply wl_inv in E5 as (sp' & _ & [= ->] & ->).
  apply keys_of_ids in Hla. apply keys_of_ids in Hlb.
  assert (Ka : forall x, In x (map k_id la') -> Tch x).
  { intros x Hx. rewrite Hla in Hx. apply (proj2 I pa x); [exists na'; auto|exact Hpa]. }
  assert (Kb : forall x, In x (map k_id lb') -> base <= x).
  { intros x Hx. rewrite Hlb in Hx. apply (proj2 I pb x); [exists nb'; auto|exact Hpb]. }
  bstep H wk wx E6.
  2:{ destruct (walk _ _ _ _ _ _ _ _ _) as [o| |]; try discriminate E6. injection E6 as _ <-. exact I. }
  destruct (walk _ _ _ _ _ _ _ _ _) as [o| |] eqn:EW; try discriminate E6. injection E6 as -> <-.
  apply walk_mem in EW as (M1 & M2 & M3 & M4). cbn [wk_merge wk_a_only wk_b_only map] in M1, M2, M3, M4.
  refine (QAny_tail (fun ea fs eb => merge_element T LATEST ndr fl ea fs eb nf) pa files nf _
            (wk_a_only wk) (wk_b_only wk) Hpa _ _ (wk_merge wk) _ _ w r w' I H).
  - intros e He. apply M3 in He as [[]|He]. auto.
  - intros x Hx. apply M4 in Hx as [[]|Hx]. auto.
  - intros x Hx. apply M1 in Hx as [[]|Hx]. auto.
  - intros ea eb fs Hin. apply IH.
    + apply (in_map fst) in Hin. cbn in Hin. apply M1 in Hin as [[]|Hin]. auto.
    + apply (in_map snd) in Hin. cbn in Hin. apply M2 in Hin as [[]|[Hin|Hin]]; auto.
Qed.

Theorem merge_file_data_local m re fid : base <= re ->
  (forall x, nth_opt (w_models w0) (N.to_nat m) = Some x -> exists k, Top w0 (m_root x) (PModel k)) ->
  forall w r w', w_models w = w_models w0 -> Q w ->
    merge_file_data T LATEST ndr m re fid w = Val (r, w') -> Q w'.
Proof.
  intros Hre Hroot w r w' Hm I H. unfold merge_file_data in H.
  bstep H x wx E0; [|apply get_model_inv in E0 as (? & _ & [=] & _)]. apply get_model_inv in E0 as (x' & Hx & [= ->] & ->).
  bstep H wq wx E1; [|apply wget_inv in E1 as ([=] & _)]. apply wget_inv in E1 as ([= ->] & ->).
  rewrite Hm in Hx. assert (Tr : Tch (m_root x')) by (right; apply Hroot; exact Hx).
  bstep H u w1 E2; [|eapply QAny_merge; eauto].
  pose proof (QAny_merge _ _ _ _ _ Tr Hre _ _ _ I E2) as I1.
  assert (Hm1 : w_models w1 = w_models w0).
  { rewrite <- Hm. destruct (LoadEffects.merge_effects T LATEST ndr _ _ _ _ _ _ _ _ E2) as (_ & _ & Hmm & _). exact Hmm. }
  bstep H x2 wx E3; [|apply get_model_inv in E3 as (? & _ & [=] & _)]. apply get_model_inv in E3 as (x2' & Hx2 & [= ->] & ->).
  rewrite Hm1 in Hx2. assert (x2' = x') as -> by congruence.
  eapply QAny_modify_keep; [exact Tr| |exact I1|exact H]. intros n. reflexivity.
Qed.
End Local.

(* ------------------------------------------------------------------ an ACCEPTED load leaves detached elements alone *)
Lemma top_old_transfer w w1 : Core w -> (forall j, j < w_next w -> w_nodes w1 j = w_nodes w j) ->
  forall x t, Top w x t -> Top w1 x t.
Proof.
  intros C F x t H. induction H as [x n Hn Hp|x n p t Hn Hp Ht IH].
  - eapply T_here; eauto. rewrite F; auto. apply C. eexists; eauto.
  - eapply T_up; eauto. rewrite F; auto. apply C. eexists; eauto.
Qed.

Section LoadLocal.
Variable T : tables.
Variables LATEST name_definition_ref : N.

Theorem load_parsed_local m filename root st w f w' :
  Core w ->
  load_parsed T LATEST name_definition_ref m filename root st w = Val (OK f, w') ->
  forall x, Detached w x -> w_nodes w' x = w_nodes w x.
Proof.
  intros C H x Hd. unfold load_parsed in H.
  assert (Hxa : x < w_next w).
  { apply C. unfold Detached in Hd. destruct Hd; eexists; eauto. }
  bstep H w0 wx E0; [|apply wget_inv in E0 as ([=] & _)]. apply wget_inv in E0 as ([= ->] & ->).
  bstep H t w1 E1; [|discriminate].
  destruct (install_core _ _ _ _ _ C (or_introl eq_refl) E1) as (t' & [= <-] & Eid & C1 & L1 & R1 & F1 & (nr & Hnr & Pnr) & Cl1).
  set (base := w_next w) in *. set (re := it_id t) in *.
  bstep H w1' wx E2; [|apply wget_inv in E2 as ([=] & _)]. apply wget_inv in E2 as ([= ->] & ->).
  bstep H x0 wx E3; [|apply get_model_inv in E3 as (? & _ & [=] & _)]. apply get_model_inv in E3 as (x0' & Hx0 & [= ->] & ->).
  bstep H ov wx E4; [|apply wl_inv in E4 as (? & _ & [=] & _)]. apply wl_inv in E4 as (ov' & _ & [= ->] & ->).
  assert (Hroots_old : forall k r0, nth_error (roots w1) k = Some r0 -> r0 < base).
  { intros k r0 Hk. rewrite R1 in Hk. destruct (c_roots _ C _ _ Hk) as (n & Hn & _). apply C. eexists; eauto. }
  destruct ov'.
  { bstep H u wk Ek; [apply wfail_inv in H as ([=] & _)|discriminate]. }
  bstep H u w2 E5; [|apply wput_inv in E5 as ([=] & _)]. apply wput_inv in E5 as (_ & ->).
  set (w2 := mkWorld _ _ _ _) in *.
  assert (S12 : same_tree w1 w2) by (apply st_models; reflexivity).
  pose proof (Core_same_tree _ _ S12 C1) as C2.
  assert (F2 : forall j, j < base -> w_nodes w2 j = w_nodes w j) by (intros j Hj; apply F1; exact Hj).
  bstep H x1 wx E6; [|apply get_model_inv in E6 as (? & _ & [=] & _)]. apply get_model_inv in E6 as (x' & Hx & [= ->] & ->).
  bstep H rb w3 E7; [|apply wcatch_inv in E7 as (? & _ & [=])]. apply wcatch_inv in E7 as (rb' & E7 & [= ->]).
  bstep H x3 wx E8; [|apply get_model_inv in E8 as (? & _ & [=] & _)]. apply get_model_inv in E8 as (x3' & Hx3 & [= ->] & ->).
  bstep H w3' wx E9; [|apply wget_inv in E9 as ([=] & _)]. apply wget_inv in E9 as ([= ->] & ->).
  bstep H keep wq E10; [|discriminate].
  pose proof (ro_dfs_ids _ _ _ _ _ E10) as ->.
  bstep H u2 wk E11; [|discriminate].
  apply kill_spec in E11 as (_ & _ & _ & _ & Hk).
  destruct rb' as [ub|eb].
  2:{ apply wbind_inv in H as [(u3 & w5 & E12 & H) | (e5 & E12 & [=])]. apply wfail_inv in H as ([=] & _). }
  apply wret_inv in H as (_ & ->).
  rewrite Hk, killedb_old by exact Hxa.
  apply wbind_inv in E7 as [(ua & wa & Ea & Etail) | (e & _ & [=])].
  destruct (nfp_stage_tail m t st _ _ _ _ Etail) as (Tn & Tx & Tr).
  rewrite Tn, <- (F2 x Hxa).
  destruct (is_empty (m_files x')) eqn:Efirst.
  - destruct (first_load_core m re (N.of_nat (List.length (w_files w))) w2 (OK ua) wa C2) as (_ & _ & Fa & _); [| |exact Ea|].
    { exists nr. split; [rewrite Eid; exact Hnr|exact Pnr]. }
    { intros k r0 Hk0 Heq. apply Hroots_old in Hk0. subst r0. rewrite Eid in Hk0. lia. }
    apply Fa. rewrite Eid. lia.
  - apply wbind_inv in Ea as [(mr & wb & Em & Ea) | (e & Em & [=])].
    apply wcatch_inv in Em as (mr' & Em & [= ->]).
    destruct mr' as [um|em].
    2:{ apply wbind_inv in Ea as [(x1 & w6 & _ & Ea) | (e & _ & [=])].
        apply wbind_inv in Ea as [(u6 & w7 & _ & Ea) | (e & _ & [=])].
        apply wfail_inv in Ea as ([=] & _). }
    apply wret_inv in Ea as (_ & ->).
    assert (Hold_up : forall c p, c < base -> par w2 c p -> p < base).
    { intros c p Hc (n & Hn & Hpp). rewrite F2 in Hn by auto. assert (Hp0 : par w c p) by (exists n; auto).
      apply par_alloc in Hp0; auto. apply C. auto. }
    assert (Q2 : Q base w2 w2).
    { split; [intros y _; reflexivity|]. intros p c Hl. pose proof (c_up _ C2 _ _ Hl) as Hp. split.
      - intros [Hb|(k & Ht)].
        + destruct (N.lt_ge_cases c base) as [Hc|Hc]; [|left; exact Hc]. pose proof (Hold_up _ _ Hc Hp). lia.
        + right. exists k. destruct Hp as (n & Hn & Hpp). eapply T_up; eauto.
      - intros Hb. destruct (N.lt_ge_cases c base) as [Hc|Hc]; [|exact Hc]. pose proof (Hold_up _ _ Hc Hp). lia. }
    assert (Hroot : forall y, nth_opt (w_models w2) (N.to_nat m) = Some y -> exists k, Top w2 (m_root y) (PModel k)).
    { intros y Hy. apply nth_opt_roots in Hy. destruct (c_roots _ C2 _ _ Hy) as (n & Hn & Hp).
      eexists. rewrite <- Hp. eapply T_here; eauto. rewrite Hp. congruence. }
    destruct (merge_file_data_local T LATEST name_definition_ref base w2 m re (N.of_nat (List.length (w_files w)))
                ltac:(rewrite Eid; apply N.le_refl) Hroot w2 _ _ eq_refl Q2 Em) as (FRb & _).
    apply FRb. intros [Hb|(k & Ht)]; [lia|].
    pose proof (top_old_transfer w w2 C F2 _ _ Hd) as Hd2. pose proof (top_fun _ _ _ Hd2 _ Ht). discriminate.
Qed.
End LoadLocal.

(* ------------------------------------------------------------------ stale handles across an accepted load *)
Lemma det_transfer w w' : (forall x, Detached w x -> w_nodes w' x = w_nodes w x) ->
  forall h, Detached w h -> Detached w' h.
Proof.
  intros F h H.
  assert (G : forall x t, Top w x t -> t = PNone -> Top w' x t).
  { induction 1 as [x n Hn Hp|x n p t Hn Hp Ht IH]; intros Et.
    - assert (Hx : Detached w x) by (unfold Detached; rewrite <- Et; eapply T_here; eauto).
      apply (T_here w' x n); [rewrite (F x Hx); exact Hn|exact Hp].
    - subst t. assert (Hx : Detached w x) by (unfold Detached; eapply T_up; eauto).
      apply (T_up w' x n p PNone); [rewrite (F x Hx); exact Hn|exact Hp|apply IH; reflexivity]. }
  exact (G h PNone H eq_refl).
Qed.

Lemma ancs_transfer w w' : (forall x, Detached w x -> w_nodes w' x = w_nodes w x) ->
  forall y x, AncS w' y x -> Detached w x -> AncS w y x /\ Detached w y.
Proof.
  intros F y x H. induction H as [|x p Hp Ha IH]; intros Hd; [split; [constructor|exact Hd]|].
  destruct Hp as (n & Hn & Hpp). rewrite (F _ Hd) in Hn.
  destruct (top_none_inv _ _ _ Hd Hn) as [E|(q & E & Hq)]; [congruence|].
  assert (q = p) as -> by congruence.
  destruct (IH Hq) as (A1 & A2). split; [|exact A2]. eapply A_up; [exists n; eauto|exact A1].
Qed.

Lemma chain_transfer w w' : (forall x, Detached w x -> w_nodes w' x = w_nodes w x) ->
  forall h, Detached w h -> ChainFiles w h -> ChainFiles w' h.
Proof.
  intros F h Hd Hc y n' Ha Hn'. destruct (ancs_transfer w w' F y h Ha Hd) as (A1 & A2).
  rewrite (F _ A2) in Hn'. eapply Hc; eauto.
Qed.

Section LoadLocalOp.
Variable T : tables.
Variable tab_el tab_at tab_en : nametab.
Variable check_fn : N -> list N -> res bool.
Variable float_parse : list N -> option N.
Variable float_fmt : N -> list N.
Variables LATEST name_index name_definition_ref attr_schema_location : N.
Variable root_attrs : list (N * cdata).
Notation run2 := (run_op2 T tab_el tab_at tab_en check_fn float_parse float_fmt LATEST name_index name_definition_ref
                          attr_schema_location root_attrs).

Lemma load_buffer_local m buffer filename strict w v w' :
  Core w ->
  m_load_buffer T tab_el tab_at tab_en check_fn float_parse LATEST name_definition_ref m buffer filename strict w = Val (OK v, w') ->
  forall x, Detached w x -> w_nodes w' x = w_nodes w x.
Proof.
  intros C H. unfold m_load_buffer in H.
  bstep H x wx E0; [|discriminate]. apply get_model_inv in E0 as (x' & Hx & [= ->] & ->).
  bstep H w0 wx E1; [|discriminate]. apply wget_inv in E1 as ([= ->] & ->).
  destruct (existsb _ _); [apply wfail_inv in H as ([=] & _)|].
  destruct (Parser.load strict T tab_el tab_at tab_en check_fn float_parse buffer) as [[root st|pe st]| |] eqn:EP;
    try discriminate H.
  bstep H f0 wx E2; [|discriminate].
  apply wret_inv in H as (_ & ->). eapply load_parsed_local; eauto.
Qed.

(* an accepted load_buffer: every detached element is exactly as it was; a handle that was stale stays stale, and the
   file sets on its chain stay empty *)
Theorem load_keeps_stale m buffer filename strict w v w' :
  Core w -> run2 (OpLoad m buffer filename strict) w = Val (OK v, w') ->
  (forall x, Detached w x -> w_nodes w' x = w_nodes w x) /\
  (forall h, Detached w h -> Detached w' h) /\
  (forall h, Detached w h -> ChainFiles w h -> ChainFiles w' h).
Proof.
  intros C H. cbn [run_op2] in H.
  apply wbind_inv in H as [([f ws] & w1 & H1 & H2) | (e & H1 & [=])].
  apply wret_inv in H2 as (_ & ->).
  pose proof (load_buffer_local _ _ _ _ _ _ _ C H1) as F.
  split; [exact F|]. split; [apply det_transfer; exact F|apply chain_transfer; exact F].
Qed.

(* so every place-dependent request through it still fails after the load *)
Theorem stale_after_load m buffer filename strict w v w' h o r1 w1 :
  Core w -> run2 (OpLoad m buffer filename strict) w = Val (OK v, w') ->
  Detached w h -> ChainFiles w h ->
  principal o = Some h -> place_dependent o = true ->
  Inv.run T tab_el tab_en check_fn LATEST root_attrs o w' = Val (r1, w1) -> w1 = w' /\ failed r1.
Proof.
  intros C H Hd Hc Hp Hpd Hr. destruct (load_keeps_stale _ _ _ _ _ _ _ C H) as (_ & D & Ch).
  eapply (stale_fails_chain T tab_el tab_en check_fn LATEST root_attrs o h w' r1 w1); eauto.
Qed.

(* the typical scenario: edit (remove, move, duplicate, sort ...), then load another file, then use the old handle *)
Theorem stale_histories2_then_load l w m buffer filename strict v w' h o r1 w1 :
  run_ops2 T tab_el tab_at tab_en check_fn float_parse float_fmt LATEST name_index name_definition_ref
           attr_schema_location root_attrs l empty_world = Val w ->
  clean_stale_ops2 T tab_el tab_at tab_en check_fn float_parse float_fmt LATEST name_index name_definition_ref
           attr_schema_location root_attrs l empty_world = true ->
  run2 (OpLoad m buffer filename strict) w = Val (OK v, w') ->
  Detached w h -> principal o = Some h -> place_dependent o = true ->
  Inv.run T tab_el tab_en check_fn LATEST root_attrs o w' = Val (r1, w1) ->
  Detached w' h /\ w_nodes w' h = w_nodes w h /\ w1 = w' /\ failed r1.
Proof.
  intros H Hc HL Hd Hp Hpd Hr.
  destruct (TD_histories2_partial T tab_el tab_at tab_en check_fn float_parse float_fmt LATEST name_index
              name_definition_ref attr_schema_location root_attrs l _ _ empty_treeinv DF_empty Hc H) as ((C & _) & D).
  assert (Hch : ChainFiles w h) by (apply DetFiles_ChainFiles; [apply DF_DetFiles; exact D|exact Hd]).
  destruct (load_keeps_stale _ _ _ _ _ _ _ C HL) as (F & Dt & _).
  split; [apply Dt; exact Hd|]. split; [apply F; exact Hd|].
  eapply stale_after_load; eauto.
Qed.
End LoadLocalOp.
