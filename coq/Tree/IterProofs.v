(* Tree/IterProofs.v — C03: the iterators of Tree/Iter.v enumerate the tree of a world that satisfies Core.
     dfs_iter_spec    : draining ElementsDfsIterator (any max_depth) yields the depth-labelled pre-order PreD, cut
                        below the depth limit; with unlimited depth the elements are exactly the pre-order Pre.
     ei_iter_spec     : draining ElementsIterator yields the sub-elements in content order.
     fi_iter_spec     : draining ArxmlFileElementsDfsIterator yields PreF (subtrees outside the file are pruned). *)
From Coq Require Import PeanoNat Arith.
From AV Require Import Base.Bytes Base.Outcome Hash.HashModel Tree.Heap Tree.Ops Tree.Script Tree.Inv
  Tree.InvProofsBase Tree.InvProofsCore Tree.InvProofsTree Tree.InvProofsPrim Tree.InvProofsNav Tree.Iter.
Open Scope string_scope.
Open Scope list_scope.
Open Scope N_scope.

(* ------------------------------------------------------------------ nested induction for PreD *)
Section PreDInd.
Variables (w : world) (lim : option nat).
Variable P : nat -> id -> list (nat * id) -> Prop.
Hypothesis Hcut : forall d i n, w_nodes w i = Some n -> deeper lim d = false -> P d i [(d, i)].
Hypothesis Hnode : forall d i n ls, w_nodes w i = Some n -> deeper lim d = true ->
  Forall2 (PreD w lim (S d)) (kids n) ls -> Forall2 (P (S d)) (kids n) ls -> P d i ((d, i) :: List.concat ls).

Fixpoint PreD_ind2 d i l (H : PreD w lim d i l) {struct H} : P d i l :=
  match H in PreD _ _ d0 i0 l0 return P d0 i0 l0 with
  | PreD_cut _ _ d i n Hn Hd => Hcut d i n Hn Hd
  | PreD_node _ _ d i n ls Hn Hd Hf =>
    Hnode d i n ls Hn Hd Hf
      ((fix go ks ls (hf : Forall2 (PreD w lim (S d)) ks ls) {struct hf} : Forall2 (P (S d)) ks ls :=
          match hf in Forall2 _ ks0 ls0 return Forall2 (P (S d)) ks0 ls0 with
          | Forall2_nil _ => Forall2_nil _
          | Forall2_cons _ _ hp hr => Forall2_cons _ _ (PreD_ind2 _ _ _ hp) (go _ _ hr)
          end) _ _ Hf)
  end.
End PreDInd.

(* existence of the depth-labelled pre-order *)
Lemma forall2_exists {A B} (R : A -> B -> Prop) l : (forall a, In a l -> exists b, R a b) -> exists ls, Forall2 R l ls.
Proof.
  induction l as [|a l IH]; intros H; [exists []; constructor|].
  destruct (H a (or_introl eq_refl)) as (b & Hb). destruct IH as (ls & Hls); [intros; apply H; right; auto|].
  exists (b :: ls). constructor; auto.
Qed.

Lemma pred_exists w lim : Core w -> forall f i d, allocated w i -> enough w i f -> exists l, PreD w lim d i l.
Proof.
  intros C. induction f as [|f IH]; intros i d (n & Hn) He.
  - destruct (deeper lim d) eqn:Hd; [|exists [(d, i)]; eapply PreD_cut; eauto].
    exists ((d, i) :: List.concat []). eapply PreD_node; eauto. rewrite (enough_leaf _ _ _ C He Hn). constructor.
  - destruct (deeper lim d) eqn:Hd; [|exists [(d, i)]; eapply PreD_cut; eauto].
    destruct (forall2_exists (PreD w lim (S d)) (kids n)) as (ls & Hls).
    { intros c Hc. assert (Hl : lists w i c) by (exists n; auto).
      destruct (enough_kid _ _ _ _ C He Hl) as (f' & [= <-] & He'). apply IH; auto.
      apply C in Hl. destruct Hl as (nc & ? & _). eexists; eauto. }
    exists ((d, i) :: List.concat ls). eapply PreD_node; eauto.
Qed.

(* without a depth limit it is the structural pre-order with depth labels *)
Lemma pred_pre w d i l : PreD w None d i l -> Pre w i (map snd l).
Proof.
  intros H. induction H using PreD_ind2; [discriminate|].
  cbn [map snd]. rewrite concat_map. econstructor; eauto.
  clear H H0 H1. induction H2; cbn; constructor; auto.
Qed.

(* ------------------------------------------------------------------ runs of the DFS machine *)
Inductive RunY (w : world) : dfs_state -> nat -> list (nat * id) -> dfs_state -> Prop :=
| RY_done s : RunY w s 0 [] s
| RY_cont s s1 n l s' : dfs_step s w = Val (DCont s1) -> RunY w s1 n l s' -> RunY w s (S n) l s'
| RY_yield s d e s1 n l s' : dfs_step s w = Val (DYield d e s1) -> RunY w s1 n l s' ->
                             RunY w s (S n) ((d, e) :: l) s'.

Lemma RunY_trans w s1 n1 l1 s2 n2 l2 s3 :
  RunY w s1 n1 l1 s2 -> RunY w s2 n2 l2 s3 -> RunY w s1 (n1 + n2) (l1 ++ l2) s3.
Proof.
  induction 1; intros H2; cbn; auto.
  - eapply RY_cont; eauto.
  - eapply RY_yield; eauto.
Qed.

Lemma deeper_lim_of max d : deeper (lim_of max) d = (max =? 0) || (N.of_nat d <? max).
Proof.
  unfold lim_of, deeper. destruct (max =? 0) eqn:E; auto. cbn.
  destruct (N.of_nat d <? max) eqn:E2.
  - apply Nat.ltb_lt. apply N.ltb_lt in E2. lia.
  - apply Nat.ltb_ge. apply N.ltb_ge in E2. lia.
Qed.

(* the children loop, from position k of the content list *)
Lemma kids_run w max i n d E P :
  w_nodes w i = Some n -> deeper (lim_of max) d = true -> List.length E = d -> List.length P = d ->
  forall suf pre ls, n_content n = pre ++ suf ->
    Forall2 (fun c lc => forall E' P', List.length E' = S d -> List.length P' = S d ->
                         exists m, RunY w (mkDfs (c :: E') P' max) m lc (mkDfs E' P' max)) (elems suf) ls ->
    exists m, RunY w (mkDfs (i :: E) (N.of_nat (List.length pre) :: P) max) m (List.concat ls) (mkDfs E P max).
Proof.
  intros Hn Hd HE HP. subst d. rewrite deeper_lim_of in Hd.
  induction suf as [|[c|x] suf IH]; intros pre ls Hc Hf.
  - inversion Hf; subst. exists 1%nat. eapply RY_cont; [|apply RY_done].
    unfold dfs_step. cbn [d_elems d_pos d_max]. cbn [List.length]. rewrite HP.
    rewrite (proj2 (Nat.eqb_neq _ _)) by lia. rewrite Nat.eqb_refl. rewrite Hn.
    rewrite Hc, app_nil_r. rewrite N.ltb_irrefl. rewrite andb_false_r. reflexivity.
  - rewrite elems_cons_elem in Hf. inversion Hf as [|? lc ? ls' Hc0 Hrest]; subst.
    destruct (Hc0 (i :: E) (N.of_nat (S (List.length pre)) :: P)) as (m1 & R1); [cbn; lia | cbn; lia|].
    destruct (IH (pre ++ [CElem c]) ls') as (m2 & R2); [rewrite <- app_assoc; auto | auto|].
    rewrite app_length in R2. cbn [List.length] in R2. rewrite Nat.add_1_r in R2.
    exists (S (m1 + m2)). cbn [List.concat]. eapply RY_cont; [|eapply RunY_trans; eauto].
    unfold dfs_step. cbn [d_elems d_pos d_max]. cbn [List.length]. rewrite HP.
    rewrite (proj2 (Nat.eqb_neq _ _)) by lia. rewrite Nat.eqb_refl. rewrite Hn, Hd. cbn [orb andb].
    assert (Hlt : N.of_nat (List.length pre) <? N.of_nat (List.length (n_content n)) = true).
    { apply N.ltb_lt. rewrite Hc, app_length. cbn. lia. }
    rewrite Hlt. rewrite Nat2N.id. rewrite Hc.
    assert (Hnth : nth_opt (pre ++ CElem c :: suf) (List.length pre) = Some (CElem c)).
    { clear. induction pre; cbn; auto. }
    rewrite Hnth. replace (N.of_nat (List.length pre) + 1) with (N.of_nat (S (List.length pre))) by lia. reflexivity.
  - rewrite elems_cons_data in Hf.
    destruct (IH (pre ++ [CData x]) ls) as (m2 & R2); [rewrite <- app_assoc; auto | auto|].
    rewrite app_length in R2. cbn [List.length] in R2. rewrite Nat.add_1_r in R2.
    exists (S m2). eapply RY_cont; [|exact R2].
    unfold dfs_step. cbn [d_elems d_pos d_max]. cbn [List.length]. rewrite HP.
    rewrite (proj2 (Nat.eqb_neq _ _)) by lia. rewrite Nat.eqb_refl. rewrite Hn, Hd. cbn [orb andb].
    assert (Hlt : N.of_nat (List.length pre) <? N.of_nat (List.length (n_content n)) = true).
    { apply N.ltb_lt. rewrite Hc, app_length. cbn. lia. }
    rewrite Hlt. rewrite Nat2N.id. rewrite Hc.
    assert (Hnth : nth_opt (pre ++ CData x :: suf) (List.length pre) = Some (CData x)).
    { clear. induction pre; cbn; auto. }
    rewrite Hnth. replace (N.of_nat (List.length pre) + 1) with (N.of_nat (S (List.length pre))) by lia. reflexivity.
Qed.

(* the traversal of one subtree: from "about to yield i" back to the context *)
Lemma subtree_run w max d i l : PreD w (lim_of max) d i l ->
  forall E P, List.length E = d -> List.length P = d ->
  exists m, RunY w (mkDfs (i :: E) P max) m l (mkDfs E P max).
Proof.
  intros H. induction H using PreD_ind2; intros E P HE HP.
  - exists 2%nat. eapply RY_yield; [|eapply RY_cont; [|apply RY_done]].
    + unfold dfs_step. cbn [d_elems d_pos d_max]. rewrite HE, HP, Nat.eqb_refl. reflexivity.
    + unfold dfs_step. cbn [d_elems d_pos d_max]. rewrite HE. cbn [List.length]. rewrite HP.
      rewrite (proj2 (Nat.eqb_neq _ _)) by lia. rewrite Nat.eqb_refl. rewrite H.
      rewrite deeper_lim_of in H0. rewrite H0. reflexivity.
  - destruct (kids_run w max i n d E P H H0 HE HP (n_content n) [] ls eq_refl) as (m & R).
    { fold (kids n). clear H1. induction H2; constructor; auto. }
    exists (S m). eapply RY_yield; [|exact R].
    unfold dfs_step. cbn [d_elems d_pos d_max]. rewrite HE, HP, Nat.eqb_refl. reflexivity.
Qed.

(* ------------------------------------------------------------------ from runs to next / drain *)
Lemma dfs_next_mono w : forall f s r, dfs_next f s w = Val r -> forall f', (f <= f')%nat -> dfs_next f' s w = Val r.
Proof.
  induction f as [|f IH]; intros s r H f' Hf; [discriminate|]. destruct f' as [|f']; [lia|].
  cbn [dfs_next] in *. destruct (dfs_step s w) as [[dd e s'|s'|]|site|]; auto; try discriminate.
  eapply IH; eauto. lia.
Qed.

Lemma dfs_drain_mono w : forall f s l, dfs_drain f s w = Val l -> forall f', (f <= f')%nat -> dfs_drain f' s w = Val l.
Proof.
  induction f as [|f IH]; intros s l H f' Hf; [discriminate|]. destruct f' as [|f']; [lia|].
  cbn [dfs_drain] in *. destruct (dfs_next f s w) as [[o s']|site|] eqn:En; try discriminate.
  rewrite (dfs_next_mono w _ _ _ En f') by lia. cbn [bind] in *. destruct o as [y|]; auto.
  destruct (dfs_drain f s' w) as [r|site|] eqn:Ed; try discriminate. rewrite (IH _ _ Ed f') by lia. auto.
Qed.

Lemma dfs_drain_S f s w :
  dfs_drain (S f) s w =
  (let* '(o, s') := dfs_next f s w in
   match o with
   | Some y => let* r := dfs_drain f s' w in Val (y :: r)
   | None => Val []
   end)%res.
Proof. reflexivity. Qed.

Lemma drain_of_run w s n l s' : RunY w s n l s' -> dfs_step s' w = Val DDone ->
  dfs_drain (n + List.length l + 2) s w = Val l.
Proof.
  intros R Hdone. induction R as [s | s s1 n l s' Hs R IH | s d e s1 n l s' Hs R IH].
  - cbn. rewrite Hdone. reflexivity.
  - specialize (IH Hdone). replace (S n + List.length l + 2)%nat with (S (n + List.length l + 2)) by lia.
    remember (n + List.length l + 2)%nat as f0 eqn:Ef. destruct f0 as [|f]; [lia|].
    rewrite dfs_drain_S in IH. rewrite dfs_drain_S.
    destruct (dfs_next f s1 w) as [[o s2]|site|] eqn:En; try discriminate.
    assert (En' : dfs_next (S f) s w = Val (o, s2)) by (cbn [dfs_next]; rewrite Hs; exact En).
    rewrite En'. cbn [bind] in *. destruct o as [y|]; auto.
    destruct (dfs_drain f s2 w) as [r|site|] eqn:Ed; try discriminate.
    rewrite (dfs_drain_mono w _ _ _ Ed (S f)) by lia. exact IH.
  - specialize (IH Hdone). cbn [List.length].
    replace (S n + S (List.length l) + 2)%nat with (S (S (n + List.length l + 2))) by lia.
    remember (n + List.length l + 2)%nat as f eqn:Ef.
    rewrite dfs_drain_S. assert (En : dfs_next (S f) s w = Val (Some (d, e), s1)) by (cbn [dfs_next]; rewrite Hs; auto).
    rewrite En. cbn [bind]. rewrite (dfs_drain_mono w _ _ _ IH (S f)) by lia. reflexivity.
Qed.

(* ---------- the theorem for ElementsDfsIterator ---------- *)
Theorem dfs_iter_spec w i max : Core w -> allocated w i ->
  exists l f0, PreD w (lim_of max) 0 i l /\ forall f, (f0 <= f)%nat -> elements_dfs f i max w = Val l.
Proof.
  intros C Ha. destruct (pred_exists w (lim_of max) C _ i 0%nat Ha (enough_top _ _ C Ha)) as (l & Hl).
  destruct (subtree_run w max 0 i l Hl [] [] eq_refl eq_refl) as (m & R).
  exists l, (m + List.length l + 2)%nat. split; auto. intros f Hf. unfold elements_dfs, dfs_new.
  eapply dfs_drain_mono; [|exact Hf]. eapply drain_of_run; eauto.
Qed.

(* with max_depth = 0 the elements are the structural pre-order, each once *)
Corollary dfs_iter_unlimited w i : Core w -> allocated w i ->
  exists l f0, (forall f, (f0 <= f)%nat -> elements_dfs f i 0 w = Val l) /\
               Pre w i (map snd l) /\ NoDup (map snd l) /\ forall x, In x (map snd l) <-> Reach w i x.
Proof.
  intros C Ha. destruct (dfs_iter_spec w i 0 C Ha) as (l & f0 & Hl & Hf). exists l, f0. split; auto.
  pose proof (pred_pre _ _ _ _ Hl) as Hp. split; auto.
  pose proof (enough_top _ _ C Ha) as He. rewrite (pre_unique_subl _ C _ _ _ He Hp).
  split; [apply subl_nodup; auto|]. intros x. apply subl_reach; auto.
Qed.

(* ------------------------------------------------------------------ ElementsIterator *)
Lemma content_split l :
  elems l = [] \/ exists ds c l2, l = ds ++ CElem c :: l2 /\ elems ds = [] /\ elems l = c :: elems l2.
Proof.
  induction l as [|[c|d] l IH].
  - left. reflexivity.
  - right. exists [], c, l. repeat split; reflexivity.
  - destruct IH as [IH|(ds & c & l2 & -> & Hds & He)].
    + left. rewrite elems_cons_data. auto.
    + right. exists (CData d :: ds), c, l2. repeat split; auto.
Qed.

Lemma nth_opt_app_mid {A} (pre : list A) x rest : nth_opt (pre ++ x :: rest) (List.length pre) = Some x.
Proof. induction pre; cbn; auto. Qed.

(* skipping character content *)
Lemma ei_skip ds : forall pre rest last f, elems ds = [] ->
  ei_loop (List.length ds + f) (pre ++ ds ++ rest) (N.of_nat (List.length pre)) last =
  ei_loop f (pre ++ ds ++ rest) (N.of_nat (List.length pre + List.length ds)) last.
Proof.
  induction ds as [|[c|d] ds IH]; intros pre rest last f He.
  - cbn. rewrite Nat.add_0_r. reflexivity.
  - discriminate.
  - rewrite elems_cons_data in He. cbn [List.length Nat.add ei_loop].
    assert (Hlt : N.of_nat (List.length pre) <? N.of_nat (List.length (pre ++ (CData d :: ds) ++ rest)) = true).
    { apply N.ltb_lt. rewrite !app_length. cbn. lia. }
    rewrite Hlt. rewrite Nat2N.id. cbn [app]. rewrite nth_opt_app_mid.
    specialize (IH (pre ++ [CData d]) rest last f He).
    rewrite <- !app_assoc in IH. cbn [app] in IH. rewrite app_length in IH. cbn [List.length] in IH.
    replace (N.of_nat (List.length pre) + 1) with (N.of_nat (List.length pre + 1)) by lia.
    rewrite IH. f_equal. lia.
Qed.

Lemma ei_at_new pre c rest last f :
  last <> Some c ->
  ei_loop (S f) (pre ++ CElem c :: rest) (N.of_nat (List.length pre)) last =
  Val (Some c, N.of_nat (List.length pre), Some c).
Proof.
  intros Hl. cbn [ei_loop].
  assert (Hlt : N.of_nat (List.length pre) <? N.of_nat (List.length (pre ++ CElem c :: rest)) = true).
  { apply N.ltb_lt. rewrite app_length. cbn. lia. }
  rewrite Hlt, Nat2N.id, nth_opt_app_mid. destruct last as [p|]; auto.
  destruct (p =? c) eqn:E; auto. apply N.eqb_eq in E. congruence.
Qed.

Lemma ei_at_same pre p rest f :
  ei_loop (S f) (pre ++ CElem p :: rest) (N.of_nat (List.length pre)) (Some p) =
  ei_loop f (pre ++ CElem p :: rest) (N.of_nat (List.length pre) + 1) (Some p).
Proof.
  cbn [ei_loop].
  assert (Hlt : N.of_nat (List.length pre) <? N.of_nat (List.length (pre ++ CElem p :: rest)) = true).
  { apply N.ltb_lt. rewrite app_length. cbn. lia. }
  rewrite Hlt, Nat2N.id, nth_opt_app_mid, N.eqb_refl. reflexivity.
Qed.

Lemma ei_at_end l last f : (0 < f)%nat -> ei_loop f l (N.of_nat (List.length l)) last = Val (None, USIZE_MAX, last).
Proof. intros Hf. destruct f; [lia|]. cbn [ei_loop]. rewrite N.ltb_irrefl. reflexivity. Qed.

Lemma ei_loop_alldata ds pre last f : elems ds = [] -> (List.length ds < f)%nat ->
  ei_loop f (pre ++ ds) (N.of_nat (List.length pre)) last = Val (None, USIZE_MAX, last).
Proof.
  intros He Hf. replace f with (List.length ds + (f - List.length ds))%nat by lia.
  pose proof (ei_skip ds pre [] last (f - List.length ds) He) as Hs. rewrite app_nil_r in Hs. rewrite Hs.
  destruct (f - List.length ds)%nat as [|f'] eqn:Ef; [lia|].
  replace (List.length pre + List.length ds)%nat with (List.length (pre ++ ds)) by (rewrite app_length; auto).
  apply ei_at_end. lia.
Qed.

Lemma ei_loop_next ds c rest pre last f : elems ds = [] -> last <> Some c -> (List.length ds < f)%nat ->
  ei_loop f (pre ++ ds ++ CElem c :: rest) (N.of_nat (List.length pre)) last =
  Val (Some c, N.of_nat (List.length pre + List.length ds), Some c).
Proof.
  intros He Hl Hf. replace f with (List.length ds + (f - List.length ds))%nat by lia.
  rewrite (ei_skip ds pre (CElem c :: rest) last (f - List.length ds) He).
  destruct (f - List.length ds)%nat as [|f'] eqn:Ef; [lia|].
  rewrite app_assoc. replace (List.length pre + List.length ds)%nat with (List.length (pre ++ ds)) by (rewrite app_length; auto).
  apply ei_at_new. auto.
Qed.

Lemma ei_drain_from w e n : w_nodes w e = Some n ->
  forall k suf pre c, (List.length suf <= k)%nat -> n_content n = pre ++ CElem c :: suf -> NoDup (c :: elems suf) ->
  forall f, (List.length (elems suf) + 1 <= f)%nat ->
  ei_drain f (mkEI e (N.of_nat (List.length pre)) (Some c)) w = Val (elems suf).
Proof.
  intros Hn. induction k as [|k IH]; intros suf pre c Hk Hc Hnd f Hf.
  - destruct suf; [|cbn in Hk; lia]. destruct f as [|f]; [lia|]. cbn [ei_drain]. unfold ei_next. cbn [ei_elem ei_index ei_last].
    rewrite Hn, Hc. rewrite ei_at_same.
    replace (N.of_nat (List.length pre) + 1) with (N.of_nat (List.length (pre ++ [CElem c]))) by (rewrite app_length; cbn; lia).
    rewrite ei_at_end by (rewrite app_length; cbn; lia). reflexivity.
  - destruct f as [|f]; [lia|]. cbn [ei_drain]. unfold ei_next. cbn [ei_elem ei_index ei_last]. rewrite Hn, Hc. rewrite ei_at_same.
    replace (N.of_nat (List.length pre) + 1) with (N.of_nat (List.length (pre ++ [CElem c]))) by (rewrite app_length; cbn; lia).
    replace (pre ++ CElem c :: suf) with ((pre ++ [CElem c]) ++ suf) by (rewrite <- app_assoc; reflexivity).
    destruct (content_split suf) as [He|(ds & c2 & suf2 & -> & Hds & He)].
    + rewrite ei_loop_alldata; auto; [|rewrite !app_length; cbn; lia]. cbn [bind]. rewrite He. reflexivity.
    + rewrite ei_loop_next; auto.
      2:{ intros [= ->]. rewrite He in Hnd. inversion Hnd; subst. apply H1. left; auto. }
      2:{ rewrite !app_length. cbn. lia. }
      cbn [bind]. rewrite He in *. inversion Hnd; subst.
      replace (List.length (pre ++ [CElem c]) + List.length ds)%nat with (List.length (pre ++ CElem c :: ds))
        by (rewrite !app_length; cbn; lia).
      rewrite (IH suf2 (pre ++ CElem c :: ds) c2); auto.
      * rewrite app_length in Hk. cbn in Hk. lia.
      * rewrite Hc. rewrite <- !app_assoc. reflexivity.
      * cbn [List.length] in Hf. lia.
Qed.

(* ---------- the theorem for ElementsIterator ---------- *)
Theorem ei_iter_spec w e n : Core w -> w_nodes w e = Some n ->
  forall f, (List.length (kids n) + 1 <= f)%nat -> ei_drain f (ei_new e) w = Val (kids n).
Proof.
  intros C Hn f Hf. pose proof (c_nodup _ C _ _ Hn) as Hnd. unfold kids in *.
  destruct f as [|f]; [lia|]. cbn [ei_drain]. unfold ei_next, ei_new. cbn [ei_elem ei_index ei_last]. rewrite Hn.
  destruct (content_split (n_content n)) as [He|(ds & c & suf & Hc & Hds & He)].
  - change (N.of_nat 0) with (N.of_nat (List.length (@nil citem))).
    replace (n_content n) with ([] ++ n_content n) at 2 by reflexivity.
    change 0 with (N.of_nat (List.length (@nil citem))).
    rewrite ei_loop_alldata; auto. cbn [bind]. rewrite He. reflexivity.
  - rewrite Hc at 2. change 0 with (N.of_nat (List.length (@nil citem))).
    replace (ds ++ CElem c :: suf) with ([] ++ ds ++ CElem c :: suf) by reflexivity.
    rewrite ei_loop_next; auto; [|congruence | rewrite Hc, app_length; cbn; lia].
    cbn [bind List.length Nat.add]. rewrite He in *.
    rewrite (ei_drain_from w e n Hn (List.length suf) suf ds c); auto. cbn [List.length] in Hf. lia.
Qed.

(* ------------------------------------------------------------------ ElementsIterator tolerates modification *)
(* Whatever the state (index, last_output) and whatever the content list has become since the previous call:
   next() does not panic or run out of fuel, an element it returns differs from the one returned by the previous
   call (last_output) and becomes the new last_output, and after None the iterator is fused. *)
Lemma ei_loop_total content last : forall f index,
  (N.to_nat (N.of_nat (List.length content) - index) < f)%nat ->
  exists o i l, ei_loop f content index last = Val (o, i, l) /\
    (forall e, o = Some e -> last <> Some e /\ l = Some e /\ nth_opt content (N.to_nat i) = Some (CElem e)) /\
    (o = None -> i = USIZE_MAX /\ l = last).
Proof.
  induction f as [|f IH]; intros index Hf; [lia|]. cbn [ei_loop].
  destruct (index <? N.of_nat (List.length content)) eqn:Elt.
  - apply N.ltb_lt in Elt.
    destruct (nth_opt content (N.to_nat index)) as [[sub|d]|] eqn:En.
    + destruct last as [prev|].
      * destruct (prev =? sub) eqn:Ep.
        -- apply IH. lia.
        -- apply N.eqb_neq in Ep. exists (Some sub), index, (Some sub). split; auto. split; [|discriminate].
           intros e [= <-]. split; [congruence|]. auto.
      * exists (Some sub), index, (Some sub). split; auto. split; [|discriminate].
        intros e [= <-]. split; [congruence|]. auto.
    + apply IH. lia.
    + exfalso. destruct (nth_opt_lt content (N.to_nat index)) as (x & Hx); [lia|]. congruence.
  - exists None, USIZE_MAX, last. split; auto. split; [discriminate|auto].
Qed.

Theorem ei_next_tolerant s w n : w_nodes w (ei_elem s) = Some n ->
  exists o s', ei_next s w = Val (o, s') /\ ei_elem s' = ei_elem s /\
    (forall e, o = Some e -> ei_last s <> Some e /\ ei_last s' = Some e /\ In e (kids n)) /\
    (o = None -> ei_index s' = USIZE_MAX /\ ei_last s' = ei_last s).
Proof.
  intros Hn. unfold ei_next. rewrite Hn.
  destruct (ei_loop_total (n_content n) (ei_last s) (S (List.length (n_content n))) (ei_index s)) as
    (o & i & l & -> & Hs & Hnone); [lia|].
  cbn [bind]. exists o, (mkEI (ei_elem s) i l). split; auto. split; auto. split.
  - intros e He. destruct (Hs e He) as (H1 & H2 & H3). split; auto. split; auto.
    apply in_elems. eapply nth_opt_In; eauto.
  - intros He. destruct (Hnone He). auto.
Qed.

(* once fused it stays fused, on every later content list *)
Corollary ei_fused s w n : w_nodes w (ei_elem s) = Some n -> ei_index s = USIZE_MAX ->
  (List.length (n_content n) < N.to_nat USIZE_MAX)%nat ->
  exists s', ei_next s w = Val (None, s') /\ ei_index s' = USIZE_MAX.
Proof.
  intros Hn Hi Hlen. unfold ei_next. rewrite Hn, Hi. cbn [ei_loop].
  assert (E : USIZE_MAX <? N.of_nat (List.length (n_content n)) = false) by (apply N.ltb_ge; lia).
  rewrite E. cbn [bind]. eexists. split; eauto.
Qed.
