(* Tree/CompatFrameOps.v — the operations of Tree/Ops.v that never add a sub-element to a content list and never allocate:
   each of them is frp (Tree/CompatFrame.v) from every base world, so TypedT is inherited across them. *)
From Coq Require Import PeanoNat Arith Lia.
From AV Require Import Base.Bytes Base.Outcome Hash.HashModel Spec.SpecOps Tree.Heap Tree.Ops Tree.Script Tree.Inv
  Tree.InvProofsBase Tree.InvProofsCore Tree.InvProofsPrim Tree.InvProofsRefs Tree.InvProofsRemove
  Tree.Compat Tree.CompatSpec Tree.CompatTyped Tree.CompatProofs8 Tree.CompatFrame.
Open Scope string_scope.
Open Scope list_scope.
Open Scope N_scope.

(* anonymous list loops: induction on the list, one unfolding of the fix *)
Ltac fr_loop :=
  match goal with
  | |- frp ?w0 (?F ?l) =>
    is_fix F;
    let l' := fresh "l" in
    generalize l; intro l'; induction l' as [|? ? ?]; lazy beta iota fix zeta
  end.
Ltac fr_go := repeat first [ fr_step | fr_loop ].

Section Ops.
Variable T : tables.
Variable tab_el tab_en : nametab.
Variable check_fn : N -> list N -> res bool.
Variable LATEST : N.
Variable w0 : world.

Lemma frp_add_identifiable m p e : frp w0 (add_identifiable m p e).
Proof. unfold add_identifiable. fr_go. Qed.
Lemma frp_remove_identifiable m p : frp w0 (remove_identifiable m p).
Proof. unfold remove_identifiable. fr_go. Qed.
Lemma frp_fix_identifiables m a b : frp w0 (fix_identifiables m a b).
Proof. unfold fix_identifiables. fr_go. Qed.
Lemma frp_add_reference_origin m r e : frp w0 (add_reference_origin m r e).
Proof. unfold add_reference_origin. fr_go. Qed.
Lemma frp_fix_reference_origins m a b e : frp w0 (fix_reference_origins m a b e).
Proof. unfold fix_reference_origins. fr_go. Qed.
Lemma frp_remove_reference_origin m r e : frp w0 (remove_reference_origin m r e).
Proof. unfold remove_reference_origin. fr_go. Qed.
Hint Resolve frp_add_identifiable frp_remove_identifiable frp_fix_identifiables frp_add_reference_origin
  frp_fix_reference_origins frp_remove_reference_origin : frp.

Lemma frp_raw_set_cdata i v version : frp w0 (raw_set_character_data T check_fn i v version).
Proof. unfold raw_set_character_data. fr_go. Qed.
Hint Resolve frp_raw_set_cdata : frp.

Lemma frp_detach p c : frp w0 (detach_from p c).
Proof. unfold detach_from. fr_go. Qed.
Hint Resolve frp_detach : frp.

Lemma frp_make_unique i m pp : frp w0 (make_unique_item_name T i m pp).
Proof. unfold make_unique_item_name. fr_go. Qed.
Hint Resolve frp_make_unique : frp.

Lemma frp_remove_internal fuel : forall i m path, frp w0 (remove_internal T fuel i m path).
Proof. induction fuel as [|f IH]; intros i m path; cbn [remove_internal]; fr_go. Qed.
Hint Resolve frp_remove_internal : frp.

Lemma frp_raw_remove self sub m : frp w0 (raw_remove_sub_element T self sub m).
Proof. unfold raw_remove_sub_element. fr_go. Qed.
Hint Resolve frp_raw_remove : frp.
Lemma frp_e_remove h sub : frp w0 (e_remove_sub_element T h sub).
Proof. unfold e_remove_sub_element. fr_go. Qed.
Hint Resolve frp_e_remove : frp.
Lemma frp_e_remove_kind h name : frp w0 (e_remove_sub_element_kind T h name).
Proof. unfold e_remove_sub_element_kind. fr_go. Qed.

Lemma frp_set_item_name h nm : frp w0 (e_set_item_name T check_fn LATEST h nm).
Proof. unfold e_set_item_name. fr_go. Qed.
Lemma frp_set_cdata h v : frp w0 (e_set_character_data T tab_en check_fn LATEST h v).
Proof. unfold e_set_character_data. fr_go. Qed.
Lemma frp_remove_cdata h : frp w0 (e_remove_character_data T h).
Proof. unfold e_remove_character_data. fr_go. Qed.
Lemma frp_insert_citem h text pos : frp w0 (e_insert_character_content_item T h text pos).
Proof. unfold e_insert_character_content_item. fr_go. Qed.
Lemma frp_remove_citem h pos : frp w0 (e_remove_character_content_item T h pos).
Proof. unfold e_remove_character_content_item. fr_go. Qed.
Lemma frp_raw_set_attribute h attr v version : frp w0 (raw_set_attribute T check_fn h attr v version).
Proof. unfold raw_set_attribute. fr_go. Qed.
Hint Resolve frp_raw_set_attribute : frp.
Lemma frp_set_attribute h attr v : frp w0 (e_set_attribute T check_fn LATEST h attr v).
Proof. unfold e_set_attribute. fr_go. Qed.
Lemma frp_remove_attribute h attr : frp w0 (e_remove_attribute T h attr).
Proof. unfold e_remove_attribute. fr_go. Qed.
Lemma frp_set_ref_target h target : frp w0 (e_set_reference_target T tab_el tab_en check_fn LATEST h target).
Proof. unfold e_set_reference_target. fr_go. Qed.
Lemma frp_set_comment h c : frp w0 (e_set_comment h c).
Proof. unfold e_set_comment. fr_go. Qed.
Lemma frp_add_to_file_restricted fuel : forall e f, frp w0 (add_to_file_restricted T fuel e f).
Proof. induction fuel as [|fl IH]; intros e f; cbn [add_to_file_restricted]; fr_go. Qed.
Hint Resolve frp_add_to_file_restricted : frp.
Lemma frp_add_to_file e f : frp w0 (e_add_to_file T e f).
Proof. unfold e_add_to_file. fr_go. Qed.
Lemma frp_remove_from_file e f : frp w0 (e_remove_from_file T e f).
Proof. unfold e_remove_from_file. fr_go. Qed.
Lemma frp_create_file m name version : frp w0 (m_create_file T m name version).
Proof.
  unfold m_create_file. apply frp_bind; [fr_go|intros x].
  intros w r w' F H. apply wbind_inv in H as [(wc & w1 & H1 & H2) | (e & H1 & _)]; [|apply wget_inv in H1 as ([=] & _)].
  apply wget_inv in H1 as ([= <-] & ->).
  destruct (existsb _ (m_files x)); [apply wfail_inv in H2 as (_ & ->); exact F|].
  apply wbind_inv in H2 as [(u & w2 & H1 & H2) | (e & H1 & _)]; [|discriminate H1].
  unfold wput in H1. injection H1 as <- <-.
  revert H2. match goal with |- ?k ?ww = _ -> _ => assert (frp w0 k) as K by fr_go; intros H2; apply (K _ _ _) in H2; [exact H2|] end.
  destruct F as (Nx & F). split; [exact Nx|]. intros j y Hy. exact (F _ _ Hy).
Qed.
Lemma frp_set_file_membership e fm : frp w0 (set_file_membership T e fm).
Proof. unfold set_file_membership. fr_go. Qed.
Hint Resolve frp_set_file_membership : frp.
Lemma frp_remove_file m f : frp w0 (m_remove_file T m f).
Proof. unfold m_remove_file. fr_go. Qed.

End Ops.
