(* Tree/CompatHistReal2.v — on the regenerated real tables, over the WHOLE alphabet op2 (loads of first files, merges, duplicate,
   sort, set_version, serialize and the 26 operations of Tree/Script.v): after every history from the empty world whose moves /
   copies satisfy op_ok and whose loads lie outside C03's Known_load, the compatibility check is exact. *)
From AV Require Import Base.Bytes Base.Outcome Hash.HashModel Spec.SpecOps Spec.SpecReal Tree.Heap Tree.Ops Tree.Script Tree.Inv
  Tree.Compat Tree.CompatSpec Tree.CompatTyped Tree.CompatProofs5 Tree.CompatReal Tree.CompatHist1 Tree.CompatHist5 Tree.CompatHist6
  Tree.CompatHistReal Tree.CompatPM Tree.CompatHist11 Tree.Script2.
Open Scope list_scope.
Open Scope N_scope.

Section Real3.
Variable tab_el tab_at tab_en : nametab.
Variable check_fn : N -> list N -> res bool.
Variable float_parse : list N -> option N.
Variable float_fmt : N -> list N.
Variable LATEST name_index name_definition_ref attr_schema_location : N.
Variable root_attrs : list (N * cdata).

Theorem exact_histories3_real (l : list op2) (w : world) :
  run_ops2 RT tab_el tab_at tab_en check_fn float_parse float_fmt LATEST name_index name_definition_ref attr_schema_location root_attrs l empty_world = Val w ->
  ok_ops3 RT tab_el tab_at tab_en check_fn float_parse float_fmt LATEST name_index name_definition_ref attr_schema_location root_attrs l empty_world ->
  forall f v r, f_check RT w f v = Val r -> (fst r = [] <-> ValidIn RT w f v).
Proof.
  intros H Hok f v r Hc.
  destruct (typed_histories3 RT tab_el tab_at tab_en check_fn float_parse float_fmt LATEST name_index name_definition_ref
              attr_schema_location root_attrs PairOK_real l w Hok H) as (C & HT & _).
  exact (f_check_exact_u RT w f v PairOK_real MaskOK_real C HT r Hc).
Qed.

Theorem exact_step3_real o w r0 w' :
  op3_ok RT tab_el tab_at tab_en check_fn float_parse float_fmt LATEST name_index name_definition_ref attr_schema_location root_attrs w o ->
  J RT w ->
  run_op2 RT tab_el tab_at tab_en check_fn float_parse float_fmt LATEST name_index name_definition_ref attr_schema_location root_attrs o w = Val (r0, w') ->
  forall f v r, f_check RT w' f v = Val r -> (fst r = [] <-> ValidIn RT w' f v).
Proof.
  intros Hok Jw H f v r Hc.
  destruct (typed_step3 RT tab_el tab_at tab_en check_fn float_parse float_fmt LATEST name_index name_definition_ref
              attr_schema_location root_attrs PairOK_real o w r0 w' Hok Jw H) as (C & HT & _).
  exact (f_check_exact_u RT w' f v PairOK_real MaskOK_real C HT r Hc).
Qed.
End Real3.
