(* Tree/SortProofsReadyE.v — C14, the hypothesis SpecKids over histories, part E (types, names, edges).
   RE T tab_el w : every node has a checked element type (Xml/TablesOk.v etype_ok) and a name inside the ElementName string table,
                   and every listed sub-element's NAME is listed by the type of its lister for some version (okname).
   Kept by all 26 operations of Tree/Script.v, WITHOUT side condition on move / copy: every attaching path checks
   find_sub_element(name of the element, version) in the type of the destination before it inserts (calc_element_insert_range);
   the stored TYPE of a moved / copied element may differ from what the destination lists (C07 / C13 known class
   copy-keeps-source-type) - ElementRaw::sort looks the NAME up, so that class does not matter here.
   Built on agent-c17's frame calculus (Tree/CompatFrame.v, CompatFrameOps.v, CompatHist1/3/4.v: Fr, frp, FI, the frp lemmas of
   every non-attaching operation, Bounded), which is independent of the invariant; only the invariant-specific steps are redone.
   Table hypotheses: tables_ok T (no lookup panics, found types are checked types) and NamesOK (every element definition's name is
   inside the string table). *)
From Coq Require Import PeanoNat Arith Lia.
From AV Require Import Base.Bytes Base.Outcome Hash.HashModel Spec.SpecOps Xml.TablesOk Tree.Heap Tree.Ops Tree.Script Tree.Inv
  Tree.InvProofsBase Tree.InvProofsCore Tree.InvProofsPrim Tree.InvProofsCreate Tree.InvProofsRefs Tree.InvProofsRemove Tree.InvProofs
  Tree.Compat Tree.CompatSpec Tree.CompatTyped Tree.CompatProofs8 Tree.CompatFrame Tree.CompatFrameOps
  Tree.CompatHist1 Tree.CompatHist3 Tree.CompatHist4.
Open Scope string_scope.
Open Scope list_scope.
Open Scope N_scope.

Section E.
Variable T : tables.
Variable tab_el tab_en : nametab.
Variable check_fn : N -> list N -> res bool.
Variable LATEST : N.
Variable root_attrs : list (N * cdata).
Hypothesis HOK : tables_ok T = true.
Hypothesis NamesOK : forall i e, i < n_elements T -> T_elements T i = Some e -> to_str tab_el (ed_name e) <> None.

Definition nameok (x : N) : Prop := to_str tab_el x <> None.
Definition okname (tp : N * N) (nm : N) : Prop := exists u et ixs, find_sub_element T tp nm u = Val (Some (et, ixs)).
Definition nodeE (n : node) : Prop := etype_ok T (n_type n) /\ nameok (n_name n).

Definition RE (w : world) : Prop :=
  (forall i n, w_nodes w i = Some n -> nodeE n) /\
  (forall i n c cn, w_nodes w i = Some n -> In (CElem c) (n_content n) -> w_nodes w c = Some cn -> okname (n_type n) (n_name cn)).

Lemma empty_RE : RE empty_world.
Proof. split; intros; discriminate. Qed.

(* ---- what a successful lookup says about the name and the type found ---- *)
Lemma find_sub_named fuel : forall ty, grp_ok T fuel ty = true -> forall target version et ixs,
  find_sub T fuel ty target version = Val (Some (et, ixs)) ->
  etype_ok T et /\ exists i e, i < n_elements T /\ T_elements T i = Some e /\ ed_name e = target.
Proof.
  induction fuel as [|f IH]; intros ty G target version et ixs; [discriminate|].
  destruct (grp_ok_S T _ _ G) as (d & ED & SL & MODE & ENT). rewrite find_sub_S, (sub_slice_ok T _ _ ED SL). cbn [bind].
  set (start := dt_sub_start d) in *. set (stop := dt_sub_end d) in *.
  assert (LOOP : forall k pos, pos + N.of_nat k = stop - start ->
     find_loop T (fun idx => find_sub T f idx target version) d start target version k pos = Val (Some (et, ixs)) ->
     etype_ok T et /\ exists i e, i < n_elements T /\ T_elements T i = Some e /\ ed_name e = target).
  { induction k as [|k IHk]; intros pos Hp; [rewrite find_loop_0; discriminate|rewrite find_loop_S].
    assert (Hlt : pos < stop - start) by lia.
    destruct (ENT pos Hlt) as (kind & idx & m & ES & EV & KIND). unfold subel. rewrite ES. cbn [unwrap bind].
    destruct KIND as [[-> Hidx]|[-> Gi]].
    - cbn [N.eqb]. destruct (ok_elem T HOK idx Hidx) as (e & EE & LE). unfold elem at 1. rewrite EE. cbn [unwrap bind].
      unfold vinfo. rewrite EV. cbn [unwrap bind].
      destruct ((ed_name e =? target) && negb (N.land version m =? 0)) eqn:Eh.
      + destruct (et_new_ok T HOK idx Hidx) as (t & -> & TOK & _). cbn [bind]. intros [= <- _].
        split; [exact TOK|]. apply andb_prop in Eh as [En _]. apply N.eqb_eq in En. eauto.
      + apply IHk. lia.
    - change (1 =? 0) with false. cbv iota.
      destruct (find_sub T f idx target version) as [[[et' ixs']|]| |] eqn:Er; try discriminate.
      + intros [= <- _]. exact (IH idx Gi _ _ _ _ Er).
      + apply IHk. lia. }
  apply LOOP. lia.
Qed.

Lemma find_named t target version et ixs : etype_ok T t ->
  find_sub_element T t target version = Val (Some (et, ixs)) -> etype_ok T et /\ nameok target.
Proof.
  intros (_ & L & _) H. unfold find_sub_element in H.
  destruct (find_sub_named FUEL (snd t) (proj1 (ok_type T HOK _ L)) _ _ _ _ H) as (E & i & e & Hi & He & <-).
  split; [exact E|]. exact (NamesOK i e Hi He).
Qed.

(* ---- frames ---- *)
Lemma Fr_RE w0 w : Fr w0 w -> RE w0 -> RE w.
Proof.
  intros (_ & F) (R1 & R2). split.
  - intros i n Hn. destruct (F _ _ Hn) as (n0 & Hn0 & (Nn & Tn & _)). unfold nodeE. rewrite Nn, Tn. exact (R1 _ _ Hn0).
  - intros i n c cn Hn Hin Hc.
    destruct (F _ _ Hn) as (n0 & Hn0 & (_ & Tn & Cn)). destruct (F _ _ Hc) as (cn0 & Hc0 & (Nc & _ & _)).
    rewrite Tn, Nc. exact (R2 i n0 c cn0 Hn0 (Cn _ Hin) Hc0).
Qed.

Definition JE {A} (m : W A) : Prop :=
  forall w r w', m w = Val (r, w') -> Bounded w -> RE w -> Bounded w' /\ RE w'.

Lemma JE_frp {A} (m : W A) : (forall w0, frp w0 m) -> JE m.
Proof.
  intros Hf w r w' H B HR. pose proof (Hf w w r w' (Fr_refl w) H) as F.
  split; [exact (Fr_bounded w w' F B)|exact (Fr_RE w w' F HR)].
Qed.
Lemma JE_ro {A} (m : W A) : ro m -> JE m.
Proof. intros R w r w' H B HR. apply R in H. subst. auto. Qed.
Lemma JE_bind {A B} (m : W A) (k : A -> W B) : JE m -> (forall a, JE (k a)) -> JE (wbind m k).
Proof.
  intros Hm Hk w r w' H Bw HR. apply wbind_inv in H as [(a & w1 & H1 & H2) | (e & H1 & _)].
  - destruct (Hm _ _ _ H1 Bw HR) as (B1 & R1). exact (Hk _ _ _ _ H2 B1 R1).
  - exact (Hm _ _ _ H1 Bw HR).
Qed.
Lemma JE_try {A} (m : W A) : JE m -> JE (wtry m).
Proof. intros Hm w r w' H. apply wtry_inv in H as (r0 & H & _). exact (Hm _ _ _ H). Qed.

Create HintDb je discriminated.
Ltac je_step :=
  first
  [ apply JE_ro; solve [ro_tac]
  | assumption
  | solve [auto with je]
  | apply JE_try
  | apply JE_bind; [ | intros ? ]
  | match goal with
    | |- JE (match ?x with _ => _ end) => destruct x
    | |- JE (if ?b then _ else _) => destruct b
    | |- JE (let '(_, _) := ?x in _) => destruct x
    end ].
Ltac je_tac := repeat je_step.

(* ---- allocation of a leaf, insertion of an edge ---- *)
Lemma RE_alloc w nd : Bounded w -> RE w -> n_content nd = [] -> nodeE nd -> RE (walloc w nd).
Proof.
  intros (B1 & B2) (R1 & R2) Hc Hnd. split.
  - intros i n Hn. destruct (N.eq_dec i (w_next w)) as [->|Hi].
    + rewrite nodes_walloc_new in Hn. injection Hn as <-. exact Hnd.
    + rewrite nodes_walloc_old in Hn by exact Hi. exact (R1 _ _ Hn).
  - intros i n c cn Hn Hin Hcn. destruct (N.eq_dec i (w_next w)) as [->|Hi].
    + rewrite nodes_walloc_new in Hn. injection Hn as <-. rewrite Hc in Hin. destruct Hin.
    + rewrite nodes_walloc_old in Hn by exact Hi.
      assert (Hcl : c <> w_next w) by (specialize (B2 _ _ _ Hn Hin); lia).
      rewrite nodes_walloc_old in Hcn by exact Hcl. exact (R2 i n c cn Hn Hin Hcn).
Qed.

Lemma RE_add_edge w p np c content' :
  RE w -> w_nodes w p = Some np ->
  (forall nc, w_nodes w c = Some nc -> okname (n_type np) (n_name nc)) ->
  (forall x, In (CElem x) content' -> x = c \/ In (CElem x) (n_content np)) ->
  RE (wset w p (set_content np content')).
Proof.
  intros (R1 & R2) Hp Hok Hin.
  assert (Hnode : forall j y, w_nodes (wset w p (set_content np content')) j = Some y ->
            exists y0, w_nodes w j = Some y0 /\ n_type y0 = n_type y /\ n_name y0 = n_name y /\ (j <> p -> y = y0)).
  { intros j y Hj. destruct (N.eq_dec j p) as [->|Hne].
    - rewrite nodes_wset_eq in Hj. injection Hj as <-. exists np. repeat split; auto. intros []; reflexivity.
    - rewrite nodes_wset_neq in Hj by exact Hne. exists y. auto. }
  split.
  - intros i n Hn. destruct (Hnode _ _ Hn) as (n0 & Hn0 & Tn & Nn & _). unfold nodeE. rewrite <- Tn, <- Nn. exact (R1 _ _ Hn0).
  - intros i n x xn Hn Hx Hxn.
    destruct (Hnode _ _ Hn) as (n0 & Hn0 & Tn & _ & Hsame). destruct (Hnode _ _ Hxn) as (xn0 & Hxn0 & _ & Nx & _).
    rewrite <- Tn, <- Nx.
    destruct (N.eq_dec i p) as [->|Hne].
    + rewrite nodes_wset_eq in Hn. injection Hn as <-. cbn [n_content set_content] in Hx.
      rewrite Hp in Hn0. injection Hn0 as <-.
      destruct (Hin _ Hx) as [->|Hold]; [exact (Hok _ Hxn0)|exact (R2 p np x xn0 Hp Hold Hxn0)].
    + rewrite (Hsame Hne) in Hx. exact (R2 i n0 x xn0 Hn0 Hx Hxn0).
Qed.

Lemma alloc_insert_RE w self n name et ix version pos r w' :
  Bounded w -> RE w -> w_nodes w self = Some n ->
  find_sub_element T (n_type n) name version = Val (Some (et, ix)) ->
  content_insert self pos (CElem (w_next w)) (walloc w (new_node (PElem self) name et)) = Val (r, w') ->
  Bounded w' /\ RE w'.
Proof.
  intros B HR Hn Hf H. set (nd := new_node (PElem self) name et) in *.
  assert (Hsf : self <> w_next w) by (destruct B as (B1 & _); specialize (B1 _ _ Hn); lia).
  apply content_insert_inv in H as (n1 & Hn1 & _ & ->). rewrite nodes_walloc_old in Hn1 by exact Hsf.
  rewrite Hn in Hn1. injection Hn1 as <-.
  destruct (find_named _ _ _ _ _ (proj1 (proj1 HR _ _ Hn)) Hf) as (Eet & Enm).
  pose proof (bounded_alloc w nd B eq_refl) as B1.
  pose proof (RE_alloc w nd B HR eq_refl (conj Eet Enm)) as R1.
  assert (Hself1 : w_nodes (walloc w nd) self = Some n) by (rewrite nodes_walloc_old by exact Hsf; exact Hn).
  split.
  - apply (bounded_add_edge _ self n (w_next w)); [exact B1|exact Hself1|cbn [walloc w_next]; lia|].
    intros x Hx. exact (in_insert_elem _ _ _ _ Hx).
  - apply (RE_add_edge _ self n (w_next w)); [exact R1|exact Hself1| |].
    + intros nc Hnc. rewrite nodes_walloc_new in Hnc. injection Hnc as <-. exists version, et, ix. exact Hf.
    + intros x Hx. exact (in_insert_elem _ _ _ _ Hx).
Qed.

(* ---- the creating operations ---- *)
Lemma JE_create_inner self name pos version : JE (create_sub_element_inner T self name pos version).
Proof.
  intros w r w' H B HR. unfold create_sub_element_inner in H.
  wstep H; winv E.
  wstep H; winv E.
  destruct v as [[et ix]|]; [|winv H; auto].
  wstep H; winv E.
  destruct v; [winv H; auto|].
  wstep H. apply alloc_walloc in E as ([= ->] & ->).
  wstep H.
  - winv H. exact (alloc_insert_RE w self n name et ix version pos _ _ B HR Hn Hv E).
  - exact (alloc_insert_RE w self n name et ix version pos _ _ B HR Hn Hv E).
Qed.
Hint Resolve JE_create_inner : je.

Lemma JE_raw_create_sub self name version : JE (raw_create_sub_element T self name version).
Proof. unfold raw_create_sub_element. je_tac. Qed.
Lemma JE_raw_create_sub_at self name pos version : JE (raw_create_sub_element_at T self name pos version).
Proof. unfold raw_create_sub_element_at. je_tac. Qed.
Hint Resolve JE_raw_create_sub JE_raw_create_sub_at : je.
Lemma JE_e_create_sub h name : JE (e_create_sub_element T LATEST h name).
Proof. unfold e_create_sub_element. je_tac. Qed.
Lemma JE_e_create_sub_at h name pos : JE (e_create_sub_element_at T LATEST h name pos).
Proof. unfold e_create_sub_element_at. je_tac. Qed.
Lemma JE_e_get_or_create h name : JE (e_get_or_create_sub_element T LATEST h name).
Proof. unfold e_get_or_create_sub_element. je_tac. Qed.

Lemma JE_create_named_inner self name item pos m version :
  JE (create_named_sub_element_inner T check_fn self name item pos m version).
Proof.
  unfold create_named_sub_element_inner. intros w r w' H B HR.
  destruct (is_empty item); [winv H; auto|].
  wstep H; winv E.
  wstep H; winv E.
  destruct v as [[et ix]|]; [|winv H; auto].
  wstep H; winv E.
  destruct (negb v); [winv H; auto|].
  wstep H; winv E.
  wstep H; [|auto].
  destruct (negb a); [winv H; auto|].
  wstep H; [|auto].
  wstep H; [|auto].
  destruct a1; [winv H; auto|].
  wstepn H c Ea.
  apply alloc_walloc in Ea as ([= ->] & ->).
  wstepn H u Ei.
  2:{ exact (alloc_insert_RE w self n name et ix version pos _ _ B HR Hn Hv Ei). }
  destruct (alloc_insert_RE w self n name et ix version pos _ _ B HR Hn Hv Ei) as (B1 & R1).
  assert (P : JE (do s <- raw_create_sub_element T (w_next w) (name_short_name T) version;
                  do _ <- wtry (raw_set_character_data T check_fn s (DString item) version);
                  add_identifiable m (a0 ++ [47] ++ item) (w_next w);; wret (w_next w))%W).
  { apply JE_bind; [apply JE_raw_create_sub|intros s].
    apply JE_frp. intros wb. fr_go. }
  exact (P _ _ _ H B1 R1).
Qed.
Hint Resolve JE_create_named_inner : je.

Lemma JE_raw_create_named self name item m version : JE (raw_create_named_sub_element T check_fn self name item m version).
Proof. unfold raw_create_named_sub_element. je_tac. Qed.
Lemma JE_raw_create_named_at self name item pos m version :
  JE (raw_create_named_sub_element_at T check_fn self name item pos m version).
Proof. unfold raw_create_named_sub_element_at. je_tac. Qed.
Hint Resolve JE_raw_create_named JE_raw_create_named_at : je.
Lemma JE_e_create_named h name item : JE (e_create_named_sub_element T check_fn LATEST h name item).
Proof. unfold e_create_named_sub_element. je_tac. Qed.
Lemma JE_e_create_named_at h name item pos : JE (e_create_named_sub_element_at T check_fn LATEST h name item pos).
Proof. unfold e_create_named_sub_element_at. je_tac. Qed.
Lemma JE_e_get_or_create_named h name item : JE (e_get_or_create_named_sub_element T check_fn LATEST h name item).
Proof. unfold e_get_or_create_named_sub_element. je_tac. Qed.

Lemma JE_new_model : JE (new_model T root_attrs).
Proof.
  intros w r w' H B HR. unfold new_model in H.
  destruct (root_ok T HOK) as (ed0 & t0 & Eed & Et & Tok).
  rewrite Et, Eed in H. injection H as <- <-.
  set (nd := mkNode _ _ _ _ _ _ _).
  assert (Hnd : nodeE nd).
  { split; [exact Tok|]. cbn [nd n_name]. unfold elem, unwrap in Eed.
    destruct (T_elements T (autosar_element T)) as [e|] eqn:Ee; [|discriminate]. injection Eed as <-.
    exact (NamesOK _ _ (ok_root T HOK) Ee). }
  pose proof (bounded_alloc w nd B eq_refl) as B1. pose proof (RE_alloc w nd B HR eq_refl Hnd) as R1.
  split; [destruct B1 as (X1 & X2); split; [exact X1|exact X2]|exact R1].
Qed.

(* ---- deep copy: the copy keeps the name and the type of its source, so its edges are the edges of the source ---- *)
Definition DCE (dc : id -> N -> W id) : Prop :=
  forall src ver w r w', dc src ver w = Val (r, w') -> Bounded w -> RE w ->
    Bounded w' /\ RE w' /\ ext' w w' /\
    match r with
    | OK c => exists n nc, w_nodes w src = Some n /\ w_nodes w' c = Some nc /\ n_name nc = n_name n /\ n_type nc = n_type n /\
                           w_next w <= c < w_next w'
    | ER _ => True
    end.

Definition IIE (w0 : world) (c : id) (nm : N) (ty : N * N) (wk : world) : Prop :=
  Bounded wk /\ RE wk /\ ext' w0 wk /\ w_next w0 <= c < w_next wk /\
  exists nc, w_nodes wk c = Some nc /\ n_name nc = nm /\ n_type nc = ty.

Lemma items_spec_E dc (Hdc : DCE dc) w0 src n c ver :
  Bounded w0 -> RE w0 -> w_nodes w0 src = Some n ->
  forall l wk r w', (forall s, In (CElem s) l -> In (CElem s) (n_content n)) ->
    IIE w0 c (n_name n) (n_type n) wk ->
    dc_items T dc c (n_type n) ver l wk = Val (r, w') -> IIE w0 c (n_name n) (n_type n) w'.
Proof.
  intros B0 R0 Hsrc. induction l as [|[s|d] l IH]; intros wk r w' Hl I H; cbn [dc_items] in H.
  - winv H. exact I.
  - assert (Hl' : forall s0, In (CElem s0) l -> In (CElem s0) (n_content n)) by (intros s0 Hs0; apply Hl; right; exact Hs0).
    destruct I as (Bk & Rk & Ek & Hc & nc & Hnc & Nnc & Tnc).
    wstepn H sn Es; winv Es. wstepn H fs Ef; winv Ef.
    destruct v as [x|]; [|apply (IH _ _ _ Hl' (conj Bk (conj Rk (conj Ek (conj Hc (ex_intro _ nc (conj Hnc (conj Nnc Tnc))))))) H)].
    assert (Hs0 : s < w_next w0) by (destruct B0 as (_ & B2); exact (B2 _ _ _ Hsrc (Hl s (or_introl eq_refl)))).
    assert (Hsn0 : w_nodes w0 s = Some n0) by (rewrite <- (proj2 Ek) by exact Hs0; exact Hn).
    wstepn H ro Ed. apply wtry_inv in Ed as (r0 & Ed & [= ->]).
    destruct (Hdc _ _ _ _ _ Ed Bk Rk) as (B1 & R1 & E1 & Hr0).
    assert (Hc1 : w_nodes w c = Some nc) by (rewrite (proj2 E1) by lia; exact Hnc).
    destruct r0 as [cs|e].
    + destruct Hr0 as (sn' & ncs & Hsn' & Hncs & Nncs & Tncs & Hcs). rewrite Hn in Hsn'. injection Hsn' as <-.
      wstepn H u1 Em1. apply modify_node_wset in Em1 as (ncs' & Hncs' & _ & ->). rewrite Hncs in Hncs'. injection Hncs' as <-.
      set (w2 := wset w cs (set_parent ncs (PElem c))) in *.
      assert (F2 : Fr w w2) by (apply (Fr_wset_self w cs ncs); [exact Hncs|repeat split; auto]).
      pose proof (Fr_bounded w w2 F2 B1) as B2. pose proof (Fr_RE w w2 F2 R1) as R2.
      assert (Hcs_ne : cs <> c) by lia.
      assert (Hc2 : w_nodes w2 c = Some nc) by (unfold w2; rewrite nodes_wset_neq by lia; exact Hc1).
      assert (Hcs2 : w_nodes w2 cs = Some (set_parent ncs (PElem c))) by (unfold w2; apply nodes_wset_eq).
      wstepn H u2 Em2. apply modify_node_wset in Em2 as (nc' & Hnc' & _ & ->). rewrite Hc2 in Hnc'. injection Hnc' as <-.
      eapply (IH _ _ _ Hl'); [|exact H].
      assert (Hin3 : forall x0, In (CElem x0) (n_content nc ++ [CElem cs]) -> x0 = cs \/ In (CElem x0) (n_content nc)).
      { intros x0 Hx0. apply in_app_or in Hx0 as [Hx0|[Hx0|[]]]; [right; exact Hx0|injection Hx0 as ->; left; reflexivity]. }
      split; [|split; [|split; [|split]]].
      * apply (bounded_add_edge w2 c nc cs); [exact B2|exact Hc2|unfold w2; cbn [wset w_next]; lia|exact Hin3].
      * apply (RE_add_edge w2 c nc cs); [exact R2|exact Hc2| |exact Hin3].
        intros ncs2 Hncs2. rewrite Hcs2 in Hncs2. injection Hncs2 as <-.
        cbn [set_parent n_name n_type]. rewrite Tnc, Nncs.
        exact (proj2 R0 src n s n0 Hsrc (Hl s (or_introl eq_refl)) Hsn0).
      * apply ext'_wset; [|lia]. apply ext'_wset; [|lia]. eapply ext'_trans; eauto.
      * unfold w2. cbn [wset w_next]. destruct E1 as (N1 & _). lia.
      * exists (set_content nc (n_content nc ++ [CElem cs])). split; [apply nodes_wset_eq|]. cbn [set_content n_name n_type]. auto.
    + eapply (IH _ _ _ Hl'); [|exact H].
      split; [exact B1|]. split; [exact R1|]. split; [eapply ext'_trans; eauto|]. split; [destruct E1 as (N1 & _); lia|].
      exists nc. auto.
  - assert (Hl' : forall s0, In (CElem s0) l -> In (CElem s0) (n_content n)) by (intros s0 Hs0; apply Hl; right; exact Hs0).
    destruct I as (Bk & Rk & Ek & Hc & nc & Hnc & Nnc & Tnc).
    wstepn H u Em. apply modify_node_wset in Em as (nc' & Hnc' & _ & ->). rewrite Hnc in Hnc'. injection Hnc' as <-.
    eapply (IH _ _ _ Hl'); [|exact H].
    set (w2 := wset wk c _).
    assert (F2 : Fr wk w2).
    { apply (Fr_wset_self wk c nc); [exact Hnc|]. split; [reflexivity|]. split; [reflexivity|].
      intros x Hx. cbn [set_content n_content] in Hx. apply in_app_or in Hx as [Hx|[Hx|[]]]; [exact Hx|discriminate]. }
    split; [exact (Fr_bounded wk w2 F2 Bk)|]. split; [exact (Fr_RE wk w2 F2 Rk)|].
    split; [apply ext'_wset; [exact Ek|lia]|]. split; [cbn [w2 wset w_next]; exact Hc|].
    eexists. split; [apply nodes_wset_eq|]. cbn [set_content n_name n_type]. auto.
Qed.

Theorem deep_copy_dce : forall fuel, DCE (deep_copy T fuel).
Proof.
  induction fuel as [|f IHf]; intros src ver w r w' H B HR; [discriminate|].
  rewrite deep_copy_S in H.
  wstepn H nn En. apply get_node_inv in En as (n & Hn & En & _). assert (nn = n) by congruence. subst nn. clear En.
  wstepn H c Ea. apply alloc_walloc in Ea as ([= ->] & ->).
  set (nd := mkNode _ _ _ _ _ _ _) in *. set (w1 := walloc w nd) in *.
  assert (Hnd : nodeE nd) by (exact (proj1 HR _ _ Hn)).
  pose proof (bounded_alloc w nd B eq_refl) as B1. pose proof (RE_alloc w nd B HR eq_refl Hnd) as R1.
  pose proof (ext'_walloc w nd B) as E1. fold w1 in B1, R1, E1.
  assert (PE : forall e, Bounded w1 /\ RE w1 /\ ext' w w1 /\ match @ER id e with OK _ => False | ER _ => True end) by (intros; auto).
  wstepn H attrs Ec. 2:{ destruct (PE e) as (X1 & X2 & X3 & _). auto. }
  wstepn H u Em. apply modify_node_wset in Em as (nd' & Hnd' & _ & ->).
  assert (Hnd1 : w_nodes w1 (w_next w) = Some nd) by (unfold w1; apply nodes_walloc_new). rewrite Hnd1 in Hnd'. injection Hnd' as <-.
  set (w2 := wset w1 (w_next w) (set_attrs nd attrs)) in *.
  assert (F2 : Fr w1 w2) by (apply (Fr_wset_self w1 (w_next w) nd); [exact Hnd1|repeat split; auto]).
  assert (I2 : IIE w (w_next w) (n_name n) (n_type n) w2).
  { split; [exact (Fr_bounded w1 w2 F2 B1)|]. split; [exact (Fr_RE w1 w2 F2 R1)|].
    split; [apply ext'_wset; [exact E1|lia]|]. split; [unfold w2, w1; cbn [wset walloc w_next]; lia|].
    eexists. split; [unfold w2; apply nodes_wset_eq|]. cbn [set_attrs nd n_name n_type]. auto. }
  wstepn H u2 Ei.
  - winv H. destruct (items_spec_E _ IHf w src n (w_next w) ver B HR Hn _ _ _ _ (fun s Hs => Hs) I2 Ei) as (B3 & R3 & E3 & Hc3 & nc & Hnc & Nnc & Tnc).
    split; [exact B3|]. split; [exact R3|]. split; [exact E3|]. exists n, nc. auto.
  - destruct (items_spec_E _ IHf w src n (w_next w) ver B HR Hn _ _ _ _ (fun s Hs => Hs) I2 Ei) as (B3 & R3 & E3 & _). auto.
Qed.

(* ---- attaching: the name was looked up in the destination's type before the insertion ---- *)
Lemma FrI_RE self c w0 w' :
  Bounded w0 -> RE w0 -> c < w_next w0 ->
  (forall n0 c0, w_nodes w0 self = Some n0 -> w_nodes w0 c = Some c0 -> okname (n_type n0) (n_name c0)) ->
  FrI self c w0 w' -> Bounded w' /\ RE w'.
Proof.
  intros B0 R0 Hc Hok [F|(w4 & n4 & pos & F & Hn4 & ->)].
  - split; [exact (Fr_bounded _ _ F B0)|exact (Fr_RE _ _ F R0)].
  - pose proof (Fr_bounded _ _ F B0) as B4. pose proof (Fr_RE _ _ F R0) as R4.
    destruct (proj2 F _ _ Hn4) as (n0 & Hn0 & (_ & Tn & _)).
    split.
    + apply (bounded_add_edge w4 self n4 c); [exact B4|exact Hn4|destruct F as (Nx & _); lia|].
      intros x Hx. exact (in_insert_elem _ _ _ _ Hx).
    + apply (RE_add_edge w4 self n4 c); [exact R4|exact Hn4| |].
      * intros nc Hnc. destruct (proj2 F _ _ Hnc) as (c0 & Hc0 & (Nc & _ & _)). rewrite Tn, Nc. exact (Hok _ _ Hn0 Hc0).
      * intros x Hx. exact (in_insert_elem _ _ _ _ Hx).
Qed.

(* calc_element_insert_range returns a range only when the name is listed *)
Lemma calc_range_okname n name version w s e w' :
  calc_element_insert_range T n name version w = Val (OK (s, e), w') -> okname (n_type n) name.
Proof.
  unfold calc_element_insert_range. intros H.
  wstep H; winv E.
  destruct (v =? MCharacters); [winv H|].
  wstep H; winv E.
  destruct v0 as [[et ix]|]; [|winv H].
  exists version, et, ix. exact Hv0.
Qed.

Lemma attach_RE {A} (m : W A) h mv w r w' :
  (forall w0, FI h mv w0 m) -> m w = Val (r, w') -> (exists mn, w_nodes w mv = Some mn) ->
  Bounded w -> RE w ->
  (forall n cn, w_nodes w h = Some n -> w_nodes w mv = Some cn -> okname (n_type n) (n_name cn)) ->
  Bounded w' /\ RE w'.
Proof.
  intros HF H (mn & Emv) B HR Hok.
  apply (FrI_RE h mv w w' B HR); [destruct B as (B1 & _); exact (B1 _ _ Emv)|exact Hok|].
  exact (HF w w r w' (Fr_refl w) H).
Qed.

Theorem move_RE h mv w r w' :
  e_move_element_here T tab_en check_fn LATEST h mv w = Val (r, w') -> Bounded w -> RE w -> Bounded w' /\ RE w'.
Proof.
  intros H B HR. unfold e_move_element_here in H.
  destruct (h =? mv); [apply wfail_inv in H as (_ & ->); auto|].
  wstepn H m_src E1; [|auto]. wstepn H m E2; [|auto]. wstepn H v_src E3; [|auto]. wstepn H v E4; [|auto].
  destruct (negb (v =? v_src)); [apply wfail_inv in H as (_ & ->); auto|].
  wstepn H n E5; winv E5. wstepn H mn E6; winv E6.
  wstepn H se E7; [|auto]. destruct se as [s e].
  pose proof (calc_range_okname _ _ _ _ _ _ _ E7) as ON.
  assert (Hok : forall n1 cn, w_nodes w h = Some n1 -> w_nodes w mv = Some cn -> okname (n_type n1) (n_name cn)).
  { intros n1 cn H1 H2. rewrite Hn in H1. rewrite Hn0 in H2. injection H1 as <-. injection H2 as <-. exact ON. }
  destruct (m =? m_src).
  - wstepn H sp E8; [|auto]. destruct sp as [p|]; [|apply wfail_inv in H as (_ & ->); auto].
    destruct (p =? h); [apply wret_inv in H as (_ & ->); auto|].
    exact (attach_RE _ h mv w r w' (fun w0 => FI_move_local T check_fn w0 h mv e m v) H (ex_intro _ _ Hn0) B HR Hok).
  - exact (attach_RE _ h mv w r w' (fun w0 => FI_move_full T tab_en check_fn w0 h mv e m m_src v) H (ex_intro _ _ Hn0) B HR Hok).
Qed.

Theorem move_at_RE h mv pos w r w' :
  e_move_element_here_at T tab_en check_fn LATEST h mv pos w = Val (r, w') -> Bounded w -> RE w -> Bounded w' /\ RE w'.
Proof.
  intros H B HR. unfold e_move_element_here_at in H.
  destruct (h =? mv); [apply wfail_inv in H as (_ & ->); auto|].
  wstepn H m_src E1; [|auto]. wstepn H m E2; [|auto]. wstepn H v_src E3; [|auto]. wstepn H v E4; [|auto].
  destruct (negb (v =? v_src)); [apply wfail_inv in H as (_ & ->); auto|].
  wstepn H n E5; winv E5. wstepn H mn E6; winv E6.
  wstepn H se E7; [|auto]. destruct se as [s e].
  pose proof (calc_range_okname _ _ _ _ _ _ _ E7) as ON.
  assert (Hok : forall n1 cn, w_nodes w h = Some n1 -> w_nodes w mv = Some cn -> okname (n_type n1) (n_name cn)).
  { intros n1 cn H1 H2. rewrite Hn in H1. rewrite Hn0 in H2. injection H1 as <-. injection H2 as <-. exact ON. }
  destruct ((s <=? pos) && (pos <=? e)); [|apply wfail_inv in H as (_ & ->); auto].
  destruct (m =? m_src).
  - wstepn H sp E8; [|auto]. destruct sp as [p|]; [|apply wfail_inv in H as (_ & ->); auto].
    destruct (p =? h).
    + exact (JE_frp _ (fun w0 => frp_move_position w0 h mv pos e) _ _ _ H B HR).
    + exact (attach_RE _ h mv w r w' (fun w0 => FI_move_local T check_fn w0 h mv pos m v) H (ex_intro _ _ Hn0) B HR Hok).
  - exact (attach_RE _ h mv w r w' (fun w0 => FI_move_full T tab_en check_fn w0 h mv pos m m_src v) H (ex_intro _ _ Hn0) B HR Hok).
Qed.

Lemma copied_inner_RE self other pos m version w r w' n o :
  w_nodes w self = Some n -> w_nodes w other = Some o -> okname (n_type n) (n_name o) ->
  create_copied_sub_element_inner T self other pos m version w = Val (r, w') ->
  Bounded w -> RE w -> Bounded w' /\ RE w'.
Proof.
  intros Hn0 Ho0 ON H B HR. unfold create_copied_sub_element_inner in H.
  wstepn H nn En. apply get_node_inv in En as (n' & Hn & En & _). assert (nn = n') by congruence. subst nn. clear En.
  rewrite Hn0 in Hn. injection Hn as <-.
  wstepn H wc Ew. assert (wc = w) by (apply wget_inv in Ew as (Ew & _); congruence). subst wc. clear Ew.
  wstepn H anc Ea; [|auto].
  destruct anc; [apply wfail_inv in H as (_ & ->); auto|].
  wstepn H c Ed.
  2:{ destruct (deep_copy_dce _ _ _ _ _ _ Ed B HR) as (B1 & R1 & _). auto. }
  destruct (deep_copy_dce _ _ _ _ _ _ Ed B HR) as (B1 & R1 & E1 & (o' & nc & Ho & Hnc & Nnc & Tnc & Hc)).
  rewrite Ho0 in Ho. injection Ho as <-.
  match type of Ed with _ = Val (_, ?wx) => set (w1 := wx) in * end.
  assert (HF : FI self c w1
      (do cn0 <- get_node c;
       do nv <- wl (is_named_in_version T (n_type cn0) version);
       do id0 <- is_identifiable T cn0;
       if nv && negb id0 then wfail ItemNameRequired else
       do path <- path_unchecked T n;
       modify_node c (fun x => set_parent x (PElem self));;
       do cn <- get_node c;
       do ident <- is_identifiable T cn;
       (if ident then do _ <- make_unique_item_name T c m path; wret tt else wret tt);;
       do w2 <- wget;
       register_subtree T (fuel_of w2) m path c;;
       content_insert self pos (CElem c);;
       wret c)%W).
  { pose proof (frp_register_subtree T w1) as HR'. fi_tac. }
  apply (FrI_RE self c w1 w' B1 R1); [lia| |exact (HF w1 r w' (Fr_refl w1) H)].
  intros n1 c0 Hn1 Hc0. rewrite Hnc in Hc0. injection Hc0 as <-.
  assert (Hself : self < w_next w) by (destruct B as (X1 & _); exact (X1 _ _ Hn0)).
  rewrite (proj2 E1) in Hn1 by exact Hself. rewrite Hn0 in Hn1. injection Hn1 as <-.
  rewrite Nnc. exact ON.
Qed.

Theorem copy_RE h other w r w' :
  e_create_copied_sub_element T LATEST h other w = Val (r, w') -> Bounded w -> RE w -> Bounded w' /\ RE w'.
Proof.
  intros H B HR. unfold e_create_copied_sub_element in H.
  destruct (h =? other); [apply wfail_inv in H as (_ & ->); auto|].
  wstepn H m Em; [|auto]. wstepn H v Ev; [|auto]. unfold raw_create_copied_sub_element in H.
  wstepn H n En; winv En. wstepn H o Eo; winv Eo. wstepn H se Ec; [|auto]. destruct se as [s e].
  pose proof (calc_range_okname _ _ _ _ _ _ _ Ec) as ON.
  exact (copied_inner_RE _ _ _ _ _ _ _ _ _ _ Hn Hn0 ON H B HR).
Qed.

Theorem copy_at_RE h other pos w r w' :
  e_create_copied_sub_element_at T LATEST h other pos w = Val (r, w') -> Bounded w -> RE w -> Bounded w' /\ RE w'.
Proof.
  intros H B HR. unfold e_create_copied_sub_element_at in H.
  destruct (h =? other); [apply wfail_inv in H as (_ & ->); auto|].
  wstepn H m Em; [|auto]. wstepn H v Ev; [|auto]. unfold raw_create_copied_sub_element_at in H.
  wstepn H n En; winv En. wstepn H o Eo; winv Eo. wstepn H se Ec; [|auto]. destruct se as [s e].
  pose proof (calc_range_okname _ _ _ _ _ _ _ Ec) as ON.
  destruct ((s <=? pos) && (pos <=? e)); [|apply wfail_inv in H as (_ & ->); auto].
  exact (copied_inner_RE _ _ _ _ _ _ _ _ _ _ Hn Hn0 ON H B HR).
Qed.

(* ---- all 26 operations ---- *)
Notation run := (Inv.run T tab_el tab_en check_fn LATEST root_attrs).

Theorem RE_op o w r w' : Core w -> RE w -> run o w = Val (r, w') -> RE w'.
Proof.
  intros C HR H. pose proof (core_bounded w C) as B.
  unfold Inv.run in H. destruct o; cbn [run_op welem wunit] in H; apply wmap_inv in H as (r0 & H & _).
  - exact (proj2 (JE_e_create_sub h name _ _ _ H B HR)).
  - exact (proj2 (JE_e_create_sub_at h name pos _ _ _ H B HR)).
  - exact (proj2 (JE_e_create_named h name item _ _ _ H B HR)).
  - exact (proj2 (JE_e_create_named_at h name item pos _ _ _ H B HR)).
  - exact (proj2 (copy_RE h other _ _ _ H B HR)).
  - exact (proj2 (copy_at_RE h other pos _ _ _ H B HR)).
  - exact (proj2 (move_RE h mv _ _ _ H B HR)).
  - exact (proj2 (move_at_RE h mv pos _ _ _ H B HR)).
  - exact (proj2 (JE_frp _ (fun w0 => frp_e_remove T w0 h sub) _ _ _ H B HR)).
  - exact (proj2 (JE_frp _ (fun w0 => frp_e_remove_kind T w0 h name) _ _ _ H B HR)).
  - exact (proj2 (JE_frp _ (fun w0 => frp_set_item_name T check_fn LATEST w0 h name) _ _ _ H B HR)).
  - exact (proj2 (JE_frp _ (fun w0 => frp_set_cdata T tab_en check_fn LATEST w0 h v) _ _ _ H B HR)).
  - exact (proj2 (JE_frp _ (fun w0 => frp_remove_cdata T w0 h) _ _ _ H B HR)).
  - exact (proj2 (JE_frp _ (fun w0 => frp_insert_citem T w0 h text pos) _ _ _ H B HR)).
  - exact (proj2 (JE_frp _ (fun w0 => frp_remove_citem T w0 h pos) _ _ _ H B HR)).
  - exact (proj2 (JE_frp _ (fun w0 => frp_set_ref_target T tab_el tab_en check_fn LATEST w0 h target) _ _ _ H B HR)).
  - exact (proj2 (JE_frp _ (fun w0 => frp_set_attribute T check_fn LATEST w0 h attr v) _ _ _ H B HR)).
  - exact (proj2 (JE_frp _ (fun w0 => frp_remove_attribute T w0 h attr) _ _ _ H B HR)).
  - exact (proj2 (JE_frp _ (fun w0 => frp_set_comment w0 h c) _ _ _ H B HR)).
  - exact (proj2 (JE_e_get_or_create h name _ _ _ H B HR)).
  - exact (proj2 (JE_e_get_or_create_named h name item _ _ _ H B HR)).
  - exact (proj2 (JE_new_model _ _ _ H B HR)).
  - exact (proj2 (JE_frp _ (fun w0 => frp_create_file T w0 m name version) _ _ _ H B HR)).
  - exact (proj2 (JE_frp _ (fun w0 => frp_remove_file T w0 m f) _ _ _ H B HR)).
  - exact (proj2 (JE_frp _ (fun w0 => frp_add_to_file T w0 h f) _ _ _ H B HR)).
  - exact (proj2 (JE_frp _ (fun w0 => frp_remove_from_file T w0 h f) _ _ _ H B HR)).
Qed.

End E.
