(* Tree/FilesProofsLoad3.v — C10 proofs, load: FilesOwned is kept by every SUCCESSFUL load_parsed, whatever the merge
   did: the file table only grows by the new file, which names the model it is loaded into, and of the model records
   only the file list of that model changes, by the new file's id.
   mfp c : the computation keeps the file table and, position by position, the file lists of the models. *)
From Coq Require Import PeanoNat Arith Lia.
From AV Require Import Base.Bytes Base.Outcome Hash.HashModel Tree.Heap Tree.Ops Tree.Script Tree.Inv Tree.InvProofsBase
  Tree.Load Tree.LoadProofsBase Tree.LoadProofs Tree.LoadEffects
  Tree.Files Tree.FilesProofsBase Tree.FilesProofsAdd Tree.FilesProofsOwned.
From AV Require Xml.Parser.
Open Scope string_scope.
Open Scope list_scope.
Open Scope N_scope.

Definition MF (w w' : world) : Prop :=
  w_files w' = w_files w /\ map m_files (w_models w') = map m_files (w_models w).
Definition mfp {A} (c : W A) : Prop := forall w r w', c w = Val (r, w') -> MF w w'.

Lemma MF_refl w : MF w w. Proof. split; reflexivity. Qed.
Lemma MF_trans a b c : MF a b -> MF b c -> MF a c.
Proof. intros (A1 & A2) (B1 & B2). split; congruence. Qed.

Lemma mfp_ro {A} (c : W A) : ro c -> mfp c.
Proof. intros R w r w' H. apply R in H. subst. apply MF_refl. Qed.
Lemma mfp_bind {A B} (c : W A) (k : A -> W B) : mfp c -> (forall a, mfp (k a)) -> mfp (wbind c k).
Proof.
  intros Hc Hk w r w' H. apply wbind_inv in H as [(a & w1 & H1 & H2) | (e & H1 & _)].
  - eapply MF_trans; [eapply Hc|eapply Hk]; eauto.
  - eapply Hc; eauto.
Qed.
Lemma mfp_catch {A} (c : W A) : mfp c -> mfp (wcatch c).
Proof. intros Hc w r w' H. apply wcatch_inv in H as (r0 & H & _). eapply Hc; eauto. Qed.
Lemma mfp_try {A} (c : W A) : mfp c -> mfp (wtry c).
Proof. intros Hc w r w' H. apply wtry_inv in H as (r0 & H & _). eapply Hc; eauto. Qed.
Lemma mfp_km {A} (c : W A) : km c -> mfp c.
Proof. intros K w r w' H. destruct (K _ _ _ H) as (M & F). split; congruence. Qed.
Lemma mfp_modify_node i g : mfp (modify_node i g).
Proof. apply mfp_km, km_modify_node. Qed.

Lemma map_files_list_set (l : list model) k y : (forall x, nth_opt l k = Some x -> m_files y = m_files x) ->
  map m_files (list_set l k y) = map m_files l.
Proof.
  revert k. induction l as [|a l IH]; intros [|k] H; cbn in *; auto.
  - rewrite (H a eq_refl). reflexivity.
  - rewrite IH; auto.
Qed.

Lemma mfp_modify_model m g : (forall x, m_files (g x) = m_files x) -> mfp (modify_model m g).
Proof.
  intros Hg w r w' H. apply modify_model_inv in H as (x & Hx & _ & ->). split; [reflexivity|]. cbn.
  apply map_files_list_set. intros x0 Hx0. assert (x0 = x) by congruence. subst. apply Hg.
Qed.

Lemma mfp_above b w w' : above b w w' -> MF w w'.
Proof. intros (_ & _ & F & M). split; congruence. Qed.

Lemma mfp_eff nf w w' : WorldEff nf w w' -> MF w w'.
Proof. intros (_ & F & M & _). split; congruence. Qed.

Section Load3.
Variable T : tables.
Variables LATEST defref : N.

Lemma mfp_fill_identifiables m t : forall l, mfp (fill_identifiables m t l).
Proof.
  induction l as [|[key pos] r IH]; cbn [fill_identifiables]; [apply mfp_ro, ro_ret|].
  destruct (it_at t pos); [|intros w r0 w' H; discriminate].
  apply mfp_bind; [apply mfp_ro, ro_wget|intros w0]. apply mfp_bind; [apply mfp_ro, ro_get_model|intros x].
  destruct (ident_live w0 x key); [exact IH|]. apply mfp_bind; [|intros _; exact IH].
  unfold add_identifiable. apply mfp_modify_model. reflexivity.
Qed.

Lemma mfp_fill_references m t : forall l, mfp (fill_references m t l).
Proof.
  induction l as [|[key pos] r IH]; cbn [fill_references]; [apply mfp_ro, ro_ret|].
  destruct (it_at t pos); [|intros w r0 w' H; discriminate].
  apply mfp_bind; [|intros _; exact IH]. unfold add_reference_origin. apply mfp_modify_model. reflexivity.
Qed.

Lemma mfp_merge_file_data m nr nf : mfp (merge_file_data T LATEST defref m nr nf).
Proof.
  unfold merge_file_data.
  apply mfp_bind; [apply mfp_ro, ro_get_model|intros x]. apply mfp_bind; [apply mfp_ro, ro_wget|intros w0].
  apply mfp_bind; [|intros _; apply mfp_bind; [apply mfp_ro, ro_get_model|intros x2; apply mfp_modify_node]].
  intros w r w' H. eapply mfp_eff. eapply (merge_effects T LATEST defref); eauto.
Qed.

Lemma mfp_kill from keep : mfp (kill_unreachable from keep).
Proof. intros w r w' H. unfold kill_unreachable in H. injection H as _ <-. split; reflexivity. Qed.

Lemma map_list_set {A B} (f : A -> B) (l : list A) k y : map f (list_set l k y) = list_set (map f l) k (f y).
Proof. revert k. induction l as [|a l IH]; intros [|k]; cbn; auto. rewrite IH. reflexivity. Qed.

(* a successful load_parsed: the file table grows by the record of the new file, the model gets its id *)
Theorem load_parsed_files m filename root st w fid w' :
  load_parsed T LATEST defref m filename root st w = Val (OK fid, w') ->
  fid = N.of_nat (List.length (w_files w)) /\
  w_files w' = w_files w ++ [mkFile m filename (Parser.p_version st) (Parser.p_standalone st)] /\
  exists x, nth_opt (w_models w) (N.to_nat m) = Some x /\
    map m_files (w_models w') = list_set (map m_files (w_models w)) (N.to_nat m) (m_files x ++ [fid]).
Proof.
  intros H. unfold load_parsed in H.
  apply wbind_inv in H as [(w0 & w1 & H0 & H) | (e & H0 & [=])]. apply wget_inv in H0 as ([= ->] & ->).
  apply wbind_inv in H as [(t & w1 & Hi & H) | (e & Hi & [=])].
  destruct (above_install (w_next w) _ _ _ _ _ (N.le_refl _) Hi) as (_ & _ & F1 & M1).
  apply wbind_inv in H as [(w1' & w2 & H0 & H) | (e & H0 & [=])]. apply wget_inv in H0 as ([= ->] & ->).
  apply wbind_inv in H as [(x0 & w2 & H0 & H) | (e & H0 & [=])]. apply get_model_inv in H0 as (x0' & Hx0 & [= <-] & ->).
  apply wbind_inv in H as [(ov & w2 & H0 & H) | (e & H0 & [=])]. apply wl_inv in H0 as (ov' & _ & [= <-] & ->).
  destruct ov.
  { apply wbind_inv in H as [(u & w2 & H0 & H) | (e & H0 & [=])]. apply wfail_inv in H as ([=] & _). }
  apply wbind_inv in H as [(u & w2 & H0 & H) | (e & H0 & [=])]. unfold wput in H0. injection H0 as _ <-.
  set (fl := mkFile m filename (Parser.p_version st) (Parser.p_standalone st)) in *.
  match type of H with wbind (get_model m) _ ?W = _ => set (w2 := W) in * end.
  apply wbind_inv in H as [(x & w3 & H0 & H) | (e & H0 & [=])]. apply get_model_inv in H0 as (x' & Hx & [= <-] & ->).
  assert (x = x0) as -> by (unfold w2 in Hx; cbn in Hx; congruence).
  apply wbind_inv in H as [(r & w3 & Hc & H) | (e & Hc & [=])].
  apply wcatch_inv in Hc as (r0 & Hc & [= ->]).
  apply wbind_inv in H as [(x3 & w4 & H0 & H) | (e & H0 & [=])]. apply get_model_inv in H0 as (x3' & Hx3 & [= <-] & ->).
  apply wbind_inv in H as [(w3' & w4 & H0 & H) | (e & H0 & [=])]. apply wget_inv in H0 as ([= ->] & ->).
  apply wbind_inv in H as [(keep & w4 & H0 & H) | (e & H0 & [=])].
  assert (w4 = w3) as -> by (apply (ro_dfs_ids _ _ _ _ _ H0)).
  apply wbind_inv in H as [(u2 & w4 & Hk & H) | (e & Hk & [=])].
  pose proof (mfp_kill _ _ _ _ _ Hk) as (F4 & M4).
  destruct r0 as [u3|e].
  2:{ apply wbind_inv in H as [(u4 & w5 & H9 & H) | (e' & H9 & [=])]. apply wfail_inv in H as ([=] & _). }
  apply wret_inv in H as (Efid & ->). injection Efid as Efid. subst fid.
  (* the stage, the fills, the file list *)
  apply wbind_inv in Hc as [(us & wa & Hs & Hc) | (e & Hs & [=])].
  apply wbind_inv in Hc as [(ui & wb & Hfi & Hc) | (e & Hfi & [=])].
  apply wbind_inv in Hc as [(ur & wc & Hfr & Hc) | (e & Hfr & [=])].
  assert (MF w2 wa) as (Fa & Ma).
  { destruct (is_empty (m_files x0)).
    - revert Hs. apply (mfp_bind _ _ (mfp_modify_node _ _)). intros _. apply (mfp_bind _ _ (mfp_modify_node _ _)). intros _.
      apply mfp_modify_model. reflexivity.
    - apply wbind_inv in Hs as [(mr & w5 & Hm & Hs) | (e & Hm & [=])]. apply wcatch_inv in Hm as (mr0 & Hm & [= ->]).
      destruct mr0 as [um|e].
      + apply wret_inv in Hs as (_ & ->). eapply mfp_merge_file_data; eauto.
      + exfalso. apply wbind_inv in Hs as [(x1 & w6 & H8 & Hs) | (e' & H8 & [=])].
        apply wbind_inv in Hs as [(o1 & w7 & H1 & Hs) | (e' & H1 & [=])]. apply wfail_inv in Hs as ([=] & _). }
  destruct (mfp_fill_identifiables _ _ _ _ _ _ Hfi) as (Fb & Mb).
  destruct (mfp_fill_references _ _ _ _ _ _ Hfr) as (Fc & Mc).
  apply modify_model_inv in Hc as (y & Hy & _ & ->).
  split; [reflexivity|]. split.
  - rewrite F4. cbn. rewrite Fc, Fb, Fa. unfold w2. cbn. rewrite F1. reflexivity.
  - exists x0. split; [rewrite <- M1; exact Hx0|].
    rewrite M4. cbn [w_models wmodels]. rewrite map_list_set. cbn [m_files set_mfiles].
    assert (map m_files (w_models wc) = map m_files (w_models w)) as Mall.
    { rewrite Mc, Mb, Ma. unfold w2. cbn. rewrite M1. reflexivity. }
    rewrite Mall. f_equal. f_equal.
    rewrite nth_opt_error in Hy, Hx0.
    assert (nth_error (map m_files (w_models wc)) (N.to_nat m) = Some (m_files y)) as E1 by (rewrite nth_error_map, Hy; reflexivity).
    rewrite Mall, <- M1, nth_error_map, Hx0 in E1. cbn in E1. congruence.
Qed.

Theorem load_parsed_owned m filename root st w fid w' : FilesOwned w ->
  load_parsed T LATEST defref m filename root st w = Val (OK fid, w') -> FilesOwned w'.
Proof.
  intros O H. destruct (load_parsed_files m filename root st w fid w' H) as (-> & Fw & x & Hx & Mw).
  assert (forall g fl, nth_opt (w_files w) (N.to_nat g) = Some fl -> nth_opt (w_files w') (N.to_nat g) = Some fl) as Old.
  { intros g fl Hg. rewrite Fw. rewrite nth_opt_error in *. rewrite nth_error_app1; auto. apply nth_error_Some. congruence. }
  intros m' x' f' Hx' Hf'. unfold model_b in Hx'. rewrite nth_opt_error in Hx'.
  assert (nth_error (map m_files (w_models w')) (N.to_nat m') = Some (m_files x')) as E by (rewrite nth_error_map, Hx'; reflexivity).
  rewrite Mw, nth_error_list_set in E.
  destruct (nth_error (map m_files (w_models w)) (N.to_nat m')) as [fs|] eqn:Eo.
  2:{ destruct (Nat.eqb (N.to_nat m') (N.to_nat m)); discriminate. }
  rewrite nth_error_map in Eo. destruct (nth_error (w_models w) (N.to_nat m')) as [xo|] eqn:Exo; [|discriminate]. injection Eo as <-.
  destruct (Nat.eqb (N.to_nat m') (N.to_nat m)) eqn:Em.
  - apply Nat.eqb_eq in Em. apply Nnat.N2Nat.inj in Em. subst m'. injection E as E. rewrite <- E in Hf'.
    apply in_app_iff in Hf' as [Hf'|[<-|[]]].
    + destruct (O m x f') as (fl & Hfl & Hm); auto. exists fl. split; auto.
    + exists (mkFile m filename (Parser.p_version st) (Parser.p_standalone st)). split; [|reflexivity]. rewrite Fw, nth_opt_error, Nnat.Nat2N.id, nth_error_app2 by lia. rewrite Nat.sub_diag. reflexivity.
  - injection E as E. rewrite <- E in Hf'. destruct (O m' xo f') as (fl & Hfl & Hm); auto.
    { unfold model_b. rewrite nth_opt_error. exact Exo. }
    exists fl. split; auto.
Qed.

End Load3.
