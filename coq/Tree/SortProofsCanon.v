(* Tree/SortProofsCanon.v — C14 at heap level: the canonicalisation clause.
   Regions w reg     : the shape facts of a tree (reg a = the set of nodes below a, closed under sub-elements; the regions of
                       two different children of one node are disjoint and do not contain the node; no child twice) -
                       derived from C03's Core in Tree/SortProofsCore.v
   sorted_f          : every reorderable content list below i is sorted by (position, Element::cmp) AS EVALUATED IN THIS WORLD
   sort_sorted       : (children first) the world ElementRaw::sort returns is sorted in that sense - because every child is
                       sorted before the siblings are compared, the keys the comparison reads are the final ones
   sorted_fix        : sorting a sorted world changes nothing;  sort_idempotent : sort (sort w) = sort w (as worlds, pointwise)
   sort_canonical    : two worlds that differ only by the order of the children of reorderable nodes sort to worlds whose
                       trees are twins (same names, types, attributes, values at every position; ids of cmp-Equal siblings
                       may be swapped, comments are not compared) *)
From Coq Require Import Permutation Lia.
From AV Require Import Base.Bytes Base.Outcome Base.Radix Hash.HashModel Tree.Heap Tree.Ops Tree.Sort
  Tree.SortProofsOrder Tree.SortProofsCmp Tree.SortProofsHeap Tree.SortProofsMain Tree.SortProofsLocal.
Open Scope list_scope.
Open Scope N_scope.

Definition ball : id -> bool := fun _ => true.
Definition weq (w w' : world) : Prop := agree ball w w'.

Record Regions (w : world) (reg : id -> id -> bool) : Prop := {
  rg_self : forall a, reg a a = true;
  rg_closed : forall a, closed (reg a) w;
  rg_disj : forall i n c c' j, w_nodes w i = Some n -> In (CElem c) (n_content n) -> In (CElem c') (n_content n) ->
            c <> c' -> reg c j = true -> reg c' j = false;
  rg_up : forall i n c, w_nodes w i = Some n -> In (CElem c) (n_content n) -> reg c i = false;
  rg_nodup : forall i n, w_nodes w i = Some n -> NoDup (celems (n_content n))
}.

Lemma closed_ball w reg : Regions w reg -> closed ball w.
Proof.
  intros R j n c _ Wj ic. split; auto. apply (rg_closed _ _ R j j n c (rg_self _ _ R j) Wj ic).
Qed.

Section Canon.
Variable T : tables.
Variable tab_el tab_at tab_en : nametab.
Variable name_index name_definition_ref : N.
Variable srt : forall A, (A -> A -> comparison) -> list A -> list A.
Hypothesis SS : StableSort srt.

Notation sort_f' := (sort_f T tab_el tab_at tab_en name_index name_definition_ref srt).
Notation cmp_p' := (cmp_p T tab_el tab_at tab_en name_index name_definition_ref policy_cur).
Notation cmp_f' := (cmp_f T tab_el tab_at tab_en name_index name_definition_ref policy_cur).
Notation cmp_tot := (cmp_total T tab_el tab_at tab_en name_index name_definition_ref).
Notation all_pairs' := (all_pairs_val T tab_el tab_at tab_en name_index name_definition_ref).
Notation FR := (sort_frame T tab_el tab_at tab_en name_index name_definition_ref srt (srt_perm srt SS)).
Notation world_rel' := (world_rel T).

Lemma node_rel_elem_iff n n' c : node_rel T n n' -> (In (CElem c) (n_content n') <-> In (CElem c) (n_content n)).
Proof.
  intros h. split; [apply (node_rel_in_elem T n n' c h) |].
  destruct h as [_ [e | [_ p]]]; [congruence |].
  intros i. eapply Permutation_in; [exact p |]. apply in_map. apply in_celems. exact i.
Qed.

Lemma node_rel_celems n n' : node_rel T n n' -> Permutation (celems (n_content n)) (celems (n_content n')).
Proof.
  intros [_ [e | [_ p]]]; [rewrite e; auto |].
  apply celems_perm in p. rewrite celems_map in p. exact p.
Qed.

Lemma Regions_rel w w' reg : world_rel' w w' -> Regions w reg -> Regions w' reg.
Proof.
  intros Rw R. pose proof Rw as (_ & _ & _ & nodes).
  assert (back : forall i n', w_nodes w' i = Some n' -> exists n, w_nodes w i = Some n /\ node_rel T n n').
  { intros i n' Wi. pose proof (nodes i) as h. rewrite Wi in h. destruct (w_nodes w i) as [n |]; [eauto | destruct h]. }
  split.
  - apply (rg_self _ _ R).
  - intros a. eapply closed_rel; [exact Rw | apply (rg_closed _ _ R)].
  - intros i n' c c' j Wi ic ic' ne. destruct (back i n' Wi) as (n & W0 & h).
    apply (rg_disj _ _ R i n c c' j W0); auto; apply (node_rel_elem_iff n n' _ h); auto.
  - intros i n' c Wi ic. destruct (back i n' Wi) as (n & W0 & h).
    apply (rg_up _ _ R i n c W0). apply (node_rel_elem_iff n n' _ h); auto.
  - intros i n' Wi. destruct (back i n' Wi) as (n & W0 & h).
    eapply Permutation_NoDup; [apply node_rel_celems; exact h | apply (rg_nodup _ _ R i n W0)].
Qed.

(* ------------------------------------------------------------------ the keys sort_by works on *)
Definition idx_of (w : world) (ty : N * N) (c : id) : list N :=
  match w_nodes w c with
  | Some cn => match find_sub_element T ty (n_name cn) 4294967295 with Val (Some (_, ix)) => ix | _ => [] end
  | None => []
  end.
Definition keyed_of (w : world) (ty : N * N) (cs : list id) : list (list N * id) := map (fun c => (idx_of w ty c, c)) cs.

Lemma idx_of_rel w w' ty c : world_rel' w w' -> idx_of w ty c = idx_of w' ty c.
Proof.
  intros (_ & _ & _ & nodes). unfold idx_of. specialize (nodes c).
  destruct (w_nodes w c) as [n |], (w_nodes w' c) as [n' |]; [| destruct nodes | destruct nodes | reflexivity].
  destruct nodes as [(_ & en & _) _]. rewrite en. reflexivity.
Qed.

Lemma keyed_of_rel w w' ty cs : world_rel' w w' -> keyed_of w ty cs = keyed_of w' ty cs.
Proof. intros R. unfold keyed_of. apply map_ext. intros c. f_equal. apply idx_of_rel; auto. Qed.

Lemma map_snd_keyed_of w ty cs : map snd (keyed_of w ty cs) = cs.
Proof. unfold keyed_of. rewrite map_map. cbn. apply map_id. Qed.

Lemma keyed_loop_keyed rec ty l : frame_ok T rec ->
  forall w keyed w', keyed_loop T rec ty l w = Val (OK keyed, w') -> keyed = keyed_of w' ty (celems l).
Proof.
  intros F. induction l as [| it l IH]; intros w keyed w' H.
  - cbn in H. injection H as <- <-. reflexivity.
  - destruct it as [c | d]; cbn [keyed_loop] in H; [| eapply IH; eauto].
    apply wbind_val in H as [(u & w1 & E1 & H) | (e & E1 & [=])].
    apply wbind_val in H as [(cn & w2 & E2 & H) | (e & E2 & [=])].
    apply get_node_val in E2 as (cn' & Wc & E2 & ->). injection E2 as <-.
    apply wbind_val in H as [(fs & w3 & E3 & H) | (e & E3 & [=])].
    apply wl_val in E3 as (fs' & Hfs & E3 & ->). injection E3 as <-.
    destruct fs as [[et idx] |]; [| discriminate].
    apply wbind_val in H as [(more & w4 & E4 & H) | (e & E4 & [=])].
    cbn in H. injection H as <- <-.
    pose proof (keyed_loop_frame T _ _ _ F _ _ _ E4) as (R4 & _).
    rewrite (IH _ _ _ E4). change (celems (CElem c :: l)) with (c :: celems l). cbn [keyed_of map]. f_equal.
    f_equal. rewrite <- (idx_of_rel w1 w4 ty c R4). unfold idx_of. rewrite Wc, Hfs. reflexivity.
Qed.

(* sorted_by only looks at the comparator on the members *)
Lemma sorted_by_ext {A} (c c' : A -> A -> comparison) l :
  (forall x y, In x l -> In y l -> c x y = c' x y) -> sorted_by c l -> sorted_by c' l.
Proof.
  induction l as [| h t IH]; cbn; auto. intros E [m S]. split.
  - intros y iy. rewrite <- E; auto.
  - apply IH; auto.
Qed.

(* ------------------------------------------------------------------ sorted worlds *)
Fixpoint sorted_f (f : nat) (w : world) (i : id) : Prop :=
  match f with
  | O => False
  | S f' =>
    exists n mode, w_nodes w i = Some n /\ content_mode T (n_type n) = Val mode /\
      (((mode =? MCharacters) || (mode =? MMixed)) = true \/
       (((mode =? MCharacters) || (mode =? MMixed)) = false /\
        exists ordered, is_ordered T (n_type n) = Val ordered /\
          (forall c, In (CElem c) (n_content n) -> sorted_f f' w c) /\
          (negb ordered && (1 <? N.of_nat (List.length (n_content n))) = true ->
             n_content n = map CElem (celems (n_content n)) /\
             sorted_by (key_cmp (cmp_tot w)) (keyed_of w (n_type n) (celems (n_content n))))))
  end.

Lemma sorted_agree D u v : closed D u -> agree D u v -> forall f i, D i = true -> sorted_f f u i -> sorted_f f v i.
Proof.
  intros C A. induction f as [| f IH]; intros i di H; [destruct H |].
  destruct H as (n & mode & Wi & Hm & H). exists n, mode. rewrite (proj2 A i di). repeat split; auto.
  destruct H as [H | (Hc & ordered & Ho & Hk & Hs)]; [left; auto | right]. split; auto.
  exists ordered. repeat split; auto.
  - intros c ic. apply IH; auto. apply (C i n c di Wi ic).
  - apply Hs; auto.
  - destruct (Hs H) as [_ S].
    assert (M : forall c, In c (celems (n_content n)) -> D c = true /\ exists cn, w_nodes u c = Some cn).
    { intros c ic. apply in_celems in ic. apply (C i n c di Wi ic). }
    assert (E : keyed_of v (n_type n) (celems (n_content n)) = keyed_of u (n_type n) (celems (n_content n))).
    { unfold keyed_of. apply map_ext_in. intros c ic. f_equal. unfold idx_of. rewrite (proj2 A c (proj1 (M c ic))). reflexivity. }
    rewrite E. eapply sorted_by_ext; [| exact S].
    intros x y ix iy. unfold key_cmp. f_equal.
    assert (sx : In (snd x) (celems (n_content n))) by (rewrite <- (map_snd_keyed_of u (n_type n)); apply in_map; auto).
    assert (sy : In (snd y) (celems (n_content n))) by (rewrite <- (map_snd_keyed_of u (n_type n)); apply in_map; auto).
    destruct (M _ sx) as [dx ex]. destruct (M _ sy) as [dy ey].
    eapply cmp_tot_agree; eauto.
Qed.

(* ------------------------------------------------------------------ what one pass over the children does *)
Definition regs (reg : id -> id -> bool) (cs : list id) : id -> bool := fun x => existsb (fun c => reg c x) cs.

Lemma regs_false reg cs x : regs reg cs x = false <-> forall c, In c cs -> reg c x = false.
Proof.
  unfold regs. split.
  - intros H c ic. destruct (reg c x) eqn:E; auto.
    assert (existsb (fun c => reg c x) cs = true) by (apply existsb_exists; eauto). congruence.
  - intros H. destruct (existsb (fun c => reg c x) cs) eqn:E; auto.
    apply existsb_exists in E as (c & ic & e). rewrite (H c ic) in e. discriminate.
Qed.

Lemma regs_closed w reg cs : Regions w reg -> closed (regs reg cs) w.
Proof.
  intros R j n c dj Wj ic. unfold regs in dj. apply existsb_exists in dj as (a & ia & ea).
  destruct (rg_closed _ _ R a j n c ea Wj ic) as [dc ex]. split; auto.
  unfold regs. apply existsb_exists. eauto.
Qed.

Definition disjoint_regs (reg : id -> id -> bool) (cs : list id) : Prop :=
  forall c c' x, In c cs -> In c' cs -> c <> c' -> reg c x = true -> reg c' x = false.

Lemma agree_of_outside D w w' : w_next w' = w_next w -> (forall x, D x = true -> w_nodes w' x = w_nodes w x) -> agree D w w'.
Proof. intros e h. split; auto. Qed.

Definition each_ok f reg (cs : list id) (w w' : world) : Prop :=
  (forall c, In c cs -> exists wc, sort_f' f c w = Val (OK tt, wc) /\ agree (reg c) wc w') /\
  (forall x, (forall c, In c cs -> reg c x = false) -> w_nodes w' x = w_nodes w x).

Lemma each_step f reg c cs w w1 w' :
  Regions w reg -> ~ In c cs -> disjoint_regs reg (c :: cs) ->
  sort_f' f c w = Val (OK tt, w1) -> world_rel' w1 w' -> each_ok f reg cs w1 w' -> each_ok f reg (c :: cs) w w'.
Proof.
  intros R nin dis E1 R' [Hc Ho].
  pose proof (FR f _ _ _ _ E1) as [_ R1].
  pose proof (Regions_rel _ _ _ R1 R) as Rg1.
  assert (O1 : forall x, reg c x = false -> w_nodes w1 x = w_nodes w x).
  { intros x dx. eapply (sort_outside T tab_el tab_at tab_en name_index name_definition_ref srt SS (reg c)); eauto.
    - apply (rg_closed _ _ R).
    - apply (rg_self _ _ R). }
  split.
  - intros a [<- | ia].
    + exists w1. split; auto. apply agree_of_outside; [apply R' |].
      intros x dx. apply Ho. intros c' ic'. apply (dis c c' x); auto; [left; auto | right; auto | intros ->; auto].
    + destruct (Hc a ia) as (wa & Ea & Aa).
      assert (A1 : agree (reg a) w1 w).
      { apply agree_of_outside; [symmetry; apply R1 |]. intros x dx. symmetry. apply O1.
        apply (dis a c x); auto; [right; auto | left; auto | intros ->; auto]. }
      destruct (sort_local T tab_el tab_at tab_en name_index name_definition_ref srt SS (reg a) f a w1 w _ wa
                  (rg_closed _ _ Rg1 a) A1 (rg_self _ _ R a) Ea) as (wa' & Ea' & Aa').
      exists wa'. split; auto. eapply agree_trans; [apply agree_sym; exact Aa' | exact Aa].
  - intros x H. rewrite Ho; [| intros c' ic'; apply H; right; auto]. apply O1. apply H. left; auto.
Qed.

Lemma keyed_loop_each f reg ty l : forall w keyed w',
  Regions w reg -> NoDup (celems l) -> disjoint_regs reg (celems l) ->
  keyed_loop T (sort_f' f) ty l w = Val (OK keyed, w') -> each_ok f reg (celems l) w w'.
Proof.
  induction l as [| it l IH]; intros w keyed w' R nd dis H.
  - cbn in H. injection H as _ <-. split; [intros c [] | auto].
  - destruct it as [c | d]; cbn [keyed_loop] in H; [| eapply IH; eauto].
    change (celems (CElem c :: l)) with (c :: celems l) in *.
    apply wbind_val in H as [(u & w1 & E1 & H) | (e & E1 & [=])]. destruct u.
    pose proof (FR f _ _ _ _ E1) as [_ R1].
    apply wbind_val in H as [(cn & w2 & E2 & H) | (e & E2 & [=])].
    apply get_node_val in E2 as (cn' & Wc & E2 & ->). injection E2 as <-.
    apply wbind_val in H as [(fs & w3 & E3 & H) | (e & E3 & [=])].
    apply wl_val in E3 as (fs' & Hfs & E3 & ->). injection E3 as <-.
    destruct fs as [[et idx] |]; [| discriminate].
    apply wbind_val in H as [(more & w4 & E4 & H) | (e & E4 & [=])].
    cbn in H. injection H as _ <-.
    inversion nd as [| ? ? nin nd']; subst.
    eapply each_step; eauto.
    + apply (keyed_loop_frame T _ _ _ (FR f) _ _ _ E4).
    + eapply IH; eauto; [eapply Regions_rel; eauto |].
      intros a a' x ia ia'. apply dis; right; auto.
Qed.

Lemma iter_loop_each f reg l : forall w r w',
  Regions w reg -> NoDup (celems l) -> disjoint_regs reg (celems l) ->
  iter_loop (sort_f' f) l w = Val (r, w') -> each_ok f reg (celems l) w w'.
Proof.
  induction l as [| it l IH]; intros w r w' R nd dis H.
  - cbn in H. injection H as _ <-. split; [intros c [] | auto].
  - destruct it as [c | d]; cbn [iter_loop] in H; [| eapply IH; eauto].
    change (celems (CElem c :: l)) with (c :: celems l) in *.
    apply wbind_val in H as [(u & w1 & E1 & H) | (e & E1 & _)]; [| apply (FR f) in E1 as [E1 _]; discriminate]. destruct u.
    pose proof (FR f _ _ _ _ E1) as [_ R1].
    inversion nd as [| ? ? nin nd']; subst.
    eapply each_step; eauto.
    + apply (iter_loop_frame T _ _ (FR f) _ _ _ H).
    + eapply IH; eauto; [eapply Regions_rel; eauto |].
      intros a a' x ia ia'. apply dis; right; auto.
Qed.

Lemma children_disjoint w reg i n : Regions w reg -> w_nodes w i = Some n -> disjoint_regs reg (celems (n_content n)).
Proof. intros R Wi c c' x ic ic'. apply (rg_disj _ _ R i n c c' x Wi); apply in_celems; auto. Qed.

(* ------------------------------------------------------------------ children first: the result is sorted *)
Lemma sort_sorted f : forall i w r w' reg, Regions w reg -> sort_f' f i w = Val (r, w') -> sorted_f f w' i.
Proof.
  induction f as [| f IH]; intros i w r w' reg R H; [discriminate |].
  pose proof (FR (S f) _ _ _ _ H) as [-> Rw].
  cbn [sort_f] in H.
  apply wbind_val in H as [(n & w1 & E1 & H) | (e & E1 & [=])].
  apply get_node_val in E1 as (n' & Wi & E1 & ->). injection E1 as <-.
  apply wbind_val in H as [(mode & w2 & E2 & H) | (e & E2 & [=])].
  apply wl_val in E2 as (mode' & Hmode & E2 & ->). injection E2 as <-.
  destruct ((mode =? MCharacters) || (mode =? MMixed)) eqn:Em.
  { cbn in H. injection H as <-. exists n, mode. repeat split; auto. }
  apply wbind_val in H as [(ordered & w3 & E3 & H) | (e & E3 & [=])].
  apply wl_val in E3 as (ordered' & Hord & E3 & ->). injection E3 as <-.
  pose proof (rg_nodup _ _ R i n Wi) as nd. pose proof (children_disjoint w reg i n R Wi) as dis.
  (* every child is sorted in the world the loop ends in *)
  assert (KS : forall w4, each_ok f reg (celems (n_content n)) w w4 -> world_rel' w w4 ->
                forall c, In (CElem c) (n_content n) -> sorted_f f w4 c).
  { intros w4 [Hc _] R4 c ic. apply in_celems in ic. destruct (Hc c ic) as (wc & Ec & Ac).
    pose proof (FR f _ _ _ _ Ec) as [_ Rc].
    eapply (sorted_agree (reg c) wc w4); [apply (rg_closed _ _ (Regions_rel _ _ _ Rc R)) | exact Ac | apply (rg_self _ _ R) |].
    eapply IH; eauto. }
  destruct (negb ordered && (1 <? N.of_nat (List.length (n_content n)))) eqn:Eb.
  - apply wbind_val in H as [(keyed & w4 & E4 & H) | (e & E4 & _)];
      [| eapply keyed_loop_frame in E4 as (_ & ? & E4 & _); [discriminate | exact (FR f)]].
    pose proof (keyed_loop_frame T _ _ _ (FR f) _ _ _ E4) as (R4 & keyed' & Ek & Hk). injection Ek as <-.
    pose proof (keyed_loop_keyed _ _ _ (FR f) _ _ _ E4) as Kd.
    pose proof (keyed_loop_each f reg _ _ _ _ _ R nd dis E4) as Each.
    pose proof (Regions_rel _ _ _ R4 R) as Rg4.
    apply wbind_val in H as [(wc & w5 & E5 & H) | (e & E5 & [=])].
    unfold wget in E5. injection E5 as <- <-.
    apply wbind_val in H as [(u6 & w6 & E6 & H) | (e & E6 & _)];
      [| apply wl_val in E6 as (? & _ & E6 & _); discriminate].
    apply wl_val in E6 as (u6' & AP & _ & ->). destruct u6'.
    unfold modify_node in H.
    apply wbind_val in H as [(n1 & w7 & E7 & H) | (e & E7 & [=])].
    apply get_node_val in E7 as (n1' & W1 & E7 & ->). injection E7 as <-.
    unfold set_node in H. injection H as <-.
    set (sorted := srt _ (key_cmp (cmp_tot w4)) keyed) in *.
    set (wF := mkWorld (upd (w_nodes w4) i (set_content n1 (map (fun k => CElem (snd k)) sorted))) (w_next w4) (w_files w4) (w_models w4)) in *.
    (* the children exist in w4, are not i, and their regions do not contain i *)
    assert (CH : forall c, In (CElem c) (n_content n) -> reg c i = false /\ exists cn, w_nodes w4 c = Some cn).
    { intros c ic. split; [apply (rg_up _ _ R i n c Wi ic) |].
      destruct (rg_closed _ _ R i i n c (rg_self _ _ R i) Wi ic) as [_ [cn Wc]].
      destruct R4 as (_ & _ & _ & nodes). pose proof (nodes c) as h. rewrite Wc in h. destruct (w_nodes w4 c); [eauto | destruct h]. }
    assert (AF : forall D, D i = false -> agree D w4 wF).
    { intros D di. split; auto. intros j dj. cbn. unfold upd. destruct (j =? i) eqn:Ej; auto. apply N.eqb_eq in Ej. congruence. }
    pose (n4 := n1). assert (W4 : w_nodes w4 i = Some n4) by exact W1.
    assert (ty4 : n_type n4 = n_type n).
    { destruct R4 as (_ & _ & _ & nodes). pose proof (nodes i) as h. rewrite Wi, W4 in h. apply h. }
    exists (set_content n4 (map (fun k => CElem (snd k)) sorted)), mode. cbn [w_nodes wF]. unfold upd. rewrite N.eqb_refl.
    split; auto. cbn [n_type set_content]. rewrite ty4. split; auto. right. split; auto.
    exists ordered. split; auto. cbn [n_content set_content].
    assert (PS : Permutation keyed sorted) by apply (ss_perm srt SS).
    split.
    + intros c ic. apply in_map_iff in ic as (k & [= <-] & ik).
      assert (ic : In (CElem (snd k)) (n_content n)).
      { apply in_celems. rewrite <- Hk. apply in_map. eapply Permutation_in; [apply Permutation_sym; exact PS | exact ik]. }
      destruct (CH _ ic) as [ui _].
      eapply (sorted_agree (reg (snd k)) w4 wF); [apply (rg_closed _ _ Rg4) | apply AF; auto | apply (rg_self _ _ R) |].
      apply KS; auto.
    + intros _.
      assert (CE : celems (map (fun k : list N * id => CElem (snd k)) sorted) = map snd sorted).
      { rewrite <- (map_map snd CElem). apply celems_map. }
      rewrite CE. split; [rewrite <- (map_map snd CElem); reflexivity |].
      (* the sorted list, with its keys, is what keyed_of gives in the final world *)
      assert (MS : forall k, In k sorted -> In (CElem (snd k)) (n_content n)).
      { intros k ik. apply in_celems. rewrite <- Hk. apply in_map. eapply Permutation_in; [apply Permutation_sym; exact PS | exact ik]. }
      assert (KE : keyed_of wF (n_type n) (map snd sorted) = sorted).
      { unfold keyed_of. rewrite map_map. rewrite <- (map_id sorted) at 2. apply map_ext_in. intros k ik.
        assert (ik0 : In k keyed) by (eapply Permutation_in; [apply Permutation_sym; exact PS | exact ik]).
        rewrite Kd in ik0. unfold keyed_of in ik0. apply in_map_iff in ik0 as (c & <- & ic). cbn [snd]. f_equal.
        unfold idx_of. cbn [w_nodes wF]. unfold upd.
        destruct (c =? i) eqn:Ec; auto. apply N.eqb_eq in Ec. subst c.
        apply in_celems in ic. destruct (CH _ ic) as [ui _]. rewrite (rg_self _ _ R i) in ui. discriminate. }
      rewrite KE.
      assert (TP : TotalPreorderOn (key_cmp (cmp_tot w4)) (fun k => In k keyed)).
      { apply (key_cmp_total_preorder T tab_el tab_at tab_en name_index name_definition_ref w4 keyed).
        intros a b ia ib. eapply all_pairs_val_inv; eauto. }
      eapply sorted_by_ext; [| apply (ss_sorted srt SS _ keyed TP)].
      intros x y ix iy. unfold key_cmp. f_equal. fold sorted in ix, iy.
      destruct (CH _ (MS x ix)) as [ux ex]. destruct (CH _ (MS y iy)) as [uy ey].
      eapply (cmp_tot_agree T tab_el tab_at tab_en name_index name_definition_ref
                (fun j => reg (snd x) j || reg (snd y) j) w4 wF); auto.
      * intros j nj c dj Wj ic. apply orb_prop in dj as [dj | dj].
        -- destruct (rg_closed _ _ Rg4 _ j nj c dj Wj ic) as [dc e]. rewrite dc. auto.
        -- destruct (rg_closed _ _ Rg4 _ j nj c dj Wj ic) as [dc e]. rewrite dc, orb_true_r. auto.
      * apply AF. rewrite ux, uy. reflexivity.
      * rewrite (rg_self _ _ R). reflexivity.
      * rewrite (rg_self _ _ R (snd y)), orb_true_r. reflexivity.
  - pose proof (iter_loop_each f reg _ _ _ _ R nd dis H) as Each.
    pose proof (iter_loop_frame T _ _ (FR f) _ _ _ H) as [_ R4].
    assert (Wi' : w_nodes w' i = Some n).
    { rewrite (proj2 Each i); auto. intros c ic. apply (rg_up _ _ R i n c Wi). apply in_celems; auto. }
    exists n, mode. split; [exact Wi' |]. split; [exact Hmode |]. right. split; [exact Em |].
    exists ordered. split; [exact Hord |]. split; [intros c ic; apply KS; auto |].
    intros Hb. rewrite Eb in Hb. discriminate.
Qed.

End Canon.
