(* Tree/SortProofsCanon.v — C14 at heap level: the canonicalisation clause.
   Regions w reg     : the shape facts of a tree (reg a = the set of nodes below a, closed under sub-elements; the regions of
                       two different children of one node are disjoint and do not contain the node; no child twice) -
                       derived from C03's Core in Tree/SortProofsCore.v
   sorted_f          : every reorderable content list below i is sorted by (position, Element::cmp) AS EVALUATED IN THIS WORLD
   sort_sorted       : (children first) the world ElementRaw::sort returns is sorted in that sense - because every child is
                       sorted before the siblings are compared, the keys the comparison reads are the final ones
   sorted_fix        : sorting a sorted world changes nothing;  sort_idempotent : sort (sort w) = sort w (as worlds, pointwise)
   sort_canonical    : two worlds that differ only by the order of the children of reorderable nodes sort to worlds whose
                       trees are twins (same names, types, attributes, values at every position; ids of cmp-Equal siblings
                       may be swapped, comments are not compared) *)
From Coq Require Import Permutation Lia.
From AV Require Import Base.Bytes Base.Outcome Base.Radix Hash.HashModel Tree.Heap Tree.Ops Tree.Sort
  Tree.SortProofsOrder Tree.SortProofsCmp Tree.SortProofsHeap Tree.SortProofsMain Tree.SortProofsLocal.
Open Scope list_scope.
Open Scope N_scope.

Definition ball : id -> bool := fun _ => true.
Definition weq (w w' : world) : Prop := agree ball w w'.

Record Regions (w : world) (reg : id -> id -> bool) : Prop := {
  rg_self : forall a, reg a a = true;
  rg_closed : forall a, closed (reg a) w;
  rg_disj : forall i n c c' j, w_nodes w i = Some n -> In (CElem c) (n_content n) -> In (CElem c') (n_content n) ->
            c <> c' -> reg c j = true -> reg c' j = false;
  rg_up : forall i n c, w_nodes w i = Some n -> In (CElem c) (n_content n) -> reg c i = false;
  rg_nodup : forall i n, w_nodes w i = Some n -> NoDup (celems (n_content n))
}.

Lemma closed_ball w reg : Regions w reg -> closed ball w.
Proof.
  intros R j n c _ Wj ic. split; auto. apply (rg_closed _ _ R j j n c (rg_self _ _ R j) Wj ic).
Qed.

Section Canon.
Variable T : tables.
Variable tab_el tab_at tab_en : nametab.
Variable name_index name_definition_ref : N.
Variable srt : forall A, (A -> A -> comparison) -> list A -> list A.
Hypothesis SS : StableSort srt.

Notation sort_f' := (sort_f T tab_el tab_at tab_en name_index name_definition_ref srt).
Notation cmp_p' := (cmp_p T tab_el tab_at tab_en name_index name_definition_ref policy_cur).
Notation cmp_f' := (cmp_f T tab_el tab_at tab_en name_index name_definition_ref policy_cur).
Notation cmp_tot := (cmp_total T tab_el tab_at tab_en name_index name_definition_ref).
Notation all_pairs' := (all_pairs_val T tab_el tab_at tab_en name_index name_definition_ref).
Notation FR := (sort_frame T tab_el tab_at tab_en name_index name_definition_ref srt (srt_perm srt SS)).
Notation world_rel' := (world_rel T).

Lemma node_rel_elem_iff n n' c : node_rel T n n' -> (In (CElem c) (n_content n') <-> In (CElem c) (n_content n)).
Proof.
  intros h. split; [apply (node_rel_in_elem T n n' c h) |].
  destruct h as [_ [e | [_ p]]]; [congruence |].
  intros i. eapply Permutation_in; [exact p |]. apply in_map. apply in_celems. exact i.
Qed.

Lemma node_rel_celems n n' : node_rel T n n' -> Permutation (celems (n_content n)) (celems (n_content n')).
Proof.
  intros [_ [e | [_ p]]]; [rewrite e; auto |].
  apply celems_perm in p. rewrite celems_map in p. exact p.
Qed.

Lemma Regions_rel w w' reg : world_rel' w w' -> Regions w reg -> Regions w' reg.
Proof.
  intros Rw R. pose proof Rw as (_ & _ & _ & nodes).
  assert (back : forall i n', w_nodes w' i = Some n' -> exists n, w_nodes w i = Some n /\ node_rel T n n').
  { intros i n' Wi. pose proof (nodes i) as h. rewrite Wi in h. destruct (w_nodes w i) as [n |]; [eauto | destruct h]. }
  split.
  - apply (rg_self _ _ R).
  - intros a. eapply closed_rel; [exact Rw | apply (rg_closed _ _ R)].
  - intros i n' c c' j Wi ic ic' ne. destruct (back i n' Wi) as (n & W0 & h).
    apply (rg_disj _ _ R i n c c' j W0); auto; apply (node_rel_elem_iff n n' _ h); auto.
  - intros i n' c Wi ic. destruct (back i n' Wi) as (n & W0 & h).
    apply (rg_up _ _ R i n c W0). apply (node_rel_elem_iff n n' _ h); auto.
  - intros i n' Wi. destruct (back i n' Wi) as (n & W0 & h).
    eapply Permutation_NoDup; [apply node_rel_celems; exact h | apply (rg_nodup _ _ R i n W0)].
Qed.

(* ------------------------------------------------------------------ the keys sort_by works on *)
Definition idx_of (w : world) (ty : N * N) (c : id) : list N :=
  match w_nodes w c with
  | Some cn => match find_sub_element T ty (n_name cn) 4294967295 with Val (Some (_, ix)) => ix | _ => [] end
  | None => []
  end.
Definition keyed_of (w : world) (ty : N * N) (cs : list id) : list (list N * id) := map (fun c => (idx_of w ty c, c)) cs.

Lemma idx_of_rel w w' ty c : world_rel' w w' -> idx_of w ty c = idx_of w' ty c.
Proof.
  intros (_ & _ & _ & nodes). unfold idx_of. specialize (nodes c).
  destruct (w_nodes w c) as [n |], (w_nodes w' c) as [n' |]; [| destruct nodes | destruct nodes | reflexivity].
  destruct nodes as [(_ & en & _) _]. rewrite en. reflexivity.
Qed.

Lemma keyed_of_rel w w' ty cs : world_rel' w w' -> keyed_of w ty cs = keyed_of w' ty cs.
Proof. intros R. unfold keyed_of. apply map_ext. intros c. f_equal. apply idx_of_rel; auto. Qed.

Lemma map_snd_keyed_of w ty cs : map snd (keyed_of w ty cs) = cs.
Proof. unfold keyed_of. rewrite map_map. cbn. apply map_id. Qed.

Lemma keyed_loop_keyed rec ty l : frame_ok T rec ->
  forall w keyed w', keyed_loop T rec ty l w = Val (OK keyed, w') -> keyed = keyed_of w' ty (celems l).
Proof.
  intros F. induction l as [| it l IH]; intros w keyed w' H.
  - cbn in H. injection H as <- <-. reflexivity.
  - destruct it as [c | d]; cbn [keyed_loop] in H; [| eapply IH; eauto].
    apply wbind_val in H as [(u & w1 & E1 & H) | (e & E1 & [=])].
    apply wbind_val in H as [(cn & w2 & E2 & H) | (e & E2 & [=])].
    apply get_node_val in E2 as (cn' & Wc & E2 & ->). injection E2 as <-.
    apply wbind_val in H as [(fs & w3 & E3 & H) | (e & E3 & [=])].
    apply wl_val in E3 as (fs' & Hfs & E3 & ->). injection E3 as <-.
    destruct fs as [[et idx] |]; [| discriminate].
    apply wbind_val in H as [(more & w4 & E4 & H) | (e & E4 & [=])].
    cbn in H. injection H as <- <-.
    pose proof (keyed_loop_frame T _ _ _ F _ _ _ E4) as (R4 & _).
    rewrite (IH _ _ _ E4). change (celems (CElem c :: l)) with (c :: celems l). cbn [keyed_of map]. f_equal.
    f_equal. rewrite <- (idx_of_rel w1 w4 ty c R4). unfold idx_of. rewrite Wc, Hfs. reflexivity.
Qed.

(* sorted_by only looks at the comparator on the members *)
Lemma sorted_by_ext {A} (c c' : A -> A -> comparison) l :
  (forall x y, In x l -> In y l -> c x y = c' x y) -> sorted_by c l -> sorted_by c' l.
Proof.
  induction l as [| h t IH]; cbn; auto. intros E [m S]. split.
  - intros y iy. rewrite <- E; auto.
  - apply IH; auto.
Qed.

(* ------------------------------------------------------------------ sorted worlds *)
Fixpoint sorted_f (f : nat) (w : world) (i : id) : Prop :=
  match f with
  | O => False
  | S f' =>
    exists n mode, w_nodes w i = Some n /\ content_mode T (n_type n) = Val mode /\
      (((mode =? MCharacters) || (mode =? MMixed)) = true \/
       (((mode =? MCharacters) || (mode =? MMixed)) = false /\
        exists ordered, is_ordered T (n_type n) = Val ordered /\
          (forall c, In (CElem c) (n_content n) -> sorted_f f' w c) /\
          (negb ordered && (1 <? N.of_nat (List.length (n_content n))) = true ->
             n_content n = map CElem (celems (n_content n)) /\
             sorted_by (key_cmp (cmp_tot w)) (keyed_of w (n_type n) (celems (n_content n))))))
  end.

Lemma sorted_agree D u v : closed D u -> agree D u v -> forall f i, D i = true -> sorted_f f u i -> sorted_f f v i.
Proof.
  intros C A. induction f as [| f IH]; intros i di H; [destruct H |].
  destruct H as (n & mode & Wi & Hm & H). exists n, mode. rewrite (proj2 A i di). repeat split; auto.
  destruct H as [H | (Hc & ordered & Ho & Hk & Hs)]; [left; auto | right]. split; auto.
  exists ordered. repeat split; auto.
  - intros c ic. apply IH; auto. apply (C i n c di Wi ic).
  - apply Hs; auto.
  - destruct (Hs H) as [_ S].
    assert (M : forall c, In c (celems (n_content n)) -> D c = true /\ exists cn, w_nodes u c = Some cn).
    { intros c ic. apply in_celems in ic. apply (C i n c di Wi ic). }
    assert (E : keyed_of v (n_type n) (celems (n_content n)) = keyed_of u (n_type n) (celems (n_content n))).
    { unfold keyed_of. apply map_ext_in. intros c ic. f_equal. unfold idx_of. rewrite (proj2 A c (proj1 (M c ic))). reflexivity. }
    rewrite E. eapply sorted_by_ext; [| exact S].
    intros x y ix iy. unfold key_cmp. f_equal.
    assert (sx : In (snd x) (celems (n_content n))) by (rewrite <- (map_snd_keyed_of u (n_type n)); apply in_map; auto).
    assert (sy : In (snd y) (celems (n_content n))) by (rewrite <- (map_snd_keyed_of u (n_type n)); apply in_map; auto).
    destruct (M _ sx) as [dx ex]. destruct (M _ sy) as [dy ey].
    eapply cmp_tot_agree; eauto.
Qed.

(* ------------------------------------------------------------------ what one pass over the children does *)
Definition regs (reg : id -> id -> bool) (cs : list id) : id -> bool := fun x => existsb (fun c => reg c x) cs.

Lemma regs_false reg cs x : regs reg cs x = false <-> forall c, In c cs -> reg c x = false.
Proof.
  unfold regs. split.
  - intros H c ic. destruct (reg c x) eqn:E; auto.
    assert (existsb (fun c => reg c x) cs = true) by (apply existsb_exists; eauto). congruence.
  - intros H. destruct (existsb (fun c => reg c x) cs) eqn:E; auto.
    apply existsb_exists in E as (c & ic & e). rewrite (H c ic) in e. discriminate.
Qed.

Lemma regs_closed w reg cs : Regions w reg -> closed (regs reg cs) w.
Proof.
  intros R j n c dj Wj ic. unfold regs in dj. apply existsb_exists in dj as (a & ia & ea).
  destruct (rg_closed _ _ R a j n c ea Wj ic) as [dc ex]. split; auto.
  unfold regs. apply existsb_exists. eauto.
Qed.

Definition disjoint_regs (reg : id -> id -> bool) (cs : list id) : Prop :=
  forall c c' x, In c cs -> In c' cs -> c <> c' -> reg c x = true -> reg c' x = false.

Lemma agree_of_outside D w w' : w_next w' = w_next w -> (forall x, D x = true -> w_nodes w' x = w_nodes w x) -> agree D w w'.
Proof. intros e h. split; auto. Qed.

Definition each_ok f reg (cs : list id) (w w' : world) : Prop :=
  (forall c, In c cs -> exists wc, sort_f' f c w = Val (OK tt, wc) /\ agree (reg c) wc w') /\
  (forall x, (forall c, In c cs -> reg c x = false) -> w_nodes w' x = w_nodes w x).

Lemma each_step f reg c cs w w1 w' :
  Regions w reg -> ~ In c cs -> disjoint_regs reg (c :: cs) ->
  sort_f' f c w = Val (OK tt, w1) -> world_rel' w1 w' -> each_ok f reg cs w1 w' -> each_ok f reg (c :: cs) w w'.
Proof.
  intros R nin dis E1 R' [Hc Ho].
  pose proof (FR f _ _ _ _ E1) as [_ R1].
  pose proof (Regions_rel _ _ _ R1 R) as Rg1.
  assert (O1 : forall x, reg c x = false -> w_nodes w1 x = w_nodes w x).
  { intros x dx. eapply (sort_outside T tab_el tab_at tab_en name_index name_definition_ref srt SS (reg c)); eauto.
    - apply (rg_closed _ _ R).
    - apply (rg_self _ _ R). }
  split.
  - intros a [<- | ia].
    + exists w1. split; auto. apply agree_of_outside; [apply R' |].
      intros x dx. apply Ho. intros c' ic'. apply (dis c c' x); auto; [left; auto | right; auto | intros ->; auto].
    + destruct (Hc a ia) as (wa & Ea & Aa).
      assert (A1 : agree (reg a) w1 w).
      { apply agree_of_outside; [symmetry; apply R1 |]. intros x dx. symmetry. apply O1.
        apply (dis a c x); auto; [right; auto | left; auto | intros ->; auto]. }
      destruct (sort_local T tab_el tab_at tab_en name_index name_definition_ref srt SS (reg a) f a w1 w _ wa
                  (rg_closed _ _ Rg1 a) A1 (rg_self _ _ R a) Ea) as (wa' & Ea' & Aa').
      exists wa'. split; auto. eapply agree_trans; [apply agree_sym; exact Aa' | exact Aa].
  - intros x H. rewrite Ho; [| intros c' ic'; apply H; right; auto]. apply O1. apply H. left; auto.
Qed.

Lemma keyed_loop_each f reg ty l : forall w keyed w',
  Regions w reg -> NoDup (celems l) -> disjoint_regs reg (celems l) ->
  keyed_loop T (sort_f' f) ty l w = Val (OK keyed, w') -> each_ok f reg (celems l) w w'.
Proof.
  induction l as [| it l IH]; intros w keyed w' R nd dis H.
  - cbn in H. injection H as _ <-. split; [intros c [] | auto].
  - destruct it as [c | d]; cbn [keyed_loop] in H; [| eapply IH; eauto].
    change (celems (CElem c :: l)) with (c :: celems l) in *.
    apply wbind_val in H as [(u & w1 & E1 & H) | (e & E1 & [=])]. destruct u.
    pose proof (FR f _ _ _ _ E1) as [_ R1].
    apply wbind_val in H as [(cn & w2 & E2 & H) | (e & E2 & [=])].
    apply get_node_val in E2 as (cn' & Wc & E2 & ->). injection E2 as <-.
    apply wbind_val in H as [(fs & w3 & E3 & H) | (e & E3 & [=])].
    apply wl_val in E3 as (fs' & Hfs & E3 & ->). injection E3 as <-.
    destruct fs as [[et idx] |]; [| discriminate].
    apply wbind_val in H as [(more & w4 & E4 & H) | (e & E4 & [=])].
    cbn in H. injection H as _ <-.
    inversion nd as [| ? ? nin nd']; subst.
    eapply each_step; eauto.
    + apply (keyed_loop_frame T _ _ _ (FR f) _ _ _ E4).
    + eapply IH; eauto; [eapply Regions_rel; eauto |].
      intros a a' x ia ia'. apply dis; right; auto.
Qed.

Lemma iter_loop_each f reg l : forall w r w',
  Regions w reg -> NoDup (celems l) -> disjoint_regs reg (celems l) ->
  iter_loop (sort_f' f) l w = Val (r, w') -> each_ok f reg (celems l) w w'.
Proof.
  induction l as [| it l IH]; intros w r w' R nd dis H.
  - cbn in H. injection H as _ <-. split; [intros c [] | auto].
  - destruct it as [c | d]; cbn [iter_loop] in H; [| eapply IH; eauto].
    change (celems (CElem c :: l)) with (c :: celems l) in *.
    apply wbind_val in H as [(u & w1 & E1 & H) | (e & E1 & _)]; [| apply (FR f) in E1 as [E1 _]; discriminate]. destruct u.
    pose proof (FR f _ _ _ _ E1) as [_ R1].
    inversion nd as [| ? ? nin nd']; subst.
    eapply each_step; eauto.
    + apply (iter_loop_frame T _ _ (FR f) _ _ _ H).
    + eapply IH; eauto; [eapply Regions_rel; eauto |].
      intros a a' x ia ia'. apply dis; right; auto.
Qed.

Lemma children_disjoint w reg i n : Regions w reg -> w_nodes w i = Some n -> disjoint_regs reg (celems (n_content n)).
Proof. intros R Wi c c' x ic ic'. apply (rg_disj _ _ R i n c c' x Wi); apply in_celems; auto. Qed.

(* ------------------------------------------------------------------ children first: the result is sorted *)
Lemma sort_sorted f : forall i w r w' reg, Regions w reg -> sort_f' f i w = Val (r, w') -> sorted_f f w' i.
Proof.
  induction f as [| f IH]; intros i w r w' reg R H; [discriminate |].
  pose proof (FR (S f) _ _ _ _ H) as [-> Rw].
  cbn [sort_f] in H.
  apply wbind_val in H as [(n & w1 & E1 & H) | (e & E1 & [=])].
  apply get_node_val in E1 as (n' & Wi & E1 & ->). injection E1 as <-.
  apply wbind_val in H as [(mode & w2 & E2 & H) | (e & E2 & [=])].
  apply wl_val in E2 as (mode' & Hmode & E2 & ->). injection E2 as <-.
  destruct ((mode =? MCharacters) || (mode =? MMixed)) eqn:Em.
  { cbn in H. injection H as <-. exists n, mode. repeat split; auto. }
  apply wbind_val in H as [(ordered & w3 & E3 & H) | (e & E3 & [=])].
  apply wl_val in E3 as (ordered' & Hord & E3 & ->). injection E3 as <-.
  pose proof (rg_nodup _ _ R i n Wi) as nd. pose proof (children_disjoint w reg i n R Wi) as dis.
  (* every child is sorted in the world the loop ends in *)
  assert (KS : forall w4, each_ok f reg (celems (n_content n)) w w4 -> world_rel' w w4 ->
                forall c, In (CElem c) (n_content n) -> sorted_f f w4 c).
  { intros w4 [Hc _] R4 c ic. apply in_celems in ic. destruct (Hc c ic) as (wc & Ec & Ac).
    pose proof (FR f _ _ _ _ Ec) as [_ Rc].
    eapply (sorted_agree (reg c) wc w4); [apply (rg_closed _ _ (Regions_rel _ _ _ Rc R)) | exact Ac | apply (rg_self _ _ R) |].
    eapply IH; eauto. }
  destruct (negb ordered && (1 <? N.of_nat (List.length (n_content n)))) eqn:Eb.
  - apply wbind_val in H as [(keyed & w4 & E4 & H) | (e & E4 & _)];
      [| eapply keyed_loop_frame in E4 as (_ & ? & E4 & _); [discriminate | exact (FR f)]].
    pose proof (keyed_loop_frame T _ _ _ (FR f) _ _ _ E4) as (R4 & keyed' & Ek & Hk). injection Ek as <-.
    pose proof (keyed_loop_keyed _ _ _ (FR f) _ _ _ E4) as Kd.
    pose proof (keyed_loop_each f reg _ _ _ _ _ R nd dis E4) as Each.
    pose proof (Regions_rel _ _ _ R4 R) as Rg4.
    apply wbind_val in H as [(wc & w5 & E5 & H) | (e & E5 & [=])].
    unfold wget in E5. injection E5 as <- <-.
    apply wbind_val in H as [(u6 & w6 & E6 & H) | (e & E6 & _)];
      [| apply wl_val in E6 as (? & _ & E6 & _); discriminate].
    apply wl_val in E6 as (u6' & AP & _ & ->). destruct u6'.
    unfold modify_node in H.
    apply wbind_val in H as [(n1 & w7 & E7 & H) | (e & E7 & [=])].
    apply get_node_val in E7 as (n1' & W1 & E7 & ->). injection E7 as <-.
    unfold set_node in H. injection H as <-.
    set (sorted := srt _ (key_cmp (cmp_tot w4)) keyed) in *.
    set (wF := mkWorld (upd (w_nodes w4) i (set_content n1 (map (fun k => CElem (snd k)) sorted))) (w_next w4) (w_files w4) (w_models w4)) in *.
    (* the children exist in w4, are not i, and their regions do not contain i *)
    assert (CH : forall c, In (CElem c) (n_content n) -> reg c i = false /\ exists cn, w_nodes w4 c = Some cn).
    { intros c ic. split; [apply (rg_up _ _ R i n c Wi ic) |].
      destruct (rg_closed _ _ R i i n c (rg_self _ _ R i) Wi ic) as [_ [cn Wc]].
      destruct R4 as (_ & _ & _ & nodes). pose proof (nodes c) as h. rewrite Wc in h. destruct (w_nodes w4 c); [eauto | destruct h]. }
    assert (AF : forall D, D i = false -> agree D w4 wF).
    { intros D di. split; auto. intros j dj. cbn. unfold upd. destruct (j =? i) eqn:Ej; auto. apply N.eqb_eq in Ej. congruence. }
    pose (n4 := n1). assert (W4 : w_nodes w4 i = Some n4) by exact W1.
    assert (ty4 : n_type n4 = n_type n).
    { destruct R4 as (_ & _ & _ & nodes). pose proof (nodes i) as h. rewrite Wi, W4 in h. apply h. }
    exists (set_content n4 (map (fun k => CElem (snd k)) sorted)), mode. cbn [w_nodes wF]. unfold upd. rewrite N.eqb_refl.
    split; auto. cbn [n_type set_content]. rewrite ty4. split; auto. right. split; auto.
    exists ordered. split; auto. cbn [n_content set_content].
    assert (PS : Permutation keyed sorted) by apply (ss_perm srt SS).
    split.
    + intros c ic. apply in_map_iff in ic as (k & [= <-] & ik).
      assert (ic : In (CElem (snd k)) (n_content n)).
      { apply in_celems. rewrite <- Hk. apply in_map. eapply Permutation_in; [apply Permutation_sym; exact PS | exact ik]. }
      destruct (CH _ ic) as [ui _].
      eapply (sorted_agree (reg (snd k)) w4 wF); [apply (rg_closed _ _ Rg4) | apply AF; auto | apply (rg_self _ _ R) |].
      apply KS; auto.
    + intros _.
      assert (CE : celems (map (fun k : list N * id => CElem (snd k)) sorted) = map snd sorted).
      { rewrite <- (map_map snd CElem). apply celems_map. }
      rewrite CE. split; [rewrite <- (map_map snd CElem); reflexivity |].
      (* the sorted list, with its keys, is what keyed_of gives in the final world *)
      assert (MS : forall k, In k sorted -> In (CElem (snd k)) (n_content n)).
      { intros k ik. apply in_celems. rewrite <- Hk. apply in_map. eapply Permutation_in; [apply Permutation_sym; exact PS | exact ik]. }
      assert (KE : keyed_of wF (n_type n) (map snd sorted) = sorted).
      { unfold keyed_of. rewrite map_map. rewrite <- (map_id sorted) at 2. apply map_ext_in. intros k ik.
        assert (ik0 : In k keyed) by (eapply Permutation_in; [apply Permutation_sym; exact PS | exact ik]).
        rewrite Kd in ik0. unfold keyed_of in ik0. apply in_map_iff in ik0 as (c & <- & ic). cbn [snd]. f_equal.
        unfold idx_of. cbn [w_nodes wF]. unfold upd.
        destruct (c =? i) eqn:Ec; auto. apply N.eqb_eq in Ec. subst c.
        apply in_celems in ic. destruct (CH _ ic) as [ui _]. rewrite (rg_self _ _ R i) in ui. discriminate. }
      rewrite KE.
      assert (TP : TotalPreorderOn (key_cmp (cmp_tot w4)) (fun k => In k keyed)).
      { apply (key_cmp_total_preorder T tab_el tab_at tab_en name_index name_definition_ref w4 keyed).
        intros a b ia ib. eapply all_pairs_val_inv; eauto. }
      eapply sorted_by_ext; [| apply (ss_sorted srt SS _ keyed TP)].
      intros x y ix iy. unfold key_cmp. f_equal. fold sorted in ix, iy.
      destruct (CH _ (MS x ix)) as [ux ex]. destruct (CH _ (MS y iy)) as [uy ey].
      eapply (cmp_tot_agree T tab_el tab_at tab_en name_index name_definition_ref
                (fun j => reg (snd x) j || reg (snd y) j) w4 wF); auto.
      * intros j nj c dj Wj ic. apply orb_prop in dj as [dj | dj].
        -- destruct (rg_closed _ _ Rg4 _ j nj c dj Wj ic) as [dc e]. rewrite dc. auto.
        -- destruct (rg_closed _ _ Rg4 _ j nj c dj Wj ic) as [dc e]. rewrite dc, orb_true_r. auto.
      * apply AF. rewrite ux, uy. reflexivity.
      * rewrite (rg_self _ _ R). reflexivity.
      * rewrite (rg_self _ _ R (snd y)), orb_true_r. reflexivity.
  - pose proof (iter_loop_each f reg _ _ _ _ R nd dis H) as Each.
    pose proof (iter_loop_frame T _ _ (FR f) _ _ _ H) as [_ R4].
    assert (Wi' : w_nodes w' i = Some n).
    { rewrite (proj2 Each i); auto. intros c ic. apply (rg_up _ _ R i n c Wi). apply in_celems; auto. }
    exists n, mode. split; [exact Wi' |]. split; [exact Hmode |]. right. split; [exact Em |].
    exists ordered. split; [exact Hord |]. split; [intros c ic; apply KS; auto |].
    intros Hb. rewrite Eb in Hb. discriminate.
Qed.

(* ------------------------------------------------------------------ sorting a sorted world changes nothing *)
Lemma set_content_same n : set_content n (n_content n) = n.
Proof. destruct n; reflexivity. Qed.

Lemma weq_refl w : weq w w. Proof. apply agree_refl. Qed.
Lemma weq_trans a b c : weq a b -> weq b c -> weq a c. Proof. apply agree_trans. Qed.

Definition fix_ok (f : nat) (rec : id -> W unit) : Prop :=
  forall c u r u', closed ball u -> sorted_f f u c -> rec c u = Val (r, u') -> weq u u'.

Lemma keyed_loop_fix f rec ty l : frame_ok T rec -> fix_ok f rec ->
  forall u r u', closed ball u -> (forall c, In (CElem c) l -> sorted_f f u c) ->
    keyed_loop T rec ty l u = Val (r, u') -> weq u u'.
Proof.
  intros F X. induction l as [| it l IH]; intros u r u' C K H.
  - cbn in H. injection H as _ <-. apply weq_refl.
  - destruct it as [c | d]; cbn [keyed_loop] in H; [| eapply IH; eauto; intros; apply K; right; auto].
    apply wbind_val in H as [(x & w1 & E1 & H) | (e & E1 & _)]; [| apply F in E1 as [E1 _]; discriminate].
    pose proof (X c u _ w1 C (K c (or_introl eq_refl)) E1) as A1.
    apply wbind_val in H as [(cn & w2 & E2 & H) | (e & E2 & _)];
      [| apply get_node_val in E2 as (? & _ & E2 & _); discriminate].
    apply get_node_val in E2 as (cn' & Wc & E2 & ->). injection E2 as <-.
    apply wbind_val in H as [(fs & w3 & E3 & H) | (e & E3 & _)];
      [| apply wl_val in E3 as (? & _ & E3 & _); discriminate].
    apply wl_val in E3 as (fs' & Hfs & E3 & ->). injection E3 as <-.
    destruct fs as [[et idx] |]; [| discriminate].
    assert (K1 : forall c', In (CElem c') l -> sorted_f f w1 c').
    { intros c' ic'. eapply (sorted_agree ball u w1); eauto. apply K. right; auto. }
    apply wbind_val in H as [(more & w4 & E4 & H) | (e & E4 & ->)].
    + cbn in H. injection H as _ <-. eapply weq_trans; [exact A1 |]. eapply IH; eauto. eapply closed_agree; eauto.
    + eapply weq_trans; [exact A1 |]. eapply IH; eauto. eapply closed_agree; eauto.
Qed.

Lemma iter_loop_fix f rec l : frame_ok T rec -> fix_ok f rec ->
  forall u r u', closed ball u -> (forall c, In (CElem c) l -> sorted_f f u c) ->
    iter_loop rec l u = Val (r, u') -> weq u u'.
Proof.
  intros F X. induction l as [| it l IH]; intros u r u' C K H.
  - cbn in H. injection H as _ <-. apply weq_refl.
  - destruct it as [c | d]; cbn [iter_loop] in H; [| eapply IH; eauto; intros; apply K; right; auto].
    apply wbind_val in H as [(x & w1 & E1 & H) | (e & E1 & _)]; [| apply F in E1 as [E1 _]; discriminate].
    pose proof (X c u _ w1 C (K c (or_introl eq_refl)) E1) as A1.
    eapply weq_trans; [exact A1 |]. eapply IH; eauto; [eapply closed_agree; eauto |].
    intros c' ic'. eapply (sorted_agree ball u w1); eauto. apply K. right; auto.
Qed.

Lemma sorted_fix f : fix_ok f (sort_f' f).
Proof.
  induction f as [| f IH]; intros i u r u' C S H; [discriminate |].
  destruct S as (n0 & mode0 & Wi0 & Hm0 & S).
  cbn [sort_f] in H.
  apply wbind_val in H as [(n & w1 & E1 & H) | (e & E1 & _)];
    [| apply get_node_val in E1 as (? & _ & E1 & _); discriminate].
  apply get_node_val in E1 as (n' & Wi & E1 & ->). injection E1 as <-.
  rewrite Wi0 in Wi. injection Wi as <-.
  apply wbind_val in H as [(mode & w2 & E2 & H) | (e & E2 & _)];
    [| apply wl_val in E2 as (? & _ & E2 & _); discriminate].
  apply wl_val in E2 as (mode' & Hmode & E2 & ->). injection E2 as <-.
  rewrite Hm0 in Hmode. injection Hmode as <-.
  destruct ((mode0 =? MCharacters) || (mode0 =? MMixed)) eqn:Em.
  { cbn in H. injection H as _ <-. apply weq_refl. }
  destruct S as [S | (_ & ordered0 & Ho0 & Hk & Hs)]; [discriminate |].
  apply wbind_val in H as [(ordered & w3 & E3 & H) | (e & E3 & _)];
    [| apply wl_val in E3 as (? & _ & E3 & _); discriminate].
  apply wl_val in E3 as (ordered' & Hord & E3 & ->). injection E3 as <-.
  rewrite Ho0 in Hord. injection Hord as <-.
  destruct (negb ordered0 && (1 <? N.of_nat (List.length (n_content n0)))) eqn:Eb; [| eapply iter_loop_fix; eauto; apply FR].
  destruct (Hs eq_refl) as [Hall Hsorted].
  apply wbind_val in H as [(keyed & u4 & E4 & H) | (e & E4 & _)];
    [| eapply keyed_loop_frame in E4 as (_ & ? & E4 & _); [discriminate | exact (FR f)]].
  pose proof (keyed_loop_frame T _ _ _ (FR f) _ _ _ E4) as (R4 & keyed' & Ek & Hk4). injection Ek as <-.
  pose proof (keyed_loop_keyed _ _ _ (FR f) _ _ _ E4) as Kd.
  pose proof (keyed_loop_fix f _ _ _ (FR f) IH _ _ _ C Hk E4) as A4.
  apply wbind_val in H as [(wc & w5 & E5 & H) | (e & E5 & _)]; [| discriminate].
  unfold wget in E5. injection E5 as <- <-.
  apply wbind_val in H as [(x & w6 & E6 & H) | (e & E6 & _)];
    [| apply wl_val in E6 as (? & _ & E6 & _); discriminate].
  apply wl_val in E6 as (x' & AP & _ & ->). destruct x'.
  unfold modify_node in H.
  apply wbind_val in H as [(n1 & w7 & E7 & H) | (e & E7 & _)];
    [| apply get_node_val in E7 as (? & _ & E7 & _); discriminate].
  apply get_node_val in E7 as (n1' & W1 & E7 & ->). injection E7 as <-.
  rewrite (proj2 A4 i eq_refl), Wi0 in W1. injection W1 as <-.
  unfold set_node in H. injection H as _ <-.
  (* the keys are the same in u and u4, the list is sorted: sort_by returns it *)
  assert (M : forall c, In c (celems (n_content n0)) -> exists cn, w_nodes u c = Some cn).
  { intros c ic. apply in_celems in ic. apply (C i n0 c eq_refl Wi0 ic). }
  assert (KE : keyed = keyed_of u (n_type n0) (celems (n_content n0))).
  { rewrite Kd. unfold keyed_of. apply map_ext. intros c. f_equal. unfold idx_of. rewrite (proj2 A4 c eq_refl). reflexivity. }
  assert (E : srt _ (key_cmp (cmp_tot u4)) keyed = keyed).
  { apply (ss_fix srt SS).
    - apply (key_cmp_total_preorder T tab_el tab_at tab_en name_index name_definition_ref u4 keyed).
      intros a b ia ib. eapply all_pairs_val_inv; eauto.
    - rewrite KE. eapply sorted_by_ext; [| exact Hsorted].
      intros a b ia ib. unfold key_cmp. f_equal.
      assert (sa : In (snd a) (celems (n_content n0))) by (rewrite <- (map_snd_keyed_of u (n_type n0)); apply in_map; auto).
      assert (sb : In (snd b) (celems (n_content n0))) by (rewrite <- (map_snd_keyed_of u (n_type n0)); apply in_map; auto).
      eapply (cmp_tot_agree T tab_el tab_at tab_en name_index name_definition_ref ball u u4); eauto. }
  rewrite E. eapply weq_trans; [exact A4 |].
  rewrite <- (map_map snd CElem), Hk4, <- Hall, set_content_same.
  split; auto. intros j _. cbn. unfold upd. destruct (j =? i) eqn:Ej; auto.
  apply N.eqb_eq in Ej. subst j. rewrite (proj2 A4 i eq_refl). auto.
Qed.

(* ------------------------------------------------------------------ idempotence *)
Theorem sort_idem f i w r w1 r2 w2 reg : Regions w reg ->
  sort_f' f i w = Val (r, w1) -> sort_f' f i w1 = Val (r2, w2) -> weq w1 w2.
Proof.
  intros R H1 H2. pose proof (FR f _ _ _ _ H1) as [_ R1].
  eapply sorted_fix; [| eapply sort_sorted; eauto | exact H2].
  eapply closed_ball. eapply Regions_rel; eauto.
Qed.

(* ------------------------------------------------------------------ canonical form *)
(* the type of a sub-element is determined by the type of its parent and its name *)
Definition TypeDet (w : world) : Prop :=
  forall p q np nq x y nx ny, w_nodes w p = Some np -> w_nodes w q = Some nq -> n_type np = n_type nq ->
    In (CElem x) (n_content np) -> In (CElem y) (n_content nq) -> w_nodes w x = Some nx -> w_nodes w y = Some ny ->
    n_name nx = n_name ny -> n_type nx = n_type ny.
Definition U64 (w : world) : Prop := forall i n, w_nodes w i = Some n -> node_u64 n.

Lemma TypeDet_rel w w' : world_rel' w w' -> TypeDet w -> TypeDet w'.
Proof.
  intros (_ & _ & _ & nodes) TD p q np' nq' x y nx' ny' Wp Wq et ix iy Wx Wy en.
  assert (back : forall i n', w_nodes w' i = Some n' -> exists n, w_nodes w i = Some n /\ node_rel T n n').
  { intros i n' Wi. pose proof (nodes i) as h. rewrite Wi in h. destruct (w_nodes w i) as [n |]; [eauto | destruct h]. }
  destruct (back p _ Wp) as (np & Wp0 & hp). destruct (back q _ Wq) as (nq & Wq0 & hq).
  destruct (back x _ Wx) as (nx & Wx0 & hx). destruct (back y _ Wy) as (ny & Wy0 & hy).
  pose proof hp as [(_ & _ & tp & _) _]. pose proof hq as [(_ & _ & tq & _) _].
  pose proof hx as [(_ & nmx & tx & _) _]. pose proof hy as [(_ & nmy & ty & _) _].
  rewrite tx, ty. apply (TD p q np nq x y nx ny Wp0 Wq0); [congruence | | | exact Wx0 | exact Wy0 | congruence].
  - apply (node_rel_elem_iff np np' x hp). exact ix.
  - apply (node_rel_elem_iff nq nq' y hq). exact iy.
Qed.

Lemma U64_rel w w' : world_rel' w w' -> U64 w -> U64 w'.
Proof.
  intros (_ & _ & _ & nodes) U i n' Wi. pose proof (nodes i) as h. rewrite Wi in h.
  destruct (w_nodes w i) as [n |] eqn:W0; [| destruct h]. destruct (U i n W0) as [ud ua]. split.
  - intros d id. apply ud. eapply node_rel_in_data; eauto.
  - destruct h as [(_ & _ & _ & ea & _) _]. rewrite ea. exact ua.
Qed.

(* Equal + equal types all the way down = twins at every depth *)
Lemma same_twin w : TypeDet w -> forall f a b na nb, same_f w f a b -> w_nodes w a = Some na -> w_nodes w b = Some nb ->
  n_type na = n_type nb -> forall g, twin_f w w g a b.
Proof.
  intros TD. induction f as [| f IH]; intros a b na nb S Wa Wb et g; [destruct S |].
  destruct g as [| g]; [exact I |].
  destruct S as (na' & nb' & Wa' & Wb' & en & ea & F). rewrite Wa in Wa'. rewrite Wb in Wb'. injection Wa' as <-. injection Wb' as <-.
  exists na, nb. repeat split; auto.
  eapply forall2_impl; [| exact F]. intros x y ix iy h.
  destruct x as [x | d], y as [y | e]; cbn in *; try tauto.
  destruct f as [| f']; [destruct h |].
  pose proof h as (nx & ny & Wx & Wy & enx & _).
  apply (IH x y nx ny h Wx Wy); auto.
  apply (TD a b na nb x y nx ny Wa Wb et ix iy Wx Wy enx).
Qed.

Fixpoint perm_eq_f (u v : world) (f : nat) (i : id) : Prop :=
  match f with
  | O => True
  | S f' =>
    exists n n' mode, w_nodes u i = Some n /\ w_nodes v i = Some n' /\
      n_name n = n_name n' /\ n_type n = n_type n' /\ n_attrs n = n_attrs n' /\ content_mode T (n_type n) = Val mode /\
      if (mode =? MCharacters) || (mode =? MMixed)
      then n_content n = n_content n' /\ forall c, In (CElem c) (n_content n) -> twin_f u v f' c c
      else exists ordered, is_ordered T (n_type n) = Val ordered /\
           (forall c, In (CElem c) (n_content n) -> perm_eq_f u v f' c) /\
           if negb ordered && (1 <? N.of_nat (List.length (n_content n)))
           then Permutation (n_content n) (n_content n') else n_content n = n_content n'
  end.
(* the two worlds hold the same tree below i except for the order of the children of reorderable nodes *)
Definition perm_equiv (u v : world) (i : id) : Prop := forall f, perm_eq_f u v f i.

Lemma forall2_same {A} (R : A -> A -> Prop) l : (forall x, In x l -> R x x) -> Forall2 R l l.
Proof. induction l; constructor; auto. - apply H; left; auto. - apply IHl. intros. apply H. right; auto. Qed.

Lemma each_twin g reg cs u v u4 v4 :
  Regions u reg -> Regions v reg -> world_rel' u u4 -> world_rel' v v4 ->
  each_ok g reg cs u u4 -> each_ok g reg cs v v4 ->
  (forall c uc vc, In c cs -> sort_f' g c u = Val (OK tt, uc) -> sort_f' g c v = Val (OK tt, vc) -> forall f, twin_f uc vc f c c) ->
  forall c, In c cs -> forall f, twin_f u4 v4 f c c.
Proof.
  intros Ru Rv R4u R4v [Eu _] [Ev _] H c ic f.
  destruct (Eu c ic) as (uc & Euc & Auc). destruct (Ev c ic) as (vc & Evc & Avc).
  pose proof (FR g _ _ _ _ Euc) as [_ Ruc]. pose proof (FR g _ _ _ _ Evc) as [_ Rvc].
  eapply (twin_transfer (reg c) (reg c) uc vc u4 v4); eauto.
  - apply (rg_closed _ _ (Regions_rel _ _ _ Ruc Ru)).
  - apply (rg_closed _ _ (Regions_rel _ _ _ Rvc Rv)).
  - apply (rg_self _ _ Ru).
  - apply (rg_self _ _ Ru).
Qed.

Hypothesis inj_el : forall x y s, to_str tab_el x = Some s -> to_str tab_el y = Some s -> x = y.
Hypothesis inj_at : forall x y s, to_str tab_at x = Some s -> to_str tab_at y = Some s -> x = y.
Hypothesis inj_en : forall x y s, to_str tab_en x = Some s -> to_str tab_en y = Some s -> x = y.

Theorem sort_canon reg : forall g i u v u1 v1,
  Regions u reg -> Regions v reg -> TypeDet u -> U64 u -> w_next v = w_next u -> perm_equiv u v i ->
  sort_f' g i u = Val (OK tt, u1) -> sort_f' g i v = Val (OK tt, v1) -> forall f, twin_f u1 v1 f i i.
Proof.
  induction g as [| g IH]; intros i u v u1 v1 Ru Rv TD UU NX PE Hu Hv; [discriminate |].
  pose proof (FR (S g) _ _ _ _ Hu) as [_ Rwu]. pose proof (FR (S g) _ _ _ _ Hv) as [_ Rwv].
  destruct (PE 1%nat) as (n & n' & mode & Wu & Wv & en & et & ea & Hmode & _).
  cbn [sort_f] in Hu, Hv.
  apply wbind_val in Hu as [(n0 & w1 & E1 & Hu) | (e & E1 & [=])].
  apply get_node_val in E1 as (n0' & Wi & E1 & ->). injection E1 as <-. rewrite Wu in Wi. injection Wi as <-.
  apply wbind_val in Hv as [(n0 & w1 & E1 & Hv) | (e & E1 & [=])].
  apply get_node_val in E1 as (n0' & Wi & E1 & ->). injection E1 as <-. rewrite Wv in Wi. injection Wi as <-.
  apply wbind_val in Hu as [(m1 & w2 & E2 & Hu) | (e & E2 & [=])].
  apply wl_val in E2 as (m1' & Hm1 & E2 & ->). injection E2 as <-. rewrite Hmode in Hm1. injection Hm1 as <-.
  apply wbind_val in Hv as [(m1 & w2 & E2 & Hv) | (e & E2 & [=])].
  apply wl_val in E2 as (m1' & Hm1 & E2 & ->). injection E2 as <-. rewrite <- et, Hmode in Hm1. injection Hm1 as <-.
  (* what perm_equiv says about i, at every depth *)
  assert (PEi : forall f, if (mode =? MCharacters) || (mode =? MMixed)
                then n_content n = n_content n' /\ forall c, In (CElem c) (n_content n) -> twin_f u v f c c
                else exists ordered, is_ordered T (n_type n) = Val ordered /\
                     (forall c, In (CElem c) (n_content n) -> perm_eq_f u v f c) /\
                     if negb ordered && (1 <? N.of_nat (List.length (n_content n)))
                     then Permutation (n_content n) (n_content n') else n_content n = n_content n').
  { intros f. destruct (PE (S f)) as (n2 & n2' & mode2 & Wu2 & Wv2 & _ & _ & _ & Hmode2 & H).
    rewrite Wu in Wu2. rewrite Wv in Wv2. injection Wu2 as <-. injection Wv2 as <-.
    rewrite Hmode in Hmode2. injection Hmode2 as <-. exact H. }
  destruct ((mode =? MCharacters) || (mode =? MMixed)) eqn:Em.
  { cbn in Hu, Hv. injection Hu as <-. injection Hv as <-. intros [| f]; [exact I |].
    destruct (PEi f) as [ec tw]. exists n, n'. repeat split; auto. rewrite <- ec.
    apply forall2_same. intros [c | d] ic; cbn; auto. }
  destruct (PEi O) as (ordered & Hord & _ & _).
  assert (PEc : forall c, In (CElem c) (n_content n) -> perm_equiv u v c).
  { intros c ic f. destruct (PEi f) as (o2 & _ & H & _). auto. }
  assert (PEl : if negb ordered && (1 <? N.of_nat (List.length (n_content n)))
                then Permutation (n_content n) (n_content n') else n_content n = n_content n').
  { destruct (PEi O) as (o2 & Ho2 & _ & H). rewrite Hord in Ho2. injection Ho2 as <-. exact H. }
  apply wbind_val in Hu as [(o1 & w3 & E3 & Hu) | (e & E3 & [=])].
  apply wl_val in E3 as (o1' & Ho1 & E3 & ->). injection E3 as <-. rewrite Hord in Ho1. injection Ho1 as <-.
  apply wbind_val in Hv as [(o1 & w3 & E3 & Hv) | (e & E3 & [=])].
  apply wl_val in E3 as (o1' & Ho1 & E3 & ->). injection E3 as <-. rewrite <- et, Hord in Ho1. injection Ho1 as <-.
  pose proof (rg_nodup _ _ Ru i n Wu) as ndu. pose proof (children_disjoint u reg i n Ru Wu) as disu.
  pose proof (rg_nodup _ _ Rv i n' Wv) as ndv. pose proof (children_disjoint v reg i n' Rv Wv) as disv.
  (* the recursion on a child *)
  assert (REC : forall c uc vc, In (CElem c) (n_content n) -> sort_f' g c u = Val (OK tt, uc) -> sort_f' g c v = Val (OK tt, vc) ->
                  forall f, twin_f uc vc f c c).
  { intros c uc vc ic Euc Evc. eapply (IH c u v); eauto. }
  destruct (negb ordered && (1 <? N.of_nat (List.length (n_content n)))) eqn:Eb.
  - (* both runs sort: the same multiset of children, in different orders *)
    assert (Eb' : negb ordered && (1 <? N.of_nat (List.length (n_content n'))) = true)
      by (rewrite <- (Permutation_length PEl); exact Eb).
    rewrite Eb' in Hv.
    assert (PC : Permutation (celems (n_content n)) (celems (n_content n'))) by (apply celems_perm; exact PEl).
    apply wbind_val in Hu as [(ku & u4 & E4u & Hu) | (e & E4 & [=])].
    apply wbind_val in Hv as [(kv & v4 & E4v & Hv) | (e & E4 & [=])].
    pose proof (keyed_loop_frame T _ _ _ (FR g) _ _ _ E4u) as (R4u & ? & Ek & Hku). injection Ek as <-.
    pose proof (keyed_loop_frame T _ _ _ (FR g) _ _ _ E4v) as (R4v & ? & Ek & Hkv). injection Ek as <-.
    pose proof (keyed_loop_keyed _ _ _ (FR g) _ _ _ E4u) as Kdu.
    pose proof (keyed_loop_keyed _ _ _ (FR g) _ _ _ E4v) as Kdv.
    pose proof (keyed_loop_each g reg _ _ _ _ _ Ru ndu disu E4u) as Eachu.
    pose proof (keyed_loop_each g reg _ _ _ _ _ Rv ndv disv E4v) as Eachv.
    pose proof (Regions_rel _ _ _ R4u Ru) as Rg4u. pose proof (Regions_rel _ _ _ R4v Rv) as Rg4v.
    (* every child: twins in u4 / v4 *)
    assert (TW4 : forall c, In c (celems (n_content n)) -> forall f, twin_f u4 v4 f c c).
    { apply (each_twin g reg (celems (n_content n)) u v u4 v4); auto.
      - destruct Eachv as [Hc Ho]. split.
        + intros c ic. apply Hc. eapply Permutation_in; eauto.
        + intros x H. apply Ho. intros c ic. apply H. eapply Permutation_in; [apply Permutation_sym; exact PC | exact ic].
      - intros c uc vc ic. apply REC. apply in_celems; auto. }
    apply wbind_val in Hu as [(wc & w5 & E5 & Hu) | (e & E5 & [=])]. unfold wget in E5. injection E5 as <- <-.
    apply wbind_val in Hv as [(wc & w5 & E5 & Hv) | (e & E5 & [=])]. unfold wget in E5. injection E5 as <- <-.
    apply wbind_val in Hu as [(x6 & w6 & E6 & Hu) | (e & E6 & [=])].
    apply wl_val in E6 as (x6' & APu & _ & ->). destruct x6'.
    apply wbind_val in Hv as [(y6 & w6 & E6 & Hv) | (e & E6 & [=])].
    apply wl_val in E6 as (y6' & APv & _ & ->). destruct y6'.
    unfold modify_node in Hu, Hv.
    apply wbind_val in Hu as [(nu & w7 & E7 & Hu) | (e & E7 & [=])].
    apply get_node_val in E7 as (nu' & W4u & E7 & ->). injection E7 as <-.
    apply wbind_val in Hv as [(nv & w7 & E7 & Hv) | (e & E7 & [=])].
    apply get_node_val in E7 as (nv' & W4v & E7 & ->). injection E7 as <-.
    unfold set_node in Hu, Hv. injection Hu as EU. injection Hv as EV.
    set (kcu := key_cmp (cmp_tot u4)) in *. set (kcv := key_cmp (cmp_tot v4)) in *.
    assert (Wu1 : w_nodes u1 i = Some (set_content nu (map (fun k => CElem (snd k)) (srt _ kcu ku)))).
    { rewrite <- EU. cbn. unfold upd. rewrite N.eqb_refl. reflexivity. }
    assert (Wv1 : w_nodes v1 i = Some (set_content nv (map (fun k => CElem (snd k)) (srt _ kcv kv)))).
    { rewrite <- EV. cbn. unfold upd. rewrite N.eqb_refl. reflexivity. }
    assert (AFu : forall D, D i = false -> agree D u4 u1).
    { intros D di. rewrite <- EU. split; auto. intros j dj. cbn. unfold upd. destruct (j =? i) eqn:Ej; auto. apply N.eqb_eq in Ej. congruence. }
    assert (AFv : forall D, D i = false -> agree D v4 v1).
    { intros D di. rewrite <- EV. split; auto. intros j dj. cbn. unfold upd. destruct (j =? i) eqn:Ej; auto. apply N.eqb_eq in Ej. congruence. }
    clear EU EV.
    (* children exist, their regions do not contain i *)
    assert (CHu : forall c, In c (celems (n_content n)) -> reg c i = false /\ exists cn, w_nodes u4 c = Some cn).
    { intros c ic. apply in_celems in ic. split; [apply (rg_up _ _ Ru i n c Wu ic) |].
      destruct (rg_closed _ _ Ru i i n c (rg_self _ _ Ru i) Wu ic) as [_ [cn Wc]].
      destruct R4u as (_ & _ & _ & nodes). pose proof (nodes c) as h. rewrite Wc in h. destruct (w_nodes u4 c); [eauto | destruct h]. }
    assert (NX4 : w_next v4 = w_next u4).
    { destruct R4u as (a & _). destruct R4v as (b & _). congruence. }
    (* the same keys: names are the same *)
    assert (IDX : forall c, In c (celems (n_content n)) -> idx_of v4 (n_type n') c = idx_of u4 (n_type n) c).
    { intros c ic. destruct (TW4 c ic 1%nat) as (a & b & Wa & Wb & enc & _). unfold idx_of. rewrite Wa, Wb, <- et, enc. reflexivity. }
    assert (Kv : kv = map (fun c => (idx_of u4 (n_type n) c, c)) (celems (n_content n'))).
    { rewrite Kdv. unfold keyed_of. apply map_ext_in. intros c ic. f_equal. apply IDX.
      eapply Permutation_in; [apply Permutation_sym; exact PC | exact ic]. }
    assert (PK : Permutation ku kv).
    { rewrite Kdu, Kv. unfold keyed_of. apply Permutation_map. exact PC. }
    assert (MU : forall k, In k ku -> In (snd k) (celems (n_content n))) by (intros k ik; rewrite <- Hku; apply in_map; auto).
    assert (MV : forall k, In k kv -> In (snd k) (celems (n_content n))).
    { intros k ik. apply MU. eapply Permutation_in; [apply Permutation_sym; exact PK | exact ik]. }
    (* the same comparison in both worlds *)
    assert (CE : forall a b, In a (celems (n_content n)) -> In b (celems (n_content n)) -> cmp_p' u4 a b = cmp_p' v4 a b).
    { intros a b ia ib. unfold cmp_p. rewrite NX4. apply cmp_twin; apply TW4; auto. }
    assert (KE : forall x y, In x kv -> In y kv -> kcv x y = kcu x y).
    { intros x y ix iy. unfold kcu, kcv, key_cmp, cmp_total. rewrite (CE (snd x) (snd y)); auto. }
    assert (TPu : TotalPreorderOn kcu (fun k => In k ku)).
    { apply (key_cmp_total_preorder T tab_el tab_at tab_en name_index name_definition_ref u4 ku).
      intros a b ia ib. eapply all_pairs_val_inv; eauto. }
    assert (TPv : TotalPreorderOn kcv (fun k => In k kv)).
    { apply (key_cmp_total_preorder T tab_el tab_at tab_en name_index name_definition_ref v4 kv).
      intros a b ia ib. eapply all_pairs_val_inv; eauto. }
    rewrite (srt_ext_on srt SS kcv kcu kv TPv KE) in Wv1.
    pose proof (sort_order_independent srt srt kcu ku kv SS SS TPu PK) as F2.
    (* position-wise Equal -> position-wise twins, in the final worlds *)
    intros [| f]; [exact I |].
    eexists. eexists. split; [exact Wu1 |]. split; [exact Wv1 |].
    assert (RLu : node_rel T n nu).
    { destruct R4u as (_ & _ & _ & nodes). pose proof (nodes i) as h. rewrite Wu, W4u in h. exact h. }
    assert (RLv : node_rel T n' nv).
    { destruct R4v as (_ & _ & _ & nodes). pose proof (nodes i) as h. rewrite Wv, W4v in h. exact h. }
    destruct RLu as [(_ & enu & etu & eau & _) _]. destruct RLv as [(_ & env & etv & eav & _) _].
    cbn [n_name n_type n_attrs n_content set_content].
    split; [congruence |]. split; [congruence |]. split; [congruence |].
    assert (INu : forall k, In k (srt _ kcu ku) -> In (snd k) (celems (n_content n))).
    { intros k ik. apply MU. apply (ss_in srt SS) in ik. exact ik. }
    assert (INv : forall k, In k (srt _ kcu kv) -> In (snd k) (celems (n_content n))).
    { intros k ik. apply MV. apply (ss_in srt SS) in ik. exact ik. }
    clear Wu1 Wv1. revert INu INv. induction F2 as [| x y l1 l2 exy F2 IHF]; intros INu INv; cbn [map]; constructor.
    + cbn [item_twin].
      assert (ia : In (snd x) (celems (n_content n))) by (apply INu; left; auto).
      assert (ib : In (snd y) (celems (n_content n))) by (apply INv; left; auto).
      destruct (CHu _ ia) as [ua [na Wa]]. destruct (CHu _ ib) as [ub [nb Wb]].
      (* Equal in u4 -> same tree in u4 -> twins u4/u4, then u4/v4 through the second one *)
      unfold kcu, key_cmp in exy. apply cthen_eq in exy as [_ exy].
      assert (VAL : exists c, cmp_p' u4 (snd x) (snd y) = Val c).
      { eapply all_pairs_val_inv; eauto; rewrite Hku; auto. }
      destruct VAL as [c Vc]. unfold cmp_total in exy. rewrite Vc in exy. subst c.
      pose proof (cmp_eq_same T tab_el tab_at tab_en name_index name_definition_ref u4 inj_el inj_at inj_en
                    (U64_rel _ _ R4u UU) _ _ _ Vc) as SM.
      assert (TY : n_type na = n_type nb).
      { pose proof SM as (na' & nb' & Wa' & Wb' & enab & _). rewrite Wa in Wa'. rewrite Wb in Wb'.
        injection Wa' as <-. injection Wb' as <-.
        eapply (TypeDet_rel _ _ R4u TD i i nu nu (snd x) (snd y) na nb); eauto;
          [apply (node_rel_elem_iff n nu); [| apply in_celems; auto] | apply (node_rel_elem_iff n nu); [| apply in_celems; auto]];
          destruct R4u as (_ & _ & _ & nodes); pose proof (nodes i) as h; rewrite Wu, W4u in h; exact h. }
      pose proof (same_twin u4 (TypeDet_rel _ _ R4u TD) _ _ _ na nb SM Wa Wb TY f) as T1.
      pose proof (twin_trans u4 u4 v4 f _ _ _ T1 (TW4 _ ib f)) as T2.
      apply (twin_transfer (reg (snd x)) (reg (snd y)) u4 v4 u1 v1 (rg_closed _ _ Rg4u _) (AFu _ ua)
               (rg_closed _ _ Rg4v _) (AFv _ ub) f _ _ (rg_self _ _ Ru _) (rg_self _ _ Ru _) T2).
    + apply IHF; intros; [apply INu | apply INv]; right; auto.
  - (* both runs only descend: the same list *)
    rewrite <- PEl, Eb in Hv.
    pose proof (iter_loop_frame T _ _ (FR g) _ _ _ Hu) as [_ R4u].
    pose proof (iter_loop_frame T _ _ (FR g) _ _ _ Hv) as [_ R4v].
    pose proof (iter_loop_each g reg _ _ _ _ Ru ndu disu Hu) as Eachu.
    assert (ndv' : NoDup (celems (n_content n))) by exact ndu.
    pose proof (iter_loop_each g reg _ _ _ _ Rv ndu (fun c c' x ic ic' => disu c c' x ic ic') Hv) as Eachv.
    assert (TW : forall c, In c (celems (n_content n)) -> forall f, twin_f u1 v1 f c c).
    { apply (each_twin g reg (celems (n_content n)) u v u1 v1); auto.
      intros c uc vc ic. apply REC. apply in_celems; auto. }
    assert (Wu1 : w_nodes u1 i = Some n).
    { rewrite (proj2 Eachu i); auto. intros c ic. apply (rg_up _ _ Ru i n c Wu). apply in_celems; auto. }
    assert (Wv1 : w_nodes v1 i = Some n').
    { rewrite (proj2 Eachv i); auto. intros c ic. apply (rg_up _ _ Ru i n c Wu). apply in_celems; auto. }
    intros [| f]; [exact I |]. exists n, n'. repeat split; auto. rewrite <- PEl.
    apply forall2_same. intros [c | d] ic; cbn; auto. apply TW. apply in_celems; auto.
Qed.

End Canon.
