(* Tree/NoPanicProofsFloat.v — C12: set_character_data with the float printer as an oracle never panics, whatever
   byte string the printer returns; the oracle version agrees with Tree/Ops.v wherever Ops.v returns a value; the
   no-panic theorem for ALL argument values of all 26 operations (run_opF). *)
From Coq Require Import Lia.
From AV Require Import Base.Bytes Base.Outcome Hash.HashModel Spec.SpecOps Xml.TablesOk Tree.Heap Tree.Ops Tree.Script Tree.Inv.
From AV Require Import Tree.NoPanic Tree.NoPanicProofsBase Tree.NoPanicProofsOps1 Tree.NoPanicProofsClosed Tree.NoPanicProofsOps2.
From AV Require Import Tree.NoPanicProofsOps3 Tree.NoPanicFloat.
Open Scope string_scope.
Open Scope list_scope.
Open Scope N_scope.

Section FloatP.
Variable T : tables.
Variable tab_el tab_en : nametab.
Variable check_fn : N -> list N -> res bool.
Variable LATEST : N.
Variable root_attrs : list (N * cdata).
Hypothesis OK12 : tables_ok12 T = true.
Hypothesis CHECK : forall fn s, exists b, check_fn fn s = Val b.
Collection Env := T tab_el tab_en check_fn LATEST root_attrs OK12 CHECK.
Set Default Proof Using "Env".

Notation ENV f := (f T tab_el tab_en check_fn LATEST root_attrs OK12 CHECK) (only parsing).
Notation TOK := (ok12_tables T OK12) (only parsing).
Notation node_ok := (node_ok T tab_el tab_en).
Notation Closed := (Closed T tab_el tab_en).
Notation PanicFree := (PanicFree T tab_el tab_en).
Notation cdata_ok := (cdata_ok tab_en).
Notation good := (good T tab_el tab_en).

Lemma gq_set_character_dataG c2s w h v0 : PanicFree w -> h < w_next w -> cdata_ok v0 -> (exists s, c2s v0 = Val s) ->
  runsQ (e_set_character_dataG T check_fn LATEST c2s h v0) w (good w (fun _ _ => True)).
Proof.
  intros [C U _] L CV (sconv & ESTR). unfold e_set_character_dataG.
  destruct (ENV get_node_ok w h C L) as (n & EG & EN & NO).
  eapply (ENV good_rd); [exact C|exists (OK n); split; [exact EG|]; intros a [= <-]; exact (eq_refl n)|]. intros a <-.
  pose proof NO as (ET & NM & KIDS & CD & PO).
  destruct (content_mode_ok T OK12 _ ET) as (mode & EM).
  eapply (ENV good_rd); [exact C|apply (rd_wl _ mode w (fun a => a = mode) EM); reflexivity|]. intros a ->.
  match goal with |- context [if negb ?b then _ else _] => destruct b end; cbn [negb]; [|apply (ENV good_fail); exact C].
  destruct (chardata_spec_ok T TOK _ ET) as (spec & ES & _).
  eapply (ENV good_rd); [exact C|apply (rd_wl _ spec w (fun a => a = spec) ES); reflexivity|]. intros a ->.
  destruct spec as [cs|]; [|apply (ENV good_fail); exact C].
  eapply (ENV good_rd); [exact C|apply (ENV model_of_ok w h C U L)|]. intros m Lm.
  eapply (ENV good_rd); [exact C|apply (ENV min_version_ok w h C U L)|]. intros version _.
  destruct (ENV check_value_ok v0 cs version) as (ok0 & EOK).
  eapply (ENV good_rd); [exact C|apply (rd_wl _ ok0 w (fun a => a = ok0) EOK); reflexivity|]. intros a ->.
  eapply (ENV good_rd _ _ w (fun p => cdata_ok (fst p))); [exact C| |].
  { destruct (negb ok0 && match cs with CPattern _ _ | CString _ _ => true | _ => false end); [|apply rd_ret; exact CV].
    eapply rd_bind; [apply (rd_wl _ sconv w (fun a => a = sconv) ESTR); reflexivity|]. intros a ->.
    destruct (ENV check_value_ok (DString sconv) cs version) as (ok1 & EOK1).
    eapply rd_bind; [apply (rd_wl _ ok1 w (fun a => a = ok1) EOK1); reflexivity|]. intros a ->.
    apply rd_ret. exact I. }
  intros [v ok] CVV. cbn [fst] in CVV.
  destruct ok; cbn [negb]; [|apply (ENV good_fail); exact C].
  destruct (ENV character_data_ok w n NO) as (cd0 & ECD).
  eapply (ENV good_rd); [exact C|apply (rd_wl _ cd0 w (fun a => a = cd0) ECD); reflexivity|]. intros a ->.
  eapply (ENV good_rd _ _ w (fun _ => True)); [exact C| |].
  { destruct ((n_name n =? SHORT T) && match cd0 with Some _ => true | None => false end); [|apply rd_ret; exact I].
    unfold parent_of. destruct (n_parent n) as [|pm|pi] eqn:EP.
    - eapply (rd_bind _ _ _ (fun _ => False)); [apply rd_fail|]. intros a [].
    - eapply (rd_bind _ _ _ (fun a => a = None)); [apply rd_ret; reflexivity|]. intros a ->. apply rd_ret. exact I.
    - eapply (rd_bind _ _ _ (fun a => a = Some pi)); [apply rd_ret; reflexivity|]. intros a ->.
      eapply rd_bind; [apply (ENV path_id_ok w pi C U PO)|]. intros pp _.
      eapply rd_bind; [apply (ENV rd_get_node w pi (fun x => node_ok w x) C PO); auto|]. intros pn PNO.
      eapply rd_bind; [apply (ENV rd_item_name w pn (fun _ => True) C PNO); auto|]. intros old _.
      eapply (rd_bind _ _ _ (fun _ => True)); [|intros; apply rd_ret; exact I].
      destruct old as [old_name|]; [|apply rd_ret; exact I].
      destruct v; try (apply rd_ret; exact I).
      destruct (strip_suffix old_name pp); [|apply rd_ret; exact I].
      destruct (negb (bytes_eqb s old_name)); [|apply rd_ret; exact I].
      eapply rd_bind; [apply (ENV get_element_by_path_ok w m _ C Lm)|]. intros ex _.
      destruct ex; [apply rd_fail|apply rd_ret; exact I]. }
  intros prev_path _.
  destruct (is_ref_ok T TOK _ ET) as (isr & EI).
  eapply (ENV good_rd); [exact C|apply (rd_wl _ isr w (fun a => a = isr) EI); reflexivity|]. intros a ->.
  cbv zeta.
  (* the write *)
  eapply (ENV good_bind).
  { eapply (ENV good_set_node w h _ n C EN); [|reflexivity].
    split; [exact ET|]. split; [exact NM|]. cbn [set_content n_content n_parent].
    split; [intros c [[=]|[]]|]. split; [intros d [[= <-]|[]]; exact CVV|exact PO]. }
  intros [] w1 C1 X1 (S1 & N1 & EW1).
  assert (U1 : UpWF w1) by (eapply UpWF_sameP; eauto).
  assert (Lm1 : m < N.of_nat (List.length (w_models w1))) by (eapply ext_models; eauto).
  assert (L1 : h < w_next w1) by lia.
  eapply (ENV good_bind _ _ w1 (fun _ _ => True)).
  { destruct prev_path as [pp|]; [|apply (ENV good_ret); [exact C1|exact I]].
    eapply (ENV good_rd); [exact C1|apply (ENV rd_get_node w1 h (fun x => node_ok w1 x) C1 L1); auto|]. intros n2 NO2.
    unfold parent_of. destruct NO2 as (_ & _ & _ & _ & PO2). destruct (n_parent n2) as [|pm|pi].
    - eapply (ENV good_rd _ _ w1 (fun _ => False)); [exact C1|apply rd_fail|]. intros a [].
    - eapply (ENV good_rd _ _ w1 (fun a => a = None)); [exact C1|apply rd_ret; reflexivity|]. intros a ->.
      apply (ENV good_ret); [exact C1|exact I].
    - eapply (ENV good_rd _ _ w1 (fun a => a = Some pi)); [exact C1|apply rd_ret; reflexivity|]. intros a ->.
      eapply (ENV good_rd); [exact C1|apply (ENV path_id_ok w1 pi C1 U1 PO2)|]. intros np _.
      eapply (ENV good_weaken); [apply (ENV good_fix_identifiables w1 m pp np C1 Lm1)|].
      intros; exact I. }
  intros [] w2 C2 X2 _.
  assert (Lm2 : m < N.of_nat (List.length (w_models w2))) by (eapply ext_models; eauto).
  assert (L2 : h < w_next w2) by (eapply ext_next; eauto).
  destruct isr; [|apply (ENV good_ret); [exact C2|intros; exact I]].
  destruct v; try (apply (ENV good_ret); [exact C2|intros; exact I]).
  destruct (match cd0 with Some (DString s0) => Some s0 | _ => None end).
  - eapply (ENV good_weaken); [apply (ENV good_fix_reference_origins w2 m _ _ h C2 Lm2 L2)|]. intros; exact I.
  - eapply (ENV good_weaken); [apply (ENV good_add_reference_origin w2 m _ h C2 Lm2 L2)|]. intros; exact I.
Qed.

(* the conversion is used in one place: a variant whose conversion agrees with [c1] wherever [c1] returns a value
   computes what the [c1] variant computes, wherever that one returns a value *)
Lemma G_refines c1 c2 h v0 w x : (forall s, c1 v0 = Val s -> c2 v0 = Val s) ->
  e_set_character_dataG T check_fn LATEST c1 h v0 w = Val x -> e_set_character_dataG T check_fn LATEST c2 h v0 w = Val x.
Proof using.
  intros HC H. destruct (c1 v0) as [s1|p1|] eqn:E1.
  - pose proof (HC s1 eq_refl) as E2. unfold e_set_character_dataG in *. rewrite E1 in H. rewrite E2. exact H.
  - unfold e_set_character_dataG in *. rewrite E1 in H. unfold wbind, wl, wlift in *. cbv beta iota in H |- *.
    repeat first
      [ exact H
      | discriminate H
      | match type of H with
        | (match ?X with _ => _ end) = _ => match goal with |- (match X with _ => _ end) = _ => destruct X end
        | (if ?b then _ else _) _ = _ => match goal with |- (if b then _ else _) _ = _ => destruct b end
        | (match ?X with _ => _ end) _ = _ => match goal with |- (match X with _ => _ end) _ = _ => destruct X end
        | (match (if ?b then _ else _) _ with _ => _ end) = _ => destruct b; cbv beta iota in H |- *
        end ].
  - unfold e_set_character_dataG in *. rewrite E1 in H. unfold wbind, wl, wlift in *. cbv beta iota in H |- *.
    repeat first
      [ exact H
      | discriminate H
      | match type of H with
        | (match ?X with _ => _ end) = _ => match goal with |- (match X with _ => _ end) = _ => destruct X end
        | (if ?b then _ else _) _ = _ => match goal with |- (if b then _ else _) _ = _ => destruct b end
        | (match ?X with _ => _ end) _ = _ => match goal with |- (match X with _ => _ end) _ = _ => destruct X end
        | (match (if ?b then _ else _) _ with _ => _ end) = _ => destruct b; cbv beta iota in H |- *
        end ].
Qed.

(* so the oracle version extends Tree/Ops.v's function *)
Lemma setF_extends fmt h v0 w x :
  e_set_character_data T tab_en check_fn LATEST h v0 w = Val x -> e_set_character_dataF T tab_en check_fn LATEST fmt h v0 w = Val x.
Proof using.
  rewrite <- set_cdata_G_ops. apply G_refines. intros s E. destruct v0; cbn [cdata_to_stringF]; try exact E. discriminate E.
Qed.

(* a float argument: the oracle version does what Tree/Ops.v does either for the float itself (the element is not
   string-typed: no conversion happens) or for the printed text (string-typed element: check_value rejects the float,
   the text is validated and stored) — so every step of the oracle version is a step of Ops.v for SOME argument *)
Lemma setF_float fmt h b w x :
  e_set_character_dataF T tab_en check_fn LATEST fmt h (DFloat b) w = Val x ->
  e_set_character_data T tab_en check_fn LATEST h (DFloat b) w = Val x \/
  e_set_character_data T tab_en check_fn LATEST h (DString (fmt b)) w = Val x.
Proof using.
  intros H. rewrite <- !set_cdata_G_ops. unfold e_set_character_dataF, e_set_character_dataG in *.
  unfold wbind, wl, wlift, get_node in *. cbv beta iota in H |- *.
  cbn [cdata_to_stringF cdata_to_string] in H |- *.
  destruct (w_nodes w h) as [n|] eqn:EN; [|discriminate H]. cbv beta iota in H |- *.
  destruct (content_mode T (n_type n)) as [mode| |]; try discriminate H. cbv beta iota in H |- *.
  match type of H with (if ?c then _ else _) _ = _ => destruct c end; [left; exact H|].
  destruct (chardata_spec T (n_type n)) as [[cs|]| |] eqn:ES; try discriminate H; try (left; exact H).
  cbv beta iota in H |- *.
  destruct (model_of h w) as [[[m|e] w1]|p|]; try discriminate H; try (left; exact H). cbv beta iota in H |- *.
  destruct (min_version LATEST h w1) as [[[version|e] w2]|p|]; try discriminate H; try (left; exact H). cbv beta iota in H |- *.
  destruct cs as [items|fn ml|pr ml| |]; cbn [check_value] in H |- *; cbv beta iota in H |- *.
  - left. exact H.
  - right. destruct (opt_le ml (List.length (fmt b))).
    + destruct (check_fn fn (fmt b)) as [[|]| |]; exact H.
    + exact H.
  - right. destruct (opt_le ml (List.length (fmt b))); exact H.
  - left. exact H.
  - left. exact H.
Qed.

(* the oracle conversion is total on discriminant-valued data *)
Lemma cdata_to_stringF_ok fmt v : cdata_ok v -> exists s, cdata_to_stringF tab_en fmt v = Val s.
Proof.
  intros H. destruct v; cbn [cdata_to_stringF cdata_to_string]; eauto.
  cbn in H. destruct (to_str tab_en item); [cbn; eauto|congruence].
Qed.

Lemma np_set_character_dataF fmt w h v0 : PanicFree w -> h < w_next w -> cdata_ok v0 ->
  runs (e_set_character_dataF T tab_en check_fn LATEST fmt h v0) w.
Proof.
  intros PF L CV. eapply (ENV good_runs). unfold e_set_character_dataF.
  apply gq_set_character_dataG; auto. apply cdata_to_stringF_ok. exact CV.
Qed.

End FloatP.
