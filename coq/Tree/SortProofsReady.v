(* Tree/SortProofsReady.v — C14: SpecKids (Tree/SortProofsCore.v) holds in every world that a history of the 26 operations
   reaches from the empty world, for every table set with
     tables_ok T            (Xml/TablesOk.v: no lookup panics, found types are checked types),
     MaskOK T               (Tree/CompatHist1.v: every version mask lies within u32),
     NamesOK / EnumsOK / AttrsOK (element names, enum items of the value specifications and attribute names are inside their
                            string tables)
   and a valid root attribute list.  RE (SortProofsReadyE.v) and RV (SortProofsReadyV.v) are the two halves of the invariant;
   SpecKids follows from them: a listed name is findable under SOME version (RE), the lister's type is a checked type, so the
   lookup under u32::MAX returns a value (find_sub_element_total) which cannot be None (find_max_of_any).
   Hence Element::sort / AutosarModel::sort of any stable sort returns Ok in every reachable world - no world hypothesis. *)
From Coq Require Import PeanoNat Arith Lia.
From AV Require Import Base.Bytes Base.Outcome Hash.HashModel Spec.SpecOps Xml.TablesOk Tree.Heap Tree.Ops Tree.Script Tree.Inv
  Tree.InvProofsBase Tree.InvProofs Tree.Compat Tree.CompatHist1
  Tree.Sort Tree.SortProofsOrder Tree.SortProofsHeap Tree.SortProofsMain Tree.SortProofsCore Tree.SortProofsHist
  Tree.SortProofsReadyE Tree.SortProofsReadyV.
Open Scope string_scope.
Open Scope list_scope.
Open Scope N_scope.

Section Ready.
Variable T : tables.
Variable tab_el tab_at tab_en : nametab.
Variable check_fn : N -> list N -> res bool.
Variable LATEST : N.
Variable root_attrs : list (N * cdata).
Hypothesis HOK : tables_ok T = true.
Hypothesis HM : MaskOK T.
Hypothesis NamesOK : forall i e, i < n_elements T -> T_elements T i = Some e -> to_str tab_el (ed_name e) <> None.
Hypothesis EnumsOK : forall k items it, T_cdata T k = Some (CEnum items) -> In it items -> to_str tab_en (fst it) <> None.
Hypothesis AttrsOK : forall k name cdid req, T_attributes T k = Some (name, cdid, req) -> to_str tab_at name <> None.
Hypothesis RootOK : forall a, In a root_attrs -> to_str tab_at (fst a) <> None /\ cdata_named tab_en (snd a).

Notation RE' := (RE T tab_el).
Notation RV' := (RV tab_at tab_en).
Notation SpecKids' := (SpecKids T tab_el tab_at tab_en).
Notation run := (Inv.run T tab_el tab_en check_fn LATEST root_attrs).
Notation run_ops := (Inv.run_ops T tab_el tab_en check_fn LATEST root_attrs).

Theorem ready_spec_kids w : RE' w -> RV' w -> SpecKids' w.
Proof.
  intros (R1 & R2) V i n Hn. destruct (R1 _ _ Hn) as (Et & Nm). destruct (V _ _ Hn) as (Vc & Va). split.
  - intros c cn Hin Hc. destruct (R2 i n c cn Hn Hin Hc) as (u & et & ixs & Hf).
    destruct (find_sub_element_total T HOK (n_type n) (n_name cn) MAXV Et) as (r & Hr & _).
    pose proof (find_max_of_any T HM _ _ _ _ _ Hf) as NN. change U32MAX with MAXV in NN.
    destruct r as [[et' ix']|]; [eauto|]. contradiction.
  - exact (content_mode_ok T HOK _ Et).
  - destruct Et as (L1 & _). destruct (ok_elem T HOK _ L1) as (e & Ee & _).
    unfold is_ordered, elem. rewrite Ee. cbn. eauto.
  - destruct Et as (_ & L2 & _). destruct (short_name_version_mask_ok T HOK _ L2) as (r & Hr).
    unfold is_named. rewrite Hr. cbn. eauto.
  - exact Nm.
  - exact Vc.
  - exact Va.
Qed.

Theorem ready_step o w r w' : Core w -> RE' w -> RV' w -> run o w = Val (r, w') -> Core w' /\ RE' w' /\ RV' w'.
Proof.
  intros C HE HV H. split; [exact (Core_step T tab_el tab_en check_fn LATEST root_attrs o w r w' C H)|]. split.
  - exact (RE_op T tab_el tab_en check_fn LATEST root_attrs HOK NamesOK o w r w' C HE H).
  - exact (RV_op T tab_el tab_at tab_en check_fn LATEST root_attrs EnumsOK AttrsOK RootOK o w r w' HV H).
Qed.

Theorem ready_histories_from l : forall w w', Core w -> RE' w -> RV' w -> run_ops l w = Val w' -> Core w' /\ RE' w' /\ RV' w'.
Proof.
  induction l as [|o l IH]; intros w w' C HE HV H; cbn [Inv.run_ops] in H.
  - injection H as <-. auto.
  - destruct (run o w) as [[r w1]| |] eqn:E; try discriminate.
    destruct (ready_step o w r w1 C HE HV E) as (C1 & E1 & V1). exact (IH w1 w' C1 E1 V1 H).
Qed.

Theorem spec_kids_step o w r w' : Core w -> RE' w -> RV' w -> run o w = Val (r, w') -> SpecKids' w'.
Proof. intros C HE HV H. destruct (ready_step o w r w' C HE HV H) as (_ & E1 & V1). exact (ready_spec_kids w' E1 V1). Qed.

Theorem spec_kids_histories l w : run_ops l empty_world = Val w -> Core w /\ SpecKids' w.
Proof.
  intros H.
  destruct (ready_histories_from l empty_world w empty_core (empty_RE T tab_el) (empty_RV tab_at tab_en) H) as (C & E1 & V1).
  split; [exact C|exact (ready_spec_kids w E1 V1)].
Qed.

(* ---- every sort returns Ok, in every reachable world ---- *)
Section Sorts.
Variable name_index name_definition_ref : N.
Variable srt : forall A, (A -> A -> comparison) -> list A -> list A.
Hypothesis SS : StableSort srt.
Notation e_sort' := (e_sort_with T tab_el tab_at tab_en name_index name_definition_ref srt).
Notation m_sort' := (m_sort_with T tab_el tab_at tab_en name_index name_definition_ref srt).

Theorem never_fails_histories_tables l w :
  run_ops l empty_world = Val w ->
  (forall i, (exists n, w_nodes w i = Some n) -> exists w', e_sort' i w = Val (OK tt, w') /\ SpecKids' w') /\
  (forall m x, nth_opt (w_models w) (N.to_nat m) = Some x -> exists w', m_sort' m w = Val (OK tt, w') /\ SpecKids' w').
Proof.
  intros H. destruct (spec_kids_histories l w H) as (C & K).
  assert (ES : forall i, (exists n, w_nodes w i = Some n) -> exists w', e_sort' i w = Val (OK tt, w') /\ SpecKids' w').
  { intros i A.
    exact (never_fails_histories T tab_el tab_at tab_en name_index name_definition_ref srt SS check_fn LATEST root_attrs l w H K i A). }
  split; [exact ES|].
  intros m x Hx. unfold m_sort_with, wbind at 1, get_model. rewrite Hx.
  apply ES. rewrite nth_opt_nth_error in Hx.
  assert (Hr : nth_error (roots w) (N.to_nat m) = Some (m_root x)) by (unfold roots; rewrite nth_error_map, Hx; reflexivity).
  destruct (c_roots w C _ _ Hr) as (n & Hn & _). eauto.
Qed.
End Sorts.

End Ready.
