(* Tree/SortProofsOrder.v — order theory for C14, no heap:
   - total preorders given by `comparison`-valued functions, lexicographic combination (Ordering::then)
   - the key comparisons of Element::cmp are total preorders: lex_cmp (str::cmp), N.compare, Option (None < Some),
     name_cmp (item names as the code stands), f64_total_cmp
   - the pre-fix versions are not: name_cmp_v0 is cyclic, the partial_cmp float comparison and the skipped stages are not transitive
   - StableSort: a sorted stable permutation is unique; consequences (idempotence, independence of the previous order)
   - StableSort isort_poly *)
From Coq Require Import Permutation Lia.
From AV Require Import Base.Bytes Base.Outcome Base.Radix Hash.HashModel Tree.Heap Tree.Ops Tree.Sort.
Open Scope list_scope.
Open Scope N_scope.

(* ------------------------------------------------------------------ comparison *)
Lemma cthen_opp a b : CompOpp (cthen a b) = cthen (CompOpp a) (CompOpp b).
Proof. destruct a; reflexivity. Qed.
Lemma cthen_eq a b : cthen a b = Eq <-> a = Eq /\ b = Eq.
Proof. destruct a, b; cbn; intuition discriminate. Qed.
Lemma compopp_eq c : CompOpp c = Eq <-> c = Eq.
Proof. destruct c; cbn; intuition discriminate. Qed.
Lemma compopp_gt c : CompOpp c = Gt <-> c = Lt.
Proof. destruct c; cbn; intuition discriminate. Qed.
Lemma compopp_lt c : CompOpp c = Lt <-> c = Gt.
Proof. destruct c; cbn; intuition discriminate. Qed.

(* a total preorder everywhere *)
Record TPO {A} (c : A -> A -> comparison) : Prop := {
  o_refl : forall x, c x x = Eq;
  o_swap : forall x y, c y x = CompOpp (c x y);
  o_trans : forall x y z, c x y <> Gt -> c y z <> Gt -> c x z <> Gt
}.

Lemma TPO_on {A} (c : A -> A -> comparison) P : TPO c -> TotalPreorderOn c P.
Proof. intros [r s t]. split; intros; auto. eapply t; eauto. Qed.

(* consequences of the three laws on a domain *)
Section OnFacts.
Context {A : Type} (c : A -> A -> comparison) (P : A -> Prop) (H : TotalPreorderOn c P).

Lemma on_eq_sym x y : P x -> P y -> c x y = Eq -> c y x = Eq.
Proof. intros px py e. rewrite (tp_swap _ _ H x y px py), e. reflexivity. Qed.

Lemma on_lt_gt x y : P x -> P y -> c x y = Lt -> c y x = Gt.
Proof. intros px py e. rewrite (tp_swap _ _ H x y px py), e. reflexivity. Qed.

Lemma on_gt_lt x y : P x -> P y -> c x y = Gt -> c y x = Lt.
Proof. intros px py e. rewrite (tp_swap _ _ H x y px py), e. reflexivity. Qed.

Lemma on_eq_trans x y z : P x -> P y -> P z -> c x y = Eq -> c y z = Eq -> c x z = Eq.
Proof.
  intros px py pz e1 e2.
  assert (n1 : c x z <> Gt) by (eapply (tp_trans _ _ H x y z); auto; congruence).
  assert (n2 : c z x <> Gt).
  { eapply (tp_trans _ _ H z y x); auto; rewrite on_eq_sym; auto; congruence. }
  destruct (c x z) eqn:E; auto; try congruence.
  exfalso. apply n2. apply on_lt_gt; auto.
Qed.

(* x <= y, y equivalent z  ->  c x z = c x y ;  and on the left *)
Lemma on_eq_right x y z : P x -> P y -> P z -> c y z = Eq -> c x z = c x y.
Proof.
  intros px py pz e.
  destruct (c x y) eqn:E1.
  - apply (on_eq_trans x y z); auto.
  - assert (n : c x z <> Gt) by (eapply (tp_trans _ _ H x y z); auto; congruence).
    destruct (c x z) eqn:E2; auto; try congruence.
    exfalso. assert (c x y = Eq); [| congruence].
    apply (on_eq_trans x z y); auto. apply on_eq_sym; auto.
  - destruct (c x z) eqn:E2; auto; exfalso.
    + assert (c x y = Eq); [| congruence]. apply (on_eq_trans x z y); auto. apply on_eq_sym; auto.
    + assert (n : c x y <> Gt); [| congruence].
      eapply (tp_trans _ _ H x z y); auto; try congruence. rewrite on_eq_sym; auto; congruence.
Qed.

Lemma on_eq_left x y z : P x -> P y -> P z -> c x y = Eq -> c x z = c y z.
Proof.
  intros px py pz e.
  rewrite (tp_swap _ _ H z x pz px), (tp_swap _ _ H z y pz py). f_equal.
  symmetry. apply on_eq_right; auto.
Qed.
End OnFacts.

(* ------------------------------------------------------------------ building blocks *)
Lemma TPO_Ncompare : TPO N.compare.
Proof.
  split; intros.
  - apply N.compare_refl.
  - apply N.compare_antisym.
  - rewrite N.compare_gt_iff in *. lia.
Qed.

Lemma lex_cmp_refl a : lex_cmp a a = Eq.
Proof. induction a as [| x a IH]; cbn; auto. rewrite N.compare_refl. exact IH. Qed.

Lemma lex_cmp_swap a : forall b, lex_cmp b a = CompOpp (lex_cmp a b).
Proof.
  induction a as [| x a IH]; intros [| y b]; cbn; auto.
  rewrite (N.compare_antisym x y). destruct (x ?= y); cbn; auto.
Qed.

Lemma lex_cmp_eq a : forall b, lex_cmp a b = Eq -> a = b.
Proof.
  induction a as [| x a IH]; intros [| y b]; cbn; auto; try discriminate.
  destruct (x ?= y) eqn:E; try discriminate. intros e. apply N.compare_eq in E. f_equal; auto.
Qed.

Lemma lex_cmp_trans a : forall b c, lex_cmp a b <> Gt -> lex_cmp b c <> Gt -> lex_cmp a c <> Gt.
Proof.
  induction a as [| x a IH]; intros [| y b] [| z c]; cbn; auto; try congruence.
  destruct (x ?= y) eqn:E1; destruct (y ?= z) eqn:E2; try congruence.
  - apply N.compare_eq in E1, E2. subst. rewrite N.compare_refl. apply IH.
  - apply N.compare_eq in E1. subst. rewrite E2. congruence.
  - apply N.compare_eq in E2. subst. rewrite E1. congruence.
  - rewrite N.compare_lt_iff in *. assert (x < z) by lia. rewrite <- N.compare_lt_iff in H. rewrite H. congruence.
Qed.

Lemma TPO_lex : TPO lex_cmp.
Proof. split; intros; [apply lex_cmp_refl | apply lex_cmp_swap | eapply lex_cmp_trans; eauto]. Qed.

(* Ordering::then of two total preorders; also for comparisons of images (keys) *)
Lemma TPO_then {A} (c1 c2 : A -> A -> comparison) :
  TPO c1 -> TPO c2 -> TPO (fun x y => cthen (c1 x y) (c2 x y)).
Proof.
  intros H1 H2. split; intros.
  - rewrite (o_refl _ H1), (o_refl _ H2). reflexivity.
  - rewrite (o_swap _ H1 x y), (o_swap _ H2 x y). symmetry. apply cthen_opp.
  - pose proof (TPO_on c1 (fun _ => True) H1) as O1.
    destruct (c1 x y) eqn:E1; cbn in H; try congruence.
    + rewrite (on_eq_left c1 _ O1 x y z I I I E1).
      destruct (c1 y z) eqn:E2; cbn in *; try congruence. eapply (o_trans _ H2); eauto.
    + destruct (c1 y z) eqn:E2; cbn in *; try congruence.
      * rewrite (on_eq_right c1 _ O1 x y z I I I E2), E1. cbn. congruence.
      * assert (n : c1 x z <> Gt) by (eapply (o_trans _ H1 x y z); congruence).
        destruct (c1 x z) eqn:E3; cbn; try congruence. exfalso.
        (* x ~ z, x < y, y < z : then z ~ x < y gives z < y, contradiction with y < z *)
        assert (c1 z y = Lt).
        { rewrite <- (on_eq_left c1 _ O1 x z y I I I E3). exact E1. }
        rewrite (o_swap _ H1 y z), E2 in H3. discriminate.
Qed.

Lemma TPO_map {A B} (f : A -> B) (c : B -> B -> comparison) : TPO c -> TPO (fun x y => c (f x) (f y)).
Proof. intros [r s t]. split; intros; auto. eapply t; eauto. Qed.

Lemma TPO_opt {K} (kc : K -> K -> comparison) : TPO kc -> TPO (opt_cmp kc).
Proof.
  intros [r s t]. split.
  - intros [x |]; cbn; auto.
  - intros [x |] [y |]; cbn; auto.
  - intros [x |] [y |] [z |]; cbn; try congruence. apply t.
Qed.

(* the item-name comparison of the code as it stands is a total preorder, and Equal only for equal names *)
Lemma name_cmp_unfold n1 n2 :
  name_cmp n1 n2 = cthen (lex_cmp (fst (name_key n1)) (fst (name_key n2)))
                         (cthen (opt_cmp N.compare (snd (name_key n1)) (snd (name_key n2))) (lex_cmp n1 n2)).
Proof. unfold name_cmp. destruct (name_key n1), (name_key n2). reflexivity. Qed.

Lemma TPO_name_cmp : TPO name_cmp.
Proof.
  assert (E : forall n1 n2, name_cmp n1 n2 =
            (fun x y => cthen (lex_cmp (fst (name_key x)) (fst (name_key y)))
                          ((fun x y => cthen (opt_cmp N.compare (snd (name_key x)) (snd (name_key y))) (lex_cmp x y)) x y)) n1 n2)
    by (intros; apply name_cmp_unfold).
  pose proof (TPO_then _ _ (TPO_map (fun x => fst (name_key x)) _ TPO_lex)
               (TPO_then _ _ (TPO_map (fun x => snd (name_key x)) _ (TPO_opt _ TPO_Ncompare)) TPO_lex)) as T.
  destruct T as [r s t]. split; intros.
  - rewrite E. apply r.
  - rewrite !E. apply s.
  - rewrite E in *. eapply t; eauto.
Qed.

Lemma name_cmp_eq n1 n2 : name_cmp n1 n2 = Eq -> n1 = n2.
Proof. rewrite name_cmp_unfold. intros e. apply cthen_eq in e as [_ e]. apply cthen_eq in e as [_ e]. apply lex_cmp_eq; auto. Qed.

(* f64::total_cmp on bit patterns below 2^64 *)
Lemma TPO_f64_total : TPO f64_total_cmp.
Proof. unfold f64_total_cmp. apply (TPO_map f64_total_key). apply TPO_Ncompare. Qed.

Lemma f64_mag_hi b : P63 <= b -> b < 2 * P63 -> f64_mag b = b - P63.
Proof.
  intros h1 h2. unfold f64_mag. symmetry. apply N.mod_unique with (q := 1); unfold P63 in *; lia.
Qed.

Lemma f64_total_key_inj a b : a < 2 * P63 -> b < 2 * P63 -> f64_total_key a = f64_total_key b -> a = b.
Proof.
  unfold f64_total_key. intros ha hb.
  destruct (a <? P63) eqn:Ea; destruct (b <? P63) eqn:Eb;
    rewrite ?N.ltb_lt, ?N.ltb_ge in *.
  - lia.
  - rewrite (f64_mag_hi b) by auto. unfold P63 in *. lia.
  - rewrite (f64_mag_hi a) by auto. unfold P63 in *. lia.
  - rewrite (f64_mag_hi a), (f64_mag_hi b) by auto. unfold P63 in *. lia.
Qed.

Lemma f64_total_cmp_eq a b : a < 2 * P63 -> b < 2 * P63 -> f64_total_cmp a b = Eq -> a = b.
Proof. intros ha hb e. apply N.compare_eq in e. apply f64_total_key_inj; auto. Qed.

(* ------------------------------------------------------------------ the defects before the fixes (pure parts) *)
Lemma name_cmp_v0_cyclic :
  exists a b c, name_cmp_v0 a b = Lt /\ name_cmp_v0 b c = Lt /\ name_cmp_v0 c a = Lt.
Proof. exists (BS "a2"), (BS "a10"), (BS "a1b"). vm_compute. repeat split. Qed.

Lemma float_v0_not_transitive :
  exists a b c, p_float policy_v0 a b = Eq /\ p_float policy_v0 b c = Eq /\ p_float policy_v0 a c = Gt.
Proof. exists 4611686018427387904, 9221120237041090560, 4607182418800017408. vm_compute. repeat split. Qed.

Lemma float_v0_equal_but_different :
  p_float policy_v0 0 P63 = Eq /\ 0 <> P63.
Proof. split; [vm_compute; reflexivity | discriminate]. Qed.

(* ------------------------------------------------------------------ sorted stable permutations are unique *)
Section Unique.
Context {A : Type} (c : A -> A -> comparison).

Lemma sorted_by_cons_inv x l : sorted_by c (x :: l) -> (forall y, In y l -> c x y <> Gt) /\ sorted_by c l.
Proof. cbn. tauto. Qed.

Lemma filter_eqv_head_self P x l :
  TotalPreorderOn c P -> P x -> filter (eqv c x) (x :: l) = x :: filter (eqv c x) l.
Proof. intros H px. cbn. unfold eqv at 1. rewrite (tp_refl _ _ H x px). reflexivity. Qed.

(* two sorted lists with the same equivalence-class subsequences are equal *)
Lemma sorted_stable_unique P :
  TotalPreorderOn c P ->
  forall l1 l2, Forall P l1 -> Forall P l2 -> Permutation l1 l2 ->
    sorted_by c l1 -> sorted_by c l2 ->
    (forall x, P x -> filter (eqv c x) l1 = filter (eqv c x) l2) ->
    l1 = l2.
Proof.
  intros H l1. induction l1 as [| h1 t1 IH]; intros l2 F1 F2 Pm S1 S2 St.
  - apply Permutation_nil in Pm. auto.
  - destruct l2 as [| h2 t2]; [apply Permutation_sym, Permutation_nil in Pm; discriminate |].
    inversion F1 as [| ? ? ph1 F1']; inversion F2 as [| ? ? ph2 F2']; subst.
    destruct S1 as [m1 S1]. destruct S2 as [m2 S2].
    (* h1 and h2 are both minimal, hence equivalent *)
    assert (e12 : c h1 h2 = Eq).
    { assert (a : c h1 h2 <> Gt).
      { assert (i : In h2 (h1 :: t1)) by (eapply Permutation_in; [apply Permutation_sym; eauto | left; auto]).
        destruct i as [-> | i]; [rewrite (tp_refl _ _ H); auto; discriminate | auto]. }
      assert (b : c h2 h1 <> Gt).
      { assert (i : In h1 (h2 :: t2)) by (eapply Permutation_in; [eauto | left; auto]).
        destruct i as [-> | i]; [rewrite (tp_refl _ _ H); auto; discriminate | auto]. }
      destruct (c h1 h2) eqn:E; auto; try congruence.
      exfalso. apply b. apply (on_lt_gt c P H); auto. }
    (* the class of h1 starts with h1 in l1 and with h2 in l2 *)
    pose proof (St h1 ph1) as s. rewrite (filter_eqv_head_self P h1 t1 H ph1) in s.
    cbn [filter] in s. unfold eqv at 2 in s. rewrite e12 in s.
    injection s as hh st. subst h2.
    f_equal. apply IH; auto.
    + eapply Permutation_cons_inv; eauto.
    + intros x px. pose proof (St x px) as sx. cbn [filter] in sx. destruct (eqv c x h1); [injection sx; auto | auto].
Qed.
End Unique.

(* the membership predicate of a list is invariant under permutation *)
Lemma TPOn_perm {A} (c : A -> A -> comparison) l l' :
  Permutation l l' -> TotalPreorderOn c (fun x => In x l) -> TotalPreorderOn c (fun x => In x l').
Proof.
  intros Pm [r s t]. assert (i : forall x, In x l' -> In x l) by (intros; eapply Permutation_in; [apply Permutation_sym|]; eauto).
  split.
  - intros x ix. apply r, i, ix.
  - intros x y ix iy. apply s; apply i; assumption.
  - intros x y z ix iy iz. apply t; apply i; assumption.
Qed.

Lemma sorted_filter_self {A} (c : A -> A -> comparison) l x : filter (eqv c x) l = filter (eqv c x) l.
Proof. reflexivity. Qed.

Section StableFacts.
Context (srt : forall A, (A -> A -> comparison) -> list A -> list A) (SS : StableSort srt).
Context {A : Type} (c : A -> A -> comparison).

Lemma ss_perm l : Permutation l (srt A c l).
Proof. apply SS. Qed.

Lemma ss_in l x : In x (srt A c l) <-> In x l.
Proof.
  split; intros i.
  - eapply Permutation_in; [apply Permutation_sym, ss_perm | exact i].
  - eapply Permutation_in; [apply ss_perm | exact i].
Qed.

Lemma ss_sorted l : TotalPreorderOn c (fun x => In x l) -> sorted_by c (srt A c l).
Proof. intros H. apply (proj2 (SS A c l) H). Qed.

Lemma ss_stable l x : TotalPreorderOn c (fun x => In x l) -> In x l -> filter (eqv c x) (srt A c l) = filter (eqv c x) l.
Proof. intros H. apply (proj2 (SS A c l) H). Qed.

(* sorting a sorted list changes nothing *)
Lemma ss_fix l : TotalPreorderOn c (fun x => In x l) -> sorted_by c l -> srt A c l = l.
Proof.
  intros H S. apply (sorted_stable_unique c (fun x => In x l) H).
  - apply Forall_forall. intros x. apply ss_in.
  - apply Forall_forall. auto.
  - apply Permutation_sym, ss_perm.
  - apply ss_sorted; auto.
  - exact S.
  - intros x ix. apply ss_stable; auto.
Qed.

Lemma ss_idempotent l : TotalPreorderOn c (fun x => In x l) -> srt A c (srt A c l) = srt A c l.
Proof.
  intros H. apply ss_fix.
  - eapply TPOn_perm; [apply ss_perm | exact H].
  - apply ss_sorted; auto.
Qed.
End StableFacts.

(* any two stable sorts agree *)
Lemma stable_sorts_agree srt1 srt2 {A} (c : A -> A -> comparison) l :
  StableSort srt1 -> StableSort srt2 -> TotalPreorderOn c (fun x => In x l) -> srt1 A c l = srt2 A c l.
Proof.
  intros S1 S2 H. apply (sorted_stable_unique c (fun x => In x l) H).
  - apply Forall_forall. intros x. apply (ss_in srt1 S1).
  - apply Forall_forall. intros x. apply (ss_in srt2 S2).
  - eapply Permutation_trans; [apply Permutation_sym, (ss_perm srt1 S1) | apply (ss_perm srt2 S2)].
  - apply (ss_sorted srt1 S1); auto.
  - apply (ss_sorted srt2 S2); auto.
  - intros x ix. rewrite (ss_stable srt1 S1), (ss_stable srt2 S2); auto.
Qed.

(* ------------------------------------------------------------------ independence of the previous order *)
Section Independence.
Context {A : Type} (c : A -> A -> comparison).

Fixpoint count_eqv (x : A) (l : list A) : nat :=
  match l with [] => O | y :: r => (if eqv c x y then 1 else 0) + count_eqv x r end%nat.

Lemma count_eqv_perm x l l' : Permutation l l' -> count_eqv x l = count_eqv x l'.
Proof. induction 1; cbn; try lia. Qed.

Lemma count_eqv_pos x l : (0 < count_eqv x l)%nat -> exists y, In y l /\ c x y = Eq.
Proof.
  induction l as [| y r IH]; cbn; [lia |].
  unfold eqv at 1. destruct (c x y) eqn:E; cbn; intros h.
  - exists y. auto.
  - destruct (IH h) as (z & i & e). exists z. auto.
  - destruct (IH h) as (z & i & e). exists z. auto.
Qed.

(* two sorted lists over the same classes (with multiplicity) are position-wise equivalent *)
Lemma sorted_same_classes P :
  TotalPreorderOn c P ->
  forall l1 l2, Forall P l1 -> Forall P l2 -> List.length l1 = List.length l2 ->
    sorted_by c l1 -> sorted_by c l2 ->
    (forall x, P x -> count_eqv x l1 = count_eqv x l2) ->
    Forall2 (fun x y => c x y = Eq) l1 l2.
Proof.
  intros H l1. induction l1 as [| h1 t1 IH]; intros [| h2 t2] F1 F2 L S1 S2 C; try discriminate; [constructor |].
  inversion F1 as [| ? ? ph1 F1']; inversion F2 as [| ? ? ph2 F2']; subst.
  destruct S1 as [m1 S1]. destruct S2 as [m2 S2].
  assert (e12 : c h1 h2 = Eq).
  { assert (a : c h1 h2 <> Gt).
    { (* some member of l1 is equivalent to h2; h1 is below it *)
      pose proof (C h2 ph2) as k. cbn in k. unfold eqv at 2 in k. rewrite (tp_refl _ _ H h2 ph2) in k.
      assert (p : (0 < (if eqv c h2 h1 then 1 else 0) + count_eqv h2 t1)%nat) by lia.
      change (0 < count_eqv h2 (h1 :: t1))%nat in p. apply count_eqv_pos in p as (y & iy & ey).
      assert (py : P y) by (rewrite Forall_forall in F1; auto).
      rewrite (on_eq_right c P H h1 y h2 ph1 py ph2); [| apply (on_eq_sym c P H); auto].
      destruct iy as [<- | iy]; [rewrite (tp_refl _ _ H); auto; discriminate | auto]. }
    assert (b : c h2 h1 <> Gt).
    { pose proof (C h1 ph1) as k. cbn in k. unfold eqv at 1 in k. rewrite (tp_refl _ _ H h1 ph1) in k.
      assert (p : (0 < (if eqv c h1 h2 then 1 else 0) + count_eqv h1 t2)%nat) by lia.
      change (0 < count_eqv h1 (h2 :: t2))%nat in p. apply count_eqv_pos in p as (y & iy & ey).
      assert (py : P y) by (rewrite Forall_forall in F2; auto).
      rewrite (on_eq_right c P H h2 y h1 ph2 py ph1); [| apply (on_eq_sym c P H); auto].
      destruct iy as [<- | iy]; [rewrite (tp_refl _ _ H); auto; discriminate | auto]. }
    destruct (c h1 h2) eqn:E; auto; try congruence. exfalso. apply b. apply (on_lt_gt c P H); auto. }
  constructor; auto. apply IH; auto.
  intros x px. pose proof (C x px) as k. cbn in k.
  assert (eqv c x h1 = eqv c x h2) by (unfold eqv; rewrite (on_eq_right c P H x h1 h2 px ph1 ph2 e12); reflexivity).
  rewrite H0 in k. lia.
Qed.
End Independence.

Theorem sort_order_independent srt1 srt2 {A} (c : A -> A -> comparison) l l' :
  StableSort srt1 -> StableSort srt2 -> TotalPreorderOn c (fun x => In x l) -> Permutation l l' ->
  Forall2 (fun x y => c x y = Eq) (srt1 A c l) (srt2 A c l').
Proof.
  intros S1 S2 H Pm.
  pose proof (TPOn_perm c l l' Pm H) as H'.
  apply (sorted_same_classes c (fun x => In x l) H).
  - apply Forall_forall. intros x. apply (ss_in srt1 S1).
  - apply Forall_forall. intros x ix. apply (ss_in srt2 S2) in ix. eapply Permutation_in; [apply Permutation_sym|]; eauto.
  - rewrite <- (Permutation_length (ss_perm srt1 S1 c l)), <- (Permutation_length (ss_perm srt2 S2 c l')).
    apply Permutation_length; auto.
  - apply (ss_sorted srt1 S1); auto.
  - apply (ss_sorted srt2 S2); auto.
  - intros x ix. rewrite <- (count_eqv_perm c x _ _ (ss_perm srt1 S1 c l)), <- (count_eqv_perm c x _ _ (ss_perm srt2 S2 c l')).
    apply count_eqv_perm; auto.
Qed.

(* when Equal holds only between identical members the result does not depend on the previous order at all *)
Theorem sort_order_independent_strict srt1 srt2 {A} (c : A -> A -> comparison) l l' :
  StableSort srt1 -> StableSort srt2 -> TotalPreorderOn c (fun x => In x l) -> Permutation l l' ->
  (forall x y, In x l -> In y l -> c x y = Eq -> x = y) ->
  srt1 A c l = srt2 A c l'.
Proof.
  intros S1 S2 H Pm I.
  pose proof (sort_order_independent srt1 srt2 c l l' S1 S2 H Pm) as F.
  assert (i1 : forall x, In x (srt1 A c l) -> In x l) by (intros x; apply (ss_in srt1 S1)).
  assert (i2 : forall x, In x (srt2 A c l') -> In x l).
  { intros x ix. apply (ss_in srt2 S2) in ix. eapply Permutation_in; [apply Permutation_sym|]; eauto. }
  revert i1 i2. induction F as [| x y t1 t2 e F IH]; intros i1 i2; auto.
  f_equal.
  - apply I; auto; [apply i1 | apply i2]; left; auto.
  - apply IH; intros; [apply i1 | apply i2]; right; auto.
Qed.

(* ------------------------------------------------------------------ the insertion sort that runs is a stable sort *)
Section ISort.
Context {A : Type} (c : A -> A -> comparison).

Lemma ins_left_perm x racc : Permutation (x :: racc) (ins_left c x racc).
Proof.
  induction racc as [| y r IH]; cbn; auto.
  destruct (c x y); auto.
  eapply Permutation_trans; [apply perm_swap | apply perm_skip; auto].
Qed.

Lemma fold_ins_perm l : forall racc, Permutation (rev racc ++ l) (rev (fold_left (fun r x => ins_left c x r) l racc)).
Proof.
  induction l as [| x l IH]; intros racc; cbn.
  - rewrite app_nil_r. auto.
  - eapply Permutation_trans; [| apply IH].
    apply Permutation_trans with (rev (x :: racc) ++ l).
    + cbn. rewrite <- app_assoc. cbn. auto.
    + apply Permutation_app_tail. apply Permutation_rev' . apply ins_left_perm.
Qed.

Lemma isort_perm l : Permutation l (isort c l).
Proof. unfold isort. apply (fold_ins_perm l []). Qed.

(* racc is sorted DESCENDING: every later member is not Greater than an earlier one *)
Fixpoint desc (l : list A) : Prop :=
  match l with [] => True | x :: r => (forall y, In y r -> c y x <> Gt) /\ desc r end.

Lemma sorted_app_one l x : sorted_by c l -> (forall y, In y l -> c y x <> Gt) -> sorted_by c (l ++ [x]).
Proof.
  induction l as [| z l IH]; cbn; intros S m.
  - split; [intros y [] | exact I].
  - destruct S as [mz S]. split.
    + intros y iy. apply in_app_or in iy as [iy | [<- | []]]; auto.
    + apply IH; auto.
Qed.

Lemma desc_rev_sorted l : desc l -> sorted_by c (rev l).
Proof.
  induction l as [| x r IH]; cbn; auto. intros [m d].
  apply sorted_app_one; auto. intros y iy. apply m. apply in_rev. exact iy.
Qed.

Variable P : A -> Prop.
Hypothesis H : TotalPreorderOn c P.

Lemma ins_left_desc x racc : P x -> Forall P racc -> desc racc -> desc (ins_left c x racc).
Proof.
  intros px. induction racc as [| y r IH]; intros F d; cbn.
  - split; [intros y [] | exact I].
  - inversion F as [| ? ? py F']; subst. destruct d as [m d].
    destruct (c x y) eqn:E.
    + split; [| split; assumption]. intros z [e | iz]; [subst z; rewrite (on_eq_sym c P H x y); auto; discriminate |].
      assert (pz : P z) by (rewrite Forall_forall in F'; auto).
      eapply (tp_trans _ _ H z y x); auto. rewrite (on_eq_sym c P H x y); auto. discriminate.
    + split; [| apply IH; auto].
      intros z iz. eapply Permutation_in in iz; [| apply Permutation_sym, ins_left_perm].
      destruct iz as [<- | iz]; auto. rewrite E. discriminate.
    + split; [| split; assumption]. intros z [e | iz]; [subst z; rewrite (on_gt_lt c P H x y); auto; discriminate |].
      assert (pz : P z) by (rewrite Forall_forall in F'; auto).
      eapply (tp_trans _ _ H z y x); auto. rewrite (on_gt_lt c P H x y); auto. discriminate.
Qed.

Lemma ins_left_P x racc : P x -> Forall P racc -> Forall P (ins_left c x racc).
Proof.
  intros px F. apply Forall_forall. intros z iz.
  eapply Permutation_in in iz; [| apply Permutation_sym, ins_left_perm].
  destruct iz as [<- | iz]; auto. rewrite Forall_forall in F. auto.
Qed.

Lemma fold_ins_desc l : forall racc, Forall P l -> Forall P racc -> desc racc ->
  desc (fold_left (fun r x => ins_left c x r) l racc).
Proof.
  induction l as [| x l IH]; intros racc Fl Fr d; cbn; auto.
  inversion Fl; subst. apply IH; auto; [apply ins_left_P | apply ins_left_desc]; auto.
Qed.

(* stability: for x equivalent to the inserted element or not, the class of z keeps its order.
   On the reversed accumulator: the inserted element goes BEFORE (i.e. later in the final order than) its equivalents *)
Lemma ins_left_filter x racc z : P x -> P z -> Forall P racc -> desc racc ->
  filter (eqv c z) (ins_left c x racc) = filter (eqv c z) (x :: racc).
Proof.
  intros px pz. induction racc as [| y r IH]; intros F d; cbn [ins_left]; auto.
  inversion F as [| ? ? py F']; subst. destruct d as [m d].
  destruct (c x y) eqn:E; auto.
  (* x < y : x moves past y; z cannot be equivalent to both *)
  cbn [filter]. rewrite IH; auto. cbn [filter].
  destruct (eqv c z y) eqn:Ey; destruct (eqv c z x) eqn:Ex; auto.
  exfalso. unfold eqv in *. destruct (c z y) eqn:E1; try discriminate. destruct (c z x) eqn:E2; try discriminate.
  assert (c x y = Eq); [| congruence].
  eapply (on_eq_trans c P H x z y); auto. apply (on_eq_sym c P H); auto.
Qed.

Lemma filter_rev' (f : A -> bool) l : filter f (rev l) = rev (filter f l).
Proof.
  induction l as [| y r IH]; cbn; auto.
  rewrite filter_app, IH. cbn. destruct (f y); cbn; auto. rewrite app_nil_r. reflexivity.
Qed.

Lemma fold_ins_filter l z : forall racc, P z -> Forall P l -> Forall P racc -> desc racc ->
  filter (eqv c z) (rev (fold_left (fun r x => ins_left c x r) l racc)) = filter (eqv c z) (rev racc ++ l).
Proof.
  induction l as [| x l IH]; intros racc pz Fl Fr d; cbn [fold_left].
  - rewrite app_nil_r. reflexivity.
  - inversion Fl; subst. rewrite IH; auto; [| apply ins_left_P; auto | apply ins_left_desc; auto].
    rewrite !filter_app. rewrite !filter_rev'. rewrite ins_left_filter; auto.
    cbn [filter]. destruct (eqv c z x); cbn [rev]; auto.
    rewrite <- app_assoc. reflexivity.
Qed.
End ISort.

Theorem StableSort_isort : StableSort isort_poly.
Proof.
  intros A c l. split; [apply isort_perm |].
  intros H. assert (F : Forall (fun x => In x l) l) by (apply Forall_forall; auto).
  split.
  - unfold isort_poly, isort. apply desc_rev_sorted.
    apply (fold_ins_desc c (fun x => In x l) H l []); auto. cbn. auto.
  - intros x ix. unfold isort_poly, isort.
    rewrite (fold_ins_filter c (fun x => In x l) H l x []); auto. cbn. auto.
Qed.
