(* Tree/FailProofsOps.v — C11 proofs, layer 1: the operations whose every error exit precedes the first mutation
   (or that never return an error at all): for each of them `nf` resp. `nofail`, for every table set and every world. *)
From AV Require Import Base.Bytes Base.Outcome Hash.HashModel Tree.Heap Tree.Ops Tree.Script
  Tree.FailProofsBase.
Open Scope string_scope.
Open Scope list_scope.
Open Scope N_scope.

(* induction over an anonymous list loop `(fix each l := ...) l0` left over by nofail_tac *)
Ltac nofail_loop :=
  match goal with
  | |- nofail (_ ?l) => induction l as [|[?c|?d] ?rest ?IHr]; nofail_tac; auto
  | |- nofail (_ ?l) => induction l as [|?d ?rest ?IHr]; nofail_tac; auto
  end.

Section Ops.
Variable T : tables.
Variable tab_el tab_en : nametab.
Variable check_fn : N -> list N -> res bool.
Variable LATEST : N.
Variable root_attrs : list (N * cdata).

(* ---------- create (unnamed) *)
Lemma nf_e_create_sub_element h name : nf (e_create_sub_element T LATEST h name).
Proof. unfold e_create_sub_element. nf_tac. Qed.
Lemma nf_e_create_sub_element_at h name pos : nf (e_create_sub_element_at T LATEST h name pos).
Proof. unfold e_create_sub_element_at. nf_tac. Qed.
Lemma nf_e_get_or_create_sub_element h name : nf (e_get_or_create_sub_element T LATEST h name).
Proof. unfold e_get_or_create_sub_element. nf_tac. Qed.

(* ---------- remove *)
Lemma nofail_remove_internal f : forall i m path, nofail (remove_internal T f i m path).
Proof.
  induction f as [|f IH]; intros i m path; cbn [remove_internal]; nofail_tac.
  all: try nofail_loop.
Qed.
Hint Resolve nofail_remove_internal : nofail.
Lemma nf_raw_remove_sub_element self sub m : nf (raw_remove_sub_element T self sub m).
Proof. unfold raw_remove_sub_element. nf_tac. Qed.
Hint Resolve nf_raw_remove_sub_element : nf.
Lemma nf_e_remove_sub_element h sub : nf (e_remove_sub_element T h sub).
Proof. unfold e_remove_sub_element. nf_tac. Qed.
Hint Resolve nf_e_remove_sub_element : nf.
Lemma nf_e_remove_sub_element_kind h name : nf (e_remove_sub_element_kind T h name).
Proof. unfold e_remove_sub_element_kind. nf_tac. Qed.

(* ---------- rename: the only fallible step after the checks is the write of the SHORT-NAME text, which itself
   fails before writing; re-keying the index and rewriting the referrers cannot fail *)
Lemma nf_e_set_item_name h nm : nf (e_set_item_name T check_fn LATEST h nm).
Proof.
  unfold e_set_item_name. nf_tac.
  apply nf_bind_nofail; [apply nf_raw_set_character_data|intros _].
  apply nofail_bind; [auto with nofail|intros _].
  apply nofail_bind; [auto with nofail|intros x].
  generalize (map fst (m_origins x)). intros keys. induction keys as [|k r IH]; [nofail_tac|].
  apply nofail_bind; [|intros _; exact IH].
  nofail_tac.
  all: try nofail_loop.
Qed.

(* ---------- values, attributes, comment *)
Lemma nf_e_set_attribute h a v : nf (e_set_attribute T check_fn LATEST h a v).
Proof. unfold e_set_attribute. nf_tac. Qed.
Lemma nofail_e_remove_attribute h a : nofail (e_remove_attribute T h a).
Proof. unfold e_remove_attribute. nofail_tac. Qed.
Lemma nofail_e_set_comment h c : nofail (e_set_comment h c).
Proof. unfold e_set_comment. nofail_tac. Qed.
Lemma nf_e_remove_character_data h : nf (e_remove_character_data T h).
Proof. unfold e_remove_character_data. nf_tac. Qed.
Lemma nf_e_insert_character_content_item h t p : nf (e_insert_character_content_item T h t p).
Proof. unfold e_insert_character_content_item. nf_tac. Qed.
Lemma nf_e_remove_character_content_item h p : nf (e_remove_character_content_item T h p).
Proof. unfold e_remove_character_content_item. nf_tac. Qed.

(* ---------- models and files *)
Lemma nofail_new_model : nofail (new_model T root_attrs).
Proof.
  intros w e w'. unfold new_model.
  destruct (et_new T (autosar_element T)), (elem T (autosar_element T)); intros [=].
Qed.
Lemma nf_m_create_file m name v : nf (m_create_file T m name v).
Proof. unfold m_create_file. nf_tac. Qed.
Lemma nofail_set_file_membership e fm : nofail (set_file_membership T e fm).
Proof. unfold set_file_membership. nofail_tac. Qed.
Hint Resolve nofail_set_file_membership : nofail.
Lemma nofail_m_remove_file m f : nofail (m_remove_file T m f).
Proof. unfold m_remove_file. nofail_tac. all: try nofail_loop. Qed.

(* remove_from_file: `parent_of n` after the checks cannot fail because parent_splittable has just evaluated it *)
Lemma nf_e_remove_from_file e f : nf (e_remove_from_file T e f).
Proof.
  unfold e_remove_from_file. apply nf_bind_ro; [ro_tac|intros a].
  destruct (n_parent a) eqn:Ep; unfold parent_splittable, parent_of; rewrite Ep.
  - apply nf_of_ro. ro_tac.
  - nf_tac. all: apply nf_of_nofail; nofail_tac. all: try nofail_loop.
  - nf_tac. all: apply nf_of_nofail; nofail_tac. all: try nofail_loop.
Qed.

End Ops.

#[export] Hint Resolve nofail_remove_internal nofail_set_file_membership : nofail.
#[export] Hint Resolve nf_raw_remove_sub_element nf_e_remove_sub_element : nf.
