(* Tree/IndexProofsOp2Load.v — C04/C05 over op2, the load_buffer step: the first file of the only, still empty model of a world. *)
From Coq Require Import Lia.
From AV Require Import Base.Bytes Base.Outcome Hash.HashModel Spec.SpecOps Tree.Heap Tree.Ops Tree.Script Tree.Script2
  Tree.IndexProofsW Tree.Index Tree.Refs Tree.RefsAll Tree.IndexProofsNodeInv Tree.IndexProofsAll Tree.SortProofsNames Tree.Inv
  Tree.IndexProofsOp2 Tree.Load Tree.FollowL Tree.InvLoad Tree.InvProofsLoadLive Tree.FollowProofsLoadMain Tree.IndexProofsLoad.
From AV Require Xml.Parser Xml.TablesOk Xml.LoadRecordsRegular.
Open Scope string_scope.
Open Scope list_scope.
Open Scope N_scope.

Section Op2Load.
Variable T : tables.
Variable tab_el tab_at tab_en : nametab.
Variable check_fn : N -> list N -> res bool.
Variable float_parse : list N -> option N.
Variable float_fmt : N -> list N.
Variable LATEST name_index name_definition_ref attr_schema_location : N.
Variable root_attrs : list (N * cdata).
Hypothesis TK : TablesOK T check_fn.
Hypothesis RootTy : forall ty, et_new T (autosar_element T) = Val ty -> plainty T ty.
Hypothesis MO : MaskOk T.

Notation Inv04 := (Inv04 T check_fn).
Notation run2 := (run_op2 T tab_el tab_at tab_en check_fn float_parse float_fmt LATEST name_index name_definition_ref
                          attr_schema_location root_attrs).
Notation RX := (RX T).
Notation steps_ok2a := (steps_ok2a T tab_el tab_at tab_en check_fn float_parse float_fmt LATEST name_index name_definition_ref
                                   attr_schema_location root_attrs).
Notation run_hist2 := (run_hist2 T tab_el tab_at tab_en check_fn float_parse float_fmt LATEST name_index name_definition_ref
                                 attr_schema_location root_attrs).

(* ---------- load_buffer: the first file of the only, still empty model of a world (AutosarModel::new(); load_buffer(..)).
   Pending45_4: every other load - a load into a model that already has files (merging loads leave DEAD entries in the referrer
   map: exact Inv05 is false there, agent-c06's Inv05D of Tree/FollowL.v tolerates them) or into a world with several models.
   After a first load the world has the stale root of AutosarModel::new (TreeFactsL, not TreeFacts), so the load is the LAST step
   of the histories covered here. *)
Definition first_load_b (w : world) (m : N) : bool :=
  (m =? 0) && match w_models w with
              | [x] => is_empty (m_files x) && is_empty (m_idents x) && is_empty (m_origins x)
              | _ => false
              end.
Definition Pending45_4 (w : world) (o : op2) : bool :=
  match o with OpLoad m _ _ _ => negb (first_load_b w m) | _ => false end.

Theorem C45_inv2_load w m buffer filename strict f ws w' :
  TablesOk.tables_ok T = true -> LoadRecordsRegular.sn_charsb T = true -> LoadRecordsRegular.ref_charsb T = true ->
  RealInvL T w -> Pending45_4 w (OpLoad m buffer filename strict) = false ->
  run2 (OpLoad m buffer filename strict) w = Val (OK (VLoad f ws), w') ->
  DocSide T check_fn w' ->
  TreeFactsL w' /\ Inv04 w' /\ Inv05S T w'.
Proof.
  intros HOK SC RC I HP H HD. cbn [Pending45_4] in HP. apply Bool.negb_false_iff in HP. unfold first_load_b in HP.
  apply andb_prop in HP as (Hm & HP). apply N.eqb_eq in Hm. subst m.
  destruct (w_models w) as [|x [|y l]] eqn:Hms; try discriminate HP.
  apply andb_prop in HP as (HP & H3). apply andb_prop in HP as (H1 & H2).
  assert (E1 : m_files x = []) by (destruct (m_files x); [reflexivity|discriminate H1]).
  assert (E2 : m_idents x = []) by (destruct (m_idents x); [reflexivity|discriminate H2]).
  assert (E3 : m_origins x = []) by (destruct (m_origins x); [reflexivity|discriminate H3]).
  cbn [run_op2] in H. apply wbind_inv in H as [((f0 & ws0) & w1 & E & H)|(e & E & [=])].
  apply wret_inv in H as (Q & Ew). injection Q as Q1 Q2. subst f0 ws0 w1.
  eapply (C45_load_first T tab_el tab_at tab_en check_fn float_parse LATEST name_definition_ref buffer filename strict w x f ws w'); eauto.
  intros ty. exact (tk_ref _ _ TK ty).
Qed.

(* a history without loads, then the first load *)
Theorem C45_history2_then_load l w0 w m buffer filename strict f ws w' :
  Inv04 w0 -> Inv05 T w0 -> RX w0 -> steps_ok2a l w0 -> run_hist2 l w0 = Val w ->
  TablesOk.tables_ok T = true -> LoadRecordsRegular.sn_charsb T = true -> LoadRecordsRegular.ref_charsb T = true ->
  RealInvL T w -> Pending45_4 w (OpLoad m buffer filename strict) = false ->
  run2 (OpLoad m buffer filename strict) w = Val (OK (VLoad f ws), w') ->
  DocSide T check_fn w' ->
  (Inv04 w /\ Inv05 T w /\ RX w) /\ TreeFactsL w' /\ Inv04 w' /\ Inv05S T w'.
Proof.
  intros H4 H5 HX Hok Hr HOK SC RC I HP H HD.
  split; [eapply (C45_history2 T tab_el tab_at tab_en check_fn float_parse float_fmt LATEST name_index name_definition_ref attr_schema_location root_attrs TK RootTy MO); eauto|].
  eapply C45_inv2_load; eauto.
Qed.

End Op2Load.
