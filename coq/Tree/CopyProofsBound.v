(* Tree/CopyProofsBound.v — C13: LinkBound ("no dangling ids", Tree/CopyProofsTwo.v) is an invariant.
   The calculus of Tree/CopyProofsIrp.v is used with the region "everything at or beyond the bounds of the FINAL world"
   (node ids >= w_next w', model numbers >= |models w'|, file ids >= |files w'|): Sealed for this region says that every
   stored id is below those bounds.
     op2_wf w o       : the handles, model numbers and file ids the operation addresses exist in w.
     LinkBound_step2  : every operation of op2 except OpLoad (pending) and except a FAILING duplicate keeps LinkBound.
     failed duplicate : the model drops the half-built copy (model record and files) but its nodes stay allocated; the
                        copy's root keeps its parent link `PModel c` with c = the dropped model number: a dangling id
                        (in the library the nodes are freed with the model).  Class: dup_failed. *)
From AV Require Import Base.Bytes Base.Outcome Hash.HashModel Tree.Heap Tree.Ops Tree.Script Tree.Inv
  Tree.Sort Tree.Copy Tree.Load Tree.Compat Tree.Serialize Tree.Script2
  Tree.CopyProofsW Tree.CopyProofsDefs Tree.CopyProofsIrp Tree.CopyProofsIrpLib Tree.CopyProofsGrow Tree.CopyProofsIrpOps
  Tree.CopyProofsIndep Tree.CopyProofsIndep2 Tree.CopyProofsTwo.
From Coq Require Import Lia PeanoNat.
Open Scope string_scope.
Open Scope list_scope.
Open Scope N_scope.

Notation lenM w := (N.of_nat (List.length (w_models w))).
Notation lenF w := (N.of_nat (List.length (w_files w))).

Definition op2_wf (w : world) (o : op2) : Prop :=
  (forall i, In i (op2_handles o) -> i < w_next w) /\ (forall m, In m (op2_models o) -> m < lenM w) /\
  (forall f, In f (op2_files o) -> f < lenF w).

Section Bound.
Variables L LM LF : N.
Definition BP (i : id) : Prop := L <= i.
Definition BM (m : N) : Prop := LM <= m.
Definition BF (f : N) : Prop := LF <= f.

Lemma SealedL_of_LinkBound w :
  LinkBound w -> w_next w <= L -> lenM w <= LM -> lenF w <= LF -> SealedL BP BM BF L LM LF w.
Proof.
  intros (L1 & L2 & L3) HL HM HF. unfold BP, BM, BF. split; [intros i Hi; right; exact Hi|].
  split; [|split; [|split; [intros m Hm; right; exact Hm|split; [intros f Hf; right; exact Hf|]]]].
  - intros i n _ Hn. destruct (L1 i n Hn) as (_ & Lc & Lp & Lm). split; [|split].
    + intros c Hc. pose proof (Lc c Hc). lia.
    + intros p Hp. pose proof (Lp p Hp). lia.
    + intros m Hm. pose proof (Lm m Hm). lia.
  - intros m x _ Hx. destruct (L2 m x Hx) as (Lr & Li & Lo). split; [lia|]. split.
    + intros p j Hin. pose proof (Li p j Hin). lia.
    + intros p l j Hin Hj. pose proof (Lo p l j Hin Hj). lia.
  - intros f fl _ Hfl. pose proof (L3 f fl Hfl). lia.
Qed.

Lemma LinkBound_of_SealedL w w' :
  LinkBound w -> w_next w <= L -> Same BP BM BF w w' -> SealedL BP BM BF L LM LF w' ->
  L = w_next w' -> LM = lenM w' -> LF = lenF w' -> LinkBound w'.
Proof.
  intros (L1 & _ & _) HL (Sn & _ & _ & _) (S1 & S2 & S3 & S4 & S5 & S6) EL EM EF. unfold BP, BM, BF in *.
  assert (Hst : forall i n, w_nodes w' i = Some n -> i < L).
  { intros i n Hn. destruct (N.lt_ge_cases i L) as [H|H]; [exact H|]. rewrite (Sn i H) in Hn.
    pose proof (proj1 (L1 i n Hn)). lia. }
  split; [|split].
  - intros i n Hn. pose proof (Hst i n Hn) as Hi. destruct (S2 i n ltac:(lia) Hn) as (Gc & Gp & Gm).
    split; [lia|]. split; [|split].
    + intros c Hc. pose proof (Gc c Hc). lia.
    + intros p Hp. pose proof (Gp p Hp). lia.
    + intros m Hm. pose proof (Gm m Hm). lia.
  - intros m x Hx. assert (Hm : m < LM). { rewrite EM. apply lt_len. eauto. }
    destruct (S3 m x ltac:(lia) Hx) as (Gr & Gi & Go). split; [lia|]. split.
    + intros p j Hin. pose proof (Gi p j Hin). lia.
    + intros p l j Hin Hj. pose proof (Go p l j Hin Hj). lia.
  - intros f fl Hfl. assert (Hf : f < LF). { rewrite EF. apply lt_len. eauto. }
    pose proof (S6 f fl ltac:(lia) Hfl). lia.
Qed.
End Bound.

Section Step.
Variable T : tables.
Variable tab_el tab_at tab_en : nametab.
Variable check_fn : N -> list N -> res bool.
Variable float_parse : list N -> option N.
Variable float_fmt : N -> list N.
Variable LATEST name_index name_definition_ref attr_schema_location : N.
Variable root_attrs : list (N * cdata).

Notation run2 := (run_op2 T tab_el tab_at tab_en check_fn float_parse float_fmt LATEST name_index name_definition_ref
                          attr_schema_location root_attrs).
Notation run_ops2 := (run_ops2 T tab_el tab_at tab_en check_fn float_parse float_fmt LATEST name_index name_definition_ref
                          attr_schema_location root_attrs).

(* the class that breaks LinkBound: duplicate() returns an error *)
Definition dup_failed (w : world) (o : op2) : Prop :=
  match o with
  | OpDuplicate m => exists e w', m_duplicate T tab_el tab_en check_fn LATEST root_attrs m w = Val (ER e, w')
  | _ => False
  end.

Lemma apart_of_wf w o L LM LF :
  op2_wf w o -> w_next w <= L -> lenM w <= LM -> lenF w <= LF -> op2_apart (BP L) (BM LM) (BF LF) o.
Proof.
  intros (H1 & H2 & H3) HL HM HF. unfold BP, BM, BF. split; [|split].
  - intros i Hi. pose proof (H1 i Hi). lia.
  - intros m Hm. pose proof (H2 m Hm). lia.
  - intros f Hf. pose proof (H3 f Hf). lia.
Qed.

Theorem LinkBound_step2 o w r w' :
  pending_indep2 o = false -> LinkBound w -> op2_wf w o -> ~ dup_failed w o ->
  run2 o w = Val (r, w') -> LinkBound w'.
Proof.
  intros Hp LB WF ND E.
  destruct (grows_run_op2 T tab_el tab_at tab_en check_fn float_parse float_fmt LATEST name_index name_definition_ref
              attr_schema_location root_attrs o Hp _ _ _ E) as (G1 & G2 & G3).
  set (L := w_next w'). set (LM := lenM w'). set (LF := lenF w').
  assert (HS : SealedL (BP L) (BM LM) (BF LF) L LM LF w) by (apply SealedL_of_LinkBound; [exact LB|unfold L; lia|unfold LM; lia|unfold LF; lia]).
  assert (Ha : op2_apart (BP L) (BM LM) (BF LF) o) by (eapply apart_of_wf; [exact WF|unfold L; lia|unfold LM; lia|unfold LF; lia]).
  assert (B : Bnd L LM LF w') by (unfold Bnd, L, LM, LF; repeat split; lia).
  assert (K : SealedL (BP L) (BM LM) (BF LF) L LM LF w' /\ Same (BP L) (BM LM) (BF LF) w w').
  { destruct (is_dup o) eqn:Hd.
    - destruct o; try discriminate Hd. cbn [run_op2] in E.
      apply wbind_inv in E as [(c & w1 & E1 & E2) | (e & E1 & _)].
      + apply wret_inv in E2 as (_ & ->). unfold m_duplicate in E1.
        destruct (m_duplicate_body T LATEST root_attrs m w) as [[[c0|e] w2]| |] eqn:Eb; try discriminate E1.
        injection E1 as _ <-.
        destruct (irpq_duplicate_body T LATEST root_attrs (BP L) (BM LM) (BF LF) L LM LF m _ _ _ HS Eb B) as (S' & Sm & _). auto.
      + exfalso. apply ND. cbn [dup_failed]. eauto.
    - destruct (irp_run_op2L T tab_el tab_at tab_en check_fn float_parse float_fmt LATEST name_index name_definition_ref
                  attr_schema_location root_attrs (BP L) (BM LM) (BF LF) L LM LF o Hp Hd Ha _ _ _ HS E B) as (S' & Sm & _). auto. }
  destruct K as (S' & Sm). eapply (LinkBound_of_SealedL L LM LF w w'); eauto; unfold L; lia.
Qed.

(* histories: every step addresses existing things, is not the pending load and is not a failing duplicate *)
Fixpoint lb_ok (l : list op2) (w : world) : Prop :=
  match l with
  | [] => True
  | o :: rest =>
    pending_indep2 o = false /\ op2_wf w o /\ ~ dup_failed w o /\
    match run2 o w with Val (_, w') => lb_ok rest w' | _ => True end
  end.

Theorem LinkBound_histories2 l : forall w w', LinkBound w -> lb_ok l w -> run_ops2 l w = Val w' -> LinkBound w'.
Proof.
  induction l as [|o l IH]; intros w w' LB Hok H; cbn [CopyProofsIndep2.run_ops2] in H.
  - injection H as <-. exact LB.
  - destruct Hok as (Hp & WF & ND & Hrest). destruct (run2 o w) as [[r w1]| |] eqn:E; try discriminate H.
    eapply IH; [eapply LinkBound_step2; eauto|exact Hrest|exact H].
Qed.

Theorem LinkBound_reachable l w' : lb_ok l empty_world -> run_ops2 l empty_world = Val w' -> LinkBound w'.
Proof. intros Hok H. eapply LinkBound_histories2; [apply LinkBound_empty|exact Hok|exact H]. Qed.

End Step.
