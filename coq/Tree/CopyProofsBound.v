(* Tree/CopyProofsBound.v — C13: LinkBound ("no dangling ids", Tree/CopyProofsTwo.v) is an invariant.
   The calculus of Tree/CopyProofsIrp.v is used with the region "everything at or beyond the bounds of the FINAL world"
   (node ids >= w_next w', model numbers >= |models w'|, file ids >= |files w'|): Sealed for this region says that every
   stored id is below those bounds.
     op2_wf w o       : the handles, model numbers and file ids the operation addresses exist in w.
     LinkBound_step2  : every operation of op2 except OpLoad (pending) and except a FAILING duplicate keeps LinkBound.
     failed duplicate : the model drops the half-built copy (model record and files) but its nodes stay allocated; the
                        copy's root keeps its parent link `PModel c` with c = the dropped model number: a dangling id
                        (in the library the nodes are freed with the model).  Class: dup_failed. *)
From AV Require Import Base.Bytes Base.Outcome Hash.HashModel Tree.Heap Tree.Ops Tree.Script Tree.Inv
  Tree.Sort Tree.Copy Tree.Load Tree.Compat Tree.Serialize Tree.Script2
  Tree.CopyProofsW Tree.CopyProofsDefs Tree.CopyProofsIrp Tree.CopyProofsIrpLib Tree.CopyProofsGrow Tree.CopyProofsIrpOps
  Tree.CopyProofsIndep Tree.CopyProofsIndep2 Tree.CopyProofsTwo.
From AV Require Spec.SpecOps Tree.CopyProofsTiny.
From Coq Require Import Lia PeanoNat.
Open Scope string_scope.
Open Scope list_scope.
Open Scope N_scope.

Notation lenM w := (N.of_nat (List.length (w_models w))).
Notation lenF w := (N.of_nat (List.length (w_files w))).

Definition op2_wf (w : world) (o : op2) : Prop :=
  (forall i, In i (op2_handles o) -> i < w_next w) /\ (forall m, In m (op2_models o) -> m < lenM w) /\
  (forall f, In f (op2_files o) -> f < lenF w).

Section Bound.
Variables L LM LF : N.
Definition BP (i : id) : Prop := L <= i.
Definition BM (m : N) : Prop := LM <= m.
Definition BF (f : N) : Prop := LF <= f.

Lemma SealedL_of_LinkBound w :
  LinkBound w -> w_next w <= L -> lenM w <= LM -> lenF w <= LF -> SealedL BP BM BF L LM LF w.
Proof.
  intros (L1 & L2 & L3) HL HM HF. unfold BP, BM, BF. split; [intros i Hi; right; exact Hi|].
  split; [|split; [|split; [intros m Hm; right; exact Hm|split; [intros f Hf; right; exact Hf|]]]].
  - intros i n _ Hn. destruct (L1 i n Hn) as (_ & Lc & Lp & Lm). split; [|split].
    + intros c Hc. pose proof (Lc c Hc). lia.
    + intros p Hp. pose proof (Lp p Hp). lia.
    + intros m Hm. pose proof (Lm m Hm). lia.
  - intros m x _ Hx. destruct (L2 m x Hx) as (Lr & Li & Lo). split; [lia|]. split.
    + intros p j Hin. pose proof (Li p j Hin). lia.
    + intros p l j Hin Hj. pose proof (Lo p l j Hin Hj). lia.
  - intros f fl _ Hfl. pose proof (L3 f fl Hfl). lia.
Qed.

Lemma LinkBound_of_SealedL w w' :
  LinkBound w -> w_next w <= L -> Same BP BM BF w w' -> SealedL BP BM BF L LM LF w' ->
  L = w_next w' -> LM = lenM w' -> LF = lenF w' -> LinkBound w'.
Proof.
  intros (L1 & _ & _) HL (Sn & _ & _ & _) (S1 & S2 & S3 & S4 & S5 & S6) EL EM EF. unfold BP, BM, BF in *.
  assert (Hst : forall i n, w_nodes w' i = Some n -> i < L).
  { intros i n Hn. destruct (N.lt_ge_cases i L) as [H|H]; [exact H|]. rewrite (Sn i H) in Hn.
    pose proof (proj1 (L1 i n Hn)). lia. }
  split; [|split].
  - intros i n Hn. pose proof (Hst i n Hn) as Hi. destruct (S2 i n ltac:(lia) Hn) as (Gc & Gp & Gm).
    split; [lia|]. split; [|split].
    + intros c Hc. pose proof (Gc c Hc). lia.
    + intros p Hp. pose proof (Gp p Hp). lia.
    + intros m Hm. pose proof (Gm m Hm). lia.
  - intros m x Hx. assert (Hm : m < LM). { rewrite EM. apply lt_len. eauto. }
    destruct (S3 m x ltac:(lia) Hx) as (Gr & Gi & Go). split; [lia|]. split.
    + intros p j Hin. pose proof (Gi p j Hin). lia.
    + intros p l j Hin Hj. pose proof (Go p l j Hin Hj). lia.
  - intros f fl Hfl. assert (Hf : f < LF). { rewrite EF. apply lt_len. eauto. }
    pose proof (S6 f fl ltac:(lia) Hfl). lia.
Qed.
End Bound.

Section Step.
Variable T : tables.
Variable tab_el tab_at tab_en : nametab.
Variable check_fn : N -> list N -> res bool.
Variable float_parse : list N -> option N.
Variable float_fmt : N -> list N.
Variable LATEST name_index name_definition_ref attr_schema_location : N.
Variable root_attrs : list (N * cdata).

Notation run2 := (run_op2 T tab_el tab_at tab_en check_fn float_parse float_fmt LATEST name_index name_definition_ref
                          attr_schema_location root_attrs).
Notation run_ops2 := (run_ops2 T tab_el tab_at tab_en check_fn float_parse float_fmt LATEST name_index name_definition_ref
                          attr_schema_location root_attrs).

(* the class that breaks LinkBound: duplicate() returns an error *)
Definition dup_failed (w : world) (o : op2) : Prop :=
  match o with
  | OpDuplicate m => exists e w', m_duplicate T tab_el tab_en check_fn LATEST root_attrs m w = Val (ER e, w')
  | _ => False
  end.

Lemma apart_of_wf w o L LM LF :
  op2_wf w o -> w_next w <= L -> lenM w <= LM -> lenF w <= LF -> op2_apart (BP L) (BM LM) (BF LF) o.
Proof.
  intros (H1 & H2 & H3) HL HM HF. unfold BP, BM, BF. split; [|split].
  - intros i Hi. pose proof (H1 i Hi). lia.
  - intros m Hm. pose proof (H2 m Hm). lia.
  - intros f Hf. pose proof (H3 f Hf). lia.
Qed.

Theorem LinkBound_step2 o w r w' :
  pending_indep2 o = false -> LinkBound w -> op2_wf w o -> ~ dup_failed w o ->
  run2 o w = Val (r, w') -> LinkBound w'.
Proof.
  intros Hp LB WF ND E.
  destruct (grows_run_op2 T tab_el tab_at tab_en check_fn float_parse float_fmt LATEST name_index name_definition_ref
              attr_schema_location root_attrs o Hp _ _ _ E) as (G1 & G2 & G3).
  set (L := w_next w'). set (LM := lenM w'). set (LF := lenF w').
  assert (HS : SealedL (BP L) (BM LM) (BF LF) L LM LF w) by (apply SealedL_of_LinkBound; [exact LB|unfold L; lia|unfold LM; lia|unfold LF; lia]).
  assert (Ha : op2_apart (BP L) (BM LM) (BF LF) o) by (eapply apart_of_wf; [exact WF|unfold L; lia|unfold LM; lia|unfold LF; lia]).
  assert (B : Bnd L LM LF w') by (unfold Bnd, L, LM, LF; repeat split; lia).
  assert (K : SealedL (BP L) (BM LM) (BF LF) L LM LF w' /\ Same (BP L) (BM LM) (BF LF) w w').
  { destruct (is_dup o) eqn:Hd.
    - destruct o; try discriminate Hd. cbn [run_op2] in E.
      apply wbind_inv in E as [(c & w1 & E1 & E2) | (e & E1 & _)].
      + apply wret_inv in E2 as (_ & ->). unfold m_duplicate in E1.
        destruct (m_duplicate_body T LATEST root_attrs m w) as [[[c0|e] w2]| |] eqn:Eb; try discriminate E1.
        injection E1 as _ <-.
        destruct (irpq_duplicate_body T LATEST root_attrs (BP L) (BM LM) (BF LF) L LM LF m _ _ _ HS Eb B) as (S' & Sm & _). auto.
      + exfalso. apply ND. cbn [dup_failed]. eauto.
    - destruct (irp_run_op2L T tab_el tab_at tab_en check_fn float_parse float_fmt LATEST name_index name_definition_ref
                  attr_schema_location root_attrs (BP L) (BM LM) (BF LF) L LM LF o Hp Hd Ha _ _ _ HS E B) as (S' & Sm & _). auto. }
  destruct K as (S' & Sm). eapply (LinkBound_of_SealedL L LM LF w w'); eauto; unfold L; lia.
Qed.

(* histories: every step addresses existing things, is not the pending load and is not a failing duplicate *)
Fixpoint lb_ok (l : list op2) (w : world) : Prop :=
  match l with
  | [] => True
  | o :: rest =>
    pending_indep2 o = false /\ op2_wf w o /\ ~ dup_failed w o /\
    match run2 o w with Val (_, w') => lb_ok rest w' | _ => True end
  end.

Theorem LinkBound_histories2 l : forall w w', LinkBound w -> lb_ok l w -> run_ops2 l w = Val w' -> LinkBound w'.
Proof.
  induction l as [|o l IH]; intros w w' LB Hok H; cbn [CopyProofsIndep2.run_ops2] in H.
  - injection H as <-. exact LB.
  - destruct Hok as (Hp & WF & ND & Hrest). destruct (run2 o w) as [[r w1]| |] eqn:E; try discriminate H.
    eapply IH; [eapply LinkBound_step2; eauto|exact Hrest|exact H].
Qed.

Theorem LinkBound_reachable l w' : lb_ok l empty_world -> run_ops2 l empty_world = Val w' -> LinkBound w'.
Proof. intros Hok H. eapply LinkBound_histories2; [apply LinkBound_empty|exact Hok|exact H]. Qed.

(* ------------------------------------------------------------------ the two-sided theorems without the state hypothesis *)
(* what is assumed of a tagged history: every operation works on one side, addresses existing things, is not the pending
   load and not a failing duplicate *)
Fixpoint two_wf (l : list (side * op2)) (s : sides) (w : world) : Prop :=
  match l with
  | [] => True
  | (d, o) :: rest =>
    apart_other d s o /\ op2_wf w o /\ ~ dup_failed w o /\
    match run2 o w with
    | Val (_, w') => two_wf rest (step_sides d s w w') w'
    | _ => True
    end
  end.

Lemma two_wf_ok l : forall s w, LinkBound w -> two_wf l s w ->
  two_ok T tab_el tab_at tab_en check_fn float_parse float_fmt LATEST name_index name_definition_ref attr_schema_location
         root_attrs l s w.
Proof.
  induction l as [|[d o] l IH]; intros s w LB H; cbn [two_wf two_ok] in *; [exact I|].
  destruct H as (Ha & WF & ND & Hrest). split; [exact Ha|].
  destruct (run2 o w) as [[r w']| |] eqn:E; try exact I.
  assert (LB' : LinkBound w') by (eapply LinkBound_step2; eauto; exact (proj1 Ha)).
  split; [exact LB'|]. apply IH; assumption.
Qed.

Theorem two_sided_wf l s w :
  Two s w -> LinkBound w -> two_wf l s w ->
  two_indep T tab_el tab_at tab_en check_fn float_parse float_fmt LATEST name_index name_definition_ref attr_schema_location
            root_attrs l s w.
Proof. intros HT LB H. apply two_sided; [exact HT|exact LB|apply two_wf_ok; assumption]. Qed.

(* from the empty world: any history l0 (no load, no failing duplicate), then a successful duplicate, then any history of
   one-sided operations: duplicate leaves everything that existed alone, and every later step leaves the side it does
   not work on alone *)
Theorem duplicate_then_independent_histories l0 m l w0 r w1 :
  lb_ok l0 empty_world -> run_ops2 l0 empty_world = Val w0 ->
  run2 (OpDuplicate m) w0 = Val (r, w1) -> ~ dup_failed w0 (OpDuplicate m) ->
  two_wf l (after_dup w0 w1) w1 ->
  Same (fun i => i < w_next w0) (fun k => k < lenM w0) (fun f => f < lenF w0) w0 w1 /\
  Two (after_dup w0 w1) w1 /\
  two_indep T tab_el tab_at tab_en check_fn float_parse float_fmt LATEST name_index name_definition_ref attr_schema_location
            root_attrs l (after_dup w0 w1) w1.
Proof.
  intros Hok0 H0 E ND Hwf.
  assert (LB0 : LinkBound w0) by (eapply LinkBound_reachable; eauto).
  assert (LB1 : LinkBound w1).
  { eapply (LinkBound_step2 (OpDuplicate m)); eauto. split; [intros i []|split; [intros k []|intros f []]]. }
  destruct (duplicate_then_independent T tab_el tab_at tab_en check_fn float_parse float_fmt LATEST name_index name_definition_ref
              attr_schema_location root_attrs m l w0 r w1 LB0 E LB1) as (Sm & HT & Hl).
  split; [exact Sm|]. split; [exact HT|]. apply Hl. apply two_wf_ok; assumption.
Qed.

End Step.

(* ------------------------------------------------------------------ the class dup_failed is not empty and does break
   LinkBound: a tiny table set in which the only sub-element of the root exists in version 2 only; a model with that
   sub-element whose only remaining file has version 1: duplicate() fails (the root's sub-element cannot be created in
   the copy), the model drops the copy's record and file, and the copy's root node (id 2) stays behind with the parent
   link PModel 1 although only model 0 exists *)
Module TinyFail.
Import SpecOps CopyProofsTiny.Tiny13.
Definition tiny2 : tables :=
  Build_tables (T_elements tiny) (n_elements tiny) (T_subelements tiny) (n_subelements tiny) (T_attributes tiny) (n_attributes tiny)
    (fun i => if i =? 0 then Some 2 else T_version_info tiny i) (n_version_info tiny)
    (T_datatypes tiny) (n_datatypes tiny) (T_ref_items tiny) (n_ref_items tiny) (T_cdata tiny) (n_cdata tiny)
    (reference_type_idx tiny) (autosar_element tiny) (name_short_name tiny) (attr_dest tiny).
Definition run2 := run_op tiny2 el el check_fn LATEST [].
Definition dup2 := m_duplicate tiny2 el el check_fn LATEST [].
Fixpoint run_script2 (ops : list op) (w : world) : res world :=
  match ops with
  | [] => Val w
  | o :: r => match run2 o w with Val (_, w') => run_script2 r w' | Pan s => Pan s | Fuel => Fuel end
  end.
Definition script : list op :=
  [OpNewModel; OpCreateFile 0 (BS "f") 2; OpCreateSub 0 nPKGS; OpCreateFile 0 (BS "g") 1; OpRemoveFile 0 0].
Definition w_x : world := unval empty_world (run_script2 script empty_world).
Definition w_x' : world := after (dup2 0 w_x).

Lemma failed_duplicate_dangles :
  run_script2 script empty_world = Val w_x /\
  (exists e, dup2 0 w_x = Val (ER e, w_x')) /\
  (exists n, w_nodes w_x' 2 = Some n /\ n_parent n = PModel 1) /\
  List.length (w_models w_x') = 1%nat /\
  ~ LinkBound w_x'.
Proof.
  assert (H1 : run_script2 script empty_world = Val w_x) by (vm_compute; reflexivity).
  assert (H2 : exists e, dup2 0 w_x = Val (ER e, w_x')) by (eexists; vm_compute; reflexivity).
  assert (H3 : exists n, w_nodes w_x' 2 = Some n /\ n_parent n = PModel 1) by (eexists; split; vm_compute; reflexivity).
  assert (H4 : List.length (w_models w_x') = 1%nat) by (vm_compute; reflexivity).
  split; [exact H1|]. split; [exact H2|]. split; [exact H3|]. split; [exact H4|].
  intros (L1 & _). destruct H3 as (n & Hn & Hp). destruct (L1 2 n Hn) as (_ & _ & _ & Lm).
  specialize (Lm 1 Hp). rewrite H4 in Lm. lia.
Qed.
End TinyFail.
