(* Tree/Range.v — C07, SPECIFICATION side: what "the sub-elements are in specification order" means, stated over the
   specification tables only (Spec/SpecOps.v lookups), independently of the loop in elementraw.rs
   (calc_element_insert_range / Tree/Ops.v range_loop); and what the LOADER checks about a child list
   (parser.rs check_element_conflict + check_multiplicity).        DEFINITIONS + Examples only.

   A child list is abstracted to [list (option N)]: [Some name] = a sub-element with that ElementName,
   [None] = a character data item.  Every sub-element name resolves, for the parent type [ty] and the file version [v],
   to an index path (find_sub_element): the positions, from the parent's own group downwards through nested groups, of
   the entry that describes the child.

   [pair_ok ty a b]  — may a child with path a stand (anywhere) BEFORE a child with path b?  Let g be the group in which
   the two paths part (find_common_group; for a = b the group that directly contains the entry):
      g Sequence : a < b lexicographically, or a = b and the entry's multiplicity is Any
      g Choice   : a = b and the entry's multiplicity is Any
      g Bag/Mixed: always.
   [Ordered ty v items] — every sub-element name resolves and every pair i < j of sub-elements is pair_ok. *)
From AV Require Import Base.Bytes Base.Outcome Spec.SpecOps Tree.Heap.
Open Scope list_scope.
Open Scope N_scope.

(* lexicographic comparison of index paths (Vec<usize>::cmp) *)
Fixpoint ix_cmp (a b : list N) : comparison :=
  match a, b with
  | [], [] => Eq
  | [], _ :: _ => Lt
  | _ :: _, [] => Gt
  | x :: a', y :: b' => match x ?= y with Eq => ix_cmp a' b' | c => c end
  end.
Fixpoint ix_eqb (a b : list N) : bool :=
  match a, b with [], [] => true | x :: a', y :: b' => (x =? y) && ix_eqb a' b' | _, _ => false end.

(* insertion into a list at position p (p <= length) *)
Fixpoint ins {A} (l : list A) (p : nat) (x : A) : list A :=
  match p, l with
  | O, _ => x :: l
  | S p', y :: l' => y :: ins l' p' x
  | S _, [] => [x]
  end.

Section Range.
Variable T : tables.

(* the index path of a sub-element name *)
Definition idx_of (ty : etype) (v name : N) : option (list N) :=
  match find_sub_element T ty name v with Val (Some (_, ix)) => Some ix | _ => None end.

(* ElementMultiplicity::Any *)
Definition mult_any (ty : etype) (ix : list N) : bool :=
  match get_sub_element_multiplicity T ty ix with Val (Some m) => m =? 2 | _ => false end.

Definition group_mode (g : N) : option N := match dt T g with Val d => Some (dt_mode d) | _ => None end.

Definition pair_ok (ty : etype) (a b : list N) : bool :=
  match find_common_group T ty a b with
  | Val g =>
    match group_mode g with
    | Some m =>
      if m =? MSequence then match ix_cmp a b with Lt => true | Eq => mult_any ty a | Gt => false end
      else if m =? MChoice then ix_eqb a b && mult_any ty a
      else (m =? MBag) || (m =? MMixed)
    | None => false
    end
  | _ => false
  end.

Fixpoint all_pairs_ok (ty : etype) (l : list (list N)) : bool :=
  match l with
  | [] => true
  | a :: r => forallb (pair_ok ty a) r && all_pairs_ok ty r
  end.

(* the index paths of the sub-elements of a child list, in order; None when some name does not resolve *)
Fixpoint paths_of (ty : etype) (v : N) (items : list (option N)) : option (list (list N)) :=
  match items with
  | [] => Some []
  | None :: r => paths_of ty v r
  | Some name :: r =>
    match idx_of ty v name, paths_of ty v r with
    | Some ix, Some l => Some (ix :: l)
    | _, _ => None
    end
  end.

Definition orderedb (ty : etype) (v : N) (items : list (option N)) : bool :=
  match paths_of ty v items with Some l => all_pairs_ok ty l | None => false end.

Definition Ordered (ty : etype) (v : N) (items : list (option N)) : Prop := orderedb ty v items = true.

(* ------------------------------------------------------------------ what the loader checks
   parser.rs parse_element, per start tag of a child (names that resolve in the file version; the version fallback and
   unknown names produce other warnings and are not part of this definition):
     check_element_conflict(previous child's path, this path): different paths parting in a Choice group -> ElementChoiceConflict
     check_multiplicity (only when the content so far is not empty): container group Sequence/Choice, multiplicity not Any,
       and an earlier child carries the same NAME -> TooManySubElements
   [loader_complaints] returns, in order, (true, name) for an ElementChoiceConflict and (false, name) for a
   TooManySubElements; None when a name does not resolve or a table access of the Rust would panic. *)
(* Some true: ElementChoiceConflict;  None: the Rust would panic (a table index) *)
Definition choice_conflict (ty : etype) (prev ix : list N) : option bool :=
  match prev with
  | [] => Some false
  | _ => if ix_eqb prev ix then Some false else
         match find_common_group T ty prev ix with
         | Val g => match group_mode g with
                    | Some m => if m =? MCharacters then None else Some (m =? MChoice)
                    | None => None
                    end
         | _ => None
         end
  end.

(* Some true: TooManySubElements *)
Definition too_many (ty : etype) (ix : list N) (name : N) (seen : list (option N)) : option bool :=
  match seen with
  | [] => Some false
  | _ =>
    match get_sub_element_container_mode T ty ix with
    | Val m =>
      if (m =? MSequence) || (m =? MChoice) then
        match get_sub_element_multiplicity T ty ix with
        | Val (Some mu) => Some (negb (mu =? 2) && existsb (fun s => match s with Some n => n =? name | None => false end) seen)
        | Val None => Some false
        | _ => None
        end
      else Some false
    | _ => None
    end
  end.

Fixpoint loader_scan (ty : etype) (v : N) (prev : list N) (seen : list (option N)) (items : list (option N))
  : option (list (bool * N)) :=
  match items with
  | [] => Some []
  | None :: r => loader_scan ty v prev (seen ++ [None]) r
  | Some name :: r =>
    match idx_of ty v name with
    | None => None
    | Some ix =>
      match choice_conflict ty prev ix, too_many ty ix name seen, loader_scan ty v ix (seen ++ [Some name]) r with
      | Some cc, Some tm, Some rest =>
        Some ((if cc then [(true, name)] else []) ++ (if tm then [(false, name)] else []) ++ rest)
      | _, _, _ => None
      end
    end
  end.

Definition loader_complaints (ty : etype) (v : N) (items : list (option N)) := loader_scan ty v [] [] items.
Definition LoaderAccepts (ty : etype) (v : N) (items : list (option N)) : Prop := loader_complaints ty v items = Some [].

End Range.

(* ------------------------------------------------------------------ the child list of a node of the heap model *)
Definition item_of (w : world) (c : citem) : option (option N) :=
  match c with
  | CData _ => Some None
  | CElem i => match w_nodes w i with Some cn => Some (Some (n_name cn)) | None => None end
  end.
Fixpoint items_of (w : world) (l : list citem) : option (list (option N)) :=
  match l with
  | [] => Some []
  | c :: r => match item_of w c, items_of w r with Some x, Some xs => Some (x :: xs) | _, _ => None end
  end.

(* ------------------------------------------------------------------ Examples on a small hand-made table set:
   type 0 = Sequence [ e0 "A" (One) ; group 1 ; e3 "D" (Any) ],  group 1 = Choice [ e1 "B" (ZeroOrOne) ; e2 "C" (Any) ],
   type 2 = Characters (the type of every leaf). *)
Definition ex_elements (i : N) : option elemdef :=
  match i with
  | 0 => Some {| ed_name := 10; ed_type := 2; ed_mult := 1; ed_ordered := 0; ed_split := 0; ed_restrict := 0 |}
  | 1 => Some {| ed_name := 11; ed_type := 2; ed_mult := 0; ed_ordered := 0; ed_split := 0; ed_restrict := 0 |}
  | 2 => Some {| ed_name := 12; ed_type := 2; ed_mult := 2; ed_ordered := 0; ed_split := 0; ed_restrict := 0 |}
  | 3 => Some {| ed_name := 13; ed_type := 2; ed_mult := 2; ed_ordered := 0; ed_split := 0; ed_restrict := 0 |}
  | _ => None
  end.
Definition ex_subelements (i : N) : option (N * N) :=
  match i with 0 => Some (0, 0) | 1 => Some (1, 1) | 2 => Some (0, 3) | 3 => Some (0, 1) | 4 => Some (0, 2) | _ => None end.
Definition ex_dt (a b ver mode : N) : dtype :=
  {| dt_sub_start := a; dt_sub_end := b; dt_sub_ver := ver; dt_attr_start := 0; dt_attr_end := 0; dt_attr_ver := 0;
     dt_cdata := 0; dt_mode := mode; dt_ref_start := 0; dt_ref_end := 0 |}.
Definition ex_datatypes (i : N) : option dtype :=
  match i with 0 => Some (ex_dt 0 3 0 0) | 1 => Some (ex_dt 3 5 3 1) | 2 => Some (ex_dt 0 0 0 3) | _ => None end.
Definition ex_tables : tables := {|
  T_elements := ex_elements; n_elements := 4; T_subelements := ex_subelements; n_subelements := 5;
  T_attributes := fun _ => None; n_attributes := 0; T_version_info := fun i => if i <? 5 then Some 1 else None; n_version_info := 5;
  T_datatypes := ex_datatypes; n_datatypes := 3; T_ref_items := fun _ => None; n_ref_items := 0;
  T_cdata := fun _ => None; n_cdata := 0; reference_type_idx := 99; autosar_element := 0; name_short_name := 77; attr_dest := 0 |}.

Example ex_idx_B : idx_of ex_tables (0, 0) 1 11 = Some [1; 0]. Proof. reflexivity. Qed.
Example ex_ordered_1 : orderedb ex_tables (0, 0) 1 [Some 10; Some 12; Some 12; Some 13; None; Some 13] = true.
Proof. reflexivity. Qed.
Example ex_not_ordered_order : orderedb ex_tables (0, 0) 1 [Some 13; Some 10] = false. Proof. reflexivity. Qed.
Example ex_not_ordered_choice : orderedb ex_tables (0, 0) 1 [Some 11; Some 12] = false. Proof. reflexivity. Qed.
Example ex_not_ordered_twice : orderedb ex_tables (0, 0) 1 [Some 10; Some 10] = false. Proof. reflexivity. Qed.
Example ex_not_ordered_unknown : orderedb ex_tables (0, 0) 1 [Some 55] = false. Proof. reflexivity. Qed.
(* the loader does not look at sequence order, and sees a choice conflict only between NEIGHBOURS *)
Example ex_loader_order : loader_complaints ex_tables (0, 0) 1 [Some 13; Some 10] = Some []. Proof. reflexivity. Qed.
Example ex_loader_choice : loader_complaints ex_tables (0, 0) 1 [Some 11; Some 12] = Some [(true, 12)]. Proof. reflexivity. Qed.
Example ex_loader_choice_apart : loader_complaints ex_tables (0, 0) 1 [Some 11; Some 13; Some 12] = Some []. Proof. reflexivity. Qed.
Example ex_loader_twice : loader_complaints ex_tables (0, 0) 1 [Some 10; Some 13; Some 10] = Some [(false, 10)]. Proof. reflexivity. Qed.
