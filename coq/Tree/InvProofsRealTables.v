(* Tree/InvProofsRealTables.v — C03: [F] the regenerated specification tables RT satisfy RefChars (every reference type
   is a Characters-mode type), checked by vm_compute over all datatypes; the invariant theorem for T = RT. *)
From Coq Require Import PeanoNat Arith.
From AV Require Import Base.Bytes Base.Outcome Hash.HashModel Spec.SpecOps Spec.SpecReal Tree.Heap Tree.Ops Tree.Script
  Tree.Inv Tree.InvProofs Tree.InvProofsChars Tree.InvProofsOrigins3 Tree.InvProofsReal Tree.SpecWFReal.
Open Scope string_scope.
Open Scope list_scope.
Open Scope N_scope.

Definition idxsN (n : N) : list N := map N.of_nat (seq 0 (N.to_nat n)).
Lemma idxsN_spec n i : i < n -> In i (idxsN n).
Proof. intros H. unfold idxsN. apply in_map_iff. exists (N.to_nat i). split; [lia|]. apply in_seq. lia. Qed.

Definition ref_chars_dt (T : tables) (d : dtype) : bool :=
  if dt_cdata d =? 0 then true
  else if dt_cdata d - 1 =? reference_type_idx T then dt_mode d =? MCharacters else true.

Definition ref_chars_b (T : tables) : bool :=
  forallb (fun ty => match T_datatypes T ty with Some d => ref_chars_dt T d | None => true end) (idxsN (n_datatypes T)).

Lemma ref_chars_sound T :
  (forall ty d, T_datatypes T ty = Some d -> ty < n_datatypes T) -> ref_chars_b T = true -> RefChars T.
Proof.
  intros Hb Hc ty Hr. unfold is_ref, content_mode, dt, unwrap in *.
  destruct (T_datatypes T (snd ty)) as [d|] eqn:Hd; cbn [bind] in *; [|discriminate].
  unfold ref_chars_b in Hc. rewrite forallb_forall in Hc.
  specialize (Hc (snd ty) (idxsN_spec _ _ (Hb _ _ Hd))). rewrite Hd in Hc. unfold ref_chars_dt in Hc.
  destruct (dt_cdata d =? 0); [discriminate|]. injection Hr as Hr. rewrite Hr in Hc.
  apply N.eqb_eq in Hc. rewrite Hc. reflexivity.
Qed.

Lemma ref_chars_real_b : ref_chars_b RT = true.
Proof. vm_compute. reflexivity. Qed.

Theorem RefChars_real : RefChars RT.
Proof. apply ref_chars_sound; [exact real_dt_bound | exact ref_chars_real_b]. Qed.

Theorem RealInv_step_real tab_el tab_en check_fn LATEST root_attrs o w r w' :
  RealInv RT w -> Inv.Known_failed_reparent RT tab_el tab_en check_fn LATEST root_attrs w o = false ->
  Inv.run RT tab_el tab_en check_fn LATEST root_attrs o w = Val (r, w') -> RealInv RT w'.
Proof. apply RealInv_step. exact RefChars_real. Qed.

(* the same statement in the order asked for by the follow-up package *)
Theorem inv_real tab_el tab_en check_fn LATEST root_attrs o w r w' :
  Inv.Known_failed_reparent RT tab_el tab_en check_fn LATEST root_attrs w o = false ->
  TreeInv w /\ CharsLeaf RT w /\ OriginsRef RT w ->
  Inv.run RT tab_el tab_en check_fn LATEST root_attrs o w = Val (r, w') ->
  TreeInv w' /\ CharsLeaf RT w' /\ OriginsRef RT w'.
Proof. intros HK I H. exact (RealInv_step_real _ _ _ _ _ _ _ _ _ I HK H). Qed.

Theorem refchars_real_both : ref_chars_b RT = true /\ RefChars RT.
Proof. exact (conj ref_chars_real_b RefChars_real). Qed.

Theorem RealInv_histories_real tab_el tab_en check_fn LATEST root_attrs l w w' :
  RealInv RT w -> Inv.clean_rep_ops RT tab_el tab_en check_fn LATEST root_attrs l w = true ->
  Inv.run_ops RT tab_el tab_en check_fn LATEST root_attrs l w = Val w' -> RealInv RT w'.
Proof. apply RealInv_histories. exact RefChars_real. Qed.
