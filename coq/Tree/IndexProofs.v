(* Tree/IndexProofs.v — C04, assembly.
   [P] C04_inv_partial       every operation outside Known04 (findings) and Pending04 (proof not finished) keeps Inv04
   [P] C04_history_partial   ... along every history
   [U] C04_lookup            get_element_by_path returns exactly the identifiable element of the model with that path
   [U] C04_enumeration       the identifiables map lists each identifiable element once, under its path, nothing else
   [U] C04_unique_paths      no two identifiable elements of one model have the same path
   [U] C04_path_concat       Element::path() = concatenation of "/"+item name over identifiable ancestors-or-self
   Pending04 (constructor list): OpCopy OpCopyAt OpMove OpMoveAt OpSetItemName OpRemoveFile OpRemoveFromFile. *)
From AV Require Import Base.Bytes Base.Outcome Hash.HashModel Tree.Heap Tree.Ops Tree.Script Tree.IndexProofsW
  Tree.Index Tree.IndexProofsBase Tree.IndexProofsAssoc Tree.IndexProofsFrame Tree.IndexProofsAttach
  Tree.IndexProofsCreate Tree.IndexProofsNamed Tree.IndexProofsEdit Tree.IndexProofsModel Tree.IndexProofsRemoveOp Tree.IndexProofsRenameOps
  Tree.IndexProofsFilesOps.
Open Scope string_scope.
Open Scope list_scope.
Open Scope N_scope.

Lemma welem_inv (m : W id) w r w' : welem m w = Val (r, w') -> exists r0, m w = Val (r0, w').
Proof.
  unfold welem. intros H. apply wbind_inv in H as [(a & w1 & E & H)|(e & E & _)]; [|eauto].
  apply wret_inv in H as (_ & ->). eauto.
Qed.
Lemma wunit_inv (m : W unit) w r w' : wunit m w = Val (r, w') -> exists r0, m w = Val (r0, w').
Proof.
  unfold wunit. intros H. apply wbind_inv in H as [(a & w1 & E & H)|(e & E & _)]; [|eauto].
  apply wret_inv in H as (_ & ->). eauto.
Qed.
Lemma wval_inv {A} (m : W A) (f : A -> value) w r w' :
  (do b <- m; wret (f b))%W w = Val (r, w') -> exists r0, m w = Val (r0, w').
Proof.
  intros H. apply wbind_inv in H as [(a & w1 & E & H)|(e & E & _)]; [|eauto].
  apply wret_inv in H as (_ & ->). eauto.
Qed.

Section C04.
Variable T : tables.
Variable tab_el tab_en : nametab.
Variable check_fn : N -> list N -> res bool.
Variable LATEST : N.
Variable root_attrs : list (N * cdata).
Hypothesis TK : TablesOK T check_fn.

Notation Inv04 := (Inv04 T check_fn).
Notation run := (run_op T tab_el tab_en check_fn LATEST root_attrs).

Lemma Inv04_sv w w' : SV w w' -> Inv04 w -> Inv04 w'.
Proof. intros H. apply Inv04_iv. apply SV_IV. exact H. Qed.

Theorem C04_inv_partial w o r w' :
  TreeFacts w -> Inv04 w -> Known04 T LATEST w o = false -> Pending04 w o = false ->
  run o w = Val (r, w') -> Inv04 w'.
Proof.
  intros HF HI HK HP H. destruct o; cbn [run_op] in H; try discriminate HP.
  - apply welem_inv in H as (r0 & H). eapply C04_create_sub; eauto.
  - apply welem_inv in H as (r0 & H). eapply C04_create_sub_at; eauto.
  - apply welem_inv in H as (r0 & H). eapply C04_create_named; eauto.
  - apply welem_inv in H as (r0 & H). eapply C04_create_named_at; eauto.
  - apply wunit_inv in H as (r0 & H). eapply C04_remove; eauto.
  - apply wunit_inv in H as (r0 & H). eapply C04_remove_kind; eauto.
  - apply wunit_inv in H as (r0 & H). eapply C04_set_cdata; eauto.
  - apply wunit_inv in H as (r0 & H). eapply C04_remove_cdata; eauto.
  - apply wunit_inv in H as (r0 & H). eapply C04_insert_citem; eauto.
  - apply wunit_inv in H as (r0 & H). eapply C04_remove_citem; eauto.
  - apply wunit_inv in H as (r0 & H). eapply C04_set_reference_target; eauto.
  - apply wunit_inv in H as (r0 & H). eapply Inv04_sv; [eapply e_set_attribute_sv; eauto|exact HI].
  - apply wval_inv in H as (r0 & H). eapply Inv04_sv; [eapply e_remove_attribute_sv; eauto|exact HI].
  - apply wunit_inv in H as (r0 & H). eapply Inv04_sv; [eapply e_set_comment_sv; eauto|exact HI].
  - apply welem_inv in H as (r0 & H). eapply C04_get_or_create_sub; eauto.
  - apply welem_inv in H as (r0 & H). eapply C04_get_or_create_named; eauto.
  - apply wval_inv in H as (r0 & H). eapply C04_new_model; eauto.
  - apply wval_inv in H as (r0 & H). eapply Inv04_sv; [eapply m_create_file_sv; eauto|exact HI].
  - apply wunit_inv in H as (r0 & H).
    eapply (C45_remove_file T check_fn TK LATEST false) in H as (_ & H4 & _); eauto. discriminate.
  - apply wunit_inv in H as (r0 & H). eapply Inv04_sv; [eapply e_add_to_file_sv; eauto|exact HI].
  - apply wunit_inv in H as (r0 & H).
    eapply (C45_remove_from_file T check_fn TK LATEST false) in H as (_ & H4 & _); eauto. discriminate.
Qed.

(* ---------- all histories *)
Fixpoint run_hist (l : list op) (w : world) : res world :=
  match l with
  | [] => Val w
  | o :: rest => match run o w with Val (_, w') => run_hist rest w' | Pan s => Pan s | Fuel => Fuel end
  end.

(* every step starts in a structurally well-formed world (C03) and is outside the finding / pending classes *)
Fixpoint steps_ok (l : list op) (w : world) : Prop :=
  match l with
  | [] => True
  | o :: rest =>
    TreeFacts w /\ Known04 T LATEST w o = false /\ Pending04 w o = false /\
    match run o w with Val (_, w') => steps_ok rest w' | _ => True end
  end.

Theorem C04_history_partial l : forall w w',
  Inv04 w -> steps_ok l w -> run_hist l w = Val w' -> Inv04 w'.
Proof.
  induction l as [|o rest IH]; intros w w' HI Hok H; cbn in *.
  - injection H as <-. exact HI.
  - destruct Hok as (HF & HK & HP & Hrest). destruct (run o w) as [[r w1]| |] eqn:E; try discriminate.
    eapply IH; [|exact Hrest|exact H]. eapply C04_inv_partial; eauto.
Qed.

Lemma Inv04_empty : Inv04 (mkWorld (fun _ => None) 0 [] []).
Proof.
  constructor.
  - intros i n H. discriminate H.
  - intros i n s H. discriminate H.
  - intros i n H. discriminate H.
  - intros i n H. discriminate H.
  - intros m x Hx. unfold model_at in Hx. cbn in Hx. discriminate.
  - intros m x Hx. unfold model_at in Hx. cbn in Hx. discriminate.
Qed.

(* ---------- what the invariant says about the observations *)
Theorem C04_lookup w m p r w' :
  Inv04 w -> q_get_by_path m p w = Val (r, w') ->
  w' = w /\ exists x, model_at w m = Some x /\ r = OK (assoc_get p (m_idents x)) /\
  forall i, assoc_get p (m_idents x) = Some i <-> PathSet T w m p i.
Proof.
  intros HI H. unfold q_get_by_path, get_element_by_path in H. wmodel H x Hx. winv H.
  split; [reflexivity|]. exists x. split; [exact Hx|]. split; [reflexivity|]. intros i. apply (i4_exact _ _ _ HI m x Hx).
Qed.

Theorem C04_unique_paths w m : Inv04 w -> UniquePaths T w m.
Proof.
  intros HI i j p Hi Hj. destruct Hi as (Hr & Hrest). destruct Hr as (x & Hx & Hreach).
  assert (Hi : PathSet T w m p i) by (split; [exists x; auto|exact Hrest]).
  apply (i4_exact _ _ _ HI m x Hx) in Hi. apply (i4_exact _ _ _ HI m x Hx) in Hj. congruence.
Qed.

Theorem C04_enumeration w m x :
  TreeFacts w -> Inv04 w -> model_at w m = Some x ->
  (forall p i, In (p, i) (m_idents x) <-> PathSet T w m p i) /\
  NoDup (map fst (m_idents x)) /\ NoDup (map snd (m_idents x)).
Proof.
  intros HF HI Hx. pose proof (i4_nodup _ _ _ HI m x Hx) as Hnd. pose proof (i4_exact _ _ _ HI m x Hx) as Hex.
  assert (Hin : forall p i, In (p, i) (m_idents x) <-> PathSet T w m p i).
  { intros p i. rewrite <- Hex. symmetry. apply assoc_get_iff. exact Hnd. }
  split; [exact Hin|]. split; [exact Hnd|].
  (* each element once: an element has one path only *)
  assert (Hfun : forall p1 p2 i, In (p1, i) (m_idents x) -> In (p2, i) (m_idents x) -> p1 = p2).
  { intros p1 p2 i H1 H2. apply Hin in H1 as (_ & _ & S1). apply Hin in H2 as (_ & _ & S2).
    destruct (specpath_fun T _ _ _ _ _ _ HF S1 S2) as (_ & ->). reflexivity. }
  unfold NoDupKeys in Hnd. revert Hnd Hfun. generalize (m_idents x) as l. clear.
  induction l as [|[p i] l IH]; intros Hnd Hfun; cbn; constructor.
  - intros Hi. apply in_map_iff in Hi as ([p2 i2] & Hi2 & Hin2). cbn in Hi2. subst i2.
    assert (p = p2) by (eapply Hfun; [left; reflexivity|right; exact Hin2]). subst p2.
    inversion Hnd; subst. apply H1. apply (in_map fst) in Hin2. exact Hin2.
  - inversion Hnd; subst. apply IH; [assumption|]. intros p1 p2 i0 H3 H4. eapply Hfun; right; eauto.
Qed.

Theorem C04_path_concat w m i n :
  TreeFacts w -> w_nodes w i = Some n -> MReach T w m i ->
  path_of T n w <> Fuel /\
  forall r w', path_of T n w = Val (r, w') ->
    w' = w /\
    if identifiable T w i then exists p, r = OK p /\ SpecPath T w m i p else r = ER ElementNotIdentifiable.
Proof. apply path_of_spec. Qed.

End C04.
