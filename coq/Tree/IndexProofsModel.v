(* Tree/IndexProofsModel.v — C04: AutosarModel::new keeps Inv04 (a fresh root, an empty index). *)
From Coq Require Import PeanoNat Arith.
From AV Require Import Base.Bytes Base.Outcome Hash.HashModel Tree.Heap Tree.Ops Tree.Script Tree.IndexProofsW
  Tree.Index Tree.IndexProofsBase Tree.IndexProofsAssoc Tree.IndexProofsFrame Tree.IndexProofsAttach.
Open Scope string_scope.
Open Scope list_scope.
Open Scope N_scope.

Lemma nth_opt_app_l {A} (l l2 : list A) k : (k < List.length l)%nat -> nth_opt (l ++ l2) k = nth_opt l k.
Proof. revert k. induction l as [|x l IH]; intros [|k] H; cbn in *; try lia; auto. apply IH. lia. Qed.
Lemma nth_opt_app_r {A} (l l2 : list A) k : (List.length l <= k)%nat -> nth_opt (l ++ l2) k = nth_opt l2 (k - List.length l).
Proof. revert k. induction l as [|x l IH]; intros [|k] H; cbn in *; try lia; auto. apply IH. lia. Qed.
Lemma nth_opt_none {A} (l : list A) k : (List.length l <= k)%nat -> nth_opt l k = None.
Proof. revert k. induction l as [|x l IH]; intros [|k] H; cbn in *; try lia; auto. apply IH. lia. Qed.

Section Model.
Variable T : tables.
Variable check_fn : N -> list N -> res bool.
Hypothesis TK : TablesOK T check_fn.
Notation Inv04 := (Inv04 T check_fn).
Notation SHORTN := (name_short_name T).

(* a fresh node that nobody lists and that lists nobody *)
Section Fresh.
Variables (w : world) (r : id) (nr : node) (nx : N) (ms : list model).
Hypothesis HF : TreeFacts w.
Hypothesis Hr : w_nodes w r = None.
Hypothesis Hleaf : n_content nr = [].
Let w' := mkWorld (upd (w_nodes w) r nr) nx (w_files w) ms.

Lemma fresh_other j : j <> r -> w_nodes w' j = w_nodes w j.
Proof. intros H. cbn. apply upd_neq. exact H. Qed.
Lemma fresh_self : w_nodes w' r = Some nr.
Proof. cbn. apply upd_eq. Qed.
Lemma fresh_old j nj : w_nodes w j = Some nj -> w_nodes w' j = Some nj.
Proof. intros H. rewrite fresh_other; [exact H|]. intros ->. congruence. Qed.

Lemma fresh_child p c : child_of w' p c <-> child_of w p c.
Proof.
  unfold child_of. destruct (N.eq_dec p r) as [->|Hne].
  - rewrite fresh_self, Hr. split; intros (x & [= <-] & Hc). rewrite Hleaf in Hc. destruct Hc.
  - rewrite fresh_other by exact Hne. tauto.
Qed.
Lemma fresh_readings j nj : w_nodes w j = Some nj ->
  item_name_n T w' nj = item_name_n T w nj /\ identifiable_n T w' nj = identifiable_n T w nj /\ seg_n T w' nj = seg_n T w nj.
Proof.
  intros Hj. apply readings_ext; [reflexivity|]. rewrite !short_child_hd.
  destruct (hd_error (n_content nj)) as [[s|d]|] eqn:Eh; try reflexivity.
  assert (Hs : child_of w j s).
  { exists nj. split; [exact Hj|]. destruct (n_content nj); cbn in Eh; [discriminate|]. injection Eh as ->. left. reflexivity. }
  destruct (tf_up _ HF _ _ Hs) as (sn & Hsn & _). rewrite (fresh_old _ _ Hsn), Hsn. reflexivity.
Qed.
Lemma fresh_seg j : j <> r -> seg T w' j = seg T w j.
Proof.
  intros Hne. unfold seg. rewrite fresh_other by exact Hne. destruct (w_nodes w j) as [nj|] eqn:Ej; [|reflexivity].
  apply (fresh_readings _ _ Ej).
Qed.
Lemma fresh_identifiable j : j <> r -> identifiable T w' j = identifiable T w j.
Proof.
  intros Hne. unfold identifiable. rewrite fresh_other by exact Hne. destruct (w_nodes w j) as [nj|] eqn:Ej; [|reflexivity].
  apply (fresh_readings _ _ Ej).
Qed.
Lemma fresh_not_child p : ~ child_of w p r.
Proof. intros H. destruct (tf_up _ HF _ _ H) as (cn & Hcn & _). congruence. Qed.

Lemma fresh_dpath a i q : a <> r -> (dpath T w' a i q <-> dpath T w a i q).
Proof.
  intros Ha. split; intros H; induction H as [|p c q Hp IH Hc]; try constructor.
  - apply fresh_child in Hc. assert (c <> r) by (intros ->; eapply fresh_not_child; eauto).
    rewrite fresh_seg by assumption. econstructor; eauto.
  - assert (c <> r) by (intros ->; eapply fresh_not_child; eauto).
    rewrite <- fresh_seg by assumption. econstructor; [exact IH|]. apply fresh_child. exact Hc.
Qed.
Lemma fresh_dpath_self i q : dpath T w' r i q -> i = r.
Proof.
  intros H. induction H as [|p c q Hp IH Hc]; [reflexivity|]. subst p.
  destruct Hc as (x & Hx & Hc). rewrite fresh_self in Hx. injection Hx as <-. rewrite Hleaf in Hc. destruct Hc.
Qed.
Lemma fresh_not_identifiable : identifiable T w' r = false.
Proof. unfold identifiable. rewrite fresh_self. apply leaf_not_identifiable. exact Hleaf. Qed.

(* the side invariants *)
Lemma fresh_side :
  Inv04 w -> n_name nr <> SHORTN ->
  ShortTyped T check_fn w' /\ SlashFree T w' /\ AllNamed T w' /\ CharsLeaf T w'.
Proof.
  intros [I1 I2 I3 IL _ _] Hnm. split; [|split; [|split]].
  - intros j nj Hj Hs. destruct (N.eq_dec j r) as [->|Hne].
    + rewrite fresh_self in Hj. injection Hj as <-. contradiction.
    + rewrite fresh_other in Hj by exact Hne. eapply I1; eauto.
  - intros j nj s Hj Hs Hcd. destruct (N.eq_dec j r) as [->|Hne].
    + rewrite fresh_self in Hj. injection Hj as <-. contradiction.
    + rewrite fresh_other in Hj by exact Hne. eapply I2; eauto.
  - intros j nj Hj Hid. destruct (N.eq_dec j r) as [->|Hne].
    + rewrite fresh_self in Hj. injection Hj as <-. rewrite (leaf_not_identifiable T _ _ Hleaf) in Hid. discriminate.
    + rewrite fresh_other in Hj by exact Hne. destruct (fresh_readings _ _ Hj) as (E1 & E2 & _). rewrite E1. rewrite E2 in Hid.
      eapply I3; eauto.
  - intros j nj Hj Hm. destruct (N.eq_dec j r) as [->|Hne].
    + rewrite fresh_self in Hj. injection Hj as <-. left. exact Hleaf.
    + rewrite fresh_other in Hj by exact Hne. eapply IL; eauto.
Qed.

(* a model of w' whose root is an old node and whose index is that of the model of w at the same place *)
Lemma fresh_pathset m x p i :
  model_at w' m = Some x -> model_at w m = Some x -> (PathSet T w' m p i <-> PathSet T w m p i).
Proof.
  intros Hx' Hx. destruct (tf_roots _ HF _ _ Hx) as (nroot & Hroot & _).
  assert (Hrr : m_root x <> r) by (intros E; rewrite E in Hroot; congruence).
  assert (Hin : forall q, dpath T w (m_root x) i q -> i <> r).
  { intros q Hd ->. destruct (dpath_alloc T _ _ _ _ Hd) as [E|(pp & Hc)]; [congruence|]. eapply fresh_not_child; eauto. }
  unfold PathSet, MReach, SpecPath, reach, spath. split.
  - intros ((x1 & Hx1 & (q1 & Hd1)) & Hid & (x2 & Hx2 & (q2 & Hd2 & ->))).
    rewrite Hx' in Hx1, Hx2. injection Hx1 as <-. injection Hx2 as <-.
    apply fresh_dpath in Hd1; [|exact Hrr]. apply fresh_dpath in Hd2; [|exact Hrr].
    split; [exists x; split; [exact Hx|exists q1; exact Hd1]|]. split; [rewrite <- fresh_identifiable; [exact Hid|eapply Hin; eauto]|].
    exists x. split; [exact Hx|]. exists q2. split; [exact Hd2|]. rewrite fresh_seg by exact Hrr. reflexivity.
  - intros ((x1 & Hx1 & (q1 & Hd1)) & Hid & (x2 & Hx2 & (q2 & Hd2 & ->))).
    rewrite Hx in Hx1, Hx2. injection Hx1 as <-. injection Hx2 as <-.
    split; [exists x; split; [exact Hx'|exists q1; apply fresh_dpath; [exact Hrr|exact Hd1]]|].
    split; [rewrite fresh_identifiable; [exact Hid|eapply Hin; eauto]|].
    exists x. split; [exact Hx'|]. exists q2. split; [apply fresh_dpath; [exact Hrr|exact Hd2]|]. rewrite fresh_seg by exact Hrr. reflexivity.
Qed.

Lemma fresh_ref_text j : j <> r -> ref_text T w' j = ref_text T w j.
Proof. intros Hne. unfold ref_text. rewrite fresh_other by exact Hne. reflexivity. Qed.
Lemma fresh_ref_text_self : ref_text T w' r = None.
Proof. unfold ref_text. rewrite fresh_self. rewrite (leaf_no_cdata T _ Hleaf). destruct (isref T (n_type nr)); reflexivity. Qed.
Lemma fresh_refset m x p i :
  model_at w' m = Some x -> model_at w m = Some x -> (RefSet T w' m p i <-> RefSet T w m p i).
Proof.
  intros Hx' Hx. destruct (tf_roots _ HF _ _ Hx) as (nroot & Hroot & _).
  assert (Hrr : m_root x <> r) by (intros E; rewrite E in Hroot; congruence).
  assert (Hin : forall q, dpath T w (m_root x) i q -> i <> r).
  { intros q Hd ->. destruct (dpath_alloc T _ _ _ _ Hd) as [E|(pp & Hc)]; [congruence|]. eapply fresh_not_child; eauto. }
  unfold RefSet, MReach, reach. split.
  - intros ((x1 & Hx1 & (q1 & Hd1)) & Ht). rewrite Hx' in Hx1. injection Hx1 as <-.
    apply fresh_dpath in Hd1; [|exact Hrr]. split; [exists x; split; [exact Hx|exists q1; exact Hd1]|].
    rewrite <- fresh_ref_text; [exact Ht|eapply Hin; eauto].
  - intros ((x1 & Hx1 & (q1 & Hd1)) & Ht). rewrite Hx in Hx1. injection Hx1 as <-.
    split; [exists x; split; [exact Hx'|exists q1; apply fresh_dpath; [exact Hrr|exact Hd1]]|].
    rewrite fresh_ref_text; [exact Ht|eapply Hin; eauto].
Qed.

End Fresh.

Theorem C04_new_model root_attrs w r w' :
  TreeFacts w -> Inv04 w -> new_model T root_attrs w = Val (r, w') -> Inv04 w'.
Proof.
  intros HF HI H. unfold new_model in H.
  destruct (et_new T (autosar_element T)) as [ty| |] eqn:Ety; try discriminate.
  2:{ destruct (elem T (autosar_element T)); discriminate. }
  destruct (elem T (autosar_element T)) as [ed| |] eqn:Eed; try discriminate.
  injection H as <- <-.
  set (rid := w_next w). set (nr := mkNode (PModel (N.of_nat (List.length (w_models w)))) (ed_name ed) ty [] root_attrs [] None).
  assert (Hr : w_nodes w rid = None).
  { destruct (w_nodes w rid) as [x|] eqn:E; [|reflexivity]. pose proof (tf_alloc _ HF _ _ E). unfold rid in *. lia. }
  assert (Hnm : n_name nr <> SHORTN) by (cbn; eapply (tk_root _ _ TK); eauto).
  destruct (fresh_side w rid nr (rid + 1) (w_models w ++ [mkModel rid [] [] []]) HF Hr eq_refl HI Hnm) as (S1 & S2 & S3 & S4).
  constructor; try assumption.
  - intros m x Hx p i. unfold model_at in Hx. cbn [w_models] in Hx.
    destruct (Nat.lt_ge_cases (N.to_nat m) (List.length (w_models w))) as [Hlt|Hge].
    + rewrite nth_opt_app_l in Hx by exact Hlt. rewrite (i4_exact _ _ _ HI m x Hx p i). symmetry.
      apply (fresh_pathset w rid nr (rid + 1) _ HF Hr eq_refl m x p i); [|exact Hx].
      unfold model_at. cbn [w_models]. rewrite nth_opt_app_l by exact Hlt. exact Hx.
    + rewrite nth_opt_app_r in Hx by exact Hge. destruct (N.to_nat m - List.length (w_models w))%nat as [|k] eqn:Ek; cbn in Hx.
      2:{ destruct k; discriminate. }
      injection Hx as <-. cbn [m_idents assoc_get]. split; [discriminate|].
      intros ((x1 & Hx1 & (q & Hd)) & Hid & _). exfalso.
      unfold model_at in Hx1. cbn [w_models] in Hx1. rewrite nth_opt_app_r, Ek in Hx1 by exact Hge. cbn in Hx1. injection Hx1 as <-.
      cbn [m_root] in Hd. apply (fresh_dpath_self w rid nr (rid + 1) _ eq_refl) in Hd. subst i.
      rewrite (fresh_not_identifiable w rid nr (rid + 1) _ eq_refl) in Hid. discriminate.
  - intros m x Hx. unfold model_at in Hx. cbn [w_models] in Hx.
    destruct (Nat.lt_ge_cases (N.to_nat m) (List.length (w_models w))) as [Hlt|Hge].
    + rewrite nth_opt_app_l in Hx by exact Hlt. apply (i4_nodup _ _ _ HI m x Hx).
    + rewrite nth_opt_app_r in Hx by exact Hge. destruct (N.to_nat m - List.length (w_models w))%nat as [|k] eqn:Ek; cbn in Hx.
      2:{ destruct k; discriminate. }
      injection Hx as <-. constructor.
Qed.

End Model.
